(* Correspondence evaluators for C10: the model of Dumper.ValueLit (repaired code) against what
   snippet.Value wrote, and the property's own sentence evaluated on the implementation's output. *)
Require Export Gengo.Base.Bytes Gengo.Model.ValueLit Gengo.Model.ValueLitInst.
From Coq Require Export ZArith.

Inductive obs :=
| OPanic
| OText (txt : bytes) (parsed : option lit).   (* the bytes written; go/parser's reading of them (None: not an expression) *)

Record case := mk_case {
  c_locals : list (bytes * bytes);   (* registered imports: path -> local name, plus (own package path, "") *)
  c_quotes : list (bytes * bytes);   (* s -> strconv.Quote(s) for every string in the value *)
  c_ftab : list (bytes * bytes);     (* "32:"/"64:" ++ numeric token -> canonical text of strconv.ParseFloat *)
  c_type : gotype;
  c_val : goval fl;
  c_obs : obs
}.

(* the float texts of the case satisfy the hypotheses the theorems make on strconv's two formats *)
Definition float_hyps_ok (x : fl) : bool :=
  if fl_big x then match parse_int (fl_g x) with None => true | Some _ => false end
  else match parse_int (fl_f x) with Some z => int_const_ok z | None => true end.

Definition model (c : case) : res lit := i_value_lit (c_quotes c) (c_locals c) true false (c_type c) (c_val c).

Definition mismatch (c : case) : bool :=
  negb (forallb float_hyps_ok (floats_of (c_val c))) ||
  match model c, c_obs c with
  | Ok l, OText txt p =>
      negb (bytes_eqb (i_print (c_quotes c) (c_locals c) l) txt) ||
      match p with
      | Some l' => negb (lit_eqb l l')
      | None => negb (has_empty l)
      end
  | Panic, OPanic => false
  | _, _ => true
  end.

(* the property: the text is an expression which, where a value of the type is expected, denotes a
   deeply equal value (nil and empty identified; omitted struct fields are zero) *)
Definition holds (c : case) : bool :=
  match c_obs c with
  | OText _ (Some l) =>
      match i_denote (c_ftab c) (c_type c) l with
      | Some v' => deep_eqb (c_val c) v'
      | None => false
      end
  | _ => false
  end.

Definition mismatches (cs : list case) : list nat := bad_indices mismatch cs.
Definition violations (cs : list case) : list nat := bad_indices (fun c => negb (holds c)) cs.
