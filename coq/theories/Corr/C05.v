(* Correspondence evaluators for C05.  One case = one module and one set of generators, run several times from
   the same initial tree: "together" runs (several entrypoints, in some order) and, for every package, the run in
   which that package alone is requested. *)
Require Export Gengo.Corr.Pipe.

Record run := mk_run {
  r_world : world; r_fmt : list (bytes * option bytes); r_after : fs; r_trace : trace; r_out : obs_outcome }.

Record case := mk_case {
  c_all : bool; c_force : bool; c_base : bytes;
  c_gens : list sgen;
  c_before : fs;
  c_together : list run;
  c_singles : list (bytes * run)        (* package path -> the run that requests only that package *)
}.

Definition c_args (c : case) : args := {| a_all := c_all c; a_force := c_force c; a_base := c_base c |}.

Definition one_mismatch (c : case) (r : run) : bool :=
  run_mismatch_either (c_args c) (r_world r) (c_gens c) (r_fmt r) (c_before c) (r_after r) (r_trace r) (r_out r).

Definition mismatch (c : case) : bool :=
  existsb (one_mismatch c) (c_together c) || existsb (fun pr => one_mismatch c (snd pr)) (c_singles c).

Fixpoint find_single (pkg : bytes) (l : list (bytes * run)) : option run :=
  match l with
  | [] => None
  | (k, r) :: t => if bytes_eqb k pkg then Some r else find_single pkg t
  end.

Definition is_done (o : obs_outcome) : bool := match o with ODone => true | _ => false end.

(* every file of p's directory (gengo.sum apart) is the same in both trees *)
Definition dir_agree (w : world) (p : pkginfo) (s1 s2 : fs) : bool :=
  forallb (fun q => negb (bytes_eqb (fst q) (pk_dir p)) || path_eqb q (sum_path w)
                    || content_eqb (fs_lookup q s1) (fs_lookup q s2))
          (all_paths [s1; s2]).

(* the property: in every successful together-run, every selected package has exactly the files it has when it is
   requested alone *)
Definition holds (c : case) : bool :=
  forallb (fun r =>
    negb (is_done (r_out r)) ||
    forallb (fun p =>
      negb (selected (c_args c) (r_world r) p) ||
      match find_single (pk_path p) (c_singles c) with
      | Some sr => negb (is_done (r_out sr)) || dir_agree (r_world r) p (r_after r) (r_after sr)
      | None => true
      end) (w_pkgs (r_world r)))
  (c_together c).

Definition mismatches (cs : list case) : list nat := bad_indices mismatch cs.
Definition violations (cs : list case) : list nat := bad_indices (fun c => negb (holds c)) cs.
