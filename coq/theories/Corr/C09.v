(* Correspondence evaluators for C09: model vs observation, and the property's own predicate
   (tokenise-then-substitute, Model/SnippetSpec.v — no scanner loop) evaluated on what the
   implementation wrote. *)
Require Export Gengo.Base.Bytes Gengo.Model.Snippet Gengo.Model.SnippetSpec.

Record case := mk_case {
  c_snip : snip;                 (* the snippet term that was built with the real package *)
  c_obs : option bytes;          (* bytes written by SnippetWriter.Render; None = it panicked *)
  c_bom : bool;                  (* harness classifier: leading_bom *)
  c_nolit : bool                 (* harness classifier: value_literal_unavailable *)
}.

Definition obs_eqb (r : res bytes) (o : option bytes) : bool :=
  match r, o with
  | Ok b, Some b' => bytes_eqb b b'
  | Panic, None => true
  | _, _ => false
  end.

(* model (the repaired code) vs implementation; the two classifiers exist in Go and in Gallina *)
Definition mismatch (c : case) : bool :=
  negb (obs_eqb (render all_fixed (c_snip c)) (c_obs c))
  || negb (Bool.eqb (cls_bom (c_snip c)) (c_bom c))
  || negb (Bool.eqb (cls_nolit (c_snip c)) (c_nolit c)).

(* the property: on its domain (formats are well-formed UTF-8) what was written is the format
   text without its leading newlines with every @name replaced by the complete rendering of its
   argument, etc. — [spec_render same OutOfFuel]: formats read as they are; a %v argument without
   a value literal has no specified rendering (no observation equals OutOfFuel) *)
Definition holds (c : case) : bool :=
  negb (fmts_utf8 (c_snip c)) || obs_eqb (spec_render same OutOfFuel (c_snip c)) (c_obs c).

Definition mismatches (cs : list case) : list nat := bad_indices mismatch cs.

(* diagnostic only (not used by bin/check): the model of the code BEFORE fixes/C09-*.diff *)
Definition mismatches_before_fix (cs : list case) : list nat :=
  bad_indices (fun c => negb (obs_eqb (render none_fixed (c_snip c)) (c_obs c))) cs.
Definition violations (cs : list case) : list nat := bad_indices (fun c => negb (holds c)) cs.
