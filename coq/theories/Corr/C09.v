(* Correspondence evaluators for C09: model vs observation, and the property's own predicate
   (tokenise-then-substitute, Model/SnippetSpec.v — no scanner loop) evaluated on what the
   implementation wrote. *)
Require Export Gengo.Base.Bytes Gengo.Model.Snippet Gengo.Model.SnippetSpec.
Require Export Gengo.Model.RenderStack Gengo.Model.ValueLit Gengo.Model.ValueLitInst.
Require Import Gengo.Model.GoIdent Gengo.Model.TrackerSpec Gengo.Gen.StdList.
From Coq Require Export ZArith.

(* ---- RenderStack: the same term with STRUCTURED leaves (values of C10's universe, types / references of C11 / C15),
   rendered by the composed model through C03's tracker, compared with the text AND with Imports() ---- *)
Record scase := mk_stack {
  s_self : bytes;                        (* rawNamer.pkgPath of the writer *)
  s_quotes : list (bytes * bytes);       (* s -> strconv.Quote(s) for every string in a value *)
  s_term : @csnip fl;                    (* the term: Value / ID / PkgExpose leaves and Sprintf arguments as data *)
  s_imports : list (bytes * bytes)       (* ImportTracker.Imports() after the rendering: (path, name), sorted by path *)
}.

Record case := mk_case0 {
  c_snip : snip;                 (* the snippet term that was built with the real package; sub-renderings of Value / ID
                                    leaves observed in the FINAL tracker state (RenderStack: crender_erase) *)
  c_obs : option bytes;          (* bytes written by SnippetWriter.Render; None = it panicked *)
  c_bom : bool;                  (* harness classifier: leading_bom *)
  c_nolit : bool;                (* harness classifier: value_literal_unavailable *)
  c_stack : option scase         (* the structured term, when every leaf is inside the composed model *)
}.
Definition mk_case (s : snip) (o : option bytes) (b n : bool) : case := mk_case0 s o b n None.
Definition mk_scase (s : snip) (o : option bytes) (b n : bool) (sc : scase) : case := mk_case0 s o b n (Some sc).

(* fixes/C10-6-zero-struct-import.diff is in the tree *)
Definition stack_fx6 : bool := true.

Definition s_model (sc : scase) : res (bytes * TL.renv) :=
  crender i_fzero i_ffmt i_gfmt i_fbig (i_quote (s_quotes sc)) (fun _ => true) the_pick (s_self sc) stack_fx6 (s_term sc) [].

Definition pair_eqb (a b : bytes * bytes) : bool := bytes_eqb (fst a) (fst b) && bytes_eqb (snd a) (snd b).
Definition table_eqb (e obs : list (bytes * bytes)) : bool := list_eqb pair_eqb (Tk.sort_by_key e) obs.

Definition stack_mismatch (o : option bytes) (sc : scase) : bool :=
  match s_model sc, o with
  | Ok (out, e'), Some b => negb (bytes_eqb out b) || negb (table_eqb e' (s_imports sc))
  | Panic, None => false
  | _, _ => true
  end.

(* ---- C03's sentence read off the written text and Imports() alone: the names bound in the table are pairwise
   distinct valid identifiers that shadow nothing, and they are exactly the qualifiers occurring in the text (none
   unused, none missing).  A qualifier: a maximal identifier directly followed by '.' and an identifier start, outside
   string literals. ---- *)
Definition dq : ascii := ascii_of_N 34.
Definition bsl : ascii := ascii_of_N 92.
Definition c_dot : ascii := "."%char.

Fixpoint quals_go (s : bytes) (run : bytes) (instr esc : bool) : list bytes :=
  match s with
  | [] => []
  | c :: r =>
      if instr then
        if esc then quals_go r [] true false
        else if Ascii.eqb c bsl then quals_go r [] true true
        else if Ascii.eqb c dq then quals_go r [] false false
        else quals_go r [] true false
      else if Ascii.eqb c dq then quals_go r [] true false
      else if ident_char c then quals_go r (c :: run) false false
      else if Ascii.eqb c c_dot then
        (match rev run, r with
         | h :: _, d :: _ => if ident_start h && ident_start d then [rev run] else []
         | _, _ => []
         end) ++ quals_go r [] false false
      else quals_go r [] false false
  end.
Definition quals (s : bytes) : list bytes := quals_go s [] false false.

(* the qualifiers of the leaf renderings that the SPECIFICATION (tokenise, substitute: Model/SnippetSpec.v) puts into
   the text: holes that occur and whose argument is not nil, arguments a verb consumes.  Read off the erased term
   (the leaf texts are observations); no scanner loop, no tracker. *)
Fixpoint verb_quals (ts : list stok) (args : list (list bytes * list bytes)) : list bytes :=
  match ts with
  | [] => []
  | KV :: r => match args with [] => [] | a :: args' => fst a ++ verb_quals r args' end
  | SnippetSpec.KT :: r => match args with [] => [] | a :: args' => snd a ++ verb_quals r args' end
  | KBad _ :: _ => []
  | _ :: r => verb_quals r args
  end.

Definition oquals (o : option bytes) : list bytes := match o with Some t => quals t | None => [] end.

Fixpoint spec_quals (s : snip) : list bytes :=
  match s with
  | ST f args =>
      let tbl := map (fun p => (fst p, if isnil_of (snd p) then [] else spec_quals (snd p))) args in
      flat_map (fun t => match t with
                         | Hole n _ => match lookup n tbl with Some l => l | None => [] end
                         | Lit _ => []
                         end) (tokenize (trim_nl f))
  | SSprintf f args =>
      verb_quals (stokenize f)
        (map (fun a => match a with
                       | SVal vl ti => (oquals vl, oquals ti)
                       | _ => (spec_quals a, spec_quals a)
                       end) args)
  | SSnippets l => flat_map (fun c => if isnil_of c then [] else spec_quals c) l
  | SFragments x => if isnil_of x then [] else spec_quals x
  | SOpaque _ out => oquals out
  | _ => []
  end.

Definition stack_holds (o : option bytes) (erased : snip) (sc : scase) : bool :=
  match o with
  | None => true
  | Some _ =>
      let names := map snd (s_imports sc) in
      nodup_b names && nodup_b (map fst (s_imports sc))
      && forallb valid_name_b names && forallb (not_predeclared_b universe_names) names
      && same_set_b (if isnil_of erased then [] else spec_quals erased) names
  end.

Definition obs_eqb (r : res bytes) (o : option bytes) : bool :=
  match r, o with
  | Ok b, Some b' => bytes_eqb b b'
  | Panic, None => true
  | _, _ => false
  end.

(* model (the repaired code) vs implementation; the two classifiers exist in Go and in Gallina *)
Definition mismatch (c : case) : bool :=
  negb (obs_eqb (render all_fixed (c_snip c)) (c_obs c))
  || negb (Bool.eqb (cls_bom (c_snip c)) (c_bom c))
  || negb (Bool.eqb (cls_nolit (c_snip c)) (c_nolit c))
  || match c_stack c with Some sc => stack_mismatch (c_obs c) sc | None => false end.

(* the property: on its domain (formats are well-formed UTF-8) what was written is the format
   text without its leading newlines with every @name replaced by the complete rendering of its
   argument, etc. — [spec_render same OutOfFuel]: formats read as they are; a %v argument without
   a value literal has no specified rendering (no observation equals OutOfFuel) *)
Definition holds (c : case) : bool :=
  (negb (fmts_utf8 (c_snip c)) || obs_eqb (spec_render same OutOfFuel (c_snip c)) (c_obs c))
  && match c_stack c with Some sc => stack_holds (c_obs c) (c_snip c) sc | None => true end.

Definition mismatches (cs : list case) : list nat := bad_indices mismatch cs.

(* diagnostic only (not used by bin/check): the model of the code BEFORE fixes/C09-*.diff *)
Definition mismatches_before_fix (cs : list case) : list nat :=
  bad_indices (fun c => negb (obs_eqb (render none_fixed (c_snip c)) (c_obs c))) cs.
Definition violations (cs : list case) : list nat := bad_indices (fun c => negb (holds c)) cs.

(* ---- constructors of the structured term, as the case files write them ---- *)
Definition QNil : @csnip fl := RNil _ _.
Definition QBlock (b : bytes) : @csnip fl := RBlock _ _ b.
Definition QT (f : bytes) (args : list (bytes * @csnip fl)) : @csnip fl := RT _ _ f args.
Definition QSprintf (f : bytes) (args : list (@csnip fl)) : @csnip fl := RSprintf _ _ f args.
Definition QRaw (a : @rawarg fl) : @csnip fl := RRaw _ _ a.
Definition QComment (v : bytes) : @csnip fl := RComment _ _ v.
Definition QDirective (d : bytes) (args : list bytes) : @csnip fl := RDirective _ _ d args.
Definition QSnippets (l : list (@csnip fl)) : @csnip fl := RSnippets _ _ l.
Definition QFragments (x : @csnip fl) : @csnip fl := RFragments _ _ x.
Definition QValue (t : gotype) (v : goval fl) : @csnip fl := RLeaf _ _ (LValue (Some (t, v))).
Definition QValueNil : @csnip fl := RLeaf _ _ (@LValue fl None).
Definition QID (x : TL.idarg) : @csnip fl := RLeaf _ _ (@LID fl (Some x)).
Definition QIDNil : @csnip fl := RLeaf _ _ (@LID fl None).
Definition QExpose (p n : bytes) : @csnip fl := RLeaf _ _ (@LExpose fl p n).
