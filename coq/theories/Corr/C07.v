(* Correspondence evaluators for C07: model vs observation, and the property's own sentence evaluated on
   the observed trees (no model run inside [holds]). *)
Require Export Gengo.Corr.Pipe.

Record case := mk_case {
  c_all : bool; c_force : bool; c_base : bytes;
  c_world : world;                          (* what gengo's loader reported for the entrypoints *)
  c_gens : list sgen;                       (* scripts of the registered generators, in Execute order *)
  c_fmt : list (bytes * option bytes);      (* assembled source -> reference formatter's output *)
  c_before : fs;                            (* every file of the module tree before Execute *)
  c_after : fs;                             (* ... and after *)
  c_trace : trace;                          (* what the recording generators logged *)
  c_out : obs_outcome
}.

Definition c_args (c : case) : args := {| a_all := c_all c; a_force := c_force c; a_base := c_base c |}.

Definition mismatch (c : case) : bool :=
  run_mismatch (c_args c) (c_world c) (c_gens c) (c_fmt c) (c_before c) (c_after c) (c_trace c) (c_out c).

(* ---- the property ---- *)

Definition own_output_b (c : case) (q : path) : bool :=
  existsb (fun p => spec_processed (c_args c) (c_world c) (c_before c) p
                    && bytes_eqb (fst q) (pk_dir p)
                    && prefixb (c_base c ++ bs ".") (snd q)) (w_pkgs (c_world c))
  || (c_all c && path_eqb q (sum_path (c_world c))).

(* every file that is not <base>.<something> inside a processed package (nor gengo.sum under All) is byte-identical *)
Definition frame_ok (c : case) : bool :=
  forallb (fun q => own_output_b c q || content_eqb (fs_lookup q (c_after c)) (fs_lookup q (c_before c)))
          (all_paths [c_before c; c_after c]).

Definition kept (c : case) (p : pkginfo) (g : sgen) : bool :=
  rendered_obs (c_trace c) (sg_name g) (pk_path p)
  || (ignored_obs (c_trace c) (sg_name g) (pk_path p)
      && exists_in (c_before c) (gen_file (c_args c) p (sg_name g))).

(* after a successful run, in every processed package: a generator's file exists iff it rendered something,
   or it signalled ErrIgnore, rendered nothing and had a file before; every other <base>.* Go file of the package is gone *)
Definition package_ok (c : case) (p : pkginfo) : bool :=
  forallb (fun g => Bool.eqb (exists_in (c_after c) (gen_file (c_args c) p (sg_name g))) (kept c p g)) (c_gens c)
  && forallb (fun f =>
        negb (prefixb (c_base c ++ bs ".") f)
        || existsb (fun g => bytes_eqb f (fname (c_args c) (sg_name g)) && kept c p g) (c_gens c)
        || negb (exists_in (c_after c) (pk_dir p, f))) (pk_files p).

Definition holds (c : case) : bool :=
  frame_ok c
  && (c_all c || content_eqb (fs_lookup (sum_path (c_world c)) (c_after c)) (fs_lookup (sum_path (c_world c)) (c_before c)))
  && match c_out c with
     | ODone => forallb (fun p => negb (spec_processed (c_args c) (c_world c) (c_before c) p) || package_ok c p)
                        (w_pkgs (c_world c))
     | _ => true
     end.

Definition mismatches (cs : list case) : list nat := bad_indices mismatch cs.
Definition violations (cs : list case) : list nat := bad_indices (fun c => negb (holds c)) cs.
