(* Correspondence evaluators for C20: model vs observation, and the property's own sentence
   evaluated on what the implementation returned. *)
Require Export Gengo.Base.Bytes Gengo.Model.Inflector Gengo.Model.InflectorRegexp Gengo.Gen.InflectorTables Gengo.Model.InflectorApi.

Record case := mk_case {
  c_plural : bool;             (* true: inflector.Pluralize, false: inflector.Singularize *)
  c_pre : bytes;               (* the string handed to the implementation is c_pre ++ c_word *)
  c_word : bytes;
  c_full : option bytes;       (* result on c_pre ++ c_word; None = panicked *)
  c_alone : option bytes       (* result on c_word alone *)
}.

(* the code in the repository is the repaired Rule.inflected *)
Definition current_fixed : bool := true.

Definition res_opt_eqb (r : res bytes) (o : option bytes) : bool :=
  match r, o with
  | Ok a, Some b => bytes_eqb a b
  | Panic, None => true
  | _, _ => false
  end.

(* The complete model (irregular table, uninflected list AND the ordered regexp suffix rules, all
   extracted from the source on this run): the FULL result is compared on every case. *)
Definition model_on (c : case) (s : bytes) : res bytes := api_full current_fixed (c_plural c) s.

Definition mismatch (c : case) : bool :=
  negb (res_opt_eqb (model_on c (c_pre c ++ c_word c)) (c_full c))
  || negb (res_opt_eqb (model_on c (c_word c)) (c_alone c)).

(* the property, as a predicate on the two observed results: both calls returned; if the last
   word is an irregular word of the table (in any ASCII case) and is preceded by a word boundary,
   the result is the untouched prefix followed by what the word gives on its own *)
Definition holds (c : case) : bool :=
  match c_full c, c_alone c with
  | Some full, Some alone =>
      if irregularb (api_table (c_plural c)) (c_word c) && at_boundary (c_pre c)
      then bytes_eqb full (c_pre c ++ alone)
      else true
  | _, _ => false
  end.

Definition mismatches (cs : list case) : list nat := bad_indices mismatch cs.
Definition violations (cs : list case) : list nat := bad_indices (fun c => negb (holds c)) cs.
