(* Correspondence evaluators for C08.

   A History case is a synthetic module (packages with a static import graph), its scanned file tree, and a
   history of steps; after EVERY step the harness scanned the module again and read gengo.sum, and for every
   run it recorded which packages the recording generator was instantiated for, the error, the directory
   hash of every package when the run started (computed by the harness with dirhash, leaving the module's
   own gengo.sum out — the hash the property talks about) and what sumfile.Load returned before and after.

   [mismatch]   steps the model (Model/SumCache.v, repaired code = fixed_all) through the same history with
                H and the generator instantiated by tables built from the observations, and compares tree,
                gengo.sum, executed list and error kind after every step.
   [holds]      the sentences of the property over input + observations only (no model of Execute).

   A SumIO case feeds arbitrary bytes to sumfile.Load and an arbitrary map to File.Bytes. *)
Require Export Gengo.Base.Bytes Gengo.Model.SumFile Gengo.Model.SumCache.

(* ---------- concrete world ---------- *)
Definition files := list (N * N).            (* file id -> content id, ascending ids; id 0 = zz_generated.rec.go *)
Definition ctree := list (N * files).        (* package index -> the files of its directory that are not in a
                                                nested package's directory; every package present, ascending *)
Definition ccontent := (list (N * files) * option bytes)%type.

Inductive cop :=
| CSet (p f v : N)             (* create / overwrite file f of package p *)
| CDel (p f : N)
| CDelSum
| CCorrupt (b : bytes)
| CBlock
| CRun (all force : bool) (entry : list N) (fail : option N)
       (cancel : option (option N)).   (* the context handed to Execute: None = never cancelled; Some None = cancelled
                                          (or its deadline passed) before the call; Some (Some p) = cancelled (or the
                                          deadline passes) while package p is generated, if p is executed at all *)

Inductive csum := CSMissing | CSFile (b : bytes) | CSBlocked.

Record crun := mk_crun {
  o_executed : list N;                         (* packages the generator was instantiated for, in order *)
  o_err : N;                                   (* 0 none | 1 injected generator failure | 2 saving gengo.sum failed | 3 other
                                                  | 4 the context's own error (context.Canceled / DeadlineExceeded) *)
  o_hashes : list (option bytes);              (* per package index: directory hash when the run started; None = not hashable *)
  o_loaded : option (list (bytes * bytes));    (* sumfile.Load before the run, sorted by key; None = error *)
  o_reloaded : option (list (bytes * bytes));  (* sumfile.Load after the run *)
  o_ctxdone : bool                             (* ctx.Err() <> nil when Execute returned *)
}.

Record cobs := mk_cobs { o_tree : ctree; o_sum : csum; o_run : option crun }.

Inductive case :=
| History (modp : bytes) (pkgs : list (bytes * list N)) (tree0 : ctree) (steps : list (cop * cobs))
| SumIO (data : bytes) (loaded : list (bytes * bytes)) (m : list (bytes * bytes)) (out : bytes)
        (reloaded : list (bytes * bytes)).

(* transport only: a gengo.sum that is exactly a sequence of "key value\n" lines is sent as that sequence
   (the case-file writer checks the equality byte for byte before it uses this form) *)
Definition slines (m : list (bytes * bytes)) : bytes :=
  flat_map (fun kv => fst kv ++ sp :: snd kv ++ [nl]) m.

(* ---------- equality tests ---------- *)
Definition pairN_eqb (a b : N * N) : bool := (fst a =? fst b)%N && (snd a =? snd b)%N.
Definition files_eqb : files -> files -> bool := list_eqb pairN_eqb.
Definition pf_eqb (a b : N * files) : bool := (fst a =? fst b)%N && files_eqb (snd a) (snd b).
Definition ctree_eqb : ctree -> ctree -> bool := list_eqb pf_eqb.
Definition ccontent_eqb (a b : ccontent) : bool :=
  ctree_eqb (fst a) (fst b) && option_eqb bytes_eqb (snd a) (snd b).
Definition kv_eqb (a b : bytes * bytes) : bool := bytes_eqb (fst a) (fst b) && bytes_eqb (snd a) (snd b).
Definition csum_eqb (a b : csum) : bool :=
  match a, b with
  | CSMissing, CSMissing | CSBlocked, CSBlocked => true
  | CSFile x, CSFile y => bytes_eqb x y
  | _, _ => false
  end.

(* ---------- files / trees ---------- *)
Fixpoint f_get (fs : files) (f : N) : option N :=
  match fs with [] => None | (g, v) :: r => if (g =? f)%N then Some v else f_get r f end.
Fixpoint f_del (fs : files) (f : N) : files :=
  match fs with [] => [] | (g, v) :: r => if (g =? f)%N then r else (g, v) :: f_del r f end.
Fixpoint f_set (fs : files) (f v : N) : files :=
  match fs with
  | [] => [(f, v)]
  | (g, w) :: r => if (g =? f)%N then (f, v) :: r else if (f <? g)%N then (f, v) :: fs else (g, w) :: f_set r f v
  end.
Fixpoint t_files (t : ctree) (p : N) : files :=
  match t with [] => [] | (q, fs) :: r => if (q =? p)%N then fs else t_files r p end.
Fixpoint t_upd (t : ctree) (p : N) (g : files -> files) : ctree :=
  match t with [] => [] | (q, fs) :: r => if (q =? p)%N then (q, g fs) :: r else (q, fs) :: t_upd r p g end.

Fixpoint is_prefix (a b : bytes) : bool :=
  match a, b with
  | [], _ => true
  | x :: a', y :: b' => byte_eqb x y && is_prefix a' b'
  | _ :: _, [] => false
  end.

Section World.
  Variable modp : bytes.
  Variable pkgs : list (bytes * list N).

  Definition path_of (p : N) : bytes := fst (nth (N.to_nat p) pkgs ([], [])).
  Definition imports_of (p : N) : list N := snd (nth (N.to_nat p) pkgs ([], [])).
  Fixpoint idx_from (i : N) (l : list (bytes * list N)) (path : bytes) : N :=
    match l with
    | [] => i
    | (q, _) :: r => if bytes_eqb q path then i else idx_from (i + 1)%N r path
    end.
  Definition idx_of (path : bytes) : N := idx_from 0 pkgs path.
  Definition all_idx : list N := map N.of_nat (seq 0 (length pkgs)).

  (* the directory of p contains the directory of q *)
  Definition covers (p q : N) : bool :=
    bytes_eqb (path_of p) (path_of q) || is_prefix (path_of p ++ [ascii_of_N 47]) (path_of q).

  (* "the directory of package p": everything below it, nested packages included; the module's gengo.sum
     lies in the directory of a package at the module root *)
  Definition dir_key (t : ctree) (sumb : option bytes) (p : N) : ccontent :=
    (filter (fun qf => covers p (fst qf)) t, if bytes_eqb (path_of p) modp then sumb else None).

  (* local packages of a run: the entrypoints and what they import, transitively (all in this module) *)
  Definition memN (x : N) (l : list N) : bool := existsb (N.eqb x) l.
  Fixpoint add_new (xs acc : list N) : list N :=
    match xs with [] => acc | x :: r => if memN x acc then add_new r acc else add_new r (acc ++ [x]) end.
  Fixpoint closure (fuel : nat) (acc : list N) : list N :=
    match fuel with
    | O => acc
    | S k => closure k (add_new (flat_map imports_of acc) acc)
    end.
  Definition local_idx (entry : list N) : list (N * bool) :=
    map (fun p => (p, memN p entry)) (closure (length pkgs) (add_new entry [])).

  (* ---------- instantiation of the model's Section variables ---------- *)
  Variable Htab : list (ccontent * option bytes).
  Variable Gtab : list ((N * files) * option N).

  Fixpoint H_lookup (tab : list (ccontent * option bytes)) (c : ccontent) : option bytes :=
    match tab with
    | [] => Some [ascii_of_N 63]                       (* unknown directory state: a hash nothing equals *)
    | (k, h) :: r => if ccontent_eqb k c then h else H_lookup r c
    end.
  Definition cH (c : ccontent) : option bytes := H_lookup Htab c.

  Definition cdirc (t : ctree) (sumb : option bytes) (path : bytes) : ccontent := dir_key t sumb (idx_of path).

  Fixpoint G_lookup (tab : list ((N * files) * option N)) (k : N * files) : option N :=
    match tab with
    | [] => Some 999999%N                              (* never observed: a content nothing equals *)
    | (k', v) :: r => if pf_eqb k' k then v else G_lookup r k
    end.
  Definition cgen (t : ctree) (path : bytes) : ctree :=
    let p := idx_of path in
    let src := f_del (t_files t p) 0 in
    match G_lookup Gtab (p, src) with
    | Some v => t_upd t p (fun fs => f_set fs 0 v)
    | None => t_upd t p (fun fs => f_del fs 0)
    end.

  Definition clocals (_ : ctree) (entry : list bytes) : list (bytes * bool) :=
    map (fun pd => (path_of (fst pd), snd pd)) (local_idx (map idx_of entry)).

  Definition to_sumstate (s : csum) : sumstate :=
    match s with CSMissing => SumMissing | CSFile b => SumFile b | CSBlocked => SumUnreadable end.
  Definition of_sumstate (s : sumstate) : csum :=
    match s with SumMissing => CSMissing | SumFile b => CSFile b | SumUnreadable => CSBlocked end.

  Definition mstate := state ctree.
  Definition err_code (e : errkind) : N := match e with ENone => 0 | EGen => 1 | ESave => 2 end.

  (* one model step; for a run also the executed packages (indices) and the error code *)
  Definition model_step (o : cop) (st : mstate) : mstate * option (list N * N) :=
    match o with
    | CSet p f v => (step ctree ccontent cH cdirc cgen clocals fixed_all
                          (Edit (fun t => t_upd t p (fun fs => f_set fs f v))) st, None)
    | CDel p f => (step ctree ccontent cH cdirc cgen clocals fixed_all
                        (Edit (fun t => t_upd t p (fun fs => f_del fs f))) st, None)
    | CDelSum => (step ctree ccontent cH cdirc cgen clocals fixed_all DeleteSum st, None)
    | CCorrupt b => (step ctree ccontent cH cdirc cgen clocals fixed_all (CorruptSum b) st, None)
    | CBlock => (step ctree ccontent cH cdirc cgen clocals fixed_all BlockSum st, None)
    | CRun all force entry fail cancel =>
        let a := {| r_all := all; r_force := force; r_entry := map path_of entry;
                    r_fail := option_map path_of fail |} in
        let c := match cancel with
                 | None => CtxLive | Some None => CtxDoneAtCall | Some (Some p) => CtxDoneIn (path_of p)
                 end in
        let '(st', (evs, e)) := run_ctx ctree ccontent cH cdirc cgen clocals fixed_all c a st in
        (st', Some (map idx_of (executed evs), err_code e))
    end.

  Definition run_eqb (m : option (list N * N)) (o : option crun) : bool :=
    match m, o with
    | None, None => true
    | Some (ex, e), Some r => list_eqb N.eqb ex (o_executed r) && (e =? o_err r)%N
    | _, _ => false
    end.

  Fixpoint model_agrees (st : mstate) (steps : list (cop * cobs)) : bool :=
    match steps with
    | [] => true
    | (o, ob) :: rest =>
        let (st', r) := model_step o st in
        ctree_eqb (st_tree st') (o_tree ob) && csum_eqb (of_sumstate (st_sum st')) (o_sum ob)
        && run_eqb r (o_run ob) && model_agrees st' rest
    end.
End World.

(* ---------- tables built from the observations ---------- *)
Definition opt_bytes_eq (a b : option bytes) : bool := option_eqb bytes_eqb a b.

(* (directory state, hash) for every package at the start of every run *)
Fixpoint H_entries (modp : bytes) (pkgs : list (bytes * list N)) (before : ctree) (steps : list (cop * cobs))
  : list (ccontent * option bytes) :=
  match steps with
  | [] => []
  | (_, ob) :: rest =>
      match o_run ob with
      | Some r =>
          map (fun ph => (dir_key modp pkgs before None (fst ph), snd ph))
              (combine (all_idx pkgs) (o_hashes r))
      | None => []
      end ++ H_entries modp pkgs (o_tree ob) rest
  end.

(* the table is a function, and an injective one on hashable states (what H_inj assumes of dirhash; it
   also shows that the scan distinguishes every directory state dirhash distinguishes and vice versa) *)
Fixpoint H_consistent (tab : list (ccontent * option bytes)) : bool :=
  match tab with
  | [] => true
  | (k, h) :: r =>
      forallb (fun kh => if ccontent_eqb k (fst kh) then opt_bytes_eq h (snd kh)
                         else match h, snd kh with
                              | Some a, Some b => negb (bytes_eqb a b)
                              | _, _ => true
                              end) r
      && H_consistent r
  end.

(* (package, its own files without the generated one) -> generated file afterwards, for every package a
   successful-so-far run executed *)
Fixpoint G_entries (before : ctree) (steps : list (cop * cobs)) : list ((N * files) * option N) :=
  match steps with
  | [] => []
  | (o, ob) :: rest =>
      match o, o_run ob with
      | CRun _ _ _ fail _, Some r =>
          flat_map (fun p =>
                      if match fail with Some f => (f =? p)%N | None => false end then []
                      else [((p, f_del (t_files before p) 0), f_get (t_files (o_tree ob) p) 0)])
                   (o_executed r)
      | _, _ => []
      end ++ G_entries (o_tree ob) rest
  end.

Fixpoint G_functional (tab : list ((N * files) * option N)) : bool :=
  match tab with
  | [] => true
  | (k, v) :: r =>
      forallb (fun kv => negb (pf_eqb k (fst kv)) || option_eqb N.eqb v (snd kv)) r && G_functional r
  end.

(* ---------- the property's own sentences ---------- *)
Fixpoint strictly_sorted (ks : list bytes) : bool :=
  match ks with
  | a :: (b :: _) as r => bytes_leb a b && negb (bytes_eqb a b) && strictly_sorted r
  | _ => true
  end.

(* "one `path hash` line per entry, in sorted order" *)
Definition spec_bytes (m : list (bytes * bytes)) : bytes :=
  flat_map (fun kv => fst kv ++ sp :: snd kv ++ [nl]) m.

Fixpoint kv_get (m : list (bytes * bytes)) (k : bytes) : option bytes :=
  match m with [] => None | (k', v) :: r => if bytes_eqb k' k then Some v else kv_get r k end.

Definition opt_N_eqb (o : option N) (p : N) : bool := match o with Some q => (q =? p)%N | None => false end.

Fixpoint last_opt (l : list N) : option N :=
  match l with [] => None | [x] => Some x | _ :: r => last_opt r end.

Fixpoint upto (f : N) (l : list N) : list N :=
  match l with [] => [] | x :: r => if (x =? f)%N then [x] else x :: upto f r end.

Section Holds.
  Variable modp : bytes.
  Variable pkgs : list (bytes * list N).

  Definition sorted_by_path (l : list N) : list N := sort_by (path_of pkgs) l.

  (* the state the last successful All run started from, while nothing else wrote gengo.sum since *)
  Definition writer := option ctree.

  Definition same_run (a b : cop) : bool :=
    match a, b with
    | CRun true false e1 None None, CRun true false e2 None None => list_eqb N.eqb e1 e2
    | _, _ => false
    end.

  Definition holds_run (all force : bool) (entry : list N) (fail : option N) (before : ctree) (sum_before : csum)
             (w : writer) (streak : nat) (ob : cobs) (r : crun) : bool :=
    let loc := local_idx pkgs entry in
    let scope := sorted_by_path (map fst (filter (fun pd => all || snd pd) loc)) in
    let failed_here := match fail with Some f => memN f (o_executed r) | None => false end in
    (* a run that ends with the context's error gave up somewhere: it got at least as far as the last package
       it executed (the property does not say how far a run has to go once its caller has given up) *)
    let ctx_err := (o_err r =? 4)%N in
    let reached := if ctx_err then match last_opt (o_executed r) with Some l => upto l scope | None => [] end
                   else match fail with Some f => if failed_here then upto f scope else scope | None => scope end in
    let hash p := nth (N.to_nat p) (o_hashes r) None in
    let recorded p := match o_loaded r with Some m => kv_get m (path_of pkgs p) | None => None end in
    let must_regen p :=
        force || negb all
        || match sum_before with CSFile _ => false | _ => true end
        || match o_loaded r with None => true | Some _ => false end
        || match recorded p, hash p with
           | Some x, Some h => negb (bytes_eqb x h)
           | _, _ => true                              (* no entry, or the directory cannot be hashed *)
           end in
    let hashable := forallb (fun pd => match hash (fst pd) with Some _ => true | None => false end) loc in
    let want := map (fun p => (path_of pkgs p, match hash p with Some h => h | None => [] end))
                    (sorted_by_path (map fst loc)) in
    (* the generator runs only for packages in scope, each at most once, in sorted order *)
    list_eqb N.eqb (o_executed r) (filter (fun p => memN p (o_executed r)) reached)
    (* an executed failing package fails the run, and nothing else does *)
    && Bool.eqb failed_here (o_err r =? 1)%N
    && ((o_err r =? 0)%N || (o_err r =? 1)%N || ((o_err r =? 2)%N && match sum_before with CSBlocked => true | _ => false end)
        (* the context's error only when the context was in fact cancelled / expired *)
        || (ctx_err && o_ctxdone r))
    (* skipped only if Force is off and the recorded hash equals the hash of the directory; Force, a missing or
       unreadable gengo.sum, a missing entry, a different hash make it regenerate *)
    && forallb (fun p => negb (must_regen p) || memN p (o_executed r)) reached
    (* never skips a package whose directory differs from the state the recorded hash was taken from *)
    && match w with
       | Some t0 => forallb (fun p => memN p (o_executed r)
                                      || ccontent_eqb (dir_key modp pkgs before None p) (dir_key modp pkgs t0 None p)) reached
       | None => true
       end
    (* after a successful All run: exactly one line per local package, sorted, the load-time hashes; reading
       it back gives the same mapping.  Otherwise gengo.sum is untouched. *)
    && (if all && (o_err r =? 0)%N then
          negb hashable
          || (csum_eqb (o_sum ob) (CSFile (spec_bytes want)) && strictly_sorted (map fst want)
              && match o_reloaded r with Some m => list_eqb kv_eqb m want | None => false end)
        else csum_eqb (o_sum ob) sum_before)
    (* the 4th of four identical consecutive plain All runs regenerates nothing and changes nothing (as long
       as gengo.sum can be written: with an unwritable one every run fails after regenerating everything) *)
    && (if Nat.leb 3 streak && hashable && negb (csum_eqb sum_before CSBlocked) then
          is_nil (o_executed r) && ctree_eqb (o_tree ob) before && csum_eqb (o_sum ob) sum_before
        else true).

  Fixpoint holds_steps (before : ctree) (sum_before : csum) (w : writer) (prev : option cop) (streak : nat)
           (steps : list (cop * cobs)) : bool :=
    match steps with
    | [] => true
    | (o, ob) :: rest =>
        match o, o_run ob with
        | CRun all force entry fail _, Some r =>
            let streak' := match prev with Some q => if same_run q o then S streak else 0 | None => 0 end in
            let w' := if all && (o_err r =? 0)%N then Some before else w in
            holds_run all force entry fail before sum_before w streak' ob r
            && holds_steps (o_tree ob) (o_sum ob) w' (Some o) streak' rest
        | CRun _ _ _ _ _, None => false
        | CSet _ _ _, _ | CDel _ _, _ => holds_steps (o_tree ob) (o_sum ob) w None 0 rest
        | _, _ => holds_steps (o_tree ob) (o_sum ob) None None 0 rest
        end
    end.
End Holds.

Definition sorted_kv (m : list (bytes * bytes)) : list (bytes * bytes) := sort_by fst m.

Definition mismatch (c : case) : bool :=
  match c with
  | History modp pkgs tree0 steps =>
      let Htab := H_entries modp pkgs tree0 steps in
      let Gtab := G_entries tree0 steps in
      negb (H_consistent Htab && G_functional Gtab
            && model_agrees modp pkgs Htab Gtab {| st_tree := tree0; st_sum := SumMissing |} steps)
  | SumIO data loaded m out reloaded =>
      negb (list_eqb kv_eqb (sorted_kv (sumfile_load data)) loaded
            && bytes_eqb (sumfile_bytes m) out)
  end.

Definition holds (c : case) : bool :=
  match c with
  | History modp pkgs tree0 steps => holds_steps modp pkgs tree0 CSMissing None None 0 steps
  | SumIO data loaded m out reloaded =>
      (* m is given sorted by key (distinct keys) *)
      negb (strictly_sorted (map fst m))
      || (bytes_eqb out (spec_bytes m)
          && (negb (forallb (fun kv => token_ok (fst kv) && token_ok (snd kv)) m)
              || list_eqb kv_eqb reloaded m))
  end.

Definition mismatches (cs : list case) : list nat := bad_indices mismatch cs.
Definition violations (cs : list case) : list nat := bad_indices (fun c => negb (holds c)) cs.
