(* Correspondence evaluators for C17: the model of the deepcopy generator vs the methods found in the files
   the real generator wrote (three consecutive runs), and the property's own sentence evaluated on what was
   observed (compiles, same on every run, DeepCopy(nil) = nil, deep equality, original unchanged). *)
Require Export Gengo.Base.Bytes Gengo.Model.DeepCopy.
Require Import Gengo.Proofs.DeepCopyTop.

(* what one run of the real generator left behind *)
Inductive gobs :=
| GCrash                       (* the process died (panic / signal) *)
| GFail                        (* Execute returned an error, timed out, or the file does not parse *)
| GNoFile                      (* nothing generated *)
| GFile (ms : list method).    (* the generated file, abstracted *)

(* what the test program reported for one enabled type *)
Record rootobs := mk_root {
  r_type : bytes;
  r_has : bool;          (* DeepCopy and DeepCopyInto exist *)
  r_nil : bool;          (* DeepCopy of nil is nil *)
  r_equal : bool;        (* the copy is deeply equal to the original (DeepCopy and DeepCopyInto) *)
  r_unchanged : bool;    (* after appending to / assigning into every slice and map of the copy, at every depth,
                            the original equals its snapshot *)
  r_object : bool        (* DeepCopyObject exists iff the interfaces tag is present, and returns an equal copy *)
}.

Record case := mk_case {
  c_pkg : pkg;
  c_order : list bytes;          (* sort.Strings of the type names: the order gengo visits them in *)
  c_runs : list gobs;            (* run 1, 2, 3 *)
  c_same : bool;                 (* the generated file is byte-identical after run 1, 2 and 3 *)
  c_compiles : bool;             (* go build of the package with the generated file (of every run that differs) *)
  c_roots : list rootobs
}.

(* the repairs present in the repository the check is run against *)
Definition cur_fixes : fixes := all_fixed.

Definition corr_fuel : nat := 64.

Definition stmt_eqb (a b : stmt) : bool :=
  match a, b with
  | SAssign f, SAssign g => bytes_eqb f g
  | SCopySlice f t, SCopySlice g u => bytes_eqb f g && bytes_eqb t u
  | SCopyMap f t, SCopyMap g u => bytes_eqb f g && bytes_eqb t u
  | SCallInto f, SCallInto g => bytes_eqb f g
  | SCallCopyVal f, SCallCopyVal g => bytes_eqb f g
  | SCallCopyDeref f, SCallCopyDeref g => bytes_eqb f g
  | SStar, SStar => true
  | _, _ => false          (* SOther never equals anything *)
  end.

Definition method_eqb (a b : method) : bool :=
  match a, b with
  | MObject t tp i p, MObject u up j q =>
      bytes_eqb t u && list_eqb bytes_eqb tp up && bytes_eqb i j && Bool.eqb p q
  | MPtrCopy t tp, MPtrCopy u up => bytes_eqb t u && list_eqb bytes_eqb tp up
  | MPtrInto t tp b, MPtrInto u up c => bytes_eqb t u && list_eqb bytes_eqb tp up && list_eqb stmt_eqb b c
  | MMapCopy t, MMapCopy u => bytes_eqb t u
  | MMapInto t, MMapInto u => bytes_eqb t u
  | _, _ => false          (* MUnknown never equals anything *)
  end.

Definition gobs_eqb (a b : gobs) : bool :=
  match a, b with
  | GCrash, GCrash | GFail, GFail | GNoFile, GNoFile => true
  | GFile x, GFile y => list_eqb method_eqb x y
  | _, _ => false
  end.

Definition model_run_fx (fx : fixes) (c : case) (k : nat) : gobs :=
  match run corr_fuel fx (c_pkg c) (c_order c) k with
  | Ok [] => GNoFile
  | Ok ms => GFile ms
  | Panic => GCrash
  | OutOfFuel => GFail
  end.

Definition mismatch_fx (fx : fixes) (c : case) : bool :=
  negb (list_eqb gobs_eqb (map (model_run_fx fx c) [0; 1; 2]%nat) (c_runs c)).

(* model vs implementation; and the theorems' hypothesis on the type graph ([dom], through its sound checker)
   holds for the generated case — an input outside it would make the proved statements vacuous for that case *)
Definition mismatch (c : case) : bool := mismatch_fx cur_fixes c || negb (dom_b (c_pkg c)).

(* the property, as a predicate on what the implementation did *)
Definition root_ok (r : rootobs) : bool :=
  r_has r && r_nil r && r_equal r && r_unchanged r && r_object r.

Definition ran (g : gobs) : bool := match g with GFile _ | GNoFile => true | _ => false end.

Definition holds (c : case) : bool :=
  forallb ran (c_runs c) && c_same c && c_compiles c && forallb root_ok (c_roots c).

Definition mismatches (cs : list case) : list nat := bad_indices mismatch cs.
Definition violations (cs : list case) : list nat := bad_indices (fun c => negb (holds c)) cs.
