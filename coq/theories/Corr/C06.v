(* Correspondence evaluators for C06: model vs observation, and the property's own sentence evaluated
   on what the implementation did (the predicate [holds] does not mention the model functions
   is_generator_enabled / merge / type_table / gen_loop / run_defers_*; it uses only the input data and
   the small declarative helpers defined here). *)
Require Export Gengo.Base.Bytes Gengo.Model.Dispatch.
Require Gengo.Model.Tables.

(* the comment text the tags of one package come from (go/ast's CommentGroup.Text() of the groups the harness wrote):
   the package docs in file order, and per declaration id the group directly above it (absent = no comment) *)
Definition src := (list bytes * list (N * bytes))%type.

Inductive case :=
| CEnabled (g : bytes) (t : tags) (obs : list bool)
    (* IsGeneratorEnabled(g, t) called repeatedly: the set of answers seen *)
| CModule (all : bool) (globals : tags) (gens : list gen) (pkgs : list pkg) (srcs : list src)
          (runs : list (list event * option outcome)).
    (* one synthetic module executed in several fresh processes; None = unexpected failure; [srcs] aligned with [pkgs] *)

(* ---- equality ---- *)
Definition values_eqb := list_eqb bytes_eqb.
Definition tags_eqb (a b : tags) : bool :=
  list_eqb (fun x y => bytes_eqb (fst x) (fst y) && values_eqb (snd x) (snd y)) a b.
Definition event_eqb (a b : event) : bool :=
  match a, b with
  | EType p g i t, EType p' g' i' t' => N.eqb p p' && N.eqb g g' && N.eqb i i' && tags_eqb t t'
  | EAlias p g i t, EAlias p' g' i' t' => N.eqb p p' && N.eqb g g' && N.eqb i i' && tags_eqb t t'
  | EDefer p g i, EDefer p' g' i' => N.eqb p p' && N.eqb g g' && N.eqb i i'
  | EWrites p gs, EWrites p' gs' => N.eqb p p' && list_eqb N.eqb gs gs'
  | _, _ => false
  end.
Definition outcome_eqb (a b : outcome) : bool :=
  match a, b with
  | Done, Done | GenFailed, GenFailed | DeferFailed, DeferFailed => true
  | _, _ => false
  end.

(* ---- model vs observed ---- *)

(* the composed model (Model/Tables.v): the tag maps are not taken from the harness but computed by C12's model of
   ExtractCommentTags / commentLinesFrom from the comment text, then merged and tested by this property's model *)
Fixpoint dtext_of (l : list (N * bytes)) (i : N) : bytes :=
  match l with
  | [] => []
  | (j, t) :: r => if N.eqb i j then t else dtext_of r i
  end.

Fixpoint pkgs_from_source (pkgs : list pkg) (srcs : list src) : option (list pkg) :=
  match pkgs, srcs with
  | [], [] => Some []
  | p :: pr, s :: sr =>
      match pkgs_from_source pr sr with
      | Some r => Some (Gengo.Model.Tables.pkg_from_source (fst s) (dtext_of (snd s)) p :: r)
      | None => None
      end
  | _, _ => None
  end.

Definition run_differs (model : res (list event * outcome)) (runs : list (list event * option outcome)) : bool :=
  match model with
  | Ok (evs, o) =>
      existsb (fun run => negb (list_eqb event_eqb evs (fst run) && option_eqb outcome_eqb (Some o) (snd run))) runs
  | _ => true
  end.

Definition mismatch (c : case) : bool :=
  match c with
  | CEnabled g t obs => negb (list_eqb Bool.eqb obs [is_generator_enabled g t])
  | CModule all globals gens pkgs srcs runs =>
      (* tags as data (the harness' reading of the tag lines it wrote) *)
      run_differs (execute fixed_all all pkgs gens globals) runs
      (* tags from the source comment text, through C12's model *)
      || match pkgs_from_source pkgs srcs with
         | Some spkgs => run_differs (execute fixed_all all spkgs gens globals) runs
         | None => true
         end
  end.

(* ---- the property's sentence ---- *)

(* "an effective gengo:<name> tag decides by itself (disabled iff its value is false), otherwise any
   gengo:<name>:<sub> tag enables, otherwise the type is not enabled"; the value of a tag given several
   times is the concatenation of its values *)
Definition spec_enabled (g : bytes) (look : bytes -> option (list bytes)) (allkeys : list bytes) : bool :=
  match look (bs "gengo:" ++ g) with
  | Some vs => negb (bytes_eqb (concat vs) (bs "false"))
  | None => existsb (has_prefix (bs "gengo:" ++ g ++ bs ":")) allkeys
  end.

Fixpoint first_some {A} (l : list (option A)) : option A :=
  match l with
  | [] => None
  | Some a :: _ => Some a
  | None :: r => first_some r
  end.

(* "Effective tags are the declaration's doc tags over the package's doc tags over the global tags"
   (package doc in several files: the later file wins) *)
Definition eff_lookup (globals : tags) (filetags : list tags) (d : tdef) (k : bytes) : option (list bytes) :=
  first_some (lookup k (td_tags d) :: map (lookup k) (rev filetags) ++ [lookup k globals]).
Definition eff_keys (globals : tags) (filetags : list tags) (d : tdef) : list bytes :=
  keys (td_tags d) ++ flat_map keys filetags ++ keys globals.
Definition wanted (g : gen) (globals : tags) (p : pkg) (d : tdef) : bool :=
  spec_enabled (g_name g) (eff_lookup globals (pk_filetags p) d) (eff_keys globals (pk_filetags p) d).

Definition ev_in (p g : N) (e : event) : bool :=
  match e with
  | EType p' g' _ _ | EAlias p' g' _ _ | EDefer p' g' _ => N.eqb p p' && N.eqb g g'
  | EWrites _ _ => false
  end.
Definition is_call_ev (e : event) : bool := match e with EType _ _ _ _ | EAlias _ _ _ _ => true | _ => false end.
Definition is_defer_ev (e : event) : bool := match e with EDefer _ _ _ => true | _ => false end.

Definition count_b {A} (f : A -> bool) (l : list A) : nat := length (filter f l).
Definition is_type_of (i : N) (e : event) := match e with EType _ _ i' _ => N.eqb i i' | _ => false end.
Definition is_alias_of (i : N) (e : event) := match e with EAlias _ _ i' _ => N.eqb i i' | _ => false end.
Definition is_defer_of (i : N) (e : event) := match e with EDefer _ _ i' => N.eqb i i' | _ => false end.
Definition find_def (i : N) (defs : list tdef) : option tdef := find (fun d => N.eqb (td_id d) i) defs.

(* no call event after a defer event *)
Fixpoint calls_then_defers (l : list event) (seen_defer : bool) : bool :=
  match l with
  | [] => true
  | e :: r => if is_defer_ev e then calls_then_defers r true
              else if is_call_ev e then negb seen_defer && calls_then_defers r seen_defer
              else calls_then_defers r seen_defer
  end.

(* the tags Context.Doc returned for a called type obey the precedence *)
Definition tags_ok (globals : tags) (p : pkg) (d : tdef) (t : tags) : bool :=
  forallb (fun k => option_eqb values_eqb (lookup k t) (eff_lookup globals (pk_filetags p) d k))
          (eff_keys globals (pk_filetags p) d ++ keys t).

Definition exp_count (complete : bool) (want : bool) (n : nat) : bool :=
  if want then (if complete then Nat.eqb n 1 else Nat.leb n 1) else Nat.eqb n 0.

Definition session_ok (complete : bool) (globals : tags) (p : pkg) (g : gen) (sess : list event) : bool :=
  let defs := pk_defs p in
  (* GenerateType exactly once for every package-scope defined type that is enabled; alias types go to
     GenerateAliasType only (and only if the generator is an AliasGenerator); nothing else *)
  forallb (fun d =>
    let w := td_pkgscope d && wanted g globals p d in
    exp_count complete (w && match td_kind d with KNamed => true | _ => false end) (count_b (is_type_of (td_id d)) sess)
    && exp_count complete (w && g_alias g && match td_kind d with KAlias => true | _ => false end) (count_b (is_alias_of (td_id d)) sess)) defs
  (* every call is for a declaration of THIS package, and carries the effective tags *)
  && forallb (fun e => match e with
                       | EType _ _ i t | EAlias _ _ i t =>
                           match find_def i defs with Some d => tags_ok globals p d t | None => false end
                       | _ => true end) sess
  (* Defer callbacks: after the last GenerateType; each registered callback exactly once *)
  && calls_then_defers sess false
  && (let called := flat_map (fun e => match e with
                                        | EType _ _ i _ | EAlias _ _ i _ =>
                                            match find_def i defs with Some d => [((CT, d) : call)] | None => [] end
                                        | _ => [] end) sess in
      let reg := ids_all (registered called) in
      forallb (fun i => exp_count complete true (count_b (is_defer_of i) sess)) reg
      && forallb (fun e => match e with EDefer _ _ i => existsb (N.eqb i) reg | _ => true end) sess).

(* "before its file is written": nothing of (p, g) happens after the write event that contains g *)
Fixpoint writes_last (l : list event) : bool :=
  match l with
  | [] => true
  | EWrites p gs :: r => forallb (fun e => negb (existsb (fun g => ev_in p g e) gs)) r && writes_last r
  | _ :: r => writes_last r
  end.

Definition run_ok (all : bool) (globals : tags) (gens : list gen) (pkgs : list pkg) (run : list event * option outcome) : bool :=
  let evs := fst run in
  match snd run with
  | None => false
  | Some o =>
      let complete := outcome_eqb o Done in
      forallb (fun p =>
        forallb (fun g =>
          let sess := filter (ev_in (pk_id p) (g_idx g)) evs in
          if all || pk_direct p then session_ok complete globals p g sess else is_nil sess) gens) pkgs
      (* every event belongs to a listed package and generator: "types of other packages never" *)
      && forallb (fun e => match e with
                           | EWrites p gs => existsb (fun q => N.eqb (pk_id q) p) pkgs
                           | _ => existsb (fun p => existsb (fun g => ev_in (pk_id p) (g_idx g) e) gens) pkgs
                           end) evs
      && writes_last evs
  end.

Definition holds (c : case) : bool :=
  match c with
  | CEnabled g t obs => list_eqb Bool.eqb obs [spec_enabled g (fun k => lookup k t) (keys t)]
  | CModule all globals gens pkgs _ runs => forallb (run_ok all globals gens pkgs) runs
  end.

Definition mismatches (cs : list case) : list nat := bad_indices mismatch cs.
Definition violations (cs : list case) : list nat := bad_indices (fun c => negb (holds c)) cs.
