(* Correspondence evaluators for C13: the model of newPkg's tables / MethodsOf / the registration
   DFS / SourceDir / LocateInPackage against what the real code returned, and the property's own
   sentence as a boolean predicate over (go/types + go/packages oracle data, observed accessors).
   [holds] does not mention the model. *)
Require Export Gengo.Base.Bytes Gengo.Model.Universe.

(* ---- input data (produced by the harness from go/types, go/packages, go/token) ---- *)

(* one *types.Named the accessors are asked about *)
Record tquery := mk_tquery {
  q_ref : nref;
  q_iface : bool;                (* underlying type is an interface: MethodsOf is not claimed for it *)
  q_declared : list (N * bool)   (* oracle: Named.Method(i) (its Origin()) as object id, pointer receiver? *)
}.

Record pkgin := mk_pkgin {
  k_info : pinfo;                        (* PkgPath and module (path, dir) *)
  k_syntax : bool;                       (* the package has syntax (guard: package unsafe has none) *)
  k_defs : list obj;                     (* TypesInfo.Defs, in an order chosen by the harness *)
  k_scope : list (okind * bytes * N);    (* oracle: Pkg().Scope(): kind, name, object id *)
  k_queries : list tquery;
  k_dir : bytes;                         (* oracle: the directory holding the package's files *)
  k_probes : list bytes;                 (* per probed position (all inside this package's files):
                                            filepath.Dir of the file name go/token reports for it *)
  k_pos_ties : bool                      (* two methods share (file name, offset) — through //line directives only;
                                            object ids are the ranks of the positions in (file name, offset) order *)
}.

(* ---- observations ---- *)

Record pkgobs := mk_pkgobs {
  ob_types : tbl;                              (* Types() *)
  ob_consts : tbl;                             (* Constants() *)
  ob_funcs : tbl;                              (* Functions() *)
  ob_lookups : list (okind * bytes * option N);(* Type/Constant/Function(name) *)
  ob_methods : list (list N * list N);         (* per query: MethodsOf(T,true), MethodsOf(T,false) *)
  ob_source_dir : bytes;
  ob_locate : list (option path)               (* per probe: PkgPath of LocateInPackage(pos), None = nil *)
}.

(* Imports() of one package of the universe: import path, value non-nil?, value == Universe.Package(PkgPath of
   the imported package)? *)
Definition impobs := list (path * bool * bool).

Record runobs := mk_run {
  r_pkgs : list pkgobs;      (* aligned with c_pkgs *)
  r_imports : list impobs    (* aligned with c_universe *)
}.

Record case := mk_case {
  c_universe : list (gnode * option modinfo);   (* every package packages.Load returned (roots and deps) *)
  c_roots : list path;                          (* the roots, in the order packages.Load returned them *)
  c_pkgs : list pkgin;                          (* the packages inspected in detail *)
  c_runs : list runobs                          (* distinct observations over fresh processes / loads *)
}.

(* ---- helpers ---- *)

Fixpoint ins_sorted (x : N) (l : list N) : list N :=
  match l with
  | [] => [x]
  | y :: r => if N.leb x y then x :: l else y :: ins_sorted x r
  end.
Definition sortN (l : list N) : list N := fold_right ins_sorted [] l.

Definition listN_eqb := list_eqb N.eqb.
Definition optN_eqb := option_eqb N.eqb.

(* two association lists with distinct keys denote the same map *)
Definition tbl_same (a b : tbl) : bool :=
  Nat.eqb (length a) (length b) && forallb (fun kv => optN_eqb (tbl_get (fst kv) a) (Some (snd kv))) b.

Fixpoint zip {A B} (a : list A) (b : list B) : list (A * B) :=
  match a, b with
  | x :: a', y :: b' => (x, y) :: zip a' b'
  | _, _ => []
  end.

Definition same_len {A B} (a : list A) (b : list B) : bool := Nat.eqb (length a) (length b).

(* ---- model vs observation ---- *)

Definition fx := all_fixed.

(* Several functions named "init" all have the package scope as parent: which of them the table
   holds under "init" depends on the iteration order of Defs, which the model cannot know.  For that
   one name the comparison is: present in both or absent in both, and the observed object is one of
   the init functions of Defs (what C13_tables_only_package_scope promises). *)
Definition is_init_name (n : bytes) : bool := bytes_eqb n (bs "init").

Definition some_init (defs : list obj) (id : N) : bool :=
  existsb (fun d => okind_eqb (o_kind d) KFunc && is_init_name (o_name d) && o_pkg_scope d
                    && match o_recv d with None => true | Some _ => false end && N.eqb (o_id d) id) defs.

Definition func_entry_ok (defs : list obj) (model : option N) (n : bytes) (observed : option N) : bool :=
  if is_init_name n then
    match model, observed with
    | Some _, Some id => some_init defs id
    | None, None => true
    | _, _ => false
    end
  else optN_eqb model observed.

Definition funcs_same (defs : list obj) (a b : tbl) : bool :=
  Nat.eqb (length a) (length b)
  && forallb (fun kv => func_entry_ok defs (tbl_get (fst kv) a) (fst kv) (Some (snd kv))) b.

(* MethodsOf: the model's answer on the tables newPkg leaves behind (loop, then the ordering by position = by object
   id) is compared with the observed list IN ORDER; when two methods share a position the order of the unstable
   sort.Slice is open and the comparison is up to order *)
Definition methods_same (ties : bool) (model observed : list N) : bool :=
  if ties then listN_eqb (sortN model) (sortN observed) else listN_eqb model observed.

Definition model_pkgobs_ok (universe : list pinfo) (k : pkgin) (o : pkgobs) : bool :=
  let t := new_pkg_tables fx o_id (k_defs k) in
  tbl_same (t_types t) (ob_types o)
  && tbl_same (t_consts t) (ob_consts o)
  && funcs_same (k_defs k) (t_funcs t) (ob_funcs o)
  && forallb (fun q => match fst (fst q) with
                       | KFunc => func_entry_ok (k_defs k) (lookup KFunc (snd (fst q)) t) (snd (fst q)) (snd q)
                       | kd => optN_eqb (lookup kd (snd (fst q)) t) (snd q)
                       end) (ob_lookups o)
  && same_len (k_queries k) (ob_methods o)
  && forallb (fun qo =>
                let q := fst qo in
                methods_same (k_pos_ties k) (map o_id (methods_of fx t (q_ref q) true)) (fst (snd qo))
                && methods_same (k_pos_ties k) (map o_id (methods_of fx t (q_ref q) false)) (snd (snd qo)))
             (zip (k_queries k) (ob_methods o))
  && match source_dir join_clean (k_info k) with
     | Ok d => bytes_eqb d (ob_source_dir o)
     | _ => false
     end
  && same_len (k_probes k) (ob_locate o)
  && forallb (fun po =>
                match locate join_clean universe (fst po) with
                | Ok r => option_eqb bytes_eqb r (snd po)
                | _ => false
                end)
             (zip (k_probes k) (ob_locate o)).

(* what the model says Imports() of package nd looks like after load *)
Definition model_impobs (s : ustate) (nd : gnode) : impobs :=
  map (fun kt =>
         match imports_entry s (g_path nd) (fst kt) with
         | Some (Some id) => (fst kt, true, optN_eqb (universe_package s (snd kt)) (Some id))
         | _ => (fst kt, false, false)
         end) (g_imports nd).

Definition impobs_eqb (a b : impobs) : bool :=
  same_len a b
  && forallb (fun e => match pm_get (fst (fst e)) (map (fun x => (fst (fst x), (snd (fst x), snd x))) a) with
                       | Some (nn, sm) => Bool.eqb nn (snd (fst e)) && Bool.eqb sm (snd e)
                       | None => false
                       end) b.

Definition model_imports_ok (c : case) (r : runobs) : bool :=
  let g := map fst (c_universe c) in
  match load fx g (S (length g)) (c_roots c) with
  | Ok s =>
      same_len g (r_imports r)
      && forallb (fun no => impobs_eqb (model_impobs s (fst no)) (snd no)) (zip g (r_imports r))
  | _ => false
  end.

Definition universe_infos (c : case) : list pinfo :=
  map (fun nm => mk_pinfo (g_path (fst nm)) (snd nm)) (c_universe c).

Definition run_matches (c : case) (r : runobs) : bool :=
  same_len (c_pkgs c) (r_pkgs r)
  && forallb (fun ko => model_pkgobs_ok (universe_infos c) (fst ko) (snd ko)) (zip (c_pkgs c) (r_pkgs r))
  && model_imports_ok c r.

(* the go/types facts the theorems assume about the input data, tested on every case:
   Parent() == package scope (and the name is not "init") exactly for the objects the scope holds *)
Definition is_init (n : bytes) : bool := bytes_eqb n (bs "init").
Definition is_blank (n : bytes) : bool := bytes_eqb n (bs "_").

Definition scope_entry_eqb (a b : okind * bytes * N) : bool :=
  okind_eqb (fst (fst a)) (fst (fst b)) && bytes_eqb (snd (fst a)) (snd (fst b)) && N.eqb (snd a) (snd b).

Definition scope_has (sc : list (okind * bytes * N)) (e : okind * bytes * N) : bool :=
  existsb (scope_entry_eqb e) sc.

Definition input_facts_ok (k : pkgin) : bool :=
  (* every object with Parent() == scope, no receiver, kind func/type/const, not named init: is the scope's entry *)
  forallb (fun o =>
             match o_kind o, o_recv o with
             | KOther, _ => true
             | _, Some _ => negb (o_pkg_scope o)
             | kd, None =>
                 if o_pkg_scope o && negb (okind_eqb kd KFunc && is_init (o_name o))
                 then scope_has (k_scope k) (kd, o_name o, o_id o)
                 else true
             end) (k_defs k)
  (* and every func/type/const of the scope is such an object of Defs *)
  && forallb (fun e =>
                match fst (fst e) with
                | KOther => true
                | kd => existsb (fun o => okind_eqb (o_kind o) kd && bytes_eqb (o_name o) (snd (fst e))
                                          && N.eqb (o_id o) (snd e) && o_pkg_scope o
                                          && match o_recv o with None => true | Some _ => false end) (k_defs k)
                end) (k_scope k).

Definition mismatch (c : case) : bool :=
  negb (forallb (run_matches c) (c_runs c))
  || negb (forallb (fun k => negb (k_syntax k) || input_facts_ok k) (c_pkgs c)).

(* ---- the property, as a predicate on what the implementation returned ---- *)

Definition scope_lookup (sc : list (okind * bytes * N)) (kd : okind) (name : bytes) : option N :=
  match find (fun e => okind_eqb (fst (fst e)) kd && bytes_eqb (snd (fst e)) name) sc with
  | Some e => Some (snd e)
  | None => None
  end.

Definition exempt (kd : okind) (name : bytes) : bool :=
  okind_eqb kd KFunc && (is_init name || is_blank name).

(* the table holds exactly the package-scope objects of kind kd (init/_ functions aside) *)
Definition table_exact (sc : list (okind * bytes * N)) (kd : okind) (t : tbl) : bool :=
  forallb (fun kv => exempt kd (fst kv) || optN_eqb (scope_lookup sc kd (fst kv)) (Some (snd kv))) t
  && forallb (fun e => negb (okind_eqb (fst (fst e)) kd) || exempt kd (snd (fst e))
                       || optN_eqb (tbl_get (snd (fst e)) t) (Some (snd e))) sc.

Definition methods_exact (q : tquery) (o : list N * list N) : bool :=
  q_iface q
  || (listN_eqb (sortN (fst o)) (sortN (map fst (q_declared q)))
      && listN_eqb (sortN (snd o)) (sortN (map fst (filter (fun d => negb (snd d)) (q_declared q))))).

Definition pkg_holds (k : pkgin) (o : pkgobs) : bool :=
  negb (k_syntax k)
  || (table_exact (k_scope k) KType (ob_types o)
      && table_exact (k_scope k) KConst (ob_consts o)
      && table_exact (k_scope k) KFunc (ob_funcs o)
      && forallb (fun q => exempt (fst (fst q)) (snd (fst q))
                           || optN_eqb (scope_lookup (k_scope k) (fst (fst q)) (snd (fst q))) (snd q)) (ob_lookups o)
      && same_len (k_queries k) (ob_methods o)
      && forallb (fun qo => methods_exact (fst qo) (snd qo)) (zip (k_queries k) (ob_methods o))
      && match pi_module (k_info k) with
         | None => true
         | Some _ =>
             bytes_eqb (ob_source_dir o) (k_dir k)
             && same_len (k_probes k) (ob_locate o)
             && forallb (fun r => option_eqb bytes_eqb r (Some (pi_path (k_info k)))) (ob_locate o)
         end).

(* Imports() maps every import path to the non-nil Package the universe holds for the imported package *)
Definition imports_hold (nd : gnode) (io : impobs) : bool :=
  same_len (g_imports nd) io
  && forallb (fun kt => existsb (fun e => bytes_eqb (fst (fst e)) (fst kt) && snd (fst e) && snd e) io) (g_imports nd).

Definition run_holds (c : case) (r : runobs) : bool :=
  same_len (c_pkgs c) (r_pkgs r)
  && forallb (fun ko => pkg_holds (fst ko) (snd ko)) (zip (c_pkgs c) (r_pkgs r))
  && same_len (c_universe c) (r_imports r)
  && forallb (fun no => imports_hold (fst (fst no)) (snd no)) (zip (c_universe c) (r_imports r)).

Definition holds (c : case) : bool := forallb (run_holds c) (c_runs c).

Definition mismatches (cs : list case) : list nat := bad_indices mismatch cs.
Definition violations (cs : list case) : list nat := bad_indices (fun c => negb (holds c)) cs.
