(* Correspondence evaluators for C16: the model's IR and the model's run of it vs what the real
   generator wrote and what the compiled program printed; and the property's own sentence
   (rd_spec over the source package) evaluated on the program's output. *)
Require Export Gengo.Base.Bytes Gengo.Model.GenRuntimeDoc.

(* result of one call  x.RuntimeDoc(names...)  in the compiled test program *)
Inductive qres :=
| QNoMethod                              (* the pointer type has no RuntimeDoc method *)
| QPanic                                 (* the call panicked *)
| QRes (ok : bool) (doc : list line).    (* nil and empty slices are not distinguished *)

Record query := mk_q { q_type : name; q_recv : rv; q_names : list name; q_obs : qres }.

Inductive exec_obs :=
| EIR (i : ir)       (* Execute succeeded; the generated file abstracted to the IR *)
| ENoFile            (* Execute succeeded and wrote no file *)
| EFail              (* Execute failed *)
| EUnknown.          (* the generated file has a shape the IR abstraction does not know *)

Record case := mk_case {
  c_pkg : package;
  c_files : list (bytes * bytes);   (* files referred to by [[path]] doc lines *)
  c_exec : exec_obs;
  c_builds : bool;                  (* package + generated file + test program compile *)
  c_known_only : bool;              (* true: every query is in the class nil_embedded_pointer_chain; false: none is *)
  c_queries : list query
}.

Definition lines_eqb := list_eqb bytes_eqb.

Definition docel_eqb (a b : docel) : bool :=
  match a, b with
  | DLit x, DLit y => bytes_eqb x y
  | DEmbed x, DEmbed y => bytes_eqb x y
  | _, _ => false
  end.

Definition embed_eqb (a b : embed_ir) : bool :=
  bytes_eqb (e_name a) (e_name b) && Bool.eqb (e_ptr a) (e_ptr b) && bytes_eqb (e_prefix a) (e_prefix b).

Definition method_eqb (a b : method_ir) : bool :=
  match a, b with
  | Simple g x, Simple h y => Bool.eqb g h && lines_eqb x y
  | StructDoc d c e, StructDoc d' c' e' =>
      list_eqb docel_eqb d d'
      && list_eqb (fun x y => bytes_eqb (fst x) (fst y) && lines_eqb (snd x) (snd y)) c c'
      && list_eqb embed_eqb e e'
  | _, _ => false
  end.

Definition item_eqb (a b : item) : bool :=
  match a, b with
  | IMethod n m, IMethod n' m' => bytes_eqb n n' && method_eqb m m'
  | IHelper, IHelper => true
  | _, _ => false
  end.

Definition qres_eqb (a b : qres) : bool :=
  match a, b with
  | QNoMethod, QNoMethod => true
  | QPanic, QPanic => true
  | QRes o d, QRes o' d' => Bool.eqb o o' && lines_eqb d d'
  | _, _ => false
  end.

(* ---- model vs observation (the repaired code: fd = fs = true) ---- *)

Definition model_ir (c : case) : ir := gen true true (c_pkg c).

Definition model_exec (c : case) : exec_obs :=
  match model_ir c with [] => ENoFile | i => EIR i end.

Definition exec_eqb (a b : exec_obs) : bool :=
  match a, b with
  | EIR x, EIR y => list_eqb item_eqb x y
  | ENoFile, ENoFile => true
  | _, _ => false
  end.

Definition model_q (c : case) (q : query) : qres :=
  let e := model_ir c in
  match find_method e (q_type q) with
  | None => QNoMethod
  | Some _ =>
      match run (c_files c) e (q_recv q) (q_type q) (q_names q) with
      | Ok (Some d) => QRes true d
      | Ok None => QRes false []
      | _ => QPanic
      end
  end.

Definition in_class (c : case) (q : query) : bool := nil_chain (c_pkg c) (q_type q) (q_recv q).

Definition mismatch (c : case) : bool :=
  negb (exec_eqb (model_exec c) (c_exec c))
  || existsb (fun q => negb (qres_eqb (model_q c q) (q_obs q))) (c_queries c)
  (* the harness' copy of the classifier agrees with the Gallina one *)
  || existsb (fun q => negb (Bool.eqb (in_class c q) (c_known_only c))) (c_queries c).

(* ---- the property, as a predicate on what the implementation produced (no model) ---- *)

Definition expect (c : case) (q : query) : bool :=
  match lookup_ty (c_pkg c) (q_type q) with
  | None => true
  | Some t =>
      if negb (covered t) then true                  (* the statement speaks about covered types only *)
      else if has_embed_ref (c_pkg c) (q_type q) && is_nil (q_names q) then true   (* [[path]] feature: outside the statement *)
      else
        match rd_spec (S (length (c_pkg c))) (c_pkg c) (q_type q) (q_names q) with
        | Some d => qres_eqb (q_obs q) (QRes true d)
        | None => match q_obs q with QRes false [] => true | _ => false end
        end
  end.

Definition holds (c : case) : bool :=
  match c_exec c with EFail => false | _ => true end
  && c_builds c
  && forallb (expect c) (c_queries c).

Definition mismatches (cs : list case) : list nat := bad_indices mismatch cs.
Definition violations (cs : list case) : list nat := bad_indices (fun c => negb (holds c)) cs.
