(* Correspondence evaluators for C01.

   One case = one Execute call with 1-3 scripted generators over one synthetic module — or over two modules
   (entrypoints in a main module and in a second module reached through a replace directive): a list of
   package-cases [pcase], one per target package, each with the formatter tables of ITS module
   (language version and module path of the go.mod the package lies under).
   [mismatches]: the model (Model/GenFile.v, repaired code: fixed = true) against what was observed —
     the fragments each Render call wrote, and the bytes of every <base>.<gen>.go.  The formatter
     variables of the model are instantiated by finite tables filled by the harness from an INDEPENDENT
     call of go/parser, ast.SortImports, gofumpt and go/format on the harness's own assembly of the
     source; the model's [assemble] output must be a key of that table byte for byte.
   [violations]: the property's sentence evaluated on the written files and on the answers of go/parser,
     go/format and gofumpt about them; it does not mention the model. *)
Require Export Gengo.Base.Bytes Gengo.Model.GenFile.

Record gcase := mk_gen {
  g_name : bytes;
  g_snips : list snip;             (* the script, in render order *)
  g_imports : alist;               (* import table the references produced (map-iteration order) *)
  g_frags : list bytes;            (* fragments observed, in write order *)
  g_build : bool;                  (* harness classifier: a rendered //-comment is a build constraint (known finding) *)
  g_pre : bytes;                   (* the harness's assembly of the unformatted source *)
  g_fmt1 : option bytes;           (* reference: parse + SortImports + gofumpt AST pass + print, on g_pre *)
  g_fmt2 : list (bytes * option bytes); (* reference: gofumpt source pass, step by step from g_fmt1 until it repeats *)
  g_fname : bytes;                 (* name under which the harness looked for the file *)
  g_file : option bytes;           (* its contents after Execute *)
  (* observation points of the property, applied to g_file *)
  g_parses : bool;                 (* go/parser accepts it *)
  g_pkg : bytes;                   (* its package clause *)
  g_decls : list bytes;            (* its declarations after gengo's import block, normalised *)
  g_want : option (list bytes);    (* the declarations of the rendered text, normalised *)
  g_gofmt : option bytes;          (* go/format.Source of it *)
  g_gofumpt : option bytes         (* gofumpt Source of it, module's language version and path *)
}.

(* transport only: a run of n copies of u (case files carry very long source lines run-length encoded) *)
Definition rp (n : N) (u : bytes) : bytes := N.iter n (fun acc => u ++ acc) [].

Record pcase := mk_case {
  c_pkg : bytes;                   (* name of the target package *)
  c_base : bytes;                  (* OutputFileBaseName *)
  c_err : bool;                    (* Execute returned an error *)
  c_gens : list gcase
}.

Definition case := list pcase.

Definition obytes_eqb := option_eqb bytes_eqb.

(* ---- model side ---- *)

Definition sentinel : bytes := bs "<the model's source is not in the formatter table>".

Fixpoint tbl_get (t : list (bytes * option bytes)) (k : bytes) : option bytes :=
  match t with
  | [] => Some sentinel
  | (k', v) :: r => if bytes_eqb k k' then v else tbl_get r k
  end.

Definition tbl1 (c : pcase) := map (fun g => (g_pre g, g_fmt1 g)) (c_gens c).
Definition tbl2 (c : pcase) := flat_map g_fmt2 (c_gens c).

Definition to_genfile (g : gcase) : genfile := mk_genfile (g_name g) (g_imports g) (g_snips g).

Definition model_write (c : pcase) (g : gcase) : wres :=
  write_file (tbl_get (tbl1 c)) (tbl_get (tbl2 c)) true (c_base c) (c_pkg c) (to_genfile g).

Definition model_err (c : pcase) : bool :=
  match write_all (tbl_get (tbl1 c)) (tbl_get (tbl2 c)) true (c_base c) (c_pkg c) (map to_genfile (c_gens c)) [] with
  | None => true
  | Some _ => false
  end.

Definition gen_mismatch (c : pcase) (g : gcase) : bool :=
  (* Render: fragment for fragment *)
  negb (list_eqb bytes_eqb (render_all (g_snips g)) (g_frags g))
  (* the harness's classifier of the known-finding class implies the Gallina one (guard of C01_written) *)
  || (g_build g && negb (mentions_build (body_of (g_snips g))))
  (* assembly: byte for byte (only when something was rendered; otherwise nothing is assembled) *)
  || (negb (is_nil (body_of (g_snips g)))
      && negb (bytes_eqb (assemble (c_pkg c) (g_name g) (g_imports g) (body_of (g_snips g))) (g_pre g)))
  (* the file *)
  || (if c_err c then false
      else match model_write c g with
           | WNothing => negb (obytes_eqb (g_file g) None)
           | WErr => true
           | WWrite n d => negb (bytes_eqb n (g_fname g)) || negb (obytes_eqb (g_file g) (Some d))
           end).

(* Execute visits the packages one after the other and stops at the first error: it returns an error iff the
   write loop of some package does *)
Definition mismatch (c : case) : bool :=
  negb (Bool.eqb (existsb model_err c) (existsb c_err c))
  || existsb (fun p => existsb (gen_mismatch p) (c_gens p)) c.

(* ---- the property, on what the implementation wrote ---- *)

Definition gen_holds (c : pcase) (g : gcase) : bool :=
  match g_file g with
  | None => true
  | Some f =>
      g_parses g
      && match lead_comment f with
         | Some cm => infix_b (bs "gengo:" ++ g_name g) cm
         | None => false
         end
      && bytes_eqb (g_pkg g) (c_pkg c)
      && match g_want g with
         | Some w => list_eqb bytes_eqb (g_decls g) w
         | None => false
         end
      && obytes_eqb (g_gofmt g) (Some f)
      && obytes_eqb (g_gofumpt g) (Some f)
  end.

Definition pholds (c : pcase) : bool :=
  if c_err c then true else forallb (gen_holds c) (c_gens c).

Definition holds (c : case) : bool := forallb pholds c.

Definition mismatches (cs : list case) : list nat := bad_indices mismatch cs.
Definition violations (cs : list case) : list nat := bad_indices (fun c => negb (holds c)) cs.
