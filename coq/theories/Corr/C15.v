(* Correspondence evaluators for C15: model vs observation, and the property's own sentence
   evaluated on what the implementation returned. *)
Require Export Gengo.Base.Bytes Gengo.Model.TypeRef.

(* what ParseTypeRef(s) gave: the tree and its String(), or the error text, or a panic *)
Inductive oparse := OTree (t : tref) (printed : bytes) | OErr (msg : bytes) | OParsePanic.

Record case := mk_case {
  c_self : bytes;                              (* package the namer renders for *)
  c_s : bytes;                                 (* the reference string *)
  c_tree : option tref;                        (* grammar tree it was generated from; None = malformed stream *)
  c_names : list (bytes * bytes);              (* tracker.Imports() after rendering: path -> local name *)
  c_parse : oparse;
  c_ref : option (option (bytes * bytes));     (* ParseRef: None = panic, Some None = error, Some (Pkg().Path(), Name()) *)
  c_ref_str : bytes;                           (* its String() ("" when no ref) *)
  c_expose : option (bytes * bytes);           (* PkgImportPathAndExpose; None = panic *)
  c_id : option bytes;                         (* snippet.ID(s) rendered through a SnippetWriter; None = panic *)
  c_adds : list bytes;                         (* package paths handed to tracker.AddType, in call order (this render only) *)
  c_pre : list bytes                           (* INPUT: foreign package paths of the references rendered EARLIER through
                                                  the same writer (same tracker); [] = this is the first render *)
}.

Fixpoint tref_eqb (a b : tref) : bool :=
  match a, b with
  | TRef p n l, TRef p' n' l' =>
      bytes_eqb p p' && bytes_eqb n n' &&
      (fix go (x y : list tref) : bool :=
         match x, y with
         | [], [] => true
         | u :: x', v :: y' => tref_eqb u v && go x' y'
         | _, _ => false
         end) l l'
  end.

Definition pair_eqb (a b : bytes * bytes) : bool := bytes_eqb (fst a) (fst b) && bytes_eqb (snd a) (snd b).

Fixpoint assoc (k : bytes) (m : list (bytes * bytes)) : bytes :=
  match m with
  | [] => []
  | (k', v) :: r => if bytes_eqb k k' then v else assoc k r
  end.

Definition mem (k : bytes) (l : list bytes) : bool := existsb (bytes_eqb k) l.
Definition subset (a b : list bytes) : bool := forallb (fun k => mem k b) a.
Definition same_set (a b : list bytes) : bool := subset a b && subset b a.

(* ---- the model, run with a concrete stand-in for the tracker: it logs the add calls and
        answers LocalNameOf from the names the real tracker ended up with ---- *)

Definition ctracker := list bytes.   (* newest first *)
Definition c_add (tr : ctracker) (p : bytes) : ctracker := p :: tr.
Definition c_local (names : list (bytes * bytes)) (tr : ctracker) (p : bytes) : bytes := assoc p names.

Definition err_prefix : bytes := bs "invalid type ref: ".

Definition model_parse (c : case) : oparse :=
  match parse_type_ref true (c_s c) with
  | Ok (PT t) => OTree t (print t)
  | Ok (PErr e) => OErr (err_prefix ++ e)
  | _ => OParsePanic
  end.

Definition oparse_eqb (a b : oparse) : bool :=
  match a, b with
  | OTree t p, OTree t' p' => tref_eqb t t' && bytes_eqb p p'
  | OErr m, OErr m' => bytes_eqb m m'
  | OParsePanic, OParsePanic => true
  | _, _ => false
  end.

Definition model_ref (c : case) : option (option (bytes * bytes)) :=
  match parse_ref (c_s c) with Ok r => Some r | _ => None end.

Definition model_ref_str (c : case) : bytes :=
  match parse_ref (c_s c) with Ok (Some pn) => ref_string pn | _ => [] end.

Definition model_expose (c : case) : option (bytes * bytes) :=
  match pkg_import_path_and_expose (c_s c) with Ok r => Some r | _ => None end.

Definition model_id (c : case) : option bytes * list bytes :=
  match snippet_id ctracker c_add (c_local (c_names c)) (c_self c) true [] (c_s c) with
  | Ok (o, tr) => (Some o, rev tr)
  | _ => (None, [])
  end.

Definition mismatch (c : case) : bool :=
  negb (oparse_eqb (model_parse c) (c_parse c))
  || negb (option_eqb (option_eqb pair_eqb) (model_ref c) (c_ref c))
  || negb (bytes_eqb (model_ref_str c) (c_ref_str c))
  || negb (option_eqb pair_eqb (model_expose c) (c_expose c))
  || (let '(o, adds) := model_id c in
      negb (option_eqb bytes_eqb o (c_id c))
      (* after a panic the calls made before it are not compared *)
      || match o with Some _ => negb (list_eqb bytes_eqb adds (c_adds c)) | None => false end).

(* ---- the property, as a predicate on (input, observed); it does not run the model of the code.
        [gram] is the grammar's own yield function  ref ::= [path '.'] ident [ '[' ref {',' ref} ']' ]. ---- *)

Fixpoint gram (t : tref) : bytes :=
  match t with
  | TRef p n args =>
      (if is_nil p then [] else p ++ [dot]) ++ n ++
      match args with
      | [] => []
      | a :: r => lbr :: gram a ++ flat_map (fun x => comma :: gram x) r ++ [rbr]
      end
  end.

(* 1. ParseTypeRef succeeds with the tree of the reference, and printing gives the string back *)
Definition holds_parse (c : case) (t : tref) : bool :=
  match c_parse c with
  | OTree t' printed => tref_eqb t' t && bytes_eqb printed (c_s c)
  | _ => false
  end.

(* 2. ParseRef/Ref and PkgImportPathAndExpose cut at the end of the package path *)
Definition holds_split (c : case) (t : tref) : bool :=
  match c_ref c, c_expose c with
  | Some (Some (p, n)), Some (g, e) =>
      bytes_eqb p (t_path t)
      && bytes_eqb (p ++ dot :: n) (c_s c)
      && bytes_eqb (c_ref_str c) (c_s c)
      && bytes_eqb e (t_name t)
      && match last_index_sub vendor_seg (t_path t) with None => bytes_eqb g (t_path t) | Some _ => true end
  | _, _ => false
  end.

(* 3. every nested package path is replaced by that package's import name (the target package's by
      nothing), exactly the other packages are registered, nothing else changes *)
Definition ren (self : bytes) (names : list (bytes * bytes)) (q : bytes) : bytes :=
  ren_paths (fun p => assoc p names) self q.

Definition holds_render (c : case) (t : tref) : bool :=
  let self := c_self c in
  let names := c_names c in
  let want := foreign self t in
  match c_id c with
  | None => false
  | Some out =>
      bytes_eqb out
        ((if bytes_eqb (t_path t) self then [] else assoc (t_path t) names ++ [dot])
           ++ gram (map_paths (ren self names) (TRef [] (t_name t) (t_args t))))
      (* the tracker holds exactly the packages of this reference, next to those the earlier renders of the same
         writer had to register *)
      && same_set (map fst names) (want ++ c_pre c)
      && same_set (c_adds c) want
      && forallb (fun q => negb (is_nil (assoc q names))) want
  end.

Definition holds (c : case) : bool :=
  match c_tree c with
  | None => true                      (* malformed stream: only the correspondence is checked *)
  | Some t =>
      wf_b t && bytes_eqb (gram t) (c_s c)
      && holds_parse c t
      && (if is_nil (t_path t) then true else holds_split c t && holds_render c t)
  end.

Definition mismatches (cs : list case) : list nat := bad_indices mismatch cs.
Definition violations (cs : list case) : list nat := bad_indices (fun c => negb (holds c)) cs.
