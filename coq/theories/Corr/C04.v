(* Correspondence evaluators for C04: the model of one run (Model/Determinism.v, repaired code:
   fixed = true, fixed_methods = true, canonical order oracle) against what fresh processes of the
   real gengo did on the same module, and the property's own sentence as a predicate on the
   observations alone. *)
Require Export Gengo.Base.Bytes Gengo.Model.Determinism.

(* one file found in the tree after a run *)
Record ofile := mk_ofile {
  of_path : path;
  of_abs : bytes;     (* canonical content: for a generated file "pkg|gen|imp1,imp2,|decl;decl;", else verbatim / a token *)
  of_hash : bytes     (* sha256 of the real bytes *)
}.

Record orun := mk_orun {
  or_ok : bool;                              (* Execute returned nil *)
  or_log : calllog;                          (* recorded GenerateType / GenerateAliasType calls, grouped *)
  or_files : list ofile                      (* every <base>.*.go and gengo.sum in the tree *)
}.

Record case := mk_case {
  c_args : args;
  c_entry : list bytes;                                   (* package paths of the entrypoints *)
  c_world : world;                                        (* as loaded before the first run *)
  c_gens : list (bytes * bool * list (bytes * script));
  c_fs0 : list (path * bytes);                            (* generated-looking files and gengo.sum before the first run *)
  c_run1 : orun;                                          (* first fresh process *)
  c_same : bool;                                          (* all N fresh processes: identical trees, logs, outcome *)
  c_world2 : option world;                                (* as loaded after the first run *)
  c_run2 : option orun                                    (* second run, on the result of the first *)
}.

(* ---------- external functions, concretely ---------- *)

Definition nl : ascii := "010"%char.
Definition sp : ascii := " "%char.

Fixpoint split_on (c : ascii) (s : bytes) (cur : bytes) : list bytes :=
  match s with
  | [] => [rev cur]
  | x :: r => if Ascii.eqb x c then rev cur :: split_on c r [] else split_on c r (x :: cur)
  end.

(* sumfile.Load: per line, the first two space-separated fields (paths and hashes contain no white space) *)
Definition parse_sum (b : bytes) : alist bytes :=
  fold_left (fun m line =>
               match filter (fun f => negb (is_nil f)) (split_on sp line []) with
               | k :: v :: _ => aset k v m
               | _ => m
               end) (split_on nl b []) [].

Definition has_byte (c : ascii) (s : bytes) : bool := existsb (Ascii.eqb c) s.

(* WriteToFile's parse + format, abstractly: fails on a body that does not parse ("!" marks one),
   otherwise the canonical content the harness also computes from the file on disk *)
Definition encode (f : gfile) : option bytes :=
  if has_byte "!"%char (gf_body f) then None
  else Some (gf_pkgname f ++ bs "|" ++ gf_gen f ++ bs "|"
             ++ concat (map (fun kv => fst kv ++ bs ",") (gf_imports f)) ++ bs "|" ++ gf_body f).

(* ---------- model vs observation ---------- *)

Definition fs_of (l : list (path * bytes)) : fs :=
  fun q => match find (fun e => path_eqb q (fst e)) l with Some e => Some (snd e) | None => None end.

Definition gens_of (c : case) : list gen :=
  map (fun g => scripted (fst (fst g)) (snd (fst g)) (snd g)) (c_gens c).

Definition model_run (a : args) (e : list bytes) (w : world) (gs : list gen) (f : fs) : option (fs * calllog) :=
  run true true encode parse_sum oid a e w gs f.

Definition candidates (a : args) (w : world) (gs : list gen) (extra : list path) : list path :=
  (w_moddir w, sum_name)
    :: flat_map (fun p => map (fun g => (pk_dir p, filename a (g_name g))) gs) (w_pkgs w)
    ++ extra.

Definition call_eqb (x y : call) : bool :=
  match c_kind x, c_kind y with CType, CType | CAlias, CAlias => true | _, _ => false end
  && bytes_eqb (c_name x) (c_name y) && N.eqb (c_uid x) (c_uid y).

Definition log_eqb (a b : calllog) : bool :=
  list_eqb (fun x y => bytes_eqb (fst (fst x)) (fst (fst y)) && bytes_eqb (snd (fst x)) (snd (fst y))
                       && list_eqb call_eqb (snd x) (snd y)) a b.

Definition nonempty_log (l : calllog) : calllog := filter (fun e => negb (is_nil (snd e))) l.

Definition obs_fs (r : orun) : fs := fs_of (map (fun f => (of_path f, of_abs f)) (or_files r)).

Definition run_mismatch (m : option (fs * calllog)) (r : orun) (cands : list path) : bool :=
  match m with
  | None => or_ok r
  | Some (f, log) =>
      negb (or_ok r)
      || negb (log_eqb (nonempty_log log) (or_log r))
      || negb (forallb (fun p => option_eqb bytes_eqb (f p) (obs_fs r p)) cands)
      || negb (forallb (fun x => existsb (path_eqb (of_path x)) cands) (or_files r))
  end.

(* the theorems' hypotheses on the loaded data (go/types, Go maps), checked on every case *)
Fixpoint nodup_b (l : list bytes) : bool :=
  match l with [] => true | x :: r => negb (mem x r) && nodup_b r end.
Fixpoint nodup_N (l : list N) : bool :=
  match l with [] => true | x :: r => negb (existsb (N.eqb x) r) && nodup_N r end.

Definition wf_pkg_b (p : pkg) : bool :=
  nodup_b (map td_name (filter td_pkgscope (pk_defs p)))
  && forallb (fun ft => nodup_b (keys (snd ft))) (pk_filetags p)
  && forallb (fun d => nodup_b (keys (td_tags d))) (pk_defs p)
  && nodup_N (map m_pos (pk_meths p)).

Definition wf_world_b (w : world) : bool :=
  nodup_b (map pk_path (w_pkgs w)) && nodup_b (map pk_dir (w_pkgs w)) && forallb wf_pkg_b (w_pkgs w).

Definition tags_eqb := list_eqb (fun x y : bytes * bytes => bytes_eqb (fst x) (fst y) && bytes_eqb (snd x) (snd y)).
Definition kind_eqb (a b : kind) : bool :=
  match a, b with KNamed, KNamed | KAlias, KAlias | KOther, KOther => true | _, _ => false end.
Definition tdef_eqb (a b : tdef) : bool :=
  bytes_eqb (td_name a) (td_name b) && N.eqb (td_uid a) (td_uid b) && kind_eqb (td_kind a) (td_kind b)
  && Bool.eqb (td_pkgscope a) (td_pkgscope b) && tags_eqb (td_tags a) (td_tags b).
Definition meth_eqb (a b : meth) : bool :=
  N.eqb (m_recv a) (m_recv b) && bytes_eqb (m_name a) (m_name b) && N.eqb (m_pos a) (m_pos b).

(* [src_eq]: the second load sees the same sources (generated files contribute no type name, method or tag) *)
Definition src_eqb (p q : pkg) : bool :=
  bytes_eqb (pk_path p) (pk_path q) && bytes_eqb (pk_name p) (pk_name q) && bytes_eqb (pk_dir p) (pk_dir q)
  && list_eqb (fun x y => bytes_eqb (fst x) (fst y) && tags_eqb (snd x) (snd y)) (pk_filetags p) (pk_filetags q)
  && list_eqb tdef_eqb (pk_defs p) (pk_defs q) && list_eqb meth_eqb (pk_meths p) (pk_meths q).

Definition assumptions_ok (c : case) : bool :=
  wf_world_b (c_world c) && nodup_b (keys (a_globals (c_args c)))
  && match c_world2 c with
     | Some w2 => wf_world_b w2 && list_eqb src_eqb (w_pkgs (c_world c)) (w_pkgs w2)
     | None => true
     end.

Definition mismatch (c : case) : bool :=
  negb (assumptions_ok c) ||
  let gs := gens_of c in
  let f0 := fs_of (c_fs0 c) in
  let m1 := model_run (c_args c) (c_entry c) (c_world c) gs f0 in
  let cands := candidates (c_args c) (c_world c) gs (map fst (c_fs0 c)) in
  run_mismatch m1 (c_run1 c) cands
  || match m1, c_world2 c, c_run2 c with
     | Some (f1, _), Some w2, Some r2 => run_mismatch (model_run (c_args c) (c_entry c) w2 gs f1) r2 cands
     | _, _, _ => false
     end.

(* ---------- the property, on the observations alone ---------- *)

Fixpoint strictly_sorted (l : list bytes) : bool :=
  match l with
  | x :: ((y :: _) as r) => bytes_leb x y && negb (bytes_eqb x y) && strictly_sorted r
  | _ => true
  end.

Definition is_generated (a : args) (f : ofile) : bool := has_prefix (a_base a ++ bs ".") (snd (of_path f)).

Definition find_file (p : path) (r : orun) : option ofile := find (fun f => path_eqb p (of_path f)) (or_files r).

(* gengo.sum: one line "path hash" per loaded local package, ascending by path *)
Definition sum_ok (a : args) (w : world) (r : orun) : bool :=
  if a_all a && or_ok r then
    match find_file (w_moddir w, sum_name) r with
    | None => false
    | Some f =>
        let lines := filter (fun l => negb (is_nil l)) (split_on nl (of_abs f) []) in
        let ks := map (fun l => hd [] (split_on sp l [])) lines in
        strictly_sorted ks
        && list_eqb bytes_eqb ks (sort_strings (map pk_path (w_pkgs w)))
        && forallb (fun l => existsb (fun p => bytes_eqb l (pk_path p ++ [sp] ++ pk_hash p)) (w_pkgs w)) lines
    end
  else true.

(* a second run rewrites every generated file to the same bytes and adds / removes none *)
Definition fixed_point (a : args) (r1 r2 : orun) : bool :=
  or_ok r2
  && forallb (fun f => negb (is_generated a f)
                       || match find_file (of_path f) r2 with Some g => bytes_eqb (of_hash f) (of_hash g) | None => false end)
             (or_files r1)
  && forallb (fun g => negb (is_generated a g)
                       || match find_file (of_path g) r1 with Some _ => true | None => false end)
             (or_files r2).

(* what one generator sees: packages in ascending order, each once *)
Definition gen_pkgs_sorted (l : calllog) : bool :=
  forallb (fun e => strictly_sorted (map (fun x => fst (fst x))
                                         (filter (fun x => bytes_eqb (snd (fst e)) (snd (fst x))) l))) l.

Definition holds (c : case) : bool :=
  c_same c
  && forallb (fun e => strictly_sorted (map c_name (snd e))) (or_log (c_run1 c))
  && gen_pkgs_sorted (or_log (c_run1 c))
  && sum_ok (c_args c) (c_world c) (c_run1 c)
  && match c_run2 c with
     | Some r2 => if or_ok (c_run1 c) then fixed_point (c_args c) (c_run1 c) r2 else true
     | None => true
     end.

Definition mismatches (cs : list case) : list nat := bad_indices mismatch cs.
Definition violations (cs : list case) : list nat := bad_indices (fun c => negb (holds c)) cs.
