(* Correspondence evaluators for C18: the model of the partialstruct generator vs the abstraction of the file the real
   generator wrote, and the property's own sentence evaluated on that abstraction (independent of the model). *)
Require Export Gengo.Base.Bytes Gengo.Model.GenPartialStruct.

(* ---- what the harness observed ---- *)

Record ofield := mk_ofield {
  of_name : bytes;
  of_ty : oty;            (* the field's type expression, abstracted *)
  of_text : bytes;        (* the same expression as printed (used for replaced fields) *)
  of_tag : bytes          (* the value of the tag literal *)
}.

Record otype := mk_otype {
  ot_name : bytes;
  ot_origin : oty;        (* element type of DeepCopyAs' result *)
  ot_into : oty;          (* element type of DeepCopyIntoAs' parameter *)
  ot_as_ok : bool;        (* DeepCopyAs body is: if in == nil { return nil }; out := new(Origin); in.DeepCopyIntoAs(out); return out *)
  ot_fields : list ofield;
  ot_stmts : list stmt
}.

Inductive observed :=
| ObsErr (k : errkind)                                        (* Execute returned the generator's error; no file *)
| ObsCrash                                                    (* the generating process died *)
| ObsOther                                                    (* parse error of the generated text, other error, timeout *)
| ObsFile (imports : list (bytes * bytes)) (ts : list otype). (* (path, local name) of the import block; [] [] = no file *)

Record case := mk_case {
  c_target : bytes;               (* import path of the target package *)
  c_types : list tinput;          (* the package's type declarations in the order doGenerate visits them *)
  c_shadow : bool;                (* the harness' copy of the known-finding class import_name_shadows_template_local *)
  c_iface : bool;                 (* the harness' copy of the known-finding class unnamed_method_interface_rendered_any *)
  c_dom : bool;                   (* inside the generator's domain (exported retained fields, coherent replace, tag text
                                     that a raw string literal can carry, lower-case declared name); outside it nothing is claimed *)
  c_obs : observed
}.

(* ---- model vs observation ---- *)

Fixpoint oty_eqb (a b : oty) : bool :=
  match a, b with
  | OIdent x, OIdent y => bytes_eqb x y
  | OSel q x, OSel r y => bytes_eqb q r && bytes_eqb x y
  | OPtr x, OPtr y => oty_eqb x y
  | OSlice x, OSlice y => oty_eqb x y
  | OArray n x, OArray m y => N.eqb n m && oty_eqb x y
  | OMap k x, OMap l y => oty_eqb k l && oty_eqb x y
  | OText x, OText y => bytes_eqb x y
  | _, _ => false
  end.

Definition stmt_eqb (a b : stmt) : bool :=
  match a, b with
  | SAssign f, SAssign g => bytes_eqb f g
  | SCopySlice f t, SCopySlice g u => bytes_eqb f g && oty_eqb t u
  | SCopyMap f t, SCopyMap g u => bytes_eqb f g && oty_eqb t u
  | SCallInto f m, SCallInto g n => bytes_eqb f g && bytes_eqb m n
  | SCallCopyVal f m, SCallCopyVal g n => bytes_eqb f g && bytes_eqb m n
  | SCallCopyDeref f m, SCallCopyDeref g n => bytes_eqb f g && bytes_eqb m n
  | _, _ => false
  end.

Fixpoint assoc (k : bytes) (m : list (bytes * bytes)) : bytes :=
  match m with
  | [] => []
  | (k', v) :: r => if bytes_eqb k k' then v else assoc k r
  end.

Fixpoint list_match {A B} (f : A -> B -> bool) (a : list A) (b : list B) : bool :=
  match a, b with
  | [], [] => true
  | x :: a', y :: b' => f x y && list_match f a' b'
  | _, _ => false
  end.

(* a model field against an observed one: replaced fields (OText) are compared as printed text *)
Definition gfield_matches (g : gfield) (o : ofield) : bool :=
  bytes_eqb (gf_name g) (of_name o)
  && bytes_eqb (gf_tag g) (of_tag o)
  && match gf_ty g with
     | OText t => bytes_eqb t (of_text o)
     | t => oty_eqb t (of_ty o)
     end.

Definition gtype_matches (g : gtype) (o : otype) : bool :=
  bytes_eqb (g_name g) (ot_name o)
  && oty_eqb (g_origin g) (ot_origin o)
  && oty_eqb (g_origin g) (ot_into o)
  && ot_as_ok o
  && list_match gfield_matches (g_fields g) (ot_fields o)
  && list_eqb stmt_eqb (g_stmts g) (ot_stmts o).

Definition subset (a b : list bytes) : bool := forallb (fun x => existsb (bytes_eqb x) b) a.

(* ---- mismatch: the model (repaired code) against the observation ---- *)

Definition model_of (c : case) : outcome :=
  let L := match c_obs c with ObsFile imps _ => fun p => assoc p imps | _ => fun p => last_segment p end in
  generate_pkg L (c_target c) all_fixed (c_types c) [] [].

Definition outcome_matches (m : outcome) (o : observed) : bool :=
  match m, o with
  | OutErr EMustStruct, ObsErr EMustStruct => true
  | OutErr ENeedNamed, ObsErr ENeedNamed => true
  | OutCrash, ObsCrash => true
  | OutFile ts imps, ObsFile oimps ots =>
      list_match gtype_matches ts ots
      && subset imps (map fst oimps) && subset (map fst oimps) imps
  | _, _ => false
  end.

(* outside the generator's domain the model is compared only when the generator produced a file or a modelled error
   (tag text that no raw string literal can carry makes the Go parser reject the rendered text: not modelled) *)
Definition unmodelled_failure (c : case) : bool :=
  negb (c_dom c) && match c_obs c with ObsOther | ObsCrash => true | _ => false end.

(* ---- the composition with C17's model of the same helper (Model/Generators.v): the copy statements of every
   generated DeepCopyIntoAs body are ALSO compared with what Model/DeepCopy.v's field_stmt / fields_copy select for the
   struct partialstruct emits, through the adapter (field types, method signatures, replaced fields, a type graph built
   from the retained fields).  Outside the common domain of the two models (pointer / array fields, containers of
   non-scalars) nothing is compared here. ---- *)
Require Gengo.Model.Generators.
Module GN := Gengo.Model.Generators.

Definition helper17_matches (L : bytes -> bytes) (target : bytes) (ti : tinput) (ot : otype) : bool :=
  match GN.helper17_body L target all_fixed ti (ot_name ot) with
  | None => true
  | Some (Ok body) => list_eqb GN.stmt17_eqb body (map GN.stmt17 (ot_stmts ot))
  | Some _ => false
  end.

Definition helper17_ok (c : case) : bool :=
  match c_obs c with
  | ObsFile imps ots =>
      let en := filter ti_enabled (c_types c) in
      if Nat.eqb (length en) (length ots)
      then list_match (helper17_matches (fun p => assoc p imps) (c_target c)) en ots
      else true
  | _ => true
  end.

(* how many generated types of a case lie in the common domain (reported by the harness as a distribution figure) *)
Definition helper17_compared (c : case) : nat :=
  match c_obs c with
  | ObsFile imps ots =>
      length (filter (fun ti => match GN.helper17_body (fun p => assoc p imps) (c_target c) all_fixed ti [] with
                                | Some _ => true | None => false end) (filter ti_enabled (c_types c)))
  | _ => 0
  end.

Definition mismatch (c : case) : bool :=
  (negb (unmodelled_failure c) && negb (outcome_matches (model_of c) (c_obs c)))
  || negb (Bool.eqb (shadow_class (c_target c) (c_types c)) (c_shadow c))
  || negb (Bool.eqb (iface_class (c_types c)) (c_iface c))
  || negb (helper17_ok c).

(* ---- the property's own sentence on (input, observed) ---- *)

Definition denotes_name (imps : list (bytes * bytes)) (target : bytes) (o : oty) (tn : tyname) : bool :=
  denotes imps target o (TNamed (fst tn) (snd tn) UStruct []).

(* the replace tag syntax: `Field:Type tag words…`; the last value for a field counts.  Type is either plain text or
   `import/path.Name` *)
Definition spec_replace (vals : list bytes) (name : bytes) : option (bytes * option bytes) :=
  let hits := filter (fun v => match split2 ch_colon v with (k, Some _) => bytes_eqb k name | _ => false end) vals in
  match rev hits with
  | [] => None
  | v :: _ =>
      match split2 ch_colon v with
      | (_, Some rest) =>
          match split_on ch_space rest with
          | t :: [] => Some (t, None)
          | t :: ws => Some (t, Some (join_with ch_space ws))
          | [] => None
          end
      | _ => None
      end
  end.

Definition denotes_replacement (imps : list (bytes * bytes)) (target : bytes) (o : ofield) (t : bytes) : bool :=
  match last_index_of ch_dot t, index_of ch_lbr t with
  | Some (S i), None => denotes_name imps target (of_ty o) (firstn (S i) t, skipn (S (S i)) t)
  | _, _ => bytes_eqb (of_text o) t
  end.

Definition field_holds (imps : list (bytes * bytes)) (target : bytes) (repl : list bytes) (f : field) (o : ofield) : bool :=
  bytes_eqb (f_name f) (of_name o)
  && match spec_replace repl (f_name f) with
     | None => denotes imps target (of_ty o) (f_ty f) && bytes_eqb (of_tag o) (f_tag f)
     | Some (t, None) => denotes_replacement imps target o t && bytes_eqb (of_tag o) (f_tag f)
     | Some (t, Some tag) => denotes_replacement imps target o t && bytes_eqb (of_tag o) tag
     end.

(* sample values: one distinct non-zero value per field, containers for container types *)
Definition sample (k : N) (t : ty) : value :=
  match unalias t with
  | TSlice _ => VSlice [VAtom k; VAtom (k + 1)]
  | TMap _ _ => VMap [(VAtom k, VAtom (k + 1))]
  | _ => VAtom k
  end.

Fixpoint sample_struct (k : N) (fs : list field) : svalue :=
  match fs with
  | [] => []
  | f :: r => (f_name f, sample k (f_ty f)) :: sample_struct (k + 2) r
  end.

Fixpoint value_eqb (a b : value) {struct a} : bool :=
  match a, b with
  | VZero, VZero => true
  | VAtom x, VAtom y => N.eqb x y
  | VSlice x, VSlice y =>
      (fix go (x y : list value) {struct x} : bool :=
         match x, y with
         | [], [] => true
         | v1 :: x', v2 :: y' => value_eqb v1 v2 && go x' y'
         | _, _ => false
         end) x y
  | VMap x, VMap y =>
      (fix go (x y : list (value * value)) {struct x} : bool :=
         match x, y with
         | [], [] => true
         | (k1, v1) :: x', (k2, v2) :: y' => value_eqb k1 k2 && value_eqb v1 v2 && go x' y'
         | _, _ => false
         end) x y
  | _, _ => false
  end.

(* what a replacement's DeepCopyIntoAs stores: a marked copy, distinguishable from plain assignment *)
Definition conv_mark (f : bytes) (v : value) : value := VSlice [VAtom 424242; v].

(* replaced fields are converted by the replacement's DeepCopyIntoAs (marked); a field type's own DeepCopyAs /
   DeepCopyIntoAs methods are taken to copy faithfully *)
Definition conv_for (ti : tinput) (f : bytes) (v : value) : value :=
  match spec_replace (ti_replace ti) f with
  | Some _ => conv_mark f v
  | None => v
  end.

(* statements the abstraction does not recognise say nothing at this level: the model comparison flags them
   (mismatch) and the compile-and-run oracle decides the property on the real code *)
Definition stmt_unknown (s : stmt) : bool := match s with SOther _ => true | _ => false end.

Definition copy_holds (ti : tinput) (fs : list field) (ot : otype) : bool :=
  let inv := sample_struct 1 fs in
  existsb stmt_unknown (ot_stmts ot) ||
  match exec_stmts (conv_for ti) inv [] (ot_stmts ot) with
     | None => false
     | Some out =>
         forallb (fun f =>
           if bytes_eqb (f_name f) blank_name then true      (* a blank field holds no value that could be told *)
           else if omitted (ti_omit ti) (f_name f) then value_eqb (sget out (f_name f)) VZero
           else value_eqb (sget out (f_name f)) (conv_for ti (f_name f) (sget inv (f_name f)))) fs
     end
  && match exec_stmts (conv_for ti) [] [] (ot_stmts ot) with     (* every field zero (nil containers): the copy is zero *)
     | None => false
     | Some out =>
         forallb (fun f => match spec_replace (ti_replace ti) (f_name f) with
                           | Some _ => true
                           | None => value_eqb (sget out (f_name f)) VZero
                           end) fs
     end.

(* the make(T, …) of every container copy names the field's own type *)
Definition make_types_hold (imps : list (bytes * bytes)) (target : bytes) (fs : list field) (ss : list stmt) : bool :=
  forallb (fun s =>
    match s with
    | SCopySlice f t | SCopyMap f t =>
        match find (fun x => bytes_eqb (f_name x) f) fs with
        | Some x => denotes imps target t (f_ty x)
        | None => false
        end
    | _ => true
    end) ss.

Definition type_holds (imps : list (bytes * bytes)) (target : bytes) (ti : tinput) (ot : otype) : bool :=
  match ti_under ti, own_origin ti with
  | Some fs, Some tn =>
      denotes_name imps target (ot_origin ot) tn
      && denotes_name imps target (ot_into ot) tn
      && list_match (field_holds imps target (ti_replace ti))
           (filter (fun f => negb (omitted (ti_omit ti) (f_name f))) fs) (ot_fields ot)
      && copy_holds ti fs ot
      && make_types_hold imps target fs (ot_stmts ot)
  | _, _ => false
  end.

Definition otype_quals (ot : otype) : list bytes :=
  oty_quals (ot_origin ot) ++ oty_quals (ot_into ot)
  ++ flat_map (fun f => oty_quals (of_ty f)) (ot_fields ot) ++ flat_map stmt_quals (ot_stmts ot).

Definition imports_used (imps : list (bytes * bytes)) (ots : list otype) : bool :=
  let used := flat_map otype_quals ots in
  forallb (fun pn => name_in (snd pn) used) imps.

Definition holds (c : case) : bool :=
  let en := filter ti_enabled (c_types c) in
  if negb (c_dom c) then true else
  if existsb (fun ti => match decl_error ti with Some _ => true | None => false end) en then
    (* "reported as an error rather than generating code" *)
    match c_obs c with
    | ObsErr k => existsb (fun ti => option_eqb errkind_eqb (decl_error ti) (Some k)) en
    | _ => false
    end
  else
    match c_obs c with
    | ObsFile imps ots =>
        nodupb (map snd imps) && imports_used imps ots && list_match (type_holds imps (c_target c)) en ots
    | _ => false
    end.

Definition mismatches (cs : list case) : list nat := bad_indices mismatch cs.
Definition violations (cs : list case) : list nat := bad_indices (fun c => negb (holds c)) cs.
