(* Correspondence evaluators for C02.  A case is one Execute call with one injected fault (or none): the
   observation is the outcome class reported by the child (or its death), the call log, and the tree. *)
Require Export Gengo.Corr.Pipe Gengo.Spec.PipelineSpec.

Record case := mk_case {
  c_all : bool; c_force : bool; c_base : bytes;
  c_world : world; c_gens : list sgen; c_fmt : list (bytes * option bytes);
  c_before : fs; c_after : fs; c_trace : trace; c_out : obs_outcome
}.

Definition c_args (c : case) : args := {| a_all := c_all c; a_force := c_force c; a_base := c_base c |}.

Definition mismatch (c : case) : bool :=
  run_mismatch_either (c_args c) (c_world c) (c_gens c) (c_fmt c) (c_before c) (c_after c) (c_trace c) (c_out c).

(* ---- the property, on the observation only ---- *)

Definition same_at (c : case) (q : path) : bool := content_eqb (fs_lookup q (c_after c)) (fs_lookup q (c_before c)).

Definition sum_same (c : case) : bool := same_at c (sum_path (c_world c)).

(* the previous file of generator g in the package with import path pp is byte-identical (or still absent) *)
Definition gen_file_same (c : case) (g pp : bytes) : bool :=
  forallb (fun p => negb (bytes_eqb (pk_path p) pp) || same_at c (gen_file (c_args c) p g)) (w_pkgs (c_world c)).

(* what generator g rendered for package pp in this run, as logged *)
Definition body_obs (tr : trace) (g pp : bytes) : bytes :=
  concat (map ev_body (filter (ev_of g pp) tr)).

Definition unparseable_obs (c : case) (p : pkginfo) (g : bytes) : bool :=
  let b := body_obs (c_trace c) g (pk_path p) in
  negb (is_nil b) && negb (is_some (tbl_fmt (c_fmt c) (assemble (pk_name p) g b))).

Definition holds (c : case) : bool :=
  (* no logged error other than ErrSkip/ErrIgnore is swallowed: the outcome is the verdict of the failing call *)
  forallb (fun e => match ev_verdict e with None => true | Some o => outcome_eqb o (c_out c) end) (c_trace c)
  && match c_out c with
     | ODone =>
         (* everything that was rendered parsed; gengo.sum may only change under All *)
         forallb (fun kv => is_some (snd kv)) (c_fmt c) && (c_all c || sum_same c)
     | OGen g pp =>
         existsb (fun e => ev_of g pp e && ev_is_call e && gresult_eqb (ev_res e) RErr) (c_trace c)
         && gen_file_same c g pp && sum_same c
     | ODefer g pp =>
         existsb (fun e => ev_of g pp e && negb (ev_is_call e) && negb (gresult_eqb (ev_res e) RNil)) (c_trace c)
         && gen_file_same c g pp && sum_same c
     | OParse q =>
         (* the position is in the file of a generator whose rendering does not parse; that file is untouched *)
         existsb (fun p => existsb (fun g => path_eqb q (gen_file (c_args c) p (sg_name g)) && unparseable_obs c p (sg_name g))
                                   (c_gens c)) (w_pkgs (c_world c))
         && same_at c q && sum_same c
     | ODied =>
         existsb (fun e => gresult_eqb (ev_res e) RDie) (c_trace c) && sum_same c
     | OOther => false
     end.

Definition mismatches (cs : list case) : list nat := bad_indices mismatch cs.
Definition violations (cs : list case) : list nat := bad_indices (fun c => negb (holds c)) cs.
