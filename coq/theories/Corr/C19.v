(* Correspondence evaluators for C19: model vs observation, and the property's own predicate
   evaluated on the implementation's observed output. *)
Require Export Gengo.Base.Bytes Gengo.Model.CamelCase.

Inductive obs := OWords (ws : list (list N)) | OPanic.

Record case := mk_case {
  c_in : gostr crune;
  c_split : obs;                          (* what camelcase.Split returned *)
  c_cmp_conv : bool;                      (* input is ASCII: converters are compared in full *)
  c_convs : list (option (list N))        (* six converters, None = panicked *)
}.

Definition words_eqb := list_eqb (list_eqb N.eqb).

Definition model_split (c : case) : obs :=
  match split crune c_cls true (c_in c) with
  | Ok ws => OWords (map codes ws)
  | _ => OPanic
  end.

Definition obs_eqb (a b : obs) : bool :=
  match a, b with
  | OWords x, OWords y => words_eqb x y
  | OPanic, OPanic => true
  | _, _ => false
  end.

Definition model_conv (c : case) (k : nat) : option (list N) :=
  match c_conv true k (c_in c) with
  | Ok r => Some (codes r)
  | _ => None
  end.

Definition conv_mismatch (c : case) : bool :=
  if c_cmp_conv c then
    negb (list_eqb (option_eqb (list_eqb N.eqb)) (map (model_conv c) [0;1;2;3;4;5]) (c_convs c))
  else false.

Definition mismatch (c : case) : bool :=
  negb (obs_eqb (model_split c) (c_split c)) || conv_mismatch c.

(* the property, as a predicate on what the implementation returned *)
Definition holds (c : case) : bool :=
  (match c_split c with
   | OPanic => false
   | OWords ws =>
       list_eqb N.eqb (concat ws) (codes (content (c_in c)))
       && forallb (fun w => negb (is_nil w)) ws
       && match c_in c with
          | Invalid bs => words_eqb ws [codes bs]
          | Valid _ => true
          end
   end)
  && forallb (fun o => match o with Some _ => true | None => false end) (c_convs c).

Definition mismatches (cs : list case) : list nat := bad_indices mismatch cs.
Definition violations (cs : list case) : list nat := bad_indices (fun c => negb (holds c)) cs.
