(* toLocalName, read declaratively: split the joined segments into camel-case words, drop the
   words that are a single ASCII punctuation character or space, lower-case the rest, concatenate.
   (The title-casing LowerCamelCase applies to every word but the first is undone by the final
   strings.ToLower.) *)
Require Import Gengo.Base.Bytes Gengo.Model.CamelCase Gengo.Model.GoIdent Gengo.Model.Tracker.

Definition lowb (x : crune) : ascii := to_lower (ascii_of_N (c_code x)).

Definition byte_code (n : N) : Prop := (n < 256)%N.

Lemma to_lower_code_upper : forall n, (65 <= n)%N -> (n <= 90)%N ->
  to_lower (ascii_of_N n) = ascii_of_N (n + 32).
Proof.
  intros n H1 H2. unfold to_lower, is_upper. rewrite N_ascii_embedding by lia.
  assert (E1 : N.leb 65 n = true) by (apply N.leb_le; lia).
  assert (E2 : N.leb n 90 = true) by (apply N.leb_le; lia). rewrite E1, E2. reflexivity.
Qed.

Lemma to_lower_code_not_upper : forall n, (n < 256)%N -> (n < 65 \/ 90 < n)%N ->
  to_lower (ascii_of_N n) = ascii_of_N n.
Proof.
  intros n Hb H. unfold to_lower, is_upper. rewrite N_ascii_embedding by exact Hb.
  destruct H as [H|H].
  - assert (E : N.leb 65 n = false) by (apply N.leb_gt; lia). rewrite E. reflexivity.
  - assert (E : N.leb n 90 = false) by (apply N.leb_gt; lia). rewrite E, andb_false_r. reflexivity.
Qed.

Lemma lowb_a_low : forall r, (c_code r < 256)%N -> lowb (a_low r) = lowb r.
Proof.
  intros [n c] Hb. unfold lowb, a_low, c_code in *. cbn [fst] in *.
  destruct (N.leb 65 n && N.leb n 90) eqn:E; [|reflexivity].
  apply andb_true_iff in E. destruct E as [E1 E2]. apply N.leb_le in E1. apply N.leb_le in E2.
  cbn [fst]. rewrite (to_lower_code_upper n) by lia. apply to_lower_code_not_upper; lia.
Qed.

Lemma lowb_a_up : forall r, (c_code r < 256)%N -> lowb (a_up r) = lowb r.
Proof.
  intros [n c] Hb. unfold lowb, a_up, c_code in *. cbn [fst] in *.
  destruct (N.leb 97 n && N.leb n 122) eqn:E; [|reflexivity].
  apply andb_true_iff in E. destruct E as [E1 E2]. apply N.leb_le in E1. apply N.leb_le in E2.
  cbn [fst]. rewrite (to_lower_code_upper (n - 32)) by lia. replace (n - 32 + 32)%N with n by lia.
  symmetry. apply to_lower_code_not_upper; lia.
Qed.

Definition bytes_word (w : list crune) : Prop := Forall (fun r => (c_code r < 256)%N) w.

Lemma map_lowb_a_low : forall w, bytes_word w -> map lowb (map a_low w) = map lowb w.
Proof.
  induction w as [|r w IH]; intros F; [reflexivity|]. inversion F; subst. cbn.
  rewrite lowb_a_low by assumption. rewrite IH by assumption. reflexivity.
Qed.

Lemma map_lowb_a_title : forall w seen, bytes_word w -> map lowb (a_title seen w) = map lowb w.
Proof.
  induction w as [|r w IH]; intros seen F; [reflexivity|]. inversion F; subst. cbn [a_title].
  destruct seen; [|destruct (a_cased r)]; cbn [map]; rewrite IH by assumption;
    [rewrite lowb_a_low by assumption|rewrite lowb_a_up by assumption|]; reflexivity.
Qed.

Lemma codes_lowb : forall a b, codes a = codes b -> map lowb a = map lowb b.
Proof.
  induction a as [|x a IH]; destruct b as [|y b]; cbn; intros H; try discriminate; [reflexivity|].
  inversion H. unfold lowb at 1 3. rewrite H1. f_equal. apply IH. assumption.
Qed.

Lemma map_lowb_id : forall w, bytes_word w -> a_is_id w = true ->
  map lowb [(73, CUpper); (68, CUpper)]%N = map lowb w.
Proof.
  intros w F H. unfold a_is_id in H. apply (list_eqb_spec N.eqb) in H; [|intros; apply N.eqb_eq].
  rewrite <- (map_lowb_a_low w F).
  transitivity (map lowb [(105, CLower); (100, CLower)]%N); [vm_compute; reflexivity|].
  apply codes_lowb. rewrite H. reflexivity.
Qed.

Lemma t_camel_lowb : forall w idx, bytes_word w ->
  map lowb (t_camel crune (map a_low) (a_title false) a_is_id [(73, CUpper); (68, CUpper)]%N true w idx) = map lowb w.
Proof.
  intros w idx F. unfold t_camel. destruct (true && Nat.eqb idx 0).
  - apply map_lowb_a_low. exact F.
  - destruct (a_is_id w) eqn:E.
    + apply map_lowb_id; assumption.
    + apply map_lowb_a_title. exact F.
Qed.

Definition kept (w : list crune) : bool := negb (droppable crune c_blen c_drop1 w).

Lemma mc_words_lowb : forall ws idx, Forall bytes_word ws ->
  map lowb (mc_words crune c_blen c_drop1 []
              (t_camel crune (map a_low) (a_title false) a_is_id [(73, CUpper); (68, CUpper)]%N true) ws idx)
  = concat (map (map lowb) (filter kept ws)).
Proof.
  induction ws as [|w ws IH]; intros idx F; [reflexivity|]. inversion F; subst. cbn [mc_words filter].
  unfold kept at 1. destruct (droppable crune c_blen c_drop1 w); cbn [negb].
  - apply IH. assumption.
  - cbn [map concat]. rewrite !map_app. rewrite t_camel_lowb by assumption. rewrite IH by assumption.
    destruct idx; reflexivity.
Qed.

Require Import Gengo.Proofs.CamelCase.

Lemma words_are_bytes : forall s ws,
  split crune c_cls true (Valid (map cr s)) = Ok ws -> Forall bytes_word ws.
Proof.
  intros s ws H. apply split_lossless in H. destruct H as [H _]. cbn [content] in H.
  apply Forall_forall. intros w Hw. apply Forall_forall. intros r Hr.
  assert (I : In r (concat ws)) by (apply in_concat; eauto).
  rewrite H in I. apply in_map_iff in I. destruct I as (c & <- & _). unfold cr, c_code. cbn [fst].
  apply N_ascii_bounded.
Qed.

Theorem raw_local_name_spec : forall parts,
  exists ws, split crune c_cls true (Valid (map cr (concat parts))) = Ok ws /\
             raw_local_name parts = Ok (concat (map (map lowb) (filter kept ws))).
Proof.
  intros parts. destruct (split_total crune c_cls (Valid (map cr (concat parts)))) as [ws Hs].
  exists ws. split; [exact Hs|]. unfold raw_local_name, c_conv, conv, make_case. rewrite Hs.
  f_equal. apply (mc_words_lowb ws 0). eapply words_are_bytes; eauto.
Qed.
