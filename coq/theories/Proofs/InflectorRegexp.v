(* Lemmas about Model/InflectorRegexp.v, for EVERY pattern of the abstract syntax, every template and
   every text: the matcher and the ReplaceAllString loop never run out of fuel; a match lies inside
   the text, at or after the position the search started from; ReplaceAllString keeps the text before
   the leftmost match; the loop over the rules returns the input unchanged when no rule matches. *)
Require Import Coq.Arith.PeanoNat.
Require Import Gengo.Base.Bytes Gengo.Model.Inflector Gengo.Model.InflectorRegexp.

(* ---- "the text [t] at offset [pos] extends to the text [t'] at offset [pos']" ---- *)

Definition ext (pos : nat) (t : bytes) (pos' : nat) (t' : bytes) : Prop :=
  exists u, t = u ++ t' /\ pos' = pos + length u.

Lemma ext_refl : forall pos t, ext pos t pos t.
Proof. intros pos t. exists []. split; [reflexivity|cbn; lia]. Qed.

Lemma ext_trans : forall p1 t1 p2 t2 p3 t3, ext p1 t1 p2 t2 -> ext p2 t2 p3 t3 -> ext p1 t1 p3 t3.
Proof.
  intros p1 t1 p2 t2 p3 t3 [u [E1 P1]] [v [E2 P2]]. exists (u ++ v). split.
  - rewrite E1, E2. rewrite app_assoc. reflexivity.
  - rewrite app_length. lia.
Qed.

Lemma ext_len : forall p t p' t', ext p t p' t' -> p <= p' /\ p' + length t' = p + length t.
Proof. intros p t p' t' [u [E P]]. subst t. rewrite app_length. lia. Qed.

Lemma ext_firstn : forall w t, w <= length t -> forall pos, ext pos t (pos + w) (skipn w t).
Proof.
  intros w t Hw pos. exists (firstn w t). split.
  - symmetry. apply firstn_skipn.
  - rewrite firstn_length_le by exact Hw. reflexivity.
Qed.

(* ---- the elementary steps consume a prefix of the text ---- *)

Lemma strip_prefix_app : forall pre t t', strip_prefix pre t = Some t' -> t = pre ++ t'.
Proof.
  induction pre as [|a pre IH]; intros t t' H; cbn in H.
  - inversion H. reflexivity.
  - destruct t as [|x t]; [discriminate|].
    destruct (byte_eqb a x) eqn:E; [|discriminate].
    apply Ascii.eqb_eq in E. subst x. cbn. f_equal. apply IH. exact H.
Qed.

Lemma eat_fold_app : forall c t t', eat_fold c t = Some t' -> exists u, t = u ++ t'.
Proof.
  intros c t t' H. unfold eat_fold in H. destruct t as [|x r]; [discriminate|].
  destruct (is_letter c).
  - destruct (byte_eqb (to_lower x) (to_lower c)).
    + inversion H. exists [x]. reflexivity.
    + destruct (byte_eqb (to_lower c) (b_ 115)).
      * exists long_s. apply strip_prefix_app. exact H.
      * destruct (byte_eqb (to_lower c) (b_ 107)); [|discriminate].
        exists kelvin. apply strip_prefix_app. exact H.
  - destruct (byte_eqb x c); [|discriminate]. inversion H. exists [x]. reflexivity.
Qed.

Lemma eat_lit_ext : forall fold c t w t' pos, eat_lit fold c t = Some (w, t') -> ext pos t (pos + w) t'.
Proof.
  intros fold c t w t' pos H. unfold eat_lit in H. destruct fold.
  - destruct (eat_fold c t) as [t1|] eqn:E; [|discriminate]. inversion H; subst t1 w.
    destruct (eat_fold_app _ _ _ E) as [u Hu]. exists u. split; [exact Hu|].
    rewrite Hu at 1. rewrite app_length. lia.
  - destruct t as [|x r]; [discriminate|]. destruct (byte_eqb x c); [|discriminate].
    inversion H; subst. exists [x]. split; [reflexivity|reflexivity].
Qed.

Lemma rune_width_le : forall t, rune_width t <= length t.
Proof.
  intros t. unfold rune_width.
  destruct t as [|b0 [|b1 [|b2 [|b3 r]]]]; cbn [length];
    repeat match goal with |- context [if ?c then _ else _] => destruct c end; lia.
Qed.

Lemma rune_width_pos : forall x t, 1 <= rune_width (x :: t).
Proof.
  intros x t. unfold rune_width.
  destruct t as [|b1 [|b2 [|b3 r]]];
    repeat match goal with |- context [if ?c then _ else _] => destruct c end; lia.
Qed.

Local Opaque rune_width.

Lemma eat_any_ext : forall t w t' pos, eat_any t = Some (w, t') -> ext pos t (pos + w) t'.
Proof.
  intros t w t' pos H. unfold eat_any in H. destruct t as [|x r]; [discriminate|].
  destruct (byte_eqb x nl); [discriminate|]. injection H as <- <-.
  apply ext_firstn. apply rune_width_le.
Qed.

Lemma eat_class_ext : forall fold neg ms t w t' pos, eat_class fold neg ms t = Some (w, t') -> ext pos t (pos + w) t'.
Proof.
  intros fold neg ms t w t' pos H. unfold eat_class in H. destruct t as [|x r]; [discriminate|].
  destruct (xorb (class_member fold ms (x :: r)) neg); [|discriminate]. injection H as <- <-.
  apply ext_firstn. apply rune_width_le.
Qed.

(* ---- the matcher never runs out of fuel ---- *)

Definition no_fuel {A} (k : kont A) : Prop := forall p t c, k p t c <> MFuel.

Lemma star_loop_no_fuel : forall A (step : kont A -> kont A) (k : kont A),
  (forall k' pos t cs, no_fuel k' -> step k' pos t cs <> MFuel) -> no_fuel k ->
  forall n pos t cs, length t < n -> star_loop A step k n pos t cs <> MFuel.
Proof.
  intros A step k Hstep Hk. induction n as [|n IH]; intros pos t cs Hn; [lia|].
  cbn [star_loop].
  match goal with |- context [step ?kk pos t cs] => pose proof (Hstep kk pos t cs) as H; destruct (step kk pos t cs) end.
  - discriminate.
  - apply Hk.
  - exfalso. apply H; [|reflexivity].
    intros p t' c. destruct (Nat.ltb (length t') (length t)) eqn:E; [|discriminate].
    apply IH. apply Nat.ltb_lt in E. lia.
Qed.

Lemma rmatch_no_fuel : forall fold A (r : re) (k : kont A) pos t cs,
  no_fuel k -> rmatch fold A r k pos t cs <> MFuel.
Proof.
  intros fold A r. induction r as [|c| |neg ms| | |a IHa b IHb|a IHa b IHb|a IHa|a IHa|g a IHa];
    intros k pos t cs Hk; cbn [rmatch].
  - apply Hk.
  - destruct (eat_lit fold c t) as [[w t']|]; [apply Hk|discriminate].
  - destruct (eat_any t) as [[w t']|]; [apply Hk|discriminate].
  - destruct (eat_class fold neg ms t) as [[w t']|]; [apply Hk|discriminate].
  - destruct (Nat.eqb pos 0); [apply Hk|discriminate].
  - destruct (is_nil t); [apply Hk|discriminate].
  - apply IHa. intros p t' c. apply IHb. exact Hk.
  - pose proof (IHa k pos t cs Hk) as H. destruct (rmatch fold A a k pos t cs).
    + discriminate.
    + apply IHb. exact Hk.
    + exact H.
  - apply star_loop_no_fuel; [|exact Hk|lia].
    intros k' p t' c Hk'. apply IHa. exact Hk'.
  - pose proof (IHa k pos t cs Hk) as H. destruct (rmatch fold A a k pos t cs).
    + discriminate.
    + apply Hk.
    + exact H.
  - apply IHa. intros p t' c. apply Hk.
Qed.

(* ---- a success of the matcher is a success of its continuation further on in the text ---- *)

Definition yes_inv {A} (f : kont A -> kont A) : Prop :=
  forall k pos t cs x, f k pos t cs = MYes x ->
  exists pos' t' cs', ext pos t pos' t' /\ k pos' t' cs' = MYes x.

Lemma star_loop_yes : forall A (step : kont A -> kont A), yes_inv step ->
  forall k n pos t cs x, star_loop A step k n pos t cs = MYes x ->
  exists pos' t' cs', ext pos t pos' t' /\ k pos' t' cs' = MYes x.
Proof.
  intros A step Hstep k. induction n as [|n IH]; intros pos t cs x H; [discriminate|].
  cbn [star_loop] in H.
  match type of H with context [step ?kk pos t cs] => destruct (step kk pos t cs) as [y| |] eqn:E end.
  - inversion H; subst y. apply Hstep in E. destruct E as [p1 [t1 [c1 [X1 E1]]]].
    destruct (Nat.ltb (length t1) (length t)); [|discriminate].
    apply IH in E1. destruct E1 as [p2 [t2 [c2 [X2 E2]]]].
    exists p2, t2, c2. split; [eapply ext_trans; eassumption|exact E2].
  - exists pos, t, cs. split; [apply ext_refl|exact H].
  - discriminate.
Qed.

Lemma rmatch_yes : forall fold A (r : re), yes_inv (rmatch fold A r).
Proof.
  intros fold A r. induction r as [|c| |neg ms| | |a IHa b IHb|a IHa b IHb|a IHa|a IHa|g a IHa];
    intros k pos t cs x H; cbn [rmatch] in H.
  - exists pos, t, cs. split; [apply ext_refl|exact H].
  - destruct (eat_lit fold c t) as [[w t']|] eqn:E; [|discriminate].
    exists (pos + w), t', cs. split; [eapply eat_lit_ext; exact E|exact H].
  - destruct (eat_any t) as [[w t']|] eqn:E; [|discriminate].
    exists (pos + w), t', cs. split; [eapply eat_any_ext; exact E|exact H].
  - destruct (eat_class fold neg ms t) as [[w t']|] eqn:E; [|discriminate].
    exists (pos + w), t', cs. split; [eapply eat_class_ext; exact E|exact H].
  - destruct (Nat.eqb pos 0); [|discriminate]. exists pos, t, cs. split; [apply ext_refl|exact H].
  - destruct (is_nil t); [|discriminate]. exists pos, t, cs. split; [apply ext_refl|exact H].
  - apply IHa in H. destruct H as [p1 [t1 [c1 [X1 H1]]]].
    apply IHb in H1. destruct H1 as [p2 [t2 [c2 [X2 H2]]]].
    exists p2, t2, c2. split; [eapply ext_trans; eassumption|exact H2].
  - destruct (rmatch fold A a k pos t cs) as [y| |] eqn:E.
    + inversion H; subst y. apply IHa in E. exact E.
    + apply IHb in H. exact H.
    + discriminate.
  - eapply star_loop_yes; [exact IHa|exact H].
  - destruct (rmatch fold A a k pos t cs) as [y| |] eqn:E.
    + inversion H; subst y. apply IHa in E. exact E.
    + exists pos, t, cs. split; [apply ext_refl|exact H].
    + discriminate.
  - apply IHa in H. destruct H as [p1 [t1 [c1 [X1 H1]]]].
    exists p1, t1, ((g, firstn (p1 - pos) t) :: c1). split; [exact X1|exact H1].
Qed.

(* ---- match_at / search ---- *)

Lemma match_at_no_fuel : forall fold r pos t, match_at fold r pos t <> MFuel.
Proof. intros. unfold match_at. apply rmatch_no_fuel. intros p t' c. discriminate. Qed.

Lemma match_at_bounds : forall fold r pos t a0 a1 cs,
  match_at fold r pos t = MYes (a0, a1, cs) -> a0 = pos /\ pos <= a1 /\ a1 <= pos + length t.
Proof.
  intros fold r pos t a0 a1 cs H. unfold match_at in H. apply rmatch_yes in H.
  destruct H as [p1 [t1 [c1 [X H]]]]. inversion H; subst. apply ext_len in X. lia.
Qed.

Lemma search_from_no_fuel : forall fold r t pos skip, search_from fold r pos t skip <> MFuel.
Proof.
  intros fold r. induction t as [|x t IH]; intros pos skip; cbn [search_from].
  - destruct skip; [|discriminate].
    pose proof (match_at_no_fuel fold r pos []) as H. destruct (match_at fold r pos []); [discriminate|discriminate|exact H].
  - destruct skip; [|apply IH].
    pose proof (match_at_no_fuel fold r pos (x :: t)) as H.
    destruct (match_at fold r pos (x :: t)); [discriminate|apply IH|exact H].
Qed.

Lemma search_from_bounds : forall fold r t pos skip a0 a1 cs,
  search_from fold r pos t skip = MYes (a0, a1, cs) -> pos <= a0 /\ a0 <= a1 /\ a1 <= pos + length t.
Proof.
  intros fold r. induction t as [|x t IH]; intros pos skip a0 a1 cs H; cbn [search_from] in H.
  - destruct skip; [|discriminate].
    destruct (match_at fold r pos []) as [[[b0 b1] c]| |] eqn:E; try discriminate.
    inversion H; subst. apply match_at_bounds in E. lia.
  - destruct skip.
    + destruct (match_at fold r pos (x :: t)) as [[[b0 b1] c]| |] eqn:E; try discriminate.
      * inversion H; subst. apply match_at_bounds in E. lia.
      * apply IH in H. cbn [length]. lia.
    + apply IH in H. cbn [length]. lia.
Qed.

Lemma search_no_fuel : forall fold r s pos, search fold r s pos <> MFuel.
Proof. intros. unfold search. apply search_from_no_fuel. Qed.

Lemma search_bounds : forall fold r s pos a0 a1 cs, pos <= length s ->
  search fold r s pos = MYes (a0, a1, cs) -> pos <= a0 /\ a0 <= a1 /\ a1 <= length s.
Proof.
  intros fold r s pos a0 a1 cs Hp H. unfold search in H. apply search_from_bounds in H.
  rewrite skipn_length in H. lia.
Qed.

(* ---- soundness: what the matcher reports is a match in the declarative sense ---- *)

Definition sound_for {A} (fold : bool) (r : re) (f : kont A -> kont A) : Prop :=
  forall k pos t cs x, f k pos t cs = MYes x ->
  exists pos' t' cs', matches fold r pos t pos' t' /\ k pos' t' cs' = MYes x.

Lemma star_loop_sound : forall A fold a (step : kont A -> kont A), sound_for fold a step ->
  forall k n pos t cs x, star_loop A step k n pos t cs = MYes x ->
  exists pos' t' cs', matches fold (RStar a) pos t pos' t' /\ k pos' t' cs' = MYes x.
Proof.
  intros A fold a step Hstep k. induction n as [|n IH]; intros pos t cs x H; [discriminate|].
  cbn [star_loop] in H.
  match type of H with context [step ?kk pos t cs] => destruct (step kk pos t cs) as [y| |] eqn:E end.
  - inversion H; subst y. apply Hstep in E. destruct E as [p1 [t1 [c1 [X1 E1]]]].
    destruct (Nat.ltb (length t1) (length t)); [|discriminate].
    apply IH in E1. destruct E1 as [p2 [t2 [c2 [X2 E2]]]].
    exists p2, t2, c2. split; [eapply M_star_more; eassumption|exact E2].
  - exists pos, t, cs. split; [apply M_star_nil|exact H].
  - discriminate.
Qed.

Lemma rmatch_sound : forall fold A (r : re), sound_for fold r (rmatch fold A r).
Proof.
  intros fold A r. induction r as [|c| |neg ms| | |a IHa b IHb|a IHa b IHb|a IHa|a IHa|g a IHa];
    intros k pos t cs x H; cbn [rmatch] in H.
  - exists pos, t, cs. split; [apply M_empty|exact H].
  - destruct (eat_lit fold c t) as [[w t']|] eqn:E; [|discriminate].
    exists (pos + w), t', cs. split; [apply M_char; exact E|exact H].
  - destruct (eat_any t) as [[w t']|] eqn:E; [|discriminate].
    exists (pos + w), t', cs. split; [apply M_any; exact E|exact H].
  - destruct (eat_class fold neg ms t) as [[w t']|] eqn:E; [|discriminate].
    exists (pos + w), t', cs. split; [apply M_class; exact E|exact H].
  - destruct (Nat.eqb pos 0) eqn:E; [|discriminate]. apply Nat.eqb_eq in E. subst pos.
    exists 0, t, cs. split; [apply M_bol|exact H].
  - destruct t; [|discriminate]. exists pos, [], cs. split; [apply M_eol|exact H].
  - apply IHa in H. destruct H as [p1 [t1 [c1 [X1 H1]]]].
    apply IHb in H1. destruct H1 as [p2 [t2 [c2 [X2 H2]]]].
    exists p2, t2, c2. split; [eapply M_cat; eassumption|exact H2].
  - destruct (rmatch fold A a k pos t cs) as [y| |] eqn:E.
    + inversion H; subst y. apply IHa in E. destruct E as [p1 [t1 [c1 [X1 H1]]]].
      exists p1, t1, c1. split; [apply M_alt_l; exact X1|exact H1].
    + apply IHb in H. destruct H as [p1 [t1 [c1 [X1 H1]]]].
      exists p1, t1, c1. split; [apply M_alt_r; exact X1|exact H1].
    + discriminate.
  - eapply star_loop_sound; [exact IHa|exact H].
  - destruct (rmatch fold A a k pos t cs) as [y| |] eqn:E.
    + inversion H; subst y. apply IHa in E. destruct E as [p1 [t1 [c1 [X1 H1]]]].
      exists p1, t1, c1. split; [apply M_opt_some; exact X1|exact H1].
    + exists pos, t, cs. split; [apply M_opt_none|exact H].
    + discriminate.
  - apply IHa in H. destruct H as [p1 [t1 [c1 [X1 H1]]]].
    exists p1, t1, ((g, firstn (p1 - pos) t) :: c1). split; [apply M_group; exact X1|exact H1].
Qed.

Lemma match_at_sound : forall fold r pos t a0 a1 cs,
  match_at fold r pos t = MYes (a0, a1, cs) -> exists t', matches fold r pos t a1 t'.
Proof.
  intros fold r pos t a0 a1 cs H. unfold match_at in H. apply rmatch_sound in H.
  destruct H as [p1 [t1 [c1 [X H]]]]. inversion H; subst. exists t1. exact X.
Qed.

(* a match found by the search is a declarative match of the pattern between its two offsets *)
Lemma search_from_sound : forall fold r t pos skip a0 a1 cs,
  search_from fold r pos t skip = MYes (a0, a1, cs) ->
  exists t', matches fold r a0 (skipn (a0 - pos) t) a1 t'.
Proof.
  intros fold r. induction t as [|x t IH]; intros pos skip a0 a1 cs H; cbn [search_from] in H.
  - destruct skip; [|discriminate].
    destruct (match_at fold r pos []) as [[[b0 b1] c]| |] eqn:E; try discriminate.
    inversion H; subst. pose proof (match_at_bounds _ _ _ _ _ _ _ E) as [B _]. subst a0.
    rewrite Nat.sub_diag. eapply match_at_sound. exact E.
  - assert (Hrec : forall k, search_from fold r (S pos) t k = MYes (a0, a1, cs) ->
                   exists t', matches fold r a0 (skipn (a0 - pos) (x :: t)) a1 t').
    { intros k Hk. pose proof (search_from_bounds _ _ _ _ _ _ _ _ Hk) as [B _].
      apply IH in Hk. replace (a0 - pos) with (S (a0 - S pos)) by lia. exact Hk. }
    destruct skip; [|eapply Hrec; exact H].
    destruct (match_at fold r pos (x :: t)) as [[[b0 b1] c]| |] eqn:E; try discriminate.
    + inversion H; subst. pose proof (match_at_bounds _ _ _ _ _ _ _ E) as [B _]. subst a0.
      rewrite Nat.sub_diag. eapply match_at_sound. exact E.
    + eapply Hrec; exact H.
Qed.

Lemma skipn_add : forall (A : Type) a b (l : list A), skipn a (skipn b l) = skipn (a + b) l.
Proof.
  intros A a b. induction b as [|b IH]; intros l.
  - rewrite Nat.add_0_r. reflexivity.
  - rewrite Nat.add_succ_r. destruct l as [|x l]; [destruct a; reflexivity|]. cbn [skipn]. apply IH.
Qed.

Lemma search_sound : forall fold r s pos a0 a1 cs,
  search fold r s pos = MYes (a0, a1, cs) -> exists t', matches fold r a0 (skipn a0 s) a1 t'.
Proof.
  intros fold r s pos a0 a1 cs H. unfold search in H.
  pose proof (search_from_bounds _ _ _ _ _ _ _ _ H) as [B _].
  apply search_from_sound in H. rewrite skipn_add in H.
  replace (a0 - pos + pos) with a0 in H by lia. exact H.
Qed.

(* ---- ReplaceAllString ---- *)

Section ReplaceLemmas.
  Variable fold : bool.
  Variable r : re.
  Variable tmpl : list titem.
  Variable s : bytes.

  (* every round moves searchPos forward: the loop returns *)
  Lemma replace_loop_returns : forall fuel last sp buf,
    sp <= length s + 1 -> length s + 2 <= sp + fuel ->
    exists out, replace_loop fold r tmpl s fuel last sp buf = Ok out.
  Proof.
    induction fuel as [|fuel IH]; intros last sp buf Hsp Hf; [lia|].
    cbn [replace_loop].
    destruct (Nat.ltb (length s) sp) eqn:E; [eexists; reflexivity|].
    apply Nat.ltb_ge in E.
    pose proof (search_no_fuel fold r s sp) as Hnf.
    destruct (search fold r s sp) as [[[a0 a1] cs]| |] eqn:Es; [|eexists; reflexivity|exfalso; apply Hnf; reflexivity].
    apply (search_bounds _ _ _ _ _ _ _ E) in Es. destruct Es as [B1 [B2 B3]].
    pose proof (rune_width_le (skipn sp s)) as Hw. rewrite skipn_length in Hw.
    apply IH.
    - repeat match goal with |- context [if ?c then _ else _] => destruct c end; lia.
    - destruct (Nat.ltb a1 (sp + rune_width (skipn sp s))) eqn:L1.
      + apply Nat.ltb_lt in L1. lia.
      + destruct (Nat.ltb a1 (sp + 1)) eqn:L2; [lia|]. apply Nat.ltb_ge in L2. lia.
  Qed.

  Lemma replace_all_returns : exists out, replace_all fold r tmpl s = Ok out.
  Proof. unfold replace_all. apply replace_loop_returns; lia. Qed.

  (* the loop only appends to what it has written *)
  Lemma replace_loop_appends : forall fuel last sp buf out,
    replace_loop fold r tmpl s fuel last sp buf = Ok out -> exists more, out = buf ++ more.
  Proof.
    induction fuel as [|fuel IH]; intros last sp buf out H; [discriminate|].
    cbn [replace_loop] in H.
    destruct (Nat.ltb (length s) sp); [inversion H; eexists; reflexivity|].
    destruct (search fold r s sp) as [[[a0 a1] cs]| |]; [|inversion H; eexists; reflexivity|discriminate].
    apply IH in H. destruct H as [more H]. subst out.
    destruct (Nat.ltb last a1 || Nat.eqb a0 0); rewrite <- ?app_assoc; eexists; reflexivity.
  Qed.

  (* ReplaceAllString keeps the text before the leftmost match *)
  Lemma replace_all_keeps_prefix : forall a0 a1 cs out,
    search fold r s 0 = MYes (a0, a1, cs) -> replace_all fold r tmpl s = Ok out ->
    exists more, out = firstn a0 s ++ more.
  Proof.
    intros a0 a1 cs out Hs H. unfold replace_all in H.
    replace (length s + 2) with (S (length s + 1)) in H by lia. cbn [replace_loop] in H.
    destruct (Nat.ltb (length s) 0) eqn:E; [apply Nat.ltb_lt in E; lia|].
    rewrite Hs in H. apply replace_loop_appends in H. destruct H as [more H].
    unfold slice in H. cbn [skipn app] in H. rewrite Nat.sub_0_r in H.
    destruct (Nat.ltb 0 a1 || Nat.eqb a0 0); rewrite <- ?app_assoc in H; eexists; exact H.
  Qed.
End ReplaceLemmas.

(* ---- the loop over the rules ---- *)

Lemma suffix_res_returns : forall rules s, exists out, suffix_res rules s = Ok out.
Proof.
  induction rules as [|c rules IH]; intros s; cbn [suffix_res].
  - eexists; reflexivity.
  - unfold match_string. pose proof (search_no_fuel (cr_fold c) (cr_re c) s 0) as Hnf.
    destruct (search (cr_fold c) (cr_re c) s 0).
    + apply replace_all_returns.
    + apply IH.
    + exfalso. apply Hnf. reflexivity.
Qed.

(* fuel always suffices: the plain function IS the result *)
Lemma suffix_fuel_suffices : forall rules s, suffix_res rules s = Ok (suffix_fn rules s).
Proof.
  intros rules s. unfold suffix_fn. destruct (suffix_res_returns rules s) as [out H]. rewrite H. reflexivity.
Qed.

(* no rule matches: the input is returned unchanged; otherwise the first matching rule rewrites, and
   everything before its leftmost match is kept *)
Lemma suffix_fn_shape : forall rules s,
  match first_matching rules s with
  | None => suffix_fn rules s = s
  | Some (c, a0) => In c rules /\ a0 <= length s /\ exists more, suffix_fn rules s = firstn a0 s ++ more
  end.
Proof.
  intros rules s. unfold suffix_fn.
  induction rules as [|c rules IH]; cbn [first_matching suffix_res].
  - reflexivity.
  - unfold match_string. pose proof (search_no_fuel (cr_fold c) (cr_re c) s 0) as Hnf.
    destruct (search (cr_fold c) (cr_re c) s 0) as [[[a0 a1] cs]| |] eqn:E.
    + split; [left; reflexivity|]. split.
      * apply search_bounds in E; lia.
      * destruct (replace_all_returns (cr_fold c) (cr_re c) (cr_tmpl c) s) as [out Ho]. rewrite Ho.
        eapply replace_all_keeps_prefix; eassumption.
    + destruct (first_matching rules s) as [[c' a0]|].
      * destruct IH as [I1 I2]. split; [right; exact I1|exact I2].
      * exact IH.
    + exfalso. apply Hnf. reflexivity.
Qed.
