(* A torn gengo.sum, read by the REAL parser (Model/SumFile.v: bytes.Lines + bytes.Fields + map assignment).
   sumfile.Save opens the file with O_TRUNC and then writes; a process that dies in between leaves a PREFIX of
   the bytes.  Whatever the cut: every answer of File.Sum on the torn file is a prefix of the answer on the whole
   file — the recorded hash itself, a strictly shorter string, or "" — so with hashes of one length a torn file can
   only cause regeneration, never a wrong skip. *)
Require Import Gengo.Base.Bytes Gengo.Model.SumFile Gengo.Proofs.SumFile.
From Coq Require Import Permutation Sorted PeanoNat.

Definition prefix_of (a b : bytes) : Prop := exists t, b = a ++ t.

Lemma prefix_nil : forall b, prefix_of [] b.
Proof. intros b. exists b. reflexivity. Qed.
Lemma prefix_refl : forall b, prefix_of b b.
Proof. intros b. exists []. rewrite app_nil_r. reflexivity. Qed.
Lemma prefix_firstn : forall i (b : bytes), prefix_of (firstn i b) b.
Proof. intros i b. exists (skipn i b). symmetry. apply firstn_skipn. Qed.

Lemma prefix_same_length : forall a b, prefix_of a b -> List.length a = List.length b -> a = b.
Proof.
  intros a b [t Ht] Hl. subst b. rewrite app_length in Hl. destruct t; [rewrite app_nil_r; reflexivity|].
  cbn [List.length] in Hl. lia.
Qed.

(* ---------- cutting a concatenation of blocks ---------- *)
Lemma firstn_flat_map {A} (f : A -> bytes) : forall l n,
  firstn n (flat_map f l) = flat_map f l
  \/ exists l1 x l2 j, l = l1 ++ x :: l2 /\ j < List.length (f x)
                       /\ firstn n (flat_map f l) = flat_map f l1 ++ firstn j (f x).
Proof.
  induction l as [|x r IH]; intros n; [left; destruct n; reflexivity|].
  cbn [flat_map]. rewrite firstn_app.
  destruct (Nat.ltb n (List.length (f x))) eqn:Hlt.
  - apply Nat.ltb_lt in Hlt. right. exists [], x, r, n. split; [reflexivity|]. split; [exact Hlt|].
    replace (n - List.length (f x)) with 0 by lia. cbn. rewrite app_nil_r. reflexivity.
  - apply Nat.ltb_ge in Hlt. rewrite firstn_all2 by exact Hlt.
    destruct (IH (n - List.length (f x))) as [Hall | [l1 [y [l2 [j [Hl [Hj Hf]]]]]]].
    + left. rewrite Hall. reflexivity.
    + right. exists (x :: l1), y, l2, j. split; [rewrite Hl; reflexivity|]. split; [exact Hj|].
      rewrite Hf. cbn [flat_map]. rewrite app_assoc. reflexivity.
Qed.

(* ---------- bytes.Lines on complete lines followed by a piece without newline ---------- *)
Lemma lines_no_nl : forall p, ~ In nl p -> lines p = match p with [] => [] | _ => [p] end.
Proof.
  induction p as [|c p IH]; intros Hn; [reflexivity|].
  cbn [lines]. rewrite byte_eqb_neq by (intros E; apply Hn; left; exact E).
  rewrite IH by (intros Hin; apply Hn; right; exact Hin). destruct p; reflexivity.
Qed.

Lemma lines_blocks_tail : forall (bodies : list bytes) rest,
  Forall (fun b => ~ In nl b) bodies ->
  lines (flat_map (fun b => b ++ [nl]) bodies ++ rest) = map (fun b => b ++ [nl]) bodies ++ lines rest.
Proof.
  induction bodies as [|b bs IH]; intros rest HF; [reflexivity|].
  inversion HF as [|? ? Hb Hbs]; subst.
  cbn [flat_map map]. rewrite <- !app_assoc. cbn [app].
  rewrite lines_block by exact Hb. rewrite IH by exact Hbs. reflexivity.
Qed.

(* ---------- bytes.Fields on a piece of a line ---------- *)
Lemma fields_plain : forall w, forallb plain w = true -> fields w = match w with [] => [] | _ => [w] end.
Proof.
  intros w Hw. unfold fields. rewrite <- (app_nil_r w) at 1. rewrite fields_go_plain by exact Hw.
  cbn [fields_go]. destruct w as [|c w]; [reflexivity|]. rewrite flush_rev_nonempty by discriminate. reflexivity.
Qed.

Lemma fields_key_piece : forall k v,
  token_ok k = true -> forallb plain v = true ->
  fields (k ++ sp :: v) = if is_nil v then [k] else [k; v].
Proof.
  intros k v Hk Hv. unfold token_ok in Hk. apply andb_true_iff in Hk. destruct Hk as [Hne Hk].
  assert (Hk0 : k <> []) by (destruct k; discriminate).
  unfold fields. rewrite fields_go_plain by exact Hk.
  rewrite fields_go_space1 by exact ascii_space_sp.
  rewrite flush_rev_nonempty by exact Hk0.
  rewrite <- (app_nil_r v) at 1. rewrite fields_go_plain by exact Hv.
  cbn [fields_go]. destruct v as [|c v]; [reflexivity|].
  rewrite flush_rev_nonempty by discriminate. reflexivity.
Qed.

Lemma forallb_firstn {A} (f : A -> bool) : forall n l, forallb f l = true -> forallb f (firstn n l) = true.
Proof.
  induction n as [|n IH]; intros l H; [reflexivity|]. destruct l as [|x l]; [reflexivity|].
  cbn [forallb firstn] in *. apply andb_true_iff in H. destruct H as [H1 H2]. rewrite H1, (IH l H2). reflexivity.
Qed.

(* a proper prefix of the line "k v\n": a piece of the key, or the key, a space and a piece of the value *)
Lemma line_piece : forall k v j, j < List.length (k ++ sp :: v ++ [nl]) ->
  (firstn j (k ++ sp :: v ++ [nl]) = firstn j k /\ j <= List.length k)
  \/ exists i, firstn j (k ++ sp :: v ++ [nl]) = k ++ sp :: firstn i v.
Proof.
  intros k v j Hj. rewrite app_length in Hj. cbn [List.length] in Hj. rewrite app_length in Hj. cbn [List.length] in Hj.
  destruct (Nat.leb j (List.length k)) eqn:Hle.
  - apply Nat.leb_le in Hle. left. split; [|exact Hle]. rewrite firstn_app.
    replace (j - List.length k) with 0 by lia. cbn. rewrite app_nil_r. reflexivity.
  - apply Nat.leb_gt in Hle. right. exists (j - List.length k - 1).
    rewrite firstn_app, firstn_all2 by lia. f_equal.
    destruct (j - List.length k) as [|i] eqn:Hd; [lia|]. cbn [firstn]. f_equal.
    rewrite firstn_app. replace (i - List.length v) with 0 by lia. cbn [firstn]. rewrite app_nil_r.
    f_equal. lia.
Qed.

(* ---------- the map read from complete lines ---------- *)
Lemma sum_sum_loaded : forall (val : bytes -> bytes) l key,
  sum_sum (filter (fun kv => negb (is_nil (snd kv))) (map (fun x => (x, val x)) l)) key
  = if existsb (fun x => bytes_eqb x key) l then val key else [].
Proof.
  intros val l key. induction l as [|a l IH]; [reflexivity|].
  cbn [map filter snd existsb]. destruct (bytes_eqb a key) eqn:E.
  - apply bytes_eqb_spec in E. subst a. cbn [orb].
    destruct (val key) as [|c v] eqn:Ev; cbn [is_nil negb].
    + rewrite IH, ?Ev. destruct (existsb (fun x => bytes_eqb x key) l); reflexivity.
    + unfold sum_sum. cbn [sum_get]. rewrite bytes_eqb_refl. reflexivity.
  - cbn [orb]. destruct (negb (is_nil (val a))); [|exact IH].
    unfold sum_sum. cbn [sum_get]. rewrite E. exact IH.
Qed.

Lemma sum_sum_app_one : forall acc k v key,
  sum_sum (acc ++ [(k, v)]) key
  = match sum_get acc key with Some x => x | None => if bytes_eqb k key then v else [] end.
Proof.
  intros acc k v key. unfold sum_sum. rewrite sum_get_app_fresh.
  destruct (sum_get acc key); [reflexivity|]. destruct (bytes_eqb k key); reflexivity.
Qed.

Lemma NoDup_app_l {A} : forall (a b : list A), NoDup (a ++ b) -> NoDup a.
Proof.
  induction a as [|x a IH]; intros b H; [constructor|]. cbn in H. inversion H as [|? ? Hn H']; subst.
  constructor; [intros Hin; apply Hn; apply in_or_app; left; exact Hin | eapply IH; exact H'].
Qed.

Lemma firstn_In' {A} : forall n (l : list A) x, In x (firstn n l) -> In x l.
Proof.
  induction n as [|n IH]; intros l x H; [contradiction|]. destruct l as [|y l]; [contradiction|].
  cbn [firstn] in H. destruct H as [H|H]; [left; exact H | right; apply IH; exact H].
Qed.

(* ---------- the theorem ---------- *)
Theorem torn_sum_prefix : forall m n key, kv_ok m ->
  prefix_of (sum_sum (sumfile_load (firstn n (sumfile_bytes m))) key) (sum_sum m key).
Proof.
  intros m n key Hok.
  destruct (firstn_flat_map (sum_line m) (sort_keys (map fst m)) n) as [Hall | [ks1 [k [ks2 [j [Hks [Hj Hcut]]]]]]].
  - unfold sumfile_bytes. rewrite Hall. fold (sumfile_bytes m). rewrite load_bytes_sum by exact Hok. apply prefix_refl.
  - unfold sumfile_bytes. rewrite Hcut. clear Hcut.
    set (val := sum_sum m).
    assert (Hperm : Permutation (ks1 ++ k :: ks2) (map fst m)) by (rewrite <- Hks; apply sort_keys_perm).
    assert (ND : NoDup (ks1 ++ k :: ks2)).
    { eapply Permutation_NoDup; [apply Permutation_sym; exact Hperm | exact (proj1 Hok)]. }
    assert (Htok : forall x, In x (ks1 ++ k :: ks2) -> token_ok x = true /\ forallb plain (val x) = true).
    { intros x Hx. apply kv_ok_values; [exact Hok | eapply Permutation_in; [exact Hperm | exact Hx]]. }
    assert (Hk : token_ok k = true /\ forallb plain (val k) = true) by (apply Htok; apply in_or_app; right; left; reflexivity).
    assert (Hk1 : ~ In k ks1).
    { intros Hin. apply NoDup_remove_2 in ND. apply ND. apply in_or_app. left. exact Hin. }
    (* the complete lines *)
    replace (flat_map (sum_line m) ks1) with (flat_map (fun b => b ++ [nl]) (map (fun x => x ++ sp :: val x) ks1)).
    2:{ rewrite flat_map_concat_map, map_map, <- flat_map_concat_map.
        apply flat_map_ext. intros x. symmetry. apply sum_line_shape. }
    assert (Hbodies : Forall (fun b => ~ In nl b) (map (fun x => x ++ sp :: val x) ks1)).
    { apply Forall_forall. intros b Hb. apply in_map_iff in Hb. destruct Hb as [x [E Hin]]. subst b.
      destruct (Htok x (in_or_app _ _ _ (or_introl Hin))) as [Hx Hv].
      unfold token_ok in Hx. apply andb_true_iff in Hx. destruct Hx as [_ Hx].
      intros Hnl. apply in_app_or in Hnl. destruct Hnl as [Hnl|[Hnl|Hnl]].
      - exact (token_no_nl x Hx Hnl). - discriminate Hnl. - exact (token_no_nl _ Hv Hnl). }
    unfold sumfile_load. rewrite lines_blocks_tail by exact Hbodies. rewrite fold_left_app, map_map.
    replace (map (fun x => (x ++ sp :: val x) ++ [nl]) ks1) with (map (fun x => x ++ sp :: val x ++ [nl]) ks1)
      by (apply map_ext; intros x; rewrite <- app_assoc; reflexivity).
    rewrite load_lines_fold.
    2:{ cbn [map app]. apply NoDup_app_l in ND. exact ND. }
    2:{ apply Forall_forall. intros x Hx. apply Htok. apply in_or_app. left. exact Hx. }
    cbn [app].
    set (acc := filter (fun kv => negb (is_nil (snd kv))) (map (fun x => (x, val x)) ks1)).
    assert (Hacc : forall key', sum_sum acc key' = if existsb (fun x => bytes_eqb x key') ks1 then val key' else [])
      by (intros key'; apply sum_sum_loaded).
    assert (Hfresh : ~ In k (map fst acc)).
    { intros Hin. apply in_map_iff in Hin. destruct Hin as [[x v] [E Hin]]. cbn in E. subst x.
      apply filter_In in Hin. destruct Hin as [Hin _]. apply in_map_iff in Hin. destruct Hin as [y [E Hy]].
      inversion E; subst. exact (Hk1 Hy). }
    (* the piece of the line that was being written *)
    unfold sum_line in Hj |- *. fold (val k) in Hj |- *.
    replace (k ++ sp :: val k ++ [nl]) with (k ++ sp :: val k ++ [nl]) by reflexivity.
    assert (Hprefix_acc : forall key', prefix_of (sum_sum acc key') (sum_sum m key')).
    { intros key'. rewrite Hacc. destruct (existsb _ ks1); [apply prefix_refl | apply prefix_nil]. }
    destruct Hk as [Hkt Hkv]. pose proof Hkt as Hkt'. unfold token_ok in Hkt'. apply andb_true_iff in Hkt'. destruct Hkt' as [_ Hkp].
    destruct (line_piece k (val k) j Hj) as [[Hpiece Hle] | [i Hpiece]]; rewrite Hpiece.
    + (* a piece of the key: one field at most, the line does not count *)
      assert (Hnn : ~ In nl (firstn j k)).
      { intros Hin. apply (token_no_nl k Hkp). eapply firstn_In'. exact Hin. }
      rewrite lines_no_nl by exact Hnn.
      destruct (firstn j k) as [|c piece] eqn:Hp; cbn [fold_left]; [apply Hprefix_acc|].
      unfold load_line. rewrite fields_plain by (rewrite <- Hp; apply forallb_firstn; exact Hkp).
      apply Hprefix_acc.
    + (* the key, a space and a piece of the value *)
      assert (Hnn : ~ In nl (k ++ sp :: firstn i (val k))).
      { intros Hin. apply in_app_or in Hin. destruct Hin as [Hin|[Hin|Hin]].
        - exact (token_no_nl k Hkp Hin). - discriminate Hin.
        - apply (token_no_nl _ Hkv). eapply firstn_In'. exact Hin. }
      rewrite lines_no_nl by exact Hnn.
      destruct (k ++ sp :: firstn i (val k)) as [|c0 l0] eqn:Hl; [destruct k; discriminate Hl|]. rewrite <- Hl.
      cbn [fold_left]. unfold load_line.
      rewrite fields_key_piece by (try exact Hkt; apply forallb_firstn; exact Hkv).
      destruct (firstn i (val k)) as [|c piece] eqn:Hp; cbn [is_nil]; [apply Hprefix_acc|].
      rewrite sum_set_fresh by exact Hfresh. rewrite sum_sum_app_one.
      destruct (sum_get acc key) as [x|] eqn:Hg.
      * specialize (Hprefix_acc key). unfold sum_sum in Hprefix_acc at 1. rewrite Hg in Hprefix_acc. exact Hprefix_acc.
      * destruct (bytes_eqb k key) eqn:Ek; [|apply prefix_nil].
        apply bytes_eqb_spec in Ek. subst key. rewrite <- Hp. apply prefix_firstn.
Qed.

(* every entry read from the torn file: its hash is the recorded one or a strictly shorter string *)
Lemma sum_set_keys_nodup : forall m k v, NoDup (map fst m) -> NoDup (map fst (sum_set m k v)).
Proof.
  induction m as [|[k' v'] m IH]; intros k v ND; cbn [sum_set map fst].
  - constructor; [intros [] | constructor].
  - cbn [map fst] in ND. inversion ND as [|? ? Hn ND']; subst.
    destruct (bytes_eqb k' k) eqn:E.
    + apply bytes_eqb_spec in E. subst k'. cbn [map fst]. constructor; assumption.
    + cbn [map fst]. constructor; [|apply IH; exact ND'].
      intros Hin. apply Hn. clear -Hin E. induction m as [|[a b] m IH]; cbn [sum_set map fst] in *.
      * destruct Hin as [Hin|[]]. subst k'. rewrite bytes_eqb_refl in E. discriminate.
      * destruct (bytes_eqb a k) eqn:Ea; cbn [map fst] in Hin.
        -- destruct Hin as [Hin|Hin]; [subst k'; rewrite bytes_eqb_refl in E; discriminate | right; exact Hin].
        -- destruct Hin as [Hin|Hin]; [left; exact Hin | right; apply IH; exact Hin].
Qed.

Lemma load_keys_nodup : forall data, NoDup (map fst (sumfile_load data)).
Proof.
  intros data. unfold sumfile_load.
  assert (Hgen : forall ls acc, NoDup (map fst acc) -> NoDup (map fst (fold_left load_line ls acc))).
  { induction ls as [|l ls IH]; intros acc ND; [exact ND|]. cbn [fold_left]. apply IH.
    unfold load_line. destruct (fields l) as [|k [|v r]]; try exact ND. apply sum_set_keys_nodup. exact ND. }
  apply Hgen. constructor.
Qed.

Theorem torn_sum_entries : forall m n k v, kv_ok m ->
  In (k, v) (sumfile_load (firstn n (sumfile_bytes m))) ->
  v = sum_sum m k \/ (prefix_of v (sum_sum m k) /\ List.length v < List.length (sum_sum m k)).
Proof.
  intros m n k v Hok Hin.
  pose proof (torn_sum_prefix m n k Hok) as Hp.
  rewrite (sum_sum_in _ k v (load_keys_nodup _) Hin) in Hp.
  destruct (Nat.eq_dec (List.length v) (List.length (sum_sum m k))) as [He|Hne].
  - left. apply prefix_same_length; assumption.
  - right. split; [exact Hp|]. destruct Hp as [t Ht]. rewrite Ht, app_length in *. lia.
Qed.
