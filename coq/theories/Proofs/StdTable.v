(* The reserved-name table of the CURRENT source: side conditions re-proved on every run against
   Gen/StdList.v (regenerated from pkg/namer/std.list by `vh tables-C03`). *)
Require Import Gengo.Base.Bytes Gengo.Model.CamelCase Gengo.Model.GoIdent Gengo.Model.Tracker
               Gengo.Model.TrackerSpec Gengo.Proofs.Tracker Gengo.Gen.StdList.

(* std_tr is what std.go's init() builds (model of the repaired code) *)
Lemma std_table_built : std_built true = Ok std_tr.
Proof. vm_compute. reflexivity. Qed.

(* ... and the repairs did not change a single reserved name *)
Lemma std_table_unchanged_by_fix : std_built false = Ok std_tr.
Proof. vm_compute. reflexivity. Qed.

(* the list is inside the domain of the model *)
Definition ascii_b (s : bytes) : bool := forallb (fun c => N.ltb (N_of_ascii c) 128) s.
Lemma std_lines_ascii : forallb ascii_b std_lines = true.
Proof. vm_compute. reflexivity. Qed.

Lemma std_lines_distinct : nodup_b (filter (fun l => negb (is_nil l)) std_lines) = true.
Proof. vm_compute. reflexivity. Qed.

(* the table is itself a tracker history (AddType of every line), so the general theorems apply to it *)
Lemma std_table_is_history :
  exists texts snaps,
    run true None [] (map OAdd (filter (fun l => negb (is_nil l)) std_lines)) = Ok (std_tr, texts, snaps).
Proof.
  pose proof std_table_built as B. unfold std_built, build_std in B.
  rewrite (add_all_as_run true None []) in B. unfold run.
  destruct (run_from true None [] empty_tracker (map OAdd (filter (fun l => negb (is_nil l)) std_lines)))
    as [[[a b] c]| |]; try discriminate. inversion B; subst. eauto.
Qed.

Lemma std_table_wf :
  (forall p n, lookup p (p2n std_tr) = Some n <-> lookup n (n2p std_tr) = Some p) /\
  (forall p n, lookup p (p2n std_tr) = Some n -> valid_name_b n = true) /\
  (forall l, In l std_lines -> l <> [] -> exists n, lookup l (p2n std_tr) = Some n).
Proof.
  destruct std_table_is_history as (texts & snaps & H). split; [|split].
  - destruct (run_bijection _ _ _ _ _ _ _ H) as [B _]. exact B.
  - eapply run_valid_names. exact H.
  - intros l Hin Hne. apply keys_in_lookup. rewrite (run_exact_imports _ _ _ _ _ _ H).
    unfold history_paths. apply in_flat_map. exists (OAdd l). split; [|cbn; auto].
    apply in_map. apply filter_In. split; [exact Hin|]. destruct l; [congruence|reflexivity].
Qed.
