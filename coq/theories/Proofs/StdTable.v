(* The reserved-name table of the CURRENT source: side conditions re-proved on every run against
   Gen/StdList.v (regenerated from pkg/namer/std.list by `vh tables-C03`). *)
Require Import Gengo.Base.Bytes Gengo.Model.CamelCase Gengo.Model.GoIdent Gengo.Model.Tracker
               Gengo.Model.TrackerSpec Gengo.Proofs.Tracker Gengo.Gen.StdList.
Require Gengo.Model.TypeLit Gengo.Spec.TypeLit.

(* std_tr is what std.go's init() builds (model of the repaired code) *)
Lemma std_table_built : std_built true universe_names = Ok std_tr.
Proof. vm_compute. reflexivity. Qed.

(* ... and the repairs did not change a single reserved name: not fixes/C03-1, C03-2 ... *)
Lemma std_table_unchanged_by_fix : std_built false [] = Ok std_tr.
Proof. vm_compute. reflexivity. Qed.

(* ... nor fixes/C03-3 (no candidate name of a std package is a predeclared identifier) *)
Lemma std_table_unchanged_by_fix3 : std_built true [] = Ok std_tr.
Proof. vm_compute. reflexivity. Qed.

(* the universe scope of the toolchain (Gen/StdList.v universe_names, from go/types.Universe.Names()):
   it has every predeclared identifier of the Go spec, only identifiers, no keyword, no repetition *)
Lemma universe_covers_spec : subset_b spec_predeclared universe_names = true.
Proof. vm_compute. reflexivity. Qed.

Lemma universe_names_wf : forallb valid_name_b universe_names && nodup_b universe_names = true.
Proof. vm_compute. reflexivity. Qed.

(* ... and every type name C11's specification of name resolution (Spec/TypeLit.v) treats as
   predeclared: C03_not_predeclared therefore discharges C11's hypothesis tracker_not_predeclared *)
Lemma universe_covers_c11 : subset_b (map fst Spec.TypeLit.predeclared) universe_names = true.
Proof. vm_compute. reflexivity. Qed.

Lemma c11_predeclared_in_universe : forall n, Spec.TypeLit.is_predeclared n = true -> In n universe_names.
Proof.
  intros n H. unfold Spec.TypeLit.is_predeclared in H.
  destruct (Model.TypeLit.alookup n Spec.TypeLit.predeclared) as [g|] eqn:E; [|discriminate]. clear H.
  pose proof universe_covers_c11 as C. unfold subset_b in C. rewrite forallb_forall in C.
  assert (Hin : In n (map fst Spec.TypeLit.predeclared)).
  { clear C. induction Spec.TypeLit.predeclared as [|[k v] r IH]; cbn in E; [discriminate|].
    destruct (bytes_eqb n k) eqn:Ek; [left; apply bytes_eqb_spec in Ek; subst; reflexivity|right; auto]. }
  apply name_in_spec. exact (C n Hin).
Qed.

(* the list is inside the domain of the model *)
Definition ascii_b (s : bytes) : bool := forallb (fun c => N.ltb (N_of_ascii c) 128) s.
Lemma std_lines_ascii : forallb ascii_b std_lines = true.
Proof. vm_compute. reflexivity. Qed.

Lemma std_lines_distinct : nodup_b (filter (fun l => negb (is_nil l)) std_lines) = true.
Proof. vm_compute. reflexivity. Qed.

(* the table is itself a tracker history (AddType of every line), so the general theorems apply to it *)
Lemma std_table_is_history :
  exists texts snaps,
    run true universe_names None [] (map OAdd (filter (fun l => negb (is_nil l)) std_lines)) = Ok (std_tr, texts, snaps).
Proof.
  pose proof std_table_built as B. unfold std_built, build_std in B.
  rewrite (add_all_as_run true universe_names None []) in B. unfold run.
  destruct (run_from true universe_names None [] empty_tracker (map OAdd (filter (fun l => negb (is_nil l)) std_lines)))
    as [[[a b] c]| |]; try discriminate. inversion B; subst. eauto.
Qed.

Lemma std_table_wf :
  (forall p n, lookup p (p2n std_tr) = Some n <-> lookup n (n2p std_tr) = Some p) /\
  (forall p n, lookup p (p2n std_tr) = Some n -> valid_name_b n = true) /\
  (forall l, In l std_lines -> l <> [] -> exists n, lookup l (p2n std_tr) = Some n).
Proof.
  destruct std_table_is_history as (texts & snaps & H). split; [|split].
  - destruct (run_bijection _ _ _ _ _ _ _ _ H) as [B _]. exact B.
  - eapply run_valid_names. exact H.
  - intros l Hin Hne. apply keys_in_lookup. rewrite (run_exact_imports _ _ _ _ _ _ _ H).
    unfold history_paths. apply in_flat_map. exists (OAdd l). split; [|cbn; auto].
    apply in_map. apply filter_In. split; [exact Hin|]. destruct l; [congruence|reflexivity].
Qed.

(* C03_not_predeclared for the universe of the current toolchain *)
Lemma run_not_predeclared_universe : forall std self ops tr texts snaps,
  run true universe_names std self ops = Ok (tr, texts, snaps) ->
  forall p n, lookup p (p2n tr) = Some n ->
    not_predeclared_b universe_names n = true /\ ~ In n spec_predeclared /\ Spec.TypeLit.is_predeclared n = false.
Proof.
  intros std self ops tr texts snaps H p n L.
  pose proof (run_not_predeclared _ _ _ _ _ _ _ _ H p n L) as NP. split; [|split].
  - unfold not_predeclared_b. destruct (name_in universe_names n) eqn:E; [|reflexivity].
    apply name_in_spec in E. contradiction.
  - intros Hin. apply NP. pose proof universe_covers_spec as C. unfold subset_b in C.
    rewrite forallb_forall in C. apply name_in_spec. exact (C n Hin).
  - destruct (Spec.TypeLit.is_predeclared n) eqn:E; [|reflexivity].
    exfalso. apply NP. apply c11_predeclared_in_universe. exact E.
Qed.

Lemma old_predeclared_name_universe :
  (exists tr texts snaps,
    run true [] None (bs "m") (h_refs [bs "example.com/x/string"]) = Ok (tr, texts, snaps) /\
    lookup (bs "example.com/x/string") (p2n tr) = Some (bs "string") /\ texts = [bs "string.T"])
  /\ In (bs "string") universe_names /\ valid_name_b (bs "string") = true.
Proof.
  split; [exact old_predeclared_name|]. split; [apply name_in_spec; vm_compute; reflexivity|vm_compute; reflexivity].
Qed.
