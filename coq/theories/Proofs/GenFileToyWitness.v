(* A NON-TRIVIAL instance of the hypotheses H0 / H1 / H2a / H2b of C01_written (Proofs/GenFile.v, section Claim).

   The instance in Proofs/GenFile.v ([hypotheses_satisfiable]) is the identity formatter with a parser that accepts
   everything and no declarations at all.  Here is a small formatter stack over bytes, written in Gallina, for a toy
   language ("toy Go"), with the four hypotheses PROVED for all inputs:

     a source PARSES iff it is   <general comment> \n package <identifier> \n <rest>   with the braces of <rest>
                                  balanced (never closing more than were opened, all closed at the end);
     its DECLARATIONS modulo formatting are the non-blank lines of <rest> with every space removed
                                  (after the import block "import(" ... ")" when asked so);
     fmt1   (the "printer")       rejects what does not parse; removes trailing spaces from the lines of <rest>;
     fmt2   ("gofumpt")           rejects what does not parse; allows at most ONE blank line in a row in <rest>;
     gofmt                        rejects what does not parse; allows at most TWO blank lines in a row.

   fmt1 is not the identity, its output is in general NOT a fixed point of fmt2, fmt2 is not the identity (the loop of
   WriteToFile runs two rounds: one that changes the text, one that finds it stable), gofmt is weaker than fmt2 (every
   fmt2 output is a gofmt fixed point, not conversely), the parser rejects byte strings, the declaration list is a
   real function of the text.  Nothing here is about the real Go tools: it shows that the hypotheses of C01_written
   are jointly satisfiable by a formatter that does something, and what the theorem then says. *)
Require Import Gengo.Base.Bytes Gengo.Model.GenFile Gengo.Proofs.GenFile.
From Coq Require Import PeanoNat.

Definition sp : ascii := ascii_of_N 32.
Definition lbrace : ascii := ascii_of_N 123.
Definition rbrace : ascii := ascii_of_N 125.

(* ---------- the three normalisers ---------- *)

(* remove the spaces before a newline and at the end of the text; [pend] spaces are held back *)
Fixpoint trim (pend : nat) (s : bytes) : bytes :=
  match s with
  | [] => []
  | c :: r =>
      if Ascii.eqb c sp then trim (S pend) r
      else if Ascii.eqb c nl then nl :: trim 0 r
      else repeat sp pend ++ c :: trim 0 r
  end.

(* at most [lim] newlines in a row; [k] newlines have just been emitted *)
Fixpoint squeeze (lim k : nat) (s : bytes) : bytes :=
  match s with
  | [] => []
  | c :: r =>
      if Ascii.eqb c nl then (if Nat.leb lim k then squeeze lim k r else nl :: squeeze lim (S k) r)
      else c :: squeeze lim 0 r
  end.

(* ---------- the toy parser ---------- *)

(* braces balanced; [d] are open *)
Fixpoint bal (d : nat) (s : bytes) : bool :=
  match s with
  | [] => Nat.eqb d 0
  | c :: r =>
      if Ascii.eqb c lbrace then bal (S d) r
      else if Ascii.eqb c rbrace then match d with O => false | S d' => bal d' r end
      else bal d r
  end.

(* the non-blank lines with every space removed; [cur] is the line being read, reversed *)
Fixpoint decls (cur : bytes) (s : bytes) : list bytes :=
  match s with
  | [] => if is_nil cur then [] else [rev cur]
  | c :: r =>
      if Ascii.eqb c sp then decls cur r
      else if Ascii.eqb c nl then (if is_nil cur then decls [] r else rev cur :: decls [] r)
      else decls (c :: cur) r
  end.

Fixpoint after_nl (s : bytes) : option bytes :=
  match s with
  | [] => None
  | c :: r => if Ascii.eqb c nl then Some r else after_nl r
  end.

(* comment, package name, rest *)
Definition toy_parse (s : bytes) : option (bytes * bytes * bytes) :=
  match lead_comment s with
  | Some c =>
      match skipn (List.length c) s with
      | n :: r =>
          if Ascii.eqb n nl && prefix_b (bs "package ") r then
            match after_nl (skipn 8 r) with
            | Some rest =>
                let name := until_nl (skipn 8 r) in
                if ident name && negb (is_nil name) then Some (c, name, rest) else None
            | None => None
            end
          else None
      | [] => None
      end
  | None => None
  end.

Definition toy_build (c name rest : bytes) : bytes := c ++ nl :: bs "package " ++ name ++ nl :: rest.

Definition toy_fmt_with (norm : bytes -> bytes) (s : bytes) : option bytes :=
  match toy_parse s with
  | Some (c, name, rest) => if bal 0 rest then Some (toy_build c name (norm rest)) else None
  | None => None
  end.

(* one newline (the one that ends the package clause) has been emitted when <rest> starts *)
Definition toy_fmt1 : bytes -> option bytes := toy_fmt_with (trim 0).
Definition toy_fmt2 : bytes -> option bytes := toy_fmt_with (squeeze 2 1).
Definition toy_gofmt : bytes -> option bytes := toy_fmt_with (squeeze 3 1).

Definition toy_parses (s : bytes) : bool :=
  match toy_parse s with Some (_, _, rest) => bal 0 rest | None => false end.

Definition toy_decl_list (s : bytes) : option (list bytes) :=
  match toy_parse s with
  | Some (_, _, rest) => if bal 0 rest then Some (decls [] rest) else None
  | None => None
  end.

Fixpoint after_close (ds : list bytes) : list bytes :=
  match ds with
  | [] => []
  | l :: r => if bytes_eqb l (bs ")") then r else after_close r
  end.
(* the declarations after the import block: "import (" reads "import(" once the spaces are gone *)
Definition drop_import (ds : list bytes) : list bytes :=
  match ds with
  | l :: r => if bytes_eqb l (bs "import(") then after_close r else ds
  | [] => []
  end.

Definition toy_decls (b : bool) (s : bytes) : option (list bytes) :=
  option_map (fun ds => if b then drop_import ds else ds) (toy_decl_list s).

(* ---------- the normalisers keep the braces and the declarations ---------- *)

Lemma bal_repeat_sp : forall n d x, bal d (repeat sp n ++ x) = bal d x.
Proof. induction n as [|n IH]; intros d x; [reflexivity|]. cbn. apply IH. Qed.

Lemma decls_repeat_sp : forall n cur x, decls cur (repeat sp n ++ x) = decls cur x.
Proof. induction n as [|n IH]; intros cur x; [reflexivity|]. cbn. apply IH. Qed.

Lemma bal_trim : forall s pend d, bal d (trim pend s) = bal d s.
Proof.
  induction s as [|a s IH]; intros pend d; [reflexivity|]. cbn [trim].
  destruct (Ascii.eqb a sp) eqn:Es.
  - apply Ascii.eqb_eq in Es. subst a. cbn. apply IH.
  - destruct (Ascii.eqb a nl) eqn:En.
    + apply Ascii.eqb_eq in En. subst a. cbn. apply IH.
    + rewrite bal_repeat_sp. cbn [bal].
      destruct (Ascii.eqb a lbrace); [apply IH|]. destruct (Ascii.eqb a rbrace); [|apply IH].
      destruct d; [reflexivity|apply IH].
Qed.

Lemma decls_trim : forall s pend cur, decls cur (trim pend s) = decls cur s.
Proof.
  induction s as [|a s IH]; intros pend cur; [reflexivity|]. cbn [trim decls].
  destruct (Ascii.eqb a sp) eqn:Es; [apply IH|].
  destruct (Ascii.eqb a nl) eqn:En.
  - apply Ascii.eqb_eq in En. subst a. cbn. rewrite IH. reflexivity.
  - rewrite decls_repeat_sp. cbn [decls]. rewrite Es, En. apply IH.
Qed.

Lemma bal_squeeze : forall s lim k d, bal d (squeeze lim k s) = bal d s.
Proof.
  induction s as [|a s IH]; intros lim k d; [reflexivity|]. cbn [squeeze].
  destruct (Ascii.eqb a nl) eqn:En.
  - apply Ascii.eqb_eq in En. subst a. destruct (Nat.leb lim k); cbn; apply IH.
  - cbn [bal]. destruct (Ascii.eqb a lbrace); [apply IH|]. destruct (Ascii.eqb a rbrace); [|apply IH].
    destruct d; [reflexivity|apply IH].
Qed.

(* a newline is only dropped after a newline, that is when no line is being read *)
Lemma decls_squeeze : forall s lim k cur, 1 <= lim -> (cur <> [] -> k = 0) ->
  decls cur (squeeze lim k s) = decls cur s.
Proof.
  induction s as [|a s IH]; intros lim k cur Hlim Hk; [reflexivity|]. cbn [squeeze].
  destruct (Ascii.eqb a nl) eqn:En.
  - apply Ascii.eqb_eq in En. subst a. destruct (Nat.leb lim k) eqn:El.
    + apply Nat.leb_le in El. destruct cur as [|c cur]; [|assert (k = 0) by (apply Hk; discriminate); lia].
      cbn. apply IH; [exact Hlim|intros H; now contradiction H].
    + cbn. rewrite (IH lim (S k) []); [reflexivity|exact Hlim|intros H; now contradiction H].
  - cbn [decls]. destruct (Ascii.eqb a sp); [apply IH; [exact Hlim|reflexivity]|].
    rewrite En. apply IH; [exact Hlim|reflexivity].
Qed.

(* a stricter limit subsumes a laxer one (in particular squeeze is idempotent) *)
Lemma squeeze_absorb : forall s lim lim' k, lim <= lim' ->
  squeeze lim' k (squeeze lim k s) = squeeze lim k s.
Proof.
  induction s as [|a s IH]; intros lim lim' k Hl; [reflexivity|]. cbn [squeeze].
  destruct (Ascii.eqb a nl) eqn:En.
  - apply Ascii.eqb_eq in En. subst a. destruct (Nat.leb lim k) eqn:El; [now apply IH|].
    apply Nat.leb_gt in El. cbn [squeeze]. rewrite Ascii.eqb_refl.
    assert (E : Nat.leb lim' k = false) by (apply Nat.leb_gt; lia). rewrite E. f_equal. now apply IH.
  - cbn [squeeze]. rewrite En. f_equal. now apply IH.
Qed.

(* ---------- the parser: what it accepts is what toy_build builds ---------- *)

Lemma upto_close_cons2 : forall c d r,
  upto_close (c :: d :: r)
  = if Ascii.eqb c star && Ascii.eqb d slash then Some [c; d]
    else match upto_close (d :: r) with Some t => Some (c :: t) | None => None end.
Proof. reflexivity. Qed.

Lemma upto_close_nonempty : forall r u, upto_close r = Some u -> u <> [].
Proof.
  intros [|c [|d r]] u H; try discriminate. rewrite upto_close_cons2 in H.
  destruct (Ascii.eqb c star && Ascii.eqb d slash); [injection H as <-; discriminate|].
  destruct (upto_close (d :: r)); [|discriminate]. injection H as <-. discriminate.
Qed.

(* the comment is a prefix of the text, and it is the comment of every text that starts with it *)
Lemma upto_close_prefix : forall r u, upto_close r = Some u ->
  (exists t0, r = u ++ t0) /\ forall t, upto_close (u ++ t) = Some u.
Proof.
  induction r as [|c r IH]; intros u H; [discriminate|].
  destruct r as [|d r']; [discriminate|]. rewrite upto_close_cons2 in H.
  destruct (Ascii.eqb c star && Ascii.eqb d slash) eqn:Ec.
  - inversion H; subst u. split; [exists r'; reflexivity|]. intros t. cbn [app]. rewrite upto_close_cons2, Ec. reflexivity.
  - destruct (upto_close (d :: r')) as [u'|] eqn:Eu; [|discriminate]. inversion H; subst u.
    destruct (IH u' eq_refl) as [[t0 Ht0] Hall].
    pose proof (upto_close_nonempty _ _ Eu) as Hne.
    destruct u' as [|d' u'']; [now contradiction Hne|]. cbn [app] in Ht0. inversion Ht0; subst d'.
    split; [exists t0; cbn [app]; now f_equal|].
    intros t. specialize (Hall t). cbn [app] in *. rewrite upto_close_cons2, Ec, Hall. reflexivity.
Qed.

Lemma lead_comment_prefix : forall s c, lead_comment s = Some c ->
  (exists t0, s = c ++ t0) /\ forall t, lead_comment (c ++ t) = Some c.
Proof.
  intros [|a [|b r]] c H; cbn [lead_comment] in H; try discriminate.
  destruct (Ascii.eqb a slash && Ascii.eqb b star) eqn:Ec; [|discriminate].
  destruct (upto_close r) as [u|] eqn:Eu; [|discriminate]. inversion H; subst c.
  destruct (upto_close_prefix r u Eu) as [[t0 Ht0] Hall]. split.
  - exists t0. cbn [app]. now rewrite Ht0.
  - intros t. cbn [app lead_comment]. rewrite Ec, Hall. reflexivity.
Qed.

Lemma prefix_b_split : forall w s, prefix_b w s = true -> s = w ++ skipn (List.length w) s.
Proof.
  induction w as [|x w IH]; intros s H; [reflexivity|].
  destruct s as [|y s]; [discriminate|]. cbn [prefix_b] in H. apply andb_true_iff in H. destruct H as [Hx Hw].
  apply Ascii.eqb_eq in Hx. subst y. cbn [List.length skipn app]. f_equal. now apply IH.
Qed.

Lemma after_nl_split : forall x rest, after_nl x = Some rest -> x = until_nl x ++ nl :: rest.
Proof.
  induction x as [|c x IH]; intros rest H; [discriminate|]. cbn [after_nl until_nl] in *.
  destruct (Ascii.eqb c nl) eqn:En.
  - apply Ascii.eqb_eq in En. subst c. inversion H; subst. reflexivity.
  - cbn [app]. f_equal. now apply IH.
Qed.

Lemma after_nl_app : forall w t, ident w = true -> after_nl (w ++ nl :: t) = Some t.
Proof.
  induction w as [|c w IH]; intros t H; cbn [app after_nl].
  - reflexivity.
  - rewrite (ident_no_nl (c :: w) c H (or_introl eq_refl)). apply IH.
    unfold ident in *. cbn in H. now apply andb_true_iff in H.
Qed.

Lemma skipn_app_length : forall (c t : bytes), skipn (List.length c) (c ++ t) = t.
Proof. intros c t. rewrite skipn_app, skipn_all, Nat.sub_diag. reflexivity. Qed.

Lemma toy_parse_sound : forall s c name rest, toy_parse s = Some (c, name, rest) ->
  s = toy_build c name rest /\ lead_comment s = Some c /\ ident name = true /\ name <> [].
Proof.
  intros s c name rest H. unfold toy_parse in H.
  destruct (lead_comment s) as [c0|] eqn:Ec; [|discriminate].
  destruct (lead_comment_prefix s c0 Ec) as [[t0 Ht0] _].
  rewrite Ht0, skipn_app_length in H. destruct t0 as [|n r]; [discriminate|].
  destruct (Ascii.eqb n nl && prefix_b (bs "package ") r) eqn:Et; [|discriminate].
  apply andb_true_iff in Et. destruct Et as [En Ep]. apply Ascii.eqb_eq in En. subst n.
  remember (skipn 8 r) as x eqn:Ex.
  destruct (after_nl x) as [rest0|] eqn:Ea; [|discriminate].
  destruct (ident (until_nl x) && negb (is_nil (until_nl x))) eqn:Ei; [|discriminate].
  inversion H; subst c0 name rest0. apply andb_true_iff in Ei. destruct Ei as [Hid Hne].
  split; [|split; [reflexivity|split; [exact Hid|]]].
  - rewrite Ht0. unfold toy_build. f_equal. f_equal.
    pose proof (prefix_b_split _ _ Ep) as E1. change (List.length (bs "package ")) with 8 in E1.
    rewrite <- Ex in E1. rewrite <- (after_nl_split _ _ Ea). exact E1.
  - intros E. rewrite E in Hne. discriminate.
Qed.

Lemma toy_parse_build : forall c name rest,
  (forall t, lead_comment (c ++ t) = Some c) -> ident name = true -> name <> [] ->
  toy_parse (toy_build c name rest) = Some (c, name, rest).
Proof.
  intros c name rest Hc Hid Hne. unfold toy_parse, toy_build. rewrite Hc, skipn_app_length.
  change (Ascii.eqb nl nl && prefix_b (bs "package ") (bs "package " ++ name ++ nl :: rest)) with true. cbn iota.
  change (skipn 8 (bs "package " ++ name ++ nl :: rest)) with (name ++ nl :: rest).
  rewrite after_nl_app, until_nl_app, Hid by assumption.
  destruct name; [now contradiction Hne|reflexivity].
Qed.

Lemma toy_parse_rebuild : forall s c name rest, toy_parse s = Some (c, name, rest) ->
  forall rest', toy_parse (toy_build c name rest') = Some (c, name, rest').
Proof.
  intros s c name rest H rest'. destruct (toy_parse_sound _ _ _ _ H) as (_ & Hc & Hid & Hne).
  apply toy_parse_build; try assumption. apply (proj2 (lead_comment_prefix s c Hc)).
Qed.

(* the toy parser reads the package clause as [pkg_clause_of] does *)
Lemma toy_parse_pkg_clause : forall s c name rest, toy_parse s = Some (c, name, rest) -> pkg_clause_of s = Some name.
Proof.
  intros s c name rest H. unfold toy_parse in H. unfold pkg_clause_of.
  destruct (lead_comment s) as [c0|]; [|discriminate].
  destruct (skipn (List.length c0) s) as [|n r]; [discriminate|].
  destruct (Ascii.eqb n nl && prefix_b (bs "package ") r); [|discriminate].
  destruct (after_nl (skipn 8 r)); [|discriminate].
  destruct (ident (until_nl (skipn 8 r)) && negb (is_nil (until_nl (skipn 8 r)))); [|discriminate].
  inversion H. reflexivity.
Qed.

(* ---------- the formatters ---------- *)

Lemma fmt_with_spec : forall norm s out, toy_fmt_with norm s = Some out ->
  exists c name rest, toy_parse s = Some (c, name, rest) /\ bal 0 rest = true /\ out = toy_build c name (norm rest).
Proof.
  intros norm s out H. unfold toy_fmt_with in H. destruct (toy_parse s) as [[[c name] rest]|]; [|discriminate].
  destruct (bal 0 rest) eqn:Eb; [|discriminate]. inversion H. now exists c, name, rest.
Qed.

(* "the same file modulo formatting": same comment, same package clause, braces balanced, same declarations *)
Definition equiv (x y : bytes) : Prop :=
  exists c name r1 r2,
    toy_parse x = Some (c, name, r1) /\ toy_parse y = Some (c, name, r2)
    /\ bal 0 r1 = true /\ bal 0 r2 = true /\ decls [] r1 = decls [] r2.

Definition keeps (norm : bytes -> bytes) : Prop :=
  (forall x, bal 0 (norm x) = bal 0 x) /\ (forall x, decls [] (norm x) = decls [] x).

Lemma keeps_trim : keeps (trim 0).
Proof. split; intros x; [apply bal_trim|apply decls_trim]. Qed.

Lemma keeps_squeeze : forall lim k, 1 <= lim -> keeps (squeeze lim k).
Proof.
  intros lim k H. split; intros x; [apply bal_squeeze|]. apply decls_squeeze; [exact H|]. intros E. now contradiction E.
Qed.

Lemma equiv_fmt : forall norm s out, keeps norm -> toy_fmt_with norm s = Some out -> equiv s out.
Proof.
  intros norm s out [Kb Kd] H. destruct (fmt_with_spec _ _ _ H) as (c & name & rest & Hp & Hb & ->).
  exists c, name, rest, (norm rest). split; [exact Hp|]. split; [now apply (toy_parse_rebuild s c name rest)|].
  split; [exact Hb|]. split; [now rewrite Kb|]. now rewrite Kd.
Qed.

Lemma equiv_trans : forall x y z, equiv x y -> equiv y z -> equiv x z.
Proof.
  intros x y z (c & n & r1 & r2 & P1 & P2 & B1 & B2 & D) (c' & n' & r2' & r3 & P2' & P3 & B2' & B3 & D').
  rewrite P2 in P2'. inversion P2'; subst c' n' r2'. exists c, n, r1, r3. repeat split; try assumption.
  now rewrite D.
Qed.

Lemma equiv_settle : forall n s p out, equiv s p -> settle toy_fmt2 n p = Some out -> equiv s out.
Proof.
  induction n as [|n IH]; intros s p out He H; cbn [settle] in H.
  - inversion H; now subst.
  - destruct (toy_fmt2 p) as [next|] eqn:Ef; [|discriminate].
    destruct (bytes_eqb next p); [inversion H; now subst|].
    apply (IH s next out); [|exact H]. apply (equiv_trans s p next He).
    apply (equiv_fmt (squeeze 2 1)); [apply keeps_squeeze; lia|exact Ef].
Qed.

Lemma equiv_fmt_src : forall s out, fmt_src toy_fmt1 toy_fmt2 true s = Some out -> equiv s out.
Proof.
  intros s out H. unfold fmt_src in H. destruct (toy_fmt1 s) as [p|] eqn:E1; [|discriminate].
  apply (equiv_settle rounds s p out); [|exact H]. apply (equiv_fmt (trim 0)); [apply keeps_trim|exact E1].
Qed.

(* what fmt2 returns is stable under every formatter that allows at least as many blank lines *)
Lemma squeeze_stable : forall lim x y, 2 <= lim ->
  toy_fmt2 x = Some y -> toy_fmt_with (squeeze lim 1) y = Some y.
Proof.
  intros lim x y Hl H. destruct (fmt_with_spec _ _ _ H) as (c & name & rest & Hp & Hb & ->).
  unfold toy_fmt_with. rewrite (toy_parse_rebuild x c name rest Hp), bal_squeeze, Hb.
  now rewrite squeeze_absorb.
Qed.

Lemma iter_last : forall (f : bytes -> option bytes) n s out, iter f (S n) s = Some out -> exists x, f x = Some out.
Proof.
  intros f. induction n as [|n IH]; intros s out H; cbn [iter] in H.
  - destruct (f s) as [t|] eqn:E; [|discriminate]. inversion H; subst. now exists s.
  - destruct (f s) as [t|] eqn:E; [|discriminate]. apply (IH t out). exact H.
Qed.

(* ---------- the four hypotheses ---------- *)

Lemma toy_H0 : H0 toy_fmt1 pkg_clause_of.
Proof. intros pkg gen m body Hp Hg _. now apply pkg_clause_of_assemble. Qed.

Lemma toy_H1 : H1 toy_fmt1 toy_fmt2 toy_parses pkg_clause_of toy_decls.
Proof.
  intros s out H. destruct (equiv_fmt_src s out H) as (c & name & r1 & r2 & P1 & P2 & B1 & B2 & D).
  split; [unfold toy_parses; now rewrite P2|].
  split; [now rewrite (toy_parse_pkg_clause _ _ _ _ P1), (toy_parse_pkg_clause _ _ _ _ P2)|].
  split; [intros b; unfold toy_decls, toy_decl_list; now rewrite P1, P2, B1, B2, D|].
  intros _ w c0 _ Hc Hw.
  destruct (toy_parse_sound _ _ _ _ P1) as (_ & Hc1 & _). destruct (toy_parse_sound _ _ _ _ P2) as (_ & Hc2 & _).
  rewrite Hc1 in Hc. inversion Hc; subst c0. now exists c.
Qed.

Lemma toy_H2a : H2a toy_fmt2 toy_gofmt.
Proof. intros x y H. apply (squeeze_stable 3 x y); [lia|exact H]. Qed.

Lemma toy_H2b : H2b toy_fmt1 toy_fmt2.
Proof.
  intros s p out _ H. unfold rounds in H. destruct (iter_last toy_fmt2 4 p out H) as [x Hx].
  apply (squeeze_stable 2 x out); [lia|exact Hx].
Qed.

Lemma toy_hypotheses :
  H0 toy_fmt1 pkg_clause_of
  /\ H1 toy_fmt1 toy_fmt2 toy_parses pkg_clause_of toy_decls
  /\ H2a toy_fmt2 toy_gofmt
  /\ H2b toy_fmt1 toy_fmt2.
Proof. exact (conj toy_H0 (conj toy_H1 (conj toy_H2a toy_H2b))). Qed.

(* C01_written with its four hypotheses discharged: a statement about these formatters and nothing else *)
Lemma toy_written :
  forall base pkg gfs fs fs',
    NoDup (map gf_name gfs) ->
    write_all toy_fmt1 toy_fmt2 true base pkg gfs fs = Some fs' ->
    forall g, In g gfs -> body_of (gf_snips g) <> [] ->
      let src := assemble pkg (gf_name g) (gf_imports g) (body_of (gf_snips g)) in
      exists out,
        fs_get fs' (filename base (gf_name g)) = Some out
        /\ toy_parses out = true
        /\ (ident pkg = true -> plain (gf_name g) = true -> mentions_build src = false ->
            exists c, lead_comment out = Some c /\ infix (bs "gengo:" ++ gf_name g) c)
        /\ (ident pkg = true -> plain (gf_name g) = true -> pkg_clause_of out = Some pkg)
        /\ (forall b, toy_decls b out = toy_decls b src)
        /\ toy_gofmt out = Some out
        /\ toy_fmt2 out = Some out.
Proof. exact (written_ok toy_fmt1 toy_fmt2 toy_gofmt toy_parses pkg_clause_of toy_decls toy_H0 toy_H1 toy_H2a toy_H2b). Qed.

(* ---------- a concrete run of the write loop through these formatters ---------- *)

Definition lf : string := String nl EmptyString.

(* generator "toy": one import, a function whose lines end in spaces, runs of blank lines, a comment *)
Definition toy_gen : genfile :=
  mk_genfile (bs "toy") [(bs "strings", bs "strings")]
    [SBlock (bs ("func f() {   " ++ lf ++ lf ++ lf ++ lf ++ "	return strings.ToUpper(""x"") " ++ lf ++ "}" ++ lf));
     SNil;
     SComment (bs ("two" ++ lf ++ "lines"));
     SBlock (bs (lf ++ "  " ++ lf ++ " " ++ lf ++ lf ++ "var x = struct{}{}  " ++ lf))].
(* generator "none" renders nothing: no file *)
Definition toy_gen_none : genfile := mk_genfile (bs "none") [] [SNil; SBlock []; SSnippets [SNil]].
(* generator "bad" renders an unbalanced brace: the first stage rejects it *)
Definition toy_gen_bad : genfile := mk_genfile (bs "bad") [] [SBlock (bs ("func g() {" ++ lf))].

Definition toy_fs0 : fsys := [(bs "user.go", bs "package p"); (bs "zz_generated.toy.go", bs "previous")].

Definition toy_src : bytes := assemble (bs "p") (bs "toy") (gf_imports toy_gen) (body_of (gf_snips toy_gen)).

Definition toy_out : bytes :=
  bs ("/*" ++ lf ++ "Package p GENERATED BY gengo:toy " ++ lf ++ "DON'T EDIT THIS FILE" ++ lf ++ "*/" ++ lf
      ++ "package p" ++ lf ++ lf
      ++ "import (" ++ lf ++ "	strings ""strings""" ++ lf ++ ")" ++ lf
      ++ "func f() {" ++ lf ++ lf ++ "	return strings.ToUpper(""x"")" ++ lf ++ "}" ++ lf
      ++ "// two" ++ lf ++ "// lines" ++ lf ++ lf
      ++ "var x = struct{}{}" ++ lf).

Ltac splits := repeat match goal with |- _ /\ _ => split end.

(* what is on disk afterwards, and the conclusion of C01_written read off the bytes *)
Lemma toy_run :
  exists fs',
    write_all toy_fmt1 toy_fmt2 true (bs "zz_generated") (bs "p") [toy_gen_none; toy_gen] toy_fs0 = Some fs'
    /\ fs_get fs' (bs "zz_generated.toy.go") = Some toy_out
    /\ fs_get fs' (bs "zz_generated.none.go") = None
    /\ fs_get fs' (bs "user.go") = Some (bs "package p")
    /\ toy_out <> toy_src
    /\ (exists printed, toy_fmt1 toy_src = Some printed /\ printed <> toy_src
                        /\ toy_fmt2 printed = Some toy_out /\ printed <> toy_out)
    /\ toy_parses toy_out = true
    /\ lead_comment toy_out = Some (header_comment (bs "p") (bs "toy"))
    /\ pkg_clause_of toy_out = Some (bs "p")
    /\ toy_decls false toy_src
       = Some [bs "import("; bs "	strings""strings"""; bs ")"; bs "funcf(){"; bs "	returnstrings.ToUpper(""x"")"; bs "}";
               bs "//two"; bs "//lines"; bs "varx=struct{}{}"]
    /\ toy_decls false toy_out = toy_decls false toy_src
    /\ toy_decls true toy_out
       = Some [bs "funcf(){"; bs "	returnstrings.ToUpper(""x"")"; bs "}"; bs "//two"; bs "//lines"; bs "varx=struct{}{}"]
    /\ toy_gofmt toy_out = Some toy_out
    /\ toy_fmt2 toy_out = Some toy_out.
Proof.
  eexists. split; [vm_compute; reflexivity|].
  splits; try (vm_compute; reflexivity); try (vm_compute; intros H; discriminate H).
  eexists. split; [vm_compute; reflexivity|].
  splits; try (vm_compute; reflexivity); vm_compute; intros H; discriminate H.
Qed.

(* the parser does reject: no comment; a package name that is no identifier; an unclosed and an unopened brace;
   and gofmt is weaker than fmt2 (two blank lines in a row are fine for gofmt, not for fmt2) *)
Lemma toy_rejects :
  toy_parses (bs ("package p" ++ lf)) = false
  /\ toy_parses (bs ("/**/" ++ lf ++ "package p-q" ++ lf)) = false
  /\ toy_parses (bs ("/**/" ++ lf ++ "package p" ++ lf ++ "func g() {" ++ lf)) = false
  /\ toy_parses (bs ("/**/" ++ lf ++ "package p" ++ lf ++ "}{" ++ lf)) = false
  /\ toy_parses (bs ("/**/" ++ lf ++ "package p" ++ lf ++ "func g() {}" ++ lf)) = true
  /\ toy_decls false (bs ("package p" ++ lf)) = None
  /\ (let s := bs ("/**/" ++ lf ++ "package p" ++ lf ++ "var a" ++ lf ++ lf ++ lf ++ "var b" ++ lf) in
      toy_gofmt s = Some s /\ toy_fmt2 s <> Some s).
Proof. cbv zeta. splits; try (vm_compute; reflexivity). vm_compute. intros H; discriminate H. Qed.

(* a rendering the first stage rejects: WriteToFile returns the error before the destination is opened, the write
   loop stops (Execute fails), and by H1's contrapositive nothing that does not parse can have been produced *)
Lemma toy_rejected_not_written :
  let src := assemble (bs "p") (bs "bad") [] (body_of (gf_snips toy_gen_bad)) in
  toy_parses src = false
  /\ toy_fmt1 src = None
  /\ write_file toy_fmt1 toy_fmt2 true (bs "zz_generated") (bs "p") toy_gen_bad = WErr
  /\ write_all toy_fmt1 toy_fmt2 true (bs "zz_generated") (bs "p") [toy_gen; toy_gen_bad] toy_fs0 = None
  /\ write_all toy_fmt1 toy_fmt2 true (bs "zz_generated") (bs "p") [toy_gen_bad; toy_gen] toy_fs0 = None.
Proof. cbv zeta. splits; vm_compute; reflexivity. Qed.

Print Assumptions toy_written.
Print Assumptions toy_run.
