(* The statements of Props/C14.v, assembled from the parts. *)
Require Import Gengo.Base.Bytes Gengo.Model.ResultsOf.
Require Import Gengo.Proofs.ResultsOf Gengo.Proofs.ResultsOfSound Gengo.Proofs.ResultsOfLiteral.
Require Import Coq.Arith.PeanoNat.

Lemma terminates_exists : forall (p : prog) (en : entry) (sigres : list rdecl),
    exists n, forall m, n <= m -> results_of all_fixed p m en sigres <> OutOfFuel.
Proof.
  intros p en sigres. exists (S (length (nodes p))). intros m Hm.
  apply (results_of_terminates all_fixed p eq_refl m en sigres). exact Hm.
Qed.

Lemma terminates_bound : forall (fx : fixes) (p : prog) (fuel : nat) (en : entry) (sigres : list rdecl),
    fx_visits fx = true -> length (nodes p) < fuel -> results_of fx p fuel en sigres <> OutOfFuel.
Proof. intros fx p fuel en sigres H. exact (results_of_terminates fx p H fuel en sigres). Qed.

Lemma terminates_refuted : exists (p : prog) (en : entry) (sigres : list rdecl),
    forall fuel, results_of unfixed p fuel en sigres = OutOfFuel.
Proof. exists prog_rec, (EnBody 0), [rd_int; rd_err]. exact (rec_diverges unfixed eq_refl). Qed.

Lemma shape_fixed : forall (p : prog) (fuel : nat) (en : entry) (sigres : list rdecl) ls n,
    (forall f, en = EnBody f -> f < length p) ->
    results_of all_fixed p fuel en sigres = Ok (ls, n) ->
    n = length sigres /\ length ls = n /\ Forall (fun l => l <> []) ls.
Proof. intros p fuel en sigres ls n. exact (results_of_shape all_fixed p fuel en sigres ls n eq_refl eq_refl). Qed.

Lemma shape_refuted_other : forall (p : prog) (fuel : nat) (sigres : list rdecl),
    sigres <> [] -> results_of unfixed p fuel EnOther sigres = Ok ([], length sigres) /\ 0 < length sigres.
Proof. intros p fuel sigres. exact (other_unfixed_loses unfixed p fuel sigres eq_refl). Qed.

Lemma shape_refuted : forall (p : prog) (fuel : nat) (fo : option nat) (sigres : list rdecl) ls n,
    sigres <> [] -> results_of unfixed p fuel (EnSelector fo) sigres = Ok (ls, n) ->
    ls = [] /\ n = length sigres /\ 0 < n.
Proof. intros p fuel fo sigres ls n H. exact (concat_unfixed_loses unfixed p fuel fo sigres eq_refl H ls n). Qed.

Lemma no_panic_fixed : forall (os : otys) (p : prog) (fuel : nat) (en : entry) (sigres : list rdecl),
    wt_b os p = true -> entry_ok p en sigres = true ->
    results_of all_fixed p fuel en sigres <> Panic.
Proof. intros os p fuel en sigres Hwt Hen. exact (proj1 (results_of_sound all_fixed os p fuel en sigres eq_refl Hwt Hen)). Qed.

Lemma sound_fixed : forall (os : otys) (p : prog) (fuel : nat) (en : entry) (sigres : list rdecl) ls n,
    wt_b os p = true -> entry_ok p en sigres = true ->
    results_of all_fixed p fuel en sigres = Ok (ls, n) ->
    forall i l r a, nth_error ls i = Some l -> nth_error sigres i = Some r -> In a l ->
                    a_const a = true \/ assignable (a_ty a) (r_ty r) = true.
Proof.
  intros os p fuel en sigres ls n Hwt Hen H i l r a Hl Hr Hin.
  apply orb_true_iff.
  exact (proj2 (results_of_sound all_fixed os p fuel en sigres eq_refl Hwt Hen) ls n H i l r a Hl Hr Hin).
Qed.

Lemma total_fixed : forall (os : otys) (p : prog) (en : entry) (sigres : list rdecl),
    wt_b os p = true -> entry_ok p en sigres = true ->
    exists ls n, results_of all_fixed p (S (length (nodes p))) en sigres = Ok (ls, n).
Proof.
  intros os p en sigres Hwt Hen.
  pose proof (results_of_terminates all_fixed p eq_refl (S (length (nodes p))) en sigres (Nat.lt_succ_diag_r _)) as H1.
  pose proof (proj1 (results_of_sound all_fixed os p (S (length (nodes p))) en sigres eq_refl Hwt Hen)) as H2.
  destruct (results_of all_fixed p (S (length (nodes p))) en sigres) as [[ls n]| |]; [eauto|congruence|congruence].
Qed.

(* return wrap(func() (int, error) {...})  with wrap returning one result *)
Definition alt_nil := mk_alt (bs "untyped nil") false TNil (XIdent false 1%N) 0 0%N.
Definition alt_one := mk_alt (bs "1") true TUntyped XOther 0 0%N.
Definition alt_e := mk_alt (bs "*a.E") false (TErrImpl 0) XOther 0 0%N.
Definition alt_fn := mk_alt (bs "func() (int, error)") false (TFunc 1) XOther 0 0%N.
Definition prog_clos : prog :=
  [ mk_fdef 0 [rd_err] (Some [SReturn 0%N (Some [EVal alt_nil])]);                       (* func wrap(..., cb func() (int, error)) error *)
    mk_fdef 0 [rd_int; rd_err] (Some [SReturn 0%N (Some [EVal alt_one; EVal alt_e])]);     (* the function literal *)
    mk_fdef 0 [rd_err]
      (Some [SReturn 0%N (Some [ECall (mk_call true [rd_err] [false; true; false] (TgBody 0) 0 0%N)
                                      [EVal alt_one; EVal alt_nil; EFuncLit 1 alt_fn]])]) ].
Definition otys_clos : otys := [(1%N, TNil)].

Lemma no_panic_refuted :
  wt_b otys_clos prog_clos = true /\ entry_ok prog_clos (EnBody 2) [rd_err] = true /\
  results_of unfixed prog_clos 10 (EnBody 2) [rd_err] = Panic.
Proof. vm_compute. repeat split. Qed.
