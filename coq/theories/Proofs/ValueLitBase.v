(* C10 — generic lemmas: decimal round trip, string order and sorting, association lists,
   option/res list helpers. *)
Require Import Gengo.Base.Bytes Gengo.Model.ValueLit.
From Coq Require Import ZArith DecimalString DecimalZ Permutation.

(* ---- strings <-> byte lists, decimal integers ---- *)

Lemma to_of_string : forall s, to_string (of_string s) = s.
Proof. induction s as [|c s IH]; cbn; [reflexivity | now rewrite IH]. Qed.

Lemma of_to_string : forall b, of_string (to_string b) = b.
Proof. induction b as [|c b IH]; cbn; [reflexivity | now rewrite IH]. Qed.

Lemma to_int_not_nil : forall z, Z.to_int z <> Decimal.Pos Decimal.Nil /\ Z.to_int z <> Decimal.Neg Decimal.Nil.
Proof.
  intros z. split; intros H.
  - destruct z as [|p|p]; cbn in H; try discriminate.
    injection H as H. unfold Pos.to_uint in H.
    pose proof (DecimalPos.Unsigned.to_uint_nonnil p) as Hn. apply Hn. exact H.
  - destruct z as [|p|p]; cbn in H; try discriminate.
    injection H as H.
    pose proof (DecimalPos.Unsigned.to_uint_nonnil p) as Hn. apply Hn. exact H.
Qed.

Lemma parse_int_dec : forall z, parse_int (dec z) = Some z.
Proof.
  intros z. unfold parse_int, dec. rewrite to_of_string.
  destruct (to_int_not_nil z) as [H1 H2].
  rewrite NilZero.isi by assumption. cbn. now rewrite DecimalZ.of_to.
Qed.

Lemma dec_inj : forall a b, dec a = dec b -> a = b.
Proof.
  intros a b H. pose proof (parse_int_dec a) as Ha. rewrite H, parse_int_dec in Ha. now injection Ha.
Qed.

(* the first byte of a decimal is a digit or '-' — never a single quote *)
Lemma dec_head : forall z, exists c r, dec z = c :: r /\ c <> sq.
Proof.
  intros z. unfold dec.
  destruct z as [|p|p]; cbn.
  - eexists _, _. split; [reflexivity | intros H; discriminate].
  - unfold NilZero.string_of_uint.
    pose proof (DecimalPos.Unsigned.to_uint_nonnil p) as Hn.
    destruct (Pos.to_uint p) eqn:E; [now elim Hn | ..];
      cbn; eexists _, _; (split; [reflexivity | intros H; discriminate]).
  - eexists _, _. split; [reflexivity | intros H; discriminate].
Qed.

(* ---- lexicographic order on byte strings ---- *)

Lemma bytes_leb_refl : forall a, bytes_leb a a = true.
Proof.
  induction a as [|x a IH]; cbn; [reflexivity|].
  rewrite N.ltb_irrefl, N.eqb_refl. exact IH.
Qed.

Lemma bytes_leb_total : forall a b, bytes_leb a b = true \/ bytes_leb b a = true.
Proof.
  induction a as [|x a IH]; intros [|y b]; cbn; auto.
  destruct (N.ltb_spec (N_of_ascii x) (N_of_ascii y)) as [H|H]; auto.
  destruct (N.eqb_spec (N_of_ascii x) (N_of_ascii y)) as [E|E].
  - rewrite E, N.ltb_irrefl, N.eqb_refl. apply IH.
  - right. assert (Hlt : (N_of_ascii y < N_of_ascii x)%N) by lia.
    apply N.ltb_lt in Hlt. now rewrite Hlt.
Qed.

Lemma N_of_ascii_inj : forall x y, N_of_ascii x = N_of_ascii y -> x = y.
Proof. intros x y H. rewrite <- (ascii_N_embedding x), <- (ascii_N_embedding y). now rewrite H. Qed.

Lemma bytes_leb_antisym : forall a b, bytes_leb a b = true -> bytes_leb b a = true -> a = b.
Proof.
  induction a as [|x a IH]; intros [|y b]; cbn; intros H1 H2; try reflexivity; try discriminate.
  destruct (N.ltb_spec (N_of_ascii x) (N_of_ascii y)) as [H|H].
  - destruct (N.ltb_spec (N_of_ascii y) (N_of_ascii x)) as [H'|H']; [lia|].
    destruct (N.eqb_spec (N_of_ascii y) (N_of_ascii x)); [lia | discriminate].
  - destruct (N.eqb_spec (N_of_ascii x) (N_of_ascii y)) as [E|E]; [|discriminate].
    rewrite E, N.ltb_irrefl, N.eqb_refl in H2.
    apply N_of_ascii_inj in E. subst y. f_equal. now apply IH.
Qed.

Lemma bytes_leb_trans : forall a b c, bytes_leb a b = true -> bytes_leb b c = true -> bytes_leb a c = true.
Proof.
  induction a as [|x a IH]; intros [|y b] [|z c]; cbn; intros H1 H2; try reflexivity; try discriminate.
  destruct (N.ltb_spec (N_of_ascii x) (N_of_ascii y)) as [Hxy|Hxy];
    destruct (N.ltb_spec (N_of_ascii y) (N_of_ascii z)) as [Hyz|Hyz].
  - assert (H : (N_of_ascii x < N_of_ascii z)%N) by lia. apply N.ltb_lt in H. now rewrite H.
  - destruct (N.eqb_spec (N_of_ascii y) (N_of_ascii z)) as [E|E]; [|discriminate].
    assert (H : (N_of_ascii x < N_of_ascii z)%N) by lia. apply N.ltb_lt in H. now rewrite H.
  - destruct (N.eqb_spec (N_of_ascii x) (N_of_ascii y)) as [E|E]; [|discriminate].
    assert (H : (N_of_ascii x < N_of_ascii z)%N) by lia. apply N.ltb_lt in H. now rewrite H.
  - destruct (N.eqb_spec (N_of_ascii x) (N_of_ascii y)) as [E|E]; [|discriminate].
    destruct (N.eqb_spec (N_of_ascii y) (N_of_ascii z)) as [E'|E']; [|discriminate].
    rewrite E, E', N.ltb_irrefl, N.eqb_refl. eapply IH; eassumption.
Qed.

(* ---- insertion sort: a permutation, and a function of the multiset when the strings are distinct ---- *)

Lemma insert_perm : forall x l, Permutation (x :: l) (insert x l).
Proof.
  intros x l. induction l as [|y r IH]; cbn; [reflexivity|].
  destruct (bytes_leb x y); [reflexivity|].
  etransitivity; [apply perm_swap|]. now apply perm_skip.
Qed.

Lemma isort_perm : forall l, Permutation l (isort l).
Proof.
  induction l as [|x l IH]; [reflexivity|].
  change (isort (x :: l)) with (insert x (isort l)).
  etransitivity; [|apply insert_perm]. now apply perm_skip.
Qed.

Lemma insert_comm : forall x y l, x <> y -> insert x (insert y l) = insert y (insert x l).
Proof.
  intros x y l Hne. induction l as [|z r IH]; cbn.
  - destruct (bytes_leb x y) eqn:Exy, (bytes_leb y x) eqn:Eyx; try reflexivity.
    + elim Hne. now apply bytes_leb_antisym.
    + destruct (bytes_leb_total x y) as [H|H]; congruence.
  - destruct (bytes_leb y z) eqn:Eyz, (bytes_leb x z) eqn:Exz; cbn.
    + destruct (bytes_leb x y) eqn:Exy, (bytes_leb y x) eqn:Eyx; rewrite ?Exz, ?Eyz; try reflexivity.
      * elim Hne. now apply bytes_leb_antisym.
      * destruct (bytes_leb_total x y) as [H|H]; congruence.
    + rewrite Eyz. destruct (bytes_leb x y) eqn:Exy.
      * rewrite (bytes_leb_trans _ _ _ Exy Eyz) in Exz. discriminate.
      * rewrite Exz. reflexivity.
    + rewrite Exz. destruct (bytes_leb y x) eqn:Eyx.
      * rewrite (bytes_leb_trans _ _ _ Eyx Exz) in Eyz. discriminate.
      * rewrite Eyz. reflexivity.
    + rewrite Exz, Eyz. now rewrite IH.
Qed.

Lemma isort_perm_eq : forall l1 l2, Permutation l1 l2 -> NoDup l1 -> isort l1 = isort l2.
Proof.
  intros l1 l2 HP. unfold isort.
  induction HP as [|x l l' HP IH|x y l|l l' l'' HP1 IH1 HP2 IH2]; intros Hnd.
  - reflexivity.
  - cbn. rewrite IH; [reflexivity|]. now inversion Hnd.
  - cbn. apply insert_comm. inversion Hnd as [|? ? Hni _]; subst. intros E. apply Hni. left. now symmetry.
  - rewrite IH1 by assumption. apply IH2. eapply Permutation_NoDup; eassumption.
Qed.

(* ---- association lists ---- *)

Lemma bytes_eqb_neq : forall a b, a <> b -> bytes_eqb a b = false.
Proof.
  intros a b H. destruct (bytes_eqb a b) eqn:E; [|reflexivity]. apply bytes_eqb_spec in E. contradiction.
Qed.

Lemma assoc_notin {A} : forall k (l : list (bytes * A)), ~ In k (map fst l) -> assoc k l = None.
Proof.
  intros k l. induction l as [|[k' v] r IH]; cbn; intros H; [reflexivity|].
  rewrite bytes_eqb_neq by (intros E; apply H; left; now symmetry).
  apply IH. intros Hin. apply H. now right.
Qed.

Lemma assoc_in {A} : forall k (v : A) l, NoDup (map fst l) -> In (k, v) l -> assoc k l = Some v.
Proof.
  intros k v l. induction l as [|[k' v'] r IH]; cbn; intros Hnd Hin; [contradiction|].
  inversion Hnd as [|? ? Hni Hnd']; subst.
  destruct Hin as [E|Hin].
  - injection E as -> ->. now rewrite bytes_eqb_refl.
  - rewrite bytes_eqb_neq; [now apply IH|].
    intros E. subst k'. apply Hni. change k with (fst (k, v)). now apply in_map.
Qed.

Lemma assoc_app {A} : forall k (p q : list (bytes * A)),
  assoc k (p ++ q) = match assoc k p with Some v => Some v | None => assoc k q end.
Proof.
  intros k p q. induction p as [|[k' v] r IH]; cbn; [reflexivity|].
  destruct (bytes_eqb k k'); [reflexivity | exact IH].
Qed.

Lemma assoc_last_notin {A} : forall k (l : list (bytes * A)), ~ In k (map fst l) -> assoc_last k l = None.
Proof.
  intros k l. induction l as [|[k' v] r IH]; cbn; intros H; [reflexivity|].
  rewrite IH by (intros Hin; apply H; now right).
  now rewrite bytes_eqb_neq by (intros E; apply H; left; now symmetry).
Qed.

Lemma assoc_last_in {A} : forall k (v : A) l, NoDup (map fst l) -> In (k, v) l -> assoc_last k l = Some v.
Proof.
  intros k v l. induction l as [|[k' v'] r IH]; cbn; intros Hnd Hin; [contradiction|].
  inversion Hnd as [|? ? Hni Hnd']; subst.
  destruct Hin as [E|Hin].
  - injection E as -> ->. rewrite assoc_last_notin by assumption. now rewrite bytes_eqb_refl.
  - now rewrite (IH Hnd' Hin).
Qed.

(* ---- mapr / all_some ---- *)

Lemma mapr_Forall2 {A B} (f : A -> res B) (P : A -> B -> Prop) : forall l,
  Forall (fun x => exists y, f x = Ok y /\ P x y) l ->
  exists ys, mapr f l = Ok ys /\ Forall2 P l ys.
Proof.
  induction l as [|x l IH]; intros H.
  - exists []. split; [reflexivity | constructor].
  - inversion H as [|? ? (y & Hy & HP) Hr]; subst. destruct (IH Hr) as (ys & Hys & HF).
    exists (y :: ys). cbn. fold (mapr f). rewrite Hy, Hys. split; [reflexivity | now constructor].
Qed.

Lemma mapr_ok_Forall2 {A B} (f : A -> res B) : forall l ys,
  mapr f l = Ok ys -> Forall2 (fun x y => f x = Ok y) l ys.
Proof.
  induction l as [|x l IH]; cbn; fold (mapr f); intros ys H.
  - injection H as <-. constructor.
  - destruct (f x) as [y| |] eqn:Ey; try discriminate.
    destruct (mapr f l) as [ys'| |] eqn:Eys; try discriminate.
    injection H as <-. constructor; [exact Ey | now apply IH].
Qed.

Lemma mapr_not_fuel {A B} (f : A -> res B) : forall l, mapr f l <> OutOfFuel.
Proof.
  induction l as [|x l IH]; cbn; fold (mapr f); [discriminate|].
  destruct (f x); try discriminate. destruct (mapr f l); discriminate.
Qed.

Lemma mapr_perm {A B} (f : A -> res B) : forall l1 l2, Permutation l1 l2 ->
  match mapr f l1, mapr f l2 with
  | Ok r1, Ok r2 => Permutation r1 r2
  | Panic, Panic => True
  | _, _ => False
  end.
Proof.
  intros l1 l2 HP. induction HP as [|x l l' HP IH|x y l|l l' l'' HP1 IH1 HP2 IH2].
  - cbn. constructor.
  - cbn. fold (mapr f). destruct (f x); auto.
    destruct (mapr f l), (mapr f l'); try contradiction; auto.
  - cbn. fold (mapr f). destruct (f x), (f y); auto; destruct (mapr f l); auto. apply perm_swap.
  - destruct (mapr f l) eqn:E1, (mapr f l') eqn:E2, (mapr f l'') eqn:E3; try contradiction; auto.
    etransitivity; eassumption.
Qed.

Lemma all_some_Forall2 {A B} (f : A -> option B) (P : A -> B -> Prop) : forall l,
  Forall (fun x => exists y, f x = Some y /\ P x y) l ->
  exists ys, all_some (map f l) = Some ys /\ Forall2 P l ys.
Proof.
  induction l as [|x l IH]; intros H.
  - exists []. split; [reflexivity | constructor].
  - inversion H as [|? ? (y & Hy & HP) Hr]; subst. destruct (IH Hr) as (ys & Hys & HF).
    exists (y :: ys). cbn. rewrite Hy, Hys. split; [reflexivity | now constructor].
Qed.

Lemma all_some_perm {A B} (f : A -> option B) : forall l1 l2 r1, Permutation l1 l2 ->
  all_some (map f l1) = Some r1 -> exists r2, all_some (map f l2) = Some r2 /\ Permutation r1 r2.
Proof.
  intros l1 l2 r1 HP. revert r1.
  induction HP as [|x l l' HP IH|x y l|l l' l'' HP1 IH1 HP2 IH2]; intros r1 H.
  - cbn in *. injection H as <-. exists []. split; [reflexivity | constructor].
  - cbn in *. destruct (f x) as [y|]; [|discriminate].
    destruct (all_some (map f l)) as [ys|] eqn:E; [|discriminate]. injection H as <-.
    destruct (IH _ eq_refl) as (r2 & -> & HP2). exists (y :: r2). split; [reflexivity | now constructor].
  - cbn in *. destruct (f y) as [b|]; [|discriminate]. destruct (f x) as [a|]; [|discriminate].
    destruct (all_some (map f l)) as [ys|]; [|discriminate]. injection H as <-.
    exists (a :: b :: ys). split; [reflexivity | apply perm_swap].
  - destruct (IH1 _ H) as (r2 & H2 & P2). destruct (IH2 _ H2) as (r3 & H3 & P3).
    exists r3. split; [exact H3 | etransitivity; eassumption].
Qed.

Lemma NoDup_map_inj_on {A B} (f : A -> B) : forall l,
  (forall a b, In a l -> In b l -> f a = f b -> a = b) -> NoDup l -> NoDup (map f l).
Proof.
  induction l as [|x l IH]; intros Hinj Hnd; cbn; [constructor|].
  inversion Hnd as [|? ? Hni Hnd']; subst. constructor.
  - intros Hin. apply in_map_iff in Hin. destruct Hin as (y & Hy & Hin).
    assert (y = x) by (apply Hinj; [now right | now left | exact Hy]). subst y. contradiction.
  - apply IH; [|assumption]. intros a b Ha Hb. apply Hinj; now right.
Qed.

Lemma names_nodupb_true : forall l : list bytes, NoDup l -> names_nodupb l = true.
Proof.
  induction l as [|x l IH]; intros H; cbn; [reflexivity|].
  inversion H as [|? ? Hni Hnd]; subst. rewrite (IH Hnd), andb_true_r.
  apply negb_true_iff. destruct (existsb (bytes_eqb x) l) eqn:E; [|reflexivity].
  apply existsb_exists in E. destruct E as (y & Hy & E). apply bytes_eqb_spec in E. subst y. contradiction.
Qed.

Lemma Forall2_len {A B} (P : A -> B -> Prop) : forall l1 l2, Forall2 P l1 l2 -> length l1 = length l2.
Proof. intros l1 l2 H. induction H; cbn; congruence. Qed.
