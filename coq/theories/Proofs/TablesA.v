(* Tables, part A: the three models of newPkg's loop over TypesInfo.Defs (Universe / Dispatch / Determinism) agree
   on the table of package-level type names, and Determinism's method lists are Universe's. *)
Require Import Gengo.Base.Bytes Gengo.Model.Tables.
Require Gengo.Proofs.Universe Gengo.Proofs.Dispatch Gengo.Proofs.Determinism.
From Coq Require Import Permutation Sorted.

Module UP := Gengo.Proofs.Universe.
Module DP := Gengo.Proofs.Dispatch.
Module TP := Gengo.Proofs.Determinism.

(* ------------------------------------------------------------------------------------------ *)
(* the type table of Universe depends on the *types.TypeName entries only                      *)

(* case *types.TypeName of package.go:133-137 on the association list *)
Definition add_type (scope : bool) (tb : U.tbl) (o : U.obj) : U.tbl :=
  if negb scope || U.o_pkg_scope o then U.tbl_set (U.o_name o) (U.o_id o) tb else tb.

Lemma step_types : forall fx t o,
  U.t_types (U.step fx t o) = if is_type o then add_type (U.fx_scope fx) (U.t_types t) o else U.t_types t.
Proof.
  intros fx t o. unfold U.step, is_type, add_type. destruct (U.o_kind o); cbn.
  - destruct (U.o_recv o) as [r|]; [destruct (U.named_of _); reflexivity|].
    destruct (negb (U.fx_scope fx) || U.o_pkg_scope o); reflexivity.
  - destruct (negb (U.fx_scope fx) || U.o_pkg_scope o); reflexivity.
  - destruct (negb (U.fx_scope fx) || U.o_pkg_scope o); reflexivity.
  - reflexivity.
Qed.

Lemma fold_types : forall fx os t,
  U.t_types (fold_left (U.step fx) os t) = fold_left (add_type (U.fx_scope fx)) (types_of os) (U.t_types t).
Proof.
  intros fx os. induction os as [|o r IH]; intros t; cbn [fold_left]; [reflexivity|].
  rewrite IH, step_types. unfold types_of. cbn [filter]. destruct (is_type o); reflexivity.
Qed.

Lemma fill_types : forall fx os,
  U.t_types (U.fill_tables fx os) = fold_left (add_type (U.fx_scope fx)) (types_of os) [].
Proof. intros fx os. unfold U.fill_tables. rewrite fold_types. reflexivity. Qed.

Lemma types_of_idem : forall os, types_of (types_of os) = types_of os.
Proof.
  induction os as [|o r IH]; [reflexivity|]. unfold types_of in *. cbn [filter].
  destruct (is_type o) eqn:E; cbn [filter]; [rewrite E, IH; reflexivity|exact IH].
Qed.

Lemma fill_types_of : forall fx os, U.t_types (U.fill_tables fx (types_of os)) = U.t_types (U.fill_tables fx os).
Proof. intros fx os. rewrite !fill_types, types_of_idem. reflexivity. Qed.

Lemma types_of_perm : forall a b, Permutation a b -> Permutation (types_of a) (types_of b).
Proof. intros a b. apply UP.Permutation_filter'. Qed.

(* ------------------------------------------------------------------------------------------ *)
(* Dispatch's and Determinism's folds are the same fold                                        *)

Lemma disp_view_set : forall k v m, disp_view (D.map_set k v m) = U.tbl_set k (D.td_id v) (disp_view m).
Proof.
  intros k v m. unfold disp_view. induction m as [|[k' v'] r IH]; cbn [D.map_set map U.tbl_set fst snd]; [reflexivity|].
  rewrite (DP.bytes_eqb_sym k' k). destruct (bytes_eqb k k'); cbn [map fst snd]; [reflexivity|]. rewrite IH. reflexivity.
Qed.

Lemma disp_fold : forall b ds tb,
  disp_view (fold_left (D.table_add b) ds tb) = fold_left (add_type b) (map u_of_disp ds) (disp_view tb).
Proof.
  intros b ds. induction ds as [|d r IH]; intros tb; cbn [fold_left map]; [reflexivity|].
  rewrite IH. f_equal. unfold D.table_add, add_type, u_of_disp. cbn [U.o_pkg_scope U.o_name U.o_id].
  destruct b, (D.td_pkgscope d); cbn; try reflexivity; apply disp_view_set.
Qed.

Lemma det_view_set : forall k v m, det_view (Det.aset k v m) = U.tbl_set k (Det.td_uid v) (det_view m).
Proof.
  intros k v m. unfold det_view. induction m as [|[k' v'] r IH]; cbn [Det.aset map U.tbl_set fst snd]; [reflexivity|].
  destruct (bytes_eqb k k'); cbn [map fst snd]; [reflexivity|]. rewrite IH. reflexivity.
Qed.

Lemma det_fold : forall b ds tb,
  det_view (fold_left (Det.table_add b) ds tb) = fold_left (add_type b) (map u_of_det ds) (det_view tb).
Proof.
  intros b ds. induction ds as [|d r IH]; intros tb; cbn [fold_left map]; [reflexivity|].
  rewrite IH. f_equal. unfold Det.table_add, add_type, u_of_det. cbn [U.o_pkg_scope U.o_name U.o_id].
  destruct b, (Det.td_pkgscope d); cbn; try reflexivity; apply det_view_set.
Qed.

Lemma types_of_map_disp : forall ds, types_of (map u_of_disp ds) = map u_of_disp ds.
Proof. induction ds as [|d r IH]; cbn; [reflexivity|]. unfold types_of in IH. rewrite IH. reflexivity. Qed.

Lemma types_of_map_det : forall ds, types_of (map u_of_det ds) = map u_of_det ds.
Proof. induction ds as [|d r IH]; cbn; [reflexivity|]. unfold types_of in IH. rewrite IH. reflexivity. Qed.

(* SAME ORDER: the tables are the same association list, entry by entry — with or without the scope test,
   no hypothesis on the names.  [os] may contain any other objects (functions, methods, constants, variables,
   labels ...) anywhere: they do not touch the type table. *)
Lemma universe_dispatch_same_order : forall fx os ds,
  types_of os = map u_of_disp ds ->
  U.t_types (U.fill_tables fx os) = disp_view (D.type_table (U.fx_scope fx) ds).
Proof.
  intros fx os ds H. rewrite fill_types, H. unfold D.type_table. rewrite disp_fold. reflexivity.
Qed.

Lemma universe_determinism_same_order : forall fx os ds,
  types_of os = map u_of_det ds ->
  U.t_types (U.fill_tables fx os) = det_view (fold_left (Det.table_add (U.fx_scope fx)) ds []).
Proof.
  intros fx os ds H. rewrite fill_types, H. rewrite det_fold. reflexivity.
Qed.

(* the two lookup functions *)
Lemma disp_view_get : forall n t, U.tbl_get n (disp_view t) = option_map D.td_id (D.lookup n t).
Proof.
  intros n t. induction t as [|[k v] r IH]; cbn; [reflexivity|].
  rewrite (DP.bytes_eqb_sym k n). destruct (bytes_eqb n k); [reflexivity|exact IH].
Qed.

Lemma det_view_get : forall n t, U.tbl_get n (det_view t) = option_map Det.td_uid (Det.lookup n t).
Proof.
  intros n t. induction t as [|[k v] r IH]; cbn; [reflexivity|]. destruct (bytes_eqb n k); [reflexivity|exact IH].
Qed.

Lemma disp_view_keys : forall t, map fst (disp_view t) = D.keys t.
Proof. intros t. unfold disp_view, D.keys. rewrite map_map. reflexivity. Qed.

Lemma det_view_keys : forall t, map fst (det_view t) = Det.keys t.
Proof. intros t. unfold det_view, Det.keys. rewrite map_map. reflexivity. Qed.

(* ------------------------------------------------------------------------------------------ *)
(* ANY two orders: through C13's theorems                                                      *)

Lemma scope_obj_type : forall n o, UP.scope_obj U.KType n o = true -> is_type o = true.
Proof.
  intros n o. unfold UP.scope_obj, UP.matches, UP.tabled, is_type. destruct (U.o_kind o); cbn; try discriminate.
  reflexivity.
Qed.

Lemma unique_at_types_of : forall os n, UP.unique_at os U.KType n -> UP.unique_at (types_of os) U.KType n.
Proof.
  intros os n H o1 o2 H1 H2. apply H; [apply filter_In in H1|apply filter_In in H2]; tauto.
Qed.

(* Two Defs lists whose *types.TypeName entries are the same up to order: same key set; same lookup at every
   name the package scope holds once (C13_tables_order_independent).  *)
Lemma types_table_perm : forall os os',
  Permutation (types_of os) (types_of os') ->
  (forall n, In n (map fst (U.t_types (U.fill_tables U.all_fixed os)))
             <-> In n (map fst (U.t_types (U.fill_tables U.all_fixed os'))))
  /\ (forall n, UP.unique_at os U.KType n ->
                U.lookup U.KType n (U.fill_tables U.all_fixed os) = U.lookup U.KType n (U.fill_tables U.all_fixed os')).
Proof.
  intros os os' HP. split.
  - intros n.
    pose proof (UP.tables_keys os os U.KType n (Permutation_refl _)) as K1.
    pose proof (UP.tables_keys os' os' U.KType n (Permutation_refl _)) as K2.
    cbn [U.table_of] in K1, K2. rewrite K1, K2.
    split; intros (o & Hin & Hs); exists o; (split; [|exact Hs]).
    + assert (Hin' : In o (types_of os)) by (apply filter_In; split; [exact Hin|eapply scope_obj_type; exact Hs]).
      eapply Permutation_in in Hin'; [|exact HP]. apply filter_In in Hin'. tauto.
    + assert (Hin' : In o (types_of os')) by (apply filter_In; split; [exact Hin|eapply scope_obj_type; exact Hs]).
      eapply Permutation_in in Hin'; [|apply Permutation_sym; exact HP]. apply filter_In in Hin'. tauto.
  - intros n Hu. unfold U.lookup. cbn [U.table_of].
    rewrite <- (fill_types_of U.all_fixed os), <- (fill_types_of U.all_fixed os').
    apply (UP.tables_order_independent (types_of os) (types_of os) (types_of os') U.KType n).
    + apply Permutation_refl.
    + apply Permutation_sym. exact HP.
    + apply unique_at_types_of. exact Hu.
Qed.

(* Universe = Dispatch, for EVERY Defs list of Universe (objects of all kinds) and EVERY Defs list of Dispatch that
   describe the same *types.TypeName objects — in any two orders. *)
Theorem universe_is_dispatch : forall os ds,
  Permutation (types_of os) (map u_of_disp ds) ->
  (forall n, In n (map fst (U.t_types (U.fill_tables U.all_fixed os))) <-> In n (D.keys (D.type_table true ds)))
  /\ (forall n, UP.unique_at os U.KType n ->
        U.lookup U.KType n (U.fill_tables U.all_fixed os) = option_map D.td_id (D.lookup n (D.type_table true ds))).
Proof.
  intros os ds HP.
  assert (HP' : Permutation (types_of os) (types_of (map u_of_disp ds))) by (rewrite types_of_map_disp; exact HP).
  destruct (types_table_perm os (map u_of_disp ds) HP') as [K L].
  pose proof (universe_dispatch_same_order U.all_fixed (map u_of_disp ds) ds (types_of_map_disp ds)) as E.
  cbn [U.fx_scope U.all_fixed] in E. split.
  - intros n. rewrite K, E, disp_view_keys. reflexivity.
  - intros n Hu. rewrite (L n Hu). unfold U.lookup. cbn [U.table_of]. rewrite E. apply disp_view_get.
Qed.

(* Universe = Determinism, for every behaviour of the runtime at Determinism's range over Defs *)
Theorem universe_is_determinism : forall (o : Det.oracle) p os,
  Det.shuffles o ->
  Permutation (types_of os) (map u_of_det (Det.pk_defs p)) ->
  (forall n, In n (map fst (U.t_types (U.fill_tables U.all_fixed os))) <-> In n (Det.keys (Det.type_table true o p)))
  /\ (forall n, UP.unique_at os U.KType n ->
        U.lookup U.KType n (U.fill_tables U.all_fixed os)
        = option_map Det.td_uid (Det.lookup n (Det.type_table true o p))).
Proof.
  intros o p os Hs HP. unfold Det.type_table.
  set (ds := o Det.tdef [bs "defs"; Det.pk_path p] (Det.pk_defs p)).
  assert (HP' : Permutation (types_of os) (types_of (map u_of_det ds))).
  { rewrite types_of_map_det. eapply perm_trans; [exact HP|]. apply Permutation_map. apply Hs. }
  destruct (types_table_perm os (map u_of_det ds) HP') as [K L].
  pose proof (universe_determinism_same_order U.all_fixed (map u_of_det ds) ds (types_of_map_det ds)) as E.
  cbn [U.fx_scope U.all_fixed] in E. split.
  - intros n. rewrite K, E, det_view_keys. reflexivity.
  - intros n Hu. rewrite (L n Hu). unfold U.lookup. cbn [U.table_of]. rewrite E. apply det_view_get.
Qed.

(* hence Dispatch = Determinism (same objects: same identities, names, scopes) *)
Theorem dispatch_is_determinism : forall (o : Det.oracle) p ds,
  Det.shuffles o ->
  Permutation (map u_of_disp ds) (map u_of_det (Det.pk_defs p)) ->
  NoDup (map D.td_name (filter D.td_pkgscope ds)) ->
  (forall n, In n (D.keys (D.type_table true ds)) <-> In n (Det.keys (Det.type_table true o p)))
  /\ (forall n, option_map D.td_id (D.lookup n (D.type_table true ds))
                = option_map Det.td_uid (Det.lookup n (Det.type_table true o p))).
Proof.
  intros o p ds Hs HP Hnd.
  assert (H1 : Permutation (types_of (map u_of_disp ds)) (map u_of_disp ds)) by (rewrite types_of_map_disp; apply Permutation_refl).
  assert (H2 : Permutation (types_of (map u_of_disp ds)) (map u_of_det (Det.pk_defs p))) by (rewrite types_of_map_disp; exact HP).
  destruct (universe_is_dispatch _ _ H1) as [K1 L1]. destruct (universe_is_determinism o p _ Hs H2) as [K2 L2].
  assert (Hu : forall n, UP.unique_at (map u_of_disp ds) U.KType n).
  { intros n o1 o2 Hi1 Hi2 S1 S2. apply in_map_iff in Hi1, Hi2. destruct Hi1 as (d1 & <- & Hd1), Hi2 as (d2 & <- & Hd2).
    unfold UP.scope_obj, UP.matches, UP.tabled in S1, S2. cbn in S1, S2.
    apply andb_true_iff in S1, S2. destruct S1 as [P1 N1], S2 as [P2 N2].
    apply bytes_eqb_spec in N1, N2. cbn.
    assert (Hin1 : In d1 (filter D.td_pkgscope ds)) by (apply filter_In; tauto).
    assert (Hin2 : In d2 (filter D.td_pkgscope ds)) by (apply filter_In; tauto).
    assert (d1 = d2); [|subst; reflexivity].
    revert Hnd Hin1 Hin2. generalize (filter D.td_pkgscope ds). intros l Hnd Hin1 Hin2.
    induction l as [|x l IH]; [contradiction|]. cbn in Hnd. inversion Hnd as [|? ? Hn Hr]; subst.
    destruct Hin1 as [->|Hin1], Hin2 as [->|Hin2]; try reflexivity.
    - exfalso. apply Hn. apply in_map_iff. exists d2. split; [congruence|exact Hin2].
    - exfalso. apply Hn. apply in_map_iff. exists d1. split; [congruence|exact Hin1].
    - apply IH; assumption. }
  split.
  - intros n. rewrite <- K1, K2. reflexivity.
  - intros n. rewrite <- (L1 n (Hu n)). apply L2. apply Hu.
Qed.

(* ------------------------------------------------------------------------------------------ *)
(* methods                                                                                     *)

Lemma filter_implies : forall {A} (f g : A -> bool) l,
  (forall x, f x = true -> g x = true) -> filter f l = filter f (filter g l).
Proof.
  intros A f g l H. induction l as [|x r IH]; cbn; [reflexivity|].
  destruct (f x) eqn:Ef.
  - rewrite (H x Ef). cbn. rewrite Ef, IH. reflexivity.
  - destruct (g x); cbn; [rewrite Ef|]; exact IH.
Qed.

Lemma declared_on_meth : forall k o, UP.declared_on k o = true -> is_meth o = true.
Proof.
  intros k o. unfold UP.declared_on, UP.method_of, is_meth. destruct (U.o_kind o); try discriminate.
  destruct (U.o_recv o); [reflexivity|discriminate].
Qed.

Lemma declared_on_u_of_meth : forall ptr k m, UP.declared_on k (u_of_meth ptr m) = N.eqb (Det.m_recv m) k.
Proof.
  intros ptr k m. unfold UP.declared_on, UP.method_of, u_of_meth. cbn. destruct (ptr m); cbn; apply N.eqb_sym.
Qed.

Lemma filter_declared_map : forall ptr k ms,
  filter (UP.declared_on k) (map (u_of_meth ptr) ms) = map (u_of_meth ptr) (filter (fun m => N.eqb (Det.m_recv m) k) ms).
Proof.
  intros ptr k ms. induction ms as [|m r IH]; cbn [map filter]; [reflexivity|].
  rewrite declared_on_u_of_meth. destruct (N.eqb (Det.m_recv m) k); cbn [map]; rewrite IH; reflexivity.
Qed.

Lemma map_name_u_of_meth : forall ptr l, map U.o_name (map (u_of_meth ptr) l) = map Det.m_name l.
Proof. intros ptr l. rewrite map_map. reflexivity. Qed.

(* what Universe's MethodsOf(n, true) is, as a multiset, in terms of Determinism's method entries *)
Lemma universe_methods_perm : forall p ptr os n,
  Permutation (meths_of os) (map (u_of_meth ptr) (Det.pk_meths p)) ->
  Permutation (U.methods_of U.all_fixed (U.fill_tables U.all_fixed os) n true)
              (map (u_of_meth ptr) (filter (fun m => N.eqb (Det.m_recv m) (U.n_origin n)) (Det.pk_meths p))).
Proof.
  intros p ptr os n HP.
  destruct (UP.methods_exact os os n (Permutation_refl _)) as [H1 _].
  eapply perm_trans; [exact H1|].
  rewrite (filter_implies (UP.declared_on (U.n_origin n)) is_meth os (declared_on_meth _)).
  rewrite <- filter_declared_map. apply UP.Permutation_filter'. exact HP.
Qed.

(* Determinism's methods_of (before and after repair 50ddee1) lists the names of exactly the methods
   Universe's MethodsOf(n, true) returns — C13_methods's permutation *)
Theorem methods_agree : forall fm (o : Det.oracle) p ptr os n,
  Det.shuffles o ->
  Permutation (meths_of os) (map (u_of_meth ptr) (Det.pk_meths p)) ->
  Permutation (map U.o_name (U.methods_of U.all_fixed (U.fill_tables U.all_fixed os) n true))
              (Det.methods_of fm o p (U.n_origin n)).
Proof.
  intros fm o p ptr os n Hs HP.
  eapply perm_trans; [apply Permutation_map, (universe_methods_perm p ptr os n HP)|].
  rewrite map_name_u_of_meth. unfold Det.methods_of. apply Permutation_map.
  set (f := fun m => N.eqb (Det.m_recv m) (U.n_origin n)).
  assert (HF : Permutation (filter f (Det.pk_meths p)) (filter f (o Det.meth [bs "meths"; Det.pk_path p] (Det.pk_meths p)))).
  { apply TP.filter_perm. apply Hs. }
  destruct fm; [eapply perm_trans; [exact HF|apply TP.sort_by_perm]|exact HF].
Qed.

(* the value method set, for completeness: MethodsOf(n, false) = the methods whose receiver is not a pointer *)
Theorem methods_agree_value : forall p ptr os n,
  Permutation (meths_of os) (map (u_of_meth ptr) (Det.pk_meths p)) ->
  Permutation (map U.o_name (U.methods_of U.all_fixed (U.fill_tables U.all_fixed os) n false))
              (map Det.m_name (filter (fun m => N.eqb (Det.m_recv m) (U.n_origin n) && negb (ptr m)) (Det.pk_meths p))).
Proof.
  intros p ptr os n HP.
  destruct (UP.methods_exact os os n (Permutation_refl _)) as [_ H2].
  eapply perm_trans; [apply Permutation_map; exact H2|].
  set (g := fun o => UP.declared_on (U.n_origin n) o && UP.value_recv o).
  rewrite (filter_implies g is_meth os).
  2:{ intros x Hx. unfold g in Hx. apply andb_true_iff in Hx. eapply declared_on_meth. exact (proj1 Hx). }
  eapply perm_trans; [apply Permutation_map, UP.Permutation_filter'; exact HP|].
  rewrite <- map_name_u_of_meth with (ptr := ptr). apply Permutation_map.
  assert (E : filter g (map (u_of_meth ptr) (Det.pk_meths p))
              = map (u_of_meth ptr) (filter (fun m => N.eqb (Det.m_recv m) (U.n_origin n) && negb (ptr m)) (Det.pk_meths p))).
  { generalize (Det.pk_meths p). intros ms. induction ms as [|m r IH]; cbn [map filter]; [reflexivity|].
    unfold g at 1. rewrite declared_on_u_of_meth.
    assert (Ev : UP.value_recv (u_of_meth ptr m) = negb (ptr m)).
    { unfold UP.value_recv, u_of_meth. cbn. destruct (ptr m); reflexivity. }
    rewrite Ev. destruct (N.eqb (Det.m_recv m) (U.n_origin n) && negb (ptr m)); cbn [map]; rewrite IH; reflexivity. }
  rewrite E. apply Permutation_refl.
Qed.

(* ------------------------------------------------------------------------------------------ *)
(* ... and with the ordering of package.go:146-157 the two lists are EQUAL                    *)

Lemma insert_by_map : forall {A B} (f : A -> B) (ka : A -> N) (kb : B -> N),
  (forall x, kb (f x) = ka x) ->
  forall x l, Det.insert_by kb N.leb (f x) (map f l) = map f (Det.insert_by ka N.leb x l).
Proof.
  intros A B f ka kb H x l. induction l as [|y r IH]; cbn; [reflexivity|].
  rewrite !H. destruct (N.leb (ka x) (ka y)); cbn; [reflexivity|]. rewrite IH. reflexivity.
Qed.

Lemma sort_by_map : forall {A B} (f : A -> B) (ka : A -> N) (kb : B -> N),
  (forall x, kb (f x) = ka x) ->
  forall l, Det.sort_by kb N.leb (map f l) = map f (Det.sort_by ka N.leb l).
Proof.
  intros A B f ka kb H l. unfold Det.sort_by. induction l as [|x r IH]; cbn [map fold_right]; [reflexivity|].
  rewrite IH. apply insert_by_map. exact H.
Qed.

(* Universe's insertion sort is Determinism's *)
Lemma insert_pos_is_insert_by : forall pos x l, U.insert_pos pos x l = Det.insert_by pos N.leb x l.
Proof. intros pos x l. induction l as [|y r IH]; cbn; [reflexivity|]. rewrite IH. reflexivity. Qed.

Lemma sort_pos_is_sort_by : forall pos l, U.sort_pos pos l = Det.sort_by pos N.leb l.
Proof.
  intros pos l. unfold U.sort_pos, Det.sort_by. induction l as [|x r IH]; cbn [fold_right]; [reflexivity|].
  rewrite IH. apply insert_pos_is_insert_by.
Qed.

Lemma mtbl_get_sorted : forall pos key m,
  U.mtbl_get key (map (fun kv => (fst kv, U.sort_pos pos (snd kv))) m) = U.sort_pos pos (U.mtbl_get key m).
Proof.
  intros pos key m. induction m as [|[k v] r IH]; cbn [map U.mtbl_get fst snd]; [reflexivity|].
  destruct (N.eqb key k); [reflexivity|exact IH].
Qed.

(* MethodsOf(n, true) on the ordered tables = the ordered list *)
Lemma sorted_methods_true : forall pos t n,
  sorted_methods_of pos t n true = Det.sort_by pos N.leb (U.methods_of U.all_fixed t n true).
Proof.
  intros pos t n. unfold sorted_methods_of, U.methods_of, U.sort_methods. cbn [U.t_methods].
  rewrite mtbl_get_sorted. apply sort_pos_is_sort_by.
Qed.

Theorem methods_sorted_agree : forall (o : Det.oracle) p ptr os n,
  Det.shuffles o ->
  NoDup (map Det.m_pos (Det.pk_meths p)) ->
  Permutation (meths_of os) (map (u_of_meth ptr) (Det.pk_meths p)) ->
  map U.o_name (sorted_methods_of U.o_id (U.fill_tables U.all_fixed os) n true)
  = Det.methods_of true o p (U.n_origin n).
Proof.
  intros o p ptr os n Hs Hnd HP. rewrite sorted_methods_true. unfold Det.methods_of.
  set (f := fun m => N.eqb (Det.m_recv m) (U.n_origin n)).
  set (F' := filter f (o Det.meth [bs "meths"; Det.pk_path p] (Det.pk_meths p))).
  pose proof (universe_methods_perm p ptr os n HP) as H1. fold f in H1.
  assert (HF : Permutation (filter f (Det.pk_meths p)) F') by (apply TP.filter_perm, Hs).
  assert (H2 : Permutation (U.methods_of U.all_fixed (U.fill_tables U.all_fixed os) n true) (map (u_of_meth ptr) F')).
  { eapply perm_trans; [exact H1|]. apply Permutation_map. exact HF. }
  rewrite (TP.sort_by_N_perm_eq U.o_id _ (map (u_of_meth ptr) F')); [| |exact H2].
  - rewrite (sort_by_map (u_of_meth ptr) Det.m_pos U.o_id) by reflexivity. apply map_name_u_of_meth.
  - eapply Permutation_NoDup; [apply Permutation_map, Permutation_sym; exact H2|].
    rewrite map_map. cbn. change (fun x => Det.m_pos x) with Det.m_pos.
    apply TP.NoDup_map_filter. eapply Permutation_NoDup; [|exact Hnd]. apply Permutation_map, Hs.
Qed.

(* in Universe's own terms: with the ordering, MethodsOf does not depend on the order in which Defs is ranged over
   (distinct positions), and is sorted *)
Theorem sorted_methods_order_independent : forall (pos : U.obj -> N) defs p1 p2 n ptr,
  Permutation p1 defs -> Permutation p2 defs ->
  NoDup (map pos (meths_of defs)) ->
  sorted_methods_of pos (U.fill_tables U.all_fixed p1) n ptr = sorted_methods_of pos (U.fill_tables U.all_fixed p2) n ptr.
Proof.
  intros pos defs p1 p2 n ptr H1 H2 Hnd.
  destruct (UP.methods_exact defs p1 n H1) as [A1 _]. destruct (UP.methods_exact defs p2 n H2) as [A2 _].
  assert (E : Det.sort_by pos N.leb (U.methods_of U.all_fixed (U.fill_tables U.all_fixed p1) n true)
              = Det.sort_by pos N.leb (U.methods_of U.all_fixed (U.fill_tables U.all_fixed p2) n true)).
  { apply TP.sort_by_N_perm_eq.
    - eapply Permutation_NoDup; [apply Permutation_map, Permutation_sym; exact A1|].
      rewrite (filter_implies (UP.declared_on (U.n_origin n)) is_meth defs (declared_on_meth _)).
      apply TP.NoDup_map_filter. exact Hnd.
    - eapply perm_trans; [exact A1|apply Permutation_sym; exact A2]. }
  unfold sorted_methods_of, U.methods_of, U.sort_methods in *. cbn [U.t_methods] in *.
  rewrite !mtbl_get_sorted, !sort_pos_is_sort_by. rewrite E. reflexivity.
Qed.

Theorem sorted_methods_spec : forall (pos : U.obj -> N) defs pi n,
  Permutation pi defs ->
  Permutation (sorted_methods_of pos (U.fill_tables U.all_fixed pi) n true) (filter (UP.declared_on (U.n_origin n)) defs)
  /\ StronglySorted (fun a b => N.leb (pos a) (pos b) = true) (sorted_methods_of pos (U.fill_tables U.all_fixed pi) n true).
Proof.
  intros pos defs pi n HP. rewrite sorted_methods_true. split.
  - eapply perm_trans; [apply Permutation_sym, TP.sort_by_perm|]. apply (UP.methods_exact defs pi n HP).
  - apply TP.sort_by_sorted.
    + intros a b. destruct (N.leb_spec a b); [left; reflexivity|right; apply N.leb_le; lia].
    + intros a b c H1 H2. apply N.leb_le in H1, H2. apply N.leb_le. lia.
Qed.

(* ------------------------------------------------------------------------------------------ *)
(* corollaries                                                                                 *)

Lemma nodup_names_inj : forall (l : list D.tdef) d1 d2,
  NoDup (map D.td_name l) -> In d1 l -> In d2 l -> D.td_name d1 = D.td_name d2 -> d1 = d2.
Proof.
  induction l as [|x l IH]; intros d1 d2 Hnd H1 H2 E; [contradiction|].
  cbn in Hnd. inversion Hnd as [|? ? Hn Hr]; subst.
  destruct H1 as [->|H1], H2 as [->|H2]; try reflexivity.
  - exfalso. apply Hn. apply in_map_iff. exists d2. split; [congruence|exact H2].
  - exfalso. apply Hn. apply in_map_iff. exists d1. split; [congruence|exact H1].
  - apply IH; assumption.
Qed.

(* go/types' "one object per name in the package scope", stated on Dispatch's list, is C13's [unique_at] *)
Lemma unique_at_of_disp : forall os ds,
  Permutation (types_of os) (map u_of_disp ds) ->
  NoDup (map D.td_name (filter D.td_pkgscope ds)) ->
  forall n, UP.unique_at os U.KType n.
Proof.
  intros os ds HP Hnd n o1 o2 Hi1 Hi2 S1 S2.
  assert (T1 : In o1 (map u_of_disp ds)).
  { eapply Permutation_in; [exact HP|]. apply filter_In. split; [exact Hi1|eapply scope_obj_type; exact S1]. }
  assert (T2 : In o2 (map u_of_disp ds)).
  { eapply Permutation_in; [exact HP|]. apply filter_In. split; [exact Hi2|eapply scope_obj_type; exact S2]. }
  apply in_map_iff in T1, T2. destruct T1 as (d1 & <- & Hd1), T2 as (d2 & <- & Hd2).
  unfold UP.scope_obj, UP.matches, UP.tabled in S1, S2. cbn in S1, S2.
  apply andb_true_iff in S1, S2. destruct S1 as [P1 N1], S2 as [P2 N2]. apply bytes_eqb_spec in N1, N2. cbn.
  assert (d1 = d2); [|subst; reflexivity].
  apply (nodup_names_inj (filter D.td_pkgscope ds)); try assumption; try (apply filter_In; tauto). congruence.
Qed.

(* the entries of Universe's Types() are Dispatch's package-scope declarations, one for one *)
Lemma universe_types_are_disp_decls : forall os ds,
  Permutation (types_of os) (map u_of_disp ds) ->
  NoDup (map D.td_name (filter D.td_pkgscope ds)) ->
  forall n x,
    U.lookup U.KType n (U.fill_tables U.all_fixed os) = Some x
    <-> exists d, In d ds /\ D.td_pkgscope d = true /\ D.td_name d = n /\ D.td_id d = x.
Proof.
  intros os ds HP Hnd n x.
  destruct (universe_is_dispatch os ds HP) as [_ L]. rewrite (L n (unique_at_of_disp os ds HP Hnd n)).
  rewrite (DP.type_table_fixed ds Hnd).
  assert (Hk : NoDup (D.keys (map DP.entry (filter D.td_pkgscope ds)))) by (rewrite DP.keys_map_entry; exact Hnd).
  split.
  - destruct (D.lookup n _) as [d|] eqn:E; cbn; [|discriminate]. intros H. inversion H; subst.
    apply DP.lookup_Some_In in E. apply in_map_iff in E. destruct E as (d' & Ed & Hin). unfold DP.entry in Ed.
    inversion Ed; subst. apply filter_In in Hin. exists d. tauto.
  - intros (d & Hin & Hs & Hn & Hx). subst.
    rewrite (DP.lookup_In _ (D.td_name d) d Hk); [reflexivity|].
    apply in_map_iff. exists d. split; [reflexivity|]. apply filter_In. tauto.
Qed.

(* C06's exactly-once, with "package-scope declaration" read off C13's table: every call is for an entry of
   Universe's Types(), and every entry of Types() is called exactly as the rule says *)
Theorem exactly_once_on_universe_types : forall g G P defs pi ns os,
  NoDup (D.keys G) -> NoDup (D.keys P) ->
  (forall d, In d defs -> NoDup (D.keys (D.td_tags d))) ->
  NoDup (map D.td_name (filter D.td_pkgscope defs)) ->
  Permutation pi defs ->
  Permutation ns (D.keys (D.type_table true pi)) ->
  (forall d, In d defs -> D.td_action d <> D.AErr) ->
  Permutation (types_of os) (map u_of_disp defs) ->
  let T := U.fill_tables U.all_fixed os in
  exists cs,
    D.do_generate g G P (D.type_table true pi) ns = Ok (cs, false)
    /\ NoDup cs
    /\ (forall k d, In (k, d) cs -> In d defs /\ U.lookup U.KType (D.td_name d) T = Some (D.td_id d))
    /\ (forall n x, U.lookup U.KType n T = Some x ->
          exists d, In d defs /\ D.td_name d = n /\ D.td_id d = x
                    /\ forall k, In (k, d) cs <->
                         DP.enabled_eff_spec (D.g_name g) G P (D.td_tags d) = true
                         /\ ((k = D.CT /\ D.td_kind d = D.KNamed)
                             \/ (k = D.CA /\ D.td_kind d = D.KAlias /\ D.g_alias g = true))).
Proof.
  intros g G P defs pi ns os HG HPt Htags Hnd Hpi Hns Hne HP T.
  destruct (DP.exactly_once g G P defs pi ns HG HPt Htags Hnd Hpi Hns Hne) as (cs & Hrun & Hcs & Hiff).
  exists cs. split; [exact Hrun|]. split; [exact Hcs|]. split.
  - intros k d Hin. apply Hiff in Hin. destruct Hin as (Hd & Hs & _). split; [exact Hd|].
    apply (universe_types_are_disp_decls os defs HP Hnd). exists d. tauto.
  - intros n x Hl. apply (universe_types_are_disp_decls os defs HP Hnd) in Hl.
    destruct Hl as (d & Hd & Hs & Hn & Hx). exists d. split; [exact Hd|]. split; [exact Hn|]. split; [exact Hx|].
    intros k. rewrite Hiff. tauto.
Qed.

(* C04's "the type table does not depend on the order of Defs", derived from C13's theorem through the adapter *)
Theorem det_table_order_independent_from_universe : forall (o1 o2 : Det.oracle) p,
  Det.shuffles o1 -> Det.shuffles o2 ->
  NoDup (map Det.td_name (filter Det.td_pkgscope (Det.pk_defs p))) ->
  forall n, option_map Det.td_uid (Det.lookup n (Det.type_table true o1 p))
            = option_map Det.td_uid (Det.lookup n (Det.type_table true o2 p)).
Proof.
  intros o1 o2 p H1 H2 Hnd n.
  set (os := map u_of_det (Det.pk_defs p)).
  assert (HP : Permutation (types_of os) (map u_of_det (Det.pk_defs p))) by (unfold os; rewrite types_of_map_det; apply Permutation_refl).
  assert (Hu : UP.unique_at os U.KType n).
  { intros a b Ha Hb Sa Sb. unfold os in Ha, Hb. apply in_map_iff in Ha, Hb.
    destruct Ha as (d1 & <- & Hd1), Hb as (d2 & <- & Hd2).
    unfold UP.scope_obj, UP.matches, UP.tabled in Sa, Sb. cbn in Sa, Sb.
    apply andb_true_iff in Sa, Sb. destruct Sa as [P1 N1], Sb as [P2 N2]. apply bytes_eqb_spec in N1, N2. cbn.
    assert (d1 = d2); [|subst; reflexivity].
    assert (I1 : In d1 (filter Det.td_pkgscope (Det.pk_defs p))) by (apply filter_In; tauto).
    assert (I2 : In d2 (filter Det.td_pkgscope (Det.pk_defs p))) by (apply filter_In; tauto).
    revert Hnd I1 I2. generalize (filter Det.td_pkgscope (Det.pk_defs p)). intros l Hnd I1 I2.
    induction l as [|x l IH]; [contradiction|]. cbn in Hnd. inversion Hnd as [|? ? Hn Hr]; subst.
    destruct I1 as [->|I1], I2 as [->|I2]; try reflexivity.
    - exfalso. apply Hn. apply in_map_iff. exists d2. split; [congruence|exact I2].
    - exfalso. apply Hn. apply in_map_iff. exists d1. split; [congruence|exact I1].
    - apply IH; assumption. }
  destruct (universe_is_determinism o1 p os H1 HP) as [_ L1].
  destruct (universe_is_determinism o2 p os H2 HP) as [_ L2].
  rewrite <- (L1 n Hu). apply (L2 n Hu).
Qed.

(* ... and its "MethodsOf does not depend on the order of Defs", from Universe's method table + the ordering *)
Theorem det_methods_order_independent_from_universe : forall (o1 o2 : Det.oracle) p uid,
  Det.shuffles o1 -> Det.shuffles o2 ->
  NoDup (map Det.m_pos (Det.pk_meths p)) ->
  Det.methods_of true o1 p uid = Det.methods_of true o2 p uid.
Proof.
  intros o1 o2 p uid H1 H2 Hnd.
  set (ptr := fun _ : Det.meth => false).
  set (os := map (u_of_meth ptr) (Det.pk_meths p)).
  assert (HM : meths_of os = os).
  { unfold os. generalize (Det.pk_meths p). intros ms. induction ms as [|m r IH]; [reflexivity|].
    unfold meths_of in *. cbn [map filter]. cbn. f_equal. exact IH. }
  assert (HP : Permutation (meths_of os) (map (u_of_meth ptr) (Det.pk_meths p))) by (rewrite HM; apply Permutation_refl).
  pose proof (methods_sorted_agree o1 p ptr os (U.mk_nref uid uid) H1 Hnd HP) as E1.
  pose proof (methods_sorted_agree o2 p ptr os (U.mk_nref uid uid) H2 Hnd HP) as E2.
  cbn [U.n_origin] in E1, E2. rewrite <- E1. exact E2.
Qed.
