(* Lemmas about Model/Universe.v (C13). *)
Require Import Gengo.Base.Bytes Gengo.Model.Universe.
From Coq Require Import Permutation Sorting.Sorted Arith.PeanoNat.

(* ------------------------------------------------------------------------------------------ *)
(* association lists                                                                           *)

Lemma bytes_eqb_false : forall a b, bytes_eqb a b = false <-> a <> b.
Proof.
  intros a b. split.
  - intros H E. apply bytes_eqb_spec in E. congruence.
  - intros H. destruct (bytes_eqb a b) eqn:E; [|reflexivity].
    apply bytes_eqb_spec in E. contradiction.
Qed.

Lemma bytes_eqb_sym : forall a b, bytes_eqb a b = bytes_eqb b a.
Proof.
  intros a b. destruct (bytes_eqb a b) eqn:E.
  - apply bytes_eqb_spec in E. subst. symmetry. apply bytes_eqb_refl.
  - symmetry. apply bytes_eqb_false. apply bytes_eqb_false in E. congruence.
Qed.

Lemma tbl_get_set : forall n m v t,
  tbl_get n (tbl_set m v t) = if bytes_eqb n m then Some v else tbl_get n t.
Proof.
  intros n m v t. induction t as [|[k' v'] r IH]; cbn.
  - reflexivity.
  - destruct (bytes_eqb m k') eqn:Emk; cbn.
    + apply bytes_eqb_spec in Emk. subst k'.
      destruct (bytes_eqb n m); reflexivity.
    + destruct (bytes_eqb n k') eqn:Enk.
      * apply bytes_eqb_spec in Enk. subst k'.
        rewrite bytes_eqb_sym in Emk. rewrite Emk. reflexivity.
      * exact IH.
Qed.

Lemma tbl_get_in : forall n t, tbl_get n t <> None <-> In n (map fst t).
Proof.
  intros n t. induction t as [|[k v] r IH]; cbn.
  - split; [congruence|tauto].
  - destruct (bytes_eqb n k) eqn:E.
    + apply bytes_eqb_spec in E. subst. split; [auto|congruence].
    + apply bytes_eqb_false in E. rewrite IH. split; [auto|].
      intros [H|H]; [congruence|exact H].
Qed.

Lemma tbl_set_keys : forall m v t x, In x (map fst (tbl_set m v t)) <-> x = m \/ In x (map fst t).
Proof.
  intros m v t x. rewrite <- !tbl_get_in. rewrite tbl_get_set.
  destruct (bytes_eqb x m) eqn:E.
  - apply bytes_eqb_spec in E. split; [auto|congruence].
  - apply bytes_eqb_false in E. split; [auto|]. intros [H|H]; [contradiction|exact H].
Qed.

Lemma tbl_set_nodup : forall m v t, NoDup (map fst t) -> NoDup (map fst (tbl_set m v t)).
Proof.
  intros m v t. induction t as [|[k v'] r IH]; cbn; intros H.
  - constructor; [intros []|constructor].
  - inversion H as [|? ? Hn Hr]; subst.
    destruct (bytes_eqb m k) eqn:E; cbn.
    + apply bytes_eqb_spec in E. subst. constructor; assumption.
    + constructor; [|apply IH; exact Hr].
      intros Hin. apply tbl_set_keys in Hin. destruct Hin as [Hin|Hin].
      * apply bytes_eqb_false in E. congruence.
      * contradiction.
Qed.

(* ------------------------------------------------------------------------------------------ *)
(* Part A: the three name tables                                                               *)

(* [o] is an object the loop files in the table of kind [k] *)
Definition tabled (fx : fixes) (k : okind) (o : obj) : bool :=
  let enters := negb (fx_scope fx) || o_pkg_scope o in
  match k, o_kind o with
  | KFunc, KFunc => match o_recv o with None => enters | Some _ => false end
  | KType, KType => enters
  | KConst, KConst => enters
  | _, _ => false
  end.

Lemma step_lookup : forall fx k n t o,
  lookup k n (step fx t o)
  = if tabled fx k o && bytes_eqb n (o_name o) then Some (o_id o) else lookup k n t.
Proof.
  intros fx k n t o. unfold lookup, step, tabled.
  destruct (o_kind o) eqn:Ek; destruct k; cbn [table_of andb];
    try reflexivity;
    try (destruct (negb (fx_scope fx) || o_pkg_scope o); cbn [table_of andb t_types t_consts t_funcs];
         try reflexivity; apply tbl_get_set);
    try (destruct (negb (fx_scope fx) || o_pkg_scope o); reflexivity).
  all: destruct (o_recv o) as [r|].
  all: try (destruct (named_of (recv_shape fx r)); reflexivity).
  all: destruct (negb (fx_scope fx) || o_pkg_scope o); cbn [table_of andb t_types t_consts t_funcs];
       try reflexivity; try apply tbl_get_set.
Qed.

(* the last object of the list that is filed under (k, n) *)
Fixpoint last_match (fx : fixes) (k : okind) (n : bytes) (l : list obj) : option N :=
  match l with
  | [] => None
  | o :: r =>
      match last_match fx k n r with
      | Some x => Some x
      | None => if tabled fx k o && bytes_eqb n (o_name o) then Some (o_id o) else None
      end
  end.

Lemma fold_lookup : forall fx k n l t,
  lookup k n (fold_left (step fx) l t)
  = match last_match fx k n l with Some x => Some x | None => lookup k n t end.
Proof.
  intros fx k n l. induction l as [|o r IH]; intros t; cbn [fold_left last_match].
  - reflexivity.
  - rewrite IH. destruct (last_match fx k n r); [reflexivity|].
    rewrite step_lookup. destruct (tabled fx k o && bytes_eqb n (o_name o)); reflexivity.
Qed.

Definition matches (fx : fixes) (k : okind) (n : bytes) (o : obj) : bool :=
  tabled fx k o && bytes_eqb n (o_name o).

Lemma last_match_some : forall fx k n l x,
  last_match fx k n l = Some x -> exists o, In o l /\ matches fx k n o = true /\ o_id o = x.
Proof.
  intros fx k n l. induction l as [|o r IH]; cbn; intros x H.
  - discriminate.
  - destruct (last_match fx k n r) as [y|] eqn:E.
    + inversion H; subst. destruct (IH x eq_refl) as (o' & Hin & Hm & Hid).
      exists o'. auto.
    + fold (matches fx k n o) in H. destruct (matches fx k n o) eqn:Em; [|discriminate].
      inversion H; subst. exists o. auto.
Qed.

Lemma last_match_none : forall fx k n l,
  last_match fx k n l = None -> forall o, In o l -> matches fx k n o = false.
Proof.
  intros fx k n l. induction l as [|o r IH]; cbn; intros H o' Hin.
  - contradiction.
  - destruct (last_match fx k n r) as [y|] eqn:E; [discriminate|].
    fold (matches fx k n o) in H. destruct (matches fx k n o) eqn:Em; [discriminate|].
    destruct Hin as [->|Hin]; [exact Em|apply IH; auto].
Qed.

(* the declarative side: the package-scope object of kind k named n, as go/types' scope knows it *)
Definition scope_obj (k : okind) (n : bytes) (o : obj) : bool := matches all_fixed k n o.

Definition spec_lookup (k : okind) (n : bytes) (defs : list obj) : option N :=
  match find (scope_obj k n) defs with
  | Some o => Some (o_id o)
  | None => None
  end.

(* a scope holds at most one object per name (go/types; "init" functions are the exception) *)
Definition unique_at (defs : list obj) (k : okind) (n : bytes) : Prop :=
  forall o1 o2, In o1 defs -> In o2 defs -> scope_obj k n o1 = true -> scope_obj k n o2 = true ->
                o_id o1 = o_id o2.

Lemma tables_exact : forall defs pi k n,
  Permutation pi defs -> unique_at defs k n ->
  lookup k n (fill_tables all_fixed pi) = spec_lookup k n defs.
Proof.
  intros defs pi k n Hp Hu. unfold fill_tables. rewrite fold_lookup.
  unfold spec_lookup.
  destruct (last_match all_fixed k n pi) as [x|] eqn:El.
  - apply last_match_some in El. destruct El as (o & Hin & Hm & Hid).
    destruct (find (scope_obj k n) defs) as [o'|] eqn:Ef.
    + apply find_some in Ef. destruct Ef as [Hin' Hm'].
      rewrite <- Hid. f_equal. apply Hu; auto.
      eapply Permutation_in; eauto.
    + exfalso. eapply find_none in Ef; [|eapply Permutation_in; eauto].
      unfold scope_obj in Ef. congruence.
  - cbn. destruct (find (scope_obj k n) defs) as [o'|] eqn:Ef; [|destruct k; reflexivity].
    exfalso. apply find_some in Ef. destruct Ef as [Hin' Hm'].
    eapply last_match_none in El; [|eapply Permutation_in; [apply Permutation_sym; eauto|eauto]].
    unfold scope_obj in Hm'. congruence.
Qed.

Lemma tables_order_independent : forall defs p1 p2 k n,
  Permutation p1 defs -> Permutation p2 defs -> unique_at defs k n ->
  lookup k n (fill_tables all_fixed p1) = lookup k n (fill_tables all_fixed p2).
Proof.
  intros. rewrite (tables_exact defs p1), (tables_exact defs p2); auto.
Qed.

Lemma tabled_fixed_inv : forall k o,
  tabled all_fixed k o = true ->
  o_kind o = k /\ o_pkg_scope o = true /\ (k = KFunc -> o_recv o = None) /\ k <> KOther.
Proof.
  intros k o. unfold tabled. cbn.
  destruct k; destruct (o_kind o); try discriminate.
  - destruct (o_recv o); [discriminate|]. intros H. repeat split; auto; discriminate.
  - intros H. repeat split; auto; discriminate.
  - intros H. repeat split; auto; discriminate.
Qed.

(* never a function-local declaration, a type parameter or a blank: needs no uniqueness *)
Lemma tables_only_package_scope : forall defs k n x,
  lookup k n (fill_tables all_fixed defs) = Some x ->
  exists o, In o defs /\ o_id o = x /\ o_kind o = k /\ o_name o = n /\ o_pkg_scope o = true
            /\ (k = KFunc -> o_recv o = None).
Proof.
  intros defs k n x H. unfold fill_tables in H. rewrite fold_lookup in H.
  destruct (last_match all_fixed k n defs) as [y|] eqn:El.
  - inversion H; subst. apply last_match_some in El. destruct El as (o & Hin & Hm & Hid).
    unfold matches in Hm. apply andb_true_iff in Hm. destruct Hm as [Ht Hn].
    apply bytes_eqb_spec in Hn. apply tabled_fixed_inv in Ht.
    destruct Ht as (Hk & Hs & Hr & _). exists o. repeat split; auto.
  - destruct k; discriminate.
Qed.

(* the key set of each table: exactly the names of the package-scope objects of that kind *)
Lemma tables_keys : forall defs pi k n,
  Permutation pi defs ->
  (In n (map fst (table_of k (fill_tables all_fixed pi))) <-> exists o, In o defs /\ scope_obj k n o = true).
Proof.
  intros defs pi k n Hp. rewrite <- tbl_get_in. fold (lookup k n (fill_tables all_fixed pi)).
  unfold fill_tables. rewrite fold_lookup. split.
  - intros H. destruct (last_match all_fixed k n pi) as [y|] eqn:El.
    + apply last_match_some in El. destruct El as (o & Hin & Hm & _).
      exists o. split; [eapply Permutation_in; eauto|exact Hm].
    + exfalso. apply H. destruct k; reflexivity.
  - intros (o & Hin & Hm). destruct (last_match all_fixed k n pi) as [y|] eqn:El; [congruence|].
    exfalso. eapply last_match_none in El; [|eapply Permutation_in; [apply Permutation_sym; eauto|eauto]].
    unfold scope_obj in Hm. congruence.
Qed.

Lemma step_nodup : forall fx t o,
  (forall k, NoDup (map fst (table_of k t))) -> forall k, NoDup (map fst (table_of k (step fx t o))).
Proof.
  intros fx t o H k. unfold step.
  destruct (o_kind o); try apply H.
  - destruct (o_recv o) as [r|].
    + destruct (named_of (recv_shape fx r)); [|apply H].
      destruct k; cbn; try apply (H KType); try apply (H KConst); try apply (H KFunc); constructor.
    + destruct (negb (fx_scope fx) || o_pkg_scope o); [|apply H].
      destruct k; cbn; try apply (H KType); try apply (H KConst); try constructor.
      apply tbl_set_nodup. apply (H KFunc).
  - destruct (negb (fx_scope fx) || o_pkg_scope o); [|apply H].
    destruct k; cbn; try apply (H KFunc); try apply (H KConst); try constructor.
    apply tbl_set_nodup. apply (H KType).
  - destruct (negb (fx_scope fx) || o_pkg_scope o); [|apply H].
    destruct k; cbn; try apply (H KFunc); try apply (H KType); try constructor.
    apply tbl_set_nodup. apply (H KConst).
Qed.

Lemma tables_nodup : forall fx defs k, NoDup (map fst (table_of k (fill_tables fx defs))).
Proof.
  intros fx defs. unfold fill_tables.
  assert (G : forall l t, (forall k, NoDup (map fst (table_of k t))) ->
                          forall k, NoDup (map fst (table_of k (fold_left (step fx) l t)))).
  { induction l as [|o r IH]; intros t Ht k; cbn [fold_left]; [apply Ht|].
    apply IH. apply step_nodup. exact Ht. }
  apply G. intros k. destruct k; cbn; constructor.
Qed.

(* ------------------------------------------------------------------------------------------ *)
(* Part B: MethodsOf                                                                           *)

Lemma mtbl_get_app : forall key k x m,
  mtbl_get key (mtbl_app k x m) = if N.eqb key k then mtbl_get key m ++ [x] else mtbl_get key m.
Proof.
  intros key k x m. induction m as [|[k' v] r IH]; cbn.
  - destruct (N.eqb key k); reflexivity.
  - destruct (N.eqb k k') eqn:Ekk; cbn.
    + apply N.eqb_eq in Ekk. subst k'. destruct (N.eqb key k); reflexivity.
    + destruct (N.eqb key k') eqn:Ek'.
      * apply N.eqb_eq in Ek'. subst k'. rewrite N.eqb_sym in Ekk. rewrite Ekk. reflexivity.
      * exact IH.
Qed.

(* [o] is a method the loop files under [key] *)
Definition method_of (fx : fixes) (key : N) (o : obj) : bool :=
  match o_kind o, o_recv o with
  | KFunc, Some r =>
      match named_of (recv_shape fx r) with
      | Some n => N.eqb key (mkey fx n)
      | None => false
      end
  | _, _ => false
  end.

Lemma step_methods : forall fx key t o,
  mtbl_get key (t_methods (step fx t o))
  = mtbl_get key (t_methods t) ++ (if method_of fx key o then [o] else []).
Proof.
  intros fx key t o. unfold step, method_of.
  destruct (o_kind o); cbn.
  - destruct (o_recv o) as [r|].
    + destruct (named_of (recv_shape fx r)) as [n|]; cbn.
      * rewrite mtbl_get_app. destruct (N.eqb key (mkey fx n)); [reflexivity|].
        rewrite app_nil_r. reflexivity.
      * rewrite app_nil_r. reflexivity.
    + destruct (negb (fx_scope fx) || o_pkg_scope o); cbn; rewrite app_nil_r; reflexivity.
  - destruct (negb (fx_scope fx) || o_pkg_scope o); cbn; rewrite app_nil_r; reflexivity.
  - destruct (negb (fx_scope fx) || o_pkg_scope o); cbn; rewrite app_nil_r; reflexivity.
  - rewrite app_nil_r. reflexivity.
Qed.

Lemma fold_methods : forall fx key l t,
  mtbl_get key (t_methods (fold_left (step fx) l t))
  = mtbl_get key (t_methods t) ++ filter (method_of fx key) l.
Proof.
  intros fx key l. induction l as [|o r IH]; intros t; cbn [fold_left filter].
  - rewrite app_nil_r. reflexivity.
  - rewrite IH, step_methods, <- app_assoc. destruct (method_of fx key o); reflexivity.
Qed.

Lemma Permutation_filter' : forall {A} (f : A -> bool) l l',
  Permutation l l' -> Permutation (filter f l) (filter f l').
Proof.
  intros A f l l' H. induction H; cbn.
  - constructor.
  - destruct (f x); [constructor|]; assumption.
  - destruct (f x); destruct (f y); try apply perm_swap; try apply Permutation_refl.
  - eapply Permutation_trans; eauto.
Qed.

Lemma filter_filter : forall {A} (f g : A -> bool) l,
  filter g (filter f l) = filter (fun x => f x && g x) l.
Proof.
  intros A f g l. induction l as [|x r IH]; cbn; [reflexivity|].
  destruct (f x); cbn; [destruct (g x); cbn; rewrite IH; reflexivity|exact IH].
Qed.

(* declaratively: o is a method declared on the type whose origin is [origin] *)
Definition declared_on (origin : N) (o : obj) : bool := method_of all_fixed origin o.

Definition value_recv (o : obj) : bool :=
  match o_recv o with
  | Some r => negb (is_pointer (rv_unaliased r))
  | None => true
  end.

Lemma methods_exact : forall defs pi n,
  Permutation pi defs ->
  Permutation (methods_of all_fixed (fill_tables all_fixed pi) n true)
              (filter (declared_on (n_origin n)) defs)
  /\ Permutation (methods_of all_fixed (fill_tables all_fixed pi) n false)
                 (filter (fun o => declared_on (n_origin n) o && value_recv o) defs).
Proof.
  intros defs pi n Hp. unfold methods_of, fill_tables. rewrite fold_methods. cbn [t_methods empty_tables mtbl_get app].
  cbn [mkey all_fixed fx_origin]. split.
  - apply Permutation_filter'. exact Hp.
  - rewrite filter_filter. apply Permutation_filter'. exact Hp.
Qed.

(* ------------------------------------------------------------------------------------------ *)
(* Part C: registration and the import tables                                                  *)

Lemma pm_get_set : forall {V} n m (v : V) t,
  pm_get n (pm_set m v t) = if bytes_eqb n m then Some v else pm_get n t.
Proof.
  intros V n m v t. induction t as [|[k' v'] r IH]; cbn.
  - reflexivity.
  - destruct (bytes_eqb m k') eqn:Emk; cbn.
    + apply bytes_eqb_spec in Emk. subst k'.
      destruct (bytes_eqb n m); reflexivity.
    + destruct (bytes_eqb n k') eqn:Enk.
      * apply bytes_eqb_spec in Enk. subst k'.
        rewrite bytes_eqb_sym in Emk. rewrite Emk. reflexivity.
      * exact IH.
Qed.

Lemma pm_get_map : forall {V} (f : path -> V) (l : list (path * path)) k t,
  NoDup (map fst l) -> In (k, t) l ->
  pm_get k (map (fun kt => (fst kt, f (snd kt))) l) = Some (f t).
Proof.
  intros V f l k t. induction l as [|[k' t'] r IH]; cbn; intros Hnd Hin.
  - contradiction.
  - inversion Hnd as [|? ? Hn Hr]; subst.
    destruct Hin as [E|Hin].
    + inversion E; subst. rewrite bytes_eqb_refl. reflexivity.
    + destruct (bytes_eqb k k') eqn:Ek.
      * apply bytes_eqb_spec in Ek. subst k'. exfalso. apply Hn.
        change k with (fst (k, t)). apply in_map. exact Hin.
      * apply IH; assumption.
Qed.

Lemma g_find_some : forall p g nd, g_find p g = Some nd -> g_path nd = p /\ In nd g.
Proof.
  intros p g nd. induction g as [|x r IH]; cbn; intros H.
  - discriminate.
  - destruct (bytes_eqb p (g_path x)) eqn:E.
    + inversion H; subst. apply bytes_eqb_spec in E. auto.
    + destruct (IH H). auto.
Qed.

Lemma heap_get_some : forall id h pv, heap_get id h = Some pv -> In pv h /\ pv_id pv = id.
Proof.
  intros id h pv. induction h as [|x r IH]; cbn; intros H.
  - discriminate.
  - destruct (N.eqb id (pv_id x)) eqn:E.
    + inversion H; subst. apply N.eqb_eq in E. auto.
    + destruct (IH H). auto.
Qed.

Section Register.
  Variable g : graph.
  Variable rk : path -> nat.
  (* the import graph is acyclic: a rank that decreases along every import edge *)
  Hypothesis Hrk : forall p nd k t, g_find p g = Some nd -> In (k, t) (g_imports nd) -> rk t < rk p.
  (* NeedDeps: every imported package is in the graph *)
  Hypothesis Hclosed : forall p nd k t, g_find p g = Some nd -> In (k, t) (g_imports nd) -> g_find t g <> None.
  (* Package.Imports is a map: its keys are distinct *)
  Hypothesis Hkeys : forall p nd, g_find p g = Some nd -> NoDup (map fst (g_imports nd)).
  Variable fx : fixes.
  Hypothesis Hfi : fx_imports fx = true.
  Hypothesis Hfv : fx_vendor fx = true.

  Definition good_entry (s : ustate) (p : path) (id : N) : Prop :=
    exists pv, heap_get id (u_heap s) = Some pv /\ pv_path pv = p /\
      forall nd k t, g_find p g = Some nd -> In (k, t) (g_imports nd) ->
        pm_get k (pv_imports pv) = Some (pm_get t (u_pkgs s)) /\ pm_get t (u_pkgs s) <> None.

  Record inv (s : ustate) : Prop := mk_inv {
    inv_pkgs : forall p id, pm_get p (u_pkgs s) = Some id -> good_entry s p id;
    inv_heap : forall pv, In pv (u_heap s) -> (pv_id pv < u_next s)%N
  }.

  Record ext (B : nat) (s s' : ustate) : Prop := mk_ext {
    ext_pkgs : forall p id, pm_get p (u_pkgs s) = Some id -> pm_get p (u_pkgs s') = Some id;
    ext_new : forall q, pm_get q (u_pkgs s') <> None -> pm_get q (u_pkgs s) <> None \/ rk q < B
  }.

  Lemma ext_refl : forall B s, ext B s s.
  Proof. intros B s. constructor; auto. Qed.

  Lemma ext_trans : forall B1 B2 B s s1 s2,
    ext B1 s s1 -> ext B2 s1 s2 -> B1 <= B -> B2 <= B -> ext B s s2.
  Proof.
    intros B1 B2 B s s1 s2 [P1 N1] [P2 N2] H1 H2. constructor.
    - intros p id H. apply P2. apply P1. exact H.
    - intros q H. destruct (N2 q H) as [H'|H']; [|right; lia].
      destruct (N1 q H') as [H''|H'']; [left; exact H''|right; lia].
  Qed.

  Lemma ext_reg : forall B s s' t, ext B s s' -> pm_get t (u_pkgs s) <> None -> pm_get t (u_pkgs s') <> None.
  Proof.
    intros B s s' t [P _] H. destruct (pm_get t (u_pkgs s)) as [id|] eqn:E; [|congruence].
    rewrite (P t id E). discriminate.
  Qed.

  Lemma inv_empty : inv empty_ustate.
  Proof. constructor; cbn; [discriminate|contradiction]. Qed.

  Lemma register_ok : forall fuel p s,
    inv s -> pm_get p (u_pkgs s) = None -> g_find p g <> None -> rk p < fuel ->
    exists s', register fx g fuel p s = Ok s' /\ inv s' /\ ext (S (rk p)) s s' /\ pm_get p (u_pkgs s') <> None.
  Proof.
    induction fuel as [|fuel IHf]; intros p s Hinv Hnone Hfind Hfuel; [lia|].
    cbn [register]. destruct (g_find p g) as [nd|] eqn:Ef; [|congruence].
    rewrite Hfi. cbn [fst snd].
    set (body := fun (acc : res ustate) (kt : path * path) =>
                   let! a := acc in
                   if registered (snd kt) a then Ok a else register fx g fuel (snd kt) a).
    assert (Hloop : forall l acc, incl l (g_imports nd) -> inv acc ->
              exists s2, fold_left body l (Ok acc) = Ok s2 /\ inv s2 /\ ext (rk p) acc s2
                         /\ forall k t, In (k, t) l -> pm_get t (u_pkgs s2) <> None).
    { induction l as [|[k t] r IHl]; intros acc Hincl Hacc.
      - exists acc. cbn. split; [reflexivity|]. split; [exact Hacc|]. split; [apply ext_refl|]. intros k t [].
      - assert (Hin : In (k, t) (g_imports nd)) by (apply Hincl; left; reflexivity).
        assert (Hr : incl r (g_imports nd)) by (intros x Hx; apply Hincl; right; exact Hx).
        cbn [fold_left]. unfold body at 2. cbn [bind snd]. unfold registered.
        destruct (pm_get t (u_pkgs acc)) as [idt|] eqn:Et.
        + destruct (IHl acc Hr Hacc) as (s2 & Hf & Hi2 & He2 & Hall).
          exists s2. split; [exact Hf|]. split; [exact Hi2|]. split; [exact He2|].
          intros k' t' [E|Hin']; [|eapply Hall; eauto].
          inversion E; subst. eapply ext_reg; eauto. congruence.
        + assert (Hrt : rk t < rk p) by (eapply Hrk; eauto).
          destruct (IHf t acc Hacc Et) as (s1 & Hreg & Hi1 & He1 & Hr1).
          { eapply Hclosed; eauto. }
          { lia. }
          rewrite Hreg.
          destruct (IHl s1 Hr Hi1) as (s2 & Hf & Hi2 & He2 & Hall).
          exists s2. split; [exact Hf|]. split; [exact Hi2|]. split.
          * eapply ext_trans; eauto; lia.
          * intros k' t' [E|Hin']; [|eapply Hall; eauto].
            inversion E; subst. eapply ext_reg; eauto. }
    destruct (Hloop (g_imports nd) s (incl_refl _) Hinv) as (s2 & Hf & Hi2 & He2 & Hall).
    fold body. rewrite Hf. cbn [bind]. unfold new_pkg. rewrite Hfv. cbn [fst snd u_pkgs u_heap u_next].
    destruct (g_find_some _ _ _ Ef) as [Hpath _].
    assert (Hp2 : pm_get p (u_pkgs s2) = None).
    { destruct (pm_get p (u_pkgs s2)) as [x|] eqn:E; [|reflexivity].
      destruct (ext_new _ _ _ He2 p) as [H|H]; [congruence|congruence|lia]. }
    eexists. split; [reflexivity|].
    destruct Hi2 as [Hpk2 Hhp2].
    split; [|split].
    - (* inv *)
      constructor; unfold good_entry; cbn [u_pkgs u_heap u_next].
      + intros q id Hq. rewrite pm_get_set in Hq.
        destruct (bytes_eqb q p) eqn:Eqp.
        * apply bytes_eqb_spec in Eqp. subst q. inversion Hq; subst id.
          eexists. cbn [heap_get pv_id]. rewrite N.eqb_refl. split; [reflexivity|].
          cbn [pv_path pv_imports]. split; [exact Hpath|].
          intros nd' k t Hnd' Hin. rewrite Ef in Hnd'. inversion Hnd'; subst nd'.
          assert (Htp : bytes_eqb t p = false).
          { apply bytes_eqb_false. intros ->. specialize (Hrk _ _ _ _ Ef Hin). lia. }
          rewrite pm_get_set, Htp. split.
          -- apply (pm_get_map (fun t => pm_get t (u_pkgs s2))); [eapply Hkeys; eauto|exact Hin].
          -- eapply Hall; eauto.
        * destruct (Hpk2 q id Hq) as (pv & Hh & Hpp & Htab).
          assert (Hlt : (id < u_next s2)%N).
          { destruct (heap_get_some _ _ _ Hh) as [Hin Hid]. rewrite <- Hid. apply Hhp2. exact Hin. }
          exists pv. cbn [heap_get pv_id].
          assert (Hne : N.eqb id (u_next s2) = false) by (apply N.eqb_neq; lia).
          rewrite Hne. split; [exact Hh|]. split; [exact Hpp|].
          intros nd' k t Hnd' Hin. destruct (Htab nd' k t Hnd' Hin) as [H1 H2].
          assert (Htp : bytes_eqb t p = false).
          { apply bytes_eqb_false. intros ->. congruence. }
          rewrite pm_get_set, Htp. auto.
      + intros pv [E|Hin].
        * subst pv. cbn. lia.
        * specialize (Hhp2 pv Hin). lia.
    - (* ext *)
      constructor; cbn [u_pkgs].
      + intros q id Hq. rewrite pm_get_set.
        destruct (bytes_eqb q p) eqn:Eqp.
        * apply bytes_eqb_spec in Eqp. subst q. congruence.
        * eapply ext_pkgs; eauto.
      + intros q Hq. rewrite pm_get_set in Hq.
        destruct (bytes_eqb q p) eqn:Eqp.
        * apply bytes_eqb_spec in Eqp. subst q. right. lia.
        * destruct (ext_new _ _ _ He2 q Hq) as [H|H]; [left; exact H|right; lia].
    - cbn [u_pkgs]. rewrite pm_get_set, bytes_eqb_refl. discriminate.
  Qed.

  (* the roots come dependencies-first (go list -deps): strictly increasing rank *)
  Lemma load_ok : forall fuel roots s B,
    inv s -> (forall q, pm_get q (u_pkgs s) <> None -> rk q < B) ->
    (forall r, In r roots -> B <= rk r /\ rk r < fuel /\ g_find r g <> None) ->
    StronglySorted (fun a b => rk a < rk b) roots ->
    exists s', fold_left (fun (acc : res ustate) r => let! a := acc in register fx g fuel r a) roots (Ok s) = Ok s'
               /\ inv s' /\ (forall r, In r roots -> pm_get r (u_pkgs s') <> None)
               /\ (forall p, pm_get p (u_pkgs s) <> None -> pm_get p (u_pkgs s') <> None).
  Proof.
    intros fuel roots. induction roots as [|r rs IH]; intros s B Hinv HB Hroots Hsorted.
    - exists s. cbn. split; [reflexivity|]. split; [exact Hinv|]. split; [intros r []|auto].
    - cbn [fold_left bind].
      destruct (Hroots r (or_introl eq_refl)) as (HBr & Hfr & Hgr).
      assert (Hnone : pm_get r (u_pkgs s) = None).
      { destruct (pm_get r (u_pkgs s)) as [x|] eqn:E; [|reflexivity].
        assert (rk r < B) by (apply HB; congruence). lia. }
      destruct (register_ok fuel r s Hinv Hnone Hgr Hfr) as (s1 & Hreg & Hi1 & He1 & Hr1).
      rewrite Hreg.
      inversion Hsorted as [|? ? Hs' Hall]; subst.
      destruct (IH s1 (S (rk r)) Hi1) as (s' & Hf & Hi' & Hrs & Hkeep).
      + intros q Hq. destruct (ext_new _ _ _ He1 q Hq) as [H|H]; [|exact H].
        specialize (HB q H). lia.
      + intros r' Hr'. destruct (Hroots r' (or_intror Hr')) as (_ & H2 & H3).
        repeat split; auto. rewrite Forall_forall in Hall. specialize (Hall r' Hr'). lia.
      + exact Hs'.
      + exists s'. split; [exact Hf|]. split; [exact Hi'|]. split.
        * intros r' [E|Hr']; [subst r'; apply Hkeep; exact Hr1|apply Hrs; exact Hr'].
        * intros p Hp. apply Hkeep. eapply ext_reg; eauto.
  Qed.

  Theorem imports_total : forall roots,
    (forall r, In r roots -> g_find r g <> None) ->
    StronglySorted (fun a b => rk a < rk b) roots ->
    exists n, forall fuel, n <= fuel ->
      exists s, load fx g fuel roots = Ok s
        /\ (forall r, In r roots -> universe_package s r <> None)
        /\ forall p nd k t, universe_package s p <> None -> g_find p g = Some nd -> In (k, t) (g_imports nd) ->
             imports_entry s p k = Some (universe_package s t) /\ universe_package s t <> None.
  Proof.
    intros roots Hroots Hsorted. exists (S (list_max (map rk roots))). intros fuel Hfuel.
    destruct (load_ok fuel roots empty_ustate 0 inv_empty) as (s & Hl & Hi & Hr & _).
    - cbn. intros q H. congruence.
    - intros r Hr. repeat split; [lia| |apply Hroots; exact Hr].
      assert (rk r <= list_max (map rk roots)); [|lia].
      pose proof (list_max_le (map rk roots) (list_max (map rk roots))) as [H _].
      specialize (H (le_n _)). rewrite Forall_forall in H. apply H. apply in_map. exact Hr.
    - exact Hsorted.
    - exists s. split; [exact Hl|]. split; [exact Hr|].
      intros p nd k t Hp Hnd Hin. unfold universe_package in *. unfold imports_entry, universe_package.
      destruct (pm_get p (u_pkgs s)) as [id|] eqn:E; [|congruence].
      destruct (inv_pkgs _ Hi p id E) as (pv & Hh & _ & Htab).
      rewrite Hh. apply (Htab nd k t Hnd Hin).
  Qed.
End Register.

(* ------------------------------------------------------------------------------------------ *)
(* Part D: SourceDir and LocateInPackage                                                       *)

Lemma skipn_length_app : forall {A} (a b : list A), skipn (length a) (a ++ b) = b.
Proof. intros A a b. induction a as [|x a IH]; cbn; [reflexivity|exact IH]. Qed.

Section Dirs.
  Variable join : bytes -> bytes -> bytes.

  (* the go command's layout: the package with import path <module path><suffix> of a module rooted
     at <module dir> lives in <module dir> when the suffix is empty, else in Join(<module dir>, <suffix>) *)
  Definition layout (p : pinfo) (dir : bytes) : Prop :=
    match pi_module p with
    | None => True
    | Some m => exists suf, pi_path p = m_path m ++ suf
                            /\ dir = (if is_nil suf then m_dir m else join (m_dir m) suf)
    end.

  Lemma source_dir_ok : forall p dir,
    pi_module p <> None -> layout p dir -> source_dir join p = Ok dir.
  Proof.
    intros p dir Hm Hl. unfold layout in Hl. unfold source_dir.
    destruct (pi_module p) as [m|]; [|congruence].
    destruct Hl as (suf & Hp & Hd). rewrite Hp.
    destruct (bytes_eqb (m_path m ++ suf) (m_path m)) eqn:E.
    - apply bytes_eqb_spec in E. rewrite <- (app_nil_r (m_path m)) in E at 2.
      apply app_inv_head in E. subst suf. cbn in Hd. congruence.
    - destruct suf as [|c suf].
      + rewrite app_nil_r, bytes_eqb_refl in E. discriminate.
      + cbn [is_nil] in Hd. rewrite app_length.
        assert (Hle : Nat.leb (length (m_path m)) (length (m_path m) + length (c :: suf)) = true)
          by (apply Nat.leb_le; lia).
        rewrite Hle, skipn_length_app. congruence.
  Qed.

  Lemma source_dir_no_module : forall p, pi_module p = None -> source_dir join p = Ok [].
  Proof. intros p H. unfold source_dir. rewrite H. reflexivity. Qed.

  (* LocateInPackage, for every order in which the map of packages is visited *)
  Lemma locate_ok : forall (pkgs : list (pinfo * bytes)),
    (forall p d, In (p, d) pkgs -> layout p d) ->
    (forall p d, In (p, d) pkgs -> pi_module p <> None -> d <> []) ->
    (forall p1 d p2, In (p1, d) pkgs -> In (p2, d) pkgs -> pi_module p1 <> None -> pi_module p2 <> None ->
                     pi_path p1 = pi_path p2) ->
    forall order, Permutation order (map fst pkgs) ->
    forall p d, In (p, d) pkgs -> pi_module p <> None ->
      locate join order d = Ok (Some (pi_path p)).
  Proof.
    intros pkgs Hlay Hne Hinj order Hperm p d Hin Hmod.
    assert (Hp : In p order).
    { eapply Permutation_in; [apply Permutation_sym; exact Hperm|].
      change p with (fst (p, d)). apply in_map. exact Hin. }
    assert (Hall : forall q, In q order -> exists dq, In (q, dq) pkgs).
    { intros q Hq. eapply Permutation_in in Hq; [|exact Hperm].
      apply in_map_iff in Hq. destruct Hq as ([q' dq] & E & Hq). cbn in E. subst q'. exists dq. exact Hq. }
    clear Hperm. induction order as [|q r IH]; [contradiction|].
    cbn [locate].
    destruct (Hall q (or_introl eq_refl)) as (dq & Hq).
    destruct (pi_module q) as [mq|] eqn:Emq.
    - rewrite (source_dir_ok q dq); [|congruence|apply Hlay; exact Hq]. cbn [bind].
      destruct (bytes_eqb d dq) eqn:E.
      + apply bytes_eqb_spec in E. subst dq. f_equal. f_equal.
        apply (Hinj q d p); auto. congruence.
      + destruct Hp as [->|Hp].
        * assert (dq = d).
          { assert (H1 : source_dir join p = Ok dq) by (apply source_dir_ok; [congruence|apply Hlay; exact Hq]).
            assert (H2 : source_dir join p = Ok d) by (apply source_dir_ok; [congruence|apply Hlay; exact Hin]).
            congruence. }
          subst dq. rewrite bytes_eqb_refl in E. discriminate.
        * apply IH; [exact Hp|]. intros q' Hq'. apply Hall. right. exact Hq'.
    - rewrite (source_dir_no_module q Emq). cbn [bind].
      assert (Hd : bytes_eqb d [] = false).
      { apply bytes_eqb_false. eapply Hne; eauto. }
      rewrite Hd. destruct Hp as [->|Hp]; [congruence|].
      apply IH; [exact Hp|]. intros q' Hq'. apply Hall. right. exact Hq'.
  Qed.
End Dirs.

(* ------------------------------------------------------------------------------------------ *)
(* refutations: the loop without the repairs                                                   *)

Local Open Scope N_scope.

(* package-level  type T  and  func F[T any]: the type parameter T is also a *types.TypeName in Defs *)
Definition ex_T_pkg := mk_obj 1 KType (bs "T") true None.
Definition ex_T_tparam := mk_obj 2 KType (bs "T") false None.
Definition ex_F := mk_obj 3 KFunc (bs "F") true None.
Definition ex_defs := [ex_T_pkg; ex_F; ex_T_tparam].

Lemma tables_order_dependent_before_fix :
  exists defs p1 p2 k n,
    Permutation p1 defs /\ Permutation p2 defs /\ unique_at defs k n
    /\ lookup k n (fill_tables unfixed p1) <> lookup k n (fill_tables unfixed p2).
Proof.
  exists ex_defs, ex_defs, [ex_T_tparam; ex_F; ex_T_pkg], KType, (bs "T").
  split; [apply Permutation_refl|]. split.
  - change [ex_T_tparam; ex_F; ex_T_pkg] with (rev ex_defs). apply Permutation_sym, Permutation_rev.
  - split.
    + intros o1 o2 H1 H2 M1 M2. cbn in H1, H2.
      destruct H1 as [<-|[<-|[<-|[]]]]; destruct H2 as [<-|[<-|[<-|[]]]];
        try reflexivity; vm_compute in M1; vm_compute in M2; discriminate.
    + vm_compute. discriminate.
Qed.

Lemma tables_local_before_fix :
  exists defs k n x o,
    lookup k n (fill_tables unfixed defs) = Some x /\ In o defs /\ o_id o = x /\ o_pkg_scope o = false.
Proof.
  exists ex_defs, KType, (bs "T"), 2, ex_T_tparam. repeat split; try reflexivity.
  cbn. auto.
Qed.

(* type G[E any] struct{}; func (g *G[E]) P(); func (g G[E]) V(): each receiver is its own instance of G *)
Definition ex_P := mk_obj 4 KFunc (bs "P") false
  (Some (mk_recv (TPointer (Some (mk_nref 11 10))) (TPointer (Some (mk_nref 11 10))))).
Definition ex_V := mk_obj 5 KFunc (bs "V") false
  (Some (mk_recv (TNamed (mk_nref 12 10)) (TNamed (mk_nref 12 10)))).

Lemma methods_generic_before_fix :
  exists defs n,
    filter (declared_on (n_origin n)) defs <> []
    /\ methods_of (mk_fixes true false true true true) (fill_tables (mk_fixes true false true true true) defs) n true = [].
Proof.
  exists [ex_P; ex_V], (mk_nref 10 10). split; [vm_compute; discriminate|reflexivity].
Qed.

(* type T struct{}; type A = T; func (A) AM(): the receiver's type is a *types.Alias *)
Definition ex_AM := mk_obj 6 KFunc (bs "AM") false (Some (mk_recv TOther (TNamed (mk_nref 20 20)))).

Lemma methods_alias_before_fix :
  exists defs n,
    filter (declared_on (n_origin n)) defs <> []
    /\ methods_of (mk_fixes true true false true true) (fill_tables (mk_fixes true true false true true) defs) n true = [].
Proof.
  exists [ex_AM], (mk_nref 20 20). split; [vm_compute; discriminate|reflexivity].
Qed.

(* root m imports a: newPkg(m) ran before a was registered *)
Definition ex_graph := [mk_gnode (bs "m") [(bs "a", bs "a")]; mk_gnode (bs "a") []].

Lemma imports_nil_before_fix :
  exists g roots s, load (mk_fixes true true true false true) g 3 roots = Ok s
                    /\ imports_entry s (bs "m") (bs "a") = Some None.
Proof.
  exists ex_graph, [bs "m"]. eexists. split; [vm_compute; reflexivity|vm_compute; reflexivity].
Qed.

(* std packages import vendored packages under a path that is not the imported package's PkgPath *)
Definition ex_vendor_graph := [mk_gnode (bs "net") [(bs "x/dns", bs "vendor/x/dns")]; mk_gnode (bs "vendor/x/dns") []].

Lemma imports_vendored_nil_before_fix :
  exists g roots s, load (mk_fixes true true true true false) g 3 roots = Ok s
                    /\ imports_entry s (bs "net") (bs "x/dns") = Some None.
Proof.
  exists ex_vendor_graph, [bs "net"]. eexists. split; [vm_compute; reflexivity|vm_compute; reflexivity].
Qed.

(* the hypothesis on the order of the roots is needed: a root registered as a dependency of an
   earlier root is registered again, and the earlier root keeps the first Package value *)
Lemma imports_need_root_order :
  exists g roots s, load all_fixed g 3 roots = Ok s
                    /\ imports_entry s (bs "m") (bs "a") = Some (Some 0)
                    /\ universe_package s (bs "a") = Some 2.
Proof.
  exists ex_graph, [bs "m"; bs "a"]. eexists. split; [vm_compute; reflexivity|].
  split; vm_compute; reflexivity.
Qed.
