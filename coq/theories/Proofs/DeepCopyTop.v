(* C17: the composed statements, boolean checkers for their hypotheses, and the witnesses. *)
Require Import Gengo.Base.Bytes Gengo.Model.DeepCopy Gengo.Proofs.DeepCopy Gengo.Proofs.DeepCopySem.
Require Import Coq.Arith.PeanoNat.

(* ---- decidable versions of the hypotheses (evaluated on every generated case by Corr/C17.v) ---- *)

Fixpoint nodupb (l : list bytes) : bool :=
  match l with
  | [] => true
  | x :: r => negb (existsb (bytes_eqb x) r) && nodupb r
  end.

Lemma nodupb_sound : forall l, nodupb l = true -> NoDup l.
Proof.
  induction l as [|x r IH]; intros H; [constructor|]. cbn in H. apply andb_true_iff in H. destruct H as [H1 H2].
  constructor; [|apply IH; exact H2]. intros Hin. apply negb_true_iff in H1.
  assert (existsb (bytes_eqb x) r = true); [|congruence]. apply existsb_exists. exists x. split; [exact Hin|apply bytes_eqb_refl].
Qed.

Definition field_dom_b (G : pkg) (ft : bytes * fty) : bool :=
  match snd ft with
  | FNamed c _ => match lookup G c with Some _ => true | None => false end
  | FForeign ms =>
      match field_stmt all_fixed G [] (fst ft) (FForeign ms) with
      | Ok (SAssign g, None) => bytes_eqb g (fst ft)
      | _ => false
      end
  | _ => true
  end.

Definition decl_dom_b (G : pkg) (d : decl) : bool :=
  snd (scan (d_hand d)) &&
  match d_kind d with
  | DStruct _ fs => nodupb (map fst fs) && forallb (field_dom_b G) fs
  | _ => true
  end.

Definition dom_b (G : pkg) : bool := forallb (decl_dom_b G) (p_decls G).

Lemma find_decl_in : forall ds n d, find_decl ds n = Some d -> In d ds.
Proof.
  induction ds as [|x ds IH]; intros n d H; cbn in H; [discriminate|].
  destruct (bytes_eqb (d_name x) n); [inversion H; left; reflexivity|right; eauto].
Qed.

Lemma dom_b_sound : forall G, dom_b G = true -> dom G.
Proof.
  intros G H. unfold dom_b in H. rewrite forallb_forall in H. split.
  - intros n d Hl. apply find_decl_in in Hl. apply H in Hl. unfold decl_dom_b in Hl.
    apply andb_true_iff in Hl. tauto.
  - intros n d tp fs Hl Hk. apply find_decl_in in Hl. apply H in Hl. unfold decl_dom_b in Hl. rewrite Hk in Hl.
    apply andb_true_iff in Hl. destruct Hl as [_ Hl]. apply andb_true_iff in Hl. destruct Hl as [Hn Hf].
    rewrite forallb_forall in Hf. split; [apply nodupb_sound; exact Hn|]. split.
    + intros f c args Hin. apply Hf in Hin. unfold field_dom_b in Hin. cbn [snd] in Hin.
      destruct (lookup G c); [discriminate|discriminate].
    + intros f ms Hin. apply Hf in Hin. unfold field_dom_b in Hin. cbn [snd fst] in Hin.
      destruct (field_stmt all_fixed G [] f (FForeign ms)) as [[s o]| |]; try discriminate.
      destruct s; try discriminate. destruct o; try discriminate. apply bytes_eqb_spec in Hin. subst. reflexivity.
Qed.

Definition ranked_b (G : pkg) (r : bytes -> nat) : bool :=
  forallb (fun d => match d_kind d with
                    | DStruct _ fs => forallb (fun ft => match snd ft with
                                                         | FNamed c _ => Nat.ltb (r c) (r (d_name d))
                                                         | _ => true end) fs
                    | _ => true
                    end) (p_decls G).

Lemma ranked_b_sound : forall G r, ranked_b G r = true -> ranked G r.
Proof.
  intros G r H n d tp fs f c args Hl Hk Hin. unfold ranked_b in H. rewrite forallb_forall in H.
  pose proof (lookup_name _ _ _ Hl) as Hn. apply find_decl_in in Hl. apply H in Hl. rewrite Hk in Hl.
  rewrite forallb_forall in Hl. apply Hl in Hin. cbn [snd] in Hin. apply Nat.ltb_lt in Hin. rewrite Hn in Hin. exact Hin.
Qed.

(* ---- the composed statements ---- *)

Lemma copy_correct : forall G order fuel vis ms,
  dom G -> vis_ok G vis -> gen_deepcopy fuel all_fixed G order vis = Ok ms ->
  forall n d args v h,
    In n order -> lookup G n = Some d -> enabled G d = true ->
    (d_kind d = DScalar \/ exists tp fs, d_kind d = DStruct tp fs) ->
    wt G h (FNamed n args) v ->
    forall fuel', vdepth v < fuel' ->
    exists v' t,
      exec_copy fuel' G ms n v h = Ok (v', h ++ t) /\
      snapshot (h ++ t) v' = snapshot h v /\
      (forall a, In a (locs v') -> List.length h <= a < List.length (h ++ t)) /\
      (forall a c, In a (locs v') -> snapshot (write (h ++ t) a c) v = snapshot h v).
Proof.
  intros G order fuel vis ms Hdom Hv Hgen n d args v h Hin Hl He Hk Hw fuel' Hd.
  destruct (gen_well_formed G fuel order vis ms Hdom Hv Hgen) as [Hcal Hroots _ _ _].
  pose proof (Hroots n d Hin Hl He) as Hr.
  assert (has_ptr_copy ms n = true /\ find_into ms n <> None) as [Hpc Hfi].
  { destruct Hk as [E|[tp [fs E]]]; rewrite E in Hr; exact Hr. }
  destruct (exec_copy_spec G ms Hdom Hcal n args v h d Hw Hl Hk Hpc Hfi fuel' Hd) as [v' [t [Hex [Hsn Hlo]]]].
  exists v', t. split; [exact Hex|]. split; [exact Hsn|]. split; [exact Hlo|].
  intros a c Ha. eapply no_sharing; [eapply wt_valid; exact Hw|exact Hlo|exact Ha].
Qed.

Lemma copy_map_correct : forall G order fuel vis ms,
  dom G -> vis_ok G vis -> gen_deepcopy fuel all_fixed G order vis = Ok ms ->
  forall n d k e args v h,
    In n order -> lookup G n = Some d -> enabled G d = true -> d_kind d = DMap k e ->
    wt G h (FNamed n args) v ->
    exists v' t,
      exec_copy_map ms n v h = Ok (v', h ++ t) /\
      snapshot (h ++ t) v' = snapshot h v /\
      (forall a, In a (locs v') -> List.length h <= a < List.length (h ++ t)) /\
      (forall a c, In a (locs v') -> snapshot (write (h ++ t) a c) v = snapshot h v).
Proof.
  intros G order fuel vis ms Hdom Hv Hgen n d k e args v h Hin Hl He Hk Hw.
  destruct (gen_well_formed G fuel order vis ms Hdom Hv Hgen) as [_ Hroots _ _ _].
  pose proof (Hroots n d Hin Hl He) as Hr. rewrite Hk in Hr.
  destruct (exec_copy_map_spec G ms n args v h k e d Hw Hl Hk Hr) as [v' [t [Hex [Hsn Hlo]]]].
  exists v', t. split; [exact Hex|]. split; [exact Hsn|]. split; [exact Hlo|].
  intros a c Ha. eapply no_sharing; [eapply wt_valid; exact Hw|exact Hlo|exact Ha].
Qed.

(* DeepCopy of nil is nil: the declared method's statements are executed on the nil receiver ([deep_copy],
   [deep_copy_map]: Model/DeepCopy.v); the first statement, the guard, returns nil *)
Lemma nil_copy : forall fuel G ms n h,
  (has_ptr_copy ms n = true -> deep_copy fuel G ms n None h = Ok (None, h)) /\
  (has_map_methods ms n = true -> deep_copy_map ms n (VMap None) h = Ok (VMap None, h)).
Proof. intros. split; [apply deep_copy_nil|apply deep_copy_map_nil_guard]. Qed.

(* ... for every enabled type of a generated file *)
Lemma nil_copy_generated : forall G order fuel vis ms,
  dom G -> vis_ok G vis -> gen_deepcopy fuel all_fixed G order vis = Ok ms ->
  forall n d h fuel',
    In n order -> lookup G n = Some d -> enabled G d = true ->
    ((d_kind d = DScalar \/ exists tp fs, d_kind d = DStruct tp fs) -> deep_copy fuel' G ms n None h = Ok (None, h)) /\
    (forall k e, d_kind d = DMap k e -> deep_copy_map ms n (VMap None) h = Ok (VMap None, h)).
Proof.
  intros G order fuel vis ms Hdom Hv Hgen n d h fuel' Hin Hl He.
  destruct (gen_well_formed G fuel order vis ms Hdom Hv Hgen) as [_ Hroots _ _ _].
  pose proof (Hroots n d Hin Hl He) as Hr. split.
  - intros Hk. apply deep_copy_nil. destruct Hk as [E|[tp [fs E]]]; rewrite E in Hr; apply Hr.
  - intros k e Hk. rewrite Hk in Hr. apply deep_copy_map_nil_guard. exact Hr.
Qed.

(* the statement-wise execution and the non-nil paths the copy theorems are stated on are one *)
Lemma deep_copy_is_method_body : forall fuel G ms n,
  (forall v h, deep_copy fuel G ms n (Some v) h = let! (v', h') := exec_copy fuel G ms n v h in Ok (Some v', h')) /\
  (forall l h, has_map_methods ms n = true -> cell_is_map h l ->
               deep_copy_map ms n (VMap l) h = exec_copy_map ms n (VMap l) h).
Proof. intros. split; [intros; apply deep_copy_some|intros; apply deep_copy_map_is_exec_copy_map; assumption]. Qed.

Lemma every_run_well_formed : forall G fuel order k ms,
  dom G -> run fuel all_fixed G order k = Ok ms -> well_formed G order ms.
Proof.
  intros G fuel order k ms Hdom H. destruct k as [|k]; cbn [run] in H.
  - eapply gen_well_formed_first; eassumption.
  - apply bind_ok in H. destruct H as [prev [Hp H]].
    eapply gen_well_formed; [exact Hdom| |exact H].
    destruct k; cbn [run] in Hp; [eapply gen_deepcopy_vis_ok; exact Hp|].
    apply bind_ok in Hp. destruct Hp as [pp [_ Hp]]. eapply gen_deepcopy_vis_ok; exact Hp.
Qed.

(* ---- witnesses ---- *)

Definition tagged (n : string) (k : dkind) : decl := mk_decl (bs n) k true None [].
Definition untagged (n : string) (k : dkind) : decl := mk_decl (bs n) k false None [].

(* type S struct { A int; E error } *)
Definition w_error : pkg := mk_pkg false [tagged "S" (DStruct [] [(bs "A", FBasic (bs "int")); (bs "E", FError)])].

(* type M map[string]int; type S struct { F M } *)
Definition w_map : pkg := mk_pkg false
  [tagged "M" (DMap (bs "string") (bs "int")); tagged "S" (DStruct [] [(bs "F", FNamed (bs "M") [])])].

(* type Dep struct { X []int } (no tag); type Root struct { D Dep } *)
Definition w_dep : pkg := mk_pkg false
  [untagged "Dep" (DStruct [] [(bs "X", FSlice (EBasic (bs "int")))]);
   tagged "Root" (DStruct [] [(bs "D", FNamed (bs "Dep") [])])].

(* type Box[T any] struct { V T }; type Root struct { B Box[int] } *)
Definition w_generic : pkg := mk_pkg false
  [tagged "Box" (DStruct [bs "T"] [(bs "V", FTParam (bs "T"))]);
   tagged "Root" (DStruct [] [(bs "B", FNamed (bs "Box") [bs "int"])])].

(* type NI interface{...}; type Root struct { I NI; S []string } *)
Definition w_iface : pkg := mk_pkg false
  [untagged "NI" DIface;
   tagged "Root" (DStruct [] [(bs "I", FNamed (bs "NI") []); (bs "S", FSlice (EBasic (bs "string")))])].

(* +gengo:deepcopy:interfaces=Object on type M map[int]string *)
Definition w_mapobj : pkg := mk_pkg false
  [mk_decl (bs "M") (DMap (bs "int") (bs "string")) false (Some (bs "Object")) []; untagged "Object" DIface].

(* everything at once, nesting depth 3 *)
Definition w_all : pkg := mk_pkg false
  [tagged "Box" (DStruct [bs "T"] [(bs "V", FTParam (bs "T")); (bs "S", FSlice (EBasic (bs "int")))]);
   untagged "Dep" (DStruct [] [(bs "X", FSlice (EBasic (bs "int"))); (bs "M", FNamed (bs "M") [])]);
   tagged "M" (DMap (bs "string") (bs "int"));
   untagged "N" DScalar;
   untagged "NI" DIface;
   mk_decl (bs "Root") (DStruct [] [(bs "A", FBasic (bs "int")); (bs "D", FNamed (bs "Dep") []);
                                    (bs "B", FNamed (bs "Box") [bs "int"]); (bs "I", FNamed (bs "NI") []);
                                    (bs "E", FError); (bs "N", FNamed (bs "N") []);
                                    (bs "Q", FMap (bs "string") (EBasic (bs "bool")))])
           true (Some (bs "Object")) [];
   untagged "Object" DIface].

Definition w_all_order : list bytes := [bs "Box"; bs "Dep"; bs "M"; bs "N"; bs "NI"; bs "Object"; bs "Root"].

Definition w_all_rank (n : bytes) : nat :=
  if bytes_eqb n (bs "Root") then 2 else if bytes_eqb n (bs "Dep") then 1 else if bytes_eqb n (bs "Box") then 1 else 0.

(* a Root value: D.X -> cell 0, D.M -> cell 1, B.S -> cell 2, Q -> cell 3 *)
Definition w_heap : heap := [CSlice [1; 2; 3]%N; CMap [(7, 70)]%N; CSlice [9]%N; CMap [(4, 1); (5, 0)]%N].
Definition w_value : value :=
  VStruct [(bs "A", VScalar 42);
           (bs "D", VStruct [(bs "X", VSlice (Some 0)); (bs "M", VMap (Some 1))]);
           (bs "B", VStruct [(bs "V", VScalar 5); (bs "S", VSlice (Some 2))]);
           (bs "I", VIface 3); (bs "E", VIface 0); (bs "N", VScalar 8);
           (bs "Q", VMap (Some 3))].

Lemma before_fix_error_crash :
  gen_deepcopy 8 no_fix w_error [bs "S"] [] = Panic.
Proof. vm_compute. reflexivity. Qed.

Lemma before_fix_named_map_rerun :
  run 8 no_fix w_map [bs "M"; bs "S"] 0 <> run 8 no_fix w_map [bs "M"; bs "S"] 1.
Proof. intros H. vm_compute in H. discriminate. Qed.

Lemma before_fix_untagged_dependency :
  exists ms, gen_deepcopy 8 no_fix w_dep [bs "Dep"; bs "Root"] [] = Ok ms /\
             find_into ms (bs "Root") = Some [SCallInto (bs "D")] /\ find_into ms (bs "Dep") = None.
Proof. eexists. vm_compute. repeat split. Qed.

Lemma before_fix_generic_twice :
  exists ms, gen_deepcopy 8 no_fix w_generic [bs "Box"; bs "Root"] [] = Ok ms /\ ~ NoDup (map method_id ms).
Proof.
  eexists. split; [vm_compute; reflexivity|]. intros H. rewrite NoDup_nth_error in H.
  specialize (H 0 4). cbn in H. assert (0 = 4) by (apply H; [lia|reflexivity]). discriminate.
Qed.

Lemma before_fix_interface_field :
  exists ms, gen_deepcopy 8 no_fix w_iface [bs "NI"; bs "Root"] [] = Ok ms /\
             find_into ms (bs "Root") = Some [SCallInto (bs "I"); SCopySlice (bs "S") (bs "[]string")] /\
             find_into ms (bs "NI") = None.
Proof. eexists. vm_compute. repeat split. Qed.

Lemma before_fix_map_object_receiver :
  exists ms, gen_deepcopy 8 no_fix w_mapobj [bs "M"; bs "Object"] [] = Ok ms /\
             In (MObject (bs "M") [] (bs "Object") true) ms.
Proof. eexists. split; [vm_compute; reflexivity|]. left. reflexivity. Qed.

(* ---- known finding type_argument_with_containers: a bare type-parameter field can only be assigned ----

   type Page[T any] struct { Item T } (no tag); type Labels map[string]string; type Root struct { L Page[Labels] }.
   The hypothesis [wt] of copy_correct gives a type-parameter field a scalar value; with a map type as argument the
   value behind Item is a map.  The repaired generator renders Page[T] from its origin (Item is assigned), so the copy
   holds the SAME cell, and a write through that map of the copy changes the original. *)
Definition w_tparg : pkg := mk_pkg false
  [untagged "Page" (DStruct [bs "T"] [(bs "Item", FTParam (bs "T"))]);
   untagged "Labels" (DMap (bs "string") (bs "string"));
   tagged "Root" (DStruct [] [(bs "L", FNamed (bs "Page") [bs "Labels"])])].

Definition w_tparg_heap : heap := [CMap [(1, 10)]%N].
Definition w_tparg_value : value := VStruct [(bs "L", VStruct [(bs "Item", VMap (Some 0))])].

Lemma type_argument_map_shared :
  dom_b w_tparg = true /\
  exists ms v',
    gen_deepcopy 8 all_fixed w_tparg [bs "Labels"; bs "Page"; bs "Root"] [] = Ok ms /\
    find_into ms (bs "Page") = Some [SAssign (bs "Item")] /\
    exec_copy 4 w_tparg ms (bs "Root") w_tparg_value w_tparg_heap = Ok (v', w_tparg_heap) /\
    snapshot w_tparg_heap v' = snapshot w_tparg_heap w_tparg_value /\
    locs v' = [0] /\
    snapshot (write w_tparg_heap 0 (CMap [])) w_tparg_value <> snapshot w_tparg_heap w_tparg_value.
Proof.
  split; [vm_compute; reflexivity|]. eexists. eexists.
  split; [vm_compute; reflexivity|]. split; [vm_compute; reflexivity|]. split; [vm_compute; reflexivity|].
  split; [vm_compute; reflexivity|]. split; [vm_compute; reflexivity|].
  intros H. vm_compute in H. discriminate.
Qed.
