(* Tables, part C: C12's Package.Doc composed with C16's Context.Doc / runtimedoc generator — what RuntimeDoc()
   returns, stated on the SOURCE comment groups of a layout. *)
Require Import Gengo.Base.Bytes Gengo.Model.Tables.
From Coq Require Import ZArith Permutation.
Require Gengo.Proofs.Comments Gengo.Proofs.GenRuntimeDoc Gengo.Proofs.TablesB.

Module CP := Gengo.Proofs.Comments.
Module RP := Gengo.Proofs.GenRuntimeDoc.
Module TB := Gengo.Proofs.TablesB.

(* the lines Package.Doc returns at a declaration's line = the non-tag lines (stripped) of the stand-alone
   comment group that ends on the line above *)
Lemma doc_lines_at_own : forall evs leads, CS.wf evs leads -> forall d, In d (CS.decls_of evs) ->
  doc_lines_at evs (Cm.p_file (Cm.d_pos d), Cm.p_line (Cm.d_pos d))
  = source_doc leads (Cm.p_file (Cm.d_pos d)) (Cm.p_line (Cm.d_pos d)).
Proof.
  intros evs leads WF d Hd. unfold doc_lines_at, source_doc. cbn [fst snd].
  rewrite (CP.doc_own evs leads WF d Hd).
  destruct (CP.extract_tags_spec [] (CS.doc_lines_above leads (Cm.p_file (Cm.d_pos d)) (Cm.p_line (Cm.d_pos d)))) as (Ho & _).
  exact Ho.
Qed.

Lemma doc_lines_at_name : forall evs leads, CS.wf evs leads -> CS.name_on_continuation_line evs = false ->
  forall d l, In d (CS.decls_of evs) -> In l (Cm.d_names d) ->
  doc_lines_at evs (Cm.p_file (Cm.d_pos d), l) = source_doc leads (Cm.p_file (Cm.d_pos d)) (Cm.p_line (Cm.d_pos d)).
Proof.
  intros evs leads WF Hn d l Hd Hl. rewrite (CP.names_on_first_line evs Hn d l Hd Hl). apply doc_lines_at_own; assumption.
Qed.

Section FromSource.
  Variable evs : list Cm.event.
  Variable G : D.tags.
  Variable docs : list bytes.
  Variable tpos : RD.name -> N * Z.
  Variable fpos : RD.name -> RD.name -> N * Z.

  Notation tyS := (ty_from_source evs G docs tpos fpos).
  Notation pkgS := (package_from_source evs G docs tpos fpos).
  Notation fieldS := (field_from_source evs fpos).

  Lemma pkgS_names : forall p, map RD.t_name (pkgS p) = map RD.t_name p.
  Proof. intros p. unfold package_from_source. rewrite map_map. reflexivity. Qed.

  Lemma has_expose_fieldS : forall tn fs, RD.has_expose (map (fieldS tn) fs) = RD.has_expose fs.
  Proof. intros tn fs. unfold RD.has_expose. induction fs as [|f r IH]; cbn; [reflexivity|]. rewrite IH. reflexivity. Qed.

  Lemma listed_fieldS : forall tn f, RD.listed (fieldS tn f) = RD.listed f.
  Proof. reflexivity. Qed.

  Lemma filter_listed_fieldS : forall tn fs,
    map RD.f_name (filter RD.listed (map (fieldS tn) fs)) = map RD.f_name (filter RD.listed fs).
  Proof.
    intros tn fs. induction fs as [|f r IH]; cbn [map filter]; [reflexivity|].
    rewrite listed_fieldS. destruct (RD.listed f); cbn [map]; rewrite IH; reflexivity.
  Qed.

  (* which types are covered, in source terms: the enabling decision is B's *)
  Lemma covered_from_source : forall t,
    RD.covered (tyS t)
    = enabled_from_source (bs "runtimedoc") G docs evs (fst (tpos (RD.t_name t))) (snd (tpos (RD.t_name t)))
      && RD.t_exported t
      && match RD.t_kind t with
         | RD.TInterface => false
         | RD.TStruct fs => RD.has_expose fs
         | RD.TOther => true
         end.
  Proof.
    intros t. unfold RD.covered, ty_from_source. cbn [RD.t_enabled RD.t_exported RD.t_kind].
    destruct (RD.t_kind t) as [fs| |]; cbn [kind_from_source]; [rewrite has_expose_fieldS|..]; reflexivity.
  Qed.

  Lemma covered_from_source_rule : forall leads t d,
    NoDup (D.keys G) -> CS.wf evs leads -> In d (CS.decls_of evs) ->
    tpos (RD.t_name t) = (Cm.p_file (Cm.d_pos d), Cm.p_line (Cm.d_pos d)) ->
    RD.covered (tyS t)
    = source_rule (bs "runtimedoc") G (map Cm.split_nl docs)
                  (CS.doc_lines_above leads (Cm.p_file (Cm.d_pos d)) (Cm.p_line (Cm.d_pos d)))
      && RD.t_exported t
      && match RD.t_kind t with
         | RD.TInterface => false
         | RD.TStruct fs => RD.has_expose fs
         | RD.TOther => true
         end.
  Proof.
    intros leads t d HG WF Hd Hpos. rewrite covered_from_source, Hpos. cbn [fst snd].
    rewrite (TB.enabled_from_source_rule (bs "runtimedoc") G docs evs leads d HG WF Hd). reflexivity.
  Qed.

  (* RuntimeDoc() of a covered type of a package given as a layout: the non-tag lines of the stand-alone comment
     group that ends on the line above the declaration, leading type name removed *)
  Theorem docs_from_source : forall files leads p t d v,
    CS.wf evs leads -> NoDup (map RD.t_name p) -> In t p ->
    In d (CS.decls_of evs) -> tpos (RD.t_name t) = (Cm.p_file (Cm.d_pos d), Cm.p_line (Cm.d_pos d)) ->
    RD.covered (tyS t) = true ->
    RD.has_embed_ref (pkgS p) (RD.t_name t) = false ->
    RD.run files (RD.gen true true (pkgS p)) v (RD.t_name t) []
    = Ok (Some (RD.doc_of (RD.t_name t) (source_doc leads (Cm.p_file (Cm.d_pos d)) (Cm.p_line (Cm.d_pos d))))).
  Proof.
    intros files leads p t d v WF Hnd Hin Hd Hpos Hcov Hemb.
    pose proof (RP.run_types files (pkgS p) (tyS t) v) as R. cbn [RD.t_name ty_from_source] in R.
    rewrite R.
    - unfold ty_from_source. cbn [RD.t_doc RD.t_name]. rewrite Hpos. rewrite (doc_lines_at_own evs leads WF d Hd). reflexivity.
    - rewrite pkgS_names. exact Hnd.
    - unfold package_from_source. apply in_map. exact Hin.
    - exact Hcov.
    - exact Hemb.
  Qed.

  (* RuntimeDoc(f) for a listed field: the field's own comment group — for the name the field object is
     positioned at, under the negation of C12's known-finding class *)
  Theorem field_docs_from_source : forall files leads p t fs f d l v rest,
    CS.wf evs leads -> CS.name_on_continuation_line evs = false ->
    NoDup (map RD.t_name p) -> In t p -> RD.covered (tyS t) = true ->
    RD.t_kind t = RD.TStruct fs -> NoDup (map RD.f_name (filter RD.listed fs)) -> In f fs -> RD.listed f = true ->
    In d (CS.decls_of evs) -> In l (Cm.d_names d) -> fpos (RD.t_name t) (RD.f_name f) = (Cm.p_file (Cm.d_pos d), l) ->
    RD.run files (RD.gen true true (pkgS p)) v (RD.t_name t) (RD.f_name f :: rest)
    = Ok (Some (RD.doc_of (RD.f_name f) (source_doc leads (Cm.p_file (Cm.d_pos d)) (Cm.p_line (Cm.d_pos d))))).
  Proof.
    intros files leads p t fs f d l v rest WF Hn Hnd Hin Hcov Hk Hfn Hf Hl Hd Hln Hpos.
    pose proof (RP.run_fields_in files (pkgS p) (tyS t) (map (fieldS (RD.t_name t)) fs) (fieldS (RD.t_name t) f) v rest) as R.
    cbn [RD.t_name ty_from_source RD.f_name field_from_source] in R.
    rewrite R.
    - unfold field_from_source. cbn [RD.f_doc RD.f_name]. rewrite Hpos. rewrite (doc_lines_at_name evs leads WF Hn d l Hd Hln). reflexivity.
    - rewrite pkgS_names. exact Hnd.
    - unfold package_from_source. apply in_map. exact Hin.
    - exact Hcov.
    - unfold ty_from_source. cbn [RD.t_kind RD.t_name]. rewrite Hk. reflexivity.
    - rewrite filter_listed_fieldS. exact Hfn.
    - apply in_map. exact Hf.
    - exact Hl.
  Qed.
End FromSource.
