(* Non-vacuity witness for C13_imports (Props/C13.v): a universe of five packages whose import graph,
   rank and root order satisfy ALL hypotheses of the theorem.  The hypotheses are decidable on concrete
   data: [imports_hyps_b] checks them and [imports_hyps_sound] turns the check into the five hypotheses. *)
Require Import Gengo.Base.Bytes Gengo.Model.Universe Gengo.Proofs.Universe.
From Coq Require Import Sorting.Sorted Lia PeanoNat.

Fixpoint nodup_b (l : list bytes) : bool :=
  match l with
  | [] => true
  | x :: r => negb (existsb (bytes_eqb x) r) && nodup_b r
  end.

Lemma nodup_b_sound : forall l, nodup_b l = true -> NoDup l.
Proof.
  induction l as [|x r IH]; cbn; intros H; [constructor|].
  apply andb_true_iff in H. destruct H as [H1 H2]. constructor; [|apply IH; exact H2].
  intros Hin. apply negb_true_iff in H1.
  assert (E : existsb (bytes_eqb x) r = true)
    by (apply existsb_exists; exists x; split; [exact Hin|apply bytes_eqb_refl]).
  congruence.
Qed.

Fixpoint sorted_b (rk : path -> nat) (l : list path) : bool :=
  match l with
  | [] => true
  | a :: r => forallb (fun b => Nat.ltb (rk a) (rk b)) r && sorted_b rk r
  end.

Lemma sorted_b_sound : forall rk l, sorted_b rk l = true -> StronglySorted (fun a b => rk a < rk b) l.
Proof.
  intros rk. induction l as [|a r IH]; cbn; intros H; [constructor|].
  apply andb_true_iff in H. destruct H as [H1 H2]. constructor; [apply IH; exact H2|].
  apply Forall_forall. intros b Hb. rewrite forallb_forall in H1. apply Nat.ltb_lt. apply H1. exact Hb.
Qed.

Definition is_some {A} (o : option A) : bool := match o with Some _ => true | None => false end.

Definition node_ok_b (g : graph) (rk : path -> nat) (nd : gnode) : bool :=
  forallb (fun kt => Nat.ltb (rk (snd kt)) (rk (g_path nd)) && is_some (g_find (snd kt) g)) (g_imports nd)
  && nodup_b (map fst (g_imports nd)).

Definition imports_hyps_b (g : graph) (rk : path -> nat) (roots : list path) : bool :=
  forallb (node_ok_b g rk) g
  && forallb (fun r => is_some (g_find r g)) roots
  && sorted_b rk roots.

Lemma imports_hyps_sound : forall g rk roots,
  imports_hyps_b g rk roots = true ->
  (forall p nd k t, g_find p g = Some nd -> In (k, t) (g_imports nd) -> rk t < rk p) /\
  (forall p nd k t, g_find p g = Some nd -> In (k, t) (g_imports nd) -> g_find t g <> None) /\
  (forall p nd, g_find p g = Some nd -> NoDup (map fst (g_imports nd))) /\
  (forall r, In r roots -> g_find r g <> None) /\
  StronglySorted (fun a b => rk a < rk b) roots.
Proof.
  intros g rk roots H. unfold imports_hyps_b in H.
  apply andb_true_iff in H. destruct H as [H Hs]. apply andb_true_iff in H. destruct H as [Hg Hr].
  rewrite forallb_forall in Hg. rewrite forallb_forall in Hr.
  assert (Hnode : forall p nd, g_find p g = Some nd -> g_path nd = p /\ node_ok_b g rk nd = true).
  { intros p nd Hf. destruct (g_find_some _ _ _ Hf) as [Hp Hin]. split; [exact Hp|apply Hg; exact Hin]. }
  assert (Hedge : forall p nd k t, g_find p g = Some nd -> In (k, t) (g_imports nd) ->
                    rk t < rk p /\ g_find t g <> None).
  { intros p nd k t Hf Hin. destruct (Hnode _ _ Hf) as [Hp Hok]. unfold node_ok_b in Hok.
    apply andb_true_iff in Hok. destruct Hok as [Hok _]. rewrite forallb_forall in Hok.
    specialize (Hok _ Hin). cbn [snd] in Hok. apply andb_true_iff in Hok. destruct Hok as [H1 H2].
    subst p. split; [apply Nat.ltb_lt; exact H1|]. destruct (g_find t g); [discriminate|discriminate]. }
  split; [intros p nd k t Hf Hin; exact (proj1 (Hedge p nd k t Hf Hin))|].
  split; [intros p nd k t Hf Hin; exact (proj2 (Hedge p nd k t Hf Hin))|].
  split.
  { intros p nd Hf. destruct (Hnode _ _ Hf) as [_ Hok]. unfold node_ok_b in Hok.
    apply andb_true_iff in Hok. apply nodup_b_sound. exact (proj2 Hok). }
  split.
  { intros r Hin. specialize (Hr _ Hin). destruct (g_find r g); [discriminate|discriminate]. }
  apply sorted_b_sound. exact Hs.
Qed.

(* The universe:   m  imports a, b and (as std packages do) "x/dns" -> vendor/x/dns;
                   a  imports b and c;   b  imports c;   c and vendor/x/dns import nothing.
   Roots: all five, in go list -deps order (dependencies first). *)
Definition wg : graph :=
  [ mk_gnode (bs "m") [(bs "a", bs "a"); (bs "b", bs "b"); (bs "x/dns", bs "vendor/x/dns")];
    mk_gnode (bs "a") [(bs "b", bs "b"); (bs "c", bs "c")];
    mk_gnode (bs "b") [(bs "c", bs "c")];
    mk_gnode (bs "c") [];
    mk_gnode (bs "vendor/x/dns") [] ].

(* rank = position in go list -deps *)
Definition wg_roots : list path := [bs "c"; bs "b"; bs "a"; bs "vendor/x/dns"; bs "m"].

Fixpoint index_of (p : path) (l : list path) : nat :=
  match l with
  | [] => 0
  | x :: r => if bytes_eqb p x then 0 else S (index_of p r)
  end.
Definition wg_rk (p : path) : nat := index_of p wg_roots.

Lemma wg_hyps_b : imports_hyps_b wg wg_rk wg_roots = true.
Proof. vm_compute. reflexivity. Qed.

Definition wg_hyps := imports_hyps_sound wg wg_rk wg_roots wg_hyps_b.

(* the theorem instantiated *)
Lemma wg_imports_instance :
  exists n, forall fuel, n <= fuel ->
    exists s, load all_fixed wg fuel wg_roots = Ok s
      /\ (forall r, In r wg_roots -> universe_package s r <> None)
      /\ forall p nd k t, universe_package s p <> None -> g_find p wg = Some nd -> In (k, t) (g_imports nd) ->
           imports_entry s p k = Some (universe_package s t) /\ universe_package s t <> None.
Proof.
  destruct wg_hyps as (H1 & H2 & H3 & H4 & H5).
  exact (imports_total wg wg_rk H1 H2 H3 all_fixed eq_refl eq_refl wg_roots H4 H5).
Qed.

(* ... and what it says on this universe, computed: five distinct Package values; every Imports() entry is the
   value Universe.Package returns for the imported package — the vendored one under the key as written *)
Lemma wg_computed :
  exists s, load all_fixed wg 5 wg_roots = Ok s
    /\ map (universe_package s) wg_roots = [Some 0; Some 1; Some 2; Some 3; Some 4]%N
    /\ imports_entry s (bs "m") (bs "a") = Some (Some 2%N)
    /\ imports_entry s (bs "m") (bs "b") = Some (Some 1%N)
    /\ imports_entry s (bs "m") (bs "x/dns") = Some (Some 3%N)
    /\ imports_entry s (bs "m") (bs "vendor/x/dns") = None
    /\ imports_entry s (bs "a") (bs "c") = Some (Some 0%N)
    /\ imports_entry s (bs "b") (bs "c") = Some (Some 0%N).
Proof. eexists. split; [vm_compute; reflexivity|]. vm_compute. repeat split; reflexivity. Qed.

(* the same five roots with m FIRST: the order hypothesis fails (and so does the conclusion: m's entry for a is a
   Package value the universe no longer returns) *)
Lemma wg_wrong_order :
  imports_hyps_b wg wg_rk [bs "m"; bs "c"; bs "b"; bs "a"; bs "vendor/x/dns"] = false /\
  exists s, load all_fixed wg 5 [bs "m"; bs "c"; bs "b"; bs "a"; bs "vendor/x/dns"] = Ok s
    /\ imports_entry s (bs "m") (bs "a") <> Some (universe_package s (bs "a")).
Proof.
  split; [vm_compute; reflexivity|]. eexists. split; [vm_compute; reflexivity|]. vm_compute. discriminate.
Qed.
