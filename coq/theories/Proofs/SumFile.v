(* Lemmas about the byte-level model of pkg/sumfile (Model/SumFile.v): the scanners on well-formed lines,
   sorting, and Load after Bytes. *)
Require Import Gengo.Base.Bytes Gengo.Model.SumFile.
From Coq Require Import Permutation Sorted.

(* ---------- byte facts ---------- *)
Lemma byte_eqb_eq : forall a b, byte_eqb a b = true <-> a = b.
Proof. intros a b. unfold byte_eqb. apply Ascii.eqb_eq. Qed.

Lemma byte_eqb_neq : forall a b, a <> b -> byte_eqb a b = false.
Proof.
  intros a b Hab. destruct (byte_eqb a b) eqn:E; [|reflexivity].
  apply byte_eqb_eq in E. contradiction.
Qed.

Lemma ascii_space_nl : ascii_space nl = true.
Proof. reflexivity. Qed.
Lemma ascii_space_sp : ascii_space sp = true.
Proof. reflexivity. Qed.

Lemma plain_not_space : forall c, plain c = true -> ascii_space c = false.
Proof. intros c Hc. unfold plain in Hc. apply andb_true_iff in Hc. destruct Hc as [Hc _]. now apply negb_true_iff in Hc. Qed.

Lemma plain_neq_nl : forall c, plain c = true -> c <> nl.
Proof. intros c Hc E. subst c. apply plain_not_space in Hc. rewrite ascii_space_nl in Hc. discriminate. Qed.

Lemma plain_neq_sp : forall c, plain c = true -> c <> sp.
Proof. intros c Hc E. subst c. apply plain_not_space in Hc. rewrite ascii_space_sp in Hc. discriminate. Qed.

(* a plain byte never starts a white-space rune, whatever follows *)
Lemma space_width_plain : forall c r, plain c = true -> space_width (c :: r) = 0.
Proof.
  intros c r Hc. unfold space_width. rewrite (plain_not_space c Hc).
  unfold plain in Hc. apply andb_true_iff in Hc. destruct Hc as [_ Hlt]. apply N.ltb_lt in Hlt.
  destruct (N_of_ascii c) as [|p] eqn:E; [reflexivity|].
  (* the four lead bytes are >= 194 *)
  assert (Hp : (N.pos p < 128)%N) by exact Hlt.
  destruct (N.eq_dec (N.pos p) 194) as [E1|N1]; [rewrite E1 in Hp; lia|].
  destruct (N.eq_dec (N.pos p) 225) as [E2|N2]; [rewrite E2 in Hp; lia|].
  destruct (N.eq_dec (N.pos p) 226) as [E3|N3]; [rewrite E3 in Hp; lia|].
  destruct (N.eq_dec (N.pos p) 227) as [E4|N4]; [rewrite E4 in Hp; lia|].
  do 8 (destruct p as [p|p|]; try reflexivity; try (exfalso; lia)).
Qed.

Lemma space_width_ascii_space : forall c r, ascii_space c = true -> space_width (c :: r) = 1.
Proof. intros c r Hc. unfold space_width. rewrite Hc. reflexivity. Qed.

(* ---------- bytes.Lines on newline-terminated blocks ---------- *)
Lemma lines_block : forall body rest,
  ~ In nl body -> lines (body ++ nl :: rest) = (body ++ [nl]) :: lines rest.
Proof.
  induction body as [|c body IH]; intros rest Hn.
  - cbn [app lines]. rewrite (proj2 (byte_eqb_eq nl nl) eq_refl). reflexivity.
  - cbn [app lines]. rewrite byte_eqb_neq.
    + rewrite IH; [reflexivity|]. intros Hin. apply Hn. now right.
    + intros E. apply Hn. left. exact E.
Qed.

Lemma lines_blocks : forall (bodies : list bytes),
  Forall (fun b => ~ In nl b) bodies ->
  lines (flat_map (fun b => b ++ [nl]) bodies) = map (fun b => b ++ [nl]) bodies.
Proof.
  induction bodies as [|b bs IH]; intros HF; [reflexivity|].
  inversion HF as [|? ? Hb Hbs]; subst.
  cbn [flat_map map]. rewrite <- app_assoc. cbn [app].
  rewrite lines_block by exact Hb. rewrite IH by exact Hbs. reflexivity.
Qed.

(* ---------- bytes.Fields on "key value\n" ---------- *)
Lemma fields_go_plain : forall w r cur acc,
  forallb plain w = true ->
  fields_go (w ++ r) 0 cur acc = fields_go r 0 (rev w ++ cur) acc.
Proof.
  induction w as [|c w IH]; intros r cur acc Hw; [reflexivity|].
  cbn [forallb] in Hw. apply andb_true_iff in Hw. destruct Hw as [Hc Hw].
  cbn [app fields_go]. rewrite (space_width_plain c (w ++ r) Hc).
  rewrite IH by exact Hw. cbn [rev]. rewrite <- app_assoc. reflexivity.
Qed.

Lemma fields_go_space1 : forall c r cur acc,
  ascii_space c = true ->
  fields_go (c :: r) 0 cur acc = fields_go r 0 [] (flush cur acc).
Proof. intros c r cur acc Hc. cbn [fields_go]. rewrite (space_width_ascii_space c r Hc). reflexivity. Qed.

Lemma flush_rev_nonempty : forall (w : bytes) acc, w <> [] -> flush (rev w ++ []) acc = w :: acc.
Proof.
  intros w acc Hw. rewrite app_nil_r. unfold flush.
  destruct (rev w) as [|x xs] eqn:E.
  - exfalso. apply Hw. apply (f_equal (@rev _)) in E. rewrite rev_involutive in E. exact E.
  - rewrite <- E. rewrite rev_involutive. reflexivity.
Qed.

Lemma fields_key_value : forall k v,
  token_ok k = true -> forallb plain v = true ->
  fields (k ++ sp :: v ++ [nl]) = if is_nil v then [k] else [k; v].
Proof.
  intros k v Hk Hv. unfold token_ok in Hk. apply andb_true_iff in Hk. destruct Hk as [Hne Hk].
  assert (Hk0 : k <> []) by (destruct k; [discriminate|discriminate]).
  unfold fields. rewrite fields_go_plain by exact Hk.
  rewrite fields_go_space1 by exact ascii_space_sp.
  rewrite flush_rev_nonempty by exact Hk0.
  rewrite fields_go_plain by exact Hv.
  rewrite fields_go_space1 by exact ascii_space_nl.
  cbn [fields_go]. destruct v as [|c v].
  - reflexivity.
  - rewrite flush_rev_nonempty by discriminate. reflexivity.
Qed.

(* ---------- the map ---------- *)
Lemma bytes_eqb_false : forall a b, a <> b -> bytes_eqb a b = false.
Proof.
  intros a b Hab. destruct (bytes_eqb a b) eqn:E; [|reflexivity].
  apply bytes_eqb_spec in E. contradiction.
Qed.

Lemma sum_set_fresh : forall m k v, ~ In k (map fst m) -> sum_set m k v = m ++ [(k, v)].
Proof.
  induction m as [|[k' v'] m IH]; intros k v Hn; [reflexivity|].
  cbn [sum_set]. cbn [map fst In] in Hn.
  rewrite bytes_eqb_false by (intros E; apply Hn; left; exact E).
  rewrite IH by (intros Hin; apply Hn; right; exact Hin). reflexivity.
Qed.

Lemma sum_get_app_fresh : forall m k v k', sum_get (m ++ [(k, v)]) k' =
  match sum_get m k' with Some x => Some x | None => if bytes_eqb k k' then Some v else None end.
Proof.
  induction m as [|[a b] m IH]; intros k v k'; cbn [app sum_get]; [reflexivity|].
  destruct (bytes_eqb a k'); [reflexivity|apply IH].
Qed.

Lemma sum_get_none : forall m k, ~ In k (map fst m) -> sum_get m k = None.
Proof.
  induction m as [|[a b] m IH]; intros k Hn; [reflexivity|].
  cbn [sum_get]. cbn [map fst In] in Hn.
  rewrite bytes_eqb_false by (intros E; apply Hn; left; exact E).
  apply IH. intros Hin. apply Hn. right. exact Hin.
Qed.

Lemma sum_get_in : forall m k v, sum_get m k = Some v -> In (k, v) m.
Proof.
  induction m as [|[a b] m IH]; intros k v Hg; [discriminate|].
  cbn [sum_get] in Hg. destruct (bytes_eqb a k) eqn:E.
  - apply bytes_eqb_spec in E. inversion Hg; subst. left. reflexivity.
  - right. apply IH. exact Hg.
Qed.

(* a map given as  key |-> f key  *)
Lemma sum_get_map : forall (f : bytes -> bytes) ks k,
  sum_get (map (fun x => (x, f x)) ks) k = if existsb (fun x => bytes_eqb x k) ks then Some (f k) else None.
Proof.
  induction ks as [|a ks IH]; intros k; [reflexivity|].
  cbn [map sum_get existsb]. destruct (bytes_eqb a k) eqn:E.
  - apply bytes_eqb_spec in E. subst. reflexivity.
  - cbn [orb]. apply IH.
Qed.

Lemma existsb_bytes_in : forall ks k, existsb (fun x => bytes_eqb x k) ks = true <-> In k ks.
Proof.
  intros ks k. rewrite existsb_exists. split.
  - intros [x [Hx E]]. apply bytes_eqb_spec in E. subst. exact Hx.
  - intros Hin. exists k. split; [exact Hin|apply bytes_eqb_refl].
Qed.

(* ---------- the byte order ---------- *)
Lemma bytes_leb_refl : forall a, bytes_leb a a = true.
Proof. induction a as [|x a IH]; [reflexivity|]. cbn [bytes_leb]. rewrite N.ltb_irrefl. exact IH. Qed.

Lemma N_of_ascii_inj : forall x y, N_of_ascii x = N_of_ascii y -> x = y.
Proof. intros x y E. rewrite <- (ascii_N_embedding x), <- (ascii_N_embedding y), E. reflexivity. Qed.

Lemma bytes_leb_total : forall a b, bytes_leb a b = true \/ bytes_leb b a = true.
Proof.
  induction a as [|x a IH]; intros b; [left; reflexivity|].
  destruct b as [|y b]; [right; reflexivity|].
  cbn [bytes_leb].
  destruct (N.ltb_spec (N_of_ascii x) (N_of_ascii y)) as [L1|L1]; [left; reflexivity|].
  destruct (N.ltb_spec (N_of_ascii y) (N_of_ascii x)) as [L2|L2]; [right; reflexivity|].
  apply IH.
Qed.

Lemma bytes_leb_antisym : forall a b, bytes_leb a b = true -> bytes_leb b a = true -> a = b.
Proof.
  induction a as [|x a IH]; intros b H1 H2.
  - destruct b; [reflexivity|discriminate].
  - destruct b as [|y b]; [discriminate|].
    cbn [bytes_leb] in H1, H2.
    destruct (N.ltb_spec (N_of_ascii x) (N_of_ascii y)) as [L1|L1];
    destruct (N.ltb_spec (N_of_ascii y) (N_of_ascii x)) as [L2|L2]; try lia; try discriminate.
    assert (E : x = y) by (apply N_of_ascii_inj; lia). subst y.
    f_equal. apply IH; assumption.
Qed.

Lemma bytes_leb_trans : forall a b c, bytes_leb a b = true -> bytes_leb b c = true -> bytes_leb a c = true.
Proof.
  induction a as [|x a IH]; intros b c H1 H2; [reflexivity|].
  destruct b as [|y b]; [discriminate|]. destruct c as [|z c]; [discriminate|].
  cbn [bytes_leb] in *.
  destruct (N.ltb_spec (N_of_ascii x) (N_of_ascii y)) as [L1|L1].
  - destruct (N.ltb_spec (N_of_ascii y) (N_of_ascii z)) as [L2|L2].
    + destruct (N.ltb_spec (N_of_ascii x) (N_of_ascii z)); [reflexivity|lia].
    + destruct (N.ltb_spec (N_of_ascii z) (N_of_ascii y)) as [L3|L3]; [discriminate|].
      destruct (N.ltb_spec (N_of_ascii x) (N_of_ascii z)); [reflexivity|lia].
  - destruct (N.ltb_spec (N_of_ascii y) (N_of_ascii x)) as [L1'|L1']; [discriminate|].
    destruct (N.ltb_spec (N_of_ascii y) (N_of_ascii z)) as [L2|L2].
    + destruct (N.ltb_spec (N_of_ascii x) (N_of_ascii z)); [reflexivity|lia].
    + destruct (N.ltb_spec (N_of_ascii z) (N_of_ascii y)) as [L3|L3]; [discriminate|].
      destruct (N.ltb_spec (N_of_ascii x) (N_of_ascii z)) as [L4|L4]; [reflexivity|].
      destruct (N.ltb_spec (N_of_ascii z) (N_of_ascii x)) as [L5|L5]; [lia|].
      eapply IH; eassumption.
Qed.

(* ---------- slices.Sorted ---------- *)
Section SortFacts.
  Context {A : Type} (key : A -> bytes).
  Definition le_key (x y : A) : Prop := bytes_leb (key x) (key y) = true.

  Lemma insert_by_perm : forall x l, Permutation (insert_by key x l) (x :: l).
  Proof.
    induction l as [|y l IH]; [apply Permutation_refl|].
    cbn [insert_by]. destruct (bytes_leb (key x) (key y)); [apply Permutation_refl|].
    eapply Permutation_trans; [apply perm_skip; exact IH|apply perm_swap].
  Qed.

  Lemma sort_by_perm : forall l, Permutation (sort_by key l) l.
  Proof.
    induction l as [|x l IH]; [apply Permutation_refl|].
    cbn [sort_by]. eapply Permutation_trans; [apply insert_by_perm|]. apply perm_skip. exact IH.
  Qed.

  Lemma insert_by_sorted : forall x l, StronglySorted le_key l -> StronglySorted le_key (insert_by key x l).
  Proof.
    induction l as [|y l IH]; intros HS.
    - cbn. constructor; [constructor|constructor].
    - cbn [insert_by]. inversion HS as [|? ? HS' HF]; subst.
      destruct (bytes_leb (key x) (key y)) eqn:E.
      + constructor; [exact HS|]. constructor; [exact E|].
        eapply Forall_impl; [|exact HF]. intros z Hz. unfold le_key in *. eapply bytes_leb_trans; eassumption.
      + constructor; [apply IH; exact HS'|].
        assert (Hyx : le_key y x).
        { unfold le_key. destruct (bytes_leb_total (key y) (key x)) as [T|T]; [exact T|congruence]. }
        eapply Permutation_Forall; [apply Permutation_sym; apply insert_by_perm|].
        constructor; [exact Hyx|exact HF].
  Qed.

  Lemma sort_by_sorted : forall l, StronglySorted le_key (sort_by key l).
  Proof.
    induction l as [|x l IH]; [constructor|]. cbn [sort_by]. apply insert_by_sorted. exact IH.
  Qed.

  (* a list with distinct keys has exactly one sorted arrangement *)
  Lemma sorted_perm_unique : forall l1 l2,
    StronglySorted le_key l1 -> StronglySorted le_key l2 -> Permutation l1 l2 ->
    NoDup (map key l1) -> l1 = l2.
  Proof.
    induction l1 as [|a l1 IH]; intros l2 S1 S2 HP ND.
    - apply Permutation_nil in HP. subst. reflexivity.
    - destruct l2 as [|b l2]; [apply Permutation_sym, Permutation_nil in HP; discriminate|].
      inversion S1 as [|? ? S1' F1]; subst. inversion S2 as [|? ? S2' F2]; subst.
      assert (Hab : a = b).
      { assert (Hin_a : In a (b :: l2)) by (eapply Permutation_in; [exact HP|left; reflexivity]).
        assert (Hin_b : In b (a :: l1)) by (eapply Permutation_in; [apply Permutation_sym; exact HP|left; reflexivity]).
        destruct Hin_a as [E|Hin_a]; [symmetry; exact E|].
        destruct Hin_b as [E|Hin_b]; [exact E|].
        assert (L1 : le_key a b) by (rewrite Forall_forall in F1; apply F1; exact Hin_b).
        assert (L2 : le_key b a) by (rewrite Forall_forall in F2; apply F2; exact Hin_a).
        assert (Ek : key a = key b) by (apply bytes_leb_antisym; assumption).
        exfalso. cbn [map] in ND. inversion ND as [|? ? Hnin _]; subst. apply Hnin.
        rewrite Ek. apply in_map. exact Hin_b. }
      subst b. f_equal. apply IH; try assumption.
      + eapply Permutation_cons_inv. exact HP.
      + cbn [map] in ND. inversion ND; assumption.
  Qed.

  Lemma sort_by_perm_eq : forall l l',
    Permutation l l' -> NoDup (map key l) -> sort_by key l = sort_by key l'.
  Proof.
    intros l l' HP ND. apply sorted_perm_unique.
    - apply sort_by_sorted.
    - apply sort_by_sorted.
    - eapply Permutation_trans; [apply sort_by_perm|].
      eapply Permutation_trans; [exact HP|apply Permutation_sym, sort_by_perm].
    - eapply Permutation_NoDup; [|exact ND]. apply Permutation_map. apply Permutation_sym, sort_by_perm.
  Qed.

  Lemma sort_by_map_key : forall l, map key (sort_by key l) = sort_keys (map key l).
  Proof.
    assert (Hins : forall x l, map key (insert_by key x l) = insert_by (fun k => k) (key x) (map key l)).
    { induction l as [|y l IH]; [reflexivity|]. cbn [insert_by map].
      destruct (bytes_leb (key x) (key y)); cbn [map]; [reflexivity|]. rewrite IH. reflexivity. }
    induction l as [|x l IH]; [reflexivity|].
    cbn [sort_by map]. rewrite Hins, IH. reflexivity.
  Qed.
End SortFacts.

Lemma sort_keys_perm : forall ks, Permutation (sort_keys ks) ks.
Proof. intros ks. apply (sort_by_perm (fun k => k)). Qed.

Lemma sort_keys_sorted : forall ks, StronglySorted (fun a b => bytes_leb a b = true) (sort_keys ks).
Proof. intros ks. apply (sort_by_sorted (fun k => k)). Qed.

(* ---------- Load after Bytes ---------- *)
Definition kv_ok (m : sum) : Prop :=
  NoDup (map fst m) /\ Forall (fun kv => token_ok (fst kv) = true /\ forallb plain (snd kv) = true) m.

Lemma token_no_nl : forall k, forallb plain k = true -> ~ In nl k.
Proof.
  intros k Hk Hin. rewrite forallb_forall in Hk. apply Hk in Hin.
  apply plain_neq_nl in Hin. apply Hin. reflexivity.
Qed.

Lemma load_lines_fold : forall (val : bytes -> bytes) ks acc,
  NoDup (map fst acc ++ ks) ->
  Forall (fun k => token_ok k = true /\ forallb plain (val k) = true) ks ->
  fold_left load_line (map (fun k => k ++ sp :: val k ++ [nl]) ks) acc
  = acc ++ filter (fun kv => negb (is_nil (snd kv))) (map (fun k => (k, val k)) ks).
Proof.
  intros val. induction ks as [|k ks IH]; intros acc ND HF.
  - cbn. rewrite app_nil_r. reflexivity.
  - inversion HF as [|? ? [Hk Hv] HF']; subst.
    cbn [map fold_left]. unfold load_line at 2. rewrite fields_key_value by assumption.
    cbn [filter snd].
    assert (Hnin : ~ In k (map fst acc)).
    { intros Hin. apply NoDup_remove_2 in ND. apply ND. apply in_or_app. left. exact Hin. }
    destruct (val k) as [|c v] eqn:Ev; cbn [is_nil negb].
    + apply IH; [|exact HF']. apply NoDup_remove_1 in ND. exact ND.
    + rewrite sum_set_fresh by exact Hnin. rewrite IH; [|
        rewrite map_app; cbn [map fst]; rewrite <- app_assoc; exact ND | exact HF'].
      rewrite <- app_assoc. reflexivity.
Qed.

Lemma sum_line_shape : forall m k, sum_line m k = (k ++ sp :: sum_sum m k) ++ [nl].
Proof. intros m k. unfold sum_line. rewrite <- app_assoc. reflexivity. Qed.

Lemma sum_sum_in : forall m k v, NoDup (map fst m) -> In (k, v) m -> sum_sum m k = v.
Proof.
  induction m as [|[a b] m IH]; intros k v ND Hin; [contradiction|].
  unfold sum_sum. cbn [sum_get]. cbn [map fst] in ND. inversion ND as [|? ? Hn ND']; subst.
  destruct Hin as [E|Hin].
  - inversion E; subst. rewrite bytes_eqb_refl. reflexivity.
  - rewrite bytes_eqb_false.
    + apply (IH k v ND' Hin).
    + intros E. subst. apply Hn. apply (in_map fst) in Hin. exact Hin.
Qed.

Lemma kv_ok_values : forall m k, kv_ok m -> In k (map fst m) ->
  token_ok k = true /\ forallb plain (sum_sum m k) = true.
Proof.
  intros m k [ND HF] Hin. apply in_map_iff in Hin. destruct Hin as [[k' v] [E Hin]]. cbn in E. subst k'.
  rewrite Forall_forall in HF. destruct (HF _ Hin) as [Hk Hv]. cbn in Hk, Hv.
  rewrite (sum_sum_in m k v ND Hin). split; assumption.
Qed.

Theorem load_bytes_exact : forall m, kv_ok m ->
  sumfile_load (sumfile_bytes m)
  = filter (fun kv => negb (is_nil (snd kv))) (map (fun k => (k, sum_sum m k)) (sort_keys (map fst m))).
Proof.
  intros m Hok. unfold sumfile_load, sumfile_bytes.
  set (ks := sort_keys (map fst m)).
  assert (Hks : forall k, In k ks -> In k (map fst m)).
  { intros k Hin. eapply Permutation_in; [apply sort_keys_perm|exact Hin]. }
  assert (HF : Forall (fun k => token_ok k = true /\ forallb plain (sum_sum m k) = true) ks).
  { apply Forall_forall. intros k Hin. apply kv_ok_values; [exact Hok|apply Hks; exact Hin]. }
  replace (flat_map (sum_line m) ks) with (flat_map (fun b => b ++ [nl]) (map (fun k => k ++ sp :: sum_sum m k) ks)).
  2:{ rewrite flat_map_concat_map, map_map, <- flat_map_concat_map.
      apply flat_map_ext. intros k. symmetry. apply sum_line_shape. }
  rewrite lines_blocks.
  - rewrite map_map.
    replace (map (fun x => (x ++ sp :: sum_sum m x) ++ [nl]) ks)
      with (map (fun k => k ++ sp :: sum_sum m k ++ [nl]) ks).
    2:{ apply map_ext. intros k. rewrite <- app_assoc. reflexivity. }
    rewrite load_lines_fold; [reflexivity| |exact HF].
    cbn [map app]. eapply Permutation_NoDup; [apply Permutation_sym, sort_keys_perm|]. exact (proj1 Hok).
  - apply Forall_forall. intros b Hb. apply in_map_iff in Hb. destruct Hb as [k [E Hin]]. subst b.
    rewrite Forall_forall in HF. destruct (HF k Hin) as [Hk Hv].
    unfold token_ok in Hk. apply andb_true_iff in Hk. destruct Hk as [_ Hk].
    intros Hnl. apply in_app_or in Hnl. destruct Hnl as [Hnl|[Hnl|Hnl]].
    + exact (token_no_nl k Hk Hnl).
    + discriminate Hnl.
    + exact (token_no_nl _ Hv Hnl).
Qed.

(* reading back gives the same answers to every query *)
Theorem load_bytes_sum : forall m k, kv_ok m -> sum_sum (sumfile_load (sumfile_bytes m)) k = sum_sum m k.
Proof.
  intros m k Hok. rewrite load_bytes_exact by exact Hok.
  set (ks := sort_keys (map fst m)).
  assert (ND : NoDup ks).
  { eapply Permutation_NoDup; [apply Permutation_sym, sort_keys_perm|exact (proj1 Hok)]. }
  assert (Hiff : In k ks <-> In k (map fst m)).
  { split; intros Hin; (eapply Permutation_in; [|exact Hin]); [apply sort_keys_perm|apply Permutation_sym, sort_keys_perm]. }
  clearbody ks.
  assert (Hgen : forall ks, NoDup ks ->
            sum_sum (filter (fun kv => negb (is_nil (snd kv))) (map (fun x => (x, sum_sum m x)) ks)) k
            = if existsb (fun x => bytes_eqb x k) ks then sum_sum m k else []).
  { clear. induction ks as [|a ks IH]; intros ND; [reflexivity|].
    inversion ND as [|? ? Hn ND']; subst. cbn [map filter snd existsb].
    destruct (bytes_eqb a k) eqn:E.
    - apply bytes_eqb_spec in E. subst a. cbn [orb].
      destruct (sum_sum m k) as [|c v] eqn:Ev; cbn [is_nil negb].
      + rewrite IH by exact ND'.
        destruct (existsb (fun x => bytes_eqb x k) ks); reflexivity.
      + unfold sum_sum at 1. cbn [sum_get]. rewrite bytes_eqb_refl. reflexivity.
    - cbn [orb]. destruct (negb (is_nil (sum_sum m a))).
      + unfold sum_sum at 1. cbn [sum_get]. rewrite E. apply (IH ND').
      + apply (IH ND'). }
  rewrite Hgen by exact ND.
  destruct (existsb (fun x => bytes_eqb x k) ks) eqn:E; [reflexivity|].
  unfold sum_sum. rewrite sum_get_none; [reflexivity|].
  intros Hin. apply Hiff in Hin. apply existsb_bytes_in in Hin. congruence.
Qed.

(* with no empty value the file reads back as the map itself, in sorted order *)
Theorem load_bytes_sorted : forall m, kv_ok m -> Forall (fun kv => snd kv <> []) m ->
  sumfile_load (sumfile_bytes m) = sort_by fst m.
Proof.
  intros m Hok Hne. rewrite load_bytes_exact by exact Hok.
  rewrite <- (sort_by_map_key fst m).
  assert (Hp : Permutation (sort_by fst m) m) by apply sort_by_perm.
  assert (ND : NoDup (map fst m)) by exact (proj1 Hok).
  assert (Hgen : forall l, (forall kv, In kv l -> In kv m) ->
            filter (fun kv => negb (is_nil (snd kv))) (map (fun k => (k, sum_sum m k)) (map fst l)) = l).
  { induction l as [|[a b] l IH]; intros Hall; [reflexivity|].
    cbn [map fst filter snd].
    assert (Hin : In (a, b) m) by (apply Hall; left; reflexivity).
    rewrite (sum_sum_in m a b ND Hin).
    rewrite Forall_forall in Hne. specialize (Hne _ Hin). cbn in Hne.
    destruct b as [|c b]; [contradiction|]. cbn [is_nil negb]. f_equal.
    apply IH. intros kv Hkv. apply Hall. right. exact Hkv. }
  apply Hgen. intros kv Hin. eapply Permutation_in; [exact Hp|exact Hin].
Qed.

(* Bytes does not depend on the iteration order of the map *)
Theorem sumfile_bytes_perm : forall m m',
  Permutation m m' -> NoDup (map fst m) -> sumfile_bytes m = sumfile_bytes m'.
Proof.
  intros m m' HP ND. unfold sumfile_bytes.
  assert (Hk : sort_keys (map fst m) = sort_keys (map fst m')).
  { apply (sort_by_perm_eq (fun k => k)); [apply Permutation_map; exact HP|rewrite map_id; exact ND]. }
  rewrite <- Hk. apply flat_map_ext. intros k. unfold sum_line. f_equal. f_equal. f_equal.
  unfold sum_sum.
  assert (Hg : forall k, sum_get m k = sum_get m' k).
  { clear Hk k. intros k. destruct (sum_get m k) as [v|] eqn:E.
    - apply sum_get_in in E. symmetry.
      assert (ND' : NoDup (map fst m')) by (eapply Permutation_NoDup; [apply Permutation_map; exact HP|exact ND]).
      assert (Hin : In (k, v) m') by (eapply Permutation_in; eassumption).
      pose proof (sum_sum_in m' k v ND' Hin) as Hs. unfold sum_sum in Hs.
      destruct (sum_get m' k) as [v'|] eqn:E'.
      + subst. reflexivity.
      + exfalso. apply (in_map fst) in Hin. cbn in Hin.
        clear -E' Hin. induction m' as [|[a b] m' IH]; [contradiction|].
        cbn [sum_get] in E'. destruct (bytes_eqb a k) eqn:Ea; [discriminate|].
        destruct Hin as [Ha|Hin]; [cbn in Ha; subst; rewrite bytes_eqb_refl in Ea; discriminate|].
        apply IH; assumption.
    - symmetry. apply sum_get_none. intros Hin.
      assert (Hin' : In k (map fst m)).
      { eapply Permutation_in; [apply Permutation_map, Permutation_sym; exact HP|exact Hin]. }
      clear -E Hin'. induction m as [|[a b] m IH]; [contradiction|].
      cbn [sum_get] in E. destruct (bytes_eqb a k) eqn:Ea; [discriminate|].
      destruct Hin' as [Ha|Hin']; [cbn in Ha; subst; rewrite bytes_eqb_refl in Ea; discriminate|].
      apply IH; assumption. }
  rewrite Hg. reflexivity.
Qed.

Theorem load_bytes_entries : forall m, kv_ok m -> Forall (fun kv => snd kv <> []) m ->
  sumfile_load (sumfile_bytes m) = sort_by fst m /\ Permutation (sumfile_load (sumfile_bytes m)) m.
Proof.
  intros m Hk Hn. split; [apply load_bytes_sorted; assumption|].
  rewrite load_bytes_sorted by assumption. apply sort_by_perm.
Qed.
