(* Every value returned by a call of Rule.Inflected is f of that call's argument, under every
   schedule; and no reachable state is a deadlock. *)
Require Import Gengo.Base.Bytes Gengo.Model.OnceCache.
From Coq Require Import PeanoNat.

Section CacheProofs.
  Variables key val : Type.
  Variable key_eqb : key -> key -> bool.
  Hypothesis key_eqb_eq : forall a b, key_eqb a b = true -> a = b.
  Variable f : key -> val.
  Variable keys : nat -> key.

  Notation state := (state key val).
  Notation step := (step key val key_eqb f keys).
  Notation run := (run key val key_eqb f keys).
  Notation init := (init key val).

  Record inv (st : state) : Prop := {
    inv_cache : forall k c, In (k, c) (cache _ _ st) -> keys c = k;
    inv_cell : forall c v, cells _ _ st c = Finished v -> v = f (keys c);
    inv_loaded : forall t c, phases _ _ st t = Loaded c -> keys c = keys t;
    inv_inonce : forall t c, phases _ _ st t = InOnce c -> keys c = keys t;
    inv_done : forall t v, phases _ _ st t = Done v -> v = f (keys t);
    inv_running : forall c, cells _ _ st c = Running -> exists t, phases _ _ st t = InOnce c
  }.

  Lemma find_in : forall k m c, find key key_eqb k m = Some c -> exists k', In (k', c) m /\ k = k'.
  Proof.
    induction m as [|[k' c'] m IH]; intros c H.
    - discriminate.
    - cbn in H. destruct (key_eqb k k') eqn:E.
      + inversion H; subst. exists k'. split; [left; reflexivity|apply key_eqb_eq; exact E].
      + destruct (IH c H) as [k2 [Hin Hk]]. exists k2. split; [right; exact Hin|exact Hk].
  Qed.

  Lemma upd_same : forall A (g : nat -> A) i a, upd g i a i = a.
  Proof. intros. unfold upd. rewrite Nat.eqb_refl. reflexivity. Qed.

  Lemma upd_other : forall A (g : nat -> A) i a j, j <> i -> upd g i a j = g j.
  Proof. intros A g i a j H. unfold upd. apply Nat.eqb_neq in H. rewrite H. reflexivity. Qed.

  Lemma inv_init : inv init.
  Proof. constructor; cbn; intros; try discriminate; contradiction. Qed.

  Ltac upd_cases t x :=
    destruct (Nat.eq_dec x t) as [->|?];
    [rewrite upd_same in *|rewrite upd_other in * by assumption].

  Lemma inv_step : forall st t, inv st -> inv (step st t).
  Proof.
    intros st t I. unfold OnceCache.step. destruct (phases _ _ st t) as [|c|c|v] eqn:Ph.
    - (* Start: LoadOrStore *)
      destruct (find key key_eqb (keys t) (cache _ _ st)) as [c|] eqn:Fd.
      + destruct (find_in _ _ _ Fd) as [k' [Hin Hk]].
        pose proof (inv_cache st I _ _ Hin) as Hc.
        constructor; cbn [cache cells phases]; intros.
        * eapply inv_cache; eassumption.
        * eapply inv_cell; eassumption.
        * upd_cases t t0; [inversion H; subst; congruence|eapply inv_loaded; eassumption].
        * upd_cases t t0; [discriminate|eapply inv_inonce; eassumption].
        * upd_cases t t0; [discriminate|eapply inv_done; eassumption].
        * destruct (inv_running st I _ H) as [t' Ht']. exists t'.
          upd_cases t t'; [congruence|exact Ht'].
      + constructor; cbn [cache cells phases]; intros.
        * destruct H as [H|H]; [inversion H; subst; reflexivity|eapply inv_cache; eassumption].
        * eapply inv_cell; eassumption.
        * upd_cases t t0; [inversion H; subst; reflexivity|eapply inv_loaded; eassumption].
        * upd_cases t t0; [discriminate|eapply inv_inonce; eassumption].
        * upd_cases t t0; [discriminate|eapply inv_done; eassumption].
        * destruct (inv_running st I _ H) as [t' Ht']. exists t'.
          upd_cases t t'; [congruence|exact Ht'].
    - (* Loaded c: once.Do *)
      pose proof (inv_loaded st I _ _ Ph) as Hk.
      destruct (cells _ _ st c) as [| |v] eqn:Cl.
      + constructor; cbn [cache cells phases]; intros.
        * eapply inv_cache; eassumption.
        * upd_cases c c0; [discriminate|eapply inv_cell; eassumption].
        * upd_cases t t0; [discriminate|eapply inv_loaded; eassumption].
        * upd_cases t t0; [inversion H; subst; exact Hk|eapply inv_inonce; eassumption].
        * upd_cases t t0; [discriminate|eapply inv_done; eassumption].
        * upd_cases c c0.
          -- exists t. rewrite upd_same. reflexivity.
          -- destruct (inv_running st I _ H) as [t' Ht']. exists t'.
             upd_cases t t'; [congruence|exact Ht'].
      + exact I.
      + pose proof (inv_cell st I _ _ Cl) as Hv.
        constructor; cbn [cache cells phases]; intros.
        * eapply inv_cache; eassumption.
        * eapply inv_cell; eassumption.
        * upd_cases t t0; [discriminate|eapply inv_loaded; eassumption].
        * upd_cases t t0; [discriminate|eapply inv_inonce; eassumption].
        * upd_cases t t0; [inversion H; subst; congruence|eapply inv_done; eassumption].
        * destruct (inv_running st I _ H) as [t' Ht']. exists t'.
          upd_cases t t'; [congruence|exact Ht'].
    - (* InOnce c: f returns *)
      pose proof (inv_inonce st I _ _ Ph) as Hk.
      constructor; cbn [cache cells phases]; intros.
      + eapply inv_cache; eassumption.
      + upd_cases c c0; [inversion H; subst; reflexivity|eapply inv_cell; eassumption].
      + upd_cases t t0; [inversion H; subst; exact Hk|eapply inv_loaded; eassumption].
      + upd_cases t t0; [discriminate|eapply inv_inonce; eassumption].
      + upd_cases t t0; [discriminate|eapply inv_done; eassumption].
      + upd_cases c c0; [discriminate|].
        destruct (inv_running st I _ H) as [t' Ht']. exists t'.
        upd_cases t t'; [congruence|exact Ht'].
    - exact I.
  Qed.

  Lemma inv_run : forall sched st, inv st -> inv (run sched st).
  Proof.
    induction sched as [|t sched IH]; intros st I.
    - exact I.
    - cbn. apply IH. apply inv_step. exact I.
  Qed.

  (* every interleaving: whatever a call returns is f of its own argument *)
  Lemma cache_consistent : forall sched t v,
    phases _ _ (run sched init) t = Done v -> v = f (keys t).
  Proof.
    intros sched t v H. exact (inv_done _ (inv_run sched init inv_init) t v H).
  Qed.

  (* two calls with the same argument return the same value, whatever the interleaving *)
  Lemma cache_same_result : forall sched t1 t2 v1 v2,
    keys t1 = keys t2 ->
    phases _ _ (run sched init) t1 = Done v1 -> phases _ _ (run sched init) t2 = Done v2 -> v1 = v2.
  Proof.
    intros sched t1 t2 v1 v2 Hk H1 H2.
    rewrite (cache_consistent _ _ _ H1), (cache_consistent _ _ _ H2), Hk. reflexivity.
  Qed.

  Lemma run_app : forall a b st, run (a ++ b) st = run b (run a st).
  Proof. intros. unfold OnceCache.run. apply fold_left_app. Qed.

  (* no deadlock: from every reachable state, every call can be driven to its return by at most
     four further atomic steps (its own, plus one of the call that is running f) *)
  Lemma cache_can_finish : forall sched t,
    exists more v, length more <= 4 /\ phases _ _ (run (sched ++ more) init) t = Done v.
  Proof.
    intros sched t. pose proof (inv_run sched init inv_init) as I.
    assert (G : forall st, inv st -> forall c, phases _ _ st t = Loaded c ->
              exists more v, length more <= 3 /\ phases _ _ (run more st) t = Done v).
    { intros st Ist c Ph. destruct (cells _ _ st c) as [| |v] eqn:Cl.
      - exists [t; t; t], (f (keys c)). split; [cbn; lia|].
        cbn. unfold OnceCache.step at 3. rewrite Ph, Cl. cbn [phases cells cache].
        unfold OnceCache.step at 2. cbn [phases cells cache]. rewrite upd_same. cbn [phases cells cache].
        unfold OnceCache.step. cbn [phases cells cache]. rewrite !upd_same. cbn [phases]. rewrite upd_same. reflexivity.
      - destruct (inv_running st Ist _ Cl) as [t' Ht'].
        assert (t' <> t) by (intros ->; congruence).
        exists [t'; t], (f (keys c)). split; [cbn; lia|].
        cbn. unfold OnceCache.step at 2. rewrite Ht'. cbn [phases cells cache].
        unfold OnceCache.step. cbn [phases cells cache]. rewrite upd_other by auto. rewrite Ph.
        rewrite upd_same. cbn [phases]. rewrite upd_same. reflexivity.
      - exists [t], v. split; [cbn; lia|].
        cbn. unfold OnceCache.step. rewrite Ph, Cl. cbn [phases]. rewrite upd_same. reflexivity. }
    destruct (phases _ _ (run sched init) t) as [|c|c|v] eqn:Ph.
    - (* Start *)
      set (st := run sched init) in *.
      assert (exists c, phases _ _ (step st t) t = Loaded c) as [c Hc].
      { unfold OnceCache.step. rewrite Ph. destruct (find key key_eqb (keys t) (cache _ _ st));
          cbn [phases]; rewrite upd_same; eexists; reflexivity. }
      destruct (G (step st t) (inv_step st t I) c Hc) as [more [v [Hl Hv]]].
      exists (t :: more), v. split; [cbn; lia|]. rewrite run_app. exact Hv.
    - destruct (G _ I c Ph) as [more [v [Hl Hv]]].
      exists more, v. split; [lia|]. rewrite run_app. exact Hv.
    - (* InOnce *)
      set (st := run sched init) in *.
      assert (Hc : phases _ _ (step st t) t = Loaded c).
      { unfold OnceCache.step. rewrite Ph. cbn [phases]. rewrite upd_same. reflexivity. }
      destruct (G (step st t) (inv_step st t I) c Hc) as [more [v [Hl Hv]]].
      exists (t :: more), v. split; [cbn; lia|]. rewrite run_app. exact Hv.
    - exists [], v. split; [cbn; lia|]. rewrite app_nil_r. exact Ph.
  Qed.
End CacheProofs.

(* ---- the cache of Rule.Inflected: keys are Go strings, f is Rule.inflected of the rule ---- *)
Require Import Gengo.Model.Inflector Gengo.Model.InflectorApi Gengo.Proofs.Inflector.

Lemma bytes_eqb_eq : forall a b, bytes_eqb a b = true -> a = b.
Proof. intros a b H. apply bytes_eqb_spec. exact H. Qed.

(* calls from any number of goroutines, any interleaving: a call that has returned has returned
   exactly what the sequential function gives on its argument, and that is a value, not a panic *)
Lemma concurrent_api : forall plural suffix (keys : nat -> bytes) sched t v,
  phases _ _ (run bytes (res bytes) bytes_eqb (api true plural suffix) keys sched (init _ _)) t = Done v ->
  exists r, v = Ok r /\ api true plural suffix (keys t) = Ok r.
Proof.
  intros plural suffix keys sched t v H.
  pose proof (cache_consistent bytes (res bytes) bytes_eqb bytes_eqb_eq (api true plural suffix) keys sched t v H) as E.
  destruct (api_total plural suffix (keys t)) as [r Hr].
  exists r. split; [rewrite E; exact Hr|exact Hr].
Qed.
