(* A std package is always imported under the name the reserved table gives it, whatever else the
   history imports and in whatever order:  both the table (std.go, a tracker without checkStd) and
   a writer's tracker walk the SAME candidate sequence of a path; everything before the table's
   choice is reserved for another std package or refused outright by both (a predeclared
   identifier), and the table's choice itself can only ever be taken by that path. *)
Require Import Gengo.Base.Bytes Gengo.Model.CamelCase Gengo.Model.GoIdent Gengo.Model.Tracker
               Gengo.Model.TrackerSpec Gengo.Proofs.CamelCase Gengo.Proofs.Tracker.
From Coq Require Import PeanoNat.

(* ------------------------------------------------------------------ the candidate sequence of a path *)

Definition name_of (fixed : bool) (segs : list bytes) (n : nat) : bytes :=
  match local_name fixed segs n with Ok x => x | _ => [] end.

(* candidate number i (from 0): one per segment count, then the last one numbered 2, 3, ... *)
Definition cand_at (fixed : bool) (path : bytes) (i : nat) : bytes :=
  let segs := split_slash [] path in
  let m := length segs in
  if Nat.ltb i m then name_of fixed segs (S i) else name_of fixed segs m ++ itoa (2 + (i - m)).

Lemma local_name_name_of : forall fixed segs n, local_name fixed segs n = Ok (name_of fixed segs n).
Proof.
  intros fixed segs n. unfold name_of. destruct (local_name_spec fixed segs n) as (nm & -> & _). reflexivity.
Qed.

(* try_cands on the segment counts a+1 .. a+k *)
Lemma try_cands_first : forall fixed pre std tr path segs k a last r l,
  try_cands fixed pre std tr path segs (seq (S a) k) last = Ok (r, l) ->
  match r with
  | Some tr' =>
      exists j, j < k /\ l = name_of fixed segs (S (a + j)) /\ Tracker.bind pre std tr l path = Some tr' /\
                forall i, i < j -> Tracker.bind pre std tr (name_of fixed segs (S (a + i))) path = None
  | None =>
      (forall i, i < k -> Tracker.bind pre std tr (name_of fixed segs (S (a + i))) path = None) /\
      l = match k with O => last | S k' => name_of fixed segs (S (a + k')) end
  end.
Proof.
  intros fixed pre std tr path segs. induction k as [|k IH]; intros a last r l H; cbn [seq try_cands] in H.
  - inversion H; subst. split; [intros i Hi; lia|reflexivity].
  - rewrite local_name_name_of in H. cbn [Bytes.bind] in H.
    destruct (Tracker.bind pre std tr (name_of fixed segs (S a)) path) as [tr1|] eqn:B.
    + inversion H; subst. exists 0. rewrite Nat.add_0_r. repeat split; [lia|exact B|intros i Hi; lia].
    + apply IH in H. destruct r as [tr'|].
      * destruct H as (j & Hj & Hl & Hb & Hpre). exists (S j).
        replace (a + S j) with (S a + j) by lia. repeat split; [lia|exact Hl|exact Hb|].
        intros i Hi. destruct i as [|i]; [rewrite Nat.add_0_r; exact B|].
        replace (a + S i) with (S a + i) by lia. apply Hpre. lia.
      * destruct H as [Hall Hl]. split.
        -- intros i Hi. destruct i as [|i]; [rewrite Nat.add_0_r; exact B|].
           replace (a + S i) with (S a + i) by lia. apply Hall. lia.
        -- rewrite Hl. destruct k as [|k']; [rewrite Nat.add_0_r; reflexivity|].
           replace (a + S k') with (S a + k') by lia. reflexivity.
Qed.

Lemma number_loop_first : forall fuel k pre std tr base path tr',
  number_loop fuel k pre std tr base path = Ok tr' ->
  exists j, k <= j /\ Tracker.bind pre std tr (base ++ itoa j) path = Some tr' /\
            forall i, k <= i < j -> Tracker.bind pre std tr (base ++ itoa i) path = None.
Proof.
  induction fuel as [|f IH]; intros k pre std tr base path tr' H; cbn [number_loop] in H; [discriminate|].
  destruct (Tracker.bind pre std tr (base ++ itoa k) path) as [tr1|] eqn:B.
  - inversion H; subst. exists k. repeat split; [lia|exact B|intros i Hi; lia].
  - apply IH in H. destruct H as (j & Hj & Hb & Hpre). exists j. repeat split; [lia|exact Hb|].
    intros i Hi. destruct (PeanoNat.Nat.eq_dec i k) as [->|Hne]; [exact B|]. apply Hpre. lia.
Qed.

(* add binds the FIRST candidate of the sequence that can be bound *)
Lemma add_first : forall fixed pre std tr path tr',
  lookup path (p2n tr) = None -> add fixed pre std tr path = Ok tr' ->
  (exists j, Tracker.bind pre std tr (cand_at fixed path j) path = Some tr' /\
             forall i, i < j -> Tracker.bind pre std tr (cand_at fixed path i) path = None)
  \/ tr' = tr.
Proof.
  intros fixed pre std tr path tr' L H. unfold add in H. rewrite L in H.
  set (segs := split_slash [] path) in *. set (m := length segs) in *.
  destruct (try_cands fixed pre std tr path segs (seq 1 m) []) as [[r l]| |] eqn:T; cbn [Bytes.bind] in H; try discriminate.
  apply (try_cands_first fixed pre std tr path segs m 0) in T. cbn [Nat.add] in T.
  assert (C1 : forall i, i < m -> cand_at fixed path i = name_of fixed segs (S i)).
  { intros i Hi. unfold cand_at. fold segs. fold m. apply Nat.ltb_lt in Hi. rewrite Hi. reflexivity. }
  destruct r as [tr1|].
  - inversion H; subst tr1. destruct T as (j & Hj & Hl & Hb & Hpre). left. exists j.
    rewrite (C1 j Hj). subst l. split; [exact Hb|]. intros i Hi. rewrite C1 by lia. apply Hpre. exact Hi.
  - destruct T as [Hall Hl]. destruct fixed; [|right; inversion H; reflexivity].
    apply number_loop_first in H. destruct H as (j & Hj & Hb & Hpre). left.
    assert (Hm : m <> 0).
    { unfold m. pose proof (split_slash_nonempty path []) as NE. fold segs in NE. destruct segs; [congruence|discriminate]. }
    destruct m as [|m'] eqn:Em; [congruence|]. subst l.
    exists (S m' + (j - 2)).
    assert (C2 : forall i, cand_at true path (S m' + i) = name_of true segs (S m') ++ itoa (2 + i)).
    { intros i. unfold cand_at. fold segs. fold m. rewrite Em.
      assert (E : Nat.ltb (S m' + i) (S m') = false) by (apply Nat.ltb_ge; lia). rewrite E.
      replace (S m' + i - S m') with i by lia. reflexivity. }
    split.
    + rewrite C2. replace (2 + (j - 2)) with j by lia. exact Hb.
    + intros i Hi. destruct (Nat.ltb i (S m')) eqn:Ei.
      * apply Nat.ltb_lt in Ei. rewrite C1 by exact Ei. apply Hall. exact Ei.
      * apply Nat.ltb_ge in Ei. replace i with (S m' + (i - S m')) by lia. rewrite C2. apply Hpre. lia.
Qed.

(* ------------------------------------------------------------------ the table's choices *)

(* every name the table gives is the first candidate of its path that was not already given to
   another path *)
Definition first_choice (fixed : bool) (pre : list bytes) (s : tracker) : Prop :=
  forall p sn, lookup p (p2n s) = Some sn ->
    name_in pre sn = false /\
    exists j, sn = cand_at fixed p j /\
              forall i, i < j -> name_in pre (cand_at fixed p i) = true \/
                                 exists q, q <> p /\ lookup (cand_at fixed p i) (n2p s) = Some q.

Lemma first_choice_empty : forall fixed pre, first_choice fixed pre empty_tracker.
Proof. intros fixed pre p sn H. cbn in H. discriminate. Qed.

Lemma bind_nostd_none : forall pre tr nm path, Tracker.bind pre None tr nm path = None ->
  name_in pre nm = true \/ exists q, lookup nm (n2p tr) = Some q.
Proof.
  intros pre tr nm path H. unfold Tracker.bind in H. destruct (name_in pre nm); [left; reflexivity|right].
  cbn in H. destruct (lookup nm (n2p tr)); [eauto|discriminate].
Qed.

Lemma add_first_choice : forall fixed pre s0 path s1,
  inv None s0 -> first_choice fixed pre s0 -> add fixed pre None s0 path = Ok s1 -> first_choice fixed pre s1.
Proof.
  intros fixed pre s0 path s1 I F H.
  destruct (lookup path (p2n s0)) as [n|] eqn:L.
  - unfold add in H. rewrite L in H. inversion H; subst. exact F.
  - destruct (add_first _ _ _ _ _ _ L H) as [(j & Hb & Hpre)| ->]; [|exact F].
    pose proof (bind_ext_n2p _ _ _ _ _ _ Hb) as X.
    intros p sn Hp. destruct (bytes_dec p path) as [->|Hne].
    + rewrite (bind_bound _ _ _ _ _ _ Hb) in Hp. inversion Hp; subst sn.
      split; [eapply bind_some_not_pre; exact Hb|]. exists j. split; [reflexivity|].
      intros i Hi. destruct (bind_nostd_none _ _ _ _ (Hpre i Hi)) as [Hp'|[q Hq]]; [left; exact Hp'|right].
      exists q. split; [|apply X; exact Hq].
      intros ->. apply (inv_bij _ _ I) in Hq. congruence.
    + destruct (bind_some _ _ _ _ _ _ Hb) as (_ & _ & E). rewrite E in Hp. cbn [p2n] in Hp.
      rewrite lookup_tl in Hp by exact Hne. destruct (F p sn Hp) as (NP & j' & Hs & Hq).
      split; [exact NP|]. exists j'. split; [exact Hs|].
      intros i Hi. destruct (Hq i Hi) as [Hp'|(q & Hqp & Hl)]; [left; exact Hp'|right].
      exists q. split; [exact Hqp|apply X; exact Hl].
Qed.

(* ------------------------------------------------------------------ lifting over add_all and runs *)

Lemma add_all_app : forall fixed pre std a b tr,
  add_all fixed pre std tr (a ++ b) = (let! t := add_all fixed pre std tr a in add_all fixed pre std t b).
Proof.
  intros fixed pre std. induction a as [|p a IH]; intros b tr; cbn [app add_all]; [reflexivity|].
  destruct (add fixed pre std tr p) as [t| |]; cbn [Bytes.bind]; [apply IH|reflexivity|reflexivity].
Qed.

Lemma add_all_preserves : forall fixed pre std (P : tracker -> Prop),
  (forall tr path tr', inv std tr -> P tr -> add fixed pre std tr path = Ok tr' -> P tr') ->
  forall ps tr tr', inv std tr -> P tr -> add_all fixed pre std tr ps = Ok tr' -> inv std tr' /\ P tr'.
Proof.
  intros fixed pre std P HP. induction ps as [|p ps IH]; intros tr tr' I Ptr H; cbn [add_all] in H.
  - inversion H; subst. auto.
  - destruct (add fixed pre std tr p) as [t| |] eqn:A; cbn [Bytes.bind] in H; try discriminate.
    apply (IH t tr'); [eapply reach_inv; [eapply add_reach; eauto|exact I]|eapply HP; eauto|exact H].
Qed.

(* the tracker a history ends in is the tracker obtained by adding the referenced paths in order *)
Lemma walk_args_tracker : forall fixed pre std self args tr tr' txt,
  walk_args fixed pre std self tr args = Ok (tr', txt) ->
  add_all fixed pre std tr (filter (foreign self) (map fst args)) = Ok tr'.
Proof.
  intros fixed pre std self. induction args as [|[p lit] rest IH]; intros tr tr' txt H; cbn [walk_args] in H.
  - inversion H; subst. reflexivity.
  - cbn [map fst filter]. unfold foreign at 1.
    destruct (is_nil p); [|destruct (bytes_eqb p self)]; cbn [negb andb].
    + destruct (walk_args fixed pre std self tr rest) as [[t1 x]| |] eqn:W; cbn in H; try discriminate.
      inversion H; subst. eapply IH; eauto.
    + destruct (walk_args fixed pre std self tr rest) as [[t1 x]| |] eqn:W; cbn in H; try discriminate.
      inversion H; subst. eapply IH; eauto.
    + cbn [add_all]. destruct (add fixed pre std tr p) as [t| |]; cbn [Bytes.bind] in *; try discriminate.
      destruct (walk_args fixed pre std self t rest) as [[t1 x]| |] eqn:W; cbn in H; try discriminate.
      inversion H; subst. eapply IH; eauto.
Qed.

Lemma name_ref_tracker : forall fixed pre std self tr r tr' txt,
  name_ref fixed pre std self tr r = Ok (tr', txt) -> add_all fixed pre std tr (ref_paths self r) = Ok tr'.
Proof.
  intros fixed pre std self tr r tr' txt H. unfold name_ref in H. unfold ref_paths. rewrite add_all_app.
  destruct (walk_args fixed pre std self tr (r_args r)) as [[t1 a]| |] eqn:W; cbn [Bytes.bind] in H; try discriminate.
  rewrite (walk_args_tracker _ _ _ _ _ _ _ _ W). cbn [Bytes.bind].
  destruct (bytes_eqb (r_path r) self).
  - inversion H; subst. reflexivity.
  - cbn [add_all]. destruct (add fixed pre std t1 (r_path r)) as [t2| |]; cbn [Bytes.bind] in *; try discriminate.
    inversion H; subst. reflexivity.
Qed.

Lemma render_items_tracker : forall fixed pre std self its tr tr' txt,
  render_items fixed pre std self tr its = Ok (tr', txt) ->
  add_all fixed pre std tr (flat_map (item_paths self) its) = Ok tr'.
Proof.
  intros fixed pre std self. induction its as [|[b|r] rest IH]; intros tr tr' txt H; cbn [render_items] in H.
  - inversion H; subst. reflexivity.
  - destruct (render_items fixed pre std self tr rest) as [[t1 x]| |] eqn:W; cbn in H; try discriminate.
    inversion H; subst. cbn [flat_map item_paths app]. eapply IH; eauto.
  - destruct (name_ref fixed pre std self tr r) as [[t1 x]| |] eqn:N; cbn [Bytes.bind] in H; try discriminate.
    destruct (render_items fixed pre std self t1 rest) as [[t2 y]| |] eqn:W; cbn in H; try discriminate.
    inversion H; subst. cbn [flat_map item_paths]. rewrite add_all_app.
    rewrite (name_ref_tracker _ _ _ _ _ _ _ _ N). cbn [Bytes.bind]. eapply IH; eauto.
Qed.

Lemma run_from_tracker : forall fixed pre std self ops tr tr' texts snaps,
  run_from fixed pre std self tr ops = Ok (tr', texts, snaps) ->
  add_all fixed pre std tr (history_paths self ops) = Ok tr'.
Proof.
  intros fixed pre std self. induction ops as [|o rest IH]; intros tr tr' texts snaps H; cbn [run_from] in H.
  - inversion H; subst. reflexivity.
  - destruct (step fixed pre std self tr o) as [[t1 x]| |] eqn:S; cbn [Bytes.bind] in H; try discriminate.
    destruct (run_from fixed pre std self t1 rest) as [[[t2 ts] sn]| |] eqn:W; cbn in H; try discriminate.
    inversion H; subst. unfold history_paths. cbn [flat_map]. rewrite add_all_app.
    assert (E : add_all fixed pre std tr (op_paths self o) = Ok t1).
    { destruct o as [p|its]; cbn [step op_paths] in *.
      - cbn [add_all]. destruct (add fixed pre std tr p) as [t| |]; cbn in *; try discriminate. inversion S; subst. reflexivity.
      - eapply render_items_tracker; eauto. }
    rewrite E. cbn [Bytes.bind]. eapply IH; eauto.
Qed.

(* ------------------------------------------------------------------ the writer's side *)

Definition std_named (s tr : tracker) : Prop :=
  forall p n sn, lookup p (p2n tr) = Some n -> lookup p (p2n s) = Some sn -> n = sn.

Lemma add_std_named : forall fixed pre s tr path tr',
  bij s -> first_choice fixed pre s ->
  inv (Some s) tr -> std_named s tr -> add fixed pre (Some s) tr path = Ok tr' -> std_named s tr'.
Proof.
  intros fixed pre s tr path tr' Bs F I SN H.
  destruct (lookup path (p2n tr)) as [n0|] eqn:L.
  - unfold add in H. rewrite L in H. inversion H; subst. exact SN.
  - destruct (add_first _ _ _ _ _ _ L H) as [(ju & Hb & Hpre)| ->]; [|exact SN].
    intros p n sn Hp Hs. destruct (bytes_dec p path) as [->|Hne].
    + rewrite (bind_bound _ _ _ _ _ _ Hb) in Hp. inversion Hp; subst n. clear Hp.
      destruct (F path sn Hs) as (NP & js & -> & Hq).
      destruct (Nat.lt_trichotomy ju js) as [Hlt|[->|Hgt]]; [exfalso|reflexivity|exfalso].
      * (* a name before the table's choice is refused outright or reserved for another std package *)
        destruct (Hq ju Hlt) as [Hp'|(q & Hqp & Hl)].
        { rewrite (bind_some_not_pre _ _ _ _ _ _ Hb) in Hp'. discriminate. }
        destruct (bind_some _ _ _ _ _ _ Hb) as (Hc & _ & _).
        unfold std_conflict in Hc. rewrite Hl in Hc. apply negb_false_iff in Hc. apply bytes_eqb_spec in Hc. congruence.
      * (* the table's choice cannot have been refused: only [path] itself may hold it *)
        specialize (Hpre js Hgt). apply Bs in Hs. unfold Tracker.bind in Hpre. rewrite NP in Hpre. unfold std_conflict in Hpre.
        rewrite Hs, bytes_eqb_refl in Hpre. cbn [negb] in Hpre.
        destruct (lookup (cand_at fixed path js) (n2p tr)) as [q|] eqn:Lq; [|discriminate].
        pose proof (inv_std _ _ I s _ _ _ eq_refl Lq Hs) as ->. apply (inv_bij _ _ I) in Lq. congruence.
    + destruct (bind_some _ _ _ _ _ _ Hb) as (_ & _ & E). rewrite E in Hp. cbn [p2n] in Hp.
      rewrite lookup_tl in Hp by exact Hne. eapply SN; eauto.
Qed.

Theorem std_packages_keep_their_names : forall fixed pre lines s self ops tr texts snaps,
  build_std fixed pre lines = Ok s ->
  run fixed pre (Some s) self ops = Ok (tr, texts, snaps) ->
  forall p n sn, lookup p (p2n tr) = Some n -> lookup p (p2n s) = Some sn -> n = sn.
Proof.
  intros fixed pre lines s self ops tr texts snaps Hs H.
  unfold build_std in Hs.
  destruct (add_all_preserves fixed pre None (first_choice fixed pre) (fun tr path tr' I P A => add_first_choice fixed pre tr path tr' I P A)
              _ _ _ (inv_empty None) (first_choice_empty fixed pre) Hs) as [Is Fs].
  apply run_from_tracker in H.
  destruct (add_all_preserves fixed pre (Some s) (std_named s)
              (fun tr path tr' I P A => add_std_named fixed pre s tr path tr' (inv_bij _ _ Is) Fs I P A)
              _ _ _ (inv_empty (Some s)) (fun p n sn Hp => ltac:(cbn in Hp; discriminate)) H) as [_ SN].
  exact SN.
Qed.
