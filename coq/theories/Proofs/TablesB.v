(* Tables, part B: C12's tag extraction composed with C06's merge / IsGeneratorEnabled — the enabling rule stated on
   SOURCE COMMENT LINES. *)
Require Import Gengo.Base.Bytes Gengo.Model.Tables.
From Coq Require Import ZArith Permutation.
Require Gengo.Proofs.Dispatch Gengo.Proofs.Comments.

Module DP := Gengo.Proofs.Dispatch.
Module CP := Gengo.Proofs.Comments.

(* ------------------------------------------------------------------------------------------ *)
(* one level: the tag map of a list of lines                                                   *)

Definition tags_of_lines (lines : list bytes) : D.tags := tags_of_c12 (fst (Cm.extract_tags true [] lines)).

Lemma lookup_tag_lookup : forall k (m : Cm.tagmap), D.lookup k (tags_of_c12 m) = Cm.tag_lookup k m.
Proof.
  intros k m. unfold tags_of_c12. induction m as [|[k' vs] r IH]; cbn; [reflexivity|].
  rewrite (DP.bytes_eqb_sym k' k). destruct (bytes_eqb k k'); [reflexivity|exact IH].
Qed.

Lemma tags_of_lines_lookup : forall lines k, D.lookup k (tags_of_lines lines) = line_value lines k.
Proof.
  intros lines k. unfold tags_of_lines. rewrite lookup_tag_lookup.
  destruct (CP.extract_tags_spec [] lines) as (_ & Hv & Hn & _ & _). cbn zeta in Hv, Hn.
  unfold line_value, ms0. specialize (Hv k). specialize (Hn k). unfold CP.tag_values in Hv.
  destruct (Cm.tag_lookup k (fst (Cm.extract_tags true [] lines))) as [vs|] eqn:E.
  - rewrite <- Hv. destruct vs as [|v vs']; [|reflexivity].
    exfalso. symmetry in Hv. apply Hn in Hv. discriminate.
  - rewrite (proj1 Hn eq_refl). reflexivity.
Qed.

Lemma tags_of_lines_nodup : forall lines, NoDup (D.keys (tags_of_lines lines)).
Proof.
  intros lines. destruct (CP.extract_tags_spec [] lines) as (_ & _ & _ & Hnd & _). exact Hnd.
Qed.

Lemma spec_values_nil_iff : forall ms S k,
  map CS.tag_value (filter (fun l => CS.is_tag ms l && bytes_eqb (CS.tag_key l) k) S) = []
  <-> ~ In k (map CS.tag_key (filter (CS.is_tag ms) S)).
Proof.
  intros ms S k. induction S as [|l r IH]; cbn [filter map].
  - split; [intros _ H; exact H|reflexivity].
  - destruct (CS.is_tag ms l); cbn [andb].
    + destruct (bytes_eqb (CS.tag_key l) k) eqn:E; cbn [map].
      * apply bytes_eqb_spec in E. split; [discriminate|]. intros H. exfalso. apply H. left. exact E.
      * rewrite IH. split.
        -- intros H [H1|H1]; [|exact (H H1)]. subst. rewrite bytes_eqb_refl in E. discriminate.
        -- intros H H1. apply H. right. exact H1.
    + exact IH.
Qed.

Lemma tags_of_lines_keys : forall lines k, In k (D.keys (tags_of_lines lines)) <-> In k (CS.spec_keys ms0 lines).
Proof.
  intros lines k.
  pose proof (DP.lookup_None_notin (tags_of_lines lines) k) as H. rewrite tags_of_lines_lookup in H.
  unfold line_value, CS.spec_values, CS.spec_keys in *.
  pose proof (spec_values_nil_iff ms0 (map CS.strip lines) k) as N.
  destruct (map CS.tag_value _) as [|v vs] eqn:E.
  - split; intros Hin.
    + exfalso. apply (proj1 H eq_refl). exact Hin.
    + exfalso. apply (proj1 N eq_refl). exact Hin.
  - split; intros Hin.
    + destruct (in_dec (list_eq_dec Ascii.ascii_dec) k (map CS.tag_key (filter (CS.is_tag ms0) (map CS.strip lines)))) as [Y|Nn]; [exact Y|].
      apply N in Nn. discriminate.
    + destruct (in_dec (list_eq_dec Ascii.ascii_dec) k (D.keys (tags_of_lines lines))) as [Y|Nn]; [exact Y|].
      apply H in Nn. discriminate.
Qed.

(* ------------------------------------------------------------------------------------------ *)
(* the package level: several files, the later file wins                                       *)

Lemma first_some_snoc : forall {A} (l : list (option A)) b, first_some (l ++ [b]) = DP.or_else (first_some l) b.
Proof.
  intros A l b. induction l as [|[a|] r IH]; cbn; [destruct b; reflexivity|reflexivity|exact IH].
Qed.

Lemma pkg_tags_lookup : forall files k,
  (forall t, In t files -> NoDup (D.keys t)) ->
  D.lookup k (D.pkg_tags files) = first_some (map (D.lookup k) (rev files)).
Proof.
  intros files k. induction files as [|t r IH] using rev_ind; intros Hnd; [reflexivity|].
  rewrite DP.pkg_tags_lookup_snoc by (apply Hnd; apply in_or_app; right; left; reflexivity).
  rewrite rev_app_distr. cbn [rev app map first_some]. rewrite IH by (intros t' Ht'; apply Hnd; apply in_or_app; left; exact Ht').
  unfold DP.or_else. destruct (D.lookup k t); reflexivity.
Qed.

Lemma fold_merge_keys : forall files m k,
  In k (D.keys (fold_left D.merge_into files m)) <-> In k (D.keys m) \/ In k (flat_map (@D.keys (list bytes)) files).
Proof.
  induction files as [|t r IH]; intros m k; cbn [fold_left flat_map].
  - cbn. tauto.
  - rewrite IH, DP.merge_into_keys_in, in_app_iff. tauto.
Qed.

Lemma pkg_tags_keys : forall files k, In k (D.keys (D.pkg_tags files)) <-> In k (flat_map (@D.keys (list bytes)) files).
Proof.
  intros files k. unfold D.pkg_tags, D.merge. rewrite fold_merge_keys. cbn. tauto.
Qed.

Lemma flat_map_keys_lines : forall pkgdocs k,
  In k (flat_map (@D.keys (list bytes)) (map tags_of_lines pkgdocs)) <-> In k (flat_map (CS.spec_keys ms0) pkgdocs).
Proof.
  induction pkgdocs as [|ls r IH]; intros k; cbn [map flat_map]; [reflexivity|].
  rewrite !in_app_iff, IH, tags_of_lines_keys. reflexivity.
Qed.

(* ------------------------------------------------------------------------------------------ *)
(* the rule on lines                                                                           *)

(* a declaration that carries the tags [T] *)
Definition with_tags (T : D.tags) : D.tdef := D.mk_tdef 0 [] D.KNamed true T D.ANil [].

Lemma first_some_chain : forall {A} (a : option A) l b,
  first_some (a :: l ++ [b]) = DP.or_else a (DP.or_else (first_some l) b).
Proof.
  intros A a l b. cbn [first_some]. destruct a; [reflexivity|]. cbn. apply first_some_snoc.
Qed.

Theorem enabled_lines_rule : forall g G pkgdocs lines,
  NoDup (D.keys G) ->
  enabled_from_lines g G (D.pkg_tags (map tags_of_lines pkgdocs)) lines = source_rule g G pkgdocs lines.
Proof.
  intros g G pkgdocs lines HG. unfold enabled_from_lines. fold (tags_of_lines lines).
  set (P := D.pkg_tags (map tags_of_lines pkgdocs)). set (T := tags_of_lines lines).
  assert (HP : NoDup (D.keys P)) by apply DP.merge_nodup.
  assert (HT : NoDup (D.keys T)) by apply tags_of_lines_nodup.
  change (D.merge [G; P; T]) with (D.doc_tags G P (with_tags T)).
  rewrite (DP.enabled_effective g G P (with_tags T) _ HG HP HT (Permutation_refl _)).
  unfold DP.enabled_eff_spec, source_rule, source_lookup. cbn [D.td_tags with_tags].
  rewrite first_some_chain.
  assert (EP : D.lookup (D.gengo_prefix g) P = first_some (map (fun ls => line_value ls (D.gengo_prefix g)) (rev pkgdocs))).
  { unfold P. rewrite pkg_tags_lookup.
    - rewrite <- map_rev, map_map. apply f_equal. apply map_ext. intros ls. apply tags_of_lines_lookup.
    - intros t Ht. apply in_map_iff in Ht. destruct Ht as (ls & <- & _). apply tags_of_lines_nodup. }
  unfold T at 1. rewrite tags_of_lines_lookup, EP.
  destruct (DP.or_else _ _); [reflexivity|].
  apply DP.existsb_same_members. intros k. unfold source_keys. rewrite !in_app_iff.
  unfold T, P. rewrite tags_of_lines_keys, pkg_tags_keys, flat_map_keys_lines. reflexivity.
Qed.

(* ------------------------------------------------------------------------------------------ *)
(* ... and on layouts (C12's attribution)                                                      *)

Lemma decl_tags_own : forall evs leads, CS.wf evs leads -> forall d, In d (CS.decls_of evs) ->
  decl_tags evs (Cm.p_file (Cm.d_pos d)) (Cm.p_line (Cm.d_pos d))
  = tags_of_lines (CS.doc_lines_above leads (Cm.p_file (Cm.d_pos d)) (Cm.p_line (Cm.d_pos d))).
Proof.
  intros evs leads WF d Hd. unfold decl_tags, tags_of_lines. rewrite (CP.doc_own evs leads WF d Hd). reflexivity.
Qed.

Lemma pkg_tags_from_source_eq : forall docs,
  pkg_tags_from_source docs = D.pkg_tags (map tags_of_lines (map Cm.split_nl docs)).
Proof. intros docs. unfold pkg_tags_from_source. rewrite map_map. reflexivity. Qed.

(* For every layout satisfying C12's well-formedness, every declaration d of it, every generator name, all global
   tags, all package doc texts: IsGeneratorEnabled on what Context.Doc returns at the declaration's line is the
   rule evaluated on the lines of the stand-alone comment group ending on the line above d, the lines of the
   package docs and the global tags. *)
Theorem enabled_from_source_rule : forall g G docs evs leads d,
  NoDup (D.keys G) -> CS.wf evs leads -> In d (CS.decls_of evs) ->
  enabled_from_source g G docs evs (Cm.p_file (Cm.d_pos d)) (Cm.p_line (Cm.d_pos d))
  = source_rule g G (map Cm.split_nl docs)
                (CS.doc_lines_above leads (Cm.p_file (Cm.d_pos d)) (Cm.p_line (Cm.d_pos d))).
Proof.
  intros g G docs evs leads d HG WF Hd. unfold enabled_from_source.
  rewrite (decl_tags_own evs leads WF d Hd), pkg_tags_from_source_eq.
  apply (enabled_lines_rule g G (map Cm.split_nl docs) _ HG).
Qed.

(* Context.Doc asks at the position of the NAME.  For every name of the declaration — under the negation of C12's
   known-finding class (no name on a continuation line) *)
Theorem enabled_from_source_rule_names : forall g G docs evs leads d l,
  NoDup (D.keys G) -> CS.wf evs leads -> CS.name_on_continuation_line evs = false ->
  In d (CS.decls_of evs) -> In l (Cm.d_names d) ->
  enabled_from_source g G docs evs (Cm.p_file (Cm.d_pos d)) l
  = source_rule g G (map Cm.split_nl docs)
                (CS.doc_lines_above leads (Cm.p_file (Cm.d_pos d)) (Cm.p_line (Cm.d_pos d))).
Proof.
  intros g G docs evs leads d l HG WF Hn Hd Hl.
  rewrite (CP.names_on_first_line evs Hn d l Hd Hl). apply enabled_from_source_rule; assumption.
Qed.

(* the side condition cannot be dropped: `// +gengo:x` / `F,` / `G int`: at G's line the tag is not seen *)
Definition r_doc : Cm.group := Cm.mk_group (Cm.mk_pos 0 3 2) 3 (bs "+gengo:x" ++ [Cm.c_nl]).
Definition r_fg : Cm.decl := Cm.mk_decl (Cm.mk_pos 0 4 2) [4%Z; 5%Z] (Some r_doc) None.
Definition r_events : list Cm.event := [Cm.EDecl r_fg; Cm.EGroup r_doc].

Lemma enabled_from_source_names_refuted :
  exists g G docs evs leads d l,
    NoDup (D.keys G) /\ CS.wf evs leads /\ In d (CS.decls_of evs) /\ In l (Cm.d_names d)
    /\ enabled_from_source g G docs evs (Cm.p_file (Cm.d_pos d)) l = false
    /\ source_rule g G (map Cm.split_nl docs)
                   (CS.doc_lines_above leads (Cm.p_file (Cm.d_pos d)) (Cm.p_line (Cm.d_pos d))) = true.
Proof.
  exists (bs "x"), [], [], r_events, [r_doc], r_fg, 5%Z.
  split; [constructor|]. split; [apply CP.wf_b_sound; vm_compute; reflexivity|].
  split; [left; reflexivity|]. split; [right; left; reflexivity|]. split; vm_compute; reflexivity.
Qed.

(* ------------------------------------------------------------------------------------------ *)
(* readable instances of the rule                                                              *)

Lemma source_rule_decl_decides : forall g G pkgdocs decl v vs,
  CS.spec_values ms0 decl (D.gengo_prefix g) = v :: vs ->
  source_rule g G pkgdocs decl = negb (bytes_eqb (concat (v :: vs)) D.str_false).
Proof.
  intros g G pkgdocs decl v vs H. unfold source_rule, source_lookup, line_value. cbn [first_some]. rewrite H. reflexivity.
Qed.

Lemma source_rule_no_tag_anywhere : forall g G pkgdocs decl,
  (forall k, In k (source_keys G pkgdocs decl) ->
             k <> D.gengo_prefix g /\ D.has_prefix (D.gengo_prefix g ++ D.colon) k = false) ->
  source_rule g G pkgdocs decl = false.
Proof.
  intros g G pkgdocs decl H. unfold source_rule.
  assert (HN : source_lookup G pkgdocs decl (D.gengo_prefix g) = None).
  { unfold source_lookup. cbn [first_some].
    assert (L : forall ls, (forall k, In k (CS.spec_keys ms0 ls) -> k <> D.gengo_prefix g) -> line_value ls (D.gengo_prefix g) = None).
    { intros ls Hk. unfold line_value, CS.spec_values, CS.spec_keys in *.
      destruct (map CS.tag_value _) eqn:E; [reflexivity|].
      exfalso. assert (Hn : ~ In (D.gengo_prefix g) (map CS.tag_key (filter (CS.is_tag ms0) (map CS.strip ls)))).
      { intros Hin. exact (Hk _ Hin eq_refl). }
      apply spec_values_nil_iff in Hn. rewrite Hn in E. discriminate. }
    rewrite L by (intros k Hk; apply H; unfold source_keys; apply in_or_app; left; exact Hk).
    assert (L2 : first_some (map (fun ls => line_value ls (D.gengo_prefix g)) (rev pkgdocs) ++ [D.lookup (D.gengo_prefix g) G]) = None).
    { rewrite first_some_snoc.
      assert (F : first_some (map (fun ls => line_value ls (D.gengo_prefix g)) (rev pkgdocs)) = None).
      { assert (Hall : forall ls, In ls (rev pkgdocs) -> line_value ls (D.gengo_prefix g) = None).
        { intros ls Hls. apply L. intros k Hk. apply H. unfold source_keys. apply in_or_app. right. apply in_or_app. left.
          apply in_flat_map. exists ls. split; [apply in_rev; exact Hls|exact Hk]. }
        induction (rev pkgdocs) as [|x r IH]; [reflexivity|]. cbn [map first_some]. rewrite (Hall x) by (left; reflexivity).
        apply IH. intros ls Hls. apply Hall. right. exact Hls. }
      rewrite F. cbn. apply DP.lookup_None_notin. intros Hin.
      apply (proj1 (H (D.gengo_prefix g) (in_or_app _ _ _ (or_intror (in_or_app _ _ _ (or_intror Hin)))))). reflexivity. }
    exact L2. }
  rewrite HN. destruct (existsb _ _) eqn:E; [|reflexivity].
  apply existsb_exists in E. destruct E as (k & Hin & Hp). rewrite (proj2 (H k Hin)) in Hp. discriminate.
Qed.

(* ------------------------------------------------------------------------------------------ *)
(* dispatch driven by the source: C06's exactly-once with the enabling rule on comment lines   *)

Lemma tdef_from_source_tags : forall dtext d,
  D.td_tags (tdef_from_source dtext d) = tags_of_lines (CS.spec_lines (dtext (D.td_id d))).
Proof. intros dtext d. unfold tdef_from_source, tags_of_lines. cbn [D.td_tags]. rewrite CP.group_lines_spec. reflexivity. Qed.

Theorem exactly_once_from_source : forall g G ftexts dtext defs pi ns,
  NoDup (D.keys G) ->
  NoDup (map D.td_name (filter D.td_pkgscope defs)) ->
  let sdefs := map (tdef_from_source dtext) defs in
  let P := pkg_tags_from_source ftexts in
  Permutation pi sdefs ->
  Permutation ns (D.keys (D.type_table true pi)) ->
  (forall d, In d defs -> D.td_action d <> D.AErr) ->
  exists cs,
    D.do_generate g G P (D.type_table true pi) ns = Ok (cs, false)
    /\ NoDup cs
    /\ forall k d', In (k, d') cs <->
         exists d, In d defs /\ d' = tdef_from_source dtext d /\ D.td_pkgscope d = true
           /\ source_rule (D.g_name g) G (map Cm.split_nl ftexts) (CS.spec_lines (dtext (D.td_id d))) = true
           /\ ((k = D.CT /\ D.td_kind d = D.KNamed) \/ (k = D.CA /\ D.td_kind d = D.KAlias /\ D.g_alias g = true)).
Proof.
  intros g G ftexts dtext defs pi ns HG Hnd sdefs P Hpi Hns Hne.
  assert (Hnd' : NoDup (map D.td_name (filter D.td_pkgscope sdefs))).
  { unfold sdefs. clear -Hnd. induction defs as [|d r IH]; cbn [map filter]; [constructor|].
    cbn [filter map] in Hnd. cbn [tdef_from_source D.td_pkgscope]. destruct (D.td_pkgscope d); cbn [map].
    - cbn [map] in Hnd. inversion Hnd as [|? ? Hn Hr]; subst. constructor; [|apply IH; exact Hr].
      cbn [D.td_name tdef_from_source]. intros Hin. apply Hn. clear -Hin.
      induction r as [|x r IH]; cbn [map filter] in *; [contradiction|].
      cbn [tdef_from_source D.td_pkgscope] in Hin. destruct (D.td_pkgscope x); cbn [map] in *; [|apply IH; exact Hin].
      destruct Hin as [E|Hin]; [left; exact E|right; apply IH; exact Hin].
    - apply IH. exact Hnd. }
  assert (Htags : forall d, In d sdefs -> NoDup (D.keys (D.td_tags d))).
  { intros d Hd. apply in_map_iff in Hd. destruct Hd as (d0 & <- & _). rewrite tdef_from_source_tags. apply tags_of_lines_nodup. }
  assert (Hne' : forall d, In d sdefs -> D.td_action d <> D.AErr).
  { intros d Hd. apply in_map_iff in Hd. destruct Hd as (d0 & <- & Hd0). cbn. apply Hne. exact Hd0. }
  assert (HP : NoDup (D.keys P)) by apply DP.merge_nodup.
  destruct (DP.exactly_once g G P sdefs pi ns HG HP Htags Hnd' Hpi Hns Hne') as (cs & Hrun & Hcs & Hiff).
  exists cs. split; [exact Hrun|]. split; [exact Hcs|].
  assert (Hrule : forall d, DP.enabled_eff_spec (D.g_name g) G P (D.td_tags (tdef_from_source dtext d))
                            = source_rule (D.g_name g) G (map Cm.split_nl ftexts) (CS.spec_lines (dtext (D.td_id d)))).
  { intros d. rewrite tdef_from_source_tags. set (L := CS.spec_lines (dtext (D.td_id d))).
    unfold P. rewrite pkg_tags_from_source_eq. set (P' := D.pkg_tags (map tags_of_lines (map Cm.split_nl ftexts))).
    rewrite <- (enabled_lines_rule (D.g_name g) G (map Cm.split_nl ftexts) L HG). fold P'.
    unfold enabled_from_lines. fold (tags_of_lines L).
    change (D.merge [G; P'; tags_of_lines L]) with (D.doc_tags G P' (with_tags (tags_of_lines L))).
    symmetry.
    exact (DP.enabled_effective (D.g_name g) G P' (with_tags (tags_of_lines L)) _ HG (DP.merge_nodup _)
                                (tags_of_lines_nodup L) (Permutation_refl _)). }
  intros k d'. rewrite Hiff. split.
  - intros (Hin & Hs & He & Hk). apply in_map_iff in Hin. destruct Hin as (d & <- & Hd).
    exists d. split; [exact Hd|]. split; [reflexivity|]. split; [exact Hs|]. split; [rewrite <- Hrule; exact He|exact Hk].
  - intros (d & Hd & -> & Hs & He & Hk). split; [apply in_map; exact Hd|]. split; [exact Hs|].
    split; [rewrite Hrule; exact He|exact Hk].
Qed.
