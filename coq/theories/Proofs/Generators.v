(* Agreement of the two models of devpkg/deepcopygen/helper/copy_fields.go (C17: Model/DeepCopy.v, C18:
   Model/GenPartialStruct.v) through the adapter of Model/Generators.v, and the transfer of C17's heap-level theorems
   to the DeepCopyAs / DeepCopyIntoAs bodies partialstruct generates. *)
Require Import Gengo.Base.Bytes.
Require Import Gengo.Model.Generators.
Require Gengo.Proofs.DeepCopy Gengo.Proofs.DeepCopySem Gengo.Proofs.DeepCopyTop Gengo.Proofs.GenPartialStruct.
From Coq Require Import Lia ZArith.

Module PD := Gengo.Proofs.DeepCopy.
Module PDS := Gengo.Proofs.DeepCopySem.
Module PP := Gengo.Proofs.GenPartialStruct.

Lemma nat_eqb_1 : forall n, Nat.eqb (N.to_nat n) 1 = N.eqb n 1.
Proof.
  intros n. destruct (N.eqb_spec n 1) as [->|H]; [reflexivity|]. apply Nat.eqb_neq. lia.
Qed.
Lemma nat_eqb_0 : forall n, Nat.eqb (N.to_nat n) 0 = N.eqb n 0.
Proof.
  intros n. destruct (N.eqb_spec n 0) as [->|H]; [reflexivity|]. apply Nat.eqb_neq. lia.
Qed.

Lemma underscore_not_copy : forall name, bytes_eqb ("_"%char :: name) DC.n_copy = false.
Proof. intros. reflexivity. Qed.
Lemma underscore_not_into : forall name, bytes_eqb ("_"%char :: name) DC.n_into = false.
Proof. intros. reflexivity. Qed.

Lemma scan_step_agree : forall name np nr p0 r0 a b ptr,
  DC.scan_step (a, b, ptr) (msig17 (name, np, nr, p0, r0)) =
  (let hc := bytes_eqb name PS.dc_name && N.eqb nr 1 && N.eqb np 0 in
   let hi := bytes_eqb name PS.dc_into_name && N.eqb np 1 && N.eqb nr 0 in
   let ptr1 := if hc then (if r0 then ptr else false) else ptr in
   let ptr2 := if hi then (if p0 then ptr1 else false) else ptr1 in
   (hc, hi, ptr2)).
Proof.
  intros. unfold msig17. destruct (bytes_eqb name PS.dc_name) eqn:E1.
  - apply bytes_eqb_spec in E1. subst name. unfold DC.scan_step.
    cbn [DC.ms_name DC.ms_params DC.ms_results DC.ms_ptr].
    rewrite !nat_eqb_1, !nat_eqb_0.
    change (bytes_eqb DC.n_copy DC.n_copy) with true.
    change (bytes_eqb DC.n_copy DC.n_into) with false.
    change (bytes_eqb PS.dc_name PS.dc_into_name) with false.
    cbn [andb]. reflexivity.
  - destruct (bytes_eqb name PS.dc_into_name) eqn:E2.
    + apply bytes_eqb_spec in E2. subst name. unfold DC.scan_step.
      cbn [DC.ms_name DC.ms_params DC.ms_results DC.ms_ptr].
      rewrite !nat_eqb_1, !nat_eqb_0.
      change (bytes_eqb DC.n_into DC.n_copy) with false.
      change (bytes_eqb DC.n_into DC.n_into) with true.
      cbn [andb]. reflexivity.
    + unfold DC.scan_step. cbn [DC.ms_name DC.ms_params DC.ms_results DC.ms_ptr].
      rewrite underscore_not_copy, underscore_not_into. cbn [andb]. reflexivity.
Qed.

Lemma scan_agree_from : forall ms st, fold_left DC.scan_step (map msig17 ms) st = PS.scan_methods ms st.
Proof.
  induction ms as [|[[[[name np] nr] p0] r0] r IH]; intros [[a b] ptr]; [reflexivity|].
  cbn [map fold_left PS.scan_methods]. rewrite scan_step_agree. cbv zeta. apply IH.
Qed.

Lemma scan_agree : forall ms, DC.scan (map msig17 ms) = PS.scan_methods ms (false, false, true).
Proof. intros. apply scan_agree_from. Qed.

Lemma choose_agree : forall f hc hi ptr, stmt17 (PS.select_named f (hc, hi, ptr)) = DC.choose f hc hi ptr.
Proof.
  intros. unfold PS.select_named, DC.choose.
  destruct (ptr && hi); [reflexivity|]. destruct (negb ptr && hc); [reflexivity|]. destruct (ptr && hc); reflexivity.
Qed.
Section Agree.
  Variables (L : bytes -> bytes) (target : bytes) (c : PS.cfg).
  Hypothesis Herr : PS.fx_errnil c = true.

  Lemma ety_text : forall e et, ety17 L target e = Some et -> DC.render_ety et = text_of L target c e.
  Proof.
    intros e et H. unfold text_of. destruct e as [n| | |pkg name u ms|e|e|n e|k v|txt|ap an ar]; cbn [ety17] in H; try discriminate.
    - inversion H. reflexivity.
    - destruct u; try discriminate. inversion H. cbn [PS.type_lit].
      destruct (bytes_eqb pkg target); reflexivity.
  Qed.

  Lemma is_iface_kind : forall d, DC.is_iface (Some d) = match DC.d_kind d with DC.DIface => true | _ => false end.
  Proof. intros [n k t i h]. destruct k; reflexivity. Qed.
  Lemma is_map_kind : forall d, DC.is_map (Some d) = match DC.d_kind d with DC.DMap _ _ => true | _ => false end.
  Proof. intros [n k t i h]. destruct k; reflexivity. Qed.

  (* the helper without callbacks: the two models select the same statement for every field of the common domain *)
  Theorem field_stmt_agree : forall G f ft,
    fty17 L target c (PS.f_ty f) = Some ft ->
    agrees target G (PS.f_ty f) ->
    exists s18 i s17 dep,
      PS.field_stmt L target c false f = PS.GOk s18 i /\
      DC.field_stmt DC.all_fixed G [] (PS.f_name f) ft = Ok (s17, dep) /\
      stmt17 s18 = s17.
  Proof.
    intros G f ft Hft Hag. unfold PS.field_stmt, PS.field_stmt_gen. cbv zeta.
    destruct (PS.f_ty f) as [n| | |pkg name u ms|e|e|n e|k v|txt|ap an ar] eqn:Et; cbn [fty17] in Hft; try discriminate;
      cbn [PS.switch_type PS.unalias PS.field_type_lit].
    - inversion Hft. do 4 eexists. split; [reflexivity|]. split; reflexivity.
    - inversion Hft. do 4 eexists. split; [reflexivity|]. split; reflexivity.
    - inversion Hft. rewrite Herr. do 4 eexists. split; [reflexivity|]. split; [apply PD.field_stmt_fixed_error|reflexivity].
    - cbn [agrees] in Hag. destruct (bytes_eqb pkg target) eqn:Ep.
      + inversion Hft; subst ft. clear Hft. destruct (Hag eq_refl) as [[d [Hl [Hk Hh]]] Hif]. clear Hag.
        cbn [DC.field_stmt DC.all_fixed DC.fx_iface DC.fx_mapptr andb]. rewrite Hl.
        rewrite is_iface_kind, is_map_kind. cbn [DC.hand_of]. unfold DC.sigs_of. cbn [flat_map]. rewrite app_nil_r.
        rewrite Hh, scan_agree.
        destruct u; destruct (DC.d_kind d); cbn [kind_agrees] in Hk; try contradiction;
          cbn [PS.is_uiface PS.is_umap negb andb].
        * destruct (PS.scan_methods ms (false, false, true)) as [[hc hi] ptr].
          do 4 eexists. split; [reflexivity|]. split; [reflexivity|]. apply choose_agree.
        * destruct (PS.scan_methods ms (false, false, true)) as [[hc hi] ptr].
          do 4 eexists. split; [reflexivity|]. split; [reflexivity|]. apply choose_agree.
        * rewrite (Hif eq_refl). cbn [PS.scan_methods].
          do 4 eexists. split; [reflexivity|]. split; reflexivity.
        * destruct (PS.scan_methods ms (false, false, true)) as [[hc hi] ptr].
          do 4 eexists. split; [reflexivity|]. split; [reflexivity|]. apply choose_agree.
      + inversion Hft; subst ft. clear Hft. cbn [andb DC.field_stmt]. rewrite scan_agree.
        destruct (PS.scan_methods ms (false, false, true)) as [[hc hi] ptr].
        do 4 eexists. split; [reflexivity|]. split; [reflexivity|]. apply choose_agree.
    - destruct (ety17 L target e) as [et|] eqn:Ee; [|discriminate]. inversion Hft; subst ft.
      cbn [PS.type_lit]. pose proof (ety_text e et Ee) as Ht. unfold text_of in Ht.
      destruct (PS.type_lit L target c e) as [o i]. cbn [fst] in Ht.
      do 4 eexists. split; [reflexivity|]. split; [reflexivity|]. cbn [stmt17 print_oty]. rewrite Ht. reflexivity.
    - destruct (ety17 L target v) as [et|] eqn:Ee; [|discriminate]. inversion Hft; subst ft.
      cbn [PS.type_lit]. pose proof (ety_text v et Ee) as Ht. unfold text_of in Ht |- *.
      destruct (PS.type_lit L target c k) as [ok ik]. destruct (PS.type_lit L target c v) as [ov iv]. cbn [fst] in Ht |- *.
      do 4 eexists. split; [reflexivity|]. split; [reflexivity|]. cbn [stmt17 print_oty]. rewrite Ht. reflexivity.
    - inversion Hft. do 4 eexists. split; [reflexivity|]. split; reflexivity.
  Qed.

  (* outside the common domain the Go switch (and C18's model) looks at the top-level constructor only *)
  Theorem outside_domain_stmt : forall f b,
    fty17 L target c (PS.f_ty f) = None ->
    exists s i, PS.field_stmt L target c b f = PS.GOk s i /\
      match PS.f_ty f with
      | PS.TSlice _ => exists o, s = PS.SCopySlice (PS.f_name f) o
      | PS.TMap _ _ => exists o, s = PS.SCopyMap (PS.f_name f) o
      | PS.TAlias _ _ _ => True      (* alias types are outside C17's model altogether: see C18_copy_alias_* *)
      | _ => s = PS.SAssign (PS.f_name f)
      end.
  Proof.
    intros f b H. unfold PS.field_stmt, PS.field_stmt_gen. cbv zeta.
    destruct (PS.f_ty f) as [n| | |pkg name u ms|e|e|n e|k v|txt|ap an ar] eqn:Et; cbn [fty17] in H; try discriminate;
      cbn [PS.switch_type PS.unalias PS.field_type_lit].
    - do 2 eexists. split; reflexivity.
    - destruct (PS.type_lit L target c (PS.TSlice e)) as [o i]. do 2 eexists. split; [reflexivity|]. eauto.
    - do 2 eexists. split; reflexivity.
    - destruct (PS.type_lit L target c (PS.TMap k v)) as [o i]. do 2 eexists. split; [reflexivity|]. eauto.
    - destruct (bytes_eqb ap target); destruct (PS.unalias ar) as [n| | |pkg name u ms|e|e|n e|k v|txt|bp bn br];
        destruct b; try rewrite Herr;
        try (destruct (PS.scan_methods ms (false, false, true)) as [[hc hi] ptr]);
        try (destruct (bytes_eqb pkg target && negb (PS.is_uiface u)));
        do 2 eexists; (split; [reflexivity|exact I]).
  Qed.

  (* ---- partialstruct's callbacks: the ONLY difference between the two uses of the helper ---- *)

  (* FieldContext is consulted inside `case *types.Named` only (the predeclared error is a *types.Named) ... *)
  Theorem callback_not_named : forall f,
    is_named_ty (PS.f_ty f) = false -> PS.field_stmt L target c true f = PS.field_stmt L target c false f.
  Proof.
    intros f H. unfold PS.field_stmt, PS.field_stmt_gen, PS.switch_type, is_named_ty in *. cbv zeta.
    destruct (PS.unalias (PS.f_ty f)) eqn:Eu; try discriminate;
      destruct (PS.f_ty f) eqn:Et; cbn [PS.unalias] in Eu; try discriminate Eu; reflexivity.
  Qed.

  (* ... and there the context it returns (HasDeepCopy, HasDeepCopyInto, PtrResultOrParam; InSamePkg = false, so no
     "always gen", no OnLocalDep, no map-type refinement) selects in.F.DeepCopyIntoAs(&out.F), whatever the type *)
  Theorem callback_named : forall f,
    is_named_ty (PS.f_ty f) = true ->
    PS.field_stmt L target c true f = PS.GOk (PS.SCallInto (PS.f_name f) PS.dc_into_name) [].
  Proof.
    intros f H. unfold PS.field_stmt, PS.field_stmt_gen, PS.switch_type, is_named_ty in *. cbv zeta.
    destruct (PS.unalias (PS.f_ty f)) eqn:Eu; try discriminate; reflexivity.
  Qed.

  (* one retained field of the generated struct, callbacks included *)
  Theorem field_stmt_agree_cb : forall G repl f n ft,
    field17 L target c repl f = Some (n, ft) ->
    agrees_field target G repl f ->
    n = PS.f_name f /\
    exists s18 i dep,
      PS.field_stmt L target c (replaced repl f) f = PS.GOk s18 i /\
      DC.field_stmt DC.all_fixed G [] n ft = Ok (stmt17 s18, dep).
  Proof.
    intros G repl f n ft Hf Hag. unfold field17 in Hf. unfold agrees_field in Hag.
    destruct (replaced repl f && is_named_ty (PS.f_ty f)) eqn:Er.
    - apply andb_true_iff in Er. destruct Er as [Hr Hn]. inversion Hf; subst n ft. split; [reflexivity|].
      rewrite Hr, (callback_named f Hn). destruct Hag as [d [Hl [Hk Hp]]].
      do 3 eexists. split; [reflexivity|].
      cbn [DC.field_stmt DC.all_fixed DC.fx_iface DC.fx_mapptr andb]. rewrite Hl.
      rewrite is_iface_kind, is_map_kind. cbn [DC.hand_of]. unfold DC.sigs_of. cbn [flat_map]. rewrite app_nil_r.
      destruct (DC.scan (DC.d_hand d)) as [[a b] p]. cbn [snd] in Hp. subst p.
      destruct Hk as [Hk|[tp [fs Hk]]]; rewrite Hk; reflexivity.
    - destruct (fty17 L target c (PS.f_ty f)) as [ft'|] eqn:Eft; [|discriminate]. cbn [option_map] in Hf.
      inversion Hf; subst n ft. split; [reflexivity|].
      destruct (field_stmt_agree G f ft' Eft Hag) as [s18 [i [s17 [dep [H1 [H2 H3]]]]]].
      exists s18, i, dep. split; [|rewrite H3; exact H2].
      destruct (replaced repl f); [|exact H1]. cbn [andb] in Er. rewrite (callback_not_named f Er). exact H1.
  Qed.

  (* Skip + the loop: the body of DeepCopyIntoAs is C17's fields_copy of the struct partialstruct emits *)
  Theorem stmts_agree : forall ti g i fs G cfs,
    PS.generate_type L target c ti = PS.TGen g i ->
    PS.ti_under ti = Some fs ->
    fields17 L target c (PS.replace_map (PS.ti_replace ti) []) (filter (keep (PS.ti_omit ti)) fs) = Some cfs ->
    (forall f, In f fs -> keep (PS.ti_omit ti) f = true ->
               agrees_field target G (PS.replace_map (PS.ti_replace ti) []) f) ->
    map fst cfs = map PS.f_name (filter (keep (PS.ti_omit ti)) fs) /\
    exists deps, DC.fields_copy DC.all_fixed G [] cfs = Ok (map stmt17 (PS.g_stmts g), deps).
  Proof.
    intros ti g i fs G cfs Hg Hu Hc Hag.
    apply PP.generate_type_gen_inv in Hg. destruct Hg as [_ [fs' [o [Hu' [_ [_ [_ [i3 Hs]]]]]]]].
    rewrite Hu in Hu'. inversion Hu'; subst fs'. clear Hu'.
    apply PP.gen_stmts_loop_spec in Hs. destruct Hs as [ss [Hss HF]]. cbn [app] in Hss. subst ss.
    change (PP.retained (PS.copy_skip (PS.ti_omit ti))) with (keep (PS.ti_omit ti)) in HF.
    assert (Hag' : forall f, In f (filter (keep (PS.ti_omit ti)) fs) ->
                             agrees_field target G (PS.replace_map (PS.ti_replace ti) []) f).
    { intros f Hin. apply filter_In in Hin. destruct Hin. apply Hag; assumption. }
    clear Hag. revert cfs Hc.
    induction HF as [|f s l ss [j Hfs] HF IH]; intros cfs Hc; cbn [fields17] in Hc.
    - inversion Hc. split; [reflexivity|]. exists []. reflexivity.
    - destruct (field17 L target c (PS.replace_map (PS.ti_replace ti) []) f) as [[n ft]|] eqn:Ef; [|discriminate].
      destruct (fields17 L target c (PS.replace_map (PS.ti_replace ti) []) l) as [xs|] eqn:Ex; [|discriminate].
      inversion Hc; subst cfs. clear Hc.
      destruct (field_stmt_agree_cb G _ f n ft Ef (Hag' f (or_introl eq_refl))) as [Hn [s18 [i0 [dep [H1 H2]]]]].
      change (PP.is_replaced (PS.replace_map (PS.ti_replace ti) []) f) with (replaced (PS.replace_map (PS.ti_replace ti) []) f) in Hfs.
      rewrite Hfs in H1. inversion H1; subst s18 i0.
      destruct (IH (fun f0 Hin => Hag' f0 (or_intror Hin)) xs eq_refl) as [Hnames [deps Hfc]].
      split; [cbn [map fst]; rewrite Hn, Hnames; reflexivity|].
      cbn [DC.fields_copy map]. rewrite H2. cbn [bind]. rewrite Hfc. cbn [bind]. eexists. reflexivity.
  Qed.
End Agree.

(* ================================================================================================================ *)
(* TRANSFER: C17's heap-level theorems hold of the copy body C18 generates                                         *)
(* ================================================================================================================ *)

Lemma zero_fields_same : forall fin, zero_fields17 fin = PDS.zero_fields fin.
Proof. induction fin as [|[f x] r IH]; [reflexivity|]. cbn. unfold zero_fields17 in IH. rewrite IH. reflexivity. Qed.

Definition callees_as_ok (G : DC.pkg) (ms : list DC.method) (cfs : list (bytes * DC.fty)) : Prop :=
  forall f c0 args, In (f, DC.FNamed c0 args) cfs ->
    (DC.is_map (DC.lookup G c0) = true -> DC.has_map_methods ms c0 = true) /\
    (forall dc, DC.lookup G c0 = Some dc ->
       (DC.d_kind dc = DC.DScalar \/ exists tp' fs', DC.d_kind dc = DC.DStruct tp' fs') -> DC.find_into ms c0 <> None).

Section Transfer.
  Variables (L : bytes -> bytes) (target : bytes) (c : PS.cfg).
  Hypothesis Herr : PS.fx_errnil c = true.

  Theorem copy_as_transfer : forall ti g i fs G ms rec bound cfs d tp,
    PS.generate_type L target c ti = PS.TGen g i ->
    PS.ti_under ti = Some fs ->
    fields17 L target c (PS.replace_map (PS.ti_replace ti) []) (filter (keep (PS.ti_omit ti)) fs) = Some cfs ->
    (forall f, In f fs -> keep (PS.ti_omit ti) f = true ->
               agrees_field target G (PS.replace_map (PS.ti_replace ti) []) f) ->
    PDS.dom G ->
    DC.lookup G (PS.g_name g) = Some d -> DC.d_kind d = DC.DStruct tp cfs ->
    PDS.rec_spec G ms rec bound ->
    callees_as_ok G ms cfs ->
    forall h,
      deep_copy_as_heap rec G ms g None h = Ok (None, h) /\
      forall fin, PDS.wt_fields G h cfs fin -> PDS.depth_fields fin < bound ->
        exists fout t,
          deep_copy_as_heap rec G ms g (Some fin) h = Ok (Some (DC.VStruct fout), h ++ t) /\
          DC.snapshot (h ++ t) (DC.VStruct fout) = DC.snapshot h (DC.VStruct fin) /\
          (forall a, In a (DC.locs (DC.VStruct fout)) -> List.length h <= a < List.length (h ++ t)) /\
          (forall a cell, In a (DC.locs (DC.VStruct fout)) ->
             DC.snapshot (DC.write (h ++ t) a cell) (DC.VStruct fin) = DC.snapshot h (DC.VStruct fin)).
  Proof.
    intros ti g i fs G ms rec bound cfs d tp Hg Hu Hc Hag Hdom Hl Hk Hrec Hcal h. split; [reflexivity|].
    intros fin Hwt Hdep.
    destruct (stmts_agree L target c Herr ti g i fs G cfs Hg Hu Hc Hag) as [_ [deps Hfc]].
    pose proof Hdom as [_ Hstruct]. destruct (Hstruct _ d tp cfs Hl Hk) as [Hnd [Hres Hfor]].
    destruct (PDS.exec_body_spec G ms rec bound Hdom Hrec (PS.g_name g) h cfs [] [] [] fin
                (map stmt17 (PS.g_stmts g)) deps []) as [out [t1 [Hex [_ [Hsn Hlo]]]]].
    - exact Hfc.
    - exact Hwt.
    - exact Hnd.
    - reflexivity.
    - reflexivity.
    - intros f ft Hin. rewrite (PDS.field_type_assoc G (PS.g_name g) d tp cfs f Hl Hk). apply PDS.assoc_fty_in; assumption.
    - exact Hfor.
    - intros f c0 args Hin. split; [eapply Hres; exact Hin|]. eapply Hcal. exact Hin.
    - exact Hdep.
    - cbn [app] in Hex. rewrite app_nil_r in Hex, Hsn, Hlo.
      exists out, t1. unfold deep_copy_as_heap, as_body. cbn [option_map DC.run_ptr_copy]. rewrite PDS.zero_struct.
      unfold into_as. rewrite Hex. cbn [bind DC.run_ptr_copy].
      assert (Hs : DC.snapshot (h ++ t1) (DC.VStruct out) = DC.snapshot h (DC.VStruct fin)).
      { rewrite !PDS.snapshot_struct, Hsn. reflexivity. }
      assert (Hf : forall a, In a (DC.locs (DC.VStruct out)) -> List.length h <= a < List.length (h ++ t1)).
      { rewrite PDS.locs_struct. exact Hlo. }
      split; [reflexivity|]. split; [exact Hs|]. split; [exact Hf|].
      intros a cell Ha. eapply PDS.no_sharing; [|exact Hf|exact Ha].
      apply (PDS.wt_valid G h (DC.VStruct fin) (DC.FNamed (PS.g_name g) [])).
      apply PDS.wt_struct. exists tp, cfs. split; [|exact Hwt]. unfold PDS.kind_of. rewrite Hl, Hk. reflexivity.
  Qed.

  (* without any assumption on methods: when no retained field is a call (no replaced named field, same-package named
     field types are interfaces) the body consists of assignments and container copies only *)
  Theorem copy_as_unshared_plain : forall ti g i fs G cfs d tp,
    PS.generate_type L target c ti = PS.TGen g i ->
    PS.ti_under ti = Some fs ->
    fields17 L target c (PS.replace_map (PS.ti_replace ti) []) (filter (keep (PS.ti_omit ti)) fs) = Some cfs ->
    (forall f, In f fs -> keep (PS.ti_omit ti) f = true ->
               agrees_field target G (PS.replace_map (PS.ti_replace ti) []) f) ->
    PDS.dom G ->
    DC.lookup G (PS.g_name g) = Some d -> DC.d_kind d = DC.DStruct tp cfs ->
    (forall f c0 args, In (f, DC.FNamed c0 args) cfs -> DC.is_iface (DC.lookup G c0) = true) ->
    forall rec h fin, PDS.wt_fields G h cfs fin ->
      exists fout t,
        deep_copy_as_heap rec G [] g (Some fin) h = Ok (Some (DC.VStruct fout), h ++ t) /\
        DC.snapshot (h ++ t) (DC.VStruct fout) = DC.snapshot h (DC.VStruct fin) /\
        (forall a, In a (DC.locs (DC.VStruct fout)) -> List.length h <= a < List.length (h ++ t)) /\
        (forall a cell, In a (DC.locs (DC.VStruct fout)) ->
           DC.snapshot (DC.write (h ++ t) a cell) (DC.VStruct fin) = DC.snapshot h (DC.VStruct fin)).
  Proof.
    intros ti g i fs G cfs d tp Hg Hu Hc Hag Hdom Hl Hk Hif rec h fin Hwt.
    eapply (copy_as_transfer ti g i fs G [] rec (S (PDS.depth_fields fin)) cfs d tp); eauto.
    - intros c0 args x h0 _ _ _ Hfi. exfalso. apply Hfi. reflexivity.
    - intros f c0 args Hin. specialize (Hif f c0 args Hin).
      destruct (DC.lookup G c0) as [[n k t0 i0 hd]|] eqn:El; [|discriminate]. destruct k; try discriminate.
      split; [intros Hm; discriminate|].
      intros dc Hdc [Hs|[tp' [fs' Hs]]]; inversion Hdc; subst dc; discriminate.
  Qed.
End Transfer.

(* ================================================================================================================ *)
(* non-vacuity: an origin with a scalar, a slice, a map of a foreign scalar, a replaced struct field, an error field, *)
(* a same-package interface field and an omitted slice                                                              *)
(* ================================================================================================================ *)

Definition ex17_lib : bytes := bs "example.com/m/lib".
Definition ex17_fields : list PS.field :=
  [ PS.mk_field (bs "A") (PS.TBasic (bs "int")) [];
    PS.mk_field (bs "B") (PS.TSlice (PS.TBasic (bs "int"))) [];
    PS.mk_field (bs "S") (PS.TSlice (PS.TBasic (bs "string"))) [];
    PS.mk_field (bs "M") (PS.TMap (PS.TBasic (bs "string")) (PS.TNamed ex17_lib (bs "Code") PS.UOther [])) [];
    PS.mk_field (bs "I") (PS.TNamed PP.w_origin (bs "Inner") PS.UStruct []) [];
    PS.mk_field (bs "E") PS.TError [];
    PS.mk_field (bs "N") (PS.TNamed PP.w_target (bs "LIface") PS.UIface []) [] ].
Definition ex17_ti : PS.tinput :=
  PS.mk_tinput (bs "x") true [(bs "x", PS.RSel (Some (PP.w_origin, bs "T")))] (Some ex17_fields) [bs "B"] [bs "I:Y"].
Definition ex17_repl := PS.replace_map (PS.ti_replace ex17_ti) [].
Definition ex17_kept := filter (keep (PS.ti_omit ex17_ti)) ex17_fields.
Definition ex17_cfs : list (bytes * DC.fty) :=
  [ (bs "A", DC.FBasic (bs "int")); (bs "S", DC.FSlice (DC.EBasic (bs "string")));
    (bs "M", DC.FMap (bs "string") (DC.EForeign (bs "lib") (bs "Code")));
    (bs "I", DC.FNamed (bs "Y") []); (bs "E", DC.FError); (bs "N", DC.FNamed (bs "LIface") []) ].
Definition ex17_G : DC.pkg := graph17 PP.w_target ex17_repl (bs "X") ex17_cfs ex17_kept.

Lemma ex17_generated : exists g i,
  PS.generate_type PS.last_segment PP.w_target PS.all_fixed ex17_ti = PS.TGen g i /\ PS.g_name g = bs "X" /\
  map stmt17 (PS.g_stmts g) =
    [ DC.SAssign (bs "A"); DC.SCopySlice (bs "S") (bs "[]string"); DC.SCopyMap (bs "M") (bs "map[string]lib.Code");
      DC.SCallInto (bs "I"); DC.SAssign (bs "E"); DC.SAssign (bs "N") ] /\
  fields17 PS.last_segment PP.w_target PS.all_fixed ex17_repl ex17_kept = Some ex17_cfs /\
  helper17_body PS.last_segment PP.w_target PS.all_fixed ex17_ti (bs "X") = Some (Ok (map stmt17 (PS.g_stmts g))).
Proof. do 2 eexists. split; [vm_compute; reflexivity|]. repeat split; vm_compute; reflexivity. Qed.

Lemma ex17_agrees : forall f, In f ex17_fields -> keep (PS.ti_omit ex17_ti) f = true ->
  agrees_field PP.w_target ex17_G ex17_repl f.
Proof.
  intros f Hin Hk. cbn in Hin.
  repeat (destruct Hin as [<-|Hin]; [try (vm_compute in Hk; discriminate)|]); try contradiction.
  - exact I.
  - exact I.
  - exact I.
  - unfold agrees_field. vm_compute. eexists. split; [reflexivity|]. split; [right; eauto|reflexivity].
  - exact I.
  - unfold agrees_field. cbn. intros _. split; [|reflexivity]. vm_compute. eexists. split; [reflexivity|]. split; [exact I|reflexivity].
Qed.

Lemma ex17_dom : PDS.dom ex17_G.
Proof. apply Gengo.Proofs.DeepCopyTop.dom_b_sound. vm_compute. reflexivity. Qed.

(* a value of X: a filled slice, a filled map, a struct in I; the replacement's DeepCopyIntoAs is taken to copy its
   scalar fields (here: the identity on a container-free value) *)
Definition ex17_heap : DC.heap := [DC.CSlice [1; 2]%N; DC.CMap [(3, 4)]%N].
Definition ex17_fin : list (bytes * DC.value) :=
  [ (bs "A", DC.VScalar 7); (bs "S", DC.VSlice (Some 0)); (bs "M", DC.VMap (Some 1));
    (bs "I", DC.VStruct []); (bs "E", DC.VIface 5); (bs "N", DC.VIface 6) ].

Lemma ex17_copy :
  match PS.generate_type PS.last_segment PP.w_target PS.all_fixed ex17_ti with
  | PS.TGen g _ =>
      match deep_copy_as_heap (fun _ v _ h => Ok (v, h)) ex17_G [] g (Some ex17_fin) ex17_heap with
      | Ok (Some v', h') =>
          DC.snapshot h' v' = DC.snapshot ex17_heap (DC.VStruct ex17_fin) /\ DC.locs v' = [2; 3] /\
          DC.snapshot (DC.write h' 2 (DC.CSlice [])) (DC.VStruct ex17_fin) = DC.snapshot ex17_heap (DC.VStruct ex17_fin)
      | _ => False
      end
  | _ => False
  end.
Proof. vm_compute. repeat split. Qed.
