(* Lemmas about the model of ResultsOf: the visited marks and the measure (part A), termination of the
   repaired traversal for every program (part B). *)
Require Import Gengo.Base.Bytes Gengo.Model.ResultsOf.
Require Import Coq.Arith.PeanoNat.

(* ------------------------------------------------------------------ *)
(* Part A: visits                                                     *)
(* ------------------------------------------------------------------ *)

Definition marked (vs : visits) (n : nat * nat) : bool :=
  match vs_get vs (fst n) with
  | Some bits => nth (snd n) bits false
  | None => false
  end.

Definition vs_wf (p : prog) (vs : visits) : Prop :=
  forall f bits, vs_get vs f = Some bits -> exists fd, nth_error p f = Some fd /\ length bits = nres fd.

Definition vs_le (vs vs' : visits) : Prop := forall n, marked vs n = true -> marked vs' n = true.

Definition cnt (p : prog) (vs : visits) : nat :=
  length (filter (fun n => negb (marked vs n)) (nodes p)).

Lemma vs_le_refl : forall vs, vs_le vs vs.
Proof. intros vs n H. exact H. Qed.

Lemma vs_le_trans : forall a b c, vs_le a b -> vs_le b c -> vs_le a c.
Proof. intros a b c H1 H2 n H. apply H2, H1, H. Qed.

Lemma vs_get_set_same : forall vs f b, vs_get (vs_set vs f b) f = Some b.
Proof.
  induction vs as [|[g b0] r IH]; intros f b; cbn.
  - rewrite Nat.eqb_refl. reflexivity.
  - destruct (Nat.eqb g f) eqn:E; cbn; rewrite E; [reflexivity | apply IH].
Qed.

Lemma vs_get_set_other : forall vs f g b, g <> f -> vs_get (vs_set vs f b) g = vs_get vs g.
Proof.
  induction vs as [|[h b0] r IH]; intros f g b Hne; cbn.
  - destruct (Nat.eqb f g) eqn:E; [apply Nat.eqb_eq in E; congruence | reflexivity].
  - destruct (Nat.eqb h f) eqn:E; cbn.
    + apply Nat.eqb_eq in E. subst h.
      destruct (Nat.eqb f g) eqn:E2; [apply Nat.eqb_eq in E2; congruence | reflexivity].
    + destruct (Nat.eqb h g) eqn:E2; [reflexivity | apply IH; exact Hne].
Qed.

Lemma set_nth_length : forall l i, length (set_nth l i) = length l.
Proof. induction l as [|b r IH]; intros [|i]; cbn; auto. Qed.

Lemma set_nth_same : forall l i, i < length l -> nth i (set_nth l i) false = true.
Proof.
  induction l as [|b r IH]; intros [|i] H; cbn in *; try lia; auto. apply IH. lia.
Qed.

Lemma set_nth_mono : forall l i j, nth j l false = true -> nth j (set_nth l i) false = true.
Proof.
  induction l as [|b r IH]; intros [|i] [|j] H; cbn in *; auto.
Qed.

Lemma nth_repeat_false : forall n j, nth j (repeat false n) false = false.
Proof. induction n; intros [|j]; cbn; auto. Qed.

Lemma nth_error_nth_bool : forall (l : list bool) i b, nth_error l i = Some b -> nth i l false = b.
Proof. induction l as [|x r IH]; intros [|i] b H; cbn in *; try discriminate; [congruence | auto]. Qed.

(* the repaired visited: either the pair was marked and nothing changes, or it was not and now is *)
Lemma visited_fixed_spec :
  forall p vs f fd at_ seen vs',
    vs_wf p vs -> nth_error p f = Some fd ->
    visited true vs f (nres fd) at_ = Ok (seen, vs') ->
    vs_wf p vs' /\ vs_le vs vs' /\ at_ < nres fd /\
    (seen = true -> vs' = vs) /\
    (seen = false -> marked vs (f, at_) = false /\ marked vs' (f, at_) = true).
Proof.
  intros p vs f fd at_ seen vs' Hwf Hfd H. unfold visited in H.
  destruct (vs_get vs f) as [bits|] eqn:G.
  - destruct (Hwf _ _ G) as [fd' [Hfd' Hlen]]. rewrite Hfd in Hfd'. inversion Hfd'; subst fd'.
    destruct (nth_error bits at_) as [b|] eqn:Hn; [|discriminate].
    assert (Hlt : at_ < length bits) by (apply nth_error_Some; congruence).
    destruct b; inversion H; subst.
    + repeat split; auto using vs_le_refl; try lia; intros; discriminate.
    + split; [|split; [|split; [lia|split; [intros; discriminate|intros _]]]].
      * intros g bs Hg. destruct (Nat.eq_dec g f) as [->|Hne].
        -- rewrite vs_get_set_same in Hg. inversion Hg; subst. exists fd. split; auto.
           rewrite set_nth_length. exact Hlen.
        -- rewrite vs_get_set_other in Hg by exact Hne. apply Hwf in Hg. exact Hg.
      * intros [g j] Hm. unfold marked in *. cbn [fst snd] in *.
        destruct (Nat.eq_dec g f) as [->|Hne].
        -- rewrite vs_get_set_same. rewrite G in Hm. apply set_nth_mono. exact Hm.
        -- rewrite vs_get_set_other by exact Hne. exact Hm.
      * unfold marked. cbn [fst snd]. rewrite G, vs_get_set_same. split.
        -- apply nth_error_nth_bool. exact Hn.
        -- apply set_nth_same. exact Hlt.
  - destruct (Nat.eqb (nres fd) 0) eqn:E0; [discriminate|].
    destruct (Nat.ltb at_ (nres fd)) eqn:Elt; [|discriminate].
    apply Nat.ltb_lt in Elt. inversion H; subst.
    split; [|split; [|split; [exact Elt|split; [intros; discriminate|intros _]]]].
    + intros g bs Hg. destruct (Nat.eq_dec g f) as [->|Hne].
      * rewrite vs_get_set_same in Hg. inversion Hg; subst. exists fd. split; auto.
        rewrite set_nth_length, repeat_length. reflexivity.
      * rewrite vs_get_set_other in Hg by exact Hne. apply Hwf in Hg. exact Hg.
    + intros [g j] Hm. unfold marked in *. cbn [fst snd] in *.
      destruct (Nat.eq_dec g f) as [->|Hne].
      * rewrite G in Hm. discriminate.
      * rewrite vs_get_set_other by exact Hne. exact Hm.
    + unfold marked. cbn [fst snd]. rewrite G, vs_get_set_same. split; [reflexivity|].
      apply set_nth_same. rewrite repeat_length. exact Elt.
Qed.

(* the measure: unmarked nodes *)
Lemma filter_length_le : forall {A} (f g : A -> bool) l,
    (forall x, In x l -> g x = true -> f x = true) -> length (filter g l) <= length (filter f l).
Proof.
  intros A f g l. induction l as [|x r IH]; intros H; cbn; [lia|].
  assert (IH' : length (filter g r) <= length (filter f r)) by (apply IH; intros; apply H; cbn; auto).
  destruct (g x) eqn:G.
  - rewrite (H x (or_introl eq_refl) G). cbn. lia.
  - destruct (f x); cbn; lia.
Qed.

Lemma filter_length_lt : forall {A} (f g : A -> bool) l x,
    (forall y, In y l -> g y = true -> f y = true) -> In x l -> f x = true -> g x = false ->
    length (filter g l) < length (filter f l).
Proof.
  intros A f g l. induction l as [|y r IH]; intros x H Hin Hf Hg; [destruct Hin|].
  cbn. destruct Hin as [->|Hin].
  - rewrite Hf, Hg. cbn.
    assert (length (filter g r) <= length (filter f r)) by (apply filter_length_le; intros; apply H; cbn; auto).
    lia.
  - assert (IH' : length (filter g r) < length (filter f r)) by (apply (IH x); auto; intros; apply H; cbn; auto).
    destruct (g y) eqn:G.
    + rewrite (H y (or_introl eq_refl) G). cbn. lia.
    + destruct (f y); cbn; lia.
Qed.

Lemma cnt_le : forall p vs vs', vs_le vs vs' -> cnt p vs' <= cnt p vs.
Proof.
  intros p vs vs' H. unfold cnt. apply filter_length_le. intros n _ Hn.
  apply negb_true_iff in Hn. apply negb_true_iff.
  destruct (marked vs n) eqn:M; [|reflexivity]. apply H in M. congruence.
Qed.

Lemma cnt_lt : forall p vs vs' n,
    vs_le vs vs' -> In n (nodes p) -> marked vs n = false -> marked vs' n = true -> cnt p vs' < cnt p vs.
Proof.
  intros p vs vs' n H Hin M0 M1. unfold cnt. apply (filter_length_lt _ _ _ n); auto.
  - intros m _ Hm. apply negb_true_iff in Hm. apply negb_true_iff.
    destruct (marked vs m) eqn:M; [|reflexivity]. apply H in M. congruence.
  - rewrite M0. reflexivity.
  - rewrite M1. reflexivity.
Qed.

Lemma cnt_bound : forall p vs, cnt p vs <= length (nodes p).
Proof.
  intros. unfold cnt. induction (nodes p) as [|x r IH]; cbn; [lia|].
  destruct (negb (marked vs x)); cbn; lia.
Qed.

Lemma in_nodes_from : forall p i f fd at_,
    nth_error p f = Some fd -> at_ < nres fd -> In (i + f, at_) (nodes_from p i).
Proof.
  induction p as [|x r IH]; intros i f fd at_ Hf Hlt; [destruct f; discriminate|].
  cbn [nodes_from]. apply in_or_app. destruct f as [|f]; cbn in Hf.
  - inversion Hf; subst. left. rewrite Nat.add_0_r. apply in_map_iff. exists at_. split; auto.
    apply in_seq. lia.
  - right. replace (i + S f) with (S i + f) by lia. apply (IH (S i) f fd); auto.
Qed.

Lemma in_nodes : forall p f fd at_, nth_error p f = Some fd -> at_ < nres fd -> In (f, at_) (nodes p).
Proof. intros. apply (in_nodes_from p 0 f fd); auto. Qed.

(* ------------------------------------------------------------------ *)
(* Part B: termination of the repaired traversal                      *)
(* ------------------------------------------------------------------ *)

Section Termination.
  Variable fx : fixes.
  Variable p : prog.
  Hypothesis Hfx : fx_visits fx = true.

  Definition sle (s s' : state) : Prop := vs_le (st_vs s) (st_vs s').

  (* r is a fine outcome of a computation started in s *)
  Definition fine (s : state) (r : res state) : Prop :=
    r <> OutOfFuel /\ forall s', r = Ok s' -> vs_wf p (st_vs s') /\ sle s s'.

  Definition pre (B : nat) (s : state) : Prop := vs_wf p (st_vs s) /\ cnt p (st_vs s) <= B.

  Definition kgood (B : nat) (k : cont) : Prop := forall a s, pre B s -> fine s (k a s).
  Definition pgood (B : nat) (P : cont -> state -> res state) : Prop :=
    forall k s, kgood B k -> pre B s -> fine s (P k s).

  Lemma fine_ok : forall s, vs_wf p (st_vs s) -> fine s (Ok s).
  Proof. intros s H. split; [discriminate|]. intros s' E. inversion E; subst. split; [exact H|apply vs_le_refl]. Qed.

  Lemma fine_panic : forall s, fine s Panic.
  Proof. intros s. split; [discriminate|]. intros s' E. discriminate. Qed.

  Lemma pre_step : forall B s s', pre B s -> vs_wf p (st_vs s') -> sle s s' -> pre B s'.
  Proof.
    intros B s s' [_ Hc] Hwf Hle. split; [exact Hwf|].
    pose proof (cnt_le p _ _ Hle). lia.
  Qed.

  Lemma fine_bind : forall B s (m : res state) (f : state -> res state),
      pre B s -> fine s m -> (forall s1, pre B s1 -> sle s s1 -> fine s1 (f s1)) -> fine s (bind m f).
  Proof.
    intros B s m f Hpre [Hne Hm] Hf. destruct m as [s1| |]; cbn; [|apply fine_panic|congruence].
    destruct (Hm s1 eq_refl) as [Hwf1 Hle1].
    destruct (Hf s1 (pre_step _ _ _ Hpre Hwf1 Hle1) Hle1) as [Hne2 Hf2].
    split; [exact Hne2|]. intros s' E. destruct (Hf2 s' E) as [Hwf' Hle']. split; [exact Hwf'|].
    eapply vs_le_trans; eauto.
  Qed.

  Lemma kgood_weaken : forall B B' k, B' <= B -> kgood B k -> kgood B' k.
  Proof. intros B B' k Hle Hk a s [Hwf Hc]. apply Hk. split; [exact Hwf|lia]. Qed.

  Section Level.
    Variable rec : nat -> nat -> nat -> cont -> state -> res state.
    Variable B : nat.
    Hypothesis Hrec : forall rlen f at_, pgood B (rec rlen f at_).
    Variable rlen : nat.

    Lemma closure_loop_good : forall cres f k rs j s,
        kgood B k -> pre B s -> fine s (closure_loop fx rec rlen cres f k rs j s).
    Proof.
      intros cres f k rs. induction rs as [|own rs' IH]; intros j s Hk Hpre; cbn [closure_loop].
      - apply fine_ok. apply Hpre.
      - destruct (if fx_closure fx then Ok (r_ty own)
                  else match nth_error cres j with Some r => Ok (r_ty r) | None => Panic end) as [t| |] eqn:Et;
          cbn [bind]; [|apply fine_panic|].
        + apply (fine_bind B); [exact Hpre| |].
          * destruct (is_error t); [apply Hrec; assumption|apply fine_ok; apply Hpre].
          * intros s1 Hpre1 _. apply IH; assumption.
        + destruct (fx_closure fx); [discriminate|]. destruct (nth_error cres j); discriminate.
    Qed.

    Lemma args_loop_good : forall self c k,
        kgood B k ->
        forall l, Forall (fun arg => forall at_, pgood B (self arg at_)) l ->
        forall i s, pre B s -> fine s (args_loop fx p rec rlen self c k l i s).
    Proof.
      intros self c k Hk l Hall. induction Hall as [|arg rest Harg _ IH]; intros i s Hpre; cbn [args_loop].
      - apply fine_ok. apply Hpre.
      - apply (fine_bind B); [exact Hpre| |].
        + destruct (nth i (c_perr c) false); [|apply fine_ok; apply Hpre].
          destruct arg; [apply Hk; exact Hpre|apply Harg; assumption|apply Hk; exact Hpre].
        + intros s1 Hpre1 _. apply (fine_bind B); [exact Hpre1| |].
          * destruct arg; try (apply fine_ok; apply Hpre1).
            destruct (nth_error p f); [|apply fine_ok; apply Hpre1].
            apply closure_loop_good; assumption.
          * intros s2 Hpre2 _. apply IH. exact Hpre2.
    Qed.

    Lemma call_at_good : forall e at_, pgood B (call_at fx p rec rlen e at_).
    Proof.
      fix IH 1. intros e at_ k s Hk Hpre. destruct e as [a|c args|f a]; cbn [call_at];
        try (apply fine_ok; apply Hpre).
      destruct (negb (c_issig c)); [apply fine_ok; apply Hpre|].
      destruct (nth_error (c_res c) at_) as [rt|]; [|apply fine_ok; apply Hpre].
      destruct (follows (r_ty rt)); [|apply Hk; exact Hpre].
      apply (fine_bind B); [exact Hpre| |].
      - destruct (is_error (r_ty rt)); [|apply fine_ok; apply Hpre].
        apply args_loop_good; [exact Hk| |exact Hpre].
        clear -IH. induction args as [|x r IHr]; constructor; [|exact IHr].
        intros at_. apply IH.
      - intros s1 Hpre1 _. destruct (c_target c) as [f|]; [|apply fine_ok; apply Hpre1].
        destruct (nth_error p f); [|apply fine_ok; apply Hpre1].
        apply Hrec; assumption.
    Qed.

    Lemma value_or_call_good : forall e, pgood B (value_or_call fx p rec rlen e).
    Proof.
      intros e k s Hk Hpre. destruct e; cbn [value_or_call];
        [apply Hk; exact Hpre|apply call_at_good; assumption|apply Hk; exact Hpre].
    Qed.

    Lemma raroa_good : forall rhs retN at_, pgood B (raroa fx p rec rlen rhs retN at_).
    Proof.
      intros rhs retN at_ k s Hk Hpre. unfold raroa.
      destruct (Nat.ltb (length rhs) retN && Nat.ltb 0 (length rhs)).
      - destruct rhs; [apply fine_ok; apply Hpre|apply call_at_good; assumption].
      - destruct (nth_error rhs at_); [apply value_or_call_good; assumption|apply fine_ok; apply Hpre].
    Qed.

    Lemma assigned_until_good : forall evs target until, pgood B (assigned_until fx p rec rlen evs target until).
    Proof.
      intros evs target until k s Hk Hpre. unfold assigned_until.
      destruct (last_match target until evs None) as [[a i]|]; [apply raroa_good; assumption|apply fine_ok; apply Hpre].
    Qed.

    Lemma post_good : forall pkg evs k, kgood B k -> kgood B (post fx p rec rlen pkg evs k).
    Proof.
      intros pkg evs k Hk ret s Hpre. unfold post. destruct (a_x ret) as [|resolved o|o].
      - apply Hk; exact Hpre.
      - apply (fine_bind B); [exact Hpre| |].
        + destruct resolved; [apply fine_ok; apply Hpre|apply Hk; exact Hpre].
        + intros s1 Hpre1 _. apply assigned_until_good; assumption.
      - apply (fine_bind B); [exact Hpre|apply Hk; exact Hpre|].
        intros s1 Hpre1 _. apply assigned_until_good; assumption.
    Qed.

    Lemma returns_loop_good : forall fd all evs at_, pgood B (returns_loop fx p rec rlen fd all evs at_).
    Proof.
      intros fd all evs at_. induction evs as [|ev r IH]; intros k s Hk Hpre; cbn [returns_loop].
      - apply fine_ok. apply Hpre.
      - destruct ev as [a|endp [es|]].
        + apply IH; assumption.
        + apply (fine_bind B); [exact Hpre| |].
          * apply raroa_good; [apply post_good; exact Hk|exact Hpre].
          * intros s1 Hpre1 _. apply IH; assumption.
        + apply (fine_bind B); [exact Hpre| |].
          * destruct (named_obj (f_res fd) at_); [apply assigned_until_good; assumption|apply fine_ok; apply Hpre].
          * intros s1 Hpre1 _. apply IH; assumption.
    Qed.
  End Level.

  (* one level of resultsFromAstAt: the recursive calls happen with strictly fewer unmarked nodes *)
  Lemma scan_body_good : forall rec B,
      (forall B', B' < B -> forall rlen f at_, pgood B' (rec rlen f at_)) ->
      forall rlen f at_, pgood B (scan_body fx p rec rlen f at_).
  Proof.
    intros rec B Hrec rlen f at_ k s Hk Hpre. unfold scan_body.
    destruct (nth_error p f) as [fd|] eqn:Hfd; [|apply fine_ok; apply Hpre].
    destruct (f_body fd) as [body|]; [|apply fine_ok; apply Hpre].
    rewrite Hfx.
    destruct (visited true (st_vs s) f (nres fd) at_) as [[seen vs1]| |] eqn:Hv; cbn [bind];
      [|apply fine_panic|].
    - destruct Hpre as [Hwf Hc].
      destruct (visited_fixed_spec p _ _ _ _ _ _ Hwf Hfd Hv) as [Hwf1 [Hle1 [Hlt [Hseen Hnew]]]].
      destruct seen.
      + split; [discriminate|]. intros s' E. inversion E; subst. cbn. split; assumption.
      + destruct (Hnew eq_refl) as [M0 M1].
        assert (Hc1 : cnt p vs1 < cnt p (st_vs s))
          by (apply (cnt_lt p _ _ (f, at_)); auto; eapply in_nodes; eauto).
        destruct B as [|B']; [lia|].
        set (s1 := mk_state vs1 (st_out s)).
        assert (Hpre1 : pre B' s1) by (split; [exact Hwf1|cbn; lia]).
        assert (Hk' : kgood B' k) by (apply (kgood_weaken (S B')); [lia|exact Hk]).
        destruct (returns_loop_good rec B' (Hrec B' (Nat.lt_succ_diag_r B')) rlen fd
                    (flatten_all body) (flatten_all body) at_ k s1 Hk' Hpre1) as [Hne Hok].
        split; [exact Hne|]. intros s' E. destruct (Hok s' E) as [Hwf' Hle']. split; [exact Hwf'|].
        eapply vs_le_trans; [exact Hle1|exact Hle'].
    - exfalso. unfold visited in Hv. destruct (vs_get (st_vs s) f).
      + destruct (nth_error l at_) as [[|]|]; discriminate.
      + destruct (Nat.eqb (nres fd) 0); [discriminate|]. destruct (Nat.ltb at_ (nres fd)); discriminate.
  Qed.

  Lemma scan_good : forall fuel B, B < fuel -> forall rlen f at_, pgood B (scan fx p fuel rlen f at_).
  Proof.
    induction fuel as [|fuel IH]; intros B HB rlen f at_; [lia|].
    cbn [scan]. apply scan_body_good. intros B' HB'. apply IH. lia.
  Qed.

  Lemma collect_good : forall B, kgood B collect.
  Proof.
    intros B a s [Hwf _]. unfold collect. split; [discriminate|].
    intros s' E. inversion E; subst. cbn. split; [exact Hwf|apply vs_le_refl].
  Qed.

  Lemma results_from_ast_loop_terminates : forall fuel f sigres rlen at_ vs,
      length (nodes p) < fuel -> vs_wf p vs ->
      results_from_ast_loop fx p fuel f sigres rlen at_ vs <> OutOfFuel.
  Proof.
    intros fuel f sigres. induction sigres as [|r rest IH]; intros rlen at_ vs Hfuel Hwf; cbn [results_from_ast_loop];
      [discriminate|].
    assert (Hpre : pre (length (nodes p)) (mk_state vs [])) by (split; [exact Hwf|apply cnt_bound]).
    destruct (scan_good fuel _ Hfuel rlen f at_ collect _ (collect_good _) Hpre) as [Hne Hok].
    destruct (scan fx p fuel rlen f at_ collect (mk_state vs [])) as [s| |]; cbn [bind]; try congruence.
    destruct (Hok s eq_refl) as [Hwf' _].
    specialize (IH rlen (S at_) (st_vs s) Hfuel Hwf').
    destruct (results_from_ast_loop fx p fuel f rest rlen (S at_) (st_vs s)) as [[more vs']| |]; cbn [bind]; congruence.
  Qed.

  Lemma vs_wf_nil : vs_wf p [].
  Proof. intros f bits H. discriminate. Qed.

  Lemma results_from_ast_terminates : forall fuel f sigres,
      length (nodes p) < fuel -> results_from_ast fx p fuel f sigres [] <> OutOfFuel.
  Proof.
    intros fuel f sigres Hfuel. unfold results_from_ast. destruct (nth_error p f); [|discriminate].
    pose proof (results_from_ast_loop_terminates fuel f sigres (length sigres) 0 [] Hfuel vs_wf_nil) as H.
    destruct (results_from_ast_loop fx p fuel f sigres (length sigres) 0 []) as [[ls vs]| |]; cbn [bind]; congruence.
  Qed.

  Theorem results_of_terminates : forall fuel en sigres,
      length (nodes p) < fuel -> results_of fx p fuel en sigres <> OutOfFuel.
  Proof.
    intros fuel en sigres Hfuel. unfold results_of.
    destruct (Nat.eqb (length sigres) 0); [discriminate|].
    destruct en as [f|[f|]| |]; try discriminate.
    - pose proof (results_from_ast_terminates fuel f sigres Hfuel) as H.
      destruct (results_from_ast fx p fuel f sigres []); cbn [bind]; congruence.
    - pose proof (results_from_ast_terminates fuel f sigres Hfuel) as H.
      destruct (results_from_ast fx p fuel f sigres []); cbn [bind]; congruence.
  Qed.
End Termination.


(* ------------------------------------------------------------------ *)
(* The unrepaired visited set does not cut the recursion               *)
(* ------------------------------------------------------------------ *)

(* func Rec(n int) (int, error) { return Rec(n - 1) } *)
Definition rd_int := mk_rdecl TInt (bs "int") None.
Definition rd_err := mk_rdecl TError (bs "error") None.
Definition rec_call := mk_call true [rd_int; rd_err] [false] (TgBody 0) 0 0%N.
Definition prog_rec : prog :=
  [mk_fdef 0 [rd_int; rd_err] (Some [SReturn 0%N (Some [ECall rec_call [EVal (mk_alt (bs "int") false TInt XOther 0 0%N)]])])].

Lemma rec_loops : forall fx, fx_visits fx = false ->
  forall fuel k s, st_vs s = [(0, [true; false])] -> scan fx prog_rec fuel 2 0 1 k s = OutOfFuel.
Proof.
  intros fx Hfx. induction fuel as [|fuel IH]; intros k s Hs; [reflexivity|].
  cbn [scan]. unfold scan_body. cbn [nth_error prog_rec f_body nres f_res length].
  rewrite Hfx, Hs. cbn.
  rewrite IH; [reflexivity|reflexivity].
Qed.

Lemma rec_diverges : forall fx, fx_visits fx = false ->
  forall fuel, results_of fx prog_rec fuel (EnBody 0) [rd_int; rd_err] = OutOfFuel.
Proof.
  intros fx Hfx [|fuel]; [reflexivity|].
  unfold results_of. cbn [length Nat.eqb]. unfold results_from_ast. cbn [nth_error prog_rec].
  cbn [results_from_ast_loop length]. cbn [scan]. unfold scan_body at 1.
  cbn [nth_error prog_rec f_body nres f_res length st_vs]. rewrite Hfx. cbn. rewrite Hfx. cbn.
  rewrite rec_loops; [reflexivity|exact Hfx|reflexivity].
Qed.

(* ------------------------------------------------------------------ *)
(* Part C: shape                                                      *)
(* ------------------------------------------------------------------ *)

Lemma results_from_ast_loop_shape : forall fx p fuel f sigres rlen at_ vs ls vs',
    results_from_ast_loop fx p fuel f sigres rlen at_ vs = Ok (ls, vs') ->
    length ls = length sigres /\ Forall (fun l => l <> []) ls.
Proof.
  intros fx p fuel f sigres. induction sigres as [|r rest IH]; intros rlen at_ vs ls vs' H; cbn [results_from_ast_loop] in H.
  - inversion H; subst. split; [reflexivity|constructor].
  - destruct (scan fx p fuel rlen f at_ collect (mk_state vs [])) as [s| |]; cbn [bind] in H; try discriminate.
    destruct (results_from_ast_loop fx p fuel f rest rlen (S at_) (st_vs s)) as [[more vs'']| |] eqn:E; cbn [bind] in H;
      try discriminate.
    inversion H; subst. destruct (IH _ _ _ _ _ E) as [Hl Hne]. split; [cbn; lia|].
    constructor; [|exact Hne]. destruct (rev (st_out s)); cbn; discriminate.
Qed.

Lemma zip_app_shape : forall a b, length (zip_app a b) = length a /\
    (Forall (fun l => l <> []) a -> Forall (fun l : list alt => l <> []) (zip_app a b)).
Proof.
  induction a as [|x a IH]; intros b; [split; [reflexivity|auto]|].
  destruct b as [|y b]; [split; [reflexivity|auto]|]. cbn [zip_app]. destruct (IH b) as [Hl Hf].
  split; [cbn; lia|]. intros H. inversion H; subst. constructor; [|auto].
  destruct x; [congruence|discriminate].
Qed.

Lemma from_signature_shape : forall sigres,
    length (from_signature sigres) = length sigres /\ Forall (fun l => l <> []) (from_signature sigres).
Proof.
  intros. unfold from_signature. split; [apply map_length|].
  induction sigres; cbn; constructor; [discriminate|assumption].
Qed.

(* with the repaired Concat and fallback: n lists, none empty *)
Lemma results_of_shape : forall fx p fuel en sigres ls n,
    fx_concat fx = true -> fx_fallback fx = true ->
    (forall f, en = EnBody f -> f < length p) ->
    results_of fx p fuel en sigres = Ok (ls, n) ->
    n = length sigres /\ length ls = n /\ Forall (fun l => l <> []) ls.
Proof.
  intros fx p fuel en sigres ls n Hfx Hfb Hin H. unfold results_of in H.
  destruct (Nat.eqb (length sigres) 0) eqn:E0.
  - apply Nat.eqb_eq in E0. inversion H; subst. rewrite E0. repeat split; constructor.
  - destruct en as [f|fo| |].
    + unfold results_from_ast in H. destruct (nth_error p f) eqn:Hf.
      * destruct (results_from_ast_loop fx p fuel f sigres (length sigres) 0 []) as [[ls0 vs]| |] eqn:E; cbn [bind] in H;
          try discriminate.
        inversion H; subst. destruct (results_from_ast_loop_shape _ _ _ _ _ _ _ _ _ _ E). auto.
      * exfalso. specialize (Hin f eq_refl). apply nth_error_None in Hf. lia.
    + destruct (match fo with Some f => results_from_ast fx p fuel f sigres [] | None => Ok [] end) as [inner| |];
        cbn [bind] in H; try discriminate.
      inversion H; subst. unfold concat_results. rewrite Hfx.
      destruct (from_signature_shape sigres) as [Hl Hne].
      destruct (Nat.eqb (length (from_signature sigres)) (length inner)).
      * destruct (zip_app_shape (from_signature sigres) inner) as [Hl2 Hne2]. rewrite Hl2. auto.
      * auto.
    + inversion H; subst. destruct (from_signature_shape sigres). auto.
    + rewrite Hfb in H. inversion H; subst. destruct (from_signature_shape sigres). auto.
Qed.

(* without the fallback, a signature registered under an unhandled node kind gets no list *)
Lemma other_unfixed_loses : forall fx p fuel sigres,
    fx_fallback fx = false -> sigres <> [] ->
    results_of fx p fuel EnOther sigres = Ok ([], length sigres) /\ 0 < length sigres.
Proof.
  intros fx p fuel sigres Hfx Hne. unfold results_of. destruct sigres as [|r rest]; [congruence|].
  cbn [length Nat.eqb]. rewrite Hfx. split; [reflexivity|lia].
Qed.

(* the unrepaired Concat loses every list *)
Lemma concat_unfixed_loses : forall fx p fuel fo sigres,
    fx_concat fx = false -> sigres <> [] ->
    forall ls n, results_of fx p fuel (EnSelector fo) sigres = Ok (ls, n) -> ls = [] /\ n = length sigres /\ 0 < n.
Proof.
  intros fx p fuel fo sigres Hfx Hne ls n H. unfold results_of in H.
  destruct sigres as [|r rest]; [congruence|]. cbn [length Nat.eqb] in H.
  destruct (match fo with Some f => results_from_ast fx p fuel f (r :: rest) [] | None => Ok [] end); cbn [bind] in H;
    try discriminate.
  unfold concat_results in H. rewrite Hfx in H. inversion H; subst. cbn. repeat split; lia.
Qed.
