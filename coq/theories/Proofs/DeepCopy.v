(* Lemmas about the model of the deepcopy generator (Model/DeepCopy.v). *)
Require Import Gengo.Base.Bytes Gengo.Model.DeepCopy.
Require Import Coq.Sorting.Permutation.

(* ------------------------------------------------------------------------------------------ *)
(* createFieldSnippet of the repaired code never panics                                        *)
(* ------------------------------------------------------------------------------------------ *)

Lemma field_stmt_fixed_ok : forall G vis f t,
  exists s dep, field_stmt all_fixed G vis f t = Ok (s, dep).
Proof.
  intros G vis f t. destruct t as [n|e|k e|n args| | |n|ms]; cbn [field_stmt all_fixed fx_iface fx_nilpkg fx_mapptr andb].
  - eauto.
  - eauto.
  - eauto.
  - destruct (is_iface (lookup G n)); [eauto|].
    destruct (scan (hand_of (lookup G n) ++ sigs_of vis n)) as [[hc hi] ptr]. eauto.
  - eauto.
  - eauto.
  - eauto.
  - destruct (scan ms) as [[hc hi] ptr]. eauto.
Qed.

Lemma field_stmt_unfixed_error_panics : forall G vis f,
  field_stmt no_fix G vis f FError = Panic.
Proof. reflexivity. Qed.
