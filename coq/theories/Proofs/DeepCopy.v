(* Lemmas about the model of the deepcopy generator (Model/DeepCopy.v). *)
Require Import Gengo.Base.Bytes Gengo.Model.DeepCopy.
Require Import Coq.Sorting.Permutation.

(* ------------------------------------------------------------------------------------------ *)
(* createFieldSnippet of the repaired code never panics                                        *)
(* ------------------------------------------------------------------------------------------ *)

Lemma field_stmt_fixed_ok : forall G vis f t,
  exists s dep, field_stmt all_fixed G vis f t = Ok (s, dep).
Proof.
  intros G vis f t. destruct t as [n|e|k e|n args| | |n|ms]; cbn [field_stmt all_fixed fx_iface fx_nilpkg fx_mapptr andb].
  - eauto.
  - eauto.
  - eauto.
  - destruct (is_iface (lookup G n)); [eauto|].
    destruct (scan (hand_of (lookup G n) ++ sigs_of vis n)) as [[hc hi] ptr]. eauto.
  - cbn. eauto.
  - eauto.
  - eauto.
  - destruct (scan ms) as [[hc hi] ptr]. eauto.
Qed.

Lemma field_stmt_fixed_error : forall G vis f, field_stmt all_fixed G vis f FError = Ok (SAssign f, None).
Proof. reflexivity. Qed.

Lemma field_stmt_unfixed_error_panics : forall G vis f,
  field_stmt no_fix G vis f FError = Panic.
Proof. reflexivity. Qed.

(* ------------------------------------------------------------------------------------------ *)
(* basic facts                                                                                 *)
(* ------------------------------------------------------------------------------------------ *)

Lemma find_decl_name : forall ds n d, find_decl ds n = Some d -> d_name d = n.
Proof.
  induction ds as [|x ds IH]; intros n d H; cbn in H; [discriminate|].
  destruct (bytes_eqb (d_name x) n) eqn:E.
  - inversion H; subst. apply bytes_eqb_spec. exact E.
  - eauto.
Qed.

Lemma lookup_name : forall G n d, lookup G n = Some d -> d_name d = n.
Proof. intros G n d. apply find_decl_name. Qed.

Lemma lookup_self : forall G n d, lookup G n = Some d -> lookup G (d_name d) = Some d.
Proof. intros G n d H. rewrite (lookup_name _ _ _ H). exact H. Qed.

Lemma bind_ok : forall {A B} (r : res A) (f : A -> res B) b,
  bind r f = Ok b -> exists a, r = Ok a /\ f a = Ok b.
Proof. intros A B [a| |] f b H; cbn in H; try discriminate. eauto. Qed.

(* ------------------------------------------------------------------------------------------ *)
(* the method scan: pointer-ness is preserved by methods whose DeepCopy/DeepCopyInto shape is   *)
(* pointer-typed                                                                               *)
(* ------------------------------------------------------------------------------------------ *)

Definition shaped (m : msig) : bool :=
  (bytes_eqb (ms_name m) n_copy && Nat.eqb (ms_results m) 1 && Nat.eqb (ms_params m) 0)
  || (bytes_eqb (ms_name m) n_into && Nat.eqb (ms_params m) 1 && Nat.eqb (ms_results m) 0).

Definition good (m : msig) : Prop := shaped m = true -> ms_ptr m = true.

Lemma scan_step_ptr : forall st m, good m -> snd (scan_step st m) = snd st.
Proof.
  intros [[hc hi] ptr] m Hg. unfold good, shaped in Hg. unfold scan_step. cbn [snd].
  destruct (bytes_eqb (ms_name m) n_copy && Nat.eqb (ms_results m) 1 && Nat.eqb (ms_params m) 0) eqn:E1;
  destruct (bytes_eqb (ms_name m) n_into && Nat.eqb (ms_params m) 1 && Nat.eqb (ms_results m) 0) eqn:E2;
  cbn in Hg; try (rewrite Hg by reflexivity); reflexivity.
Qed.

Lemma fold_scan_ptr : forall ms st, Forall good ms -> snd (fold_left scan_step ms st) = snd st.
Proof.
  induction ms as [|m ms IH]; intros st H; cbn; [reflexivity|].
  inversion H; subst. rewrite IH by assumption. apply scan_step_ptr. assumption.
Qed.

(* methods with map receivers are attached to map types only *)
Definition vis_ok (G : pkg) (vis : list method) : Prop :=
  Forall (fun m => match m with
                   | MMapCopy t | MMapInto t => is_map (lookup G t) = true
                   | _ => True
                   end) vis.

Lemma sigs_good : forall G vis n,
  vis_ok G vis -> is_map (lookup G n) = false -> Forall good (sigs_of vis n).
Proof.
  intros G vis n Hv Hm. unfold sigs_of. induction Hv as [|m vis Hm' Hv IH]; cbn; [constructor|].
  apply Forall_app. split; [|exact IH].
  destruct m as [t tp i p|t tp|t tp b|t|t|]; cbn [sig_of];
    try (destruct (bytes_eqb t n) eqn:E; [|constructor]).
  - constructor; [|constructor]. intros H. vm_compute in H. discriminate.
  - constructor; [|constructor]. intros _. reflexivity.
  - constructor; [|constructor]. intros _. reflexivity.
  - apply bytes_eqb_spec in E. subst t. congruence.
  - apply bytes_eqb_spec in E. subst t. congruence.
  - constructor.
Qed.

Lemma scan_app_ptr : forall a b, Forall good b -> snd (scan (a ++ b)) = snd (scan a).
Proof. intros a b H. unfold scan. rewrite fold_left_app. apply fold_scan_ptr. exact H. Qed.

(* ------------------------------------------------------------------------------------------ *)
(* the repaired generator does not depend on what an earlier run left behind                   *)
(* ------------------------------------------------------------------------------------------ *)

Lemma field_stmt_vis : forall G vis f t,
  vis_ok G vis -> field_stmt all_fixed G vis f t = field_stmt all_fixed G [] f t.
Proof.
  intros G vis f t Hv. destruct t as [n|e|k e|n args| | |n|ms]; try reflexivity.
  cbn [field_stmt all_fixed fx_iface fx_mapptr andb].
  destruct (is_iface (lookup G n)); [reflexivity|].
  destruct (is_map (lookup G n)) eqn:Hm.
  - destruct (scan (hand_of (lookup G n) ++ sigs_of vis n)) as [[a b] c].
    destruct (scan (hand_of (lookup G n) ++ sigs_of [] n)) as [[a' b'] c']. reflexivity.
  - pose proof (scan_app_ptr (hand_of (lookup G n)) (sigs_of vis n) (sigs_good G vis n Hv Hm)) as H1.
    pose proof (scan_app_ptr (hand_of (lookup G n)) (sigs_of [] n) (Forall_nil _)) as H2.
    destruct (scan (hand_of (lookup G n) ++ sigs_of vis n)) as [[a b] c].
    destruct (scan (hand_of (lookup G n) ++ sigs_of [] n)) as [[a' b'] c'].
    cbn [snd] in H1, H2. congruence.
Qed.

Lemma fields_copy_vis : forall G vis fs,
  vis_ok G vis -> fields_copy all_fixed G vis fs = fields_copy all_fixed G [] fs.
Proof.
  intros G vis fs Hv. induction fs as [|[f t] fs IH]; [reflexivity|].
  cbn [fields_copy]. rewrite field_stmt_vis by assumption. rewrite IH. reflexivity.
Qed.

Lemma render_vis : forall G vis d,
  vis_ok G vis -> render all_fixed G vis d = render all_fixed G [] d.
Proof.
  intros G vis d Hv. unfold render. destruct (d_kind d); try reflexivity.
  rewrite fields_copy_vis by assumption. reflexivity.
Qed.

Lemma loop_defers_ext : forall rec1 rec2,
  (forall k st, rec1 k st = rec2 k st) ->
  forall ds st, loop_defers rec1 ds st = loop_defers rec2 ds st.
Proof.
  intros rec1 rec2 H. induction ds as [|d ds IH]; intros st; cbn [loop_defers]; [reflexivity|].
  rewrite H. destruct (rec2 d st) as [[g st']| |]; cbn [bind]; try reflexivity.
  destruct g; [apply IH|reflexivity].
Qed.

Lemma gen_type_vis : forall G vis, vis_ok G vis ->
  forall fuel asdep k st,
    gen_type fuel all_fixed G vis asdep k st = gen_type fuel all_fixed G [] asdep k st.
Proof.
  intros G vis Hv. induction fuel as [|fuel IH]; intros asdep k st; [reflexivity|].
  cbn [gen_type]. destruct (mem_key k (gs_processed st)); [reflexivity|].
  destruct (lookup G (fst k)) as [d|]; [|reflexivity].
  rewrite render_vis by assumption.
  destruct (d_kind d); try reflexivity;
    (destruct (negb (asdep && fx_deps all_fixed) && negb (enabled G d)); [reflexivity|]);
    (destruct (render all_fixed G [] d) as [[ms defers]| |]; cbn [bind]; try reflexivity);
    apply loop_defers_ext; intros; apply IH.
Qed.

Lemma gen_all_vis : forall G vis, vis_ok G vis ->
  forall fuel order st,
    gen_all fuel all_fixed G vis order st = gen_all fuel all_fixed G [] order st.
Proof.
  intros G vis Hv fuel. induction order as [|n order IH]; intros st; [reflexivity|].
  cbn [gen_all]. destruct (lookup G n) as [d|]; [|apply IH].
  destruct (enabled G d); [|apply IH].
  rewrite gen_type_vis by assumption.
  destruct (gen_type fuel all_fixed G [] false (n, []) st) as [[g st']| |]; cbn [bind]; try reflexivity.
  apply IH.
Qed.

Lemma gen_deepcopy_vis : forall G vis fuel order,
  vis_ok G vis -> gen_deepcopy fuel all_fixed G order vis = gen_deepcopy fuel all_fixed G order [].
Proof. intros. unfold gen_deepcopy. rewrite gen_all_vis by assumption. reflexivity. Qed.

(* ------------------------------------------------------------------------------------------ *)
(* invariants of the generated file that only depend on what each type contributes             *)
(* ------------------------------------------------------------------------------------------ *)

Section OutInv.
  Variables (fx : fixes) (G : pkg) (vis : list method).
  Variable Q : list method -> Prop.
  Hypothesis Q_app : forall out n d ms defers,
    Q out -> lookup G n = Some d -> render fx G vis d = Ok (ms, defers) -> Q (out ++ ms).

  Lemma loop_defers_out_inv : forall rec,
    (forall k st g st', Q (gs_out st) -> rec k st = Ok (g, st') -> Q (gs_out st')) ->
    forall ds st g st', Q (gs_out st) -> loop_defers rec ds st = Ok (g, st') -> Q (gs_out st').
  Proof.
    intros rec Hrec. induction ds as [|d ds IH]; intros st g st' HQ H; cbn [loop_defers] in H.
    - inversion H; subst. exact HQ.
    - apply bind_ok in H. destruct H as [[g1 st1] [H1 H2]].
      pose proof (Hrec _ _ _ _ HQ H1) as HQ1.
      destruct g1; [eapply IH; eassumption|]. inversion H2; subst. exact HQ1.
  Qed.

  Lemma gen_type_out_inv : forall fuel asdep k st g st',
    Q (gs_out st) -> gen_type fuel fx G vis asdep k st = Ok (g, st') -> Q (gs_out st').
  Proof.
    induction fuel as [|fuel IH]; intros asdep k st g st' HQ H; [discriminate|].
    cbn [gen_type] in H.
    destruct (mem_key k (gs_processed st)); [inversion H; subst; exact HQ|].
    destruct (lookup G (fst k)) as [d|] eqn:Hl; [|inversion H; subst; exact HQ].
    destruct (d_kind d) eqn:Hk; try (inversion H; subst; exact HQ);
      (destruct (negb (asdep && fx_deps fx) && negb (enabled G d)); [inversion H; subst; exact HQ|]);
      apply bind_ok in H; destruct H as [[ms defers] [Hr H]];
      (eapply loop_defers_out_inv; [intros; eapply IH; eassumption| |exact H]);
      cbn [gs_out]; eapply Q_app; eassumption.
  Qed.

  Lemma gen_all_out_inv : forall fuel order st st',
    Q (gs_out st) -> gen_all fuel fx G vis order st = Ok st' -> Q (gs_out st').
  Proof.
    intros fuel. induction order as [|n order IH]; intros st st' HQ H; cbn [gen_all] in H.
    - inversion H; subst. exact HQ.
    - destruct (lookup G n) as [d|]; [|eauto].
      destruct (enabled G d); [|eauto].
      apply bind_ok in H. destruct H as [[g st1] [H1 H2]].
      eapply IH; [|exact H2]. eapply gen_type_out_inv; eassumption.
  Qed.

  Lemma gen_deepcopy_out_inv : forall fuel order ms,
    Q [] -> gen_deepcopy fuel fx G order vis = Ok ms -> Q ms.
  Proof.
    intros fuel order ms HQ H. unfold gen_deepcopy in H. apply bind_ok in H.
    destruct H as [st [H1 H2]]. inversion H2; subst. eapply gen_all_out_inv; [|exact H1]. exact HQ.
  Qed.
End OutInv.

(* what a type contributes: map-receiver methods only for map types *)
Lemma render_vis_ok : forall fx G vis n d ms defers,
  lookup G n = Some d -> render fx G vis d = Ok (ms, defers) -> vis_ok G ms.
Proof.
  intros fx G vis n d ms defers Hl Hr. pose proof (lookup_self _ _ _ Hl) as Hs.
  unfold render in Hr. destruct (d_kind d) eqn:Hk.
  - apply bind_ok in Hr. destruct Hr as [[body deps] [_ Hr]]. inversion Hr; subst.
    apply Forall_app. split.
    + destruct (d_ifaces d); repeat constructor.
    + repeat constructor.
  - inversion Hr; subst. apply Forall_app. split.
    + destruct (d_ifaces d); repeat constructor.
    + assert (is_map (lookup G (d_name d)) = true) as Hm.
      { rewrite Hs. destruct d; cbn in *. subst. reflexivity. }
      repeat constructor; exact Hm.
  - inversion Hr; subst. apply Forall_app. split.
    + destruct (d_ifaces d); repeat constructor.
    + repeat constructor.
  - inversion Hr; subst. constructor.
Qed.

Lemma gen_deepcopy_vis_ok : forall fx G vis fuel order ms,
  gen_deepcopy fuel fx G order vis = Ok ms -> vis_ok G ms.
Proof.
  intros fx G vis fuel order ms H.
  eapply (gen_deepcopy_out_inv fx G vis (vis_ok G)); [|constructor|exact H].
  intros out n d ms' defers HQ Hl Hr. apply Forall_app. split; [exact HQ|].
  eapply render_vis_ok; eassumption.
Qed.

(* every later run of the repaired generator reproduces the first run *)
Lemma run_same : forall fuel G order ms,
  run fuel all_fixed G order 0 = Ok ms ->
  forall k, run fuel all_fixed G order k = Ok ms.
Proof.
  intros fuel G order ms H0. induction k as [|k IH]; [exact H0|].
  cbn [run]. rewrite IH. cbn [bind]. rewrite gen_deepcopy_vis.
  - exact H0.
  - eapply gen_deepcopy_vis_ok. exact H0.
Qed.

(* ------------------------------------------------------------------------------------------ *)
(* the repaired generator returns: no panic, no aborted chain, bounded nesting                  *)
(* ------------------------------------------------------------------------------------------ *)

(* Go rejects a struct that contains itself by value: struct-by-value nesting has a rank *)
Definition ranked (G : pkg) (r : bytes -> nat) : Prop :=
  forall n d tp fs f c args,
    lookup G n = Some d -> d_kind d = DStruct tp fs -> In (f, FNamed c args) fs -> r c < r n.

Lemma fields_copy_fixed_ok : forall G vis fs, exists body deps, fields_copy all_fixed G vis fs = Ok (body, deps).
Proof.
  intros G vis. induction fs as [|[f t] fs IH]; cbn [fields_copy]; [eauto|].
  destruct (field_stmt_fixed_ok G vis f t) as [s [dep Hs]]. rewrite Hs. cbn [bind].
  destruct IH as [body [deps IH]]. rewrite IH. cbn [bind]. eauto.
Qed.

Lemma field_stmt_dep : forall G vis f t s k,
  field_stmt all_fixed G vis f t = Ok (s, Some k) ->
  t = FNamed (fst k) (snd k) /\ is_iface (lookup G (fst k)) = false.
Proof.
  intros G vis f t s k H. destruct t as [n|e|k' e|n args| | |n|ms];
    try rewrite field_stmt_fixed_error in H;
    cbn [field_stmt all_fixed fx_iface fx_nilpkg fx_mapptr andb] in H; try discriminate.
  - destruct (is_iface (lookup G n)) eqn:Hi; [discriminate|].
    destruct (scan (hand_of (lookup G n) ++ sigs_of vis n)) as [[a b] c]. inversion H; subst. cbn. auto.
  - destruct (scan ms) as [[a b] c]. discriminate.
Qed.

Lemma fields_copy_deps : forall G vis fs body deps,
  fields_copy all_fixed G vis fs = Ok (body, deps) ->
  forall k, In k deps -> exists f, In (f, FNamed (fst k) (snd k)) fs /\ is_iface (lookup G (fst k)) = false.
Proof.
  intros G vis. induction fs as [|[f t] fs IH]; intros body deps H k Hk; cbn [fields_copy] in H.
  - inversion H; subst. destruct Hk.
  - apply bind_ok in H. destruct H as [[s dep] [Hs H]].
    apply bind_ok in H. destruct H as [[ss deps'] [Hr H]]. inversion H; subst. clear H.
    destruct dep as [k0|].
    + destruct Hk as [Hk|Hk].
      * subst k0. apply field_stmt_dep in Hs. destruct Hs as [Ht Hi]. subst t. exists f. split; [left; reflexivity|exact Hi].
      * destruct (IH _ _ Hr k Hk) as [f' [Hin Hi]]. exists f'. split; [right; exact Hin|exact Hi].
    + destruct (IH _ _ Hr k Hk) as [f' [Hin Hi]]. exists f'. split; [right; exact Hin|exact Hi].
Qed.

Lemma render_deps : forall G vis d ms defers,
  render all_fixed G vis d = Ok (ms, defers) ->
  forall k, In k defers ->
    snd k = [] /\ is_iface (lookup G (fst k)) = false /\
    exists tp fs f args, d_kind d = DStruct tp fs /\ In (f, FNamed (fst k) args) fs.
Proof.
  intros G vis d ms defers H k Hk. unfold render in H. destruct (d_kind d) as [tp fs|kk e| |] eqn:Hd;
    try (inversion H; subst; destruct Hk).
  apply bind_ok in H. destruct H as [[body deps] [Hf H]]. inversion H; subst. clear H.
  cbn [fx_origin all_fixed] in Hk. apply in_map_iff in Hk. destruct Hk as [k0 [Hk0 Hin]]. subst k. cbn [fst snd].
  destruct (fields_copy_deps _ _ _ _ _ Hf k0 Hin) as [f [Hf' Hi]].
  split; [reflexivity|]. split; [exact Hi|]. exists tp, fs, f, (snd k0). auto.
Qed.

Lemma render_fixed_ok : forall G vis d, exists ms defers, render all_fixed G vis d = Ok (ms, defers).
Proof.
  intros G vis d. unfold render. destruct (d_kind d) as [tp fs|kk e| |]; eauto.
  destruct (fields_copy_fixed_ok G vis fs) as [body [deps H]]. rewrite H. cbn [bind]. eauto.
Qed.

Section Total.
  Variables (G : pkg) (vis : list method) (r : bytes -> nat).
  Hypothesis Hrank : ranked G r.

  Lemma gen_type_total : forall fuel asdep k st,
    r (fst k) < fuel ->
    exists g st', gen_type fuel all_fixed G vis asdep k st = Ok (g, st') /\
                  (is_iface (lookup G (fst k)) = false -> g = GNil).
  Proof.
    induction fuel as [|fuel IH]; intros asdep k st Hr; [lia|].
    cbn [gen_type]. destruct (mem_key k (gs_processed st)); [eauto|].
    destruct (lookup G (fst k)) as [d|] eqn:Hl; [|eauto].
    assert (forall ms defers, render all_fixed G vis d = Ok (ms, defers) ->
            forall st2, exists st', loop_defers (gen_type fuel all_fixed G vis true) defers st2 = Ok (GNil, st')) as Hloop.
    { intros ms defers Hren.
      assert (forall dk, In dk defers -> r (fst dk) < fuel /\ is_iface (lookup G (fst dk)) = false) as Hd.
      { intros dk Hin. destruct (render_deps _ _ _ _ _ Hren dk Hin) as [_ [Hi [tp [fs [f [args [Hk Hf]]]]]]].
        split; [|exact Hi]. pose proof (Hrank _ _ _ _ _ _ _ Hl Hk Hf). lia. }
      clear Hren. induction defers as [|dk ds IHd]; intros st2; cbn [loop_defers]; [eauto|].
      destruct (Hd dk (or_introl eq_refl)) as [Hlt Hi].
      destruct (IH true dk st2 Hlt) as [g [st3 [Hg Hnil]]]. rewrite Hg. cbn [bind].
      rewrite (Hnil Hi). apply IHd. intros x Hx. apply Hd. right. exact Hx. }
    destruct (d_kind d) eqn:Hk.
    - destruct (negb (asdep && fx_deps all_fixed) && negb (enabled G d)); [eauto|].
      destruct (render_fixed_ok G vis d) as [ms [defers Hren]]. rewrite Hren. cbn [bind].
      destruct (Hloop _ _ Hren (mk_gstate (k :: gs_processed st) (gs_out st ++ ms))) as [st' Hst].
      cbn [gs_processed gs_out]. exists GNil, st'. split; [exact Hst|reflexivity].
    - destruct (negb (asdep && fx_deps all_fixed) && negb (enabled G d)); [eauto|].
      destruct (render_fixed_ok G vis d) as [ms [defers Hren]]. rewrite Hren. cbn [bind].
      destruct (Hloop _ _ Hren (mk_gstate (k :: gs_processed st) (gs_out st ++ ms))) as [st' Hst].
      cbn [gs_processed gs_out]. exists GNil, st'. split; [exact Hst|reflexivity].
    - destruct (negb (asdep && fx_deps all_fixed) && negb (enabled G d)); [eauto|].
      destruct (render_fixed_ok G vis d) as [ms [defers Hren]]. rewrite Hren. cbn [bind].
      destruct (Hloop _ _ Hren (mk_gstate (k :: gs_processed st) (gs_out st ++ ms))) as [st' Hst].
      cbn [gs_processed gs_out]. exists GNil, st'. split; [exact Hst|reflexivity].
    - exists GSkip. eexists. split; [reflexivity|]. intros Hi. unfold is_iface in Hi.
      destruct d; cbn in *. subst. discriminate.
  Qed.

  Lemma gen_all_total : forall fuel order st,
    (forall n, In n order -> r n < fuel) ->
    exists st', gen_all fuel all_fixed G vis order st = Ok st'.
  Proof.
    intros fuel. induction order as [|n order IH]; intros st Hr; cbn [gen_all]; [eauto|].
    assert (forall n0, In n0 order -> r n0 < fuel) as Hr' by (intros; apply Hr; right; assumption).
    destruct (lookup G n) as [d|]; [|apply IH; assumption].
    destruct (enabled G d); [|apply IH; assumption].
    destruct (gen_type_total fuel false (n, []) st (Hr n (or_introl eq_refl))) as [g [st1 [H1 _]]].
    rewrite H1. cbn [bind]. apply IH. assumption.
  Qed.
End Total.

Lemma list_max_ge : forall l x, In x l -> x <= list_max l.
Proof.
  induction l as [|y l IH]; intros x H; [destruct H|]. unfold list_max in *. cbn [fold_right]. destruct H as [H|H].
  - subst. lia.
  - specialize (IH _ H). lia.
Qed.

Lemma gen_deepcopy_total : forall G r, ranked G r ->
  forall order, exists n, forall fuel, n <= fuel -> forall vis,
    exists ms, gen_deepcopy fuel all_fixed G order vis = Ok ms.
Proof.
  intros G r Hr order. exists (S (list_max (map r order))). intros fuel Hf vis.
  destruct (gen_all_total G vis r Hr fuel order (mk_gstate [] [])) as [st Hst].
  - intros n Hn. pose proof (list_max_ge (map r order) (r n) (in_map r _ _ Hn)). lia.
  - unfold gen_deepcopy. rewrite Hst. cbn [bind]. eauto.
Qed.

(* ------------------------------------------------------------------------------------------ *)
(* shape of the generated file: one block of methods per processed type, dependencies closed   *)
(* ------------------------------------------------------------------------------------------ *)

Lemma key_eqb_spec : forall a b : key, key_eqb a b = true <-> a = b.
Proof.
  intros [a1 a2] [b1 b2]. unfold key_eqb. cbn [fst snd]. rewrite andb_true_iff.
  rewrite bytes_eqb_spec. rewrite (list_eqb_spec bytes_eqb bytes_eqb_spec). split.
  - intros [H1 H2]. congruence.
  - intros H. inversion H. auto.
Qed.

Lemma mem_key_true : forall k l, mem_key k l = true -> In k l.
Proof.
  intros k l H. unfold mem_key in H. apply existsb_exists in H. destruct H as [x [Hin He]].
  apply key_eqb_spec in He. subst. exact Hin.
Qed.

Lemma mem_key_false : forall k l, mem_key k l = false -> ~ In k l.
Proof.
  intros k l H Hin. unfold mem_key in H. assert (existsb (key_eqb k) l = true) as Ht.
  { apply existsb_exists. exists k. split; [exact Hin|]. apply key_eqb_spec. reflexivity. }
  congruence.
Qed.

Section Shape.
  Variable G : pkg.

  (* the methods the repaired generator renders for type n, and its defers *)
  Definition emit (n : bytes) : list method :=
    match lookup G n with
    | Some d => match render all_fixed G [] d with Ok (ms, _) => ms | _ => [] end
    | None => []
    end.

  Definition deps_of (n : bytes) : list key :=
    match lookup G n with
    | Some d => match render all_fixed G [] d with Ok (_, ds) => ds | _ => [] end
    | None => []
    end.

  (* a processed key contributed methods *)
  Definition emits (k : key) : bool :=
    match lookup G (fst k) with
    | Some d => match d_kind d with DIface => false | _ => true end
    | None => false
    end.

  Definition emitted (P : list key) : list bytes := rev (map fst (filter emits P)).

  Definition closedkey (P : list key) (j : key) : Prop := forall dk, In dk (deps_of (fst j)) -> In dk P.

  Definition J (st : gstate) : Prop :=
    gs_out st = flat_map emit (emitted (gs_processed st))
    /\ (forall k, In k (gs_processed st) -> snd k = [])
    /\ NoDup (map fst (gs_processed st)).

  Lemma closedkey_mono : forall P P' j, closedkey P j -> incl P P' -> closedkey P' j.
  Proof. unfold closedkey, incl. auto. Qed.

  Lemma J_push_silent : forall st k,
    J st -> snd k = [] -> mem_key k (gs_processed st) = false -> emits k = false ->
    J (mk_gstate (k :: gs_processed st) (gs_out st)).
  Proof.
    intros st k [Ho [Hs Hn]] Hk Hm He. unfold J. cbn [gs_processed gs_out]. split; [|split].
    - unfold emitted. cbn [filter]. rewrite He. exact Ho.
    - intros j [Hj|Hj]; [subst; exact Hk|auto].
    - cbn [map]. constructor; [|exact Hn]. intros Hin. apply in_map_iff in Hin.
      destruct Hin as [j [Hf Hj]]. apply (mem_key_false _ _ Hm).
      assert (j = k) as ->; [|exact Hj]. pose proof (Hs _ Hj) as Hj2. destruct j as [j1 j2], k as [k1 k2]. cbn [fst snd] in *. congruence.
  Qed.

  Lemma J_push_emit : forall st k d ms defers,
    J st -> snd k = [] -> mem_key k (gs_processed st) = false ->
    lookup G (fst k) = Some d -> d_kind d <> DIface -> render all_fixed G [] d = Ok (ms, defers) ->
    J (mk_gstate (k :: gs_processed st) (gs_out st ++ ms)).
  Proof.
    intros st k d ms defers [Ho [Hs Hn]] Hk Hm Hl Hd Hr. unfold J. cbn [gs_processed gs_out]. split; [|split].
    - unfold emitted in *. cbn [filter].
      assert (emits k = true) as He. { unfold emits. rewrite Hl. destruct (d_kind d); congruence. }
      rewrite He. cbn [map rev]. rewrite flat_map_app. cbn [flat_map]. rewrite app_nil_r.
      rewrite <- Ho. f_equal. unfold emit. rewrite Hl, Hr. reflexivity.
    - intros j [Hj|Hj]; [subst; exact Hk|auto].
    - cbn [map]. constructor; [|exact Hn]. intros Hin. apply in_map_iff in Hin.
      destruct Hin as [j [Hf Hj]]. apply (mem_key_false _ _ Hm).
      assert (j = k) as ->; [|exact Hj]. pose proof (Hs _ Hj) as Hj2. destruct j as [j1 j2], k as [k1 k2]. cbn [fst snd] in *. congruence.
  Qed.

  Definition key_dec : forall x y : key, {x = y} + {x <> y}.
  Proof.
    intros x y. destruct (key_eqb x y) eqn:E.
    - left. apply key_eqb_spec. exact E.
    - right. intros H. apply key_eqb_spec in H. congruence.
  Defined.

  Definition post (st st' : gstate) : Prop :=
    J st' /\ incl (gs_processed st) (gs_processed st')
    /\ (forall j, In j (gs_processed st') -> ~ In j (gs_processed st) -> closedkey (gs_processed st') j).

  Lemma post_refl : forall st, J st -> post st st.
  Proof. intros st H. split; [exact H|]. split; [apply incl_refl|]. intros j H1 H2. contradiction. Qed.

  Lemma post_trans : forall a b c, post a b -> post b c -> post a c.
  Proof.
    intros a b c [Jb [Iab Cab]] [Jc [Ibc Cbc]]. split; [exact Jc|]. split; [eapply incl_tran; eassumption|].
    intros j Hc Ha. destruct (in_dec key_dec j (gs_processed b)) as [Hb|Hb].
    - eapply closedkey_mono; [apply Cab; assumption|exact Ibc].
    - apply Cbc; assumption.
  Qed.

  Lemma loop_defers_post : forall rec,
    (forall k st g st', J st -> snd k = [] -> rec k st = Ok (g, st') ->
       post st st' /\ In k (gs_processed st') /\ (is_iface (lookup G (fst k)) = false -> g = GNil)) ->
    forall ds st g st',
      J st -> (forall dk, In dk ds -> snd dk = [] /\ is_iface (lookup G (fst dk)) = false) ->
      loop_defers rec ds st = Ok (g, st') ->
      post st st' /\ (forall dk, In dk ds -> In dk (gs_processed st')) /\ g = GNil.
  Proof.
    intros rec Hrec. induction ds as [|dk ds IH]; intros st g st' HJ Hds H; cbn [loop_defers] in H.
    - inversion H; subst. split; [apply post_refl; exact HJ|]. split; [intros dk []|reflexivity].
    - apply bind_ok in H. destruct H as [[g1 st1] [H1 H2]].
      destruct (Hds dk (or_introl eq_refl)) as [Hs Hi].
      destruct (Hrec _ _ _ _ HJ Hs H1) as [Hp1 [Hin1 Hg1]]. rewrite (Hg1 Hi) in H2.
      assert (J st1) as HJ1 by (destruct Hp1; assumption).
      destruct (IH st1 g st' HJ1 (fun x Hx => Hds x (or_intror Hx)) H2) as [Hp2 [Hin2 Hg]].
      split; [eapply post_trans; eassumption|]. split; [|exact Hg].
      intros x [Hx|Hx]; [subst x|auto]. destruct Hp2 as [_ [Hincl _]]. apply Hincl. exact Hin1.
  Qed.

  Lemma gen_type_post : forall fuel asdep k st g st',
    J st -> snd k = [] ->
    (asdep = true \/ forall d, lookup G (fst k) = Some d -> enabled G d = true) ->
    gen_type fuel all_fixed G [] asdep k st = Ok (g, st') ->
    post st st' /\ In k (gs_processed st') /\ (is_iface (lookup G (fst k)) = false -> g = GNil).
  Proof.
    induction fuel as [|fuel IH]; intros asdep k st g st' HJ Hk Hpre H; [discriminate|].
    cbn [gen_type] in H. destruct (mem_key k (gs_processed st)) eqn:Hm.
    { inversion H; subst. split; [apply post_refl; exact HJ|]. split; [apply mem_key_true; exact Hm|auto]. }
    assert (forall st1, gs_processed st1 = k :: gs_processed st -> J st1 ->
            (forall dk, In dk (deps_of (fst k)) -> In dk (gs_processed st1)) -> post st st1) as Hfin.
    { intros st1 Hp HJ1 Hdeps. split; [exact HJ1|]. split.
      - rewrite Hp. apply incl_tl, incl_refl.
      - intros j Hj Hnj. rewrite Hp in Hj. destruct Hj as [Hj|Hj]; [|contradiction]. subst j. exact Hdeps. }
    destruct (lookup G (fst k)) as [d|] eqn:Hl.
    2:{ inversion H; subst. split; [|split; [left; reflexivity|reflexivity]].
        apply Hfin; [reflexivity| |].
        - apply J_push_silent; auto. unfold emits. rewrite Hl. reflexivity.
        - unfold deps_of. rewrite Hl. intros dk []. }
    assert (forall ms defers, render all_fixed G [] d = Ok (ms, defers) -> d_kind d <> DIface ->
            loop_defers (gen_type fuel all_fixed G [] true) defers
              (mk_gstate (k :: gs_processed st) (gs_out st ++ ms)) = Ok (g, st') ->
            post st st' /\ In k (gs_processed st') /\ (is_iface (Some d) = false -> g = GNil)) as Hemit.
    { intros ms defers Hren Hd Hloop.
      pose proof (J_push_emit st k d ms defers HJ Hk Hm Hl Hd Hren) as HJ2.
      assert (forall dk, In dk defers -> snd dk = [] /\ is_iface (lookup G (fst dk)) = false) as Hds.
      { intros dk Hin. destruct (render_deps _ _ _ _ _ Hren dk Hin) as [Hs [Hi _]]. auto. }
      destruct (loop_defers_post (gen_type fuel all_fixed G [] true)
                  (fun k0 st0 g0 st0' HJ0 Hs0 H0 => IH true k0 st0 g0 st0' HJ0 Hs0 (or_introl eq_refl) H0)
                  defers _ g st' HJ2 Hds Hloop) as [[HJ' [Hincl Hnew]] [Hin Hg]].
      cbn [gs_processed] in Hincl, Hnew.
      split; [|split; [apply Hincl; left; reflexivity|intros _; exact Hg]].
      split; [exact HJ'|]. split; [intros x Hx; apply Hincl; right; exact Hx|].
      intros j Hj Hnj. destruct (key_dec j k) as [->|Hne].
      - intros dk Hdk. apply Hin. unfold deps_of in Hdk. rewrite Hl, Hren in Hdk. exact Hdk.
      - apply Hnew; [exact Hj|]. intros [Hx|Hx]; [congruence|contradiction]. }
    assert (negb (asdep && fx_deps all_fixed) && negb (enabled G d) = false) as Hen.
    { destruct Hpre as [->|He]; [reflexivity|]. rewrite (He d eq_refl). apply andb_false_r. }
    rewrite Hen in H.
    destruct (d_kind d) eqn:Hkd;
      try (apply bind_ok in H; destruct H as [[ms defers] [Hren H]]; eapply Hemit; [exact Hren|congruence|exact H]).
    inversion H; subst. split; [|split; [left; reflexivity|]].
    - apply Hfin; [reflexivity| |].
      + apply J_push_silent; auto. unfold emits. rewrite Hl, Hkd. reflexivity.
      + unfold deps_of. rewrite Hl. unfold render. rewrite Hkd. intros dk [].
    - unfold is_iface. destruct d; cbn in *. subst. discriminate.
  Qed.

  Lemma gen_all_post : forall fuel order st st',
    J st -> (forall j, In j (gs_processed st) -> closedkey (gs_processed st) j) ->
    gen_all fuel all_fixed G [] order st = Ok st' ->
    J st' /\ (forall j, In j (gs_processed st') -> closedkey (gs_processed st') j)
    /\ incl (gs_processed st) (gs_processed st')
    /\ (forall n d, In n order -> lookup G n = Some d -> enabled G d = true -> In (n, []) (gs_processed st')).
  Proof.
    intros fuel. induction order as [|n order IH]; intros st st' HJ Hc H; cbn [gen_all] in H.
    - inversion H; subst. split; [exact HJ|]. split; [exact Hc|]. split; [apply incl_refl|]. intros n d [].
    - destruct (lookup G n) as [d|] eqn:Hl.
      2:{ destruct (IH _ _ HJ Hc H) as [A [B [C D]]]. split; [exact A|]. split; [exact B|]. split; [exact C|].
          intros n0 d0 [->|Hin] Hl0; [congruence|eauto]. }
      destruct (enabled G d) eqn:He.
      2:{ destruct (IH _ _ HJ Hc H) as [A [B [C D]]]. split; [exact A|]. split; [exact B|]. split; [exact C|].
          intros n0 d0 [->|Hin] Hl0 He0; [congruence|eauto]. }
      apply bind_ok in H. destruct H as [[g st1] [H1 H2]].
      destruct (gen_type_post fuel false (n, []) st g st1 HJ eq_refl) as [[HJ1 [Hincl Hnew]] [Hin _]].
      { right. cbn [fst]. intros d0 Hd0. congruence. }
      { exact H1. }
      assert (forall j, In j (gs_processed st1) -> closedkey (gs_processed st1) j) as Hc1.
      { intros j Hj. destruct (in_dec key_dec j (gs_processed st)) as [Hb|Hb].
        - eapply closedkey_mono; [apply Hc; exact Hb|exact Hincl].
        - apply Hnew; assumption. }
      destruct (IH _ _ HJ1 Hc1 H2) as [A [B [C D]]]. split; [exact A|]. split; [exact B|].
      split; [eapply incl_tran; eassumption|].
      intros n0 d0 [->|Hin0] Hl0 He0; [apply C; exact Hin|eauto].
  Qed.
End Shape.
