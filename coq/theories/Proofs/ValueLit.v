(* C10 — proofs about the model of Dumper.ValueLit. *)
Require Import Gengo.Base.Bytes Gengo.Model.ValueLit Gengo.Model.ValueLitSpec Gengo.Proofs.ValueLitBase.
From Coq Require Import ZArith Permutation.

Lemma tyast_eqb_refl : forall a, tyast_eqb a a = true.
Proof.
  fix IH 1. intros [p n|e|e|n e|k e|fs]; cbn.
  - now rewrite !bytes_eqb_refl.
  - apply IH.
  - apply IH.
  - rewrite Nat.eqb_refl. apply IH.
  - now rewrite !IH.
  - revert fs. fix IHfs 1. intros [|f fs]; [reflexivity|].
    rewrite bytes_eqb_refl, IH. cbn. apply IHfs.
Qed.

Lemma zero_under {F} (f0 : F) : forall t, zero f0 t = zero f0 (under t).
Proof. destruct t; reflexivity. Qed.

Lemma dom_under : forall t, dom t -> dom (under t).
Proof. intros t H. destruct H; cbn; try (constructor; assumption). assumption. Qed.

Lemma under_idem_dom : forall t, dom t -> under (under t) = under t.
Proof. intros t H. destruct H; cbn; try reflexivity. destruct u; try reflexivity. contradiction. Qed.

Section Ind.
  Context {F : Type}.
  Variable P : goval F -> Prop.
  Hypothesis Hb : forall b, P (VBool b).
  Hypothesis Hi : forall z, P (VInt z).
  Hypothesis Hf : forall x, P (VFloat x).
  Hypothesis Hs : forall s, P (VStr s).
  Hypothesis Hn : P VNilPtr.
  Hypothesis Hp : forall v, P v -> P (VPtr v).
  Hypothesis Hsl : forall n l, Forall P l -> P (VSlice n l).
  Hypothesis Ha : forall l, Forall P l -> P (VArray l).
  Hypothesis Hm : forall n m, Forall (fun kv => P (fst kv) /\ P (snd kv)) m -> P (VMap n m).
  Hypothesis Hst : forall l, Forall P l -> P (VStruct l).

  Fixpoint goval_ind' (v : goval F) : P v :=
    match v with
    | VBool b => Hb b | VInt z => Hi z | VFloat x => Hf x | VStr s => Hs s
    | VNilPtr => Hn
    | VPtr x => Hp x (goval_ind' x)
    | VSlice n l => Hsl n l ((fix go (l : list (goval F)) : Forall P l :=
                                match l with [] => Forall_nil P | x :: r => Forall_cons x (goval_ind' x) (go r) end) l)
    | VArray l => Ha l ((fix go (l : list (goval F)) : Forall P l :=
                           match l with [] => Forall_nil P | x :: r => Forall_cons x (goval_ind' x) (go r) end) l)
    | VMap n m => Hm n m ((fix go (m : list (goval F * goval F)) : Forall (fun kv => P (fst kv) /\ P (snd kv)) m :=
                             match m with
                             | [] => Forall_nil _
                             | kv :: r => Forall_cons kv (conj (goval_ind' (fst kv)) (goval_ind' (snd kv))) (go r)
                             end) m)
    | VStruct l => Hst l ((fix go (l : list (goval F)) : Forall P l :=
                             match l with [] => Forall_nil P | x :: r => Forall_cons x (goval_ind' x) (go r) end) l)
    end.
End Ind.

Section Proofs.
  Context {F : Type}.
  Variable fzero : F -> bool.
  Variables ffmt gfmt : fkind -> F -> bytes.
  Variable fbig : F -> bool.
  Variable fparse : fkind -> bytes -> option F.
  Variable f0 : F.
  Variable quote : bytes -> bytes.
  Variable local : bytes -> bytes.
  Variable frep : fkind -> F -> Prop.
  Variable feq : F -> F -> Prop.

  Notation VL := (@value_lit F fzero ffmt gfmt fbig quote local).
  Notation DN := (@denote F fparse f0).
  Notation PL := (@print_lit quote local).
  Notation ZERO := (@zero F f0).
  Notation TYPED := (@typed F frep).
  Notation DEQ := (@deep_eq F feq).
  Notation EMPTY := (@is_empty F fzero).

  Ltac des :=
    repeat (match goal with
            | H : context[match ?x with _ => _ end] |- _ => destruct x eqn:?
            end; try discriminate).

  Lemma lempty_shape : forall fx sub t v, VL fx sub t v = Ok LEmpty -> sub = true /\ exists vs, v = VStruct vs.
  Proof.
    intros fx sub t v H. destruct v; cbn [value_lit] in H; unfold bind in H.
    all: try discriminate; try solve [des].
    destruct (under t); try discriminate.
    (match type of H with context[map2r ?f ?a ?b] => destruct (map2r f a b) end); try discriminate.
    destruct sub; cbn in H; [|discriminate]. split; [reflexivity | eauto].
  Qed.

  Definition is_composite_val (v : goval F) : Prop :=
    match v with VSlice _ _ | VArray _ | VMap _ _ | VStruct _ => True | _ => False end.

  Lemma composite_shape : forall fx t v l, is_composite_val v -> VL fx false t v = Ok l ->
    exists ty es, l = LComposite ty es.
  Proof.
    intros fx t v l Hc H. destruct v; try contradiction; cbn [value_lit] in H; unfold bind in H;
      destruct (under t); try discriminate.
    - (match type of H with context[mapr ?f ?a] => destruct (mapr f a) end); try discriminate. injection H as <-. eauto.
    - (match type of H with context[mapr ?f ?a] => destruct (mapr f a) end); try discriminate. injection H as <-. eauto.
    - (match type of H with context[mapr ?f ?a] => destruct (mapr f a) end); try discriminate. injection H as <-. eauto.
    - (match type of H with context[map2r ?f ?a ?b] => destruct (map2r f a b) end); try discriminate. cbn in H. injection H as <-. eauto.
  Qed.

  (* ---- hypotheses on the external components ---- *)
  Hypothesis H_fzero : forall x, fzero x = true -> feq x f0.
  Hypothesis H_ffmt : forall k x, frep k x -> exists y, fparse k (ffmt k x) = Some y /\ feq x y.
  Hypothesis H_gfmt : forall k x, frep k x -> exists y, fparse k (gfmt k x) = Some y /\ feq x y.
  Hypothesis H_small : forall k x z, frep k x -> fbig x = false -> parse_int (ffmt k x) = Some z -> int_const_ok z = true.
  Hypothesis H_big : forall k x, frep k x -> fbig x = true -> parse_int (gfmt k x) = None.
  Hypothesis quote_inj : forall a b, quote a = quote b -> a = b.

  (* the round trip, in the form that goes through the induction: below SubValue a zero struct may
     render as the empty text, and then the value is the zero value of its type *)
  Definition RT (v : goval F) : Prop := forall t sub, dom t -> TYPED t v ->
    exists l, VL true sub t v = Ok l /\
      ((l = LEmpty /\ sub = true /\ DEQ v (ZERO t)) \/ (exists v', DN t l = Some v' /\ DEQ v v')).

  Lemma RT_bool : forall b, RT (VBool b).
  Proof.
    intros b t sub Hd Ht. inversion Ht as [? ? Hu| | | | | | | | |]; subst.
    cbn [value_lit]. rewrite Hu. eexists; split; [reflexivity|]. right. exists (VBool b).
    cbn [denote]. rewrite Hu. split; constructor.
  Qed.

  Lemma RT_str : forall s, RT (VStr s).
  Proof.
    intros s t sub Hd Ht. inversion Ht as [| | |? ? Hu| | | | | |]; subst.
    cbn [value_lit]. rewrite Hu. eexists; split; [reflexivity|]. right. exists (VStr s).
    cbn [denote]. rewrite Hu. split; constructor.
  Qed.

  Lemma RT_int : forall z, RT (VInt z).
  Proof.
    intros z t sub Hd Ht. inversion Ht as [|? k ? Hu Hr| | | | | | | |]; subst.
    cbn [value_lit]. rewrite Hu.
    assert (Hnum : DN t (LNum (dec z)) = Some (VInt z)).
    { cbn [denote]. now rewrite Hu, parse_int_dec, Hr. }
    assert (Hchr : DN t (LChar z) = Some (VInt z)).
    { cbn [denote]. now rewrite Hu, Hr. }
    destruct k; cbn [andb]; try (eexists; split; [reflexivity|]; right; exists (VInt z); split; [exact Hnum | constructor]).
    destruct (is_rune_type t && rune_short z);
      eexists; (split; [reflexivity|]); right; exists (VInt z); (split; [assumption | constructor]).
  Qed.

  Lemma RT_float : forall x, RT (VFloat x).
  Proof.
    intros x t sub Hd Ht. inversion Ht as [| |? k ? Hu Hr| | | | | | |]; subst.
    cbn [value_lit]. rewrite Hu. cbn [andb]. eexists; split; [reflexivity|]. right.
    cbn [denote]. rewrite Hu. destruct (fbig x) eqn:Eb.
    - rewrite (H_big k x Hr Eb). destruct (H_gfmt k x Hr) as (y & Hy & He). rewrite Hy. cbn.
      exists (VFloat y). split; [reflexivity | now constructor].
    - destruct (H_ffmt k x Hr) as (y & Hy & He).
      destruct (parse_int (ffmt k x)) as [z|] eqn:Ez; [rewrite (H_small k x z Hr Eb Ez)|]; rewrite Hy; cbn;
        exists (VFloat y); (split; [reflexivity | now constructor]).
  Qed.

  Lemma RT_nil : RT VNilPtr.
  Proof.
    intros t sub Hd Ht. inversion Ht as [| | | |? e Hu| | | | |]; subst.
    cbn [value_lit]. eexists; split; [reflexivity|]. right. exists VNilPtr.
    cbn [denote]. rewrite Hu. split; constructor.
  Qed.

  Lemma nonbasic_composite : forall e v, TYPED e v -> basic_kind true (under e) = false -> not_ptr e ->
    is_composite_val v.
  Proof.
    intros e v Ht Hb Hp. unfold not_ptr in Hp.
    inversion Ht as [? ? Hu|? ? ? Hu|? ? ? Hu|? ? Hu|? ? Hu|? ? ? Hu| | | |]; subst; cbn; auto;
      rewrite Hu in *; try discriminate; contradiction.
  Qed.

  Lemma RT_ptr : forall v, RT v -> RT (VPtr v).
  Proof.
    intros v IH t sub Hd Ht. inversion Ht as [| | | | |? e ? Hu Htv| | | |]; subst.
    pose proof (dom_under t Hd) as Hd'. rewrite Hu in Hd'. inversion Hd' as [| | | | |? Hnp Hde| | | |]; subst.
    cbn [value_lit]. rewrite Hu. destruct (basic_kind true (under e)) eqn:Eb.
    - destruct (IH e sub Hde Htv) as (a & Ha & [(-> & _ & _)|(v' & Hv' & Hq)]).
      + apply lempty_shape in Ha. destruct Ha as (_ & vs & ->).
        inversion Htv as [| | | | | | | | |? fs ? Hu' _]; subst. rewrite Hu' in Eb. discriminate.
      + rewrite Ha. cbn [bind]. eexists; split; [reflexivity|]. right. exists (VPtr v').
        cbn [denote]. rewrite Hu, tyast_eqb_refl, Hv'. split; [reflexivity | now constructor].
    - destruct (IH e false Hde Htv) as (a & Ha & [(_ & Hs & _)|(v' & Hv' & Hq)]); [discriminate|].
      rewrite Ha. cbn [bind]. eexists; split; [reflexivity|]. right. exists (VPtr v').
      destruct (composite_shape true e v a (nonbasic_composite e v Htv Eb Hnp) Ha) as (ty & es & ->).
      cbn [denote]. rewrite Hu. cbn [denote] in Hv'. rewrite Hv'. split; [reflexivity | now constructor].
  Qed.

  Lemma den_list : forall e xs ls,
    Forall2 (fun x a => exists v', DN e a = Some v' /\ DEQ x v') xs ls ->
    exists vs', all_some (map (fun kv : lit * lit => match fst kv with LKNone => DN e (snd kv) | _ => None end)
                              (map (fun x => (LKNone, x)) ls)) = Some vs' /\ Forall2 DEQ xs vs'.
  Proof.
    intros e xs ls H. induction H as [|x a xs ls (v' & Hv & Hq) _ (vs' & Hvs & HF)].
    - exists []. split; [reflexivity | constructor].
    - exists (v' :: vs'). cbn. rewrite Hv. cbn in Hvs. rewrite Hvs. split; [reflexivity | now constructor].
  Qed.

  Lemma elems_ok : forall e l, dom e -> Forall RT l -> Forall (TYPED e) l ->
    exists ls, mapr (VL true false e) l = Ok ls /\
               Forall2 (fun x a => exists v', DN e a = Some v' /\ DEQ x v') l ls.
  Proof.
    intros e l Hde IH Htl. apply mapr_Forall2. rewrite Forall_forall in *. intros x Hin.
    destruct (IH x Hin e false Hde (Htl x Hin)) as (a & Ha & [(_ & Hs & _)|Hr]); [discriminate|].
    exists a. auto.
  Qed.

  Lemma RT_slice : forall n l, Forall RT l -> RT (VSlice n l).
  Proof.
    intros n l IH t sub Hd Ht. inversion Ht as [| | | | | |? e ? ? Hu Htl Hn| | |]; subst.
    pose proof (dom_under t Hd) as Hd'. rewrite Hu in Hd'. inversion Hd' as [| | | | | |? Hde| | |]; subst.
    cbn [value_lit]. rewrite Hu.
    destruct (elems_ok e l Hde IH Htl) as (ls & Hls & HF). rewrite Hls. cbn [bind].
    eexists; split; [reflexivity|]. right.
    destruct (den_list e l ls HF) as (vs' & Hvs & HQ).
    cbn [denote]. rewrite tyast_eqb_refl, Hu, Hvs. cbn.
    eexists; split; [reflexivity | now constructor].
  Qed.

  Lemma RT_array : forall l, Forall RT l -> RT (VArray l).
  Proof.
    intros l IH t sub Hd Ht. inversion Ht as [| | | | | | |? n e ? Hu Htl Hn| |]; subst.
    pose proof (dom_under t Hd) as Hd'. rewrite Hu in Hd'. inversion Hd' as [| | | | | | |? ? Hde| |]; subst.
    cbn [value_lit]. rewrite Hu.
    destruct (elems_ok e l Hde IH Htl) as (ls & Hls & HF). rewrite Hls. cbn [bind].
    eexists; split; [reflexivity|]. right.
    destruct (den_list e l ls HF) as (vs' & Hvs & HQ).
    cbn [denote]. rewrite tyast_eqb_refl, Hu, Hvs.
    assert (Hlen : length vs' = length l) by (symmetry; eapply Forall2_len; eassumption).
    rewrite Hlen, Nat.leb_refl, Nat.sub_diag. cbn [repeat]. rewrite app_nil_r.
    eexists; split; [reflexivity | now constructor].
  Qed.

  (* ---- structs ---- *)

  Lemma empty_zero : forall t v, TYPED t v -> EMPTY v = true -> DEQ v (ZERO t).
  Proof.
    intros t v Ht He. inversion Ht as [? b Hu|? ? z Hu|? ? x Hu|? s Hu|? ? Hu|? ? ? Hu|? ? ? l Hu|? ? ? l Hu ? Hl|? ? ? ? m Hu|? ? ? Hu];
      subst; cbn in He; rewrite zero_under, Hu; cbn [zero]; try discriminate.
    - destruct b; [discriminate | constructor].
    - apply Z.eqb_eq in He. subst. constructor.
    - constructor. now apply H_fzero.
    - destruct s; [constructor | discriminate].
    - constructor.
    - destruct l; [|discriminate]. constructor. constructor.
    - destruct l; [|discriminate]. cbn. constructor. constructor.
    - destruct m; [|discriminate]. econstructor; [apply perm_nil | constructor].
  Qed.

  Inductive srows : list (bytes * gotype) -> list (goval F) -> list (option (lit * lit)) ->
                    list (bytes * goval F) -> list (goval F) -> Prop :=
  | SR_nil : srows [] [] [] [] []
  | SR_none f fs v vs outs nvs vs' :
      DEQ v (ZERO (snd f)) -> srows fs vs outs nvs vs' ->
      srows (f :: fs) (v :: vs) (None :: outs) nvs (ZERO (snd f) :: vs')
  | SR_some f fs v vs outs nvs vs' l v' :
      DN (snd f) l = Some v' -> DEQ v v' -> srows fs vs outs nvs vs' ->
      srows (f :: fs) (v :: vs) (Some (LKField (fst f), l) :: outs) ((fst f, v') :: nvs) (v' :: vs').

  Lemma srows_build : forall fs vs,
    Forall2 (fun f v => TYPED (snd f) v) fs vs -> Forall RT vs ->
    Forall (fun f => is_exported (fst f) = true /\ dom (snd f)) fs ->
    exists outs nvs vs',
      map2r (fun (f : bytes * gotype) (x : goval F) =>
               if is_exported (fst f) && negb (EMPTY x) then
                 let! l := VL true true (snd f) x in
                 Ok (if is_lempty l then None else Some (LKField (fst f), l))
               else Ok None) fs vs = Ok outs /\ srows fs vs outs nvs vs'.
  Proof.
    intros fs vs H. induction H as [|f v fs vs Htv _ IH]; intros HRT Hfs.
    - exists [], [], []. split; [reflexivity | constructor].
    - inversion HRT as [|? ? HRv HRvs]; subst. inversion Hfs as [|? ? (Hex & Hdf) Hfs']; subst.
      destruct (IH HRvs Hfs') as (outs & nvs & vs' & Hm & Hsr).
      cbn [map2r]. fold (@map2r (bytes * gotype) (goval F) (option (lit * lit))). rewrite Hex. cbn [andb].
      destruct (EMPTY v) eqn:Ee; cbn [negb].
      + rewrite Hm. exists (None :: outs), nvs, (ZERO (snd f) :: vs'). split; [reflexivity|].
        constructor; [now apply empty_zero | assumption].
      + destruct (HRv (snd f) true Hdf Htv) as (l & Hl & [(-> & _ & Hz)|(v' & Hv' & Hq)]).
        * rewrite Hl. cbn [bind is_lempty]. rewrite Hm.
          exists (None :: outs), nvs, (ZERO (snd f) :: vs'). split; [reflexivity | now constructor].
        * rewrite Hl. cbn [bind]. destruct (is_lempty l) eqn:El.
          { destruct l; cbn in El, Hv'; discriminate. }
          rewrite Hm. exists (Some (LKField (fst f), l) :: outs), ((fst f, v') :: nvs), (v' :: vs').
          split; [reflexivity | now constructor].
  Qed.

  Lemma srows_deq : forall fs vs outs nvs vs', srows fs vs outs nvs vs' -> Forall2 DEQ vs vs'.
  Proof. intros * H. induction H; constructor; assumption. Qed.

  Lemma srows_names : forall fs vs outs nvs vs', srows fs vs outs nvs vs' ->
    forall n, In n (map fst nvs) -> In n (map fst fs).
  Proof.
    intros * H. induction H; intros n Hin; cbn in *; auto.
    destruct Hin as [E|Hin]; auto.
  Qed.

  Lemma srows_nodup : forall fs vs outs nvs vs', srows fs vs outs nvs vs' ->
    NoDup (map fst fs) -> NoDup (map fst nvs).
  Proof.
    intros * H. induction H; intros Hnd; cbn in *.
    - constructor.
    - inversion Hnd; subst. auto.
    - inversion Hnd as [|? ? Hni Hnd']; subst. constructor; [|auto].
      intros Hin. apply Hni. eapply srows_names; eassumption.
  Qed.

  Lemma srows_all_none : forall fs vs outs nvs vs', srows fs vs outs nvs vs' -> somes outs = [] ->
    Forall2 DEQ vs (map (fun f => ZERO (snd f)) fs).
  Proof.
    intros * H. induction H; intros He; cbn in *; try discriminate; constructor; auto.
  Qed.

  Lemma srows_phase1 : forall fs vs outs nvs vs', srows fs vs outs nvs vs' ->
    forall FS, incl fs FS -> NoDup (map fst FS) ->
    all_some (map (fun kv : lit * lit =>
                     match field_name (fst kv) with
                     | Some n => match assoc n FS with
                                 | Some ft => option_map (pair n) (DN ft (snd kv))
                                 | None => None
                                 end
                     | None => None
                     end) (somes outs)) = Some nvs.
  Proof.
    intros * H. induction H as [|f fs v vs outs nvs vs' Hz Hsr IH|f fs v vs outs nvs vs' l v' Hv Hq Hsr IH];
      intros FS Hin Hnd; cbn [somes map all_some].
    - reflexivity.
    - apply IH; [|assumption]. intros x Hx. apply Hin. now right.
    - cbn [fst snd field_name].
      assert (Ha : assoc (fst f) FS = Some (snd f)).
      { apply assoc_in; [assumption|]. rewrite <- surjective_pairing. apply Hin. now left. }
      rewrite Ha, Hv. cbn [option_map]. rewrite IH; [reflexivity| |assumption].
      intros x Hx. apply Hin. now right.
  Qed.

  Lemma srows_phase2 : forall fs vs outs nvs vs', srows fs vs outs nvs vs' -> NoDup (map fst fs) ->
    forall P, (forall n, In n (map fst P) -> ~ In n (map fst fs)) ->
    map (fun f : bytes * gotype => match assoc (fst f) (P ++ nvs) with Some v => v | None => ZERO (snd f) end) fs = vs'.
  Proof.
    intros * H. induction H as [|f fs v vs outs nvs vs' Hz Hsr IH|f fs v vs outs nvs vs' l v' Hv Hq Hsr IH];
      intros Hnd P HP; cbn [map].
    - reflexivity.
    - inversion Hnd as [|? ? Hni Hnd']; subst.
      rewrite assoc_app, (assoc_notin (fst f) P), (assoc_notin (fst f) nvs).
      + f_equal. apply IH; [assumption|]. intros n Hn Hin. apply (HP n Hn). now right.
      + intros Hin. apply Hni. eapply srows_names; eassumption.
      + intros Hin. apply (HP _ Hin). now left.
    - inversion Hnd as [|? ? Hni Hnd']; subst.
      rewrite assoc_app, (assoc_notin (fst f) P).
      + cbn [assoc]. rewrite bytes_eqb_refl. f_equal.
        replace (P ++ (fst f, v') :: nvs) with ((P ++ [(fst f, v')]) ++ nvs) by (now rewrite <- app_assoc).
        apply IH; [assumption|]. intros n Hn Hin. rewrite map_app in Hn. apply in_app_or in Hn.
        destruct Hn as [Hn|[<-|[]]]; [apply (HP n Hn); now right | contradiction].
      + intros Hin. apply (HP _ Hin). now left.
  Qed.

  Lemma RT_struct : forall l, Forall RT l -> RT (VStruct l).
  Proof.
    intros l IH t sub Hd Ht. inversion Ht as [| | | | | | | | |? fs ? Hu Hfv]; subst.
    pose proof (dom_under t Hd) as Hd'. rewrite Hu in Hd'. inversion Hd' as [| | | | | | | | |? Hfs Hnd]; subst.
    cbn [value_lit]. rewrite Hu.
    destruct (srows_build fs l Hfv IH Hfs) as (outs & nvs & vs' & Hm & Hsr).
    rewrite Hm. cbn [bind]. destruct (sub && is_nil (somes outs)) eqn:Ec.
    - apply andb_true_iff in Ec. destruct Ec as [-> En].
      eexists; split; [reflexivity|]. left. split; [reflexivity|]. split; [reflexivity|].
      rewrite zero_under, Hu. cbn [zero]. constructor.
      eapply srows_all_none; [eassumption|]. destruct (somes outs); [reflexivity | discriminate].
    - eexists; split; [reflexivity|]. right. exists (VStruct vs').
      split; [|constructor; eapply srows_deq; eassumption].
      cbn [denote]. rewrite tyast_eqb_refl, Hu.
      rewrite (srows_phase1 _ _ _ _ _ Hsr fs (incl_refl fs) Hnd).
      rewrite (names_nodupb_true _ (srows_nodup _ _ _ _ _ Hsr Hnd)).
      f_equal. f_equal.
      apply (srows_phase2 _ _ _ _ _ Hsr Hnd []). intros n [].
  Qed.

  (* ---- maps ---- *)

  Definition key_lit (kt : gotype) (k : goval F) : lit :=
    match k with
    | VBool b => LBool b
    | VInt z => if is_rune_type kt && rune_short z then LChar z else LNum (dec z)
    | VStr s => LStr s
    | _ => LOther
    end.

  Definition key_scalar (v : goval F) : Prop :=
    match v with VBool _ | VInt _ | VStr _ => True | _ => False end.

  Lemma key_typed_scalar : forall kt k, key_ok kt -> TYPED kt k -> key_scalar k.
  Proof.
    intros kt k Hk Ht. unfold key_ok in Hk.
    inversion Ht as [? ? Hu|? ? ? Hu|? ? ? Hu|? ? Hu|? ? Hu|? ? ? Hu|? ? ? ? Hu|? ? ? ? Hu|? ? ? ? ? Hu|? ? ? Hu];
      subst; cbn; auto; rewrite Hu in Hk; contradiction.
  Qed.

  Lemma key_render : forall kt k sub, key_ok kt -> TYPED kt k ->
    VL true sub kt k = Ok (key_lit kt k) /\ DN kt (key_lit kt k) = Some k.
  Proof.
    intros kt k sub Hk Ht. unfold key_ok in Hk.
    inversion Ht as [? ? Hu|? kd z Hu Hr|? ? ? Hu|? ? Hu|? ? Hu|? ? ? Hu|? ? ? ? Hu|? ? ? ? Hu|? ? ? ? ? Hu|? ? ? Hu];
      subst; rewrite Hu in Hk; try contradiction; cbn [value_lit key_lit]; rewrite Hu.
    - split; [reflexivity|]. cbn [denote]. now rewrite Hu.
    - assert (Hnum : DN kt (LNum (dec z)) = Some (VInt z)).
      { cbn [denote]. now rewrite Hu, parse_int_dec, Hr. }
      assert (Hchr : DN kt (LChar z) = Some (VInt z)).
      { cbn [denote]. now rewrite Hu, Hr. }
      destruct kd; try (assert (Hnr : is_rune_type kt = false)
                          by (destruct kt; try reflexivity; cbn in Hu; inversion Hu; subst; reflexivity);
                        rewrite Hnr; cbn [andb]; split; [reflexivity | exact Hnum]).
      destruct (is_rune_type kt && rune_short z); split; try reflexivity; assumption.
    - split; [reflexivity|]. cbn [denote]. now rewrite Hu.
  Qed.

  Lemma rune_short_range : forall z, rune_short z = true -> (32 <= z <= 126)%Z.
  Proof.
    intros z H. unfold rune_short in H.
    apply andb_true_iff in H. destruct H as [H _].
    apply andb_true_iff in H. destruct H as [H _].
    apply andb_true_iff in H. destruct H as [H1 H2].
    apply Z.leb_le in H1. apply Z.leb_le in H2. lia.
  Qed.

  Lemma key_text_inj : forall kt a b, key_ok kt -> TYPED kt a -> TYPED kt b ->
    PL (key_lit kt a) = PL (key_lit kt b) -> a = b.
  Proof.
    intros kt a b Hk Ha Hb. unfold key_ok in Hk.
    inversion Ha as [? x Hu|? ? x Hu|? ? ? Hu|? x Hu|? ? Hu|? ? ? Hu|? ? ? ? Hu|? ? ? ? Hu|? ? ? ? ? Hu|? ? ? Hu];
      subst; rewrite Hu in Hk; try contradiction;
      inversion Hb as [? y Hv|? ? y Hv|? ? ? Hv|? y Hv|? ? Hv|? ? ? Hv|? ? ? ? Hv|? ? ? ? Hv|? ? ? ? ? Hv|? ? ? Hv];
      subst; rewrite Hu in Hv; try discriminate; cbn [key_lit].
    - destruct x, y; cbn; intros E; try reflexivity; discriminate.
    - destruct (is_rune_type kt && rune_short x) eqn:Ex, (is_rune_type kt && rune_short y) eqn:Ey;
        cbn [print_lit]; intros E.
      + apply andb_true_iff in Ex, Ey. destruct Ex as [_ Ex], Ey as [_ Ey].
        apply rune_short_range in Ex, Ey. injection E as E.
        apply (f_equal N_of_ascii) in E. rewrite !N_ascii_embedding in E by lia. f_equal. lia.
      + destruct (dec_head y) as (c & r & Hd & Hc). rewrite Hd in E. injection E as E _. now elim Hc.
      + destruct (dec_head x) as (c & r & Hd & Hc). rewrite Hd in E. injection E as E _. now elim Hc.
      + f_equal. now apply dec_inj.
    - cbn [print_lit]. intros E. f_equal. now apply quote_inj.
  Qed.

  Lemma key_eqb_eq : forall a b, @key_eqb F a b = true -> a = b.
  Proof.
    intros a b H. destruct a, b; cbn in H; try discriminate; f_equal.
    - now apply Bool.eqb_prop.
    - now apply Z.eqb_eq.
    - now apply bytes_eqb_spec.
  Qed.

  Lemma key_nodupb_true : forall l : list (goval F), NoDup l -> key_nodupb l = true.
  Proof.
    induction l as [|x l IH]; intros H; cbn; [reflexivity|].
    inversion H as [|? ? Hni Hnd]; subst. rewrite (IH Hnd), andb_true_r.
    apply negb_true_iff. destruct (existsb (key_eqb x) l) eqn:E; [|reflexivity].
    apply existsb_exists in E. destruct E as (y & Hy & E). apply key_eqb_eq in E. subst y. contradiction.
  Qed.

  Lemma look_own {A} (d : A) : forall tbl : list (bytes * A), NoDup (map fst tbl) ->
    map (fun k => match assoc_last k tbl with Some e => e | None => d end) (map fst tbl) = map snd tbl.
  Proof.
    intros tbl Hnd. rewrite map_map. apply map_ext_in. intros r Hr.
    rewrite (assoc_last_in (fst r) (snd r)); [reflexivity | assumption|].
    now rewrite <- surjective_pairing.
  Qed.

  Lemma rows_denote : forall kt et, key_ok kt -> forall m tbl,
    Forall2 (fun kv r => exists vl v', r = (PL (key_lit kt (fst kv)), (key_lit kt (fst kv), vl)) /\
                                       DN et vl = Some v' /\ DEQ (snd kv) v') m tbl ->
    Forall (fun kv => TYPED kt (fst kv) /\ TYPED et (snd kv)) m ->
    exists m0,
      all_some (map (fun kv : lit * lit => match DN kt (fst kv), DN et (snd kv) with
                                           | Some k, Some v => Some (k, v)
                                           | _, _ => None
                                           end) (map snd tbl)) = Some m0 /\
      Forall2 (fun a b => DEQ (fst a) (fst b) /\ DEQ (snd a) (snd b)) m m0 /\ map fst m0 = map fst m.
  Proof.
    intros kt et Hk m tbl HF.
    induction HF as [|kv r m tbl (vl & v' & -> & Hv' & Hq) _ IHF]; intros Hm.
    - exists []. repeat split; constructor.
    - inversion Hm as [|? ? [Htk Htv] Hm']; subst. destruct (IHF Hm') as (m0 & H0 & HF0 & Hk0).
      destruct (key_render kt (fst kv) false Hk Htk) as [_ Hkd].
      exists ((fst kv, v') :: m0). cbn [map snd all_some fst].
      rewrite Hkd, Hv', H0. split; [reflexivity|]. split; [|cbn; now rewrite Hk0].
      constructor; [|assumption]. cbn [fst snd]. split; [|assumption].
      pose proof (key_typed_scalar kt (fst kv) Hk Htk) as Hs.
      destruct (fst kv); try contradiction; constructor.
  Qed.

  Lemma RT_map : forall n m, Forall (fun kv => RT (fst kv) /\ RT (snd kv)) m -> RT (VMap n m).
  Proof.
    intros n m IH t sub Hd Ht. inversion Ht as [| | | | | | | |? kt et ? ? Hu Hm Hnd Hn|]; subst.
    pose proof (dom_under t Hd) as Hd'. rewrite Hu in Hd'. inversion Hd' as [| | | | | | | |? ? Hk Hdk Hde|]; subst.
    cbn [value_lit]. rewrite Hu. cbv beta iota zeta.
    (* A: the table *)
    assert (HA : exists tbl,
      mapr (fun kv : goval F * goval F =>
              let! kl := VL true false kt (fst kv) in
              let! vl := VL true false et (snd kv) in Ok (PL kl, (kl, vl))) m = Ok tbl /\
      Forall2 (fun kv r => exists vl v', r = (PL (key_lit kt (fst kv)), (key_lit kt (fst kv), vl)) /\
                                         DN et vl = Some v' /\ DEQ (snd kv) v') m tbl).
    { apply mapr_Forall2. rewrite Forall_forall in *. intros kv Hin.
      destruct (Hm kv Hin) as [Htk Htv]. destruct (IH kv Hin) as [_ IHv].
      destruct (key_render kt (fst kv) false Hk Htk) as [Hkr _]. rewrite Hkr. cbn [bind].
      destruct (IHv et false Hde Htv) as (vl & Hvl & [(_ & Hs & _)|(v' & Hv' & Hq)]); [discriminate|].
      rewrite Hvl. cbn [bind]. eexists; split; [reflexivity|]. eauto. }
    destruct HA as (tbl & Htbl & HF). rewrite Htbl. cbn [bind].
    eexists; split; [reflexivity|]. right.
    (* B: the key texts are pairwise distinct *)
    assert (Hfst : map fst tbl = map (fun k => PL (key_lit kt k)) (map fst m)).
    { clear - HF. induction HF as [|kv r m tbl (vl & v' & -> & _) _ IHF]; cbn; [reflexivity | now rewrite IHF]. }
    assert (HndT : NoDup (map fst tbl)).
    { rewrite Hfst. apply NoDup_map_inj_on; [|assumption].
      intros a b Ha Hb. rewrite Forall_forall in Hm.
      apply in_map_iff in Ha. destruct Ha as (kva & <- & Ha). apply in_map_iff in Hb. destruct Hb as (kvb & <- & Hb).
      apply key_text_inj; [assumption | apply (Hm kva Ha) | apply (Hm kvb Hb)]. }
    (* C: the entries are the table rows in sorted order *)
    set (look := fun k => match assoc_last k tbl with Some e => e | None => (LOther, LOther) end).
    assert (HPE : Permutation (map snd tbl) (map look (isort (map fst tbl)))).
    { rewrite <- (look_own (LOther, LOther) tbl HndT). apply Permutation_map. apply isort_perm. }
    (* D: every row denotes *)
    set (D := fun kv : lit * lit => match DN kt (fst kv), DN et (snd kv) with
                                    | Some k, Some v => Some (k, v)
                                    | _, _ => None
                                    end).
    destruct (rows_denote kt et Hk m tbl HF Hm) as (m0 & H0 & HF0 & Hk0). fold D in H0.
    destruct (all_some_perm D _ _ m0 HPE H0) as (m' & Hm' & HP').
    exists (VMap false m'). split.
    - cbn [denote]. rewrite tyast_eqb_refl, Hu. fold D. fold look. rewrite Hm'.
      rewrite key_nodupb_true; [reflexivity|].
      apply (Permutation_NoDup (l := map fst m0)); [now apply Permutation_map | now rewrite Hk0].
    - econstructor; [symmetry; eassumption | assumption].
  Qed.

  Theorem roundtrip_all : forall v, RT v.
  Proof.
    apply goval_ind'.
    - apply RT_bool. - apply RT_int. - apply RT_float. - apply RT_str. - apply RT_nil.
    - apply RT_ptr. - apply RT_slice. - apply RT_array. - apply RT_map. - apply RT_struct.
  Qed.

  Theorem roundtrip_top : forall t v, dom t -> TYPED t v ->
    exists l v', VL true false t v = Ok l /\ DN t l = Some v' /\ DEQ v v'.
  Proof.
    intros t v Hd Ht. destruct (roundtrip_all v t false Hd Ht) as (l & Hl & [(_ & Hs & _)|(v' & Hv & Hq)]);
      [discriminate|]. eauto.
  Qed.

  (* ---- type prefixes ---- *)

  Lemma type_prefix : forall fx sub t v ty es, VL fx sub t v = Ok (LComposite ty es) -> ty = type_lit t.
  Proof.
    intros fx sub t v ty es H. destruct v; cbn [value_lit] in H; unfold bind in H; try discriminate.
    all: destruct (under t); try discriminate.
    all: try solve [des].
    all: try ((match type of H with context[mapr ?f ?a] => destruct (mapr f a) end); try discriminate;
              injection H as <- _; reflexivity).
    (match type of H with context[map2r ?f ?a ?b] => destruct (map2r f a b) end); try discriminate.
    destruct (sub && is_nil (somes a)); try discriminate. injection H as <- _. reflexivity.
  Qed.

  Lemma closure_prefix : forall sub t v ty a, VL true sub t v = Ok (LPtrClosure ty a) ->
    exists e, under t = TPtr e /\ ty = type_lit e.
  Proof.
    intros sub t v ty a H. destruct v; cbn [value_lit] in H; unfold bind in H; try discriminate.
    all: destruct (under t) eqn:Eu; try discriminate.
    all: try solve [des].
    destruct (basic_kind true (under g)).
    - destruct (VL true sub g v); try discriminate. injection H as <- _. eauto.
    - destruct (VL true false g v); discriminate.
  Qed.

  (* ---- map order ---- *)

  Lemma bytes_eq_dec : forall a b : bytes, {a = b} + {a <> b}.
  Proof. apply list_eq_dec. apply ascii_dec. Qed.

  Lemma assoc_last_perm {A} : forall (r1 r2 : list (bytes * A)) k, Permutation r1 r2 -> NoDup (map fst r1) ->
    assoc_last k r1 = assoc_last k r2.
  Proof.
    intros r1 r2 k HP Hnd.
    assert (Hnd2 : NoDup (map fst r2)) by (eapply Permutation_NoDup; [apply Permutation_map; eassumption | assumption]).
    destruct (in_dec bytes_eq_dec k (map fst r1)) as [Hin|Hni].
    - apply in_map_iff in Hin. destruct Hin as ([k' v] & <- & Hin). cbn [fst].
      rewrite (assoc_last_in k' v r1 Hnd Hin).
      symmetry. apply assoc_last_in; [assumption|]. eapply Permutation_in; eassumption.
    - rewrite (assoc_last_notin k r1 Hni). symmetry. apply assoc_last_notin.
      intros Hin. apply Hni. eapply Permutation_in; [symmetry; apply Permutation_map; eassumption | assumption].
  Qed.

  Definition row fx sub kt et (kv : goval F * goval F) : res (bytes * (lit * lit)) :=
    let! kl := VL fx sub kt (fst kv) in
    let! vl := VL fx sub et (snd kv) in Ok (PL kl, (kl, vl)).

  Lemma map_order_gen : forall fx sub t n1 n2 m1 m2, Permutation m1 m2 ->
    (forall kt et tbl, under t = TMap kt et ->
       mapr (row fx (if fx then false else sub) kt et) m1 = Ok tbl -> NoDup (map fst tbl)) ->
    VL fx sub t (VMap n1 m1) = VL fx sub t (VMap n2 m2).
  Proof.
    intros fx sub t n1 n2 m1 m2 HP Hnd. cbn [value_lit]. destruct (under t) as [| | | | | | | |kt et|] eqn:Hu; try reflexivity.
    cbv beta iota zeta. fold (row fx (if fx then false else sub) kt et).
    pose proof (mapr_perm (row fx (if fx then false else sub) kt et) m1 m2 HP) as Hp.
    specialize (Hnd kt et).
    destruct (mapr (row fx (if fx then false else sub) kt et) m1) as [r1| |],
             (mapr (row fx (if fx then false else sub) kt et) m2) as [r2| |]; try contradiction; try reflexivity.
    cbn [bind]. specialize (Hnd r1 eq_refl eq_refl).
    rewrite (isort_perm_eq (map fst r1) (map fst r2)) by (try apply Permutation_map; assumption).
    f_equal. f_equal. apply map_ext. intros k. now rewrite (assoc_last_perm r1 r2 k Hp Hnd).
  Qed.

  Theorem map_order : forall sub t n1 n2 m1 m2, dom t -> TYPED t (VMap n1 m1) -> Permutation m1 m2 ->
    VL true sub t (VMap n1 m1) = VL true sub t (VMap n2 m2).
  Proof.
    intros sub t n1 n2 m1 m2 Hd Ht HP. apply map_order_gen; [assumption|].
    intros kt et tbl Hu Htbl. inversion Ht as [| | | | | | | |? kt' et' ? ? Hu' Hm Hnd Hn|]; subst.
    rewrite Hu in Hu'. injection Hu' as <- <-.
    pose proof (dom_under t Hd) as Hd'. rewrite Hu in Hd'. inversion Hd' as [| | | | | | | |? ? Hk Hdk Hde|]; subst.
    apply mapr_ok_Forall2 in Htbl.
    assert (Hfst : map fst tbl = map (fun k => PL (key_lit kt k)) (map fst m1)).
    { clear Hnd HP Ht Hn. induction Htbl as [|kv r m tbl Hr _ IHt]; cbn; [reflexivity|].
      inversion Hm as [|? ? [Htk Htv] Hm']; subst. rewrite (IHt Hm'). f_equal.
      unfold row in Hr. destruct (key_render kt (fst kv) false Hk Htk) as [Hkr _]. rewrite Hkr in Hr.
      cbn [bind] in Hr. destruct (VL true false et (snd kv)); try discriminate. cbn [bind] in Hr.
      injection Hr as <-. reflexivity. }
    rewrite Hfst. apply NoDup_map_inj_on; [|assumption].
    intros a b Ha Hb. rewrite Forall_forall in Hm.
    apply in_map_iff in Ha. destruct Ha as (kva & <- & Ha). apply in_map_iff in Hb. destruct Hb as (kvb & <- & Hb).
    apply key_text_inj; [assumption | apply (Hm kva Ha) | apply (Hm kvb Hb)].
  Qed.

End Proofs.

(* ---- the code before the repairs: witnesses ---- *)

Definition T_In : gotype := TNamed (bs "m") (bs "In") (TStruct [(bs "A", TInt KInt)]).
Definition T_Color : gotype := TNamed (bs "m") (bs "Color") (TInt KInt).

Lemma dom_In : dom T_In.
Proof.
  apply DNamed; [discriminate | exact I|]. apply DStruct.
  - constructor; [split; [reflexivity | constructor] | constructor].
  - constructor; [intros [] | constructor].
Qed.

Section Witnesses.
  Context {F : Type}.
  Variable fzero : F -> bool.
  Variables ffmt gfmt : fkind -> F -> bytes.
  Variable fbig : F -> bool.
  Variable fparse : fkind -> bytes -> option F.
  Variable f0 : F.
  Variable quote : bytes -> bytes.
  Variable local : bytes -> bytes.
  Variable frep : fkind -> F -> Prop.

  Notation VL := (@value_lit F fzero ffmt gfmt fbig quote local).
  Notation DN := (@denote F fparse f0).
  Notation TYPED := (@typed F frep).

  Definition fails (fx : bool) (t : gotype) (v : goval F) : Prop :=
    dom t /\ TYPED t v /\
    (VL fx false t v = Panic \/ exists l, VL fx false t v = Ok l /\ DN t l = None).

  (* *string renders &("x") *)
  Lemma old_ptr_string : fails false (TPtr TString) (VPtr (VStr (bs "x"))).
  Proof.
    split; [apply DPtr; [exact I | constructor]|].
    split; [eapply TyPtr; [reflexivity | now apply TyStr]|].
    right. eexists; split; reflexivity.
  Qed.

  (* *Color renders func(v int) *int { return &v }(3) *)
  Lemma old_ptr_named : fails false (TPtr T_Color) (VPtr (VInt 3)).
  Proof.
    split; [apply DPtr; [exact I | apply DNamed; [discriminate | exact I | constructor]]|].
    split; [eapply TyPtr; [reflexivity | eapply TyInt; reflexivity]|].
    right. eexists; split; reflexivity.
  Qed.

  (* S{Z: &In{}} renders Z:&(), *)
  Lemma old_ptr_zero_struct :
    fails false (TStruct [(bs "Z", TPtr T_In)]) (VStruct [VPtr (VStruct [VInt 0])]).
  Proof.
    split.
    { apply DStruct.
      - constructor; [split; [reflexivity | apply DPtr; [exact I | apply dom_In]] | constructor].
      - constructor; [intros [] | constructor]. }
    split.
    { eapply TyStruct; [reflexivity|]. constructor; [|constructor].
      eapply TyPtr; [reflexivity|]. eapply TyStruct; [reflexivity|].
      constructor; [|constructor]. eapply TyInt; reflexivity. }
    right. eexists; split; reflexivity.
  Qed.

  (* S{M: {"a": In{}}} renders "a":, *)
  Lemma old_map_zero_struct :
    fails false (TStruct [(bs "M", TMap TString T_In)])
          (VStruct [VMap false [(VStr (bs "a"), VStruct [VInt 0])]]).
  Proof.
    split.
    { apply DStruct.
      - constructor; [split; [reflexivity | apply DMap; [exact I | constructor | apply dom_In]] | constructor].
      - constructor; [intros [] | constructor]. }
    split.
    { eapply TyStruct; [reflexivity|]. constructor; [|constructor].
      eapply TyMap; [reflexivity| | |discriminate].
      - constructor; [|constructor]. split; [now apply TyStr|].
        eapply TyStruct; [reflexivity|]. constructor; [|constructor]. eapply TyInt; reflexivity.
      - constructor; [intros [] | constructor]. }
    right. eexists. split.
    { cbn. rewrite bytes_eqb_refl. cbn. reflexivity. }
    reflexivity.
  Qed.

  (* uintptr panics *)
  Lemma old_uintptr : fails false (TInt KUintptr) (VInt 3).
  Proof.
    split; [constructor|]. split; [eapply TyInt; reflexivity|]. left. reflexivity.
  Qed.

  (* math.MaxFloat64 renders as a 309-digit integer constant, which gc rejects ("constant overflow") *)
  Definition max_float64_f : bytes :=
    bs "179769313486231570000000000000000000000000000000000000000000000000000000000000000000000000000000000000000000000000000000000000000000000000000000000000000000000000000000000000000000000000000000000000000000000000000000000000000000000000000000000000000000000000000000000000000000000000000000000000000000000000000".

  Lemma old_big_float : forall x, frep KF64 x -> ffmt KF64 x = max_float64_f ->
    fails false (TFloat KF64) (VFloat x).
  Proof.
    intros x Hr Hf. split; [constructor|]. split; [eapply TyFloat; [reflexivity | exact Hr]|].
    right. eexists; split; [reflexivity|]. cbn [denote under]. cbn [andb]. rewrite Hf.
    vm_compute. reflexivity.
  Qed.
End Witnesses.

(* ---- the hypotheses on the external components are satisfiable: "floats" that are the integers
   below 2^53, printed in decimal ---- *)
Definition z_frep (_ : fkind) (z : Z) : Prop := (Z.abs z < 2 ^ 53)%Z.

Lemma z_instance :
  (forall x : Z, Z.eqb x 0 = true -> x = 0%Z) /\
  (forall k x, z_frep k x -> exists y, parse_int (dec x) = Some y /\ x = y) /\
  (forall k x z, z_frep k x -> false = false -> parse_int (dec x) = Some z -> int_const_ok z = true) /\
  (forall k x, z_frep k x -> false = true -> parse_int (dec x) = None) /\
  (forall a b : bytes, a = b -> a = b) /\
  z_frep KF64 42%Z.
Proof.
  repeat match goal with |- _ /\ _ => split end.
  - intros x H. now apply Z.eqb_eq.
  - intros k x _. exists x. split; [apply parse_int_dec | reflexivity].
  - intros k x z Hr _ H. rewrite parse_int_dec in H. injection H as <-.
    unfold int_const_ok, z_frep in *. apply Z.ltb_lt.
    assert ((2 ^ 53 < 2 ^ 512)%Z) by (apply Z.pow_lt_mono_r; lia). lia.
  - intros k x _ H. discriminate.
  - auto.
  - unfold z_frep. cbn. lia.
Qed.
