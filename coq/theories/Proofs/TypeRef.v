(* Lemmas about the model of pkg/types/ref.go, helper.go and rawNamer (Model/TypeRef.v). *)
Require Import Gengo.Base.Bytes Gengo.Model.TypeRef.
Require Import ZArith.

(* ---- induction over references (the type is nested through [list]) ---- *)

Fixpoint tref_ind' (P : tref -> Prop)
  (H : forall p n args, Forall P args -> P (TRef p n args)) (t : tref) : P t :=
  match t with
  | TRef p n args =>
      H p n args
        ((fix go (l : list tref) : Forall P l :=
            match l with
            | [] => Forall_nil P
            | a :: r => Forall_cons a (tref_ind' P H a) (go r)
            end) args)
  end.

(* ---- byte tests ---- *)

Lemma eqb_neq : forall a b : ascii, a <> b -> Ascii.eqb a b = false.
Proof. intros a b H. apply Ascii.eqb_neq. exact H. Qed.

Definition plain (c : ascii) : Prop := c <> lbr /\ c <> rbr /\ c <> comma.

Lemma plain_b_spec : forall c, plain_b c = true <-> plain c.
Proof.
  intros c. unfold plain_b, plain. rewrite !andb_true_iff, !negb_true_iff, !Ascii.eqb_neq. tauto.
Qed.

Lemma ident_b_spec : forall c, ident_b c = true <-> plain c /\ c <> dot.
Proof.
  intros c. unfold ident_b. rewrite andb_true_iff, negb_true_iff, Ascii.eqb_neq, plain_b_spec. tauto.
Qed.

Lemma forallb_plain : forall s, forallb plain_b s = true <-> Forall plain s.
Proof.
  intros s. rewrite forallb_forall, Forall_forall. split; intros H x Hx; apply plain_b_spec, H, Hx.
Qed.

Lemma forallb_ident : forall s, forallb ident_b s = true <-> Forall (fun c => plain c /\ c <> dot) s.
Proof.
  intros s. rewrite forallb_forall, Forall_forall. split; intros H x Hx; apply ident_b_spec, H, Hx.
Qed.

Lemma dot_plain : plain dot.
Proof. unfold plain, dot, lbr, rbr, comma. repeat split; discriminate. Qed.

(* ---- well-formedness unfolded ---- *)

Lemma wf_inv : forall p n args,
  wf (TRef p n args) <->
  Forall plain p /\ n <> [] /\ Forall (fun c => plain c /\ c <> dot) n /\ Forall wf args.
Proof.
  intros p n args. unfold wf at 1. cbn [wf_b].
  rewrite !andb_true_iff, negb_true_iff, forallb_plain, forallb_ident.
  assert (Hn : is_nil n = false <-> n <> []) by (destruct n; cbn; split; congruence).
  rewrite Hn. rewrite (forallb_forall wf_b args), (Forall_forall wf args). unfold wf. tauto.
Qed.

(* ---- strings.Index / LastIndex of one byte ---- *)

Lemma index_byte_none : forall c s, ~ In c s -> index_byte c s = None.
Proof.
  induction s as [|x r IH]; intros H; cbn; [reflexivity|].
  rewrite eqb_neq by (intros ->; apply H; left; reflexivity).
  rewrite IH by (intros Hc; apply H; right; exact Hc). reflexivity.
Qed.

Lemma index_byte_app : forall c a b, ~ In c a -> index_byte c (a ++ c :: b) = Some (length a).
Proof.
  induction a as [|x r IH]; intros b H; cbn.
  - rewrite Ascii.eqb_refl. reflexivity.
  - rewrite eqb_neq by (intros ->; apply H; left; reflexivity).
    rewrite IH by (intros Hc; apply H; right; exact Hc). reflexivity.
Qed.

Lemma index_byte_spec : forall c s i,
  index_byte c s = Some i -> exists a b, s = a ++ c :: b /\ length a = i /\ ~ In c a.
Proof.
  induction s as [|x r IH]; intros i H; cbn in H; [discriminate|].
  destruct (Ascii.eqb x c) eqn:E.
  - apply Ascii.eqb_eq in E. subst x. inversion H; subst. exists [], r. cbn. auto.
  - destruct (index_byte c r) as [j|] eqn:Ej; cbn in H; [|discriminate].
    inversion H; subst. destruct (IH j eq_refl) as (a & b & -> & Hl & Hn).
    exists (x :: a), b. cbn. repeat split; [congruence|].
    intros [->|Hin]; [rewrite Ascii.eqb_refl in E; discriminate|contradiction].
Qed.

Lemma last_index_byte_none : forall c s, ~ In c s -> last_index_byte c s = None.
Proof.
  induction s as [|x r IH]; intros H; cbn; [reflexivity|].
  rewrite IH by (intros Hc; apply H; right; exact Hc).
  rewrite eqb_neq by (intros ->; apply H; left; reflexivity). reflexivity.
Qed.

Lemma last_index_byte_app : forall c a b, ~ In c b -> last_index_byte c (a ++ c :: b) = Some (length a).
Proof.
  induction a as [|x r IH]; intros b H; cbn.
  - rewrite last_index_byte_none by exact H. rewrite Ascii.eqb_refl. reflexivity.
  - rewrite IH by exact H. reflexivity.
Qed.

Lemma last_index_byte_spec : forall c s i,
  last_index_byte c s = Some i -> exists a b, s = a ++ c :: b /\ length a = i /\ ~ In c b.
Proof.
  induction s as [|x r IH]; intros i H; cbn in H; [discriminate|].
  destruct (last_index_byte c r) as [j|] eqn:Ej.
  - inversion H; subst. destruct (IH j eq_refl) as (a & b & -> & Hl & Hn).
    exists (x :: a), b. cbn. auto.
  - destruct (Ascii.eqb x c) eqn:E; [|discriminate].
    apply Ascii.eqb_eq in E. subst x. inversion H; subst. exists [], r. cbn. repeat split.
    intros Hin. clear -Ej Hin. induction r as [|y r IH]; [contradiction|].
    cbn in Ej. destruct (last_index_byte c r); [discriminate|].
    destruct (Ascii.eqb y c) eqn:E; [discriminate|].
    destruct Hin as [->|Hin]; [rewrite Ascii.eqb_refl in E; discriminate|auto].
Qed.

Lemma Forall_plain_notin : forall c s, ~ plain c -> Forall plain s -> ~ In c s.
Proof. intros c s Hc Hs Hin. rewrite Forall_forall in Hs. apply Hc, Hs, Hin. Qed.

Lemma lbr_not_plain : ~ plain lbr. Proof. unfold plain. tauto. Qed.
Lemma rbr_not_plain : ~ plain rbr. Proof. unfold plain. tauto. Qed.
Lemma comma_not_plain : ~ plain comma. Proof. unfold plain. tauto. Qed.

(* ---- checked slices ---- *)

Lemma substr_mid : forall a b c, substr (a ++ b ++ c) (length a) (length a + length b) = Ok b.
Proof.
  intros a b c. unfold substr.
  assert (H1 : (length a <=? length a + length b) = true) by (apply Nat.leb_le; lia).
  assert (H2 : (length a + length b <=? length (a ++ b ++ c)) = true)
    by (apply Nat.leb_le; rewrite !app_length; lia).
  rewrite H1, H2. cbn [andb].
  replace (length a + length b - length a) with (length b) by lia.
  rewrite skipn_app, skipn_all, Nat.sub_diag. cbn [skipn app].
  rewrite firstn_app, firstn_all, Nat.sub_diag. cbn [firstn]. rewrite app_nil_r. reflexivity.
Qed.

Lemma substr_prefix : forall a b, substr (a ++ b) 0 (length a) = Ok a.
Proof.
  intros a b. pose proof (substr_mid [] a b) as H. cbn [app length Nat.add] in H. exact H.
Qed.

Lemma substr_suffix : forall a b n, n = length a -> substr (a ++ b) n (length (a ++ b)) = Ok b.
Proof.
  intros a b n ->. pose proof (substr_mid a b []) as H. rewrite app_nil_r in H.
  rewrite app_length. exact H.
Qed.

Lemma substr_ok_iff : forall s lo hi, lo <= hi -> hi <= length s -> exists r, substr s lo hi = Ok r /\ length r = hi - lo.
Proof.
  intros s lo hi H1 H2. unfold substr.
  apply Nat.leb_le in H1 as E1. apply Nat.leb_le in H2 as E2. rewrite E1, E2. cbn [andb].
  eexists. split; [reflexivity|]. rewrite firstn_length, skipn_length. lia.
Qed.

(* ---- TypeRef.String ---- *)

Lemma join_comma_cons2 : forall x y r, join_comma (x :: y :: r) = x ++ comma :: join_comma (y :: r).
Proof. reflexivity. Qed.

Lemma join_comma_one : forall x, join_comma [x] = x.
Proof. intros x. cbn. apply app_nil_r. Qed.

Lemma print_leaf : forall p n, print (TRef p n []) = head_str p n.
Proof. intros. cbn. apply app_nil_r. Qed.

Lemma print_args : forall p n a r,
  print (TRef p n (a :: r)) = head_str p n ++ lbr :: join_comma (map print (a :: r)) ++ [rbr].
Proof. reflexivity. Qed.

Lemma head_plain : forall p n,
  Forall plain p -> Forall (fun c => plain c /\ c <> dot) n -> Forall plain (head_str p n).
Proof.
  intros p n Hp Hn. unfold head_str. apply Forall_app. split.
  - destruct p; cbn [is_nil]; [constructor|]. apply Forall_app. split; [exact Hp|].
    constructor; [apply dot_plain|constructor].
  - eapply Forall_impl; [|exact Hn]. cbn. tauto.
Qed.

Lemma length_join_ge : forall (l : list bytes) x, In x l -> length x <= length (join_comma l).
Proof.
  induction l as [|y r IH]; intros x Hin; [contradiction|].
  destruct r as [|z r'].
  - destruct Hin as [->|[]]. rewrite join_comma_one. lia.
  - rewrite join_comma_cons2, app_length. cbn [length].
    destruct Hin as [->|Hin]; [lia|]. specialize (IH x Hin). lia.
Qed.

(* ---- parse_base on the  path.name  part ---- *)

Lemma parse_base_head : forall p n,
  Forall plain p -> n <> [] -> Forall (fun c => plain c /\ c <> dot) n ->
  parse_base (head_str p n) = Ok (PT (TRef p n [])).
Proof.
  intros p n Hp Hne Hn.
  assert (Hnd : ~ In dot n).
  { intros Hin. rewrite Forall_forall in Hn. destruct (Hn _ Hin) as [_ H]. apply H. reflexivity. }
  unfold parse_base, head_str. destruct (is_nil p) eqn:E.
  - destruct p; [|discriminate]. cbn [app].
    rewrite last_index_byte_none by exact Hnd. reflexivity.
  - assert (H0 : 0 < length p) by (destruct p; [discriminate|cbn; lia]).
    rewrite <- app_assoc. cbn [app].
    rewrite last_index_byte_app by exact Hnd.
    apply Nat.ltb_lt in H0. rewrite H0.
    rewrite substr_prefix. cbn [bind].
    replace (p ++ dot :: n) with ((p ++ [dot]) ++ n) by (rewrite <- app_assoc; reflexivity).
    rewrite (substr_suffix (p ++ [dot]) n); [reflexivity|].
    rewrite app_length. cbn. lia.
Qed.

Lemma parse_no_bracket : forall fixed f s, ~ In lbr s -> parse fixed (S f) s = parse_base s.
Proof. intros fixed f s H. cbn [parse]. rewrite index_byte_none by exact H. reflexivity. Qed.

(* ---- the argument loop (ref.go:89-106) without indices ----
   [loop_acc] carries the bytes since the last commit ([cur]) instead of the offsets [started], [i];
   [bridge] shows it is the loop of the model followed by the final commit. *)

Definition norm (r : res lres) : res lres :=
  match r with Ok (LOk _ acc) => Ok (LOk 0 acc) | _ => r end.

Section LoopAcc.
  Variable rec : bytes -> res presult.

  Definition fin (cur : bytes) (acc : list tref) : res lres :=
    let! r := rec cur in
    match r with PT t => Ok (LOk 0 (acc ++ [t])) | PErr e => Ok (LErr e) end.

  Fixpoint loop_acc (fixed : bool) (rest : bytes) (d : Z) (cur : bytes) (acc : list tref) : res lres :=
    match rest with
    | [] => fin cur acc
    | c :: rest' =>
        if Ascii.eqb c lbr then loop_acc fixed rest' (enter fixed d) (cur ++ [c]) acc
        else if Ascii.eqb c rbr then loop_acc fixed rest' (leave fixed d) (cur ++ [c]) acc
        else if Ascii.eqb c comma then
          if at_top d then
            let! r := rec cur in
            match r with
            | PT t => loop_acc fixed rest' d [] (acc ++ [t])
            | PErr e => Ok (LErr e)
            end
          else loop_acc fixed rest' d (cur ++ [c]) acc
        else loop_acc fixed rest' d (cur ++ [c]) acc
    end.

  Definition tail_of (tl : bytes) (r : res lres) : res lres :=
    let! x := r in
    match x with
    | LOk st acc => commit rec tl st (length tl) acc
    | LErr e => Ok (LErr e)
    end.

  Lemma bridge : forall fixed tl rest pre cur i d started acc,
    tl = pre ++ cur ++ rest -> started = length pre -> i = length pre + length cur ->
    norm (tail_of tl (split_loop rec fixed tl rest i d started acc)) = loop_acc fixed rest d cur acc.
  Proof.
    intros fixed tl. induction rest as [|c rest IH]; intros pre cur i d started acc Htl Hst Hi.
    - cbn [split_loop loop_acc tail_of bind]. unfold commit, fin.
      subst started i tl. rewrite app_nil_r, app_length.
      pose proof (substr_mid pre cur []) as Hs. rewrite app_nil_r in Hs. rewrite Hs. cbn [bind].
      destruct (rec cur) as [[t|e]| |]; reflexivity.
    - assert (Hstep : forall d', norm (tail_of tl (split_loop rec fixed tl rest (S i) d' started acc))
                                 = loop_acc fixed rest d' (cur ++ [c]) acc).
      { intros d'. apply (IH pre (cur ++ [c])); [|exact Hst|].
        - rewrite Htl, <- !app_assoc. reflexivity.
        - rewrite app_length. cbn. lia. }
      cbn [split_loop loop_acc].
      destruct (Ascii.eqb c lbr); [apply Hstep|].
      destruct (Ascii.eqb c rbr); [apply Hstep|].
      destruct (Ascii.eqb c comma); [|apply Hstep].
      destruct (at_top d); [|apply Hstep].
      unfold commit. subst started i.
      replace (substr tl (length pre) (length pre + length cur)) with (@Ok bytes cur)
        by (rewrite Htl; symmetry; apply substr_mid).
      cbn [bind].
      destruct (rec cur) as [[t|e]| |]; cbn [bind tail_of norm]; try reflexivity.
      apply (IH (pre ++ cur ++ [c]) []).
      + rewrite Htl, <- !app_assoc. reflexivity.
      + rewrite !app_length. cbn. lia.
      + rewrite !app_length. cbn. lia.
  Qed.

  (* bytes other than [ ] , never change the state *)
  Lemma loop_acc_plain : forall fixed u rest d cur acc,
    Forall plain u -> loop_acc fixed (u ++ rest) d cur acc = loop_acc fixed rest d (cur ++ u) acc.
  Proof.
    intros fixed. induction u as [|c u IH]; intros rest d cur acc Hu.
    - rewrite app_nil_r. reflexivity.
    - inversion Hu as [|? ? (H1 & H2 & H3) Hu']; subst. cbn [app loop_acc].
      rewrite (eqb_neq _ _ H1), (eqb_neq _ _ H2), (eqb_neq _ _ H3).
      rewrite IH by exact Hu'. rewrite <- app_assoc. reflexivity.
  Qed.

  (* the depth counter: a whole printed reference is passed over at any depth >= 0 *)
  Lemma loop_acc_print : forall t, wf t -> forall rest d cur acc,
    (0 <= d)%Z ->
    loop_acc true (print t ++ rest) d cur acc = loop_acc true rest d (cur ++ print t) acc.
  Proof.
    induction t as [p n args IH] using tref_ind'. intros Hwf rest d cur acc Hd.
    apply wf_inv in Hwf. destruct Hwf as (Hp & Hne & Hn & Hargs).
    pose proof (head_plain p n Hp Hn) as Hh.
    destruct args as [|a r].
    - rewrite print_leaf. apply loop_acc_plain. exact Hh.
    - rewrite print_args. rewrite <- app_assoc. rewrite loop_acc_plain by exact Hh.
      cbn [app loop_acc]. change (Ascii.eqb lbr lbr) with true. cbn iota.
      unfold enter.
      (* the arguments, at depth d+1 > 0 *)
      assert (Hlist : forall (l : list tref), Forall (fun t => wf t -> forall rest d cur acc, (0 <= d)%Z ->
                         loop_acc true (print t ++ rest) d cur acc = loop_acc true rest d (cur ++ print t) acc) l ->
                Forall wf l -> l <> [] ->
                forall rest d cur acc, (0 < d)%Z ->
                  loop_acc true (join_comma (map print l) ++ rest) d cur acc
                  = loop_acc true rest d (cur ++ join_comma (map print l)) acc).
      { induction l as [|x l IHl]; intros HIH Hwfl Hne' rest' d' cur' acc' Hd'; [congruence|].
        inversion HIH as [|? ? Hx HIH']; subst. inversion Hwfl as [|? ? Hwx Hwfl']; subst.
        destruct l as [|y l'].
        - cbn [map]. rewrite join_comma_one. apply Hx; [exact Hwx|lia].
        - cbn [map]. rewrite join_comma_cons2. rewrite <- app_assoc.
          rewrite Hx by (try exact Hwx; lia).
          cbn [app loop_acc].
          change (Ascii.eqb comma lbr) with false. change (Ascii.eqb comma rbr) with false.
          change (Ascii.eqb comma comma) with true. cbn iota.
          assert (Ht : at_top d' = false) by (unfold at_top; apply Z.eqb_neq; lia).
          rewrite Ht.
          change (map print (y :: l')) with (map print (y :: l')) in *.
          rewrite (IHl HIH' Hwfl') by (try discriminate; lia).
          rewrite <- !app_assoc. reflexivity. }
      rewrite <- app_assoc.
      rewrite (Hlist (a :: r) IH Hargs) by (try discriminate; lia).
      cbn [app loop_acc]. change (Ascii.eqb rbr lbr) with false. change (Ascii.eqb rbr rbr) with true.
      cbn iota. unfold leave. replace (d + 1 - 1)%Z with d by lia.
      rewrite <- !app_assoc. reflexivity.
  Qed.

  (* split_top_join: at depth 0 the loop commits exactly at the separators of the printed list *)
  Lemma loop_acc_args : forall args,
    Forall wf args -> args <> [] ->
    (forall a, In a args -> rec (print a) = Ok (PT a)) ->
    forall acc, loop_acc true (join_comma (map print args)) 0%Z [] acc = Ok (LOk 0 (acc ++ args)).
  Proof.
    induction args as [|a r IH]; intros Hwf Hne Hrec acc; [congruence|].
    inversion Hwf as [|? ? Hwa Hwr]; subst.
    destruct r as [|b r'].
    - cbn [map]. rewrite join_comma_one.
      rewrite <- (app_nil_r (print a)). rewrite loop_acc_print by (try exact Hwa; lia).
      cbn [loop_acc app]. unfold fin. rewrite Hrec by (left; reflexivity). reflexivity.
    - cbn [map]. rewrite join_comma_cons2.
      rewrite loop_acc_print by (try exact Hwa; lia).
      cbn [app loop_acc].
      change (Ascii.eqb comma lbr) with false. change (Ascii.eqb comma rbr) with false.
      change (Ascii.eqb comma comma) with true. cbn iota.
      change (at_top 0) with true. cbn iota.
      rewrite Hrec by (left; reflexivity). cbn [bind].
      change (map print (b :: r')) with (map print (b :: r')).
      rewrite (IH Hwr) by (try discriminate; intros x Hx; apply Hrec; right; exact Hx).
      rewrite <- app_assoc. reflexivity.
  Qed.
End LoopAcc.

(* ---- ParseTypeRef ---- *)

Definition finish (p n : bytes) (r : lres) : res presult :=
  match r with LOk _ acc => Ok (PT (TRef p n acc)) | LErr e => Ok (PErr e) end.

Lemma parse_S : forall fixed f s,
  parse fixed (S f) s =
  match index_byte lbr s with
  | Some i =>
      if 0 <? i then
        if ends_with_rbr s then
          let! pre := substr s 0 i in
          let! r0 := parse fixed f pre in
          match r0 with
          | PErr e => Ok (PErr e)
          | PT (TRef p n a0) =>
              let! tl := substr s (i + 1) (length s - 1) in
              bind (type_list (parse fixed f) fixed tl a0) (finish p n)
          end
        else Ok (PErr s)
      else parse_base s
  | None => parse_base s
  end.
Proof. reflexivity. Qed.

Lemma bind_finish_norm : forall (X : res lres) p n, bind X (finish p n) = bind (norm X) (finish p n).
Proof. intros [[st acc|e]| |] p n; reflexivity. Qed.

Lemma type_list_loop_acc : forall rec fixed tl a0,
  norm (type_list rec fixed tl a0) = loop_acc rec fixed tl 0%Z [] a0.
Proof.
  intros rec fixed tl a0. apply (bridge rec fixed tl tl [] [] 0 0%Z 0 a0); reflexivity.
Qed.

Lemma ends_with_rbr_app : forall a, ends_with_rbr (a ++ [rbr]) = true.
Proof.
  intros a. unfold ends_with_rbr. rewrite last_index_byte_app by (intros []).
  rewrite app_length. cbn [length]. apply Nat.eqb_eq. lia.
Qed.

Lemma head_nonempty : forall p n, n <> [] -> 0 < length (head_str p n).
Proof. intros p n H. unfold head_str. rewrite app_length. destruct n; [congruence|cbn; lia]. Qed.

Theorem roundtrip : forall t, wf t -> forall fuel, length (print t) < fuel ->
  parse true fuel (print t) = Ok (PT t).
Proof.
  induction t as [p n args IH] using tref_ind'. intros Hwf fuel Hfuel.
  apply wf_inv in Hwf. destruct Hwf as (Hp & Hne & Hn & Hargs).
  pose proof (head_plain p n Hp Hn) as Hh.
  pose proof (Forall_plain_notin lbr _ lbr_not_plain Hh) as Hnl.
  destruct fuel as [|f]; [lia|].
  destruct args as [|a r].
  - rewrite print_leaf. rewrite parse_no_bracket by exact Hnl. apply parse_base_head; assumption.
  - rewrite print_args in *.
    set (J := join_comma (map print (a :: r))) in *. set (h := head_str p n) in *.
    assert (Hlen : length (h ++ lbr :: J ++ [rbr]) = length h + length J + 2)
      by (rewrite app_length; cbn [length]; rewrite app_length; cbn [length]; lia).
    pose proof (head_nonempty p n Hne) as Hh0. fold h in Hh0.
    rewrite parse_S. rewrite index_byte_app by exact Hnl.
    apply Nat.ltb_lt in Hh0 as Hh0'. rewrite Hh0'.
    replace (h ++ lbr :: J ++ [rbr]) with ((h ++ lbr :: J) ++ [rbr]) at 1
      by (rewrite <- app_assoc; reflexivity).
    rewrite ends_with_rbr_app.
    rewrite substr_prefix. cbn [bind].
    destruct f as [|f']; [rewrite Hlen in Hfuel; lia|].
    rewrite (parse_no_bracket true f' h Hnl). unfold h at 1. rewrite parse_base_head by assumption.
    cbn [bind].
    replace (substr (h ++ lbr :: J ++ [rbr]) (length h + 1) (length (h ++ lbr :: J ++ [rbr]) - 1))
      with (@Ok bytes J).
    2:{ pose proof (substr_mid (h ++ [lbr]) J [rbr]) as Hs.
        rewrite <- app_assoc in Hs. cbn [app] in Hs.
        rewrite app_length in Hs. cbn [length] in Hs.
        rewrite Hlen. replace (length h + length J + 2 - 1) with (length h + 1 + length J) by lia.
        symmetry. exact Hs. }
    cbn [bind].
    rewrite bind_finish_norm, type_list_loop_acc.
    unfold J at 1. rewrite loop_acc_args.
    + reflexivity.
    + exact Hargs.
    + discriminate.
    + intros x Hx. rewrite Forall_forall in IH, Hargs. apply IH; [exact Hx|apply Hargs, Hx|].
      pose proof (length_join_ge (map print (a :: r)) (print x) (in_map print _ _ Hx)) as Hle.
      fold J in Hle. rewrite Hlen in Hfuel. lia.
Qed.

Lemma substr_after_sep : forall a c x,
  substr (a ++ c :: x) (length a + 1) (length (a ++ c :: x)) = Ok x.
Proof.
  intros a c x. replace (a ++ c :: x) with ((a ++ [c]) ++ x) by (rewrite <- app_assoc; reflexivity).
  apply substr_suffix. rewrite app_length. cbn. lia.
Qed.

(* ---- ParseRef / PkgImportPathAndExpose on a printed reference ---- *)

Lemma print_qualified : forall p n args, p <> [] ->
  print (TRef p n args) = p ++ dot :: print (TRef [] n args).
Proof.
  intros p n args Hp. cbn [print]. unfold head_str.
  destruct p; [congruence|]. cbn [is_nil app]. rewrite <- !app_assoc. reflexivity.
Qed.

Lemma cut_bracket_print : forall p n args, wf (TRef p n args) ->
  cut_bracket (print (TRef p n args)) = Ok (head_str p n).
Proof.
  intros p n args Hwf. apply wf_inv in Hwf. destruct Hwf as (Hp & Hne & Hn & Hargs).
  pose proof (head_plain p n Hp Hn) as Hh.
  pose proof (Forall_plain_notin lbr _ lbr_not_plain Hh) as Hnl.
  unfold cut_bracket. destruct args as [|a r].
  - rewrite print_leaf, index_byte_none by exact Hnl. reflexivity.
  - rewrite print_args, index_byte_app by exact Hnl.
    pose proof (head_nonempty p n Hne) as H0. apply Nat.ltb_lt in H0. rewrite H0.
    apply substr_prefix.
Qed.

Lemma last_index_sub_le : forall needle s i, last_index_sub needle s = Some i -> i <= length s.
Proof.
  induction s as [|x r IH]; intros i H; cbn in H; [discriminate|].
  destruct (last_index_sub needle r) as [j|].
  - inversion H; subst. specialize (IH j eq_refl). cbn. lia.
  - destruct (has_prefix needle (x :: r)); [|discriminate]. inversion H. cbn. lia.
Qed.

Lemma import_go_path_total : forall p, exists g, import_go_path p = Ok g.
Proof.
  intros p. unfold import_go_path. destruct (last_index_sub vendor_seg p) as [i|] eqn:E; [|eauto].
  destruct (0 <? i); [|eauto].
  apply last_index_sub_le in E. destruct (substr_ok_iff p i (length p) E (le_n _)) as (r & Hr & _). eauto.
Qed.

Lemma import_go_path_plain : forall p, last_index_sub vendor_seg p = None -> import_go_path p = Ok p.
Proof. intros p H. unfold import_go_path. rewrite H. reflexivity. Qed.

Theorem split_agree : forall p n args, wf (TRef p n args) -> p <> [] ->
  parse_ref (print (TRef p n args)) = Ok (Some (p, print (TRef [] n args))) /\
  exists g, import_go_path p = Ok g /\
            pkg_import_path_and_expose (print (TRef p n args)) = Ok (g, n).
Proof.
  intros p n args Hwf Hpne. pose proof Hwf as Hwf0.
  apply wf_inv in Hwf. destruct Hwf as (Hp & Hne & Hn & Hargs).
  assert (Hnd : ~ In dot n).
  { intros Hin. rewrite Forall_forall in Hn. destruct (Hn _ Hin) as [_ H]. apply H. reflexivity. }
  assert (Hh : head_str p n = p ++ dot :: n).
  { unfold head_str. destruct p; [congruence|]. cbn [is_nil]. rewrite <- app_assoc. reflexivity. }
  assert (H0 : (0 <? length p) = true) by (apply Nat.ltb_lt; destruct p; [congruence|cbn; lia]).
  split.
  - unfold parse_ref. rewrite cut_bracket_print by exact Hwf0. cbn [bind].
    rewrite Hh, last_index_byte_app by exact Hnd. rewrite H0.
    rewrite print_qualified by exact Hpne.
    rewrite substr_prefix. cbn [bind].
    replace (p ++ dot :: print (TRef [] n args)) with ((p ++ [dot]) ++ print (TRef [] n args))
      by (rewrite <- app_assoc; reflexivity).
    rewrite substr_suffix by (rewrite app_length; cbn; lia). reflexivity.
  - destruct (import_go_path_total p) as (g & Hg). exists g. split; [exact Hg|].
    unfold pkg_import_path_and_expose. rewrite cut_bracket_print by exact Hwf0. cbn [bind].
    rewrite Hh, last_index_byte_app by exact Hnd. rewrite H0.
    rewrite substr_prefix. cbn [bind].
    replace (p ++ dot :: n) with ((p ++ [dot]) ++ n) by (rewrite <- app_assoc; reflexivity).
    rewrite substr_suffix by (rewrite app_length; cbn; lia). cbn [bind].
    rewrite Hg. reflexivity.
Qed.

(* both functions cut at the same place on EVERY string, and Ref.String() gives the string back *)
Theorem split_agree_any : forall s,
  (forall p n, parse_ref s = Ok (Some (p, n)) ->
     ref_string (p, n) = s /\
     exists g e, pkg_import_path_and_expose s = Ok (g, e) /\ import_go_path p = Ok g /\
                 cut_bracket s = Ok (p ++ dot :: e)) /\
  (parse_ref s = Ok None -> exists b, cut_bracket s = Ok b /\ pkg_import_path_and_expose s = Ok ([], b)).
Proof.
  intros s. unfold parse_ref, pkg_import_path_and_expose.
  assert (Hcut : exists b rest, cut_bracket s = Ok b /\ s = b ++ rest).
  { unfold cut_bracket. destruct (index_byte lbr s) as [i|] eqn:E.
    - destruct (0 <? i).
      + apply index_byte_spec in E. destruct E as (a & b & -> & <- & _).
        exists a, (lbr :: b). split; [apply substr_prefix|reflexivity].
      + exists s, []. rewrite app_nil_r. auto.
    - exists s, []. rewrite app_nil_r. auto. }
  destruct Hcut as (b & rest & Hb & Hs). rewrite Hb. cbn [bind].
  destruct (last_index_byte dot b) as [i|] eqn:E.
  2:{ split; [discriminate|]. intros _. eauto. }
  destruct (0 <? i) eqn:E0.
  2:{ split; [discriminate|]. intros _. eauto. }
  split; [|intros H; exfalso].
  - intros p n H.
    apply last_index_byte_spec in E. destruct E as (a & e & -> & <- & _).
    subst s. rewrite <- app_assoc in H. rewrite substr_prefix in H. cbn [bind app] in H.
    rewrite substr_after_sep in H. cbn [bind] in H.
    inversion H; subst p n. clear H. split.
    + unfold ref_string. cbn [fst snd]. rewrite <- !app_assoc. reflexivity.
    + rewrite substr_prefix. cbn [bind].
      rewrite substr_after_sep. cbn [bind].
      destruct (import_go_path_total a) as (g & Hg). rewrite Hg. cbn [bind].
      exists g, e. repeat split; reflexivity.
  - apply last_index_byte_spec in E. destruct E as (a & e & -> & <- & _).
    subst s. rewrite <- app_assoc in H. rewrite substr_prefix in H. cbn [bind app] in H.
    rewrite substr_after_sep in H. cbn [bind] in H. discriminate.
Qed.

(* ---- rendering through the naming system ---- *)

Section NamerProofs.
  Variable tracker : Type.
  Variable add : tracker -> bytes -> tracker.
  Variable local_name : tracker -> bytes -> bytes.
  Variable self : bytes.

  Notation visit := (visit tracker add local_name self).
  Notation walk := (walk tracker add local_name self).
  Notation walk_list := (walk_list tracker add local_name self).
  Notation process_name := (process_name tracker add local_name self).
  Notation namer_name := (namer_name tracker add local_name self).
  Notation snippet_id := (snippet_id tracker add local_name self).

  (* the one thing asked of the tracker: a name handed out for a path is not changed by later additions *)
  Hypothesis stable : forall tr p qs,
    local_name (fold_left add qs (add tr p)) p = local_name (add tr p) p.

  Definition ren (tr : tracker) : bytes -> bytes := ren_paths (local_name tr) self.

  Lemma walk_eq : forall p n args tr,
    walk (TRef p n args) tr =
    let '(p', tr1) := visit p tr in
    let '(args', tr2) := walk_list args tr1 in
    (TRef p' n args', tr2).
  Proof. reflexivity. Qed.

  Lemma visit_spec : forall p tr,
    visit p tr = (if is_foreign self p then local_name (add tr p) p else [],
                  fold_left add (if is_foreign self p then [p] else []) tr).
  Proof.
    intros p tr. unfold TypeRef.visit, is_foreign.
    destruct p as [|c p]; cbn [is_nil negb andb]; [reflexivity|].
    destruct (bytes_eqb (c :: p) self); reflexivity.
  Qed.

  Definition walk_ok (t : tref) : Prop := forall tr,
    snd (walk t tr) = fold_left add (foreign_pre self t) tr /\
    forall more, fst (walk t tr) = map_paths (ren (fold_left add more (snd (walk t tr)))) t.

  Lemma walk_list_spec : forall l, Forall walk_ok l -> forall tr,
    snd (walk_list l tr) = fold_left add (flat_map (foreign_pre self) l) tr /\
    forall more, fst (walk_list l tr)
                 = map (map_paths (ren (fold_left add more (snd (walk_list l tr))))) l.
  Proof.
    induction l as [|a r IH]; intros Hl tr.
    - cbn. auto.
    - inversion Hl as [|? ? Ha Hr]; subst. cbn [TypeRef.walk_list flat_map].
      destruct (Ha tr) as [Ha1 Ha2]. destruct (walk a tr) as [a' tra] eqn:Ea. cbn [fst snd] in Ha1, Ha2.
      destruct (IH Hr tra) as [Hr1 Hr2]. destruct (walk_list r tra) as [r' trr] eqn:Er.
      cbn [fst snd] in Hr1, Hr2 |- *. split.
      + rewrite fold_left_app, <- Ha1. exact Hr1.
      + intros more. cbn [map]. f_equal; [|apply Hr2].
        rewrite (Ha2 (flat_map (foreign_pre self) r ++ more)).
        rewrite fold_left_app, <- Hr1. reflexivity.
  Qed.

  Lemma walk_spec : forall t, walk_ok t.
  Proof.
    induction t as [p n args IH] using tref_ind'. intros tr.
    rewrite walk_eq, visit_spec.
    set (fp := if is_foreign self p then [p] else []).
    destruct (walk_list_spec args IH (fold_left add fp tr)) as [H1 H2].
    destruct (walk_list args (fold_left add fp tr)) as [args' tr2] eqn:E.
    cbn [fst snd] in H1, H2 |- *. split.
    - cbn [foreign_pre]. fold fp. rewrite fold_left_app. exact H1.
    - intros more. cbn [map_paths]. rewrite <- (H2 more). f_equal.
      unfold ren, ren_paths, fp, is_foreign in *.
      destruct (is_nil p); cbn [negb andb]; [reflexivity|].
      destruct (bytes_eqb p self); cbn [negb]; [reflexivity|].
      rewrite H1. cbn [fold_left]. rewrite <- fold_left_app. symmetry. apply stable.
  Qed.

  Lemma print_nonempty : forall p n args, n <> [] -> print (TRef p n args) <> [].
  Proof.
    intros p n args Hn H. cbn [print] in H. apply app_eq_nil in H. destruct H as [H _].
    unfold head_str in H. apply app_eq_nil in H. destruct H as [_ H]. contradiction.
  Qed.

  Lemma wf_drop_path : forall p n args, wf (TRef p n args) -> wf (TRef [] n args).
  Proof.
    intros p n args H. apply wf_inv in H. apply wf_inv. destruct H as (_ & H2 & H3 & H4).
    repeat split; auto.
  Qed.

  (* processName on the printed  Name[args]  part *)
  Lemma process_name_spec : forall n args tr, wf (TRef [] n args) ->
    let tr' := fold_left add (flat_map (foreign_pre self) args) tr in
    exists tn, process_name true tr (print (TRef [] n args)) = Ok (tn, tr') /\
               forall more, tn = print (map_paths (ren (fold_left add more tr')) (TRef [] n args)).
  Proof.
    intros n args tr Hwf tr'. unfold TypeRef.process_name, parse_type_ref.
    rewrite roundtrip by (try exact Hwf; lia). cbn [bind t_args t_name].
    destruct args as [|a r].
    - cbn [is_nil]. exists n. split; [reflexivity|]. intros more.
      cbn [map_paths map]. rewrite print_leaf. unfold ren, ren_paths. cbn [is_nil]. reflexivity.
    - cbn [is_nil]. destruct (walk_spec (TRef [] n (a :: r)) tr) as [H1 H2].
      destruct (walk (TRef [] n (a :: r)) tr) as [t' trw] eqn:E. cbn [fst snd] in H1, H2.
      assert (Htr : trw = tr').
      { rewrite H1. cbn [foreign_pre]. unfold is_foreign. cbn [is_nil negb andb app]. reflexivity. }
      exists (print t'). split; [rewrite Htr; reflexivity|].
      intros more. rewrite (H2 more), Htr. reflexivity.
  Qed.

  Theorem rewrite_spec : forall tr p n args, wf (TRef p n args) -> p <> [] ->
    let tr' := fold_left add (foreign self (TRef p n args)) tr in
    snippet_id true tr (print (TRef p n args)) =
    Ok ((if bytes_eqb p self then [] else local_name tr' p ++ [dot])
          ++ print (map_paths (ren tr') (TRef [] n args)), tr').
  Proof.
    intros tr p n args Hwf Hp tr'.
    destruct (split_agree p n args Hwf Hp) as [Href _].
    unfold TypeRef.snippet_id. rewrite Href. cbn [bind].
    unfold TypeRef.namer_name.
    destruct (process_name_spec n args tr (wf_drop_path _ _ _ Hwf)) as (tn & Hpn & Htn).
    rewrite Hpn. cbn [bind].
    unfold tr', foreign. cbn [t_args t_path]. unfold is_foreign.
    assert (Hnil : is_nil p = false) by (destruct p; [congruence|reflexivity]).
    rewrite Hnil. cbn [negb andb].
    destruct (bytes_eqb p self) eqn:Eself; cbn [negb].
    - rewrite app_nil_r. cbn [app].
      assert (Hne0 : tn <> []).
      { rewrite (Htn []). cbn [map_paths]. apply print_nonempty.
        apply wf_inv in Hwf. destruct Hwf as (_ & Hn & _). exact Hn. }
      assert (Hne : is_nil tn = false) by (destruct tn; [congruence|reflexivity]).
      rewrite Hne. cbn [negb]. rewrite (Htn []) at 1. reflexivity.
    - rewrite fold_left_app. cbn [fold_left].
      rewrite (Htn [p]). cbn [fold_left]. rewrite <- app_assoc. reflexivity.
  Qed.

  (* when the package got a non-empty import name the result is the whole reference with renamed paths *)
  Corollary rewrite_spec_print : forall tr p n args, wf (TRef p n args) -> p <> [] ->
    let tr' := fold_left add (foreign self (TRef p n args)) tr in
    (bytes_eqb p self = true \/ local_name tr' p <> []) ->
    snippet_id true tr (print (TRef p n args)) = Ok (print (map_paths (ren tr') (TRef p n args)), tr').
  Proof.
    intros tr p n args Hwf Hp tr' Hname. unfold tr'. rewrite rewrite_spec by assumption. fold tr'.
    f_equal. f_equal. cbn [map_paths].
    assert (Hnil : is_nil p = false) by (destruct p; [congruence|reflexivity]).
    destruct (bytes_eqb p self) eqn:E.
    - unfold ren at 3, ren_paths. rewrite Hnil, E. unfold ren at 1, ren_paths. cbn [is_nil]. reflexivity.
    - destruct Hname as [H|H]; [discriminate|].
      assert (Hr : ren tr' p = local_name tr' p) by (unfold ren, ren_paths; rewrite Hnil, E; reflexivity).
      rewrite Hr. rewrite (print_qualified (local_name tr' p)) by exact H.
      unfold ren at 1, ren_paths. cbn [is_nil]. rewrite <- app_assoc. reflexivity.
  Qed.

  (* exactly the other packages: which paths [foreign] lists *)
  Lemma foreign_pre_iff : forall t q,
    In q (foreign_pre self t) <-> In q (all_paths t) /\ q <> [] /\ q <> self.
  Proof.
    induction t as [p n args IH] using tref_ind'. intros q. cbn [foreign_pre all_paths].
    assert (Hl : In q (flat_map (foreign_pre self) args) <-> In q (flat_map all_paths args) /\ q <> [] /\ q <> self).
    { rewrite !in_flat_map. rewrite Forall_forall in IH. split.
      - intros (x & Hx & Hq). apply (IH x Hx) in Hq. destruct Hq as (H1 & H2 & H3). eauto.
      - intros ((x & Hx & Hq) & H2 & H3). exists x. split; [exact Hx|]. apply (IH x Hx). auto. }
    rewrite in_app_iff, Hl. cbn [In]. unfold is_foreign.
    assert (Hn : forall b : bytes, is_nil b = true <-> b = []) by (destruct b; cbn; split; congruence).
    destruct (is_nil p) eqn:E1; cbn [negb andb In].
    - apply Hn in E1. subst p. split; [tauto|]. intros ([H|H] & H2 & H3); [congruence|tauto].
    - assert (Hpn : p <> []) by (intros ->; discriminate).
      destruct (bytes_eqb p self) eqn:E2; cbn [negb In].
      + apply bytes_eqb_spec in E2. subst p. split; [tauto|]. intros ([H|H] & H2 & H3); [congruence|tauto].
      + assert (Hps : p <> self) by (intros ->; rewrite bytes_eqb_refl in E2; discriminate).
        split; [intros [[->|[]]|H]; tauto|]. intros ([H|H] & H2 & H3); [left; left; exact H|tauto].
  Qed.

  Lemma foreign_iff : forall t q,
    In q (foreign self t) <-> In q (all_paths t) /\ q <> [] /\ q <> self.
  Proof.
    intros [p n args] q. rewrite <- foreign_pre_iff. unfold foreign. cbn [t_args t_path foreign_pre].
    rewrite !in_app_iff. tauto.
  Qed.

  (* if the tracker's set of registered paths grows by exactly the added path ... *)
  Lemma registered_fold : forall (paths : tracker -> list bytes),
    (forall tr p q, In q (paths (add tr p)) <-> q = p \/ In q (paths tr)) ->
    forall qs tr q, In q (paths (fold_left add qs tr)) <-> In q qs \/ In q (paths tr).
  Proof.
    intros paths Hadd. induction qs as [|x qs IH]; intros tr q; cbn [fold_left In].
    - tauto.
    - rewrite IH, Hadd. intuition congruence.
  Qed.
End NamerProofs.

(* ---- facts about ParseTypeRef on EVERY string (both versions of the loop) ---- *)

Lemma parse_base_spec : forall s, exists t, parse_base s = Ok (PT t) /\ t_args t = [] /\ print t = s.
Proof.
  intros s. unfold parse_base. destruct (last_index_byte dot s) as [i|] eqn:E.
  - destruct (0 <? i) eqn:E0.
    + apply last_index_byte_spec in E. destruct E as (a & b & -> & <- & _).
      rewrite substr_prefix, substr_after_sep. cbn [bind].
      eexists. split; [reflexivity|]. split; [reflexivity|].
      rewrite print_leaf. unfold head_str. apply Nat.ltb_lt in E0.
      destruct a; [cbn in E0; lia|]. cbn [is_nil]. rewrite <- app_assoc. reflexivity.
    + eexists. split; [reflexivity|]. split; [reflexivity|]. apply print_leaf.
  - eexists. split; [reflexivity|]. split; [reflexivity|]. apply print_leaf.
Qed.

Lemma last_case : forall l : bytes, l = [] \/ exists m x, l = m ++ [x].
Proof. induction l as [|x l _] using rev_ind; [left; reflexivity|right; eauto]. Qed.

Lemma ends_split : forall a b, ends_with_rbr (a ++ lbr :: b) = true -> exists m, b = m ++ [rbr].
Proof.
  intros a b H. unfold ends_with_rbr in H.
  destruct (last_index_byte rbr (a ++ lbr :: b)) as [j|] eqn:E; [|discriminate].
  apply Nat.eqb_eq in H. apply last_index_byte_spec in E. destruct E as (a' & b' & Hs & Hl & _).
  assert (Hb' : b' = []).
  { apply (f_equal (@length ascii)) in Hs. rewrite !app_length in Hs. cbn [length] in Hs.
    rewrite app_length in H. cbn [length] in H. destruct b'; [reflexivity|]. cbn [length] in Hs. lia. }
  subst b'. destruct (last_case b) as [->|(m & x & ->)].
  - apply app_inj_tail in Hs. destruct Hs as [_ Hs]. discriminate.
  - exists m. change (a ++ lbr :: m ++ [x]) with (a ++ (lbr :: m) ++ [x]) in Hs.
    rewrite app_assoc in Hs. apply app_inj_tail in Hs. destruct Hs as [_ ->]. reflexivity.
Qed.

Lemma norm_ok : forall X r, norm X = Ok r -> exists r', X = Ok r'.
Proof. intros [[st acc|e]| |] r H; cbn in H; try discriminate; eauto. Qed.

Lemma loop_acc_total : forall rec fixed L,
  (forall x, length x <= L -> exists r, rec x = Ok r) ->
  forall rest d cur acc, length cur + length rest <= L ->
  exists r, loop_acc rec fixed rest d cur acc = Ok r.
Proof.
  intros rec fixed L Hrec. induction rest as [|c rest IH]; intros d cur acc Hlen.
  - cbn [loop_acc]. unfold fin. destruct (Hrec cur) as (r & ->); [lia|]. cbn [bind]. destruct r; eauto.
  - assert (Hstep : forall d', exists r, loop_acc rec fixed rest d' (cur ++ [c]) acc = Ok r).
    { intros d'. apply IH. rewrite app_length. cbn [length] in *. lia. }
    cbn [loop_acc].
    destruct (Ascii.eqb c lbr); [apply Hstep|].
    destruct (Ascii.eqb c rbr); [apply Hstep|].
    destruct (Ascii.eqb c comma); [|apply Hstep].
    destruct (at_top d); [|apply Hstep].
    destruct (Hrec cur) as (r & ->); [lia|]. cbn [bind]. destruct r; [|eauto].
    apply IH. cbn [length] in *. lia.
Qed.

Theorem parse_total : forall fixed fuel s, length s < fuel -> exists r, parse fixed fuel s = Ok r.
Proof.
  intros fixed. induction fuel as [|f IH]; intros s Hlen; [lia|].
  rewrite parse_S.
  assert (Hbase : exists r, parse_base s = Ok r) by (destruct (parse_base_spec s) as (t & H & _); eauto).
  destruct (index_byte lbr s) as [i|] eqn:E; [|exact Hbase].
  destruct (0 <? i) eqn:E0; [|exact Hbase].
  destruct (ends_with_rbr s) eqn:Er; [|eauto].
  apply index_byte_spec in E. destruct E as (a & b & -> & <- & Hna).
  destruct (ends_split a b Er) as (m & ->).
  rewrite substr_prefix. cbn [bind].
  assert (Hls : length (a ++ lbr :: m ++ [rbr]) = length a + length m + 2)
    by (rewrite app_length; cbn [length]; rewrite app_length; cbn [length]; lia).
  destruct (IH a) as (r0 & ->); [lia|]. cbn [bind].
  destruct r0 as [[p n a0]|e]; [|eauto].
  replace (substr (a ++ lbr :: m ++ [rbr]) (length a + 1) (length (a ++ lbr :: m ++ [rbr]) - 1))
    with (@Ok bytes m).
  2:{ pose proof (substr_mid (a ++ [lbr]) m [rbr]) as Hs.
      rewrite <- app_assoc in Hs. cbn [app] in Hs. rewrite app_length in Hs. cbn [length] in Hs.
      rewrite Hls. replace (length a + length m + 2 - 1) with (length a + 1 + length m) by lia.
      symmetry. exact Hs. }
  cbn [bind].
  destruct (loop_acc_total (parse fixed f) fixed (length m)) with (rest := m) (d := 0%Z) (cur := @nil ascii) (acc := a0)
    as (r & Hr).
  - intros x Hx. apply IH. lia.
  - cbn [length]. lia.
  - rewrite <- type_list_loop_acc in Hr. apply norm_ok in Hr. destruct Hr as (r' & ->). cbn [bind].
    destruct r'; cbn [finish]; eauto.
Qed.

Definition sepcat (l : list bytes) : bytes := concat (map (fun y => y ++ [comma]) l).

Lemma join_snoc : forall l x, join_comma (l ++ [x]) = sepcat l ++ x.
Proof.
  induction l as [|y l IH]; intros x.
  - cbn. apply app_nil_r.
  - cbn [app]. destruct l as [|z l'].
    + cbn. rewrite !app_nil_r, <- app_assoc. reflexivity.
    + change ((z :: l') ++ [x]) with (z :: l' ++ [x]). rewrite join_comma_cons2.
      change (z :: l' ++ [x]) with ((z :: l') ++ [x]). rewrite IH.
      unfold sepcat. cbn [map concat]. rewrite <- !app_assoc. reflexivity.
Qed.

Lemma loop_acc_print_inv : forall rec fixed,
  (forall x t, rec x = Ok (PT t) -> print t = x) ->
  forall rest d cur acc st l,
    loop_acc rec fixed rest d cur acc = Ok (LOk st l) ->
    l <> [] /\ join_comma (map print l) = sepcat (map print acc) ++ cur ++ rest.
Proof.
  intros rec fixed Hrec. induction rest as [|c rest IH]; intros d cur acc st l H.
  - cbn [loop_acc] in H. unfold fin in H. destruct (rec cur) as [[t|e]| |] eqn:E; cbn [bind] in H; try discriminate.
    inversion H; subst. split; [intros Hx; apply app_eq_nil in Hx; destruct Hx; discriminate|].
    rewrite map_app. cbn [map]. rewrite join_snoc, (Hrec _ _ E), app_nil_r. reflexivity.
  - assert (Hstep : forall d', loop_acc rec fixed rest d' (cur ++ [c]) acc = Ok (LOk st l) ->
              l <> [] /\ join_comma (map print l) = sepcat (map print acc) ++ cur ++ c :: rest).
    { intros d' H'. apply IH in H'. destruct H' as [H1 H2]. split; [exact H1|].
      rewrite H2, <- !app_assoc. reflexivity. }
    cbn [loop_acc] in H.
    destruct (Ascii.eqb c lbr); [eapply Hstep; exact H|].
    destruct (Ascii.eqb c rbr); [eapply Hstep; exact H|].
    destruct (Ascii.eqb c comma) eqn:Ec; [|eapply Hstep; exact H].
    destruct (at_top d); [|eapply Hstep; exact H].
    destruct (rec cur) as [[t|e]| |] eqn:E; cbn [bind] in H; try discriminate.
    apply IH in H. destruct H as [H1 H2]. split; [exact H1|].
    apply Ascii.eqb_eq in Ec. subst c.
    rewrite H2, map_app. cbn [map app]. unfold sepcat. rewrite map_app, concat_app. cbn [map concat].
    rewrite (Hrec _ _ E), app_nil_r, <- !app_assoc. reflexivity.
Qed.

(* whenever ParseTypeRef returns a tree, String() of that tree is the input *)
Theorem print_parse_any : forall fixed fuel s t, parse fixed fuel s = Ok (PT t) -> print t = s.
Proof.
  intros fixed. induction fuel as [|f IH]; intros s t H; [discriminate|].
  rewrite parse_S in H.
  assert (Hbase : parse_base s = Ok (PT t) -> print t = s).
  { intros Hb. destruct (parse_base_spec s) as (t' & H1 & _ & H3). congruence. }
  destruct (index_byte lbr s) as [i|] eqn:E; [|auto].
  destruct (0 <? i) eqn:E0; [|auto].
  destruct (ends_with_rbr s) eqn:Er; [|discriminate].
  apply index_byte_spec in E. destruct E as (a & b & -> & <- & Hna).
  destruct (ends_split a b Er) as (m & ->).
  rewrite substr_prefix in H. cbn [bind] in H.
  destruct f as [|f']; [discriminate|].
  rewrite (parse_no_bracket fixed f' a Hna) in H.
  destruct (parse_base_spec a) as (t0 & Ht0 & Hargs0 & Hprint0). rewrite Ht0 in H. cbn [bind] in H.
  destruct t0 as [p n a0]. cbn [t_args] in Hargs0. subst a0.
  assert (Hls : length (a ++ lbr :: m ++ [rbr]) = length a + length m + 2)
    by (rewrite app_length; cbn [length]; rewrite app_length; cbn [length]; lia).
  replace (substr (a ++ lbr :: m ++ [rbr]) (length a + 1) (length (a ++ lbr :: m ++ [rbr]) - 1))
    with (@Ok bytes m) in H.
  2:{ pose proof (substr_mid (a ++ [lbr]) m [rbr]) as Hs.
      rewrite <- app_assoc in Hs. cbn [app] in Hs. rewrite app_length in Hs. cbn [length] in Hs.
      rewrite Hls. replace (length a + length m + 2 - 1) with (length a + 1 + length m) by lia.
      symmetry. exact Hs. }
  cbn [bind] in H. rewrite bind_finish_norm, type_list_loop_acc in H.
  destruct (loop_acc (parse fixed (S f')) fixed m 0 [] []) as [[st l|e]| |] eqn:El; cbn [bind finish] in H; try discriminate.
  inversion H; subst t. clear H.
  apply loop_acc_print_inv in El; [|intros x t Hx; eapply IH; exact Hx].
  destruct El as [Hne Hj]. cbn [map sepcat concat app] in Hj.
  destruct l as [|x l]; [congruence|]. rewrite print_args, Hj.
  rewrite print_leaf in Hprint0. rewrite Hprint0. reflexivity.
Qed.

Lemma registers_exactly : forall (tracker : Type) (add : tracker -> bytes -> tracker) (self : bytes)
    (paths : tracker -> list bytes),
  (forall tr p q, In q (paths (add tr p)) <-> q = p \/ In q (paths tr)) ->
  forall t tr q,
    In q (paths (fold_left add (foreign self t) tr)) <->
    (In q (all_paths t) /\ q <> [] /\ q <> self) \/ In q (paths tr).
Proof.
  intros tracker add self paths Hadd t tr q.
  rewrite (registered_fold tracker add paths Hadd), foreign_iff. tauto.
Qed.

Lemma roundtrip_refuted_before_fix :
  exists t, wf t /\ parse_type_ref false (print t) <> Ok (PT t).
Proof.
  exists (TRef [] (bs "M") [TRef [] (bs "L") [TRef [] (bs "P") [TRef [] (bs "a") []; TRef [] (bs "b") []]; TRef [] (bs "c") []]]).
  split; [vm_compute; reflexivity | vm_compute; discriminate].
Qed.

Lemma parse_print_sentence : forall t, wf t ->
  exists t', parse_type_ref true (print t) = Ok (PT t') /\ print t' = print t.
Proof.
  intros t Hwf. exists t. split; [|reflexivity]. unfold parse_type_ref. apply roundtrip; [exact Hwf|lia].
Qed.

Lemma parse_type_ref_total : forall fixed s, exists r, parse_type_ref fixed s = Ok r.
Proof. intros fixed s. apply parse_total. lia. Qed.

(* ---- a concrete tracker for the non-vacuity examples of Props/C15.v ---- *)
Definition ex_add (tr : list bytes) (p : bytes) : list bytes := tr ++ [p].
Fixpoint ex_last_seg (acc p : bytes) : bytes :=
  match p with
  | [] => acc
  | c :: r => if Ascii.eqb c "/"%char then ex_last_seg [] r else ex_last_seg (acc ++ [c]) r
  end.
Definition ex_local (tr : list bytes) (p : bytes) : bytes := ex_last_seg [] p.


Lemma ex_tracker_hyp :
  (forall tr p qs, ex_local (fold_left ex_add qs (ex_add tr p)) p = ex_local (ex_add tr p) p) /\
  (forall tr p q, In q (ex_add tr p) <-> q = p \/ In q tr).
Proof.
  split; [reflexivity|]. intros tr p q. unfold ex_add. rewrite in_app_iff. cbn [In]. intuition congruence.
Qed.
