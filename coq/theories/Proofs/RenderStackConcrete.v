(* RenderStack, part 1 (statements): C11's and C15's theorems with C03's tracker and C15's parser
   plugged in — no tracker hypothesis, no parser hypothesis left. *)
Require Import Gengo.Base.Bytes.
Require Import Gengo.Model.GoIdent Gengo.Model.TrackerSpec Gengo.Model.RenderStack Gengo.Proofs.RenderStackTracker.
Require Gengo.Model.Tracker Gengo.Proofs.Tracker Gengo.Proofs.StdTable Gengo.Gen.StdList.
Require Import Gengo.Model.TypeLit Gengo.Spec.TypeLit Gengo.Proofs.TypeLit.
Require Gengo.Model.TypeRef Gengo.Proofs.TypeRef.

(* ---- C11 ---- *)
Section C11.
  Variable self : bytes.
  Variable can_backquote : bytes -> bool.
  Hypothesis Hc : cbq_hyp can_backquote.

  Notation frag := (ident_frag the_pick parse_c15 self can_backquote true true).

  Lemma c11_total_concrete : forall x g e,
    renders x g -> in_domain all_tags self g = true -> tracker_inv self e ->
    exists a e', frag x e = Ok (a, e').
  Proof. exact (total the_pick parse_c15 self can_backquote (proj1 the_tracker_hyps) parse_hyp_c15 Hc). Qed.

  Lemma c11_roundtrip_concrete : forall x g e a e',
    renders x g -> in_domain all_tags self g = true -> tracker_inv self e -> no_predeclared_names e ->
    frag x e = Ok (a, e') -> free_own_names self g e' ->
    no_predeclared_names e' /\ resolve e' self a = Some (canon g).
  Proof.
    intros x g e a e'.
    exact (roundtrip_no_predeclared_imports the_pick parse_c15 self can_backquote (proj1 the_tracker_hyps) parse_hyp_c15 Hc
             x g e a e' (proj1 (proj2 the_tracker_hyps))).
  Qed.

  Lemma c11_imports_exact_concrete : forall x g e a e',
    renders x g -> in_domain all_tags self g = true -> tracker_inv self e ->
    frag x e = Ok (a, e') ->
    (exists added, e' = e ++ added) /\ tracker_inv self e'
    /\ (forall p, In p (map fst e') <-> In p (map fst e) \/ In p (foreign_pkgs self g)).
  Proof. exact (imports_exact the_pick parse_c15 self can_backquote (proj1 the_tracker_hyps) parse_hyp_c15 Hc). Qed.

  Lemma c11_roundtrip_exported_concrete : forall x g e a e',
    renders x g -> in_domain all_tags self g = true -> locals_exported self g = true ->
    tracker_inv self e -> Forall lower_name (map snd e) ->
    frag x e = Ok (a, e') ->
    resolve e' self a = Some (canon g).
  Proof.
    intros x g e a e'.
    exact (roundtrip_exported the_pick parse_c15 self can_backquote (proj1 the_tracker_hyps) parse_hyp_c15 Hc x g e a e'
             (proj1 (proj2 the_tracker_hyps)) (proj2 (proj2 the_tracker_hyps))).
  Qed.

  (* from a fresh tracker nothing at all is asked of the state *)
  Lemma tracker_inv_nil : tracker_inv self [].
  Proof. unfold tracker_inv, inv. cbn. repeat split; try constructor. intros []. Qed.

  Lemma c11_roundtrip_fresh_concrete : forall x g a e',
    renders x g -> in_domain all_tags self g = true -> locals_exported self g = true ->
    frag x [] = Ok (a, e') ->
    resolve e' self a = Some (canon g).
  Proof.
    intros x g a e' Hx Hd Hl Hf.
    exact (c11_roundtrip_exported_concrete x g [] a e' Hx Hd Hl tracker_inv_nil (Forall_nil _) Hf).
  Qed.
End C11.

(* ---- C15 ---- *)
Import Gengo.Model.TypeRef.
Section C15.
  Variable pre : list bytes.
  Variable std : option Tk.tracker.
  Variable self : bytes.

  Notation cadd := (cadd pre std).
  Notation sid := (snippet_id Tk.tracker cadd cname self true).

  Lemma c15_rewrite_concrete : forall tr p n args, wf (TRef p n args) -> p <> [] ->
    let tr' := fold_left cadd (foreign self (TRef p n args)) tr in
    sid tr (print (TRef p n args)) =
    Ok ((if bytes_eqb p self then [] else cname tr' p ++ [dot])
          ++ print (map_paths (ren_paths (cname tr') self) (TRef [] n args)), tr').
  Proof. exact (Gengo.Proofs.TypeRef.rewrite_spec Tk.tracker cadd cname self (cadd_stable pre std)). Qed.

  Lemma c15_registers_exactly_concrete : forall t tr q,
    In q (cpaths (fold_left cadd (foreign self t) tr)) <->
    (In q (all_paths t) /\ q <> [] /\ q <> self) \/ In q (cpaths tr).
  Proof. exact (Gengo.Proofs.TypeRef.registers_exactly Tk.tracker cadd self cpaths (cadd_registers pre std)). Qed.

  (* names are never empty in a tracker whose names were not empty: the side condition of C15_rewrite_whole *)
  Definition names_nonempty (tr : Tk.tracker) : Prop :=
    forall q n, Tk.lookup q (Tk.p2n tr) = Some n -> n <> [].

  Lemma cadd_names_nonempty : forall tr p, names_nonempty tr -> names_nonempty (cadd tr p).
  Proof.
    intros tr p H q n L. destruct (Tk.lookup p (Tk.p2n tr)) as [m|] eqn:E.
    - rewrite (cadd_registered pre std tr p m E) in L. eapply H; eauto.
    - destruct (cadd_fresh pre std tr p E) as (nm & Eq & _ & _ & V & _). rewrite Eq in L. cbn [Tk.p2n Tk.lookup] in L.
      destruct (bytes_eqb q p); [inversion L; subst; apply Gengo.Proofs.Tracker.valid_name_nonempty, V|eapply H; eauto].
  Qed.

  Lemma fold_cadd_names_nonempty : forall qs tr, names_nonempty tr -> names_nonempty (fold_left cadd qs tr).
  Proof. induction qs as [|q r IH]; intros tr H; [exact H|]. cbn [fold_left]. apply IH, cadd_names_nonempty, H. Qed.

  Lemma fold_cadd_bound : forall qs tr p, In p qs -> exists n, Tk.lookup p (Tk.p2n (fold_left cadd qs tr)) = Some n.
  Proof.
    induction qs as [|q r IH]; intros tr p Hin; [destruct Hin|]. cbn [fold_left]. destruct Hin as [->|Hin]; [|apply IH, Hin].
    destruct (cadd_bound pre std tr p) as [n L]. exists n. apply fold_cadd_ext, L.
  Qed.

  Lemma c15_rewrite_whole_concrete : forall tr p n args, wf (TRef p n args) -> p <> [] ->
    names_nonempty tr ->
    let tr' := fold_left cadd (foreign self (TRef p n args)) tr in
    sid tr (print (TRef p n args)) = Ok (print (map_paths (ren_paths (cname tr') self) (TRef p n args)), tr').
  Proof.
    intros tr p n args Hwf Hp Hne tr'.
    apply (Gengo.Proofs.TypeRef.rewrite_spec_print Tk.tracker cadd cname self (cadd_stable pre std)); try assumption.
    destruct (bytes_eqb p self) eqn:E; [left; reflexivity|right].
    assert (Hin : In p (foreign self (TRef p n args))).
    { unfold foreign. cbn [t_path t_args]. apply in_or_app. right. unfold is_foreign. rewrite E.
      destruct p; [congruence|]. left. reflexivity. }
    destruct (fold_cadd_bound _ tr p Hin) as [m L].
    unfold cname, Tk.lookup_or_empty. cbv zeta. rewrite L.
    exact (fold_cadd_names_nonempty _ tr Hne p m L).
  Qed.
End C15.
