(* C05: corollaries of [independent] - a package alone, and any order of the package map. *)
Require Import Gengo.Base.Bytes Gengo.Model.Pipeline Gengo.Proofs.Pipeline Gengo.Proofs.PipelinePkg.
From Coq Require Import Permutation.

Lemma existsb_perm {A} (f : A -> bool) (l1 l2 : list A) : Permutation l1 l2 -> existsb f l1 = existsb f l2.
Proof.
  intros H. induction H; cbn.
  - reflexivity.
  - rewrite IHPermutation. reflexivity.
  - destruct (f x), (f y); reflexivity.
  - congruence.
Qed.

Lemma existsb_ext' {A} (f g : A -> bool) (l : list A) : (forall x, f x = g x) -> existsb f l = existsb g l.
Proof. intros H. induction l as [|x r IH]; cbn; [reflexivity|]. rewrite H, IH. reflexivity. Qed.

(* the run in which only p is requested *)
Definition alone (w : world) (p : pkginfo) : world :=
  {| w_modroot := w_modroot w; w_pkgs := [p]; w_direct := [pk_path p] |}.

Section C05.
Variable E : env.

Lemma alone_ok : forall w p, world_ok (alone w p).
Proof. intros w p. split; cbn; repeat constructor; intros []. Qed.

Lemma alone_direct : forall w p, has_direct (alone w p) = true.
Proof.
  intros w p. unfold has_direct, alone, is_direct, mem_bytes. cbn. rewrite bytes_eqb_refl. reflexivity.
Qed.

Lemma alone_selected : forall a w p, selected a (alone w p) p = true.
Proof.
  intros a w p. unfold selected, is_direct, alone, mem_bytes. cbn. rewrite bytes_eqb_refl. apply orb_true_r.
Qed.

Theorem alone_same : forall a gens s w p f,
  world_ok w -> In p (w_pkgs w) -> selected a w p = true ->
  (a_all a = true -> has_direct w = true) ->
  exec_outcome E a w gens s = Done ->
  (pk_dir p, f) <> sum_path w ->
  exec_outcome E a (alone w p) gens s = Done /\
  fs_lookup (pk_dir p, f) (exec_fs E a w gens s) = fs_lookup (pk_dir p, f) (exec_fs E a (alone w p) gens s).
Proof.
  intros a gens s w p f Hok Hp Hsel Hdir Hdone Hq.
  assert (Hdir2 : a_all a = true -> has_direct w = true /\ has_direct (alone w p) = true).
  { intros Hall. split; [apply Hdir; exact Hall | apply alone_direct]. }
  assert (Hdone2 : exec_outcome E a (alone w p) gens s = Done).
  { apply (outcome_done_transfer E a gens s w (alone w p)); try assumption.
    - reflexivity.
    - apply alone_ok.
    - intros p' [Hp'|[]] _. subst p'. split; assumption. }
  split; [exact Hdone2|].
  apply (independent E a gens s w (alone w p) p f); try assumption.
  - reflexivity.
  - apply alone_ok.
  - left. reflexivity.
  - apply alone_selected.
Qed.

(* The local-package map may be presented in any order (Go map iteration, order of the entrypoints): same
   outcome, same files for every package. *)
Theorem order_independent : forall a gens s w w' p f,
  Permutation (w_pkgs w) (w_pkgs w') -> w_modroot w = w_modroot w' -> w_direct w = w_direct w' ->
  world_ok w -> In p (w_pkgs w) -> selected a w p = true ->
  exec_outcome E a w gens s = Done ->
  (pk_dir p, f) <> sum_path w ->
  exec_outcome E a w' gens s = Done /\
  fs_lookup (pk_dir p, f) (exec_fs E a w gens s) = fs_lookup (pk_dir p, f) (exec_fs E a w' gens s).
Proof.
  intros a gens s w w' p f Hperm Hroot Hdirect [Hd Hpth] Hp Hsel Hdone Hq.
  assert (Hok' : world_ok w').
  { split; (eapply Permutation_NoDup; [apply Permutation_map; exact Hperm | assumption]). }
  assert (Hisd : forall q, is_direct w' q = is_direct w q) by (intros q; unfold is_direct; rewrite Hdirect; reflexivity).
  assert (Hsel' : forall q, selected a w' q = selected a w q) by (intros q; unfold selected; rewrite Hisd; reflexivity).
  assert (Hhd : has_direct w' = has_direct w).
  { unfold has_direct. rewrite <- (existsb_perm _ _ _ Hperm). apply existsb_ext'. exact Hisd. }
  assert (Hp' : In p (w_pkgs w')) by (eapply Permutation_in; eassumption).
  destruct (a_all a) eqn:Hall.
  - (* All: a direct package exists or not, equally in both *)
    destruct (has_direct w) eqn:Hh.
    + assert (Hdir : a_all a = true -> has_direct w = true /\ has_direct w' = true) by (intros _; rewrite Hhd; tauto).
      assert (Hdone' : exec_outcome E a w' gens s = Done).
      { apply (outcome_done_transfer E a gens s w w'); try assumption; [split; assumption|].
        intros q Hq' Hs. split; [eapply Permutation_in; [apply Permutation_sym; exact Hperm | exact Hq'] | rewrite <- Hsel'; exact Hs]. }
      split; [exact Hdone'|].
      apply (independent E a gens s w w' p f); try assumption; [split; assumption | rewrite Hsel'; exact Hsel].
    + (* no direct package: no previous sum is loaded in either; same argument with load_prev = None *)
      assert (Hlp : forall w0, has_direct w0 = false -> load_prev E a w0 s = None).
      { intros w0 H0. unfold load_prev. unfold has_direct in H0. rewrite H0, andb_false_r. reflexivity. }
      assert (Hpe : forall q, pkg_execute E a w gens (load_prev E a w s) q = pkg_execute E a w' gens (load_prev E a w' s) q).
      { intros q. rewrite (Hlp w Hh), (Hlp w' Hhd). unfold pkg_execute, pkg_changed.
        destruct (a_force a); reflexivity. }
      assert (Hdone' : exec_outcome E a w' gens s = Done).
      { unfold exec_outcome, run_all in *. apply run_pkgs_done_iff. intros q Hq' Hs.
        rewrite <- Hpe. apply (proj1 (run_pkgs_done_iff E a w gens (load_prev E a w s) (sorted_pkgs w)) Hdone).
        - apply sort_by_In. eapply Permutation_in; [apply Permutation_sym; exact Hperm|].
          unfold sorted_pkgs in Hq'. apply (proj1 (sort_by_In pk_path _ _)) in Hq'. exact Hq'.
        - rewrite <- Hsel'. exact Hs. }
      split; [exact Hdone'|].
      assert (Hq' : (pk_dir p, f) <> sum_path w') by (unfold sum_path in *; rewrite <- Hroot; exact Hq).
      rewrite (exec_local E a w gens s p f (conj Hd Hpth) Hp Hsel Hdone Hq).
      rewrite (exec_local E a w' gens s p f Hok' Hp') by (try assumption; rewrite Hsel'; exact Hsel).
      rewrite Hpe. reflexivity.
  - assert (Hdir : a_all a = true -> has_direct w = true /\ has_direct w' = true) by (intros Hc; congruence).
    assert (Hdone' : exec_outcome E a w' gens s = Done).
    { apply (outcome_done_transfer E a gens s w w'); try assumption; [split; assumption|].
      intros q Hq' Hs. split; [eapply Permutation_in; [apply Permutation_sym; exact Hperm | exact Hq'] | rewrite <- Hsel'; exact Hs]. }
    split; [exact Hdone'|].
    apply (independent E a gens s w w' p f); try assumption; [split; assumption | rewrite Hsel'; exact Hsel].
Qed.

End C05.
