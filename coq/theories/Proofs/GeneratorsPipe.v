(* The real generators as instances of the pipeline's abstract generator (Model/Generators.v, part B): what
   Pipeline.gen_run makes of them is what the generator models compute for one package on its own, from the initial
   state; corollaries of the pipeline theorems (C05, C07, C02) and of C04's fixed point for these generators. *)
Require Import Gengo.Base.Bytes.
Require Import Gengo.Model.Generators.
Require Gengo.Proofs.DeepCopy Gengo.Proofs.DeepCopyTop Gengo.Proofs.Pipeline Gengo.Proofs.PipelinePkg Gengo.Proofs.PipelineC07 Gengo.Proofs.PipelineC02 Gengo.Proofs.PipelineWitness
  Gengo.Proofs.Determinism.
From Coq Require Import Lia Arith PeanoNat.

Module PD := Gengo.Proofs.DeepCopy.

(* ================================================================================================================ *)
(* deepcopy                                                                                                        *)
(* ================================================================================================================ *)

(* what a call appends to the file does not depend on what the file already holds *)
Definition shift {A} (o : list DC.method) (r : res (A * DC.gstate)) : res (A * DC.gstate) :=
  match r with
  | Ok (g, st) => Ok (g, DC.mk_gstate (DC.gs_processed st) (o ++ DC.gs_out st))
  | Panic => Panic
  | OutOfFuel => OutOfFuel
  end.

Lemma shift_shift : forall A o o' (r : res (A * DC.gstate)), shift o (shift o' r) = shift (o ++ o') r.
Proof. intros A o o' [[g [pr out]]| |]; cbn; try reflexivity. rewrite app_assoc. reflexivity. Qed.

Lemma loop_shift : forall rec,
  (forall k pr o, rec k (DC.mk_gstate pr o) = shift o (rec k (DC.mk_gstate pr []))) ->
  forall ds pr o, DC.loop_defers rec ds (DC.mk_gstate pr o) = shift o (DC.loop_defers rec ds (DC.mk_gstate pr [])).
Proof.
  intros rec Hrec. induction ds as [|dk r IH]; intros pr o.
  - cbn. rewrite app_nil_r. reflexivity.
  - cbn [DC.loop_defers]. rewrite (Hrec dk pr o).
    destruct (rec dk (DC.mk_gstate pr [])) as [[g [pr1 o1]]| |]; cbn [shift bind DC.gs_processed DC.gs_out]; try reflexivity.
    destruct g.
    + rewrite (IH pr1 (o ++ o1)), (IH pr1 o1), shift_shift. reflexivity.
    + reflexivity.
Qed.

Lemma gen_type_shift : forall fuel fx G vis b k pr o,
  DC.gen_type fuel fx G vis b k (DC.mk_gstate pr o) = shift o (DC.gen_type fuel fx G vis b k (DC.mk_gstate pr [])).
Proof.
  induction fuel as [|fuel IH]; intros fx G vis b k pr o; [reflexivity|].
  cbn [DC.gen_type DC.gs_processed DC.gs_out].
  destruct (DC.mem_key k pr); [cbn; rewrite app_nil_r; reflexivity|].
  destruct (DC.lookup G (fst k)) as [d|]; [|cbn; rewrite app_nil_r; reflexivity].
  assert (Hmain :
    (if negb (b && DC.fx_deps fx) && negb (DC.enabled G d) then Ok (DC.GNil, DC.mk_gstate (k :: pr) o)
     else let! (ms, defers) := DC.render fx G vis d in
          DC.loop_defers (DC.gen_type fuel fx G vis true) defers (DC.mk_gstate (k :: pr) (o ++ ms))) =
    shift o
    (if negb (b && DC.fx_deps fx) && negb (DC.enabled G d) then Ok (DC.GNil, DC.mk_gstate (k :: pr) [])
     else let! (ms, defers) := DC.render fx G vis d in
          DC.loop_defers (DC.gen_type fuel fx G vis true) defers (DC.mk_gstate (k :: pr) ([] ++ ms)))).
  { destruct (negb (b && DC.fx_deps fx) && negb (DC.enabled G d)); [cbn; rewrite app_nil_r; reflexivity|].
    destruct (DC.render fx G vis d) as [[ms defers]| |]; cbn [bind shift]; try reflexivity.
    rewrite (loop_shift (DC.gen_type fuel fx G vis true) (fun k0 pr0 o0 => IH fx G vis true k0 pr0 o0) defers (k :: pr) (o ++ ms)).
    rewrite (loop_shift (DC.gen_type fuel fx G vis true) (fun k0 pr0 o0 => IH fx G vis true k0 pr0 o0) defers (k :: pr) ([] ++ ms)).
    rewrite shift_shift. reflexivity. }
  destruct (DC.d_kind d); try exact Hmain. cbn. rewrite app_nil_r. reflexivity.
Qed.

Definition shift1 (o : list DC.method) (r : res DC.gstate) : res DC.gstate :=
  match r with
  | Ok st => Ok (DC.mk_gstate (DC.gs_processed st) (o ++ DC.gs_out st))
  | Panic => Panic
  | OutOfFuel => OutOfFuel
  end.

Lemma dc_calls_shift : forall fuel fx G vis names pr o,
  dc_calls fuel fx G vis names (DC.mk_gstate pr o) = shift1 o (dc_calls fuel fx G vis names (DC.mk_gstate pr [])).
Proof.
  intros fuel fx G vis. induction names as [|n r IH]; intros pr o.
  - cbn. rewrite app_nil_r. reflexivity.
  - cbn [dc_calls]. rewrite (gen_type_shift fuel fx G vis false (n, []) pr o).
    destruct (DC.gen_type fuel fx G vis false (n, []) (DC.mk_gstate pr [])) as [[g [pr1 o1]]| |]; cbn [shift bind DC.gs_processed DC.gs_out]; try reflexivity.
    rewrite (IH pr1 (o ++ o1)), (IH pr1 o1).
    destruct (dc_calls fuel fx G vis r (DC.mk_gstate pr1 [])) as [[pr2 o2]| |]; cbn; try reflexivity.
    rewrite app_assoc. reflexivity.
Qed.

(* doGenerate of Model/DeepCopy.v (gen_all: lookup + enabled test per name) on names that are declared and enabled
   is the plain sequence of calls *)
Lemma gen_all_is_calls : forall fuel fx G vis names st,
  (forall n, In n names -> exists d, DC.lookup G n = Some d /\ DC.enabled G d = true) ->
  DC.gen_all fuel fx G vis names st = dc_calls fuel fx G vis names st.
Proof.
  intros fuel fx G vis. induction names as [|n r IH]; intros st H; [reflexivity|].
  cbn [DC.gen_all dc_calls]. destruct (H n (or_introl eq_refl)) as [d [Hl He]]. rewrite Hl, He.
  destruct (DC.gen_type fuel fx G vis false (n, []) st) as [[g st']| |]; cbn [bind]; try reflexivity.
  apply IH. intros m Hm. apply H. right. exact Hm.
Qed.

Section DeepCopyRun.
  Variables (fx : DC.fixes) (graph : PL.pkginfo -> DC.pkg) (vis : PL.pkginfo -> list DC.method)
            (print_method : DC.method -> bytes) (fuel : nat).
  Variable E : PL.env.

  Notation g := (deepcopy_gen fx graph vis print_method fuel).

  Lemma print_methods_app : forall a b,
    print_methods print_method (a ++ b) = print_methods print_method a ++ print_methods print_method b.
  Proof. intros. unfold print_methods. rewrite map_app, concat_app. reflexivity. Qed.

  (* the calls Execute makes for package p: the types of the sorted table for which the dispatch says yes *)
  Definition called (p : PL.pkginfo) : list PL.tyinfo :=
    filter (PL.should_call E g p) (PL.sort_by PL.ty_name (PL.pk_types p)).

  Lemma call_loop_is_calls : forall p tys proc,
    let cl := PL.call_loop E g p proc tys in
    match dc_calls fuel fx (graph p) (vis p) (map PL.ty_name (filter (PL.should_call E g p) tys)) (DC.mk_gstate proc []) with
    | Ok st => PL.ro_out cl = PL.Done /\ PL.ro_body cl = print_methods print_method (DC.gs_out st) /\
               PL.ro_ignore cl = false /\ PL.ro_defers cl = [] /\ PL.ro_state cl = DC.gs_processed st
    | _ => PL.ro_out cl = PL.Died
    end.
  Proof.
    intros p. induction tys as [|t r IH]; intros proc; cbn zeta.
    - cbn. repeat split; reflexivity.
    - cbn [PL.call_loop filter]. destruct (PL.should_call E g p t) eqn:Hs; [|apply IH].
      cbn [map dc_calls]. cbn [PL.g_type deepcopy_gen]. unfold dc_type.
      destruct (DC.gen_type fuel fx (graph p) (vis p) false (PL.ty_name t, []) (DC.mk_gstate proc []))
        as [[gr [pr1 o1]]| |]; cbn [bind DC.gs_processed DC.gs_out].
      + specialize (IH pr1). cbn zeta in IH.
        rewrite (dc_calls_shift fuel fx (graph p) (vis p) _ pr1 o1).
        destruct (dc_calls fuel fx (graph p) (vis p) (map PL.ty_name (filter (PL.should_call E g p) r)) (DC.mk_gstate pr1 []))
          as [[pr2 o2]| |]; cbn [shift1 DC.gs_processed DC.gs_out].
        * destruct IH as [H1 [H2 [H3 [H4 H5]]]].
          destruct gr; cbn [dc_res PL.so_res PL.so_body PL.so_defers PL.ro_out PL.ro_body PL.ro_ignore PL.ro_defers PL.ro_state PL.sets_ignore orb app];
            rewrite print_methods_app, H2; repeat split; assumption.
        * destruct gr; cbn [dc_res PL.so_res PL.ro_out]; exact IH.
        * destruct gr; cbn [dc_res PL.so_res PL.ro_out]; exact IH.
      + reflexivity.
      + reflexivity.
  Qed.

  (* Pipeline.gen_run on the deepcopy instance = Model/DeepCopy.v's run of the generator on this package alone, from
     the EMPTY processed set.  Side condition: the dispatch calls the generator only for declared types on which
     gengo.IsGeneratorEnabled (as C17's [enabled] models it) says yes — both are the same Go function. *)
  Theorem deepcopy_gen_run : forall p,
    (forall t, In t (called p) -> exists d, DC.lookup (graph p) (PL.ty_name t) = Some d /\ DC.enabled (graph p) d = true) ->
    match DC.gen_deepcopy fuel fx (graph p) (map PL.ty_name (called p)) (vis p) with
    | Ok ms => PL.go_out (PL.gen_run E g p) = PL.Done /\
               PL.go_body (PL.gen_run E g p) = print_methods print_method ms /\
               PL.go_ignore (PL.gen_run E g p) = false
    | _ => PL.go_out (PL.gen_run E g p) = PL.Died
    end.
  Proof.
    intros p H. unfold DC.gen_deepcopy. rewrite gen_all_is_calls.
    2:{ intros n Hn. apply in_map_iff in Hn. destruct Hn as [t [<- Ht]]. apply H. exact Ht. }
    pose proof (call_loop_is_calls p (PL.sort_by PL.ty_name (PL.pk_types p)) []) as Hc. cbn zeta in Hc.
    unfold called. unfold PL.gen_run. change (PL.g_new g p) with (@nil DC.key).
    destruct (dc_calls fuel fx (graph p) (vis p)
               (map PL.ty_name (filter (PL.should_call E g p) (PL.sort_by PL.ty_name (PL.pk_types p)))) (DC.mk_gstate [] []))
      as [st| |]; cbn [bind].
    - destruct Hc as [H1 [H2 [H3 [H4 H5]]]]. rewrite H1, H4. cbn [PL.defer_loop PL.ro_body PL.ro_out PL.go_out PL.go_body PL.go_ignore].
      rewrite app_nil_r. repeat split; assumption.
    - rewrite Hc. reflexivity.
    - rewrite Hc. reflexivity.
  Qed.
End DeepCopyRun.

(* ---- C04: the fixed-point hypothesis [reads_sources_only], discharged for deepcopy ----
   deepcopy DOES see the file an earlier run left (go/types shows its methods: [dvis]); what it renders still depends
   on the sources only, because of C17_independent_of_previous_output.  Hypotheses: the declarations of the source
   files are a function of the sources ([src_eq]); what an earlier run left is shape-consistent ([vis_ok]: methods
   with map receivers belong to map types — true of every file gengo wrote, Proofs/DeepCopy.gen_deepcopy_vis_ok). *)
Module PDet := Gengo.Proofs.Determinism.

Theorem deepcopy_reads_sources_only : forall dgraph dvis print_method imports_of fuel,
  (forall p p', PDet.src_eq p p' -> dgraph p = dgraph p') ->
  (forall p, PD.vis_ok (dgraph p) (dvis p)) ->
  PDet.reads_sources_only (deepcopy_det_gen dgraph dvis print_method imports_of fuel).
Proof.
  intros dgraph dvis pm io fuel Hsrc Hvis p p' mv cs Heq. cbn [Det.g_run deepcopy_det_gen].
  rewrite (PD.gen_deepcopy_vis (dgraph p) (dvis p) fuel _ (Hvis p)).
  rewrite (PD.gen_deepcopy_vis (dgraph p') (dvis p') fuel _ (Hvis p')).
  rewrite (Hsrc p p' Heq). reflexivity.
Qed.

(* C04_fixed_point with the deepcopy generator among the generators: no assumption on it is left *)
Theorem fixed_point_with_deepcopy :
  forall dgraph dvis print_method imports_of fuel,
    (forall p p', PDet.src_eq p p' -> dgraph p = dgraph p') ->
    (forall p, PD.vis_ok (dgraph p) (dvis p)) ->
  forall render parse_sum (o1 o2 : Det.oracle) a e gens w w' f f1 log1,
    Det.shuffles o1 -> Det.shuffles o2 -> PDet.wf_args a -> PDet.wf_world w -> PDet.wf_world w' ->
    NoDup (map Det.pk_dir (Det.w_pkgs w)) -> PDet.is_gen_name a Det.sum_name = false ->
    Forall PDet.reads_sources_only gens -> PDet.reload w w' ->
    PDet.loaded a w f -> PDet.regen_all a w f ->
    let gens' := deepcopy_det_gen dgraph dvis print_method imports_of fuel :: gens in
    Det.run true true render parse_sum o1 a e w gens' f = Some (f1, log1) ->
    exists f2 log2,
      Det.run true true render parse_sum o2 a e w' gens' f1 = Some (f2, log2)
      /\ forall q, q <> (Det.w_moddir w', Det.sum_name) -> f2 q = f1 q.
Proof.
  intros dgraph dvis pm io fuel Hsrc Hvis render parse_sum o1 o2 a e gens w w' f f1 log1 H1 H2 H3 H4 H5 H6 H7 H8 H9 H10 H11 gens' Hrun.
  apply (PDet.second_run_fixed_point render parse_sum o1 o2 a e gens' w w' f f1 log1 H1 H2 H3 H4 H5 H6 H7); try assumption.
  constructor; [apply deepcopy_reads_sources_only; assumption|exact H8].
Qed.

(* ================================================================================================================ *)
(* partialstruct                                                                                                   *)
(* ================================================================================================================ *)

Definition ps_shift (acc : list PS.gtype) (imps : list bytes) (o : PS.outcome) : PS.outcome :=
  match o with PS.OutFile ts i => PS.OutFile (acc ++ ts) (imps ++ i) | other => other end.

Lemma generate_pkg_shift : forall L target c tis acc imps,
  PS.generate_pkg L target c tis acc imps = ps_shift acc imps (PS.generate_pkg L target c tis [] []).
Proof.
  intros L target c. induction tis as [|ti r IH]; intros acc imps.
  - cbn. rewrite !app_nil_r. reflexivity.
  - cbn [PS.generate_pkg]. destruct (PS.generate_type L target c ti) as [|k| | |g i]; try reflexivity.
    + apply IH.
    + rewrite (IH (acc ++ [g]) (imps ++ i)), (IH ([] ++ [g]) ([] ++ i)).
      destruct (PS.generate_pkg L target c r [] []); cbn; try reflexivity.
      rewrite <- !app_assoc. reflexivity.
Qed.

Section PartialStructRun.
  Variables (cfg : PS.cfg) (tracker : PL.pkginfo -> bytes -> bytes) (tin : PL.pkginfo -> PL.tyinfo -> PS.tinput)
            (print_gtype : PS.gtype -> bytes).
  Variable E : PL.env.

  Notation g := (partialstruct_gen cfg tracker tin print_gtype).

  Definition ps_called (p : PL.pkginfo) : list PL.tyinfo :=
    filter (PL.should_call E g p) (PL.sort_by PL.ty_name (PL.pk_types p)).

  Lemma ps_call_loop : forall p tys,
    let cl := PL.call_loop E g p tt tys in
    match PS.generate_pkg (tracker p) (PL.pk_path p) cfg (map (tin p) (filter (PL.should_call E g p) tys)) [] [] with
    | PS.OutFile ts _ => PL.ro_out cl = PL.Done /\ PL.ro_body cl = print_gtypes print_gtype ts /\
                         PL.ro_ignore cl = false /\ PL.ro_defers cl = []
    | PS.OutErr _ => PL.ro_out cl = PL.Failed (PL.EGen (bs "partialstruct") (PL.pk_path p))
    | PS.OutCrash => PL.ro_out cl = PL.Died
    | PS.OutGeneric => True
    end.
  Proof.
    intros p. induction tys as [|t r IH]; cbn zeta.
    - cbn. repeat split; reflexivity.
    - cbn [PL.call_loop filter]. destruct (PL.should_call E g p t) eqn:Hs; [|apply IH].
      cbn [map PS.generate_pkg]. cbn [PL.g_type partialstruct_gen]. unfold ps_type.
      destruct (PS.generate_type (tracker p) (PL.pk_path p) cfg (tin p t)) as [|k| | |gt i].
      + cbn zeta in IH. cbn [no_out PL.so_res PL.so_body PL.so_defers].
        destruct (PS.generate_pkg (tracker p) (PL.pk_path p) cfg (map (tin p) (filter (PL.should_call E g p) r)) [] []);
          cbn [PL.ro_out PL.ro_body PL.ro_ignore PL.ro_defers PL.sets_ignore orb app]; exact IH.
      + reflexivity.
      + reflexivity.
      + exact I.
      + cbn zeta in IH. rewrite generate_pkg_shift.
        destruct (PS.generate_pkg (tracker p) (PL.pk_path p) cfg (map (tin p) (filter (PL.should_call E g p) r)) [] [])
          as [k| | |ts i0]; cbn [ps_shift PL.so_res PL.so_body PL.so_defers PL.ro_out PL.ro_body PL.ro_ignore PL.ro_defers PL.sets_ignore orb app];
          try exact IH.
        destruct IH as [H1 [H2 [H3 H4]]]. repeat split; try assumption.
        rewrite H2. unfold print_gtypes. cbn [map concat app]. reflexivity.
  Qed.

  (* Pipeline.gen_run on the partialstruct instance = C18's generate_pkg on this package's called declarations *)
  Theorem partialstruct_gen_run : forall p,
    match PS.generate_pkg (tracker p) (PL.pk_path p) cfg (map (tin p) (ps_called p)) [] [] with
    | PS.OutFile ts _ => PL.go_out (PL.gen_run E g p) = PL.Done /\
                         PL.go_body (PL.gen_run E g p) = print_gtypes print_gtype ts /\
                         PL.go_ignore (PL.gen_run E g p) = false
    | PS.OutErr _ => PL.go_out (PL.gen_run E g p) = PL.Failed (PL.EGen (bs "partialstruct") (PL.pk_path p))
    | PS.OutCrash => PL.go_out (PL.gen_run E g p) = PL.Died
    | PS.OutGeneric => True
    end.
  Proof.
    intros p. pose proof (ps_call_loop p (PL.sort_by PL.ty_name (PL.pk_types p))) as Hc. cbn zeta in Hc.
    unfold ps_called. unfold PL.gen_run. change (PL.g_new g p) with tt.
    destruct (PS.generate_pkg (tracker p) (PL.pk_path p) cfg
                (map (tin p) (filter (PL.should_call E g p) (PL.sort_by PL.ty_name (PL.pk_types p)))) [] []) as [k| | |ts i].
    - rewrite Hc. reflexivity.
    - rewrite Hc. reflexivity.
    - exact I.
    - destruct Hc as [H1 [H2 [H3 H4]]]. rewrite H1, H4.
      cbn [PL.defer_loop PL.ro_body PL.ro_out PL.go_out PL.go_body PL.go_ignore]. rewrite app_nil_r. repeat split; assumption.
  Qed.
End PartialStructRun.

(* ================================================================================================================ *)
(* runtimedoc                                                                                                      *)
(* ================================================================================================================ *)
From Coq Require Import Permutation.
Module PPl := Gengo.Proofs.Pipeline.

Lemma skipn_app_exact {A} : forall (a b : list A), skipn (List.length a) (a ++ b) = b.
Proof. induction a as [|x a IH]; intros b; [reflexivity|]. cbn. apply IH. Qed.

Lemma generate_type_grow : forall fd fs pk d st,
  exists new, RD.gs_body (RD.generate_type fd fs pk d st) = RD.gs_body st ++ new /\
              RD.gs_defers (RD.generate_type fd fs pk d st) = RD.gs_defers st.
Proof.
  intros fd fs pk d st. unfold RD.generate_type.
  destruct (existsb (bytes_eqb (RD.t_name d)) (RD.gs_processed st)); [exists []; rewrite app_nil_r; split; reflexivity|].
  destruct (RD.method_of fd fs pk d) as [m|]; cbn.
  - eexists. split; reflexivity.
  - exists []. rewrite app_nil_r. split; reflexivity.
Qed.

Lemma GenerateType_grow : forall fd fs pk d st,
  exists new, RD.gs_body (RD.GenerateType fd fs pk d st) = RD.gs_body st ++ new /\
              RD.gs_defers st <= RD.gs_defers (RD.GenerateType fd fs pk d st) <= S (RD.gs_defers st).
Proof.
  intros fd fs pk d st. unfold RD.GenerateType.
  assert (H0 : exists new, RD.gs_body st = RD.gs_body st ++ new /\ RD.gs_defers st <= RD.gs_defers st <= S (RD.gs_defers st)).
  { exists []. rewrite app_nil_r. split; [reflexivity|lia]. }
  destruct (generate_type_grow fd fs pk d st) as [new [Hb Hd]].
  assert (H1 : exists new0,
             RD.gs_body (if negb (RD.t_exported d) then st else
                           match RD.gs_body (RD.generate_type fd fs pk d st) with
                           | [] => RD.generate_type fd fs pk d st
                           | _ :: _ => RD.mk_gs (RD.gs_processed (RD.generate_type fd fs pk d st)) (RD.gs_body (RD.generate_type fd fs pk d st))
                                                (S (RD.gs_defers (RD.generate_type fd fs pk d st))) (RD.gs_helper (RD.generate_type fd fs pk d st))
                           end) = RD.gs_body st ++ new0 /\
             RD.gs_defers st <= RD.gs_defers (if negb (RD.t_exported d) then st else
                           match RD.gs_body (RD.generate_type fd fs pk d st) with
                           | [] => RD.generate_type fd fs pk d st
                           | _ :: _ => RD.mk_gs (RD.gs_processed (RD.generate_type fd fs pk d st)) (RD.gs_body (RD.generate_type fd fs pk d st))
                                                (S (RD.gs_defers (RD.generate_type fd fs pk d st))) (RD.gs_helper (RD.generate_type fd fs pk d st))
                           end) <= S (RD.gs_defers st)).
  { destruct (negb (RD.t_exported d)); [exact H0|].
    destruct (RD.gs_body (RD.generate_type fd fs pk d st)) as [|x l] eqn:Eb.
    - exists new. rewrite Eb, Hd. split; [exact Hb|lia].
    - exists new. cbn [RD.gs_body RD.gs_defers]. rewrite Hd. split; [exact Hb|lia]. }
  destruct (RD.t_kind d); [exact H1|exact H0|exact H1].
Qed.

Lemma create_helper_grow : forall st,
  exists new, RD.gs_body (RD.create_helper_once st) = RD.gs_body st ++ new.
Proof.
  intros st. unfold RD.create_helper_once. destruct (RD.gs_helper st); [exists []; rewrite app_nil_r; reflexivity|].
  eexists. reflexivity.
Qed.

Section RuntimeDocRun.
  Variables (fd fs : bool) (desc : PL.pkginfo -> PL.tyinfo -> RD.tydesc) (print_item : RD.item -> bytes) (fuel : nat).
  Variable E : PL.env.

  Notation g := (runtimedoc_gen fd fs desc print_item fuel).

  Lemma print_items_app : forall a b, print_items print_item (a ++ b) = print_items print_item a ++ print_items print_item b.
  Proof. intros. unfold print_items. rewrite map_app, concat_app. reflexivity. Qed.

  Definition rd_step (p : PL.pkginfo) (st : RD.gstate) (d : RD.tydesc) : RD.gstate :=
    if RD.t_enabled d then RD.GenerateType fd fs (rd_view desc p) d st else st.

  Lemma rd_call_loop : forall p tys st,
    (forall t, In t tys -> PL.should_call E g p t = RD.t_enabled (desc p t)) ->
    let cl := PL.call_loop E g p st tys in
    let stF := fold_left (rd_step p) (map (desc p) tys) st in
    PL.ro_out cl = PL.Done /\ PL.ro_state cl = stF /\ PL.ro_ignore cl = false /\
    RD.gs_defers st <= RD.gs_defers stF /\
    PL.ro_defers cl = repeat 0 (RD.gs_defers stF - RD.gs_defers st) /\
    exists X, RD.gs_body stF = RD.gs_body st ++ X /\ PL.ro_body cl = print_items print_item X.
  Proof.
    intros p. induction tys as [|t r IH]; intros st H; cbn zeta.
    - cbn. rewrite Nat.sub_diag. repeat split; try reflexivity; try lia. exists []. rewrite app_nil_r. split; reflexivity.
    - cbn [PL.call_loop map fold_left].
      destruct (PL.should_call E g p t) eqn:Hs.
      + cbn [PL.g_type runtimedoc_gen]. unfold rd_type.
        assert (Hst : rd_step p st (desc p t) = RD.GenerateType fd fs (rd_view desc p) (desc p t) st).
        { unfold rd_step. rewrite <- (H t (or_introl eq_refl)), Hs. reflexivity. }
        rewrite Hst. clear Hst.
        set (st1 := RD.GenerateType fd fs (rd_view desc p) (desc p t) st).
        destruct (GenerateType_grow fd fs (rd_view desc p) (desc p t) st) as [new [Hb Hd]]. fold st1 in Hb, Hd.
        specialize (IH st1 (fun t0 Hin => H t0 (or_intror Hin))). cbn zeta in IH.
        destruct IH as [H1 [H2 [H3 [H4 [H5 [X [H6 H7]]]]]]].
        assert (Hnew : new_items st st1 = new) by (unfold new_items; rewrite Hb; apply skipn_app_exact).
        assert (Hres : rd_res (desc p t) = PL.RNil \/ rd_res (desc p t) = PL.RSkip).
        { unfold rd_res. destruct (RD.t_kind (desc p t)); try (right; reflexivity);
            destruct (negb (RD.t_exported (desc p t))); auto. }
        cbn [PL.so_res PL.so_body PL.so_defers].
        destruct Hres as [Hr|Hr]; rewrite Hr;
          cbn [PL.ro_out PL.ro_state PL.ro_ignore PL.ro_defers PL.ro_body PL.sets_ignore orb];
          (split; [exact H1|]); (split; [exact H2|]); (split; [exact H3|]); (split; [lia|]);
          (split; [rewrite H5, <- repeat_app; f_equal; lia|]);
          exists (new ++ X); (split; [rewrite H6, Hb, app_assoc; reflexivity|]);
          rewrite Hnew, H7, print_items_app; reflexivity.
      + assert (Hst : rd_step p st (desc p t) = st).
        { unfold rd_step. rewrite <- (H t (or_introl eq_refl)), Hs. reflexivity. }
        rewrite Hst. apply IH. intros t0 Hin. apply H. right. exact Hin.
  Qed.

  Lemma rd_defer_loop : forall p n fl st, n <= fl ->
    let dl := PL.defer_loop fl g p st (repeat 0 n) in
    PL.ro_out dl = PL.Done /\
    exists Y, RD.gs_body (RD.run_defers n st) = RD.gs_body st ++ Y /\ PL.ro_body dl = print_items print_item Y.
  Proof.
    intros p. induction n as [|n IH]; intros fl st Hle; cbn zeta.
    - destruct fl; cbn; (split; [reflexivity|]); exists []; rewrite app_nil_r; split; reflexivity.
    - destruct fl as [|fl]; [lia|]. cbn [repeat PL.defer_loop]. cbn [PL.g_defer runtimedoc_gen]. unfold rd_defer.
      cbn [PL.so_res PL.so_body PL.so_defers]. rewrite app_nil_r.
      destruct (create_helper_grow st) as [new Hb].
      destruct (IH fl (RD.create_helper_once st) ltac:(lia)) as [H1 [Y [H2 H3]]].
      cbn [PL.ro_out PL.ro_body RD.run_defers]. split; [exact H1|].
      exists (new ++ Y). split; [rewrite H2, Hb, app_assoc; reflexivity|].
      unfold new_items. rewrite Hb, skipn_app_exact, H3, print_items_app. reflexivity.
  Qed.

  (* Pipeline.gen_run on the runtimedoc instance = C16's [gen] on this package alone, from gs_init (nothing processed,
     helper not written).  Side conditions: the dispatch and C16's t_enabled flag are the same decision; the callback
     bound covers one callback per type. *)
  Theorem runtimedoc_gen_run : forall p,
    (forall t, In t (PL.pk_types p) -> PL.should_call E g p t = RD.t_enabled (desc p t)) ->
    List.length (PL.pk_types p) <= fuel ->
    PL.go_out (PL.gen_run E g p) = PL.Done /\
    PL.go_body (PL.gen_run E g p) = print_items print_item (RD.gen fd fs (rd_view desc p)) /\
    PL.go_ignore (PL.gen_run E g p) = false.
  Proof.
    intros p H Hfuel.
    destruct (rd_call_loop p (PL.sort_by PL.ty_name (PL.pk_types p)) RD.gs_init) as [H1 [H2 [H3 [H4 [H5 [X [H6 H7]]]]]]].
    { intros t Hin. apply H. apply (PPl.sort_by_In PL.ty_name). exact Hin. }
    cbn zeta in *. unfold PL.gen_run. change (PL.g_new g p) with RD.gs_init. rewrite H1, H2, H5.
    change (RD.gs_defers RD.gs_init) with 0. rewrite Nat.sub_0_r.
    set (stF := fold_left (rd_step p) (map (desc p) (PL.sort_by PL.ty_name (PL.pk_types p))) RD.gs_init) in *.
    assert (Hbound : RD.gs_defers stF <= fuel).
    { assert (Hgen : forall ds st, RD.gs_defers (fold_left (rd_step p) ds st) <= RD.gs_defers st + List.length ds).
      { induction ds as [|d ds IHd]; intros st; cbn [fold_left List.length]; [lia|].
        specialize (IHd (rd_step p st d)).
        assert (Hs : RD.gs_defers (rd_step p st d) <= S (RD.gs_defers st)).
        { unfold rd_step. destruct (RD.t_enabled d); [|lia].
          destruct (GenerateType_grow fd fs (rd_view desc p) d st) as [_ [_ Hd]]. lia. }
        lia. }
      specialize (Hgen (map (desc p) (PL.sort_by PL.ty_name (PL.pk_types p))) RD.gs_init). fold stF in Hgen.
      rewrite map_length in Hgen. rewrite (Permutation_length (PPl.sort_by_perm PL.ty_name (PL.pk_types p))) in Hgen.
      change (RD.gs_defers RD.gs_init) with 0 in Hgen. lia. }
    destruct (rd_defer_loop p (RD.gs_defers stF) fuel stF Hbound) as [D1 [Y [D2 D3]]]. cbn zeta in D1, D3.
    change (PL.g_fuel g) with fuel. cbn [PL.go_out PL.go_body PL.go_ignore].
    split; [exact D1|]. split; [|exact H3].
    rewrite H7, D3, <- print_items_app. f_equal.
    unfold RD.gen, RD.do_generate. change (fold_left _ (rd_view desc p) RD.gs_init) with stF.
    rewrite D2, H6. reflexivity.
  Qed.
End RuntimeDocRun.

(* ================================================================================================================ *)
(* Corollaries of the pipeline theorems for THESE generators                                                       *)
(* ================================================================================================================ *)
Module PPk := Gengo.Proofs.PipelinePkg.
Module P07 := Gengo.Proofs.PipelineC07.
Module P02 := Gengo.Proofs.PipelineC02.

Section Corollaries.
  Variable E : PL.env.

  (* the bytes at a generator's path after a successful run, when the generator's rendering for the package is known *)
  Lemma file_after_body : forall a w gens s p g B,
    PPk.order_ok E -> NoDup (map PL.g_name gens) -> PPk.world_ok w ->
    PL.exec_outcome E a w gens s = PL.Done ->
    In p (PL.w_pkgs w) -> PPl.processed E a w s p = true -> In g gens ->
    (PL.go_out (PL.gen_run E g p) = PL.Done -> PL.go_body (PL.gen_run E g p) = B /\ PL.go_ignore (PL.gen_run E g p) = false) ->
    PL.fs_lookup (PL.gen_file a p (PL.g_name g)) (PL.exec_fs E a w gens s) =
      (if negb (is_nil B) then PL.e_fmt E (PL.assemble (PL.pk_name p) (PL.g_name g) B)
       else if PL.mem_bytes (PL.fname a (PL.g_name g)) (PL.pk_files p) then None
       else PL.fs_lookup (PL.gen_file a p (PL.g_name g)) s).
  Proof.
    intros a w gens s p g B Hord Hnd Hok Hdone Hp Hpr Hg HB.
    destruct (P07.generator_file_after E a w gens s p g Hord Hnd Hok Hdone Hp Hpr Hg) as [Hlk [_ Hgo]].
    destruct (HB Hgo) as [Hb Hi]. rewrite Hlk, Hb, Hi. reflexivity.
  Qed.

  Section DC.
    Variables (fx : DC.fixes) (graph : PL.pkginfo -> DC.pkg) (vis : PL.pkginfo -> list DC.method)
              (print_method : DC.method -> bytes) (fuel : nat).
    Notation g := (deepcopy_gen fx graph vis print_method fuel).

    (* C05 / C07 for deepcopy: whatever else is generated in the same process — other packages before it, other
       generators — after a successful run the deepcopy file of a processed package is the formatter's output for
       what Model/DeepCopy.v's generator renders for THAT package from an EMPTY processed set (gen_deepcopy starts at
       mk_gstate [] []): g.processed never carries over.  Nothing rendered: no file (a stale one is removed). *)
    Theorem deepcopy_fresh_per_package : forall a w gens s p,
      PPk.order_ok E -> NoDup (map PL.g_name gens) -> PPk.world_ok w ->
      PL.exec_outcome E a w gens s = PL.Done ->
      In p (PL.w_pkgs w) -> PPl.processed E a w s p = true -> In g gens ->
      (forall t, In t (called fx graph vis print_method fuel E p) ->
         exists d, DC.lookup (graph p) (PL.ty_name t) = Some d /\ DC.enabled (graph p) d = true) ->
      exists ms,
        DC.gen_deepcopy fuel fx (graph p) (map PL.ty_name (called fx graph vis print_method fuel E p)) (vis p) = Ok ms /\
        PL.fs_lookup (PL.gen_file a p (bs "deepcopy")) (PL.exec_fs E a w gens s) =
          (if negb (is_nil (print_methods print_method ms))
           then PL.e_fmt E (PL.assemble (PL.pk_name p) (bs "deepcopy") (print_methods print_method ms))
           else if PL.mem_bytes (PL.fname a (bs "deepcopy")) (PL.pk_files p) then None
           else PL.fs_lookup (PL.gen_file a p (bs "deepcopy")) s).
    Proof.
      intros a w gens s p Hord Hnd Hok Hdone Hp Hpr Hg Hcalled.
      pose proof (deepcopy_gen_run fx graph vis print_method fuel E p Hcalled) as Hrun.
      destruct (P07.generator_file_after E a w gens s p g Hord Hnd Hok Hdone Hp Hpr Hg) as [_ [_ Hgo]].
      destruct (DC.gen_deepcopy fuel fx (graph p) (map PL.ty_name (called fx graph vis print_method fuel E p)) (vis p)) as [ms| |].
      - exists ms. split; [reflexivity|]. destruct Hrun as [_ [Hb Hi]].
        apply (file_after_body a w gens s p g (print_methods print_method ms) Hord Hnd Hok Hdone Hp Hpr Hg). intros _. split; assumption.
      - rewrite Hrun in Hgo. discriminate.
      - rewrite Hrun in Hgo. discriminate.
    Qed.
  End DC.

  Section RDc.
    Variables (fd fs : bool) (desc : PL.pkginfo -> PL.tyinfo -> RD.tydesc) (print_item : RD.item -> bytes) (fuel : nat).
    Notation g := (runtimedoc_gen fd fs desc print_item fuel).

    (* C05 / C07 for runtimedoc: the file is C16's [gen] of that package alone, from gs_init — neither g.processed nor
       g.helperWritten carries over: every package's file that has a RuntimeDoc method has its own helper *)
    Theorem runtimedoc_fresh_per_package : forall a w gens s p,
      PPk.order_ok E -> NoDup (map PL.g_name gens) -> PPk.world_ok w ->
      PL.exec_outcome E a w gens s = PL.Done ->
      In p (PL.w_pkgs w) -> PPl.processed E a w s p = true -> In g gens ->
      (forall t, In t (PL.pk_types p) -> PL.should_call E g p t = RD.t_enabled (desc p t)) ->
      List.length (PL.pk_types p) <= fuel ->
      let body := print_items print_item (RD.gen fd fs (rd_view desc p)) in
      PL.fs_lookup (PL.gen_file a p (bs "runtimedoc")) (PL.exec_fs E a w gens s) =
        (if negb (is_nil body) then PL.e_fmt E (PL.assemble (PL.pk_name p) (bs "runtimedoc") body)
         else if PL.mem_bytes (PL.fname a (bs "runtimedoc")) (PL.pk_files p) then None
         else PL.fs_lookup (PL.gen_file a p (bs "runtimedoc")) s).
    Proof.
      intros a w gens s p Hord Hnd Hok Hdone Hp Hpr Hg Hen Hfuel body.
      destruct (runtimedoc_gen_run fd fs desc print_item fuel E p Hen Hfuel) as [_ [Hb Hi]].
      apply (file_after_body a w gens s p g body Hord Hnd Hok Hdone Hp Hpr Hg). intros _. split; assumption.
    Qed.
  End RDc.

  Section PSc.
    Variables (cfg : PS.cfg) (tracker : PL.pkginfo -> bytes -> bytes) (tin : PL.pkginfo -> PL.tyinfo -> PS.tinput)
              (print_gtype : PS.gtype -> bytes).
    Notation g := (partialstruct_gen cfg tracker tin print_gtype).
    Notation model p := (PS.generate_pkg (tracker p) (PL.pk_path p) cfg (map (tin p) (ps_called cfg tracker tin print_gtype E p)) [] []).

    (* C05 / C07 for partialstruct (replace values with type arguments are outside C18's model) *)
    Theorem partialstruct_file_per_package : forall a w gens s p,
      PPk.order_ok E -> NoDup (map PL.g_name gens) -> PPk.world_ok w ->
      PL.exec_outcome E a w gens s = PL.Done ->
      In p (PL.w_pkgs w) -> PPl.processed E a w s p = true -> In g gens ->
      model p <> PS.OutGeneric ->
      exists ts i,
        model p = PS.OutFile ts i /\
        PL.fs_lookup (PL.gen_file a p (bs "partialstruct")) (PL.exec_fs E a w gens s) =
          (if negb (is_nil (print_gtypes print_gtype ts))
           then PL.e_fmt E (PL.assemble (PL.pk_name p) (bs "partialstruct") (print_gtypes print_gtype ts))
           else if PL.mem_bytes (PL.fname a (bs "partialstruct")) (PL.pk_files p) then None
           else PL.fs_lookup (PL.gen_file a p (bs "partialstruct")) s).
    Proof.
      intros a w gens s p Hord Hnd Hok Hdone Hp Hpr Hg Hgen.
      pose proof (partialstruct_gen_run cfg tracker tin print_gtype E p) as Hrun.
      destruct (P07.generator_file_after E a w gens s p g Hord Hnd Hok Hdone Hp Hpr Hg) as [_ [_ Hgo]].
      destruct (model p) as [k| | |ts i].
      - rewrite Hrun in Hgo. discriminate.
      - rewrite Hrun in Hgo. discriminate.
      - contradiction.
      - exists ts, i. split; [reflexivity|]. destruct Hrun as [_ [Hb Hi]].
        apply (file_after_body a w gens s p g (print_gtypes print_gtype ts) Hord Hnd Hok Hdone Hp Hpr Hg). intros _. split; assumption.
    Qed.

    (* C02 for partialstruct: a declaration that is `not a struct` (or not made from a named type) in a processed
       package makes the run fail — with any other packages and generators in it —; gengo.sum is left as it was; and
       when Execute names partialstruct and this package, no file of the package's directory has changed *)
    Theorem partialstruct_error_aborts : forall a w gens s p k,
      PPk.order_ok E -> NoDup (map PL.g_name gens) -> PPk.world_ok w ->
      In p (PL.w_pkgs w) -> PPl.processed E a w s p = true -> In g gens ->
      model p = PS.OutErr k ->
      PL.exec_outcome E a w gens s <> PL.Done /\
      (PPk.files_ok w -> PL.fs_lookup (PL.sum_path w) (PL.exec_fs E a w gens s) = PL.fs_lookup (PL.sum_path w) s) /\
      (PL.exec_outcome E a w gens s = PL.Failed (PL.EGen (bs "partialstruct") (PL.pk_path p)) ->
       forall f, PL.fs_lookup (PL.pk_dir p, f) (PL.exec_fs E a w gens s) = PL.fs_lookup (PL.pk_dir p, f) s).
    Proof.
      intros a w gens s p k Hord Hnd Hok Hp Hpr Hg Hm.
      pose proof (partialstruct_gen_run cfg tracker tin print_gtype E p) as Hrun. rewrite Hm in Hrun.
      assert (Hnot : PL.exec_outcome E a w gens s <> PL.Done).
      { intros Hdone.
        destruct (P07.generator_file_after E a w gens s p g Hord Hnd Hok Hdone Hp Hpr Hg) as [_ [_ Hgo]].
        rewrite Hrun in Hgo. discriminate. }
      split; [exact Hnot|]. split.
      - intros Hf. apply P02.sum_untouched_unless_done; assumption.
      - intros Hfail.
        destruct (P02.failed_names_pkg E a w gens s _ _ Hord Hnd Hok (or_introl Hfail))
          as [p' [g' [Hp' [Hpath [_ [_ [_ Hsame]]]]]]].
        assert (p' = p) as ->.
        { destruct Hok as [_ Hpaths]. apply (PPk.NoDup_map_inj_in PL.pk_path (PL.w_pkgs w) Hpaths); assumption. }
        exact Hsame.
    Qed.
  End PSc.
End Corollaries.

(* the three real generators in one run: every pipeline theorem (C07 frame, C05, C02, C08 through Whole) quantifies
   over the generator list, hence holds of this one; their names are distinct *)
Definition real_gens fx graph vis pm fuel fd fs desc pi rfuel cfg tracker tin pg : list PL.generator :=
  [deepcopy_gen fx graph vis pm fuel; partialstruct_gen cfg tracker tin pg; runtimedoc_gen fd fs desc pi rfuel].

Lemma real_gens_names : forall fx graph vis pm fuel fd fs desc pi rfuel cfg tracker tin pg,
  NoDup (map PL.g_name (real_gens fx graph vis pm fuel fd fs desc pi rfuel cfg tracker tin pg)).
Proof.
  intros. cbn. repeat constructor; cbn; intuition (try discriminate).
Qed.

Theorem real_gens_frame : forall (E : PL.env) fx graph vis pm fuel fd fs desc pi rfuel cfg tracker tin pg a w s q,
  ~ PPl.own_output E a w s q ->
  PL.fs_lookup q (PL.exec_fs E a w (real_gens fx graph vis pm fuel fd fs desc pi rfuel cfg tracker tin pg) s) = PL.fs_lookup q s.
Proof. intros. apply PPl.frame. assumption. Qed.

(* ================================================================================================================ *)
(* non-vacuity: two packages with the same declarations (Dep untagged, Root{D Dep} tagged), one All run, the        *)
(* deepcopy instance: the second package gets Dep's methods again (processed starts empty for it)                   *)
(* ================================================================================================================ *)
Module PW := Gengo.Proofs.PipelineWitness.
Module PDT := Gengo.Proofs.DeepCopyTop.

Definition wg_print (m : DC.method) : bytes :=
  match m with
  | DC.MPtrCopy t _ => bs "func (in *" ++ t ++ bs ") DeepCopy() {}" ++ [ascii_of_N 10]
  | DC.MPtrInto t _ body => bs "func (in *" ++ t ++ bs ") DeepCopyInto() {}" ++ [ascii_of_N 10]
  | _ => bs "func other() {}" ++ [ascii_of_N 10]
  end.
Definition wg_gen : PL.generator := deepcopy_gen DC.all_fixed (fun _ => PDT.w_dep) (fun _ => []) wg_print 8.
Definition wg_types : list PL.tyinfo :=
  [PL.Build_tyinfo (bs "Root") PL.KNamed (PW.tag "deepcopy"); PL.Build_tyinfo (bs "Dep") PL.KNamed []].
Definition wg_a : PL.pkginfo := PL.Build_pkginfo (bs "m/a") (bs "a") (bs "a") [bs "a.go"] [] wg_types (bs "h1:a").
Definition wg_b : PL.pkginfo := PL.Build_pkginfo (bs "m/b") (bs "b") (bs "b") [bs "b.go"] [] wg_types (bs "h1:b").
Definition wg_world : PL.world := PL.Build_world [] [wg_b; wg_a] [bs "m/a"; bs "m/b"].
Definition wg_body : bytes :=
  bs "func (in *Root) DeepCopy() {}" ++ [ascii_of_N 10] ++ bs "func (in *Root) DeepCopyInto() {}" ++ [ascii_of_N 10] ++
  bs "func (in *Dep) DeepCopy() {}" ++ [ascii_of_N 10] ++ bs "func (in *Dep) DeepCopyInto() {}" ++ [ascii_of_N 10].

Lemma deepcopy_instance_witness :
  PL.exec_outcome (PW.wit_env true) PW.wc_args wg_world [wg_gen] PW.wc_fs = PL.Done /\
  map PL.ty_name (called DC.all_fixed (fun _ => PDT.w_dep) (fun _ => []) wg_print 8 (PW.wit_env true) wg_a) = [bs "Root"] /\
  DC.gen_deepcopy 8 DC.all_fixed PDT.w_dep [bs "Root"] [] =
    Ok [DC.MPtrCopy (bs "Root") []; DC.MPtrInto (bs "Root") [] [DC.SCallInto (bs "D")];
        DC.MPtrCopy (bs "Dep") []; DC.MPtrInto (bs "Dep") [] [DC.SCopySlice (bs "X") (bs "[]int")]] /\
  PL.fs_lookup (bs "a", bs "zz_generated.deepcopy.go") (PL.exec_fs (PW.wit_env true) PW.wc_args wg_world [wg_gen] PW.wc_fs)
    = Some (PL.assemble (bs "a") (bs "deepcopy") wg_body) /\
  PL.fs_lookup (bs "b", bs "zz_generated.deepcopy.go") (PL.exec_fs (PW.wit_env true) PW.wc_args wg_world [wg_gen] PW.wc_fs)
    = Some (PL.assemble (bs "b") (bs "deepcopy") wg_body).
Proof. repeat split; vm_compute; reflexivity. Qed.

(* the hypotheses of deepcopy_reads_sources_only are satisfiable: any graph that depends on the sources only, with the
   methods of the generator's own output as what an earlier run left *)
Lemma deepcopy_det_witness : forall pm io,
  PDet.reads_sources_only
    (deepcopy_det_gen (fun _ => PDT.w_all)
       (fun p => match DC.gen_deepcopy 8 DC.all_fixed PDT.w_all PDT.w_all_order [] with
                 | Ok ms => if is_nil (Det.pk_files p) then [] else ms
                 | _ => [] end) pm io 8).
Proof.
  intros pm io. apply deepcopy_reads_sources_only.
  { intros; reflexivity. }
  intros p. destruct (DC.gen_deepcopy 8 DC.all_fixed PDT.w_all PDT.w_all_order []) as [ms| |] eqn:Hg; try constructor.
  destruct (is_nil (Det.pk_files p)); [constructor|].
  eapply PD.gen_deepcopy_vis_ok. exact Hg.
Qed.
