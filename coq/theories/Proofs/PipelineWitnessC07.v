(* C07_exists_iff on a run where every case of the equivalence occurs (non-vacuity): one processed package with five
   generators and previous files, one package skipped through gengo.sum, user files.  Closed computation, plus the
   theorem applied to each generator with every hypothesis discharged. *)
Require Import Gengo.Base.Bytes Gengo.Model.Pipeline Gengo.Proofs.Pipeline Gengo.Proofs.PipelinePkg
  Gengo.Proofs.PipelineC07 Gengo.Proofs.PipelineWitness Gengo.Corr.Pipe.
From Coq Require Import Permutation.

(* package m/a: type T tagged for the generators g1, old, keep, ign; alias U tagged for the AliasGenerator keepal.
   Its compiled Go files at load time: a.go (the user's) and the previous outputs of g1, old, keep and keepal. *)
Definition we_a : pkginfo :=
  mk_pkg (bs "m/a") (bs "a") (bs "a")
    [bs "a.go"; bs "zz_generated.g1.go"; bs "zz_generated.old.go"; bs "zz_generated.keep.go"; bs "zz_generated.keepal.go"]
    [mk_ty (bs "T") KNamed (tag "g1" ++ tag "old" ++ tag "keep" ++ tag "ign"); mk_ty (bs "U") KAlias (tag "keepal")]
    (bs "h1:a").
(* package m/b: recorded in gengo.sum with its current hash: skipped *)
Definition we_b : pkginfo :=
  mk_pkg (bs "m/b") (bs "b") (bs "b") [bs "b.go"; bs "zz_generated.g1.go"] [mk_ty (bs "T") KNamed (tag "g1")] (bs "h1:b").
Definition we_world : world := mk_world [we_b; we_a] [bs "m/a"; bs "m/b"].
Definition we_args : args := {| a_all := true; a_force := false; a_base := bs "zz_generated" |}.

Definition we_gens : list generator :=
  [ (* renders: its file is (re)written *)
    script_gen (mk_sgen (bs "g1") false [((bs "m/a", bs "T"), mk_step (bs "var V = 1") RNil false false []);
                                         ((bs "m/b", bs "T"), mk_step (bs "var W = 1") RNil false false [])]);
    (* is called, renders nothing, no ErrIgnore: its previous file is STALE and is removed *)
    script_gen (mk_sgen (bs "old") false [((bs "m/a", bs "T"), mk_step [] RNil false false [])]);
    (* signals ErrIgnore and renders nothing, has a previous file: kept *)
    script_gen (mk_sgen (bs "keep") false [((bs "m/a", bs "T"), mk_step [] RIgnore false false [])]);
    (* signals ErrIgnore and renders nothing, has NO previous file: none appears *)
    script_gen (mk_sgen (bs "ign") false [((bs "m/a", bs "T"), mk_step [] RIgnore false false [])]);
    (* the same from GenerateAliasType (the case repaired by fix #26) *)
    script_gen (mk_sgen (bs "keepal") true [((bs "m/a", bs "U"), mk_step [] RIgnore false false [])]) ].

Definition we_fs : fs :=
  [((bs "a", bs "a.go"), bs "package a"); ((bs "a", bs "notes.txt"), bs "mine");
   ((bs "a", bs "zz_generated.g1.go"), bs "old a g1"); ((bs "a", bs "zz_generated.old.go"), bs "old a old");
   ((bs "a", bs "zz_generated.keep.go"), bs "old a keep"); ((bs "a", bs "zz_generated.keepal.go"), bs "old a keepal");
   ((bs "b", bs "b.go"), bs "package b"); ((bs "b", bs "zz_generated.g1.go"), bs "old b g1");
   ((bs "", bs "README.md"), bs "R");
   ((bs "", bs "gengo.sum"), bs "m/a h1:old" ++ nl ++ bs "m/b h1:b" ++ nl)].

Definition we_E : env := wit_env true.
Definition we_after : fs := exec_fs we_E we_args we_world we_gens we_fs.

Ltac splits := repeat match goal with |- _ /\ _ => split end.
Ltac nodup := repeat (constructor; [cbn; intuition discriminate|]); try constructor.

Lemma we_names : NoDup (map g_name we_gens).
Proof. cbn. nodup. Qed.

Lemma we_world_ok : world_ok we_world.
Proof. split; cbn; nodup. Qed.

(* the side condition of C07_exists_iff, decided: a file at g's path before the run is one of p.Files() *)
Lemma listed_b : forall (a : args) (p : pkginfo) (g : generator) (s : fs),
  negb (is_some (fs_lookup (gen_file a p (g_name g)) s)) || mem_bytes (fname a (g_name g)) (pk_files p) = true ->
  fs_lookup (gen_file a p (g_name g)) s <> None -> In (fname a (g_name g)) (pk_files p).
Proof.
  intros a p g s H Hne. destruct (fs_lookup (gen_file a p (g_name g)) s); [|now contradiction Hne].
  cbn in H. unfold mem_bytes in H. apply existsb_exists in H. destruct H as [x [Hx Hk]].
  apply bytes_eqb_spec in Hk. now subst x.
Qed.

(* the hypotheses of C07_exists_iff hold for package m/a and each of the five generators *)
Lemma we_hypotheses :
  e_fixed we_E = true /\ order_ok we_E /\ NoDup (map g_name we_gens) /\ world_ok we_world
  /\ exec_outcome we_E we_args we_world we_gens we_fs = Done
  /\ In we_a (w_pkgs we_world) /\ processed we_E we_args we_world we_fs we_a = true
  /\ processed we_E we_args we_world we_fs we_b = false
  /\ Forall (fun g => fs_lookup (gen_file we_args we_a (g_name g)) we_fs <> None ->
                      In (fname we_args (g_name g)) (pk_files we_a)) we_gens.
Proof.
  split; [reflexivity|]. split; [apply wit_order_ok|]. split; [exact we_names|]. split; [exact we_world_ok|].
  split; [vm_compute; reflexivity|]. split; [right; left; reflexivity|].
  split; [vm_compute; reflexivity|]. split; [vm_compute; reflexivity|].
  repeat (apply Forall_cons; [apply listed_b; vm_compute; reflexivity|]). apply Forall_nil.
Qed.

(* per generator (g1, old, keep, ign, keepal):
     had a file before / rendered something / signalled ErrIgnore / has a file afterwards *)
Lemma we_table :
  map (fun g => (g_name g,
                 (is_some (fs_lookup (gen_file we_args we_a (g_name g)) we_fs),
                  negb (is_nil (go_body (gen_run we_E g we_a))),
                  signalled_ignore we_E g we_a,
                  is_some (fs_lookup (gen_file we_args we_a (g_name g)) we_after)))) we_gens
  = [(bs "g1",     (true,  true,  false, true));
     (bs "old",    (true,  false, false, false));     (* the stale listed file is removed *)
     (bs "keep",   (true,  false, true,  true));      (* kept by ErrIgnore *)
     (bs "ign",    (false, false, true,  false));
     (bs "keepal", (true,  false, true,  true))].
Proof. vm_compute. reflexivity. Qed.

(* the bytes: g1's file rewritten, the kept files byte-identical, the user's files and the whole directory of the
   skipped package as they were, gengo.sum rewritten *)
Lemma we_files :
  map (fun q => fs_lookup q we_after)
      [(bs "a", bs "zz_generated.g1.go"); (bs "a", bs "zz_generated.old.go"); (bs "a", bs "zz_generated.keep.go");
       (bs "a", bs "zz_generated.ign.go"); (bs "a", bs "zz_generated.keepal.go");
       (bs "a", bs "a.go"); (bs "a", bs "notes.txt"); (bs "", bs "README.md");
       (bs "b", bs "b.go"); (bs "b", bs "zz_generated.g1.go"); (bs "", bs "gengo.sum")]
  = [Some (assemble (bs "a") (bs "g1") (bs "var V = 1")); None; Some (bs "old a keep");
     None; Some (bs "old a keepal");
     Some (bs "package a"); Some (bs "mine"); Some (bs "R");
     Some (bs "package b"); Some (bs "old b g1"); Some (bs "m/a h1:a" ++ nl ++ bs "m/b h1:b" ++ nl)].
Proof. vm_compute. reflexivity. Qed.

(* C07_exists_iff applied to each of the five generators *)
Lemma we_exists_iff_instances :
  Forall (fun g =>
            fs_lookup (gen_file we_args we_a (g_name g)) we_after <> None
            <-> go_body (gen_run we_E g we_a) <> [] \/
                (signalled_ignore we_E g we_a = true /\ fs_lookup (gen_file we_args we_a (g_name g)) we_fs <> None))
         we_gens.
Proof.
  destruct we_hypotheses as (Hf & Ho & Hn & Hw & Hd & Hp & Hpr & _ & Hl).
  apply Forall_forall. intros g Hg.
  apply (exists_iff we_E we_args we_world we_gens we_fs we_a g Hf Ho Hn Hw Hd Hp Hpr Hg).
  rewrite Forall_forall in Hl. now apply Hl.
Qed.

Print Assumptions we_exists_iff_instances.
