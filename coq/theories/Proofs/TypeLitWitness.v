(* C11 — non-vacuity witnesses:
   1. an instance of strconv.CanBackquote that SATISFIES [cbq_hyp] (the constant [fun _ => true] does not);
   2. an instance of [type_leaf_denotes] (Props/C11.v C11_type_leaf_denotes_in_file): a concrete import table of a
      generated file, and a struct type with leaves from foreign packages, own-package types and struct tags. *)
Require Import Gengo.Base.Bytes Gengo.Model.TypeLit Gengo.Spec.TypeLit Gengo.Proofs.TypeLit.
Require Import Gengo.Model.GoIdent Gengo.Model.RenderStack.
Require Import Gengo.Proofs.RenderStackTracker Gengo.Proofs.RenderStack.
From Coq Require Import NArith Lia.

(* ---- 1. strconv.CanBackquote (strconv/quote.go), on bytes: no backquote, no DEL, no control byte except TAB (so no
   CR, no NL), and — approximating "valid UTF-8 without U+FEFF" from below — no byte >= 0x80 ---- *)
Definition cbq_byte (c : ascii) : bool :=
  let n := N_of_ascii c in
  (N.ltb n 128 && negb (N.eqb n 127) && negb (N.eqb n 96) && (N.leb 32 n || N.eqb n 9))%bool.

Definition can_backquote_ascii (s : bytes) : bool := forallb cbq_byte s.

Lemma cbq_byte_ok : forall c, cbq_byte c = true -> (Ascii.eqb c backquote || Ascii.eqb c cr)%bool = false.
Proof.
  intros c H. unfold cbq_byte in H.
  destruct (Ascii.eqb c backquote) eqn:E1.
  - apply Ascii.eqb_eq in E1. subst c. vm_compute in H. discriminate.
  - destruct (Ascii.eqb c cr) eqn:E2; [|reflexivity].
    apply Ascii.eqb_eq in E2. subst c. vm_compute in H. discriminate.
Qed.

Lemma can_backquote_ascii_hyp : cbq_hyp can_backquote_ascii.
Proof.
  intros s H. unfold tag_ok_raw. apply Bool.negb_true_iff.
  unfold can_backquote_ascii in H. induction s as [|c s IH]; [reflexivity|].
  cbn [forallb] in H. apply Bool.andb_true_iff in H. destruct H as [Hc Hs].
  cbn [existsb]. rewrite (cbq_byte_ok c Hc). cbn [orb]. apply IH. exact Hs.
Qed.

(* the constant-true function the earlier Examples used is NOT an instance *)
Lemma const_true_violates_cbq_hyp : ~ cbq_hyp (fun _ => true).
Proof. intros H. specialize (H [backquote] eq_refl). vm_compute in H. discriminate. Qed.

Lemma can_backquote_ascii_samples :
  can_backquote_ascii (of_string "json:""l,omitempty"" yaml:""x""") = true /\
  can_backquote_ascii (bs "a" ++ [backquote] ++ bs "b") = false /\
  can_backquote_ascii (bs "a" ++ [cr]) = false /\
  can_backquote_ascii (bs "a" ++ [ascii_of_N 10]) = false /\
  can_backquote_ascii (bs "a" ++ [ascii_of_N 9] ++ bs "b") = true /\
  can_backquote_ascii [ascii_of_N 195; ascii_of_N 169] = false.
Proof. vm_compute. repeat split; reflexivity. Qed.

(* ---- 2. a generated file of package example.com/m/t that imports three packages whose last segments collide
   (x/o as o, b/o as bo, a/o as ao) and net/url;  the type
       struct {
         E error
         L ao.List[bo.Item]      `json:"l,omitempty"`
         M map[string][]*o.Node  `x:"a\tb"`          (tag with a TAB: still back-quotable)
         Own *Local                                   (a type of the target package itself: unqualified)
         U url.URL
       }
   is a leaf all of whose packages the file imports ---- *)
Definition wit_self : bytes := bs "example.com/m/t".

Definition wit_table : renv :=
  [(bs "x/o", bs "o"); (bs "b/o", bs "bo"); (bs "a/o", bs "ao"); (bs "net/url", bs "url")].

Definition wit_g : gty :=
  GStruct
    (GFCons (bs "E") false [] GError []
    (GFCons (bs "L") false [] (GNamed (bs "a/o") (bs "List") (GCons (GNamed (bs "b/o") (bs "Item") GNil) GNil))
            (of_string "json:""l,omitempty""")
    (GFCons (bs "M") false []
            (GMap (GBasic BString) (GSlice (GPtr (GNamed (bs "x/o") (bs "Node") GNil))))
            (bs "x:""a" ++ [ascii_of_N 9] ++ bs "b""")
    (GFCons (bs "Own") false [] (GPtr (GNamed wit_self (bs "Local") GNil)) []
    (GFCons (bs "U") false [] (GNamed (bs "net/url") (bs "URL") GNil) []
     GFNil))))).

Lemma wit_table_ok : table_ok the_pre wit_table.
Proof.
  unfold table_ok, wit_table. cbn [map fst snd]. split; [|split].
  - repeat constructor; cbn; intuition discriminate.
  - repeat constructor; cbn; intuition discriminate.
  - repeat constructor; try (vm_compute; reflexivity); cbn; discriminate.
Qed.

Lemma wit_self_not_imported : ~ In wit_self (map fst wit_table).
Proof. cbn. intuition discriminate. Qed.

Lemma wit_g_domain : in_domain all_tags wit_self wit_g = true /\ locals_exported wit_self wit_g = true.
Proof. vm_compute. split; reflexivity. Qed.

Lemma wit_g_imported : forall p, In p (foreign_pkgs wit_self wit_g) -> In p (map fst wit_table).
Proof.
  intros p H. vm_compute in H. cbn [wit_table map fst].
  repeat (destruct H as [<-|H]; [cbn; tauto|]). contradiction.
Qed.

Lemma wit_g_foreign_pkgs_nonempty :
  foreign_pkgs wit_self wit_g = [bs "a/o"; bs "b/o"; bs "x/o"; bs "net/url"].
Proof. vm_compute. reflexivity. Qed.

(* the theorem, instantiated: for the reflect view (%T / snippet.ID(reflect.Type)) and for the go/types view *)
Lemma wit_leaf_denotes :
  (exists a, ident_frag the_pick parse_c15 wit_self can_backquote_ascii true true (IdR (view_of wit_g)) wit_table
             = Ok (a, wit_table) /\ resolve wit_table wit_self a = Some (canon wit_g)) /\
  (exists a, ident_frag the_pick parse_c15 wit_self can_backquote_ascii true true (IdT (view_of wit_g)) wit_table
             = Ok (a, wit_table) /\ resolve wit_table wit_self a = Some (canon wit_g)).
Proof.
  split.
  - exact (type_leaf_denotes wit_self can_backquote_ascii can_backquote_ascii_hyp wit_table (IdR (view_of wit_g)) wit_g
             wit_table_ok wit_self_not_imported (or_introl eq_refl) (proj1 wit_g_domain) (proj2 wit_g_domain) wit_g_imported).
  - exact (type_leaf_denotes wit_self can_backquote_ascii can_backquote_ascii_hyp wit_table (IdT (view_of wit_g)) wit_g
             wit_table_ok wit_self_not_imported (or_intror (or_introl eq_refl)) (proj1 wit_g_domain) (proj2 wit_g_domain)
             wit_g_imported).
Qed.

(* and computed: the text, the unchanged table, the reading *)
Lemma wit_leaf_computed :
  match ident_frag the_pick parse_c15 wit_self can_backquote_ascii true true (IdT (view_of wit_g)) wit_table with
  | Ok (a, e') =>
      print (fun s => s) a =
        bs "struct {E error" ++ [nl] ++
        bs "L ao.List[bo.Item] `json:""l,omitempty""`" ++ [nl] ++
        bs "M map[string][]*o.Node `x:""a" ++ [ascii_of_N 9] ++ bs "b""`" ++ [nl] ++
        bs "Own *Local" ++ [nl] ++
        bs "U url.URL" ++ [nl] ++ bs "}"
      /\ e' = wit_table
      /\ resolve e' wit_self a = Some (canon wit_g)
  | _ => False
  end.
Proof. vm_compute. repeat split; reflexivity. Qed.
