(* Lemmas for C16 (runtimedoc generator). *)
Require Import Gengo.Base.Bytes Gengo.Model.GenRuntimeDoc.

(* ---------------------------------------------------------------------------------------- *)
(* small facts                                                                              *)

Lemma bytes_eqb_false_iff : forall a b, bytes_eqb a b = false <-> a <> b.
Proof.
  intros a b. split.
  - intros H E. apply bytes_eqb_spec in E. congruence.
  - intros H. destruct (bytes_eqb a b) eqn:E; auto. apply bytes_eqb_spec in E. contradiction.
Qed.

Lemma existsb_eqb_false : forall (n : name) l, ~ In n l -> existsb (bytes_eqb n) l = false.
Proof.
  intros n l. induction l as [|x l IH]; cbn; intros H; auto.
  apply orb_false_iff. split.
  - apply bytes_eqb_false_iff. intros E. apply H. left. congruence.
  - apply IH. intros H'. apply H. right. exact H'.
Qed.

Lemma lookup_in : forall p n t, lookup_ty p n = Some t -> In t p /\ t_name t = n.
Proof.
  induction p as [|x p IH]; cbn; intros n t H; [discriminate|].
  destruct (bytes_eqb (t_name x) n) eqn:E.
  - inversion H; subst. split; [left; reflexivity | apply bytes_eqb_spec; exact E].
  - apply IH in H. tauto.
Qed.

Lemma lookup_nodup : forall p t, NoDup (map t_name p) -> In t p -> lookup_ty p (t_name t) = Some t.
Proof.
  induction p as [|x p IH]; cbn; intros t ND HI; [contradiction|].
  inversion ND as [|? ? Hn ND']; subst.
  destruct HI as [->|HI].
  - rewrite bytes_eqb_refl. reflexivity.
  - destruct (bytes_eqb (t_name x) (t_name t)) eqn:E.
    + apply bytes_eqb_spec in E. exfalso. apply Hn. rewrite E. apply in_map. exact HI.
    + apply IH; assumption.
Qed.

Lemma lookup_none : forall p n, ~ In n (map t_name p) -> lookup_ty p n = None.
Proof.
  induction p as [|x p IH]; cbn; intros n H; auto.
  destruct (bytes_eqb (t_name x) n) eqn:E.
  - apply bytes_eqb_spec in E. exfalso. apply H. left. exact E.
  - apply IH. intros H'. apply H. right. exact H'.
Qed.

(* ---------------------------------------------------------------------------------------- *)
(* the generator's output, in closed form                                                    *)

Definition item_of (fd fs : bool) (p : package) (t : tydesc) : list item :=
  if covered t then
    match method_of fd fs p t with Some m => [IMethod (t_name t) m] | None => [] end
  else [].

Definition body_of (fd fs : bool) (p : package) (l : list tydesc) : list item :=
  flat_map (item_of fd fs p) l.

Lemma covered_struct_method : forall fd fs p t,
  covered t = true -> exists m, method_of fd fs p t = Some m.
Proof.
  intros fd fs p t H. unfold covered in H. unfold method_of.
  destruct (t_kind t) as [fields| |].
  - apply andb_true_iff in H. destruct H as [_ H]. rewrite H. cbn. eauto.
  - apply andb_true_iff in H. destruct H as [_ H]. discriminate.
  - eauto.
Qed.

(* one step of doGenerate on a type whose name has not been processed yet *)
Lemma step_body : forall fd fs p t st,
  ~ In (t_name t) (gs_processed st) ->
  let st' := if t_enabled t then GenerateType fd fs p t st else st in
  gs_body st' = gs_body st ++ item_of fd fs p t
  /\ gs_helper st' = gs_helper st
  /\ (forall n, In n (gs_processed st') -> n = t_name t \/ In n (gs_processed st))
  /\ ((gs_body st = [] <-> gs_defers st = 0) -> (gs_body st' = [] <-> gs_defers st' = 0)).
Proof.
  intros fd fs p t st Hnp. cbn zeta.
  assert (Skip : gs_body st = gs_body st ++ [] /\ gs_helper st = gs_helper st
     /\ (forall n, In n (gs_processed st) -> n = t_name t \/ In n (gs_processed st))
     /\ ((gs_body st = [] <-> gs_defers st = 0) -> (gs_body st = [] <-> gs_defers st = 0))).
  { rewrite app_nil_r. repeat split; auto; tauto. }
  assert (Emit : forall m,
     let st1 := emit (mark st (t_name t)) (IMethod (t_name t) m) in
     let st' := match gs_body st1 with
                | [] => st1
                | _ :: _ => mk_gs (gs_processed st1) (gs_body st1) (S (gs_defers st1)) (gs_helper st1)
                end in
     gs_body st' = gs_body st ++ [IMethod (t_name t) m] /\ gs_helper st' = gs_helper st
     /\ (forall n, In n (gs_processed st') -> n = t_name t \/ In n (gs_processed st))
     /\ ((gs_body st = [] <-> gs_defers st = 0) -> (gs_body st' = [] <-> gs_defers st' = 0))).
  { intros m. cbn zeta. unfold emit, mark. cbn [gs_body gs_processed gs_defers gs_helper].
    destruct (gs_body st ++ [IMethod (t_name t) m]) eqn:B.
    - exfalso. apply app_eq_nil in B. destruct B as [_ B]. discriminate.
    - cbn [gs_body gs_helper gs_processed gs_defers].
      split; [reflexivity|]. split; [reflexivity|]. split.
      + intros n [E|H]; [left; symmetry; exact E | right; exact H].
      + intros _. split; intros H; discriminate. }
  unfold item_of, covered.
  destruct (t_enabled t); cbn [andb]; [|exact Skip].
  unfold GenerateType.
  destruct (t_kind t) as [fields| |] eqn:K.
  - (* struct *)
    destruct (t_exported t); cbn [negb andb]; [|exact Skip].
    unfold generate_type. rewrite (existsb_eqb_false _ _ Hnp).
    unfold method_of. rewrite K.
    destruct (has_expose fields); cbn [negb].
    + apply Emit.
    + unfold mark. cbn [gs_body gs_processed gs_defers gs_helper].
      destruct (gs_body st) eqn:B; cbn [gs_body gs_helper gs_processed gs_defers]; rewrite ?app_nil_r.
      * split; [reflexivity|]. split; [reflexivity|]. split.
        -- intros n [E|H]; [left; symmetry; exact E | right; exact H].
        -- intros H. split; intros _; [apply H; reflexivity | reflexivity].
      * split; [reflexivity|]. split; [reflexivity|]. split.
        -- intros n [E|H]; [left; symmetry; exact E | right; exact H].
        -- intros _. split; intros H; discriminate.
  - (* interface *)
    rewrite andb_false_r. exact Skip.
  - (* other *)
    destruct (t_exported t); cbn [negb andb]; [|exact Skip].
    unfold generate_type. rewrite (existsb_eqb_false _ _ Hnp).
    unfold method_of. rewrite K. apply Emit.
Qed.

Lemma fold_body : forall fd fs p l st,
  NoDup (map t_name l) ->
  (forall t, In t l -> ~ In (t_name t) (gs_processed st)) ->
  let st' := fold_left (fun st t => if t_enabled t then GenerateType fd fs p t st else st) l st in
  gs_body st' = gs_body st ++ body_of fd fs p l
  /\ gs_helper st' = gs_helper st
  /\ ((gs_body st = [] <-> gs_defers st = 0) -> (gs_body st' = [] <-> gs_defers st' = 0)).
Proof.
  intros fd fs p l. induction l as [|t l IH]; intros st ND Hnp; cbn zeta.
  - cbn. rewrite app_nil_r. tauto.
  - cbn [fold_left body_of flat_map].
    inversion ND as [|? ? Hn ND']; subst.
    destruct (step_body fd fs p t st (Hnp t (or_introl eq_refl))) as (B & Hh & P & D).
    cbn zeta in B, Hh, P, D.
    specialize (IH (if t_enabled t then GenerateType fd fs p t st else st) ND').
    cbn zeta in IH.
    destruct IH as (B' & Hh' & D').
    + intros u Hu Hin. apply P in Hin. destruct Hin as [E|Hin].
      * apply Hn. rewrite <- E. apply in_map. exact Hu.
      * apply (Hnp u (or_intror Hu)). exact Hin.
    + split; [rewrite B', B, <- app_assoc; reflexivity|].
      split; [rewrite Hh', Hh; reflexivity|].
      intros X. apply D'. apply D. exact X.
Qed.

Lemma run_defers_helper : forall n st,
  gs_helper st = false ->
  gs_body (run_defers n st) = gs_body st ++ (match n with O => [] | S _ => [IHelper] end).
Proof.
  intros n. destruct n as [|n]; intros st H; cbn.
  - rewrite app_nil_r. reflexivity.
  - unfold create_helper_once. rewrite H.
    assert (G : forall k st', gs_helper st' = true -> gs_body (run_defers k st') = gs_body st').
    { induction k as [|k IHk]; intros st' H'; cbn; auto.
      unfold create_helper_once. rewrite H'. apply IHk. exact H'. }
    rewrite G; reflexivity.
Qed.

Theorem gen_closed_form : forall fd fs p,
  NoDup (map t_name p) ->
  gen fd fs p = body_of fd fs p p ++ (match body_of fd fs p p with [] => [] | _ :: _ => [IHelper] end).
Proof.
  intros fd fs p ND. unfold gen, do_generate.
  destruct (fold_body fd fs p p gs_init ND) as (B & Hh & D).
  { intros t _ H. exact H. }
  cbn zeta in B, Hh, D. cbn [gs_init gs_body gs_helper gs_defers app] in B, Hh, D.
  rewrite run_defers_helper by exact Hh.
  rewrite B. f_equal.
  specialize (D (conj (fun _ => eq_refl) (fun _ => eq_refl))).
  rewrite B in D.
  destruct (body_of fd fs p p) eqn:E.
  - destruct D as [D _]. rewrite (D eq_refl). reflexivity.
  - destruct (gs_defers _) eqn:G; auto.
    destruct D as [_ D]. specialize (D eq_refl). discriminate.
Qed.

(* ---------------------------------------------------------------------------------------- *)
(* which methods exist                                                                      *)

Lemma find_method_app_helper : forall l t tail,
  (forall n m, ~ In (IMethod n m) tail) ->
  find_method (l ++ tail) t = find_method l t.
Proof.
  induction l as [|i l IH]; intros t tail H.
  - cbn. induction tail as [|x tail IHt]; cbn; auto.
    destruct x as [n m|].
    + exfalso. apply (H n m). left. reflexivity.
    + apply IHt. intros n m Hin. apply (H n m). right. exact Hin.
  - cbn. destruct i as [n m|].
    + destruct (bytes_eqb n t); auto.
    + apply IH. exact H.
Qed.

Lemma find_method_body_notin : forall fd fs p l n,
  ~ In n (map t_name l) -> find_method (body_of fd fs p l) n = None.
Proof.
  intros fd fs p l n. induction l as [|t l IH]; cbn; intros H; auto.
  unfold item_of. destruct (covered t); [destruct (method_of fd fs p t)|]; cbn.
  - destruct (bytes_eqb (t_name t) n) eqn:E.
    + apply bytes_eqb_spec in E. exfalso. apply H. left. exact E.
    + apply IH. intros H'. apply H. right. exact H'.
  - apply IH. intros H'. apply H. right. exact H'.
  - apply IH. intros H'. apply H. right. exact H'.
Qed.

Lemma find_method_body : forall fd fs p l n,
  NoDup (map t_name l) ->
  find_method (body_of fd fs p l) n =
    match lookup_ty l n with
    | Some t => if covered t then method_of fd fs p t else None
    | None => None
    end.
Proof.
  intros fd fs p l n. induction l as [|t l IH]; cbn; intros ND; auto.
  inversion ND as [|? ? Hn ND']; subst.
  unfold item_of.
  destruct (bytes_eqb (t_name t) n) eqn:E.
  - apply bytes_eqb_spec in E. subst n.
    destruct (covered t) eqn:C.
    + destruct (covered_struct_method fd fs p t C) as [m Hm]. rewrite Hm. cbn.
      rewrite bytes_eqb_refl. reflexivity.
    + cbn. apply find_method_body_notin. exact Hn.
  - destruct (covered t); [destruct (method_of fd fs p t)|]; cbn; try rewrite E; apply IH; exact ND'.
Qed.

Theorem find_method_gen : forall fd fs p n,
  NoDup (map t_name p) ->
  find_method (gen fd fs p) n =
    match lookup_ty p n with
    | Some t => if covered t then method_of fd fs p t else None
    | None => None
    end.
Proof.
  intros fd fs p n ND. rewrite gen_closed_form by exact ND.
  rewrite find_method_app_helper.
  - apply find_method_body. exact ND.
  - intros k m H. destruct (body_of fd fs p p); cbn in H; [contradiction|].
    destruct H as [H|[]]. discriminate.
Qed.

(* ---------------------------------------------------------------------------------------- *)
(* the helper                                                                               *)

Fixpoint count_helper (e : ir) : nat :=
  match e with [] => 0 | IHelper :: r => S (count_helper r) | _ :: r => count_helper r end.

Fixpoint count_methods (e : ir) : nat :=
  match e with [] => 0 | IMethod _ _ :: r => S (count_methods r) | _ :: r => count_methods r end.

Lemma count_helper_app : forall a b, count_helper (a ++ b) = count_helper a + count_helper b.
Proof. induction a as [|x a IH]; intros b; cbn; auto. destruct x; cbn; rewrite IH; reflexivity. Qed.

Lemma count_methods_app : forall a b, count_methods (a ++ b) = count_methods a + count_methods b.
Proof. induction a as [|x a IH]; intros b; cbn; auto. destruct x; cbn; rewrite IH; reflexivity. Qed.

Lemma body_no_helper : forall fd fs p l, count_helper (body_of fd fs p l) = 0.
Proof.
  intros fd fs p l. unfold body_of. induction l as [|t l IH]; cbn [flat_map]; auto.
  rewrite count_helper_app, IH. unfold item_of.
  destruct (covered t); [destruct (method_of fd fs p t)|]; reflexivity.
Qed.

Lemma body_all_methods : forall fd fs p l, count_methods (body_of fd fs p l) = length (body_of fd fs p l).
Proof.
  intros fd fs p l. unfold body_of. induction l as [|t l IH]; cbn [flat_map]; auto.
  rewrite count_methods_app, app_length, IH. unfold item_of.
  destruct (covered t); [destruct (method_of fd fs p t)|]; reflexivity.
Qed.

Lemma body_len_zero : forall fd fs p l,
  length (body_of fd fs p l) = 0 <-> existsb covered l = false.
Proof.
  intros fd fs p l. unfold body_of. induction l as [|t l IH]; cbn [flat_map existsb].
  - cbn. tauto.
  - rewrite app_length. unfold item_of.
    destruct (covered t) eqn:C; cbn [orb].
    + destruct (covered_struct_method fd fs p t C) as [m Hm]. rewrite Hm. cbn. split; discriminate.
    + cbn. exact IH.
Qed.

Theorem helper_once : forall fd fs p,
  NoDup (map t_name p) ->
  count_helper (gen fd fs p) = (if Nat.eqb (count_methods (gen fd fs p)) 0 then 0 else 1)
  /\ (count_methods (gen fd fs p) = 0 <-> existsb covered p = false)
  /\ (forall a b, gen fd fs p = a ++ IHelper :: b -> b = []).
Proof.
  intros fd fs p ND. rewrite gen_closed_form by exact ND.
  rewrite count_helper_app, count_methods_app, body_no_helper, body_all_methods.
  split; [|split].
  - destruct (body_of fd fs p p); cbn; auto.
  - pose proof (body_len_zero fd fs p p) as L.
    destruct (body_of fd fs p p) eqn:E.
    + cbn in *. exact L.
    + cbn [length] in L. cbn [length count_methods].
      split; intros X; [lia | apply L in X; discriminate].
  - intros a b H.
    assert (NH : forall l a b, body_of fd fs p l = a ++ IHelper :: b -> False).
    { intros l a' b' H'. pose proof (body_no_helper fd fs p l) as Z. rewrite H' in Z.
      rewrite count_helper_app in Z. cbn in Z. lia. }
    destruct (body_of fd fs p p) eqn:E.
    + cbn in H. destruct a; discriminate.
    + rewrite <- E in H.
      destruct b as [|x b]; auto. exfalso.
      (* IHelper followed by something: the something would be inside the trailing [IHelper] *)
      assert (Hl : length (body_of fd fs p p ++ [IHelper]) = length (a ++ IHelper :: x :: b)) by (rewrite H; reflexivity).
      rewrite !app_length in Hl. cbn in Hl.
      assert (Hc : body_of fd fs p p = (a ++ [IHelper]) ++ removelast (x :: b)).
      { apply (f_equal (@removelast item)) in H.
        rewrite removelast_app in H by discriminate. cbn [removelast] in H. rewrite app_nil_r in H.
        rewrite H. rewrite removelast_app by discriminate.
        change (IHelper :: x :: b) with ([IHelper] ++ x :: b).
        rewrite removelast_app by discriminate. rewrite app_assoc. reflexivity. }
      rewrite <- app_assoc in Hc. cbn in Hc. exact (NH _ _ _ Hc).
Qed.

(* ---------------------------------------------------------------------------------------- *)
(* shape of a generated struct method: cases and delegations mirror the fields, in order     *)

Lemma cases_shape : forall fd fs,
  filter_map (case_of fd) fs =
  map (fun f => (f_name f, ctx_doc fd (f_name f) (f_doc f))) (filter listed fs).
Proof.
  intros fd fs. induction fs as [|f fs IH]; cbn [filter_map filter map]; auto.
  unfold case_of at 1. unfold listed at 1.
  destruct (f_exported f); cbn [negb andb]; auto.
  destruct (f_kind f) as [c|ptr tg]; [destruct c|]; cbn [map]; rewrite ?IH; auto.
Qed.

Lemma embeds_shape : forall fd p fs,
  filter_map (embed_of fd p) fs =
  map (fun f => mk_embed (f_name f)
                  (match f_kind f with FEmbedded ptr _ => ptr | _ => false end)
                  (first_line (ctx_doc fd (f_name f) (f_doc f))))
      (filter (delegating p) fs).
Proof.
  intros fd p fs. induction fs as [|f fs IH]; cbn [filter_map filter map]; auto.
  unfold embed_of at 1. unfold delegating at 1. destruct (f_kind f) as [c|ptr tg] eqn:K; auto.
  destruct (negb ptr && struct_without_exposed p f tg); cbn [negb map]; rewrite IH; auto.
  rewrite K. reflexivity.
Qed.

Lemma assoc_cases : forall fd n fs,
  assoc n (filter_map (case_of fd) fs) =
  option_map (fun f => ctx_doc fd (f_name f) (f_doc f)) (find_listed n fs).
Proof.
  intros fd n fs. induction fs as [|f fs IH]; cbn [filter_map find_listed]; auto.
  unfold case_of at 1. unfold listed at 1.
  destruct (f_exported f); cbn [negb andb]; auto.
  destruct (f_kind f) as [c|ptr tg]; [destruct c|]; cbn [assoc]; auto.
  destruct (bytes_eqb (f_name f) n); cbn [option_map]; auto.
Qed.

Lemma eval_parse_embed : forall files d,
  (forall l, In l d -> re_embed l = None) -> eval_doc files (parse_embed d) = d.
Proof.
  intros files d. induction d as [|l d IH]; cbn; intros H; auto.
  rewrite (H l (or_introl eq_refl)). cbn. f_equal. apply IH. intros l' Hl. apply H. right. exact Hl.
Qed.

(* ---------------------------------------------------------------------------------------- *)
(* unfolding the run of a struct method                                                      *)

Fixpoint deleg_ir (call : embed_ir -> outcome) (es : list embed_ir) : outcome :=
  match es with
  | [] => Ok None
  | em :: es' =>
      match call em with
      | Ok (Some d) => Ok (Some (patch (e_prefix em) d))
      | Ok None => deleg_ir call es'
      | Panic => Panic
      | OutOfFuel => OutOfFuel
      end
  end.

Lemma run_nil_eq : forall files e t names, run files e RNil t names = run_nil files e t names.
Proof. reflexivity. Qed.

Lemma find_kid : forall files e n names kids,
  (fix find (ks : list (name * rv)) : outcome :=
     match ks with
     | [] => run_nil files e n names
     | (k, sv) :: ks' => if bytes_eqb k n then run files e sv n names else find ks'
     end) kids = run files e (kid kids n) n names.
Proof.
  intros files e n names kids. unfold kid.
  induction kids as [|[k sv] ks IHk].
  - reflexivity.
  - cbn [assoc]. destruct (bytes_eqb k n).
    + reflexivity.
    + exact IHk.
Qed.

Lemma run_node : forall files e kids t names,
  run files e (RNode kids) t names =
  match find_method e t with
  | None => Ok None
  | Some (Simple g doc) =>
      if g then match names with [] => Ok (Some doc) | _ :: _ => Ok None end else Ok (Some doc)
  | Some (StructDoc doc cases embeds) =>
      match names with
      | [] => Ok (Some (eval_doc files doc))
      | n0 :: _ =>
          match assoc n0 cases with
          | Some d => Ok (Some d)
          | None => deleg_ir (fun em => run files e (kid kids (e_name em)) (e_name em) names) embeds
          end
      end
  end.
Proof.
  intros files e kids t names. cbn [run].
  destruct (find_method e t) as [[g doc|doc cases embeds]|]; auto.
  destruct names as [|n0 rest]; auto.
  destruct (assoc n0 cases); auto.
  induction embeds as [|em es IH]; cbn [deleg_ir]; auto.
  pose proof (find_kid files e (e_name em) (n0 :: rest) kids) as F. cbn beta in F.
  rewrite F. rewrite IH. reflexivity.
Qed.

(* ---------------------------------------------------------------------------------------- *)
(* the closed form: run = rd_spec on receivers without a nil pointer in front of delegations  *)

Fixpoint each_field (p : package) (kids : list (name * rv)) (fs : list field) : bool :=
  match fs with
  | [] => false
  | f :: fs' => (if delegating p f then nil_chain p (f_name f) (kid kids (f_name f)) else false) || each_field p kids fs'
  end.

Lemma nil_find_kid : forall p n kids,
  (fix find (ks : list (name * rv)) : bool :=
     match ks with
     | [] => has_delegations p n
     | (k, sv) :: ks' => if bytes_eqb k n then nil_chain p n sv else find ks'
     end) kids = nil_chain p n (kid kids n).
Proof.
  intros p n kids. unfold kid.
  induction kids as [|[k sv] ks IHk].
  - reflexivity.
  - cbn [assoc]. destruct (bytes_eqb k n).
    + reflexivity.
    + exact IHk.
Qed.

Lemma nil_chain_node : forall p tn kids,
  nil_chain p tn (RNode kids) =
  match lookup_ty p tn with
  | Some t => match t_kind t with TStruct fs => each_field p kids fs | _ => false end
  | None => false
  end.
Proof.
  intros p tn kids. cbn [nil_chain].
  destruct (lookup_ty p tn) as [t|]; auto.
  destruct (t_kind t) as [fs| |]; auto.
  induction fs as [|f fs IH]; cbn [each_field]; auto.
  rewrite IH. f_equal.
  destruct (delegating p f); auto.
  apply nil_find_kid.
Qed.

Definition ranked (p : package) (rank : name -> nat) : Prop :=
  forall t fs f, In t p -> t_kind t = TStruct fs -> In f fs -> delegating p f = true ->
                 rank (f_name f) < rank (t_name t).


(* ---------------------------------------------------------------------------------------- *)
(* the theorems                                                                             *)

Lemma no_ref_lines : forall p t fs,
  lookup_ty p (t_name t) = Some t -> t_kind t = TStruct fs -> has_embed_ref p (t_name t) = false ->
  forall l, In l (doc_of (t_name t) (t_doc t)) -> re_embed l = None.
Proof.
  intros p t fs L K H l Hl. unfold has_embed_ref in H. rewrite L, K in H.
  destruct (re_embed l) eqn:E; auto. exfalso.
  assert (X : existsb (fun l => match re_embed l with Some _ => true | None => false end)
                      (doc_of (t_name t) (t_doc t)) = true).
  { apply existsb_exists. exists l. rewrite E. auto. }
  congruence.
Qed.

Lemma covered_struct_expose : forall t fs, covered t = true -> t_kind t = TStruct fs -> has_expose fs = true.
Proof.
  intros t fs C K. unfold covered in C. rewrite K in C. apply andb_true_iff in C. tauto.
Qed.

Lemma covered_not_iface : forall t, covered t = true -> t_kind t <> TInterface.
Proof.
  intros t C K. unfold covered in C. rewrite K in C. rewrite andb_false_r in C. discriminate.
Qed.

(* the method generated for a covered type *)
Lemma method_covered : forall fd fs p t,
  NoDup (map t_name p) -> In t p -> covered t = true ->
  find_method (gen fd fs p) (t_name t) = method_of fd fs p t.
Proof.
  intros fd fs p t ND HI C. rewrite find_method_gen by exact ND.
  rewrite (lookup_nodup p t ND HI), C. reflexivity.
Qed.

Theorem run_types : forall files p t v,
  NoDup (map t_name p) -> In t p -> covered t = true -> has_embed_ref p (t_name t) = false ->
  run files (gen true true p) v (t_name t) [] = Ok (Some (doc_of (t_name t) (t_doc t))).
Proof.
  intros files p t v ND HI C R.
  pose proof (method_covered true true p t ND HI C) as M.
  pose proof (lookup_nodup p t ND HI) as L.
  assert (G : match method_of true true p t with
              | Some (Simple _ doc) => doc = doc_of (t_name t) (t_doc t)
              | Some (StructDoc doc _ _) => eval_doc files doc = doc_of (t_name t) (t_doc t)
              | None => False
              end).
  { unfold method_of. destruct (t_kind t) as [fields| |] eqn:K.
    - rewrite (covered_struct_expose t fields C K). cbn [negb].
      apply eval_parse_embed. exact (no_ref_lines p t fields L K R).
    - reflexivity.
    - reflexivity. }
  destruct v as [|kids].
  - rewrite run_nil_eq. unfold run_nil. rewrite M.
    destruct (method_of true true p t) as [[g doc|doc cases embeds]|]; try contradiction.
    + rewrite G. destruct g; reflexivity.
    + rewrite G. reflexivity.
  - rewrite run_node, M.
    destruct (method_of true true p t) as [[g doc|doc cases embeds]|]; try contradiction.
    + rewrite G. destruct g; reflexivity.
    + rewrite G. reflexivity.
Qed.

Lemma find_listed_some : forall n fs f,
  find_listed n fs = Some f -> In f fs /\ listed f = true /\ f_name f = n.
Proof.
  intros n fs. induction fs as [|g fs IH]; cbn; intros f H; [discriminate|].
  destruct (listed g && bytes_eqb (f_name g) n) eqn:E.
  - inversion H; subst. apply andb_true_iff in E. destruct E as [E1 E2].
    apply bytes_eqb_spec in E2. auto.
  - apply IH in H. tauto.
Qed.

Lemma find_listed_in : forall fs f,
  NoDup (map f_name (filter listed fs)) -> In f fs -> listed f = true ->
  find_listed (f_name f) fs = Some f.
Proof.
  induction fs as [|g fs IH]; cbn [filter find_listed In]; intros f ND HI Lf; [contradiction|].
  destruct (listed g) eqn:Lg; cbn [andb].
  - cbn [map] in ND. inversion ND as [|? ? Hn ND']; subst.
    destruct HI as [->|HI].
    + rewrite bytes_eqb_refl. reflexivity.
    + destruct (bytes_eqb (f_name g) (f_name f)) eqn:E.
      * apply bytes_eqb_spec in E. exfalso. apply Hn. rewrite E.
        apply in_map. apply filter_In. auto.
      * apply IH; auto.
  - destruct HI as [->|HI]; [congruence|]. apply IH; auto.
Qed.

Theorem run_fields : forall files p t fs f v n rest,
  NoDup (map t_name p) -> In t p -> covered t = true -> t_kind t = TStruct fs ->
  find_listed n fs = Some f ->
  run files (gen true true p) v (t_name t) (n :: rest) = Ok (Some (doc_of (f_name f) (f_doc f))).
Proof.
  intros files p t fs f v n rest ND HI C K F.
  pose proof (method_covered true true p t ND HI C) as M.
  unfold method_of in M. rewrite K, (covered_struct_expose t fs C K) in M. cbn [negb] in M.
  assert (A : assoc n (filter_map (case_of true) fs) = Some (doc_of (f_name f) (f_doc f))).
  { rewrite assoc_cases, F. reflexivity. }
  destruct v as [|kids].
  - rewrite run_nil_eq. unfold run_nil. rewrite M, A. reflexivity.
  - rewrite run_node, M, A. reflexivity.
Qed.

Theorem run_other_kind : forall files p t v n rest,
  NoDup (map t_name p) -> In t p -> covered t = true -> t_kind t = TOther ->
  run files (gen true true p) v (t_name t) (n :: rest) = Ok None.
Proof.
  intros files p t v n rest ND HI C K.
  pose proof (method_covered true true p t ND HI C) as M.
  unfold method_of in M. rewrite K in M.
  destruct v as [|kids].
  - rewrite run_nil_eq. unfold run_nil. rewrite M. reflexivity.
  - rewrite run_node, M. reflexivity.
Qed.

Theorem no_method : forall fd fs p n,
  NoDup (map t_name p) ->
  (forall t, lookup_ty p n = Some t -> covered t = false) ->
  find_method (gen fd fs p) n = None.
Proof.
  intros fd fs p n ND H. rewrite find_method_gen by exact ND.
  destruct (lookup_ty p n) as [t|]; auto. rewrite (H t eq_refl). reflexivity.
Qed.

Lemma deleg_shape : forall p (call : name -> outcome) fs,
  deleg_ir (fun em => call (e_name em))
    (map (fun f => mk_embed (f_name f)
                     (match f_kind f with FEmbedded ptr _ => ptr | _ => false end)
                     (first_line (ctx_doc true (f_name f) (f_doc f))))
         (filter (delegating p) fs))
  = deleg_fields p (fun f => call (f_name f)) fs.
Proof.
  intros p call fs. induction fs as [|f fs IH]; cbn [filter map deleg_ir deleg_fields]; auto.
  destruct (delegating p f); cbn [map deleg_ir e_name e_prefix]; auto.
  rewrite IH. reflexivity.
Qed.

Theorem run_delegation : forall files p t fs kids n rest,
  NoDup (map t_name p) -> In t p -> covered t = true -> t_kind t = TStruct fs ->
  find_listed n fs = None ->
  run files (gen true true p) (RNode kids) (t_name t) (n :: rest) =
  deleg_fields p (fun f => run files (gen true true p) (kid kids (f_name f)) (f_name f) (n :: rest)) fs.
Proof.
  intros files p t fs kids n rest ND HI C K F.
  pose proof (method_covered true true p t ND HI C) as M.
  unfold method_of in M. rewrite K, (covered_struct_expose t fs C K) in M. cbn [negb] in M.
  rewrite run_node, M. rewrite assoc_cases, F. cbn [option_map].
  rewrite embeds_shape.
  exact (deleg_shape p (fun m => run files (gen true true p) (kid kids m) m (n :: rest)) fs).
Qed.

(* on a nil receiver the same query panics as soon as the method has a delegation *)
Theorem run_nil_delegation : forall files p t fs n rest,
  NoDup (map t_name p) -> In t p -> covered t = true -> t_kind t = TStruct fs ->
  find_listed n fs = None ->
  run files (gen true true p) RNil (t_name t) (n :: rest) =
  if existsb (delegating p) fs then Panic else Ok None.
Proof.
  intros files p t fs n rest ND HI C K F.
  pose proof (method_covered true true p t ND HI C) as M.
  unfold method_of in M. rewrite K, (covered_struct_expose t fs C K) in M. cbn [negb] in M.
  rewrite run_nil_eq. unfold run_nil. rewrite M, assoc_cases, F. cbn [option_map].
  rewrite embeds_shape. clear K M F.
  induction fs as [|f fs' IH]; cbn [filter map existsb]; auto.
  destruct (delegating p f); cbn [map orb]; auto.
Qed.

(* ---- closed form ---- *)

Lemma filter_none : forall {A} (f : A -> bool) l, existsb f l = false -> filter f l = [].
Proof.
  intros A f l. induction l as [|x l IH]; cbn; auto.
  destruct (f x); cbn; [discriminate|]. exact IH.
Qed.

Lemma first_some_no_deleg : forall p (g : field -> option (list line)) fs,
  existsb (delegating p) fs = false ->
  first_some (fun f => if delegating p f then g f else None) fs = None.
Proof.
  intros p g fs. induction fs as [|f fs IH]; cbn; auto.
  destruct (delegating p f); cbn; [discriminate|]. exact IH.
Qed.

Theorem run_spec : forall files p rank,
  NoDup (map t_name p) -> ranked p rank ->
  forall k tn v names,
    rank tn < k -> nil_chain p tn v = false ->
    (names = [] -> has_embed_ref p tn = false) ->
    run files (gen true true p) v tn names = Ok (rd_spec k p tn names).
Proof.
  intros files p rank ND RK. induction k as [|k IH]; intros tn v names Hr Hn Hg; [lia|].
  cbn [rd_spec].
  assert (FM := find_method_gen true true p tn ND).
  destruct (lookup_ty p tn) as [t|] eqn:L.
  2:{ destruct v as [|kids]; [rewrite run_nil_eq; unfold run_nil | rewrite run_node]; rewrite FM; reflexivity. }
  destruct (lookup_in p tn t L) as [HI Hname]. subst tn.
  destruct (covered t) eqn:C; cbn [negb].
  2:{ destruct v as [|kids]; [rewrite run_nil_eq; unfold run_nil | rewrite run_node]; rewrite FM; reflexivity. }
  unfold method_of in FM.
  destruct (t_kind t) as [fs| |] eqn:K.
  - (* struct *)
    rewrite (covered_struct_expose t fs C K) in FM. cbn [negb] in FM.
    assert (D0 : names = [] ->
                 eval_doc files (parse_embed (ctx_doc true (t_name t) (t_doc t))) = doc_of (t_name t) (t_doc t)).
    { intros E. apply eval_parse_embed. exact (no_ref_lines p t fs L K (Hg E)). }
    destruct v as [|kids].
    + rewrite run_nil_eq. unfold run_nil. rewrite FM.
      destruct names as [|n0 rest]; [rewrite D0; reflexivity|].
      rewrite assoc_cases. destruct (find_listed n0 fs) as [f|]; cbn [option_map]; [reflexivity|].
      cbn [nil_chain] in Hn. unfold has_delegations in Hn. rewrite L, C, K in Hn. cbn [andb] in Hn.
      rewrite embeds_shape, (filter_none _ _ Hn). cbn [map].
      rewrite first_some_no_deleg by exact Hn. reflexivity.
    + rewrite run_node, FM.
      destruct names as [|n0 rest]; [rewrite D0; reflexivity|].
      rewrite assoc_cases. destruct (find_listed n0 fs) as [f|]; cbn [option_map]; [reflexivity|].
      rewrite embeds_shape.
      rewrite (deleg_shape p (fun m => run files (gen true true p) (kid kids m) m (n0 :: rest)) fs).
      rewrite nil_chain_node, L, K in Hn.
      assert (Sub : forall fs', (forall f, In f fs' -> In f fs) -> each_field p kids fs' = false ->
                deleg_fields p (fun f => run files (gen true true p) (kid kids (f_name f)) (f_name f) (n0 :: rest)) fs'
                = Ok (first_some (fun f => if delegating p f
                                           then option_map (patch (first_line (doc_of (f_name f) (f_doc f))))
                                                           (rd_spec k p (f_name f) (n0 :: rest))
                                           else None) fs')).
      { induction fs' as [|f fs' IHf]; intros Hsub He; cbn [deleg_fields first_some]; auto.
        cbn [each_field] in He. apply orb_false_iff in He. destruct He as [He1 He2].
        assert (Hsub' : forall g, In g fs' -> In g fs) by (intros g Hg'; apply Hsub; right; exact Hg').
        destruct (delegating p f) eqn:Df.
        - assert (Rf : rank (f_name f) < k).
          { pose proof (RK t fs f HI K (Hsub f (or_introl eq_refl)) Df). lia. }
          rewrite (IH (f_name f) (kid kids (f_name f)) (n0 :: rest) Rf He1) by (intros X; discriminate).
          destruct (rd_spec k p (f_name f) (n0 :: rest)); cbn [option_map]; auto.
        - auto. }
      apply Sub; auto.
  - exfalso. exact (covered_not_iface t C K).
  - destruct v as [|kids]; [rewrite run_nil_eq; unfold run_nil | rewrite run_node]; rewrite FM;
      destruct names; reflexivity.
Qed.

(* ---------------------------------------------------------------------------------------- *)
(* the IR carries the documentation lines verbatim, in field order                           *)

Theorem ir_shape_struct : forall p t fs,
  NoDup (map t_name p) -> In t p -> covered t = true -> t_kind t = TStruct fs ->
  find_method (gen true true p) (t_name t) =
  Some (StructDoc (parse_embed (doc_of (t_name t) (t_doc t)))
                  (map (fun f => (f_name f, doc_of (f_name f) (f_doc f))) (filter listed fs))
                  (map (fun f => mk_embed (f_name f)
                                   (match f_kind f with FEmbedded ptr _ => ptr | _ => false end)
                                   (first_line (doc_of (f_name f) (f_doc f))))
                       (filter (delegating p) fs))).
Proof.
  intros p t fs ND HI C K. rewrite (method_covered true true p t ND HI C).
  unfold method_of. rewrite K, (covered_struct_expose t fs C K). cbn [negb].
  rewrite cases_shape, embeds_shape. reflexivity.
Qed.

Theorem ir_shape_other : forall p t,
  NoDup (map t_name p) -> In t p -> covered t = true -> t_kind t = TOther ->
  find_method (gen true true p) (t_name t) = Some (Simple true (doc_of (t_name t) (t_doc t))).
Proof.
  intros p t ND HI C K. rewrite (method_covered true true p t ND HI C).
  unfold method_of. rewrite K. reflexivity.
Qed.

Lemma parse_embed_lit : forall d, (forall l, In l d -> re_embed l = None) -> parse_embed d = map DLit d.
Proof.
  induction d as [|l d IH]; cbn; intros H; auto.
  rewrite (H l (or_introl eq_refl)). f_equal. apply IH. intros x Hx. apply H. right. exact Hx.
Qed.

(* ---------------------------------------------------------------------------------------- *)
(* what doc_of does to the lines it is given                                                 *)

(* every line but the first is passed through untouched; the first yields at most one line *)
Theorem doc_of_tail : forall n l0 rest,
  doc_of n (l0 :: rest) = rest \/ exists l0', l0' <> [] /\ doc_of n (l0 :: rest) = l0' :: rest.
Proof.
  intros n l0 rest. unfold doc_of, ctx_doc.
  destruct (cut_prefix n l0) as [[|c r]|].
  - left. reflexivity.
  - destruct (Ascii.eqb c sp).
    + destruct (trim_space (c :: r)) eqn:E; [left; reflexivity|].
      right. eexists. split; [|reflexivity]. discriminate.
    + destruct l0; [left; reflexivity|]. right. eexists. split; [|reflexivity]. discriminate.
  - destruct l0; [left; reflexivity|]. right. eexists. split; [|reflexivity]. discriminate.
Qed.

Lemma cut_prefix_app : forall n r, cut_prefix n (n ++ r) = Some r.
Proof. induction n as [|a n IH]; intros r; cbn; auto. rewrite Ascii.eqb_refl. apply IH. Qed.

Lemma cut_prefix_some : forall n s r, cut_prefix n s = Some r -> s = n ++ r.
Proof.
  induction n as [|a n IH]; intros s r; cbn.
  - intros H. inversion H. reflexivity.
  - destruct s as [|b s]; [discriminate|]. destruct (Ascii.eqb a b) eqn:E; [|discriminate].
    apply Ascii.eqb_eq in E. subst b. intros H. apply IH in H. rewrite H. reflexivity.
Qed.

(* the name is removed exactly when it is the whole line or is followed by a blank *)
Theorem doc_of_name_alone : forall n rest, doc_of n (n :: rest) = rest.
Proof.
  intros n rest. unfold doc_of, ctx_doc.
  replace (cut_prefix n n) with (Some (@nil ascii)).
  - reflexivity.
  - symmetry. rewrite <- (app_nil_r n) at 2. apply cut_prefix_app.
Qed.

Theorem doc_of_name_blank : forall n r rest,
  doc_of n ((n ++ sp :: r) :: rest) =
  match trim_space (sp :: r) with [] => rest | l => l :: rest end.
Proof.
  intros n r rest. unfold doc_of, ctx_doc. rewrite cut_prefix_app.
  unfold sp at 1. rewrite Ascii.eqb_refl. destruct (trim_space (sp :: r)); reflexivity.
Qed.

(* otherwise the first line comes back untouched: "Apple pie" on type A stays "Apple pie" *)
Theorem doc_of_verbatim : forall n l0 rest,
  l0 <> [] -> l0 <> n -> (forall r, l0 <> n ++ sp :: r) ->
  doc_of n (l0 :: rest) = l0 :: rest.
Proof.
  intros n l0 rest Hne Hn Hb. unfold doc_of, ctx_doc.
  destruct (cut_prefix n l0) as [[|c r]|] eqn:E.
  - apply cut_prefix_some in E. rewrite app_nil_r in E. congruence.
  - destruct (Ascii.eqb c sp) eqn:Ec.
    + apply Ascii.eqb_eq in Ec. subst c. apply cut_prefix_some in E. exfalso. exact (Hb r E).
    + destruct l0; [congruence|reflexivity].
  - destruct l0; [congruence|reflexivity].
Qed.

(* ---------------------------------------------------------------------------------------- *)
(* witnesses                                                                                 *)

Definition w_field (n : string) (k : fkind) (d : list string) : field :=
  mk_field (bs n) true k (map bs d).

(* DESIGN section 4 #28 *)
Definition w_apple : package :=
  [mk_ty (bs "A") true true (TStruct [w_field "X" (FNamed FOrdinary) ["Xylophone"]]) [bs "Apple pie"]]%string.

Lemma doc_refuted_before_fix :
  run [] (gen false true w_apple) (RNode []) (bs "A") [] = Ok (Some [bs "pple pie"])
  /\ run [] (gen false true w_apple) (RNode []) (bs "A") [bs "X"] = Ok (Some [bs "ylophone"])
  /\ rd_spec 2 w_apple (bs "A") [] = Some [bs "Apple pie"]
  /\ rd_spec 2 w_apple (bs "A") [bs "X"] = Some [bs "Xylophone"].
Proof. vm_compute. repeat split; reflexivity. Qed.

(* a defined non-struct type answered its own doc for every name; embedded in front of a struct that
   knows the name, it hid that struct's answer *)
Definition w_name : package :=
  [mk_ty (bs "Name") true true TOther [bs "Name is a name."];
   mk_ty (bs "Other") true true (TStruct [w_field "Y" (FNamed FOrdinary) ["Y is why"]]) [];
   mk_ty (bs "S") true true (TStruct [w_field "Name" (FEmbedded false ELocal) [];
                                      w_field "Other" (FEmbedded false ELocal) []]) []]%string.

Lemma other_refuted_before_fix :
  run [] (gen true false w_name) (RNode []) (bs "Name") [bs "Nope"] = Ok (Some [bs "is a name."])
  /\ run [] (gen true false w_name) (RNode [(bs "Name", RNode []); (bs "Other", RNode [])]) (bs "S") [bs "Y"]
     = Ok (Some [bs "is a name."])
  /\ rd_spec 4 w_name (bs "Name") [bs "Nope"] = None
  /\ rd_spec 4 w_name (bs "S") [bs "Y"] = Some [bs "is why"].
Proof. vm_compute. repeat split; reflexivity. Qed.

(* the known finding: a promoted field behind a nil embedded pointer *)
Definition w_chain : package :=
  [mk_ty (bs "A") true true (TStruct [w_field "B" (FEmbedded true ELocal) []]) [];
   mk_ty (bs "B") true true (TStruct [w_field "C" (FEmbedded false ELocal) []]) [];
   mk_ty (bs "C") true true (TStruct [w_field "X" (FNamed FOrdinary) ["X marks the spot"]]) []]%string.

Lemma answers_refuted_nil_chain :
  run [] (gen true true w_chain) (RNode [(bs "B", RNil)]) (bs "A") [bs "X"] = Panic
  /\ run [] (gen true true w_chain) (RNode [(bs "B", RNil)]) (bs "A") [bs "Nope"] = Panic
  /\ rd_spec 4 w_chain (bs "A") [bs "X"] = Some [bs "marks the spot"]
  /\ rd_spec 4 w_chain (bs "A") [bs "Nope"] = None
  /\ nil_chain w_chain (bs "A") (RNode [(bs "B", RNil)]) = true.
Proof. vm_compute. repeat split; reflexivity. Qed.

(* non-vacuity of the closed form: same package, the pointer allocated *)
Lemma chain_example :
  let v := RNode [(bs "B", RNode [(bs "C", RNode [])])] in
  NoDup (map t_name w_chain)
  /\ nil_chain w_chain (bs "A") v = false
  /\ run [] (gen true true w_chain) v (bs "A") [bs "X"] = Ok (Some [bs "marks the spot"])
  /\ run [] (gen true true w_chain) v (bs "A") [bs "Nope"] = Ok None
  /\ gen true true w_chain <> [].
Proof.
  cbn zeta. split.
  - repeat constructor; cbn; intros H; repeat (destruct H as [H|H]; [discriminate|]); exact H.
  - vm_compute. repeat split; try reflexivity. discriminate.
Qed.

Lemma deleg_fields_none : forall p call fs,
  (forall f, In f fs -> delegating p f = true -> call f = Ok None) ->
  deleg_fields p call fs = Ok None.
Proof.
  intros p call fs. induction fs as [|f fs IH]; cbn [deleg_fields]; intros H; auto.
  destruct (delegating p f) eqn:D.
  - rewrite (H f (or_introl eq_refl) D). apply IH. intros g Hg. apply H. right. exact Hg.
  - apply IH. intros g Hg. apply H. right. exact Hg.
Qed.

Theorem run_other_name : forall files p t fs kids n rest,
  NoDup (map t_name p) -> In t p -> covered t = true -> t_kind t = TStruct fs ->
  find_listed n fs = None ->
  (forall f, In f fs -> delegating p f = true ->
             run files (gen true true p) (kid kids (f_name f)) (f_name f) (n :: rest) = Ok None) ->
  run files (gen true true p) (RNode kids) (t_name t) (n :: rest) = Ok None.
Proof.
  intros files p t fs kids n rest ND HI C K F H.
  rewrite (run_delegation files p t fs kids n rest ND HI C K F).
  apply deleg_fields_none. exact H.
Qed.

Definition chain_rank (n : name) : nat :=
  if bytes_eqb n (bs "A") then 2 else if bytes_eqb n (bs "B") then 1 else 0.

Lemma chain_ranked : ranked w_chain chain_rank.
Proof.
  intros t fs f HI K Hf D.
  cbn in HI. destruct HI as [<-|[<-|[<-|[]]]]; cbn in K; inversion K; subst fs;
    cbn in Hf; destruct Hf as [<-|[]]; cbn in D; try discriminate; vm_compute; lia.
Qed.

Theorem run_fields_in : forall files p t fs f v rest,
  NoDup (map t_name p) -> In t p -> covered t = true -> t_kind t = TStruct fs ->
  NoDup (map f_name (filter listed fs)) -> In f fs -> listed f = true ->
  run files (gen true true p) v (t_name t) (f_name f :: rest) = Ok (Some (doc_of (f_name f) (f_doc f))).
Proof.
  intros files p t fs f v rest ND HI C K NDf Hf L.
  exact (run_fields files p t fs f v (f_name f) rest ND HI C K (find_listed_in fs f NDf Hf L)).
Qed.
