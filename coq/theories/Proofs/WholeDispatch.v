(* Agreement of two models of the same Go code (pkg/gengo/context.go 108-116, 191-220, 268-345):
     Model/Dispatch.v  (C06: IsGeneratorEnabled, the type table, doGenerate, the Defer queue; a scripted recording generator)
     Model/Pipeline.v  (C07/C05/C02: the same loops with arbitrary generators and the file system)
   From ONE description of the packages (Model/Whole.v: wpkg) the pipeline under [whole_env], run with the recording
   generator as a state machine ([disp_gen]), makes position by position the calls Dispatch.execute lists. *)
Require Import Gengo.Base.Bytes Gengo.Model.Pipeline Gengo.Model.Whole.
Require Import Gengo.Proofs.Pipeline Gengo.Proofs.PipelinePkg.
Require Gengo.Model.Dispatch Gengo.Proofs.Dispatch.
From Coq Require Import Permutation PeanoNat.

Module D := Gengo.Model.Dispatch.
Module DP := Gengo.Proofs.Dispatch.

(* ---------- sorting: sort.Strings(names) + lookup  =  the table's entries sorted by name ---------- *)

Lemma insert_by_entries {A B} (keyA : A -> bytes) (keyB : B -> bytes) (f : A -> B) :
  (forall x, keyB (f x) = keyA x) ->
  forall x l, Pipeline.insert_by keyB (f x) (map f l) = map f (D.insert_by keyA x l).
Proof.
  intros Hk x l. induction l as [|y r IH]; cbn; [reflexivity|].
  rewrite !Hk. change (Pipeline.bytes_leb (keyA x) (keyA y)) with (D.bytes_leb (keyA x) (keyA y)).
  destruct (D.bytes_leb (keyA x) (keyA y)); cbn; [reflexivity|]. rewrite IH. reflexivity.
Qed.

Lemma sort_by_entries {A B} (keyA : A -> bytes) (keyB : B -> bytes) (f : A -> B) :
  (forall x, keyB (f x) = keyA x) ->
  forall l, Pipeline.sort_by keyB (map f l) = map f (D.isort_by keyA l).
Proof.
  intros Hk l. unfold Pipeline.sort_by, D.isort_by. induction l as [|x r IH]; cbn; [reflexivity|].
  rewrite IH. apply insert_by_entries. exact Hk.
Qed.

(* ---------- the type table ---------- *)

Lemma table_fold_inv : forall sf defs acc,
  NoDup (D.keys acc) -> (forall kv, In kv acc -> fst kv = D.td_name (snd kv)) ->
  NoDup (D.keys (fold_left (D.table_add sf) defs acc))
  /\ (forall kv, In kv (fold_left (D.table_add sf) defs acc) -> fst kv = D.td_name (snd kv)).
Proof.
  intros sf. induction defs as [|d r IH]; intros acc Hnd Hk; cbn [fold_left]; [split; assumption|].
  apply IH.
  - unfold D.table_add. destruct (sf && negb (D.td_pkgscope d)); [exact Hnd|]. apply DP.map_set_nodup. exact Hnd.
  - intros kv Hin. unfold D.table_add in Hin. destruct (sf && negb (D.td_pkgscope d)); [apply Hk; exact Hin|].
    apply DP.map_set_entries in Hin. destruct Hin as [Hin|Hin]; [subst kv; reflexivity | apply Hk; exact Hin].
Qed.

Lemma table_nodup : forall sf defs, NoDup (D.keys (D.type_table sf defs)).
Proof. intros. apply (table_fold_inv sf defs []); [constructor | intros kv []]. Qed.

Lemma table_key : forall sf defs kv, In kv (D.type_table sf defs) -> fst kv = D.td_name (snd kv).
Proof. intros sf defs. apply (table_fold_inv sf defs []); [constructor | intros kv []]. Qed.

Lemma find_wp_in : forall wps wp, NoDup (map wp_path wps) -> In wp wps -> find_wp (wp_path wp) wps = Some wp.
Proof.
  induction wps as [|x r IH]; intros wp Hnd Hin; [contradiction|].
  cbn [map] in Hnd. inversion Hnd as [|y l Hnotin Hnd']; subst. cbn [find_wp].
  destruct Hin as [Hin|Hin].
  - subst x. rewrite bytes_eqb_refl. reflexivity.
  - destruct (bytes_eqb (wp_path x) (wp_path wp)) eqn:Heq.
    + apply bytes_eqb_spec in Heq. exfalso. apply Hnotin. rewrite Heq. apply in_map. exact Hin.
    + apply IH; assumption.
Qed.

Section DispAgree.
  Variable fmt : bytes -> option bytes.
  Variable order : pkginfo -> list (bytes * bytes) -> list (bytes * bytes).
  Variable rk : pkginfo -> bytes -> nat.
  Variable G : tags.
  Variable wps : list wpkg.
  Variable fuel : nat.

  Let E := whole_env fmt order rk G.
  Notation gP := (disp_gen wps fuel).

  (* the call / callback events of the pipeline that correspond to Dispatch's *)
  Definition tr_call (wp : wpkg) (g : D.gen) (c : D.call) : event :=
    EvCall (D.g_name g) (wp_path wp) (D.td_name (snd c)) (body_of (D.td_action (snd c))) (res_of (D.td_action (snd c))).
  Definition dres (d : D.dspec) : gresult := match d with D.DS _ err _ => if err then RErr else RNil end.
  Definition dbody (d : D.dspec) : bytes := match d with D.DS _ err _ => if err then [] else mark end.
  Definition no_err_root (d : D.dspec) : bool := match d with D.DS _ err _ => negb err end.
  Definition tr_defer (wp : wpkg) (g : D.gen) (x : nat * D.dspec) : event :=
    EvDefer (D.g_name g) (wp_path wp) (fst x) (dbody (snd x)) (dres (snd x)).

  Definition P_of (wp : wpkg) : tags := D.pkg_tags (D.pk_filetags (wp_d wp)).

  (* ---------- doGenerate: gen_loop (Dispatch) and call_loop (Pipeline) ---------- *)
  Lemma call_loop_agree : forall wp g tbl entries,
    (forall kv, In kv entries -> D.lookup (fst kv) tbl = Some (snd kv)) ->
    (forall kv, In kv entries -> fst kv = D.td_name (snd kv)) ->
    exists cs e,
      D.gen_loop g G (P_of wp) tbl (map fst entries) = Ok (cs, e)
      /\ forall reg,
         let c := call_loop E (gP g) (to_pkginfo wp) (tbl, reg) (map ty_of entries) in
         ro_trace c = map (tr_call wp g) cs
         /\ ro_body c = concat (map (fun c => body_of (D.td_action (snd c))) cs)
         /\ (e = true -> ro_out c = Failed (EGen (D.g_name g) (wp_path wp)))
         /\ (e = false -> ro_out c = Done /\ ro_state c = (tbl, reg ++ D.registered cs)
                          /\ ro_defers c = seq (List.length reg) (List.length (D.registered cs))).
  Proof.
    intros wp g tbl. induction entries as [|[n d] r IH]; intros Hlk Hkey.
    - exists [], false. split; [reflexivity|]. intros reg. cbn. rewrite app_nil_r.
      repeat split; try reflexivity; intros; discriminate.
    - destruct IH as [cs [e [Hgl IH]]].
      { intros kv Hin. apply Hlk. right. exact Hin. } { intros kv Hin. apply Hkey. right. exact Hin. }
      pose proof (Hlk (n, d) (or_introl eq_refl)) as Hl. cbn [fst snd] in Hl.
      pose proof (Hkey (n, d) (or_introl eq_refl)) as Hn. cbn [fst snd] in Hn.
      cbn [map fst D.gen_loop]. rewrite Hl, Hgl. cbn [bind].
      (* the decision "enabled" is the same expression on both sides *)
      assert (Hen : e_enabled E (g_name (gP g)) (to_pkginfo wp) (ty_of (n, d))
                    = D.is_generator_enabled (D.g_name g) (D.doc_tags G (P_of wp) d)) by reflexivity.
      (* what one call of the recording generator does *)
      assert (Hstep : forall reg,
                g_type (gP g) (tbl, reg) (to_pkginfo wp) (ty_of (n, d))
                = ((tbl, reg ++ (if D.is_nil_action (D.td_action d) then D.td_defers d else [])),
                   {| so_body := body_of (D.td_action d); so_res := res_of (D.td_action d);
                      so_defers := seq (List.length reg)
                                       (List.length (if D.is_nil_action (D.td_action d) then D.td_defers d else [])) |})).
      { intros reg. cbn [g_type disp_gen ty_of ty_name fst snd]. rewrite Hl. reflexivity. }
      (* the three ways the loop can go on *)
      assert (Hskip : exists cs' e', Ok (cs, e) = Ok (cs', e') /\ forall reg,
                 let c := call_loop E (gP g) (to_pkginfo wp) (tbl, reg) (map ty_of r) in
                 ro_trace c = map (tr_call wp g) cs'
                 /\ ro_body c = concat (map (fun c => body_of (D.td_action (snd c))) cs')
                 /\ (e' = true -> ro_out c = Failed (EGen (D.g_name g) (wp_path wp)))
                 /\ (e' = false -> ro_out c = Done /\ ro_state c = (tbl, reg ++ D.registered cs')
                                  /\ ro_defers c = seq (List.length reg) (List.length (D.registered cs')))).
      { exists cs, e. split; [reflexivity | exact IH]. }
      assert (Hinvoke : forall k,
                should_call E (gP g) (to_pkginfo wp) (ty_of (n, d)) = true ->
                exists cs' e',
                  (if D.is_err (D.td_action d) then Ok ([(k, d)], true) else Ok ((k, d) :: cs, e)) = Ok (cs', e')
                  /\ forall reg,
                     let c := call_loop E (gP g) (to_pkginfo wp) (tbl, reg) (map ty_of ((n, d) :: r)) in
                     ro_trace c = map (tr_call wp g) cs'
                     /\ ro_body c = concat (map (fun c => body_of (D.td_action (snd c))) cs')
                     /\ (e' = true -> ro_out c = Failed (EGen (D.g_name g) (wp_path wp)))
                     /\ (e' = false -> ro_out c = Done /\ ro_state c = (tbl, reg ++ D.registered cs')
                                      /\ ro_defers c = seq (List.length reg) (List.length (D.registered cs')))).
      { intros k Hsc. remember (D.td_action d) as act eqn:Hact. destruct act; cbn [D.is_err].
        5:{ (* AErr *)
          exists [(k, d)], true. split; [reflexivity|]. intros reg. cbn [map call_loop]. rewrite Hsc, Hstep, <- ?Hact.
          cbn [res_of so_res so_body ro_trace ro_body ro_out body_of D.renders].
          split; [unfold tr_call; cbn [map snd]; rewrite <- ?Hact, <- Hn; reflexivity|].
          split; [cbn; rewrite <- ?Hact; reflexivity|]. split; [reflexivity|]. intros Hx; discriminate Hx. }
        all: exists ((k, d) :: cs), e; split; [reflexivity|]; intros reg; cbn [map call_loop];
          rewrite Hsc, Hstep, <- ?Hact; cbn [res_of so_res so_body so_defers D.is_nil_action];
          specialize (IH (reg ++ (if D.is_nil_action (D.td_action d) then D.td_defers d else [])));
          rewrite <- ?Hact in IH; cbn [D.is_nil_action] in IH; cbn zeta in IH;
          destruct IH as [IH1 [IH2 [IH3 IH4]]];
          cbn [ro_trace ro_body ro_out ro_state ro_defers];
          (split; [unfold tr_call at 1; cbn [map snd]; rewrite <- ?Hact, <- Hn, IH1; reflexivity|]);
          (split; [cbn [concat map snd]; rewrite <- ?Hact, IH2; reflexivity|]);
          (split; [exact IH3|]); intros He; destruct (IH4 He) as [I1 [I2 I3]];
          (split; [exact I1|]);
          cbn [D.registered flat_map snd]; rewrite <- ?Hact; cbn [D.is_nil_action];
          rewrite I2, I3, ?app_nil_r, ?app_length, ?seq_app, <- ?app_assoc; cbn [List.length app seq]; rewrite ?Nat.add_0_r;
          split; reflexivity. }
      unfold should_call in Hinvoke. cbn [ty_of ty_kind snd] in Hinvoke. rewrite Hen in Hinvoke.
      assert (Hnocall : should_call E (gP g) (to_pkginfo wp) (ty_of (n, d)) = false ->
                forall reg, call_loop E (gP g) (to_pkginfo wp) (tbl, reg) (map ty_of ((n, d) :: r))
                            = call_loop E (gP g) (to_pkginfo wp) (tbl, reg) (map ty_of r)).
      { intros Hsc reg. cbn [map call_loop]. rewrite Hsc. reflexivity. }
      unfold should_call in Hnocall. cbn [ty_of ty_kind snd] in Hnocall. rewrite Hen in Hnocall.
      destruct (D.td_kind d); cbn [kind_of] in *.
      + destruct (D.is_generator_enabled (D.g_name g) (D.doc_tags G (P_of wp) d)).
        * destruct (D.is_err (D.td_action d)); apply (Hinvoke D.CT eq_refl).
        * destruct Hskip as [cs' [e' [Heq Hs]]]. exists cs', e'. split; [exact Heq|]. intros reg.
          rewrite (Hnocall eq_refl). apply Hs.
      + cbn [g_alias disp_gen] in *.
        destruct (D.is_generator_enabled (D.g_name g) (D.doc_tags G (P_of wp) d)); cbn [andb] in *.
        * destruct (D.g_alias g).
          -- destruct (D.is_err (D.td_action d)); apply (Hinvoke D.CA eq_refl).
          -- destruct Hskip as [cs' [e' [Heq Hs]]]. exists cs', e'. split; [exact Heq|]. intros reg.
             rewrite (Hnocall eq_refl). apply Hs.
        * destruct Hskip as [cs' [e' [Heq Hs]]]. exists cs', e'. split; [exact Heq|]. intros reg.
          rewrite (Hnocall eq_refl). apply Hs.
      + destruct Hskip as [cs' [e' [Heq Hs]]]. exists cs', e'. split; [exact Heq|]. intros reg.
        rewrite (Hnocall eq_refl). apply Hs.
  Qed.

  (* ---------- the Defer queue: run_defers_queue (Dispatch) and defer_loop (Pipeline) ---------- *)
  (* [done]: the callbacks already run; c.defers = done ++ q; the pipeline knows a callback by its index *)
  Lemma defer_agree : forall wp g tbl fuelP fuelD q done,
    D.qsize q <= fuelP -> D.qsize q <= fuelD ->
    exists ran e,
      D.run_defers_queue fuelD q = Ok (map D.root_id ran, e)
      /\ let dl := defer_loop fuelP (gP g) (to_pkginfo wp) (tbl, done ++ q) (seq (List.length done) (List.length q)) in
         ro_trace dl = map (tr_defer wp g) (combine (seq (List.length done) (List.length ran)) ran)
         /\ ro_out dl = (if e then Failed (EDefer (D.g_name g) (wp_path wp)) else Done)
         /\ ro_body dl = concat (map dbody ran)
         /\ (e = false -> forallb no_err_root ran = true).
  Proof.
    intros wp g tbl. induction fuelP as [|fP IH]; intros fuelD q done HP HD.
    - destruct q as [|[id err nested] r]; [|rewrite DP.qsize_cons in HP; lia].
      exists [], false. split; [destruct fuelD; reflexivity|]. cbn. repeat split; reflexivity.
    - destruct q as [|[id err nested] r].
      { exists [], false. split; [destruct fuelD; reflexivity|]. cbn. repeat split; reflexivity. }
      rewrite DP.qsize_cons in HP, HD. destruct fuelD as [|fD]; [lia|].
      assert (Hnth : nth_error (done ++ D.DS id err nested :: r) (List.length done) = Some (D.DS id err nested)).
      { rewrite nth_error_app2 by lia. rewrite Nat.sub_diag. reflexivity. }
      cbn [List.length seq defer_loop]. cbn [g_defer disp_gen snd fst]. rewrite Hnth.
      destruct err.
      + exists [D.DS id true nested], true. split; [reflexivity|]. cbn. repeat split; try reflexivity. intros Hx; discriminate Hx.
      + destruct (IH fD (r ++ nested) (done ++ [D.DS id false nested])) as [ran [e [Hq Hdl]]].
        { rewrite DP.qsize_app. lia. } { rewrite DP.qsize_app. lia. }
        exists (D.DS id false nested :: ran), e. split.
        { cbn [D.run_defers_queue]. rewrite Hq. reflexivity. }
        cbn zeta in Hdl. cbn [so_res so_body so_defers].
        replace ((done ++ [D.DS id false nested]) ++ r ++ nested) with ((done ++ D.DS id false nested :: r) ++ nested) in Hdl
          by (rewrite <- !app_assoc; reflexivity).
        replace (seq (List.length (done ++ [D.DS id false nested])) (List.length (r ++ nested)))
          with (seq (S (List.length done)) (List.length r) ++ seq (List.length (done ++ D.DS id false nested :: r)) (List.length nested)) in Hdl.
        2:{ rewrite !app_length. cbn [List.length]. rewrite seq_app. f_equal; [f_equal; lia | f_equal; lia]. }
        destruct Hdl as [H1 [H2 [H3 H4]]].
        cbn [ro_trace ro_out ro_body]. rewrite H1, H2, H3.
        split; [|split; [reflexivity|split; [reflexivity|exact H4]]].
        cbn [List.length seq combine map]. f_equal. rewrite app_length. cbn [List.length].
        replace (List.length done + 1) with (S (List.length done)) by lia. reflexivity.
  Qed.

  (* ---------- one generator on one package: session (Dispatch) and gen_run (Pipeline) ---------- *)
  Hypothesis Hpaths : NoDup (map wp_path wps).

  Definition session_out (e e2 : bool) (g : D.gen) (wp : wpkg) : outcome :=
    if e then Failed (EGen (D.g_name g) (wp_path wp))
    else if e2 then Failed (EDefer (D.g_name g) (wp_path wp)) else Done.
  Definition session_dout (e e2 : bool) : D.outcome :=
    if e then D.GenFailed else if e2 then D.DeferFailed else D.Done.

  (* the bound handed to the recording generator covers the callback forests Dispatch's queue has to run *)
  Definition fuel_ok (wp : wpkg) (g : D.gen) : Prop :=
    forall cs e, D.do_generate g G (P_of wp) (wp_table wp) (D.keys (wp_table wp)) = Ok (cs, e) ->
                 D.qsize (D.registered cs) <= fuel.

  Lemma gen_run_agree : forall wp g,
    In wp wps -> fuel_ok wp g ->
    exists cs e ran e2,
      D.do_generate g G (P_of wp) (wp_table wp) (D.keys (wp_table wp)) = Ok (cs, e)
      /\ (forall c, In c cs -> In (snd c) (D.pk_defs (wp_d wp)))
      /\ (if e then ran = [] /\ e2 = false
          else D.run_defers_queue (D.qsize (D.registered cs)) (D.registered cs) = Ok (map D.root_id ran, e2))
      /\ go_trace (gen_run E (gP g) (to_pkginfo wp))
         = map (tr_call wp g) cs ++ map (tr_defer wp g) (combine (seq 0 (List.length ran)) ran)
      /\ go_out (gen_run E (gP g) (to_pkginfo wp)) = session_out e e2 g wp
      /\ go_body (gen_run E (gP g) (to_pkginfo wp))
         = concat (map (fun c => body_of (D.td_action (snd c))) cs) ++ concat (map dbody ran)
      /\ (e2 = false -> forallb no_err_root ran = true).
  Proof.
    intros wp g Hin Hfuel. unfold gen_run.
    set (tbl := wp_table wp).
    assert (Hnew : g_new (gP g) (to_pkginfo wp) = (tbl, [])).
    { cbn [g_new disp_gen to_pkginfo pk_path]. rewrite (find_wp_in wps wp Hpaths Hin). reflexivity. }
    assert (Hsort : sort_by ty_name (pk_types (to_pkginfo wp)) = map ty_of (D.isort_by fst tbl)).
    { cbn [pk_types to_pkginfo]. fold tbl. apply (sort_by_entries fst ty_name ty_of). reflexivity. }
    rewrite Hnew, Hsort.
    assert (Hent : forall kv, In kv (D.isort_by fst tbl) -> In kv tbl).
    { intros kv Hkv. eapply Permutation_in; [apply Permutation_sym, DP.isort_by_perm | exact Hkv]. }
    destruct (call_loop_agree wp g tbl (D.isort_by fst tbl)) as [cs [e [Hgl Hcl]]].
    { intros kv Hkv. destruct kv as [n d]. apply DP.lookup_In; [apply table_nodup | apply Hent; exact Hkv]. }
    { intros kv Hkv. apply (table_key true (D.pk_defs (wp_d wp))). apply Hent. exact Hkv. }
    assert (Hdg : D.do_generate g G (P_of wp) tbl (D.keys tbl) = Ok (cs, e)).
    { unfold D.do_generate. rewrite <- Hgl. f_equal. unfold D.keys. symmetry. apply DP.map_isort_by. }
    assert (Hdefs : forall c, In c cs -> In (snd c) (D.pk_defs (wp_d wp))).
    { intros c Hc. destruct (DP.gen_loop_calls_from_table _ _ _ _ _ _ _ Hgl c Hc) as [n Hn].
      apply DP.lookup_Some_In in Hn. eapply DP.type_table_entries. exact Hn. }
    specialize (Hcl []). cbn zeta in Hcl. destruct Hcl as [Ht [Hb [He1 He0]]].
    destruct e.
    - exists cs, true, [], false. rewrite (He1 eq_refl). cbn [go_trace go_out go_body].
      split; [exact Hdg|]. split; [exact Hdefs|]. split; [split; reflexivity|].
      cbn. rewrite !app_nil_r. repeat split; try assumption.
    - destruct (He0 eq_refl) as [Ho [Hst Hdf]]. rewrite Ho, Hst, Hdf. cbn [app List.length].
      destruct (defer_agree wp g tbl (g_fuel (gP g)) (D.qsize (D.registered cs)) (D.registered cs) [])
        as [ran [e2 [Hq Hdl]]].
      { cbn [g_fuel disp_gen]. exact (Hfuel cs false Hdg). } { apply le_n. }
      cbn zeta in Hdl. cbn [app List.length] in Hdl. destruct Hdl as [H1 [H2 [H3 H4]]].
      exists cs, false, ran, e2. cbn [go_trace go_out go_body]. rewrite H1, H2, H3, Ht, Hb.
      split; [exact Hdg|]. split; [exact Hdefs|]. split; [exact Hq|]. repeat split; try reflexivity. exact H4.
  Qed.

  (* ---------- events, position by position ---------- *)
  Variable gens : list D.gen.

  Inductive ev_match : event -> D.event -> Prop :=
  | em_call : forall wp g c, In wp wps -> In g gens -> In (snd c) (D.pk_defs (wp_d wp)) ->
      ev_match (tr_call wp g c) (D.event_of_call (D.pk_id (wp_d wp)) g G (P_of wp) c)
  | em_defer : forall wp g i d, In wp wps -> In g gens ->
      ev_match (tr_defer wp g (i, d)) (D.EDefer (D.pk_id (wp_d wp)) (D.g_idx g) (D.root_id d)).

  Definition out_match (o : outcome) (d : D.outcome) : Prop :=
    match o, d with
    | Done, D.Done => True
    | Failed (EGen _ _), D.GenFailed => True
    | Failed (EDefer _ _), D.DeferFailed => True
    | _, _ => False
    end.

  Lemma Forall2_map_same {A B C} (R : B -> C -> Prop) (f : A -> B) (h : A -> C) (l : list A) :
    (forall x, In x l -> R (f x) (h x)) -> Forall2 R (map f l) (map h l).
  Proof.
    induction l as [|x r IH]; intros Hr; cbn; constructor.
    - apply Hr. left. reflexivity.
    - apply IH. intros y Hy. apply Hr. right. exact Hy.
  Qed.

  Lemma defers_match : forall wp g ran k, In wp wps -> In g gens ->
    Forall2 ev_match (map (tr_defer wp g) (combine (seq k (List.length ran)) ran))
            (map (D.EDefer (D.pk_id (wp_d wp)) (D.g_idx g)) (map D.root_id ran)).
  Proof.
    intros wp g ran. induction ran as [|d r IH]; intros k Hwp Hg; cbn; constructor.
    - apply (em_defer wp g k d); assumption.
    - apply IH; assumption.
  Qed.

  Lemma is_nil_app {A} (x y : list A) : is_nil (x ++ y) = is_nil x && is_nil y.
  Proof. destruct x; reflexivity. Qed.

  Lemma session_agree : forall wp g,
    In wp wps -> In g gens -> fuel_ok wp g ->
    exists devs o flag,
      D.session_default D.fixed_all (wp_d wp) g G = Ok (devs, o, flag)
      /\ Forall2 ev_match (go_trace (gen_run E (gP g) (to_pkginfo wp))) devs
      /\ out_match (go_out (gen_run E (gP g) (to_pkginfo wp))) o
      /\ (go_out (gen_run E (gP g) (to_pkginfo wp)) = Done ->
          o = D.Done /\ flag = negb (is_nil (go_body (gen_run E (gP g) (to_pkginfo wp)))))
      /\ (go_out (gen_run E (gP g) (to_pkginfo wp)) <> Done -> o <> D.Done).
  Proof.
    intros wp g Hwp Hg Hfuel.
    destruct (gen_run_agree wp g Hwp Hfuel) as [cs [e [ran [e2 [Hdg [Hdefs [Hq [Ht [Ho [Hb Hne]]]]]]]]]].
    unfold D.session_default, D.session. cbn [D.fixed_all D.fx_scope D.fx_defer].
    fold (wp_table wp). fold (P_of wp). rewrite Hdg. cbn [bind]. rewrite Ht, Ho, Hb.
    assert (Hcalls : Forall2 ev_match (map (tr_call wp g) cs)
                       (map (D.event_of_call (D.pk_id (wp_d wp)) g G (P_of wp)) cs)).
    { apply Forall2_map_same. intros c Hc. apply em_call; [exact Hwp | exact Hg | apply Hdefs; exact Hc]. }
    destruct e.
    - destruct Hq as [-> ->]. eexists _, _, _. split; [reflexivity|]. cbn. rewrite app_nil_r.
      split; [exact Hcalls|]. split; [exact I|]. split; [intros Hx; discriminate Hx | intros _ Hx; discriminate Hx].
    - rewrite Hq. cbn [bind]. destruct e2; (eexists _, _, _; split; [reflexivity|]).
      + split; [apply Forall2_app; [exact Hcalls | apply defers_match; assumption]|].
        split; [exact I|]. split; [intros Hx; discriminate Hx | intros _ Hx; discriminate Hx].
      + split; [apply Forall2_app; [exact Hcalls | apply defers_match; assumption]|].
        split; [exact I|]. split; [|intros Hx; exfalso; apply Hx; reflexivity]. intros _. split; [reflexivity|].
        (* the buffer is non-empty iff a call rendered or a callback ran (every callback that returns nil renders) *)
        assert (Hc : is_nil (concat (map (fun c => body_of (D.td_action (snd c))) cs)) = negb (D.rendered cs)).
        { unfold D.rendered. clear. induction cs as [|c r IH]; [reflexivity|]. cbn [map concat existsb].
          unfold body_of at 1. destruct (D.renders (D.td_action (snd c))); [reflexivity|]. cbn [app orb]. exact IH. }
        assert (Hd : is_nil (concat (map dbody ran)) = is_nil ran).
        { specialize (Hne eq_refl). destruct ran as [|[id err nested] r]; [reflexivity|].
          cbn [forallb no_err_root] in Hne. destruct err; [discriminate Hne | reflexivity]. }
        rewrite is_nil_app, Hc, Hd. destruct ran; destruct (D.rendered cs); reflexivity.
  Qed.

  (* ---------- all generators on one package: pkg_gens (Dispatch) and gen_phase (Pipeline) ---------- *)
  Definition renders_on (wp : wpkg) (g : D.gen) : bool :=
    negb (is_nil (go_body (gen_run E (gP g) (to_pkginfo wp)))).

  Lemma gen_phase_agree : forall wp l,
    In wp wps -> incl l gens -> (forall g, In g l -> fuel_ok wp g) ->
    exists devs o ws,
      D.pkg_gens D.fixed_all (wp_d wp) l G = Ok (devs, o, ws)
      /\ Forall2 ev_match (snd (fst (gen_phase E (map gP l) (to_pkginfo wp)))) devs
      /\ out_match (snd (gen_phase E (map gP l) (to_pkginfo wp))) o
      /\ (snd (gen_phase E (map gP l) (to_pkginfo wp)) = Done ->
          o = D.Done /\ ws = map D.g_idx (filter (renders_on wp) l))
      /\ (snd (gen_phase E (map gP l) (to_pkginfo wp)) <> Done -> o <> D.Done).
  Proof.
    intros wp l Hwp. induction l as [|g r IH]; intros Hincl Hfuel.
    - exists [], D.Done, []. cbn. split; [reflexivity|]. split; [constructor|]. split; [exact I|].
      split; [intros _; split; reflexivity | intros Hx; exfalso; apply Hx; reflexivity].
    - destruct (session_agree wp g Hwp (Hincl g (or_introl eq_refl)) (Hfuel g (or_introl eq_refl)))
        as [devs [o [flag [Hs [Hev [Hom [Hdone Hbad]]]]]]].
      destruct IH as [devs' [o' [ws' [Hs' [Hev' [Hom' [Hdone' Hbad']]]]]]].
      { intros x Hx. apply Hincl. right. exact Hx. } { intros x Hx. apply Hfuel. right. exact Hx. }
      cbn [map gen_phase D.pkg_gens]. rewrite Hs. cbn [bind].
      destruct (go_out (gen_run E (gP g) (to_pkginfo wp))) eqn:Hgo.
      + destruct (Hdone eq_refl) as [-> ->]. rewrite Hs'. cbn [bind].
        destruct (gen_phase E (map gP r) (to_pkginfo wp)) as [[gfs tr] out]. cbn [fst snd] in *.
        eexists _, _, _. split; [reflexivity|]. split; [apply Forall2_app; assumption|]. split; [exact Hom'|].
        split; [|exact Hbad']. intros Hout. destruct (Hdone' Hout) as [-> ->]. split; [reflexivity|].
        cbn [filter]. unfold renders_on. destruct (is_nil (go_body (gen_run E (gP g) (to_pkginfo wp)))); reflexivity.
      + assert (Hne : o <> D.Done) by (apply Hbad; discriminate).
        destruct o; [exfalso; apply Hne; reflexivity| |]; (eexists _, _, _; split; [reflexivity|]); cbn [fst snd];
          (split; [exact Hev|]); (split; [exact Hom|]); (split; [intros Hx; discriminate Hx | intros _ Hx; discriminate Hx]).
      + assert (Hne : o <> D.Done) by (apply Hbad; discriminate).
        destruct o; [exfalso; apply Hne; reflexivity| |]; (eexists _, _, _; split; [reflexivity|]); cbn [fst snd];
          (split; [exact Hev|]); (split; [exact Hom|]); (split; [intros Hx; discriminate Hx | intros _ Hx; discriminate Hx]).
  Qed.

  (* ---------- one package / the run: everything rendered parses (the formatter is outside Dispatch) ---------- *)
  Hypothesis Hfmt : forall src, fmt src <> None.

  Lemma write_loop_total : forall a p gfs rem, snd (write_loop E a p gfs rem) = None.
  Proof.
    intros a p gfs. induction gfs as [|[n body] r IH]; intros rem; cbn [write_loop]; [reflexivity|].
    destruct (is_nil body); [apply IH|].
    destruct (e_fmt E (assemble (pk_name p) n body)) as [out|] eqn:Hf; [|exfalso; exact (Hfmt _ Hf)].
    specialize (IH (strike (fname a n) rem)). destruct (write_loop E a p r (strike (fname a n) rem)) as [[effs rem'] e].
    exact IH.
  Qed.

  Lemma pkg_effects_trace : forall a gs p,
    snd (fst (pkg_effects E a gs p)) = snd (fst (gen_phase E gs p)) /\ snd (pkg_effects E a gs p) = snd (gen_phase E gs p).
  Proof.
    intros a gs p. unfold pkg_effects. destruct (gen_phase E gs p) as [[gfs tr] out]. cbn [fst snd].
    destruct out; [|split; reflexivity|split; reflexivity].
    pose proof (write_loop_total a p (e_order E p gfs) (generated_files a p)) as Hw.
    destruct (write_loop E a p (e_order E p gfs) (generated_files a p)) as [[effs rem] e]. cbn [snd] in Hw. subst e.
    split; reflexivity.
  Qed.

  Lemma match_callbacks : forall tr devs, Forall2 ev_match tr devs -> filter DP.is_callback devs = devs.
  Proof.
    intros tr devs Hm. induction Hm as [|x y l l' Hxy Hm IH]; [reflexivity|]. cbn [filter].
    assert (Hc : DP.is_callback y = true).
    { destruct Hxy as [wp g [k d] _ _ _|]; [destruct k|]; reflexivity. }
    rewrite Hc, IH. reflexivity.
  Qed.

  Variable a : args.
  Variable modroot : bytes.
  Let w := to_world modroot wps.
  Variable prev : option (list (bytes * bytes)).
  (* no package is skipped through gengo.sum (Force, no previous sums, not All ...): Dispatch.execute has no cache *)
  Hypothesis Hchg : forall wp, In wp wps -> pkg_changed a w prev (to_pkginfo wp) = true.
  Hypothesis Hfuel : forall wp g, In wp wps -> In g gens -> fuel_ok wp g.

  Lemma selected_same : forall wp, In wp wps -> selected a w (to_pkginfo wp) = a_all a || D.pk_direct (wp_d wp).
  Proof.
    intros wp Hwp. unfold selected. f_equal. unfold is_direct. cbn [w_direct w to_world pk_path to_pkginfo].
    destruct (D.pk_direct (wp_d wp)) eqn:Hd.
    - apply mem_bytes_In. apply in_map. apply filter_In. split; assumption.
    - destruct (mem_bytes (wp_path wp) (map wp_path (filter (fun wp0 => D.pk_direct (wp_d wp0)) wps))) eqn:Hm; [|reflexivity].
      apply mem_bytes_In in Hm. apply in_map_iff in Hm. destruct Hm as [wp' [Hp Hf]]. apply filter_In in Hf.
      destruct Hf as [Hin' Hd']. assert (wp' = wp) by (eapply NoDup_map_inj_in; eauto). subst wp'. congruence.
  Qed.

  Lemma run_pkgs_agree : forall l, incl l wps ->
    exists devs o,
      D.execute D.fixed_all (a_all a) (map wp_d l) gens G = Ok (devs, o)
      /\ Forall2 ev_match (snd (fst (run_pkgs E a w (map gP gens) prev (map to_pkginfo l)))) (filter DP.is_callback devs)
      /\ out_match (snd (run_pkgs E a w (map gP gens) prev (map to_pkginfo l))) o.
  Proof.
    induction l as [|wp r IH]; intros Hincl.
    - exists [], D.Done. cbn. split; [reflexivity|]. split; [constructor | exact I].
    - assert (Hwp : In wp wps) by (apply Hincl; left; reflexivity).
      destruct IH as [devs' [o' [Hex' [Hev' Hom']]]]. { intros x Hx. apply Hincl. right. exact Hx. }
      cbn [map run_pkgs D.execute]. rewrite (selected_same wp Hwp).
      destruct (a_all a || D.pk_direct (wp_d wp)).
      2:{ exists devs', o'. auto. }
      unfold pkg_execute. rewrite (Hchg wp Hwp).
      destruct (pkg_effects_trace a (map gP gens) (to_pkginfo wp)) as [Htr Hout].
      destruct (pkg_effects E a (map gP gens) (to_pkginfo wp)) as [[e1 t1] o1]. cbn [fst snd] in Htr, Hout. subst t1 o1.
      destruct (gen_phase_agree wp gens Hwp (incl_refl _) (fun g Hg => Hfuel wp g Hwp Hg))
        as [devs [o [ws [Hpg [Hev [Hom [Hdone Hbad]]]]]]].
      unfold D.pkg_execute. rewrite Hpg. cbn [bind].
      destruct (snd (gen_phase E (map gP gens) (to_pkginfo wp))) eqn:Hgo.
      + destruct (Hdone eq_refl) as [-> _]. cbn [bind]. rewrite Hex'. cbn [bind].
        destruct (run_pkgs E a w (map gP gens) prev (map to_pkginfo r)) as [[e2 t2] o2]. cbn [fst snd] in *.
        eexists _, _. split; [reflexivity|]. split; [|exact Hom'].
        rewrite !filter_app. rewrite (match_callbacks _ _ Hev).
        apply Forall2_app; [|exact Hev'].
        replace (filter DP.is_callback (if is_nil ws then [] else [D.EWrites (D.pk_id (wp_d wp)) ws])) with (@nil D.event)
          by (destruct (is_nil ws); reflexivity).
        rewrite app_nil_r. exact Hev.
      + assert (Hne : o <> D.Done) by (apply Hbad; discriminate).
        destruct o; [exfalso; apply Hne; reflexivity| |]; cbn [bind]; (eexists _, _; split; [reflexivity|]); cbn [fst snd];
          rewrite (match_callbacks _ _ Hev); (split; [exact Hev | exact Hom]).
      + assert (Hne : o <> D.Done) by (apply Hbad; discriminate).
        destruct o; [exfalso; apply Hne; reflexivity| |]; cbn [bind]; (eexists _, _; split; [reflexivity|]); cbn [fst snd];
          rewrite (match_callbacks _ _ Hev); (split; [exact Hev | exact Hom]).
  Qed.
End DispAgree.

(* ---------- the write phase: Dispatch's EWrites event and the files the pipeline opens ---------- *)
Definition truncated (effs : list effect) : list path :=
  flat_map (fun e => match e with ETruncate q => [q] | _ => [] end) effs.

Lemma truncated_app : forall x y, truncated (x ++ y) = truncated x ++ truncated y.
Proof. intros. unfold truncated. apply flat_map_app. Qed.

Lemma filter_map_comm {A B} (f : B -> bool) (h : A -> B) : forall l, filter f (map h l) = map h (filter (fun x => f (h x)) l).
Proof. induction l as [|x r IH]; cbn; [reflexivity|]. rewrite IH. destruct (f (h x)); reflexivity. Qed.

Lemma filter_filter {A} (f h : A -> bool) : forall l, filter f (filter h l) = filter (fun x => h x && f x) l.
Proof. induction l as [|x r IH]; cbn; [reflexivity|]. destruct (h x); cbn; [destruct (f x); rewrite IH; reflexivity | exact IH]. Qed.

Lemma filter_perm' {A} (f : A -> bool) : forall l1 l2, Permutation l1 l2 -> Permutation (filter f l1) (filter f l2).
Proof.
  intros l1 l2 H. induction H as [|x l l' H IH|x y l|l l' l'' H1 IH1 H2 IH2]; cbn.
  - constructor.
  - destruct (f x); [apply perm_skip|]; exact IH.
  - destruct (f x), (f y); try apply perm_swap; try apply Permutation_refl.
  - eapply Permutation_trans; eassumption.
Qed.

Section Writes.
  Variable E : env.
  Hypothesis Hfmt : forall src, e_fmt E src <> None.
  Hypothesis Hord : order_ok E.

  Lemma write_loop_truncated : forall a p gfs rem,
    truncated (fst (fst (write_loop E a p gfs rem)))
    = map (fun gf => gen_file a p (fst gf)) (filter (fun gf => negb (is_nil (snd gf))) gfs).
  Proof.
    intros a p. induction gfs as [|[n body] r IH]; intros rem; cbn [write_loop filter snd fst]; [reflexivity|].
    destruct (is_nil body); cbn [negb]; [apply IH|].
    destruct (e_fmt E (assemble (pk_name p) n body)) as [out|] eqn:Hf; [|exfalso; exact (Hfmt _ Hf)].
    specialize (IH (strike (fname a n) rem)).
    destruct (write_loop E a p r (strike (fname a n) rem)) as [[effs rem'] e]. cbn [fst snd map] in *.
    rewrite truncated_app, IH. reflexivity.
  Qed.

  (* in a package that came back with Done the destinations opened are exactly the files of the generators whose
     buffer is not empty (in the order of the sync.Map) *)
  Lemma pkg_effects_truncated : forall a gens p,
    snd (pkg_effects E a gens p) = Done ->
    Permutation (truncated (fst (fst (pkg_effects E a gens p))))
                (map (fun g => gen_file a p (g_name g)) (filter (fun g => negb (is_nil (go_body (gen_run E g p)))) gens)).
  Proof.
    intros a gens p Hd. unfold pkg_effects in *.
    destruct (gen_phase E gens p) as [[gfs tr] out] eqn:Hgp. destruct out; cbn [snd] in Hd; try discriminate Hd.
    destruct (gen_phase_done E _ _ _ _ Hgp) as [Hgfs _].
    pose proof (write_loop_truncated a p (e_order E p gfs) (generated_files a p)) as Ht.
    destruct (write_loop E a p (e_order E p gfs) (generated_files a p)) as [[effs rem] e]. cbn [fst snd] in *.
    destruct e; [discriminate Hd|]. cbn [fst snd]. rewrite truncated_app, Ht.
    assert (Hrm : truncated (map (fun f => ERemove (pk_dir p, f)) (removal_order E p rem)) = []).
    { clear. generalize (removal_order E p rem). intros l. induction l as [|x r IH]; [reflexivity | exact IH]. }
    rewrite Hrm, app_nil_r.
    eapply Permutation_trans.
    { apply Permutation_map, filter_perm', Hord. }
    rewrite Hgfs, filter_map_comm, map_map, filter_filter. cbn [snd fst].
    assert (Hf : forall g, kept E g p && negb (is_nil (go_body (gen_run E g p))) = negb (is_nil (go_body (gen_run E g p)))).
    { intros g. unfold kept, is_zero. destruct (go_body (gen_run E g p)); cbn [is_nil negb andb]; [apply andb_false_r | reflexivity]. }
    rewrite (filter_ext _ _ Hf). apply Permutation_refl.
  Qed.
End Writes.

(* ---------- the whole run ---------- *)

Lemma sort_by_map {A B} (keyA : A -> bytes) (keyB : B -> bytes) (f : A -> B) :
  (forall x, keyB (f x) = keyA x) ->
  forall l, Pipeline.sort_by keyB (map f l) = map f (Pipeline.sort_by keyA l).
Proof.
  intros Hk l. unfold Pipeline.sort_by. induction l as [|x r IH]; cbn; [reflexivity|]. rewrite IH.
  generalize (fold_right (Pipeline.insert_by keyA) [] r). intros m.
  induction m as [|y m IHm]; cbn; [reflexivity|]. rewrite !Hk.
  destruct (Pipeline.bytes_leb (keyA x) (keyA y)); cbn; [reflexivity|]. rewrite IHm. reflexivity.
Qed.

Lemma sorted_world : forall modroot wps, sorted_pkgs (to_world modroot wps) = map to_pkginfo (sort_wps wps).
Proof. intros. unfold sorted_pkgs, sort_wps. cbn [w_pkgs to_world]. apply sort_by_map. reflexivity. Qed.

(* Dispatch.execute, run on the packages in the order Execute visits them, lists exactly the GenerateType /
   GenerateAliasType / Defer-callback events of Pipeline.exec_trace, in the same order, and ends the same way. *)
Theorem dispatch_agree : forall fmt order rk G wps fuel gens a modroot s,
  NoDup (map wp_path wps) ->
  (forall src, fmt src <> None) ->
  let E := whole_env fmt order rk G in
  let w := to_world modroot wps in
  (forall wp, In wp wps -> pkg_changed a w (load_prev E a w s) (to_pkginfo wp) = true) ->
  (forall wp g, In wp wps -> In g gens -> fuel_ok G fuel wp g) ->
  exists devs o,
    D.execute D.fixed_all (a_all a) (disp_pkgs wps) gens G = Ok (devs, o)
    /\ Forall2 (ev_match G wps gens) (exec_trace E a w (map (disp_gen wps fuel) gens) s) (filter DP.is_callback devs)
    /\ out_match (exec_outcome E a w (map (disp_gen wps fuel) gens) s) o.
Proof.
  intros fmt order rk G wps fuel gens a modroot s Hnd Hfmt E w Hchg Hfuel.
  unfold exec_trace, exec_outcome, run_all. subst w. rewrite sorted_world. unfold disp_pkgs.
  apply (run_pkgs_agree fmt order rk G wps fuel Hnd gens Hfmt a modroot _ Hchg Hfuel).
  intros x Hx. unfold sort_wps in Hx. exact (proj1 (sort_by_In wp_path wps x) Hx).
Qed.

(* ---------- C06's exactly-once, OF the pipeline trace ---------- *)
Require Import Gengo.Proofs.WholeTrace.

(* In a successful run, for a processed package wp and a generator g of the run, the run's call log contains — as
   one contiguous segment — calls [cs] followed by the callbacks, where [cs] is characterised exactly as in
   C06_exactly_once (each enabled package-scope named type once with GenerateType; each enabled alias once with
   GenerateAliasType iff g is an AliasGenerator; nothing else), and every callback of the forest registered by
   those calls runs exactly once (the pipeline's callback indices are 0, 1, 2, ... in order). *)
Theorem pipeline_exactly_once : forall fmt order rk G wps fuel gens a modroot s wp g,
  NoDup (map wp_path wps) -> In wp wps -> In g gens ->
  NoDup (D.keys G) -> NoDup (D.keys (P_of wp)) ->
  (forall d, In d (D.pk_defs (wp_d wp)) -> NoDup (D.keys (D.td_tags d))) ->
  NoDup (map D.td_name (filter D.td_pkgscope (D.pk_defs (wp_d wp)))) ->
  (forall d, In d (D.pk_defs (wp_d wp)) -> D.td_action d <> D.AErr) ->
  (forall d, In d (D.pk_defs (wp_d wp)) -> forallb D.no_err_tree (D.td_defers d) = true) ->
  fuel_ok G fuel wp g ->
  let E := whole_env fmt order rk G in
  let w := to_world modroot wps in
  let gs := map (disp_gen wps fuel) gens in
  exec_outcome E a w gs s = Done -> processed E a w s (to_pkginfo wp) = true ->
  exists cs ran pre post,
    NoDup cs
    /\ (forall k d, In (k, d) cs <->
          In d (D.pk_defs (wp_d wp)) /\ D.td_pkgscope d = true
          /\ DP.enabled_eff_spec (D.g_name g) G (P_of wp) (D.td_tags d) = true
          /\ ((k = D.CT /\ D.td_kind d = D.KNamed) \/ (k = D.CA /\ D.td_kind d = D.KAlias /\ D.g_alias g = true)))
    /\ Permutation (map D.root_id ran) (D.ids_all (D.registered cs))
    /\ exec_trace E a w gs s
       = pre ++ (map (tr_call wp g) cs ++ map (tr_defer wp g) (combine (seq 0 (List.length ran)) ran)) ++ post.
Proof.
  intros fmt order rk G wps fuel gens a modroot s wp g Hnd Hwp Hg HG HP Htags Hnames Hnoerr Hdefok Hfuel E w gs Hdone Hproc.
  destruct (gen_run_agree fmt order rk G wps fuel Hnd wp g Hwp Hfuel) as [cs [e [ran [e2 [Hdg [Hdefs [Hq [Ht _]]]]]]]].
  destruct (DP.exactly_once g G (P_of wp) (D.pk_defs (wp_d wp)) (D.pk_defs (wp_d wp))
              (D.keys (D.type_table true (D.pk_defs (wp_d wp)))) HG HP Htags Hnames
              (Permutation_refl _) (Permutation_refl _) Hnoerr) as [cs' [Hdg' [Hnd' Hiff]]].
  fold (wp_table wp) in Hdg'. rewrite Hdg in Hdg'. inversion Hdg'; subst cs' e. clear Hdg'.
  (* no callback fails: the queue runs the whole forest *)
  assert (Hreg : forallb D.no_err_tree (D.registered cs) = true).
  { unfold D.registered. clear - Hdefs Hdefok. induction cs as [|c r IH]; [reflexivity|].
    cbn [flat_map]. rewrite forallb_app. rewrite IH by (intros x Hx; apply Hdefs; right; exact Hx).
    destruct (D.is_nil_action (D.td_action (snd c))); [|reflexivity].
    rewrite (Hdefok (snd c) (Hdefs c (or_introl eq_refl))). reflexivity. }
  destruct (DP.run_defers_queue_ok (D.qsize (D.registered cs)) (D.registered cs) (le_n _) Hreg) as [l [Hl [Hperm _]]].
  rewrite Hl in Hq. inversion Hq; subst l e2.
  destruct (exec_trace_segment E a w gs s (to_pkginfo wp) (disp_gen wps fuel g) Hdone) as [pre [post Hseg]].
  { cbn [w_pkgs w to_world]. apply in_map. exact Hwp. } { exact Hproc. } { unfold gs. apply in_map. exact Hg. }
  exists cs, ran, pre, post. split; [exact Hnd'|]. split; [exact Hiff|]. split; [exact Hperm|].
  rewrite Hseg. unfold E. rewrite Ht. reflexivity.
Qed.

(* Dispatch's write event for a package (EWrites pid ws: the write phase, for the generators whose buffer is not
   empty) and the destinations Pipeline.pkg_effects opens (ETruncate) are the same set of generators. *)
Theorem dispatch_writes_agree : forall fmt order rk G wps fuel gens a wp,
  NoDup (map wp_path wps) -> (forall src, fmt src <> None) -> (forall p l, Permutation (order p l) l) ->
  In wp wps -> (forall g, In g gens -> fuel_ok G fuel wp g) ->
  let E := whole_env fmt order rk G in
  let gs := map (disp_gen wps fuel) gens in
  snd (pkg_effects E a gs (to_pkginfo wp)) = Done ->
  exists devs ws,
    D.pkg_execute D.fixed_all (wp_d wp) gens G
    = Ok (devs ++ (if is_nil ws then [] else [D.EWrites (D.pk_id (wp_d wp)) ws]), D.Done)
    /\ ws = map D.g_idx (filter (renders_on fmt order rk G wps fuel wp) gens)
    /\ Permutation (truncated (fst (fst (pkg_effects E a gs (to_pkginfo wp)))))
                   (map (fun g => gen_file a (to_pkginfo wp) (D.g_name g)) (filter (renders_on fmt order rk G wps fuel wp) gens)).
Proof.
  intros fmt order rk G wps fuel gens a wp Hnd Hfmt Hord Hwp Hfuel E gs Hd.
  destruct (gen_phase_agree fmt order rk G wps fuel Hnd gens wp gens Hwp (incl_refl _) Hfuel)
    as [devs [o [ws [Hpg [_ [_ [Hdone _]]]]]]].
  destruct (pkg_effects_trace fmt order rk G Hfmt a gs (to_pkginfo wp)) as [_ Hout].
  fold E in Hout. rewrite Hd in Hout. fold gs in Hdone. fold E in Hdone. destruct (Hdone (eq_sym Hout)) as [-> Hws].
  exists devs, ws. split; [unfold D.pkg_execute; rewrite Hpg; reflexivity|]. split; [exact Hws|].
  eapply Permutation_trans; [apply (pkg_effects_truncated E Hfmt Hord a gs (to_pkginfo wp) Hd)|].
  unfold gs. rewrite filter_map_comm, map_map. apply Permutation_refl.
Qed.
