(* Part E: on a well-typed program (wt_b) the repaired resolver never panics, and every alternative it reports for
   result i is a constant or assignable to the declared type of result i. *)
Require Import Gengo.Base.Bytes Gengo.Model.ResultsOf Gengo.Proofs.ResultsOf.
Require Import Coq.Arith.PeanoNat.

(* ---- the assignability relation of the tiny type language ---- *)

Lemma ty_eqb_refl : forall t, ty_eqb t t = true.
Proof. destruct t; cbn; try reflexivity; apply N.eqb_refl. Qed.

Lemma ty_eqb_eq : forall a b, ty_eqb a b = true <-> a = b.
Proof.
  intros a b. split.
  - destruct a, b; cbn; intros H; try discriminate; try reflexivity; apply N.eqb_eq in H; congruence.
  - intros ->. apply ty_eqb_refl.
Qed.

Lemma assignable_refl : forall t, assignable t t = true.
Proof. intros t. unfold assignable. rewrite ty_eqb_refl. reflexivity. Qed.

Lemma assignable_trans : forall a b c, assignable a b = true -> assignable b c = true -> assignable a c = true.
Proof.
  intros a b c H1 H2.
  destruct (ty_eqb a b) eqn:Eab; [apply ty_eqb_eq in Eab; subst; exact H2|].
  destruct (ty_eqb b c) eqn:Ebc; [apply ty_eqb_eq in Ebc; subst; exact H1|].
  unfold assignable in *. rewrite Eab in H1. rewrite Ebc in H2. cbn [orb] in H1, H2.
  destruct a, b; cbn in H1; try discriminate; destruct c; cbn in H2; try discriminate; cbn;
    rewrite ?orb_true_r; try reflexivity.
Qed.

Lemma is_error_eq : forall t, is_error t = true -> t = TError.
Proof. destruct t; cbn; intros; try discriminate; reflexivity. Qed.

Lemma good_alt_weaken : forall os T T' a,
    assignable T T' = true -> good_alt os T a = true -> good_alt os T' a = true.
Proof.
  intros os T T' a HT H. unfold good_alt, sound_b in *.
  apply andb_true_iff in H. destruct H as [H1 H2]. apply andb_true_iff. split.
  - apply orb_true_iff in H1. apply orb_true_iff. destruct H1 as [H1|H1]; [left; exact H1|right].
    eapply assignable_trans; eauto.
  - destruct (a_x a) as [|r o|o]; [reflexivity| |].
    + destruct (oty os o); [|discriminate]. eapply assignable_trans; eauto.
    + destruct (oty os o); [|discriminate]. eapply assignable_trans; eauto.
Qed.

Lemma good_type_alt : forall os r T pkg pos, assignable (r_ty r) T = true -> good_alt os T (type_alt r pkg pos) = true.
Proof. intros. unfold good_alt, sound_b, type_alt. cbn. rewrite H. reflexivity. Qed.

(* ---- small list facts ---- *)

Lemma list_eqb_ty_eq : forall a b, list_eqb ty_eqb a b = true -> a = b.
Proof. intros a b H. apply (list_eqb_spec ty_eqb ty_eqb_eq). exact H. Qed.

Lemma forallb2_nth : forall {A B} (f : A -> B -> bool) l1 l2 i a b,
    forallb2 f l1 l2 = true -> nth_error l1 i = Some a -> nth_error l2 i = Some b -> f a b = true.
Proof.
  intros A B f. induction l1 as [|x r IH]; intros [|y r2] i a b H Ha Hb; cbn in H; try discriminate.
  - destruct i; discriminate.
  - apply andb_true_iff in H. destruct H as [H1 H2]. destruct i; cbn in *.
    + inversion Ha; inversion Hb; subst. exact H1.
    + eapply IH; eauto.
Qed.

Lemma opt_all_nth : forall {A} (l : list (option A)) r i x,
    opt_all l = Some r -> nth_error l i = Some x -> exists a, x = Some a /\ nth_error r i = Some a.
Proof.
  intros A. induction l as [|o l IH]; intros r i x H Hn; [destruct i; discriminate|].
  cbn in H. destruct o as [a|]; [|discriminate]. destruct (opt_all l) as [r'|] eqn:E; [|discriminate].
  inversion H; subst. destruct i; cbn in *.
  - inversion Hn; subst. exists a. auto.
  - eapply IH; eauto.
Qed.

Lemma last_lhs_spec : forall target ls i acc k,
    last_lhs target ls i acc = Some k ->
    acc = Some k \/ exists l, i <= k /\ nth_error ls (k - i) = Some l /\ lhs_matches target l = true.
Proof.
  intros target. induction ls as [|l r IH]; intros i acc k H; cbn in H; [left; exact H|].
  apply IH in H. destruct H as [H|[l' [Hle [Hn Hm]]]].
  - destruct (lhs_matches target l) eqn:M; [|left; exact H].
    inversion H; subst. right. exists l. split; [lia|]. rewrite Nat.sub_diag. cbn. auto.
  - right. exists l'. split; [lia|]. split; [|exact Hm].
    replace (k - i) with (S (k - S i)) by lia. cbn. exact Hn.
Qed.

Lemma last_match_spec : forall target until evs acc a i,
    last_match target until evs acc = Some (a, i) ->
    acc = Some (a, i) \/
    (In (EvAssign a) evs /\ exists l, nth_error (as_lhs a) i = Some l /\ lhs_matches target l = true).
Proof.
  intros target until. induction evs as [|ev r IH]; intros acc a i H; cbn in H; [left; exact H|].
  destruct ev as [a0|endp es].
  - apply IH in H. destruct H as [H|[Hin Hl]]; [|right; split; [right; exact Hin|exact Hl]].
    destruct until as [u|]; [|left; exact H].
    destruct (N.ltb (as_pos a0) u); [|left; exact H].
    destruct (last_lhs target (as_lhs a0) 0 None) as [k|] eqn:E; [|left; exact H].
    inversion H; subst. apply last_lhs_spec in E. destruct E as [E|[l [_ [Hn Hm]]]]; [discriminate|].
    rewrite Nat.sub_0_r in Hn. right. split; [left; reflexivity|]. exists l. auto.
  - apply IH in H. destruct H as [H|[Hin Hl]]; [left; exact H|right; split; [right; exact Hin|exact Hl]].
Qed.

Lemma last_match_until_none : forall target evs acc, last_match target None evs acc = acc.
Proof. intros target. induction evs as [|[a|endp es] r IH]; intros acc; cbn; auto. Qed.

Lemma visited_no_panic : forall fxv p vs f fd at_,
    vs_wf p vs -> nth_error p f = Some fd -> at_ < nres fd ->
    exists seen vs', visited fxv vs f (nres fd) at_ = Ok (seen, vs') /\ vs_wf p vs'.
Proof.
  intros fxv p vs f fd at_ Hwf Hfd Hlt. unfold visited.
  assert (Hset : forall bits, length bits = nres fd -> vs_wf p (vs_set vs f bits)).
  { intros bits Hl g bs Hg. destruct (Nat.eq_dec g f) as [->|Hne].
    - rewrite vs_get_set_same in Hg. inversion Hg; subst. exists fd. auto.
    - rewrite vs_get_set_other in Hg by exact Hne. apply Hwf in Hg. exact Hg. }
  destruct (vs_get vs f) as [bits|] eqn:G.
  - destruct (Hwf _ _ G) as [fd' [Hfd' Hlen]]. rewrite Hfd in Hfd'. inversion Hfd'; subst fd'.
    destruct (nth_error bits at_) as [b|] eqn:Hn.
    + destruct fxv; [destruct b|]; eexists; eexists; (split; [reflexivity|]); auto.
      apply Hset. rewrite set_nth_length. exact Hlen.
    + apply nth_error_None in Hn. lia.
  - destruct (Nat.eqb (nres fd) 0) eqn:E0; [apply Nat.eqb_eq in E0; lia|].
    destruct (Nat.ltb at_ (nres fd)) eqn:El; [|apply Nat.ltb_ge in El; lia].
    eexists; eexists; split; [reflexivity|]. apply Hset. rewrite set_nth_length, repeat_length. reflexivity.
Qed.

Section Sound.
  Variable fx : fixes.
  Variable os : otys.
  Variable p : prog.
  Hypothesis Hcl : fx_closure fx = true.
  Hypothesis Hwt : wt_b os p = true.
  Variable Q : list alt -> Prop.          (* an invariant of the alternatives collected so far *)

  Definition Inv (s : state) : Prop := vs_wf p (st_vs s) /\ Q (st_out s).
  Definition okres (r : res state) : Prop := r <> Panic /\ forall s', r = Ok s' -> Inv s'.
  Definition kok (T : ty) (k : cont) : Prop := forall a s, good_alt os T a = true -> Inv s -> okres (k a s).
  Definition pok (T : ty) (P : cont -> state -> res state) : Prop := forall k s, kok T k -> Inv s -> okres (P k s).

  Lemma okres_ok : forall s, Inv s -> okres (Ok s).
  Proof. intros s H. split; [discriminate|]. intros s' E. inversion E; subst. exact H. Qed.

  Lemma okres_oof : okres OutOfFuel.
  Proof. split; [discriminate|]. intros s' E. discriminate. Qed.

  Lemma okres_bind : forall (m : res state) (f : state -> res state),
      okres m -> (forall s1, Inv s1 -> okres (f s1)) -> okres (bind m f).
  Proof.
    intros m f [Hne Hm] Hf. destruct m as [s1| |]; cbn; [apply Hf; apply Hm; reflexivity|congruence|apply okres_oof].
  Qed.

  Lemma kok_weaken : forall T T' k, assignable T T' = true -> kok T' k -> kok T k.
  Proof. intros T T' k HT Hk a s Ha Hs. apply Hk; [eapply good_alt_weaken; eauto|exact Hs]. Qed.

  Lemma wt_fdef_of : forall f fd, nth_error p f = Some fd -> wt_fdef os p fd = true.
  Proof.
    intros f fd H. unfold wt_b in Hwt. rewrite forallb_forall in Hwt. apply Hwt. eapply nth_error_In; eauto.
  Qed.

  (* what call_at needs to know of a call used at result index at_ where a value of type T is expected *)
  Definition wt_call_at (e : expr) (at_ : nat) (T : ty) : Prop :=
    match e with
    | ECall c args =>
        target_ok p c = true /\ wt_args os p c args = true /\
        (c_issig c = true -> forall rt, nth_error (c_res c) at_ = Some rt -> assignable (r_ty rt) T = true)
    | _ => True
    end.

  Definition wt_voc (T : ty) (e : expr) : Prop :=
    match e with
    | ECall _ _ => wt_call_at e 0 T
    | EVal a | EFuncLit _ a => good_alt os T a = true
    end.

  Lemma wt_expr_voc : forall T e, wt_expr os p T e = true -> wt_voc T e.
  Proof.
    intros T e H. destruct e as [a|c args|f a]; cbn [wt_voc]; try exact H.
    cbn [wt_expr] in H. apply andb_true_iff in H. destruct H as [H H3]. apply andb_true_iff in H. destruct H as [H1 H2].
    cbn [wt_call_at]. split; [exact H1|split; [exact H2|]]. intros Hs rt Hn. rewrite Hs in H3. cbn in H3.
    destruct (c_res c) as [|r [|r2 rest]]; try discriminate.
    cbn in Hn. inversion Hn; subst. exact H3.
  Qed.

  Section Level.
    Variable rec : nat -> nat -> nat -> cont -> state -> res state.
    Hypothesis Hrec : forall rlen f at_ fd T,
        nth_error p f = Some fd -> nth_error (map r_ty (f_res fd)) at_ = Some T -> pok T (rec rlen f at_).
    Variable rlen : nat.

    Lemma closure_loop_ok : forall cres f fd k,
        nth_error p f = Some fd -> kok TError k ->
        forall rs j s,
          (forall i own, nth_error rs i = Some own -> nth_error (f_res fd) (j + i) = Some own) ->
          Inv s -> okres (closure_loop fx rec rlen cres f k rs j s).
    Proof.
      intros cres f fd k Hfd Hk rs. induction rs as [|own rs' IH]; intros j s Hal Hs; cbn [closure_loop].
      - apply okres_ok. exact Hs.
      - rewrite Hcl. cbn [bind]. apply okres_bind.
        + destruct (is_error (r_ty own)) eqn:E; [|apply okres_ok; exact Hs].
          apply is_error_eq in E.
          apply (Hrec rlen f j fd TError Hfd); [|exact Hk|exact Hs].
          specialize (Hal 0 own eq_refl). rewrite Nat.add_0_r in Hal.
          rewrite nth_error_map, Hal. cbn. rewrite E. reflexivity.
        + intros s1 Hs1. apply IH; [|exact Hs1]. intros i own' Hn.
          replace (S j + i) with (j + S i) by lia. apply Hal. exact Hn.
    Qed.

    Lemma args_loop_ok : forall self c k,
        kok TError k ->
        forall l, Forall (fun arg => forall at_ T, wt_call_at arg at_ T -> pok T (self arg at_)) l ->
        forall i s, wt_args_with (wt_expr os p) c l i = true -> Inv s ->
                    okres (args_loop fx p rec rlen self c k l i s).
    Proof.
      intros self c k Hk l Hall. induction Hall as [|arg rest Harg _ IH]; intros i s Hw Hs; cbn [args_loop].
      - apply okres_ok. exact Hs.
      - cbn [wt_args_with] in Hw. apply andb_true_iff in Hw. destruct Hw as [Hw1 Hw2].
        apply okres_bind.
        + destruct (nth i (c_perr c) false); [|apply okres_ok; exact Hs].
          apply wt_expr_voc in Hw1. destruct arg as [a|c' args'|f a]; cbn [wt_voc] in Hw1.
          * apply Hk; assumption.
          * apply (Harg 0 TError Hw1); assumption.
          * apply Hk; assumption.
        + intros s1 Hs1. apply okres_bind.
          * destruct arg as [a|c' args'|f a]; try (apply okres_ok; exact Hs1).
            destruct (nth_error p f) as [fd|] eqn:Hfd; [|apply okres_ok; exact Hs1].
            apply (closure_loop_ok (c_res c) f fd k Hfd Hk); [|exact Hs1]. intros i0 own Hn. exact Hn.
          * intros s2 Hs2. apply IH; [exact Hw2|exact Hs2].
    Qed.

    Lemma call_at_ok : forall e at_ T, wt_call_at e at_ T -> pok T (call_at fx p rec rlen e at_).
    Proof.
      fix IH 1. intros e at_ T Hw k s Hk Hs. destruct e as [a|c args|f a]; cbn [call_at];
        try (apply okres_ok; exact Hs).
      destruct Hw as [Htg [Hargs Hres]].
      destruct (c_issig c) eqn:Esig; cbn [negb]; [|apply okres_ok; exact Hs].
      destruct (nth_error (c_res c) at_) as [rt|] eqn:Hn; [|apply okres_ok; exact Hs].
      specialize (Hres eq_refl rt eq_refl).
      destruct (follows (r_ty rt)); [|apply Hk; [apply good_type_alt; exact Hres|exact Hs]].
      apply okres_bind.
      - destruct (is_error (r_ty rt)) eqn:Eerr; [|apply okres_ok; exact Hs].
        apply is_error_eq in Eerr. rewrite Eerr in Hres.
        apply args_loop_ok; [eapply kok_weaken; eauto| |exact Hargs|exact Hs].
        clear -IH. induction args as [|x r IHr]; constructor; [|exact IHr].
        intros at0 T0. apply IH.
      - intros s1 Hs1. destruct (c_target c) as [f|] eqn:Etg; [|apply okres_ok; exact Hs1].
        destruct (nth_error p f) as [fd|] eqn:Hfd; [|apply okres_ok; exact Hs1].
        unfold target_ok in Htg. rewrite Etg, Hfd in Htg. apply list_eqb_ty_eq in Htg.
        apply (Hrec (nres fd) f at_ fd (r_ty rt) Hfd); [|eapply kok_weaken; eauto|exact Hs1].
        rewrite Htg, nth_error_map, Hn. reflexivity.
    Qed.

    Lemma value_or_call_ok : forall T e, wt_voc T e -> pok T (value_or_call fx p rec rlen e).
    Proof.
      intros T e Hw k s Hk Hs. destruct e as [a|c args|f a]; cbn [value_or_call wt_voc] in *.
      - apply Hk; assumption.
      - apply (call_at_ok _ 0 T Hw); assumption.
      - apply Hk; assumption.
    Qed.

    Lemma wt_tuple_head : forall Ts e rest at_ T,
        wt_tuple os p Ts (e :: rest) = true -> nth_error Ts at_ = Some T -> wt_call_at e at_ T.
    Proof.
      intros Ts e rest at_ T H HT. unfold wt_tuple in H.
      destruct (Nat.eqb (length (e :: rest)) (length Ts)) eqn:El.
      - destruct Ts as [|T0 Ts']; [discriminate|]. cbn [forallb2] in H.
        apply andb_true_iff in H. destruct H as [H _].
        destruct e as [a|c args|f a]; cbn [wt_call_at]; auto.
        cbn [wt_expr] in H. apply andb_true_iff in H. destruct H as [H H3]. apply andb_true_iff in H. destruct H as [H1 H2].
        split; [exact H1|split; [exact H2|]]. intros Hs rt Hn. rewrite Hs in H3. cbn in H3.
        destruct (c_res c) as [|r [|r2 rest2]]; try discriminate.
        destruct at_ as [|n]; cbn in Hn; [|destruct n; discriminate].
        inversion Hn; subst. cbn in HT. inversion HT; subst. exact H3.
      - destruct e as [a|c args|f a]; try discriminate. destruct rest; [|discriminate].
        apply andb_true_iff in H. destruct H as [H H3]. apply andb_true_iff in H. destruct H as [H1 H2].
        cbn [wt_call_at]. split; [exact H1|split; [exact H2|]]. intros Hs rt Hn. rewrite Hs in H3. cbn in H3.
        eapply (forallb2_nth (fun r T => assignable (r_ty r) T)); eauto.
    Qed.

    Lemma wt_tuple_nth : forall Ts es at_ e T,
        wt_tuple os p Ts es = true -> nth_error es at_ = Some e -> nth_error Ts at_ = Some T -> wt_voc T e.
    Proof.
      intros Ts es at_ e T H He HT. unfold wt_tuple in H.
      destruct (Nat.eqb (length es) (length Ts)) eqn:El.
      - apply wt_expr_voc. eapply (forallb2_nth (wt_expr os p)); eauto.
      - destruct es as [|e0 [|e1 rest]]; try discriminate; destruct e0 as [a|c args|f a]; try discriminate.
        destruct at_ as [|n]; [|destruct n; discriminate]. cbn in He. inversion He; subst.
        cbn [wt_voc]. apply (wt_tuple_head Ts _ [] 0 T); [|exact HT].
        unfold wt_tuple. rewrite El. exact H.
    Qed.

    Lemma raroa_ok : forall Ts es retN at_ T,
        wt_tuple os p Ts es = true -> nth_error Ts at_ = Some T -> pok T (raroa fx p rec rlen es retN at_).
    Proof.
      intros Ts es retN at_ T H HT k s Hk Hs. unfold raroa.
      destruct (Nat.ltb (length es) retN && Nat.ltb 0 (length es)).
      - destruct es as [|e rest]; [apply okres_ok; exact Hs|].
        apply (call_at_ok e at_ T); [eapply wt_tuple_head; eauto|exact Hk|exact Hs].
      - destruct (nth_error es at_) as [e|] eqn:He; [|apply okres_ok; exact Hs].
        apply (value_or_call_ok T e); [eapply wt_tuple_nth; eauto|exact Hk|exact Hs].
    Qed.

    Lemma assigned_until_ok : forall rs evs o To T until,
        Forall (fun ev => wt_event os p rs ev = true) evs ->
        oty os o = Some To -> assignable To T = true ->
        pok T (assigned_until fx p rec rlen evs (Some o) until).
    Proof.
      intros rs evs o To T until Hevs Ho HT k s Hk Hs. unfold assigned_until.
      destruct (last_match (Some o) until evs None) as [[a i]|] eqn:E; [|apply okres_ok; exact Hs].
      apply last_match_spec in E. destruct E as [E|[Hin [l [Hl Hm]]]]; [discriminate|].
      rewrite Forall_forall in Hevs. specialize (Hevs _ Hin). cbn [wt_event] in Hevs.
      destruct (opt_all (map (lhs_ty os) (as_lhs a))) as [Ts|] eqn:EO; [|discriminate].
      assert (HTi : nth_error Ts i = Some To).
      { destruct (opt_all_nth _ _ i (lhs_ty os l) EO) as [t [Ht Hn]].
        - rewrite nth_error_map, Hl. reflexivity.
        - rewrite Hn. f_equal.
          assert (Hlt : lhs_ty os l = Some To).
          { destruct l as [[o'|]|[o'|]|]; cbn in Hm; try discriminate;
              apply N.eqb_eq in Hm; subst o'; cbn; exact Ho. }
          congruence. }
      apply (raroa_ok Ts (as_rhs a) (length (as_lhs a)) i To Hevs HTi); [eapply kok_weaken; eauto|exact Hs].
    Qed.

    Lemma post_ok : forall rs pkg evs T k,
        Forall (fun ev => wt_event os p rs ev = true) evs -> kok T k -> kok T (post fx p rec rlen pkg evs k).
    Proof.
      intros rs pkg evs T k Hevs Hk ret s Hret Hs. unfold post.
      pose proof Hret as Hg. unfold good_alt in Hg. apply andb_true_iff in Hg. destruct Hg as [_ Hg].
      destruct (a_x ret) as [|resolved o|o].
      - apply Hk; assumption.
      - apply okres_bind.
        + destruct resolved; [apply okres_ok; exact Hs|apply Hk; assumption].
        + intros s1 Hs1. destruct (Nat.eqb (a_pkg ret) pkg).
          * destruct (oty os o) as [To|] eqn:Ho; [|discriminate].
            apply (assigned_until_ok rs evs o To T _ Hevs Ho Hg); assumption.
          * unfold assigned_until. rewrite last_match_until_none. apply okres_ok. exact Hs1.
      - apply okres_bind.
        + apply Hk; assumption.
        + intros s1 Hs1. destruct (Nat.eqb (a_pkg ret) pkg).
          * destruct (oty os o) as [To|] eqn:Ho; [|discriminate].
            apply (assigned_until_ok rs evs o To T _ Hevs Ho Hg); assumption.
          * unfold assigned_until. rewrite last_match_until_none. apply okres_ok. exact Hs1.
    Qed.

    Lemma named_obj_nth : forall rs at_ t, named_obj rs at_ = Some t ->
        exists r, nth_error rs at_ = Some r /\ r_obj r = Some t.
    Proof.
      induction rs as [|r rs IH]; intros [|n] t H; cbn in *; try discriminate.
      - exists r. auto.
      - apply IH. exact H.
    Qed.

    Lemma returns_loop_ok : forall fd all evs at_ T,
        forallb (wt_rdecl os) (f_res fd) = true ->
        Forall (fun ev => wt_event os p (f_res fd) ev = true) all ->
        Forall (fun ev => wt_event os p (f_res fd) ev = true) evs ->
        nth_error (map r_ty (f_res fd)) at_ = Some T ->
        pok T (returns_loop fx p rec rlen fd all evs at_).
    Proof.
      intros fd all evs at_ T Hrd Hall Hevs HT. induction Hevs as [|ev r Hev _ IH]; intros k s Hk Hs; cbn [returns_loop].
      - apply okres_ok. exact Hs.
      - destruct ev as [a|endp [es|]].
        + apply IH; assumption.
        + apply okres_bind.
          * cbn [wt_event] in Hev.
            apply (raroa_ok (map r_ty (f_res fd)) es rlen at_ T Hev HT); [|exact Hs].
            eapply post_ok; eauto.
          * intros s1 Hs1. apply IH; assumption.
        + apply okres_bind.
          * destruct (named_obj (f_res fd) at_) as [t|] eqn:En; [|apply okres_ok; exact Hs].
            apply named_obj_nth in En. destruct En as [r0 [Hr0 Hobj]].
            rewrite forallb_forall in Hrd. pose proof (Hrd r0 (nth_error_In _ _ Hr0)) as Hw.
            unfold wt_rdecl in Hw. rewrite Hobj in Hw.
            destruct (oty os t) as [To|] eqn:Ho; [|discriminate]. apply ty_eqb_eq in Hw. subst To.
            rewrite nth_error_map, Hr0 in HT. cbn in HT. inversion HT; subst T.
            apply (assigned_until_ok (f_res fd) all t (r_ty r0) (r_ty r0) _ Hall Ho (assignable_refl _)); assumption.
          * intros s1 Hs1. apply IH; assumption.
    Qed.
  End Level.

  Lemma scan_body_ok : forall rec,
      (forall rlen f at_ fd T, nth_error p f = Some fd -> nth_error (map r_ty (f_res fd)) at_ = Some T ->
                               pok T (rec rlen f at_)) ->
      forall rlen f at_ fd T, nth_error p f = Some fd -> nth_error (map r_ty (f_res fd)) at_ = Some T ->
                              pok T (scan_body fx p rec rlen f at_).
  Proof.
    intros rec Hrec rlen f at_ fd T Hfd HT k s Hk Hs. unfold scan_body. rewrite Hfd.
    destruct (f_body fd) as [body|] eqn:Eb; [|apply okres_ok; exact Hs].
    assert (Hlt : at_ < nres fd).
    { unfold nres. rewrite <- (map_length r_ty). apply nth_error_Some. congruence. }
    destruct Hs as [Hwf HQ].
    destruct (visited_no_panic (fx_visits fx) p (st_vs s) f fd at_ Hwf Hfd Hlt) as [seen [vs1 [Hv Hwf1]]].
    rewrite Hv. cbn [bind].
    destruct seen; [apply okres_ok; split; assumption|].
    pose proof (wt_fdef_of f fd Hfd) as Hw. unfold wt_fdef in Hw. rewrite Eb in Hw.
    apply andb_true_iff in Hw. destruct Hw as [Hrd Hevs]. rewrite forallb_forall in Hevs.
    assert (Hall : Forall (fun ev => wt_event os p (f_res fd) ev = true) (flatten_all body))
      by (apply Forall_forall; exact Hevs).
    apply (returns_loop_ok rec Hrec rlen fd _ _ at_ T Hrd Hall Hall HT); [exact Hk|split; assumption].
  Qed.

  Lemma scan_ok : forall fuel rlen f at_ fd T,
      nth_error p f = Some fd -> nth_error (map r_ty (f_res fd)) at_ = Some T -> pok T (scan fx p fuel rlen f at_).
  Proof.
    induction fuel as [|fuel IH]; intros rlen f at_ fd T Hfd HT.
    - intros k s _ _. apply okres_oof.
    - cbn [scan]. eapply scan_body_ok; eauto.
  Qed.
End Sound.

(* ---- the outermost loop ---- *)

Lemma results_from_ast_loop_sound : forall fx os p fuel f fd,
    fx_closure fx = true -> wt_b os p = true -> nth_error p f = Some fd ->
    forall sigres rlen at_ vs,
      vs_wf p vs ->
      (forall i r, nth_error sigres i = Some r -> nth_error (map r_ty (f_res fd)) (at_ + i) = Some (r_ty r)) ->
      results_from_ast_loop fx p fuel f sigres rlen at_ vs <> Panic /\
      forall ls vs', results_from_ast_loop fx p fuel f sigres rlen at_ vs = Ok (ls, vs') ->
                     vs_wf p vs' /\
                     Forall2 (fun r l => Forall (fun a => good_alt os (r_ty r) a = true) l) sigres ls.
Proof.
  intros fx os p fuel f fd Hcl Hwt Hfd sigres. induction sigres as [|r rest IH]; intros rlen at_ vs Hwf Hal;
    cbn [results_from_ast_loop].
  - split; [discriminate|]. intros ls vs' E. inversion E; subst. split; [exact Hwf|constructor].
  - set (Q := Forall (fun a => good_alt os (r_ty r) a = true)).
    assert (HT : nth_error (map r_ty (f_res fd)) at_ = Some (r_ty r)).
    { specialize (Hal 0 r eq_refl). rewrite Nat.add_0_r in Hal. exact Hal. }
    assert (Hk : kok os p Q (r_ty r) collect).
    { intros a s Ha [Hw HQ]. unfold collect. apply okres_ok. split; [exact Hw|]. cbn. constructor; assumption. }
    assert (Hs : Inv p Q (mk_state vs [])) by (split; [exact Hwf|constructor]).
    destruct (scan_ok fx os p Hcl Hwt Q fuel rlen f at_ fd (r_ty r) Hfd HT collect _ Hk Hs) as [Hne Hok].
    destruct (scan fx p fuel rlen f at_ collect (mk_state vs [])) as [s| |]; cbn [bind]; try congruence.
    2:{ split; [discriminate|]. intros; discriminate. }
    destruct (Hok s eq_refl) as [Hwf1 HQ1].
    assert (Hal' : forall i r0, nth_error rest i = Some r0 ->
                                nth_error (map r_ty (f_res fd)) (S at_ + i) = Some (r_ty r0)).
    { intros i r0 Hn. replace (S at_ + i) with (at_ + S i) by lia. apply Hal. exact Hn. }
    destruct (IH rlen (S at_) (st_vs s) Hwf1 Hal') as [Hne2 Hok2].
    destruct (results_from_ast_loop fx p fuel f rest rlen (S at_) (st_vs s)) as [[more vs'']| |]; cbn [bind];
      try congruence.
    2:{ split; [discriminate|]. intros; discriminate. }
    split; [discriminate|]. intros ls vs' E. inversion E; subst.
    destruct (Hok2 more vs' eq_refl) as [Hwf2 Hf2]. split; [exact Hwf2|]. constructor; [|exact Hf2].
    destruct (rev (st_out s)) eqn:Er; cbn [is_nil].
    + constructor; [|constructor]. apply good_type_alt. apply assignable_refl.
    + rewrite <- Er. apply Forall_rev. exact HQ1.
Qed.

Lemma results_from_ast_sound : forall fx os p fuel f fd sigres,
    fx_closure fx = true -> wt_b os p = true -> nth_error p f = Some fd ->
    map r_ty (f_res fd) = map r_ty sigres ->
    results_from_ast fx p fuel f sigres [] <> Panic /\
    forall ls, results_from_ast fx p fuel f sigres [] = Ok ls ->
               Forall2 (fun r l => Forall (fun a => good_alt os (r_ty r) a = true) l) sigres ls.
Proof.
  intros fx os p fuel f fd sigres Hcl Hwt Hfd Heq. unfold results_from_ast. rewrite Hfd.
  destruct (results_from_ast_loop_sound fx os p fuel f fd Hcl Hwt Hfd sigres (length sigres) 0 [] (vs_wf_nil p)) as [Hne Hok].
  { intros i r Hn. cbn. rewrite Heq, nth_error_map, Hn. reflexivity. }
  destruct (results_from_ast_loop fx p fuel f sigres (length sigres) 0 []) as [[ls vs]| |]; cbn [bind]; try congruence.
  - split; [discriminate|]. intros ls' E. inversion E; subst. apply (Hok ls' vs eq_refl).
  - split; [discriminate|]. intros; discriminate.
Qed.

Lemma from_signature_sound : forall os sigres,
    Forall2 (fun r l => Forall (fun a => good_alt os (r_ty r) a = true) l) sigres (from_signature sigres).
Proof.
  intros os sigres. unfold from_signature. induction sigres as [|r rest IH]; cbn; constructor; [|exact IH].
  constructor; [|constructor]. apply good_type_alt. apply assignable_refl.
Qed.

Lemma zip_app_sound : forall {A} (P : A -> list alt -> Prop) rs a b,
    (forall r x y, P r x -> P r y -> P r (x ++ y)) ->
    Forall2 P rs a -> Forall2 P rs b -> Forall2 P rs (zip_app a b).
Proof.
  intros A P rs a b Happ Ha. revert b. induction Ha as [|r x rs' a' Hx Ha' IH]; intros b Hb; [constructor|].
  inversion Hb; subst. cbn [zip_app]. constructor; [apply Happ; assumption|apply IH; assumption].
Qed.

Lemma forall2_good_sound : forall os sigres ls,
    Forall2 (fun r l => Forall (fun a => good_alt os (r_ty r) a = true) l) sigres ls ->
    forall i l r a, nth_error ls i = Some l -> nth_error sigres i = Some r -> In a l ->
                    sound_b a (r_ty r) = true.
Proof.
  intros os sigres ls HF. induction HF as [|r0 l0 rs ls' H0 _ IH]; intros i l r a Hl Hr Hin; [destruct i; discriminate|].
  destruct i; cbn in Hl, Hr.
  - inversion Hl; inversion Hr; subst. rewrite Forall_forall in H0. specialize (H0 a Hin).
    unfold good_alt in H0. apply andb_true_iff in H0. apply H0.
  - exact (IH i l r a Hl Hr Hin).
Qed.

Theorem results_of_sound : forall fx os p fuel en sigres,
    fx_closure fx = true -> wt_b os p = true -> entry_ok p en sigres = true ->
    results_of fx p fuel en sigres <> Panic /\
    forall ls n, results_of fx p fuel en sigres = Ok (ls, n) ->
      forall i l r a, nth_error ls i = Some l -> nth_error sigres i = Some r -> In a l ->
                      sound_b a (r_ty r) = true.
Proof.
  intros fx os p fuel en sigres Hcl Hwt Hen.
  pose proof (forall2_good_sound os sigres) as Hfin.
  unfold results_of. destruct (Nat.eqb (length sigres) 0) eqn:E0.
  - split; [discriminate|]. intros ls n E. inversion E; subst. intros i l r a Hl. destruct i; discriminate.
  - destruct en as [f|[f|]| |].
    + unfold entry_ok in Hen. destruct (nth_error p f) as [fd|] eqn:Hfd; [|discriminate].
      apply list_eqb_ty_eq in Hen.
      destruct (results_from_ast_sound fx os p fuel f fd sigres Hcl Hwt Hfd Hen) as [Hne Hok].
      destruct (results_from_ast fx p fuel f sigres []) as [ls0| |]; cbn [bind]; try congruence.
      * split; [discriminate|]. intros ls n E. inversion E; subst. apply Hfin. apply Hok. reflexivity.
      * split; [discriminate|]. intros; discriminate.
    + unfold entry_ok in Hen. destruct (nth_error p f) as [fd|] eqn:Hfd; [|discriminate].
      apply list_eqb_ty_eq in Hen.
      destruct (results_from_ast_sound fx os p fuel f fd sigres Hcl Hwt Hfd Hen) as [Hne Hok].
      destruct (results_from_ast fx p fuel f sigres []) as [inner| |]; cbn [bind]; try congruence.
      * split; [discriminate|]. intros ls n E. inversion E; subst.
        unfold concat_results. destruct (fx_concat fx); [|intros i l r a Hl; destruct i; discriminate].
        apply Hfin.
        destruct (Nat.eqb (length (from_signature sigres)) (length inner)); [|apply from_signature_sound].
        apply zip_app_sound; [|apply from_signature_sound|apply Hok; reflexivity].
        intros r x y Hx Hy. apply Forall_app. split; assumption.
      * split; [discriminate|]. intros; discriminate.
    + cbn [bind]. split; [discriminate|]. intros ls n E. inversion E; subst.
      unfold concat_results. destruct (fx_concat fx); [|intros i l r a Hl; destruct i; discriminate].
      apply Hfin.
      destruct (Nat.eqb (length (from_signature sigres)) (length (@nil (list alt)))); [|apply from_signature_sound].
      destruct sigres; [constructor|]. cbn. apply from_signature_sound.
    + split; [discriminate|]. intros ls n E. inversion E; subst. apply Hfin. apply from_signature_sound.
    + split; [discriminate|]. intros ls n E. inversion E; subst.
      destruct (fx_fallback fx); [apply Hfin; apply from_signature_sound|].
      intros i l r a Hl. destruct i; discriminate.
Qed.
