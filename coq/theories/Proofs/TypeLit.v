(* C11 — lemmas: the printer's syntax tree, read back through the import table it produced,
   is the type it was rendered from. *)
Require Import Gengo.Base.Bytes Gengo.Model.TypeLit Gengo.Spec.TypeLit.

(* ------------------------------------------------------------------------------------------ *)
(* association lists                                                                           *)

Lemma bytes_eqb_neq : forall a b, bytes_eqb a b = false <-> a <> b.
Proof.
  intros a b. split.
  - intros H E. subst. rewrite bytes_eqb_refl in H. discriminate.
  - intros H. destruct (bytes_eqb a b) eqn:E; [|reflexivity].
    apply bytes_eqb_spec in E. contradiction.
Qed.

Lemma alookup_app_none : forall (l1 l2 : renv) p,
  alookup p l1 = None -> alookup p (l1 ++ l2) = alookup p l2.
Proof.
  induction l1 as [|[k v] l1 IH]; intros l2 p H; cbn in *; [reflexivity|].
  destruct (bytes_eqb p k); [discriminate|]. apply IH, H.
Qed.

Lemma alookup_app_some : forall (l1 l2 : renv) p n,
  alookup p l1 = Some n -> alookup p (l1 ++ l2) = Some n.
Proof.
  induction l1 as [|[k v] l1 IH]; intros l2 p n H; cbn in *; [discriminate|].
  destruct (bytes_eqb p k); [exact H|]. apply IH, H.
Qed.

Lemma alookup_in : forall (l : renv) p n, alookup p l = Some n -> In (p, n) l.
Proof.
  induction l as [|[k v] l IH]; intros p n H; cbn in *; [discriminate|].
  destruct (bytes_eqb p k) eqn:E.
  - apply bytes_eqb_spec in E. inversion H; subst. left; reflexivity.
  - right. apply IH, H.
Qed.

Lemma alookup_none_notin : forall (l : renv) p, alookup p l = None -> ~ In p (map fst l).
Proof.
  induction l as [|[k v] l IH]; intros p H; cbn in *; [tauto|].
  destruct (bytes_eqb p k) eqn:E; [discriminate|].
  apply bytes_eqb_neq in E. intros [H1|H1]; [congruence|]. exact (IH _ H H1).
Qed.

Lemma rlookup_in_nodup : forall (l : renv) p n,
  NoDup (map snd l) -> In (p, n) l -> rlookup n l = Some p.
Proof.
  induction l as [|[k v] l IH]; intros p n Hnd Hin; cbn in *; [tauto|].
  inversion Hnd as [|? ? Hnot Hnd']; subst.
  destruct Hin as [Hin|Hin].
  - inversion Hin; subst. rewrite bytes_eqb_refl. reflexivity.
  - destruct (bytes_eqb n v) eqn:E.
    + apply bytes_eqb_spec in E. subst. exfalso. apply Hnot.
      apply in_map_iff. exists (p, v). split; [reflexivity|exact Hin].
    + apply IH; assumption.
Qed.

Lemma rlookup_none_notin : forall (l : renv) n, rlookup n l = None <-> ~ In n (map snd l).
Proof.
  induction l as [|[k v] l IH]; intros n; cbn; [tauto|].
  destruct (bytes_eqb n v) eqn:E.
  - apply bytes_eqb_spec in E. subst. split; [discriminate|]. intros H. exfalso. apply H. left; reflexivity.
  - apply bytes_eqb_neq in E. rewrite IH. split.
    + intros H [H1|H1]; [congruence|tauto].
    + intros H H1. apply H. right. exact H1.
Qed.

Lemma NoDup_app_one : forall (A : Type) (l : list A) x, NoDup l -> ~ In x l -> NoDup (l ++ [x]).
Proof.
  induction l as [|y l IH]; intros x Hnd Hx; cbn.
  - constructor; [intros []|constructor].
  - inversion Hnd; subst. constructor.
    + rewrite in_app_iff. cbn. intros [H|[H|[]]]; [contradiction|]. subst. apply Hx. left; reflexivity.
    + apply IH; [assumption|]. intros H. apply Hx. right; exact H.
Qed.

(* ------------------------------------------------------------------------------------------ *)
(* well-formed references: the domain of the ParseTypeRef hypothesis                            *)

Fixpoint tref_wf (t : tref) : bool :=
  match t with
  | TRef p n a => (is_nil p || pkg_ok p) && is_ident n && trefs_wf a
  end
with trefs_wf (l : trefs) : bool :=
  match l with
  | TRNil => true
  | TRCons t r => tref_wf t && trefs_wf r
  end.

Lemma bk_view_name_ident : forall k, is_ident (bk_view_name k) = true.
Proof. destruct k; vm_compute; reflexivity. Qed.

Lemma bk_view_name_predeclared : forall k, alookup (bk_view_name k) predeclared = Some (GBasic (bk_canon k)).
Proof. destruct k; vm_compute; reflexivity. Qed.

Lemma bk_view_name_nonnil : forall k, bk_view_name k <> [].
Proof. destruct k; vm_compute; discriminate. Qed.

Ltac btrue :=
  repeat match goal with
         | H : _ && _ = true |- _ => apply andb_true_iff in H; destruct H
         end.

Section Domain.
  Variable tag_ok : bytes -> bool.
  Variable self : bytes.

  (* unfolding equations (mutual fixpoints do not refold under cbn) *)
  Lemma in_domain_named : forall p n a,
    in_domain tag_ok self (GNamed p n a) =
    pkg_ok p && is_ident n && negb (is_predeclared n) && (bytes_eqb p self || exported n)
    && in_domain_args tag_ok self a.
  Proof. reflexivity. Qed.

  Lemma in_domain_args_cons : forall g r,
    in_domain_args tag_ok self (GCons g r) = is_arg g && in_domain tag_ok self g && in_domain_args tag_ok self r.
  Proof. reflexivity. Qed.

  Lemma in_domain_struct : forall fs, in_domain tag_ok self (GStruct fs) = in_domain_fields tag_ok self fs.
  Proof. reflexivity. Qed.

  Lemma in_domain_fields_cons : forall n anon o t tag r,
    in_domain_fields tag_ok self (GFCons n anon o t tag r) =
    (if anon then option_eqb bytes_eqb (emb_name t) (Some n) else true)
    && is_ident n && bytes_eqb o (if exported n then [] else self)
    && tag_ok tag && in_domain tag_ok self t && in_domain_fields tag_ok self r.
  Proof. reflexivity. Qed.

  Lemma tref_of_wf :
    (forall g, in_domain tag_ok self g = true -> is_arg g = true -> tref_wf (tref_of g) = true)
    /\ (forall gs, in_domain_args tag_ok self gs = true -> trefs_wf (trefs_of gs) = true)
    /\ (forall fs : gfields, True).
  Proof.
    apply gty_mutind; try (intros; exact I); try (intros; cbn in *; discriminate).
    - intros k _ _. cbn. rewrite bk_view_name_ident. reflexivity.
    - intros _ _. reflexivity.
    - intros p n a IH Hd _. rewrite in_domain_named in Hd. btrue.
      change (tref_wf (tref_of (GNamed p n a))) with ((is_nil p || pkg_ok p) && is_ident n && trefs_wf (trefs_of a)).
      rewrite IH by assumption.
      repeat match goal with H : _ = true |- _ => rewrite H end.
      rewrite orb_true_r. reflexivity.
    - intros _. reflexivity.
    - intros g IHg r IHr Hd. rewrite in_domain_args_cons in Hd. btrue.
      change (trefs_wf (trefs_of (GCons g r))) with (tref_wf (tref_of g) && trefs_wf (trefs_of r)).
      rewrite IHg, IHr by assumption. reflexivity.
  Qed.
End Domain.

(* ------------------------------------------------------------------------------------------ *)
(* tags                                                                                        *)

Lemma tag_ok_raw_value : forall s, tag_ok_raw s = true -> tag_value (RawTag s) = Some s.
Proof.
  unfold tag_ok_raw, tag_value. intros s H. apply negb_true_iff in H.
  assert (A : existsb (Ascii.eqb backquote) s = false /\ filter (fun c => negb (Ascii.eqb c cr)) s = s).
  { induction s as [|c s IH]; cbn [existsb filter] in *; [split; reflexivity|].
    apply orb_false_iff in H. destruct H as [H1 H2].
    apply orb_false_iff in H1. destruct H1 as [Hb Hc].
    destruct (IH H2) as [I1 I2]. split.
    - rewrite (Ascii.eqb_sym backquote c), Hb. exact I1.
    - rewrite Hc. cbn [negb]. rewrite I2. reflexivity. }
  destruct A as [A1 A2]. rewrite A1, A2. reflexivity.
Qed.

(* ------------------------------------------------------------------------------------------ *)
(* the round trip                                                                              *)

Definition ext (e e' : renv) : Prop := exists x, e' = e ++ x.

Lemma ext_refl : forall e, ext e e.
Proof. intros e. exists []. rewrite app_nil_r. reflexivity. Qed.

Lemma ext_trans : forall a b c, ext a b -> ext b c -> ext a c.
Proof. intros a b c [x Hx] [y Hy]. exists (x ++ y). subst. rewrite app_assoc. reflexivity. Qed.

Lemma ext_alookup : forall e e' p n, ext e e' -> alookup p e = Some n -> alookup p e' = Some n.
Proof. intros e e' p n [x Hx] H. subst. apply alookup_app_some, H. Qed.

Definition top_named (a : tyast) : option bytes := match a with ANamed _ n _ => Some n | _ => None end.
Definition g_top_named (g : gty) : option bytes :=
  match g with
  | GBasic k => Some (bk_view_name k)
  | GError => Some (bs "error")
  | GAny => Some (bs "any")
  | GNamed _ n _ => Some n
  | _ => None
  end.

Section RoundTrip.
  Variable pick : bytes -> renv -> option bytes.
  Variable parse_tref : bytes -> option tref.
  Variable self : bytes.
  Variable can_backquote : bytes -> bool.

  (* what C03 proves of the real tracker (names it hands out) *)
  Hypothesis H_pick_fresh : forall p e n, pick p e = Some n -> ~ In n (map snd e).
  Hypothesis H_pick_nonempty : forall p e n, pick p e = Some n -> n <> [].
  Hypothesis H_pick_total : forall p e, alookup p e = None -> pick p e <> None.
  (* any further property of the names the tracker hands out (instantiated below) *)
  Variable nm_ok : bytes -> Prop.
  Hypothesis H_pick_nm : forall p e n, pick p e = Some n -> nm_ok n.
  (* what C15 proves of the repaired ParseTypeRef *)
  Hypothesis H_parse : forall t, tref_wf t = true -> parse_tref (tref_string t) = Some t.
  (* strconv.CanBackquote: a string it accepts has no backquote and no carriage return *)
  Hypothesis H_cbq : forall s, can_backquote s = true -> tag_ok_raw s = true.

  Definition inv (e : renv) : Prop :=
    NoDup (map snd e) /\ ~ In self (map fst e) /\ Forall (fun n => n <> []) (map snd e)
    /\ Forall nm_ok (map snd e).

  Definition paths_spec (e e1 : renv) (F : list bytes) : Prop :=
    forall p, In p (map fst e1) <-> In p (map fst e) \/ In p F.

  Lemma paths_spec_refl : forall e, paths_spec e e [].
  Proof. intros e p. cbn. tauto. Qed.

  Lemma paths_spec_trans : forall e e1 e2 F1 F2,
    paths_spec e e1 F1 -> paths_spec e1 e2 F2 -> paths_spec e e2 (F1 ++ F2).
  Proof.
    intros e e1 e2 F1 F2 H1 H2 p. rewrite (H2 p), (H1 p), in_app_iff. tauto.
  Qed.

  Notation tr_add := (tr_add pick).
  Notation walk := (walk pick self).
  Notation walks := (walks pick self).
  Notation type_lit := (type_lit pick parse_tref self can_backquote true true).
  Notation fields_lit := (fields_lit pick parse_tref self can_backquote true true).

  Lemma tr_add_spec : forall p e,
    inv e -> p <> self ->
    ext e (tr_add p e) /\ inv (tr_add p e) /\ paths_spec e (tr_add p e) [p]
    /\ exists n, alookup p (tr_add p e) = Some n /\ n <> [].
  Proof.
    intros p e [Hnd [Hself [Hne Hok]]] Hp. unfold TypeLit.tr_add.
    destruct (alookup p e) as [n|] eqn:E.
    - split; [apply ext_refl|]. split; [repeat split; assumption|]. split.
      + intros q. cbn. split; [tauto|]. intros [H|[H|[]]]; [exact H|]. subst q.
        apply alookup_in in E. apply in_map_iff. exists (p, n). split; [reflexivity|exact E].
      + exists n. split; [exact E|].
        apply alookup_in in E. rewrite Forall_forall in Hne. apply Hne.
        apply in_map_iff. exists (p, n). split; [reflexivity|exact E].
    - destruct (pick p e) as [n|] eqn:Ep; [|exfalso; exact (H_pick_total p e E Ep)].
      split; [exists [(p, n)]; reflexivity|]. split; [|split].
      + unfold inv. rewrite !map_app. cbn. repeat split.
        * apply NoDup_app_one; [exact Hnd|exact (H_pick_fresh _ _ _ Ep)].
        * rewrite in_app_iff. cbn. intros [H|[H|[]]]; [exact (Hself H)|congruence].
        * apply Forall_app. split; [exact Hne|]. constructor; [exact (H_pick_nonempty _ _ _ Ep)|constructor].
        * apply Forall_app. split; [exact Hok|]. constructor; [exact (H_pick_nm _ _ _ Ep)|constructor].
      + intros q. rewrite map_app, in_app_iff. cbn. tauto.
      + exists n. split; [|exact (H_pick_nonempty _ _ _ Ep)].
        rewrite alookup_app_none by exact E. cbn. rewrite bytes_eqb_refl. reflexivity.
  Qed.

  Notation dom := (in_domain (fun _ => true) self).
  Notation dom_args := (in_domain_args (fun _ => true) self).
  Notation dom_fields := (in_domain_fields (fun _ => true) self).

  Definition free (l : list bytes) (ef : renv) : Prop := forall n, In n l -> rlookup n ef = None.

  Lemma free_app : forall l1 l2 ef, free (l1 ++ l2) ef -> free l1 ef /\ free l2 ef.
  Proof.
    intros l1 l2 ef H. split; intros n Hn; apply H; rewrite in_app_iff; [left|right]; exact Hn.
  Qed.

  Lemma paths_spec_equiv : forall e e1 F F',
    paths_spec e e1 F -> (forall x, In x F <-> In x F') -> paths_spec e e1 F'.
  Proof. intros e e1 F F' H HF p. rewrite (H p), (HF p). tauto. Qed.

  (* what a correct rendering of [g] from state [e] is *)
  Definition good (g : gty) (e : renv) (a : tyast) (e1 : renv) : Prop :=
    ext e e1 /\ inv e1 /\ paths_spec e e1 (foreign_pkgs self g)
    /\ top_named a = g_top_named g
    /\ (forall n, emb_name g = Some n -> embedded_name a = Some n)
    /\ (forall ef, ext e1 ef -> inv ef -> free (unq_names self g) ef -> resolve ef self a = Some (canon g)).

  Definition P (g : gty) : Prop :=
    forall e, dom g = true -> inv e -> exists a e1, type_lit (view_of g) e = Ok (a, e1) /\ good g e a e1.

  Definition P' (g : gty) : Prop :=
    forall e t' e1, dom g = true -> is_arg g = true -> inv e -> walk (tref_of g) e = (t', e1) ->
      ext e e1 /\ inv e1 /\ paths_spec e e1 (foreign_pkgs self g)
      /\ (forall ef, ext e1 ef -> inv ef -> free (unq_names self g) ef ->
           resolve ef self (ast_of_tref t') = Some (canon g)).

  Definition Q (gs : gtys) : Prop :=
    forall e ts' e1, dom_args gs = true -> inv e -> walks (trefs_of gs) e = (ts', e1) ->
      ext e e1 /\ inv e1 /\ paths_spec e e1 (foreign_pkgs_l self gs)
      /\ (forall ef, ext e1 ef -> inv ef -> free (unq_names_l self gs) ef ->
           resolve_args ef self (asts_of_trefs ts') = Some (canons gs)).

  Definition R (fs : gfields) : Prop :=
    forall e, dom_fields fs = true -> inv e ->
      exists afs e1, fields_lit (view_fields fs) e = Ok (afs, e1)
        /\ ext e e1 /\ inv e1 /\ paths_spec e e1 (foreign_pkgs_f self fs)
        /\ (forall ef, ext e1 ef -> inv ef -> free (unq_names_f self fs) ef ->
             resolve_fields ef self afs = Some (canon_fields fs)).

  (* ---- leaves ---- *)
  Lemma resolve_ident_predeclared : forall ef n g,
    rlookup n ef = None -> alookup n predeclared = Some g -> resolve ef self (ANamed [] n ANil) = Some g.
  Proof. intros ef n g H1 H2. cbn [resolve]. rewrite H1, H2. reflexivity. Qed.

  Lemma good_intro : forall g e a e1,
    ext e e1 -> inv e1 -> paths_spec e e1 (foreign_pkgs self g) ->
    top_named a = g_top_named g ->
    (forall n, emb_name g = Some n -> embedded_name a = Some n) ->
    (forall ef, ext e1 ef -> inv ef -> free (unq_names self g) ef -> resolve ef self a = Some (canon g)) ->
    good g e a e1.
  Proof. intros. unfold good. tauto. Qed.

  Lemma P_leaf : forall g nm,
    (forall e, type_lit (view_of g) e = Ok (ANamed [] nm ANil, e)) ->
    foreign_pkgs self g = [] -> g_top_named g = Some nm -> emb_name g = Some nm ->
    unq_names self g = [nm] -> alookup nm predeclared = Some (canon g) ->
    P g.
  Proof.
    intros g nm Hlit Hf Htop Hemb Hunq Hpre e _ Hinv.
    exists (ANamed [] nm ANil), e. split; [apply Hlit|].
    apply good_intro.
    - apply ext_refl.
    - exact Hinv.
    - rewrite Hf. apply paths_spec_refl.
    - rewrite Htop. reflexivity.
    - intros n Hn. rewrite Hemb in Hn. inversion Hn; subst. reflexivity.
    - intros ef _ _ Hfree. apply resolve_ident_predeclared; [|exact Hpre].
      apply Hfree. rewrite Hunq. left. reflexivity.
  Qed.

  Lemma P_basic : forall k, P (GBasic k).
  Proof.
    intros k. apply (P_leaf (GBasic k) (bk_view_name k)); try reflexivity.
    - intros e. cbn. unfold raw_ast. rewrite bk_view_name_ident. reflexivity.
    - apply bk_view_name_predeclared.
  Qed.

  Lemma P_error : P GError.
  Proof. apply (P_leaf GError (bs "error")); reflexivity. Qed.

  Lemma P_any : P GAny.
  Proof. apply (P_leaf GAny (bs "any")); reflexivity. Qed.

  (* ---- pointers, channels, slices, arrays ---- *)
  Lemma P_wrap : forall (G : gty -> gty) (V : tyview -> tyview) (A : tyast -> tyast) g,
    (forall v e, type_lit (V v) e = (let! (a, e1) := type_lit v e in Ok (A a, e1))) ->
    view_of (G g) = V (view_of g) -> dom (G g) = dom g ->
    foreign_pkgs self (G g) = foreign_pkgs self g -> unq_names self (G g) = unq_names self g ->
    canon (G g) = G (canon g) ->
    (forall ef a, resolve ef self (A a) = option_map G (resolve ef self a)) ->
    (forall a, top_named (A a) = None) -> g_top_named (G g) = None ->
    (forall a n, emb_name (G g) = Some n -> top_named a = g_top_named g -> embedded_name (A a) = Some n) ->
    P g -> P (G g).
  Proof.
    intros G V A g Hlit Hview Hdom Hf Hunq Hcanon Hres Htop Hgtop Hemb IH e Hd Hinv.
    rewrite Hdom in Hd. destruct (IH e Hd Hinv) as [a [e1 [Ha [G1 [G2 [G3 [G4 [G5 G6]]]]]]]].
    exists (A a), e1. split.
    - rewrite Hview, Hlit, Ha. reflexivity.
    - apply good_intro.
      + exact G1.
      + exact G2.
      + rewrite Hf. exact G3.
      + rewrite Htop, Hgtop. reflexivity.
      + intros n Hn. apply Hemb; assumption.
      + intros ef He Hi Hfr. rewrite Hres, (G6 ef He Hi), Hcanon; [reflexivity|].
        rewrite <- Hunq. exact Hfr.
  Qed.

  Lemma P_ptr : forall g, P g -> P (GPtr g).
  Proof.
    intros g. apply (P_wrap GPtr VPtr AStar); try reflexivity.
    intros a n Hn Ht. destruct g; cbn in Hn; try discriminate. inversion Hn; subst.
    cbn in Ht. destruct a; cbn in Ht; try discriminate. inversion Ht; subst. reflexivity.
  Qed.

  Lemma P_chan : forall g, P g -> P (GChan g).
  Proof. intros g. apply (P_wrap GChan VChan AChan); try reflexivity. intros a n Hn. discriminate. Qed.

  Lemma P_slice : forall g, P g -> P (GSlice g).
  Proof. intros g. apply (P_wrap GSlice VSlice ASlice); try reflexivity. intros a n Hn. discriminate. Qed.

  Lemma P_array : forall n g, P g -> P (GArray n g).
  Proof. intros n g. apply (P_wrap (GArray n) (VArray n) (AArray n)); try reflexivity. intros a m Hn. discriminate. Qed.

  Lemma P_map : forall k, P k -> forall g, P g -> P (GMap k g).
  Proof.
    intros k IHk g IHg e Hd Hinv.
    change (dom (GMap k g)) with (dom k && dom g) in Hd. btrue.
    destruct (IHk e) as [ak [e1 [Hk [K1 [K2 [K3 [_ [_ K6]]]]]]]]; [assumption|assumption|].
    destruct (IHg e1) as [ag [e2 [Hg [G1 [G2 [G3 [_ [_ G6]]]]]]]]; [assumption|assumption|].
    exists (AMap ak ag), e2. split.
    - change (type_lit (view_of (GMap k g)) e) with
        (let! (ak, e1) := type_lit (view_of k) e in let! (ax, e2) := type_lit (view_of g) e1 in Ok (AMap ak ax, e2)).
      rewrite Hk. cbn [bind]. rewrite Hg. reflexivity.
    - apply good_intro.
      + eapply ext_trans; eassumption.
      + exact G2.
      + change (foreign_pkgs self (GMap k g)) with (foreign_pkgs self k ++ foreign_pkgs self g).
        eapply paths_spec_trans; eassumption.
      + reflexivity.
      + intros n Hn. discriminate.
      + intros ef He Hi Hfr.
        change (unq_names self (GMap k g)) with (unq_names self k ++ unq_names self g) in Hfr.
        apply free_app in Hfr. destruct Hfr as [F1 F2].
        change (resolve ef self (AMap ak ag)) with
          (match resolve ef self ak, resolve ef self ag with Some k', Some v' => Some (GMap k' v') | _, _ => None end).
        rewrite (K6 ef), (G6 ef); try assumption; [reflexivity|].
        eapply ext_trans; eassumption.
  Qed.
  (* ---- structs ---- *)
  Lemma tag_lit_value : forall tag, tag_value (tag_lit can_backquote true tag) = Some tag.
  Proof.
    intros tag. unfold tag_lit. destruct tag as [|c tag]; [reflexivity|].
    cbn [is_nil andb]. destruct (can_backquote (c :: tag)) eqn:E; cbn [negb].
    - apply tag_ok_raw_value, H_cbq, E.
    - reflexivity.
  Qed.

  Lemma R_nil : R GFNil.
  Proof.
    intros e _ Hinv. exists AFNil, e. split; [reflexivity|].
    split; [apply ext_refl|]. split; [exact Hinv|]. split; [apply paths_spec_refl|].
    intros. reflexivity.
  Qed.

  Lemma R_cons : forall n anon o t tag r, P t -> R r -> R (GFCons n anon o t tag r).
  Proof.
    intros n anon o t tag r IHt IHr e Hd Hinv.
    rewrite in_domain_fields_cons in Hd. btrue.
    destruct (IHt e) as [a [e1 [Ha [T1 [T2 [T3 [_ [T5 T6]]]]]]]]; [assumption|assumption|].
    destruct (IHr e1) as [afs [e2 [Hr [R1 [R2 [R3 R4]]]]]]; [assumption|assumption|].
    exists (AFCons (if anon then [] else n) anon a (tag_lit can_backquote true tag) afs), e2. split.
    - change (fields_lit (view_fields (GFCons n anon o t tag r)) e) with
        (let! (a, e1) := type_lit (view_of t) e in
         let! (r', e2) := fields_lit (view_fields r) e1 in
         Ok (AFCons (if anon then [] else n) anon a (tag_lit can_backquote true tag) r', e2)).
      rewrite Ha. cbn [bind]. rewrite Hr. reflexivity.
    - split; [eapply ext_trans; eassumption|]. split; [exact R2|]. split.
      + change (foreign_pkgs_f self (GFCons n anon o t tag r)) with (foreign_pkgs self t ++ foreign_pkgs_f self r).
        eapply paths_spec_trans; eassumption.
      + intros ef He Hi Hfr.
        change (unq_names_f self (GFCons n anon o t tag r)) with (unq_names self t ++ unq_names_f self r) in Hfr.
        apply free_app in Hfr. destruct Hfr as [F1 F2].
        assert (Hname : (if anon then embedded_name a else Some (if anon then [] else n)) = Some n).
        { destruct anon; [|reflexivity]. apply T5.
          match goal with H : option_eqb bytes_eqb (emb_name t) (Some n) = true |- _ =>
            destruct (emb_name t) as [m|]; cbn in H; [|discriminate]; apply bytes_eqb_spec in H; subst; reflexivity end. }
        change (resolve_fields ef self (AFCons (if anon then [] else n) anon a (tag_lit can_backquote true tag) afs)) with
          (match (if anon then embedded_name a else Some (if anon then [] else n)), resolve ef self a,
                 tag_value (tag_lit can_backquote true tag), resolve_fields ef self afs with
           | Some fname, Some g, Some tv, Some r0 => Some (GFCons fname anon (if exported fname then [] else self) g tv r0)
           | _, _, _, _ => None
           end).
        rewrite Hname, (T6 ef), tag_lit_value, (R4 ef); try assumption.
        * match goal with H : bytes_eqb o _ = true |- _ => apply bytes_eqb_spec in H; rewrite <- H end. reflexivity.
        * eapply ext_trans; eassumption.
  Qed.

  Lemma P_struct : forall fs, R fs -> P (GStruct fs).
  Proof.
    intros fs IH e Hd Hinv. rewrite in_domain_struct in Hd.
    destruct (IH e Hd Hinv) as [afs [e1 [Hr [R1 [R2 [R3 R4]]]]]].
    exists (AStruct afs), e1. split.
    - change (type_lit (view_of (GStruct fs)) e) with
        (let! (afs, e1) := fields_lit (view_fields fs) e in Ok (AStruct afs, e1)).
      rewrite Hr. reflexivity.
    - apply good_intro; try assumption; try reflexivity.
      + intros n Hn. discriminate.
      + intros ef He Hi Hfr.
        change (resolve ef self (AStruct afs)) with (option_map GStruct (resolve_fields ef self afs)).
        rewrite (R4 ef He Hi Hfr). reflexivity.
  Qed.
  (* ---- type arguments (processName's walk) ---- *)
  Lemma walk_eq : forall p n a e,
    walk (TRef p n a) e =
    (let '(pkg', e1) :=
       if is_nil p then (p, e)
       else if bytes_eqb p self then ([], e)
       else let e1 := tr_add p e in (local_name_of p e1, e1) in
     let '(args', e2) := walks a e1 in (TRef pkg' n args', e2)).
  Proof. reflexivity. Qed.

  Lemma walks_cons_eq : forall t r e,
    walks (TRCons t r) e =
    (let '(t', e1) := walk t e in let '(r', e2) := walks r e1 in (TRCons t' r', e2)).
  Proof. reflexivity. Qed.

  Lemma Q_nil : Q GNil.
  Proof.
    intros e ts' e1 _ Hinv H. cbn in H. inversion H; subst.
    split; [apply ext_refl|]. split; [exact Hinv|]. split; [apply paths_spec_refl|].
    intros. reflexivity.
  Qed.

  Lemma Q_cons : forall g, P' g -> forall r, Q r -> Q (GCons g r).
  Proof.
    intros g IHg r IHr e ts' e2 Hd Hinv H.
    rewrite in_domain_args_cons in Hd. btrue.
    change (trefs_of (GCons g r)) with (TRCons (tref_of g) (trefs_of r)) in H.
    rewrite walks_cons_eq in H.
    destruct (walk (tref_of g) e) as [t' e1] eqn:Hw.
    destruct (walks (trefs_of r) e1) as [r' e2'] eqn:Hws.
    inversion H; subst ts' e2'. clear H.
    destruct (IHg e t' e1) as [A1 [A2 [A3 A4]]]; try assumption.
    destruct (IHr e1 r' e2) as [B1 [B2 [B3 B4]]]; try assumption.
    split; [eapply ext_trans; eassumption|]. split; [exact B2|]. split.
    - change (foreign_pkgs_l self (GCons g r)) with (foreign_pkgs self g ++ foreign_pkgs_l self r).
      eapply paths_spec_trans; eassumption.
    - intros ef He Hi Hfr.
      change (unq_names_l self (GCons g r)) with (unq_names self g ++ unq_names_l self r) in Hfr.
      apply free_app in Hfr. destruct Hfr as [F1 F2].
      change (resolve_args ef self (asts_of_trefs (TRCons t' r'))) with
        (match resolve ef self (ast_of_tref t'), resolve_args ef self (asts_of_trefs r') with
         | Some g0, Some gs => Some (GCons g0 gs) | _, _ => None end).
      rewrite (A4 ef), (B4 ef); try assumption; [reflexivity|].
      eapply ext_trans; eassumption.
  Qed.

  Lemma P'_leaf : forall g nm,
    tref_of g = TRef [] nm TRNil -> foreign_pkgs self g = [] ->
    unq_names self g = [nm] -> alookup nm predeclared = Some (canon g) -> P' g.
  Proof.
    intros g nm Ht Hf Hunq Hpre e t' e1 _ _ Hinv H.
    rewrite Ht in H. cbn in H. inversion H; subst.
    split; [apply ext_refl|]. split; [exact Hinv|]. split; [rewrite Hf; apply paths_spec_refl|].
    intros ef _ _ Hfr. apply resolve_ident_predeclared; [|exact Hpre].
    apply Hfr. rewrite Hunq. left. reflexivity.
  Qed.

  (* resolving a (possibly instantiated) type name *)
  Lemma resolve_local : forall ef n asts gs,
    rlookup n ef = None -> is_predeclared n = false -> is_ident n = true ->
    resolve_args ef self asts = Some gs ->
    resolve ef self (ANamed [] n asts) = Some (GNamed self n gs).
  Proof.
    intros ef n asts gs H1 H2 H3 H4.
    change (resolve ef self (ANamed [] n asts)) with
      (match rlookup n ef with
       | Some _ => None
       | None => match alookup n predeclared with
                 | Some g => match asts with ANil => Some g | _ => None end
                 | None => if is_ident n then option_map (GNamed self n) (resolve_args ef self asts) else None
                 end
       end).
    rewrite H1. unfold is_predeclared in H2. destruct (alookup n predeclared); [discriminate|].
    rewrite H3, H4. reflexivity.
  Qed.

  Lemma resolve_foreign : forall ef q p n asts gs,
    q <> [] -> rlookup q ef = Some p -> exported n = true -> is_ident n = true -> p <> self ->
    resolve_args ef self asts = Some gs ->
    resolve ef self (ANamed q n asts) = Some (GNamed p n gs).
  Proof.
    intros ef q p n asts gs Hq H1 H2 H3 H4 H5.
    destruct q as [|c q]; [contradiction|].
    change (resolve ef self (ANamed (c :: q) n asts)) with
      (match rlookup (c :: q) ef with
       | Some p => if exported n && is_ident n && negb (bytes_eqb p self)
                   then option_map (GNamed p n) (resolve_args ef self asts) else None
       | None => None
       end).
    rewrite H1, H2, H3. apply bytes_eqb_neq in H4. rewrite H4, H5. reflexivity.
  Qed.

  Lemma pkg_ok_nonnil : forall p, pkg_ok p = true -> is_nil p = false.
  Proof. intros p H. unfold pkg_ok in H. btrue. destruct p; [discriminate|reflexivity]. Qed.

  Lemma P'_named : forall p n a, Q a -> P' (GNamed p n a).
  Proof.
    intros p n a IH e t' e3 Hd _ Hinv H.
    rewrite in_domain_named in Hd. btrue.
    change (tref_of (GNamed p n a)) with (TRef p n (trefs_of a)) in H.
    rewrite walk_eq in H.
    match goal with Hp : pkg_ok p = true |- _ => rewrite (pkg_ok_nonnil p Hp) in H end.
    destruct (bytes_eqb p self) eqn:Eself.
    - (* a type of the target package: unqualified *)
      apply bytes_eqb_spec in Eself. subst p.
      destruct (walks (trefs_of a) e) as [args' e2] eqn:Hws.
      inversion H; subst t' e3. clear H.
      destruct (IH e args' e2) as [B1 [B2 [B3 B4]]]; try assumption.
      split; [exact B1|]. split; [exact B2|]. split.
      + change (foreign_pkgs self (GNamed self n a)) with
          ((if bytes_eqb self self then [] else [self]) ++ foreign_pkgs_l self a).
        rewrite bytes_eqb_refl. exact B3.
      + intros ef He Hi Hfr.
        change (unq_names self (GNamed self n a)) with
          ((if bytes_eqb self self then [n] else []) ++ unq_names_l self a) in Hfr.
        rewrite bytes_eqb_refl in Hfr. apply free_app in Hfr. destruct Hfr as [F1 F2].
        change (ast_of_tref (TRef [] n args')) with (ANamed [] n (asts_of_trefs args')).
        change (canon (GNamed self n a)) with (GNamed self n (canons a)).
        apply resolve_local; try assumption.
        * apply F1. left. reflexivity.
        * match goal with Hn : negb (is_predeclared n) = true |- _ => apply negb_true_iff in Hn; exact Hn end.
        * apply B4; assumption.
    - (* a type of another package: registered, then qualified by the local name *)
      assert (Hne : p <> self) by (apply bytes_eqb_neq; exact Eself).
      cbn [orb] in *.
      destruct (tr_add_spec p e Hinv Hne) as [A1 [A2 [A3 [q [Hq Hqne]]]]].
      cbv zeta in H.
      destruct (walks (trefs_of a) (tr_add p e)) as [args' e2] eqn:Hws.
      inversion H; subst t' e3. clear H.
      destruct (IH (tr_add p e) args' e2) as [B1 [B2 [B3 B4]]]; try assumption.
      split; [eapply ext_trans; eassumption|]. split; [exact B2|]. split.
      + change (foreign_pkgs self (GNamed p n a)) with
          ((if bytes_eqb p self then [] else [p]) ++ foreign_pkgs_l self a).
        rewrite Eself. eapply paths_spec_trans; eassumption.
      + intros ef He Hi Hfr.
        change (unq_names self (GNamed p n a)) with
          ((if bytes_eqb p self then [n] else []) ++ unq_names_l self a) in Hfr.
        rewrite Eself in Hfr. cbn [app] in Hfr.
        unfold local_name_of. rewrite Hq.
        change (ast_of_tref (TRef q n args')) with (ANamed q n (asts_of_trefs args')).
        change (canon (GNamed p n a)) with (GNamed p n (canons a)).
        apply resolve_foreign; try assumption.
        * apply rlookup_in_nodup; [apply Hi|].
          apply alookup_in. eapply ext_alookup; [|exact Hq]. eapply ext_trans; eassumption.
        * apply B4; assumption.
  Qed.
  (* ---- a named type in type position (rawNamer.Name) ---- *)
  Lemma process_name_ok : forall n a e args' e2,
    dom_args a = true -> is_ident n = true ->
    walks (trefs_of a) e = (args', e2) ->
    process_name pick parse_tref self (name_string n a) e = Ok (TRef [] n args', e2).
  Proof.
    intros n a e args' e2 Hd Hn Hw. unfold process_name, name_string.
    rewrite H_parse.
    2:{ change (tref_wf (TRef [] n (trefs_of a))) with ((is_nil (@nil ascii) || pkg_ok []) && is_ident n && trefs_wf (trefs_of a)).
        rewrite Hn. destruct (tref_of_wf (fun _ => true) self) as [_ [W _]]. rewrite (W a Hd). reflexivity. }
    destruct a as [|g r].
    - cbn in Hw. inversion Hw; subst. reflexivity.
    - change (trefs_of (GCons g r)) with (TRCons (tref_of g) (trefs_of r)) in *.
      cbv iota beta. rewrite walk_eq. cbn [is_nil]. rewrite Hw. reflexivity.
  Qed.

  Lemma ident_nonnil : forall n, is_ident n = true -> n <> [].
  Proof. intros n H E. subst. discriminate. Qed.

  Lemma P_named : forall p n a, Q a -> P (GNamed p n a).
  Proof.
    intros p n a IH e Hd Hinv.
    rewrite in_domain_named in Hd. btrue.
    destruct (walks (trefs_of a) e) as [args' e2] eqn:Hws.
    destruct (IH e args' e2) as [B1 [B2 [B3 B4]]]; try assumption.
    assert (Hpn : process_name pick parse_tref self (name_string n a) e = Ok (TRef [] n args', e2))
      by (apply process_name_ok; assumption).
    assert (Hnn : n <> []) by (apply ident_nonnil; assumption).
    change (type_lit (view_of (GNamed p n a)) e) with
      (namer_name pick parse_tref self p (name_string n a) [] e).
    unfold namer_name. rewrite Hpn. cbn [bind].
    destruct (bytes_eqb p self) eqn:Eself.
    - apply bytes_eqb_spec in Eself. subst p.
      exists (ANamed [] n (asts_of_trefs args')), e2. split.
      + destruct n as [|c n]; [contradiction|]. reflexivity.
      + apply good_intro; try assumption; try reflexivity.
        * change (foreign_pkgs self (GNamed self n a)) with
            ((if bytes_eqb self self then [] else [self]) ++ foreign_pkgs_l self a).
          rewrite bytes_eqb_refl. exact B3.
        * intros m Hm. cbn in Hm. inversion Hm; subst. reflexivity.
        * intros ef He Hi Hfr.
          change (unq_names self (GNamed self n a)) with
            ((if bytes_eqb self self then [n] else []) ++ unq_names_l self a) in Hfr.
          rewrite bytes_eqb_refl in Hfr. apply free_app in Hfr. destruct Hfr as [F1 F2].
          change (canon (GNamed self n a)) with (GNamed self n (canons a)).
          apply resolve_local; try assumption.
          -- apply F1. left. reflexivity.
          -- match goal with Hn : negb (is_predeclared n) = true |- _ => apply negb_true_iff in Hn; exact Hn end.
          -- apply B4; assumption.
    - assert (Hne : p <> self) by (apply bytes_eqb_neq; exact Eself).
      cbn [orb] in *.
      destruct (tr_add_spec p e2 B2 Hne) as [A1 [A2 [A3 [q [Hq Hqne]]]]].
      exists (ANamed q n (asts_of_trefs args')), (tr_add p e2). split.
      + cbv zeta. unfold local_name_of. rewrite Hq.
        destruct q as [|c q]; [contradiction|]. reflexivity.
      + apply good_intro; try assumption; try reflexivity.
        * eapply ext_trans; eassumption.
        * change (foreign_pkgs self (GNamed p n a)) with
            ((if bytes_eqb p self then [] else [p]) ++ foreign_pkgs_l self a).
          rewrite Eself.
          apply (paths_spec_equiv e (tr_add p e2) (foreign_pkgs_l self a ++ [p])).
          -- eapply paths_spec_trans; eassumption.
          -- intros x. rewrite !in_app_iff. tauto.
        * intros m Hm. cbn in Hm. inversion Hm; subst. reflexivity.
        * intros ef He Hi Hfr.
          change (unq_names self (GNamed p n a)) with
            ((if bytes_eqb p self then [n] else []) ++ unq_names_l self a) in Hfr.
          rewrite Eself in Hfr. cbn [app] in Hfr.
          change (canon (GNamed p n a)) with (GNamed p n (canons a)).
          apply resolve_foreign; try assumption.
          -- apply rlookup_in_nodup; [apply Hi|].
             apply alookup_in. eapply ext_alookup; [exact He|exact Hq].
          -- apply B4; try assumption. eapply ext_trans; eassumption.
  Qed.

  (* ---- assembling the mutual induction ---- *)
  Lemma P'_other : forall g, is_arg g = false -> P' g.
  Proof. intros g H e t' e1 _ Ha. rewrite H in Ha. discriminate. Qed.

  Theorem roundtrip_all :
    (forall g, P g /\ P' g) /\ (forall gs, Q gs) /\ (forall fs, R fs).
  Proof.
    apply gty_mutind.
    - intros k. split; [apply P_basic|].
      apply (P'_leaf (GBasic k) (bk_view_name k)); try reflexivity. apply bk_view_name_predeclared.
    - split; [apply P_error|]. apply (P'_leaf GError (bs "error")); reflexivity.
    - split; [apply P_any|]. apply P'_other. reflexivity.
    - intros p n a IH. split; [apply P_named|apply P'_named]; exact IH.
    - intros g [IH _]. split; [apply P_ptr; exact IH|apply P'_other; reflexivity].
    - intros g [IH _]. split; [apply P_chan; exact IH|apply P'_other; reflexivity].
    - intros g [IH _]. split; [apply P_slice; exact IH|apply P'_other; reflexivity].
    - intros n g [IH _]. split; [apply P_array; exact IH|apply P'_other; reflexivity].
    - intros k [IHk _] g [IHg _]. split; [apply P_map; assumption|apply P'_other; reflexivity].
    - intros fs IH. split; [apply P_struct; exact IH|apply P'_other; reflexivity].
    - apply Q_nil.
    - intros g [_ IHg] r IHr. apply Q_cons; assumption.
    - apply R_nil.
    - intros n anon o t [IHt _] tag r IHr. apply R_cons; assumption.
  Qed.
End RoundTrip.

(* ------------------------------------------------------------------------------------------ *)
(* the statements used by Props/C11.v                                                          *)

Definition tracker_hyps (pick : bytes -> renv -> option bytes) : Prop :=
  (forall p e n, pick p e = Some n -> ~ In n (map snd e))
  /\ (forall p e n, pick p e = Some n -> n <> [])
  /\ (forall p e, alookup p e = None -> pick p e <> None).

(* what C03 adds about the real tracker after fixes/C03-3 (Props/C03.v C03_not_predeclared_universe, for every
   history, every reserved table): a local name is never a predeclared identifier.  A HYPOTHESIS here, like
   [tracker_hyps]: this development treats the tracker abstractly. *)
Definition tracker_not_predeclared (pick : bytes -> renv -> option bytes) : Prop :=
  forall p e n, pick p e = Some n -> is_predeclared n = false.

(* ... and on ASCII paths its names are lower-cased (C03_local_name_is_lowercased_words + sanitising) *)
Definition tracker_lower_case (pick : bytes -> renv -> option bytes) : Prop :=
  forall p e n, pick p e = Some n -> exported n = false.

Definition parse_hyp (parse_tref : bytes -> option tref) : Prop :=
  forall t, tref_wf t = true -> parse_tref (tref_string t) = Some t.

Definition cbq_hyp (can_backquote : bytes -> bool) : Prop :=
  forall s, can_backquote s = true -> tag_ok_raw s = true.

(* the tracker state: local names pairwise distinct and non-empty, the target package itself not imported *)
Definition tracker_inv (self : bytes) (e : renv) : Prop := inv self (fun _ => True) e.

(* no identifier the text uses unqualified is the name of an import *)
Definition free_names (self : bytes) (g : gty) (e : renv) : Prop :=
  forall n, In n (unq_names self g) -> rlookup n e = None.

(* the part of [free_names] that remains once import names are known not to be predeclared: the names of the
   target package's own types that occur in g (every other unqualified identifier of the text is predeclared) *)
Definition free_own_names (self : bytes) (g : gty) (e : renv) : Prop :=
  forall n, In n (unq_names self g) -> is_predeclared n = false -> rlookup n e = None.

Definition no_predeclared_names (e : renv) : Prop := Forall (fun n => is_predeclared n = false) (map snd e).

Definition all_tags : bytes -> bool := fun _ => true.

(* x is what ident.Frag receives for the type g: its reflect.Type, its go/types Type, or — for the predeclared
   any, which go/types represents as an alias — the *types.Alias, which ident.Frag tests for first *)
Definition renders (x : idarg) (g : gty) : Prop :=
  x = IdR (view_of g) \/ x = IdT (view_of g) \/ (x = IdAlias (bs "any") /\ g = GAny).

Section Final.
  Variable pick : bytes -> renv -> option bytes.
  Variable parse_tref : bytes -> option tref.
  Variable self : bytes.
  Variable can_backquote : bytes -> bool.
  Hypothesis Ht : tracker_hyps pick.
  Hypothesis Hp : parse_hyp parse_tref.
  Hypothesis Hc : cbq_hyp can_backquote.

  Notation frag := (ident_frag pick parse_tref self can_backquote true true).

  Lemma frag_type_lit : forall x g e, renders x g ->
    frag x e = type_lit pick parse_tref self can_backquote true true (view_of g) e.
  Proof. intros x g e [H|[H|[H1 H2]]]; subst; reflexivity. Qed.

  Lemma main_P : forall (nm_ok : bytes -> Prop),
    (forall p e n, pick p e = Some n -> nm_ok n) ->
    forall g, P pick parse_tref self can_backquote nm_ok g.
  Proof.
    intros nm_ok Hn g. destruct Ht as [H1 [H2 H3]].
    destruct (roundtrip_all pick parse_tref self can_backquote H1 H2 H3 nm_ok Hn Hp Hc) as [H _].
    apply H.
  Qed.

  Lemma total : forall x g e,
    renders x g -> in_domain all_tags self g = true -> tracker_inv self e ->
    exists a e', frag x e = Ok (a, e').
  Proof.
    intros x g e Hx Hd Hi. rewrite (frag_type_lit x g e Hx).
    destruct (main_P (fun _ => True) (fun _ _ _ _ => I) g e Hd Hi) as [a [e1 [Ha _]]].
    exists a, e1. exact Ha.
  Qed.

  Lemma roundtrip : forall x g e a e',
    renders x g -> in_domain all_tags self g = true -> tracker_inv self e ->
    frag x e = Ok (a, e') -> free_names self g e' ->
    resolve e' self a = Some (canon g).
  Proof.
    intros x g e a e' Hx Hd Hi Hf Hfree. rewrite (frag_type_lit x g e Hx) in Hf.
    destruct (main_P (fun _ => True) (fun _ _ _ _ => I) g e Hd Hi) as [a0 [e0 [Ha [_ [G2 [_ [_ [_ G6]]]]]]]].
    rewrite Ha in Hf. inversion Hf; subst. apply G6; [apply ext_refl|exact G2|exact Hfree].
  Qed.

  Lemma imports_exact : forall x g e a e',
    renders x g -> in_domain all_tags self g = true -> tracker_inv self e ->
    frag x e = Ok (a, e') ->
    (exists added, e' = e ++ added) /\ tracker_inv self e'
    /\ (forall p, In p (map fst e') <-> In p (map fst e) \/ In p (foreign_pkgs self g)).
  Proof.
    intros x g e a e' Hx Hd Hi Hf. rewrite (frag_type_lit x g e Hx) in Hf.
    destruct (main_P (fun _ => True) (fun _ _ _ _ => I) g e Hd Hi) as [a0 [e0 [Ha [G1 [G2 [G3 _]]]]]].
    rewrite Ha in Hf. inversion Hf; subst. split; [exact G1|]. split; [exact G2|exact G3].
  Qed.

  (* ---- with the C03 fact as hypothesis the predeclared half of [free_names] is discharged: an import can only
     clash with the name of one of the target package's own types ---- *)
  Lemma roundtrip_no_predeclared_imports : forall x g e a e',
    tracker_not_predeclared pick ->
    renders x g -> in_domain all_tags self g = true -> tracker_inv self e -> no_predeclared_names e ->
    frag x e = Ok (a, e') -> free_own_names self g e' ->
    no_predeclared_names e' /\ resolve e' self a = Some (canon g).
  Proof.
    intros x g e a e' Hnp Hx Hd Hi Hnames Hf Hfree. rewrite (frag_type_lit x g e Hx) in Hf.
    assert (Hi' : inv self (fun n => is_predeclared n = false) e).
    { destruct Hi as [I1 [I2 [I3 _]]]. repeat split; assumption. }
    destruct (main_P (fun n => is_predeclared n = false) Hnp g e Hd Hi') as [a0 [e0 [Ha [_ [G2 [_ [_ [_ G6]]]]]]]].
    rewrite Ha in Hf. inversion Hf; subst. split; [destruct G2 as [_ [_ [_ Hall]]]; exact Hall|].
    apply G6; [apply ext_refl|exact G2|].
    intros n Hn. destruct (is_predeclared n) eqn:E; [|apply Hfree; assumption].
    apply rlookup_none_notin. intros Hin.
    destruct G2 as [_ [_ [_ Hall]]]. rewrite Forall_forall in Hall. specialize (Hall n Hin). cbn in Hall. congruence.
  Qed.

  (* ---- corollary: when the tracker hands out lower-case, non-predeclared names (what C03 shows of the real
     one on ASCII paths) and the target package's own types are exported, nothing can clash ---- *)
  Definition lower_name (n : bytes) : Prop := is_predeclared n = false /\ exported n = false.

  Lemma unq_names_class :
    (forall g, in_domain all_tags self g = true -> locals_exported self g = true ->
       forall n, In n (unq_names self g) -> is_predeclared n = true \/ exported n = true)
    /\ (forall gs, in_domain_args all_tags self gs = true -> locals_exported_l self gs = true ->
       forall n, In n (unq_names_l self gs) -> is_predeclared n = true \/ exported n = true)
    /\ (forall fs, in_domain_fields all_tags self fs = true -> locals_exported_f self fs = true ->
       forall n, In n (unq_names_f self fs) -> is_predeclared n = true \/ exported n = true).
  Proof.
    apply gty_mutind.
    - intros k _ _ n [H|[]]. subst. left. unfold is_predeclared. rewrite bk_view_name_predeclared. reflexivity.
    - intros _ _ n [H|[]]. subst. left. reflexivity.
    - intros _ _ n [H|[]]. subst. left. reflexivity.
    - intros p n a IH Hd Hl m Hm. rewrite in_domain_named in Hd. btrue.
      change (locals_exported self (GNamed p n a)) with
        ((negb (bytes_eqb p self) || exported n) && locals_exported_l self a) in Hl. btrue.
      change (unq_names self (GNamed p n a)) with
        ((if bytes_eqb p self then [n] else []) ++ unq_names_l self a) in Hm.
      apply in_app_iff in Hm. destruct Hm as [Hm|Hm].
      + destruct (bytes_eqb p self); [|destruct Hm]. destruct Hm as [Hm|[]]. subst m.
        right. match goal with H : negb true || exported n = true |- _ => exact H end.
      + apply IH; assumption.
    - intros g IH Hd Hl. apply IH; assumption.
    - intros g IH Hd Hl. apply IH; assumption.
    - intros g IH Hd Hl. apply IH; assumption.
    - intros n g IH Hd Hl. apply IH; assumption.
    - intros k IHk g IHg Hd Hl m Hm.
      change (in_domain all_tags self (GMap k g)) with (in_domain all_tags self k && in_domain all_tags self g) in Hd.
      change (locals_exported self (GMap k g)) with (locals_exported self k && locals_exported self g) in Hl.
      change (unq_names self (GMap k g)) with (unq_names self k ++ unq_names self g) in Hm. btrue.
      apply in_app_iff in Hm. destruct Hm; [apply IHk|apply IHg]; assumption.
    - intros fs IH Hd Hl. apply IH; assumption.
    - intros _ _ n [].
    - intros g IHg r IHr Hd Hl m Hm. rewrite in_domain_args_cons in Hd.
      change (locals_exported_l self (GCons g r)) with (locals_exported self g && locals_exported_l self r) in Hl.
      change (unq_names_l self (GCons g r)) with (unq_names self g ++ unq_names_l self r) in Hm. btrue.
      apply in_app_iff in Hm. destruct Hm; [apply IHg|apply IHr]; assumption.
    - intros _ _ n [].
    - intros n anon o t IHt tag r IHr Hd Hl m Hm. rewrite in_domain_fields_cons in Hd.
      change (locals_exported_f self (GFCons n anon o t tag r)) with (locals_exported self t && locals_exported_f self r) in Hl.
      change (unq_names_f self (GFCons n anon o t tag r)) with (unq_names self t ++ unq_names_f self r) in Hm. btrue.
      apply in_app_iff in Hm. destruct Hm; [apply IHt|apply IHr]; assumption.
  Qed.

  Lemma roundtrip_exported : forall x g e a e',
    tracker_not_predeclared pick -> tracker_lower_case pick ->
    renders x g -> in_domain all_tags self g = true -> locals_exported self g = true ->
    tracker_inv self e -> Forall lower_name (map snd e) ->
    frag x e = Ok (a, e') ->
    resolve e' self a = Some (canon g).
  Proof.
    intros x g e a e' Hnp Hlc Hx Hd Hl Hi Hnames Hf. rewrite (frag_type_lit x g e Hx) in Hf.
    assert (Hlow : forall p e n, pick p e = Some n -> lower_name n) by (intros p0 e0 n0 Hp0; split; [eapply Hnp|eapply Hlc]; eauto).
    assert (Hi' : inv self lower_name e).
    { destruct Hi as [I1 [I2 [I3 _]]]. repeat split; assumption. }
    destruct (main_P lower_name Hlow g e Hd Hi') as [a0 [e0 [Ha [_ [G2 [_ [_ [_ G6]]]]]]]].
    rewrite Ha in Hf. inversion Hf; subst. apply G6; [apply ext_refl|exact G2|].
    intros n Hn. apply rlookup_none_notin. intros Hin.
    destruct G2 as [_ [_ [_ Hall]]]. rewrite Forall_forall in Hall. destruct (Hall n Hin) as [L1 L2].
    destruct unq_names_class as [U _]. destruct (U g Hd Hl n Hn) as [C|C]; congruence.
  Qed.
End Final.

(* ---- the defects the check found, kept as refutations of the unrepaired code ---- *)
Definition g_struct_error : gty := GStruct (GFCons (bs "E") false [] GError [] GFNil).
Definition g_struct_tag : gty := GStruct (GFCons (bs "A") false [] (GBasic BInt) (bs "a`b") GFNil).

Lemma error_refuted_before_fix :
  forall pick parse_tref self can_backquote fx_tag,
    in_domain all_tags self g_struct_error = true /\
    exists a, type_lit pick parse_tref self can_backquote false fx_tag (view_of g_struct_error) [] = Ok (a, [])
              /\ resolve [] self a <> Some (canon g_struct_error).
Proof.
  intros. split; [reflexivity|]. eexists. split; [reflexivity|]. cbn. discriminate.
Qed.

Lemma tag_refuted_before_fix :
  forall pick parse_tref self can_backquote fx_err,
    in_domain all_tags self g_struct_tag = true /\
    exists a, type_lit pick parse_tref self can_backquote fx_err false (view_of g_struct_tag) [] = Ok (a, [])
              /\ resolve [] self a = None.
Proof.
  intros. split; [reflexivity|]. eexists. split; [reflexivity|]. reflexivity.
Qed.

(* ---- the tracker hypotheses are satisfiable (a naming scheme that is always fresh) ---- *)
Definition pick_long : bytes -> renv -> option bytes :=
  fun _ e => Some ("p"%char :: concat (map snd e)).

Lemma concat_len_ge : forall (l : list bytes) n, In n l -> length n <= length (concat l).
Proof.
  induction l as [|x l IH]; intros n H; cbn in *; [tauto|].
  rewrite app_length. destruct H as [H|H]; [subst; lia|]. specialize (IH n H). lia.
Qed.

Lemma tracker_hyps_sat : tracker_hyps pick_long.
Proof.
  unfold tracker_hyps, pick_long. repeat split.
  - intros p e n H Hin. inversion H; subst. apply concat_len_ge in Hin. cbn in Hin. lia.
  - intros p e n H. inversion H. discriminate.
  - intros p e _ H. discriminate.
Qed.

(* ... also together with the two C03 facts (no predeclared identifier starts with q) *)
Definition pick_q : bytes -> renv -> option bytes :=
  fun _ e => Some ("q"%char :: concat (map snd e)).

Lemma tracker_hyps_c03_sat : tracker_hyps pick_q /\ tracker_not_predeclared pick_q /\ tracker_lower_case pick_q.
Proof.
  unfold tracker_hyps, tracker_not_predeclared, tracker_lower_case, pick_q. repeat split.
  - intros p e n H Hin. inversion H; subst. apply concat_len_ge in Hin. cbn in Hin. lia.
  - intros p e n H. inversion H. discriminate.
  - intros p e _ H. discriminate.
  - intros p e n H. inversion H. reflexivity.
  - intros p e n H. inversion H. reflexivity.
Qed.

(* ---- the tracker before fixes/C03-3, as far as this development sees it: the last path segment, unless taken ---- *)
Fixpoint last_segment (cur p : bytes) : bytes :=
  match p with
  | [] => rev cur
  | c :: r => if byte_eqb c "/"%char then last_segment [] r else last_segment (c :: cur) r
  end.

Definition pick_last_segment : bytes -> renv -> option bytes :=
  fun p e =>
    let n := last_segment [] p in
    if is_nil n || existsb (bytes_eqb n) (map snd e) then pick_long p e else Some n.

Definition parse_only_T : bytes -> option tref := fun _ => Some (TRef [] (bs "T") TRNil).   (* the only name parsed is "T" *)

Definition g_string_clash : gty :=
  GStruct (GFCons (bs "A") false [] (GBasic BString) []
          (GFCons (bs "B") false [] (GNamed (bs "x/string") (bs "T") GNil) [] GFNil)).

Lemma tracker_hyps_last_segment : tracker_hyps pick_last_segment.
Proof.
  destruct tracker_hyps_sat as [L1 [L2 L3]].
  unfold tracker_hyps, pick_last_segment. repeat split.
  - intros p e n H. destruct (is_nil (last_segment [] p) || existsb (bytes_eqb (last_segment [] p)) (map snd e)) eqn:E.
    + eapply L1; eauto.
    + inversion H; subst. apply orb_false_iff in E. destruct E as [_ E]. intros Hin.
      assert (X : existsb (bytes_eqb (last_segment [] p)) (map snd e) = true).
      { apply existsb_exists. exists (last_segment [] p). split; [exact Hin|apply bytes_eqb_refl]. }
      congruence.
  - intros p e n H. destruct (is_nil (last_segment [] p) || existsb (bytes_eqb (last_segment [] p)) (map snd e)) eqn:E.
    + eapply L2; eauto.
    + inversion H; subst. apply orb_false_iff in E. destruct E as [E _]. intros Hn. rewrite Hn in E. discriminate.
  - intros p e Hp. destruct (is_nil (last_segment [] p) || existsb (bytes_eqb (last_segment [] p)) (map snd e)); [apply L3; exact Hp|discriminate].
Qed.

Lemma import_name_predeclared_refuted_before_fix :
  tracker_hyps pick_last_segment /\
  in_domain all_tags (bs "t") g_string_clash = true /\
  exists a e', ident_frag pick_last_segment parse_only_T (bs "t") (fun _ => true) true true (IdT (view_of g_string_clash)) [] = Ok (a, e')
               /\ e' = [(bs "x/string", bs "string")] /\ resolve e' (bs "t") a = None.
Proof.
  split; [exact tracker_hyps_last_segment|]. split; [vm_compute; reflexivity|].
  do 2 eexists. split; [vm_compute; reflexivity|]. split; [reflexivity|]. vm_compute. reflexivity.
Qed.
