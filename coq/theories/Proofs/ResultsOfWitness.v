(* A concrete well-typed program for the non-vacuity Examples of Props/C14.v: the hypotheses of
   C14_sound / C14_no_panic / C14_total ([wt_b], [entry_ok]) are PROVED for it by computation
   ([wt_b] is a boolean function) and the theorems are instantiated.

     package w                                     // package 0, one file; positions = made-up offsets
     type MyErr struct{}
     func (e *MyErr) Error() string { return "e" }  // the type *MyErr is TErrImpl 1

     func Leaf() error { return &MyErr{} }                                   // 0
     func Mid() error { return Leaf() }                                      // 1
     func Top() error { return Mid() }                                       // 2
     func Entry() error { err := Top(); return err }                         // 3   assignment through a local
     func Pair() (int, error) { return 1, Entry() }                          // 4
     func Multi() (int, error) { if c { return 0, nil }; return Pair() }     // 5   multi-result call
     func Even(n int) error { if n == 0 { return nil }; return Odd(n - 1) }  // 6 \ mutually
     func Odd(n int) error { if n == 0 { return &MyErr{} }; return Even(n - 1) }   // 7 / recursive
     func All() (int, error) {                                               // 8
         n, err := Multi()                      // multi-result call assigned to two locals
         if err != nil { return 0, err }
         e2 := Even(n)
         return n, e2
     }

   Call chain from All's error result: All -> Multi -> Pair -> Entry -> (local err) -> Top -> Mid -> Leaf
   (depth 7), and All -> (local e2) -> Even <-> Odd. *)
Require Import Gengo.Base.Bytes Gengo.Model.ResultsOf.
Require Import Gengo.Proofs.ResultsOf Gengo.Proofs.ResultsOfMain.

Definition w_int := mk_rdecl TInt (bs "int") None.
Definition w_err := mk_rdecl TError (bs "error") None.

(* objects: 1 = the universe's nil; locals of Entry and All *)
Definition wo_nil := 1%N.
Definition wo_entry_err := 10%N.
Definition wo_n := 11%N.
Definition wo_err := 12%N.
Definition wo_e2 := 13%N.
Definition w_otys : otys :=
  [(wo_nil, TNil); (wo_entry_err, TError); (wo_n, TInt); (wo_err, TError); (wo_e2, TError)].

Definition w_myerr (pos : N) := mk_alt (bs "*w.MyErr") false (TErrImpl 1) XOther 0 pos.
Definition w_nil (pos : N) := mk_alt (bs "untyped nil") false TNil (XIdent false wo_nil) 0 pos.
Definition w_lit (txt : string) (pos : N) := mk_alt (bs txt) true TUntyped XOther 0 pos.
Definition w_var (t : ty) (txt : string) (o : N) (pos : N) := mk_alt (bs txt) false t (XIdent true o) 0 pos.
Definition w_intexpr (pos : N) := mk_alt (bs "int") false TInt XOther 0 pos.      (* n - 1 *)

Definition w_call1 (f : nat) (perr : list bool) (pos : N) := mk_call true [w_err] perr (TgBody f) 0 pos.
Definition w_call2 (f : nat) (pos : N) := mk_call true [w_int; w_err] [] (TgBody f) 0 pos.

Definition w_prog : prog :=
  [ (* 0 Leaf  *) mk_fdef 0 [w_err] (Some [SReturn 120%N (Some [EVal (w_myerr 110)])]);
    (* 1 Mid   *) mk_fdef 0 [w_err] (Some [SReturn 160%N (Some [ECall (w_call1 0 [] 150) []])]);
    (* 2 Top   *) mk_fdef 0 [w_err] (Some [SReturn 200%N (Some [ECall (w_call1 1 [] 190) []])]);
    (* 3 Entry *) mk_fdef 0 [w_err]
                    (Some [SAssign (mk_assign 230 [LIdent (Some wo_entry_err)] [ECall (w_call1 2 [] 237) []]);
                           SReturn 260%N (Some [EVal (w_var TError "error" wo_entry_err 255)])]);
    (* 4 Pair  *) mk_fdef 0 [w_int; w_err]
                    (Some [SReturn 320%N (Some [EVal (w_lit "1" 305); ECall (w_call1 3 [] 308) []])]);
    (* 5 Multi *) mk_fdef 0 [w_int; w_err]
                    (Some [SGroup [SReturn 375%N (Some [EVal (w_lit "0" 368); EVal (w_nil 371)])];
                           SReturn 395%N (Some [ECall (w_call2 4 388) []])]);
    (* 6 Even  *) mk_fdef 0 [w_err]
                    (Some [SGroup [SReturn 450%N (Some [EVal (w_nil 447)])];
                           SReturn 475%N (Some [ECall (w_call1 7 [false] 462) [EVal (w_intexpr 466)]])]);
    (* 7 Odd   *) mk_fdef 0 [w_err]
                    (Some [SGroup [SReturn 530%N (Some [EVal (w_myerr 522)])];
                           SReturn 556%N (Some [ECall (w_call1 6 [false] 542) [EVal (w_intexpr 547)]])]);
    (* 8 All   *) mk_fdef 0 [w_int; w_err]
                    (Some [SAssign (mk_assign 600 [LIdent (Some wo_n); LIdent (Some wo_err)] [ECall (w_call2 5 610) []]);
                           SGroup [SReturn 650%N (Some [EVal (w_lit "0" 642); EVal (w_var TError "error" wo_err 645)])];
                           SAssign (mk_assign 660 [LIdent (Some wo_e2)]
                                      [ECall (w_call1 6 [false] 666) [EVal (w_var TInt "int" wo_n 671)]]);
                           SReturn 690%N (Some [EVal (w_var TInt "int" wo_n 683); EVal (w_var TError "error" wo_e2 686)])]) ].

Definition w_fuel := S (length (nodes w_prog)).

(* what ResultsOf(All) reports: result 0: the literal 0 and Multi()'s int; result 1: nil (Multi), &MyErr{} (Leaf,
   reached through Multi -> Pair -> Entry -> err -> Top -> Mid), nil (Even), &MyErr{} (Odd; the call back to Even
   is cut by the visits map) *)
Definition w_results : list (list alt) :=
  [ [w_lit "0" 642; type_alt w_int 0 610];
    [w_nil 371; w_myerr 110; w_nil 447; w_myerr 522] ].

Lemma w_wt : wt_b w_otys w_prog = true.
Proof. vm_compute. reflexivity. Qed.

Lemma w_entry_ok : entry_ok w_prog (EnBody 8) [w_int; w_err] = true.
Proof. vm_compute. reflexivity. Qed.

Lemma w_run : results_of all_fixed w_prog w_fuel (EnBody 8) [w_int; w_err] = Ok (w_results, 2).
Proof. vm_compute. reflexivity. Qed.

(* the theorems instantiated: their hypotheses are the three lemmas above *)
Lemma w_sound_instance : forall i l r a,
  nth_error w_results i = Some l -> nth_error [w_int; w_err] i = Some r -> In a l ->
  a_const a = true \/ assignable (a_ty a) (r_ty r) = true.
Proof. exact (sound_fixed w_otys w_prog w_fuel (EnBody 8) [w_int; w_err] w_results 2 w_wt w_entry_ok w_run). Qed.

Lemma w_no_panic_instance : forall fuel, results_of all_fixed w_prog fuel (EnBody 8) [w_int; w_err] <> Panic.
Proof. intros fuel. exact (no_panic_fixed w_otys w_prog fuel (EnBody 8) [w_int; w_err] w_wt w_entry_ok). Qed.

Lemma w_total_instance : exists ls n, results_of all_fixed w_prog w_fuel (EnBody 8) [w_int; w_err] = Ok (ls, n).
Proof. exact (total_fixed w_otys w_prog (EnBody 8) [w_int; w_err] w_wt w_entry_ok). Qed.

(* [wt_b] is a real condition, and the leaf hypothesis inside it is needed: the same program with
     func Leaf() error { return s }      // s of type string: rejected by Go's type checker
   is rejected by [wt_b], and ResultsOf(All) faithfully propagates the string to All's error result. *)
Definition w_bad_leaf := mk_alt (bs "string") false TString XOther 0 110.
Definition w_prog_bad : prog :=
  mk_fdef 0 [w_err] (Some [SReturn 120%N (Some [EVal w_bad_leaf])]) :: tl w_prog.

Lemma w_bad_rejected : wt_b w_otys w_prog_bad = false.
Proof. vm_compute. reflexivity. Qed.

Lemma w_bad_propagates :
  exists ls l, results_of all_fixed w_prog_bad w_fuel (EnBody 8) [w_int; w_err] = Ok (ls, 2) /\
               nth_error ls 1 = Some l /\ In w_bad_leaf l /\
               a_const w_bad_leaf = false /\ assignable (a_ty w_bad_leaf) TError = false.
Proof.
  eexists. eexists. split; [vm_compute; reflexivity|].
  split; [reflexivity|]. split; [right; left; reflexivity|]. split; reflexivity.
Qed.
