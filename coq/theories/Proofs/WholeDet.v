(* Agreement of two models of the same Go code (gengo.Execute end to end):
     Model/Determinism.v  (C04: every map range taken from an order oracle; generators as functions of the call list)
     Model/Pipeline.v     (C07/C05/C02) under whole_env
   For every order oracle [o] that is a rearrangement of positions ([natural]), Determinism.run on the input derived
   from the pipeline's input (Model/WholeDet.v) — taking the one order the pipeline leaves open (the sync.Map of
   retained genfiles) from [o] — succeeds exactly when Pipeline.exec does, with the same content at every path, the
   same gengo.sum bytes and the same call log. *)
Require Import Gengo.Base.Bytes Gengo.Model.Pipeline Gengo.Model.Whole Gengo.Model.WholeDet.
Require Import Gengo.Proofs.Pipeline Gengo.Proofs.PipelinePkg Gengo.Proofs.WholeSum.
Require Gengo.Model.Dispatch Gengo.Proofs.Dispatch Gengo.Model.SumFile Gengo.Proofs.SumFile Gengo.Proofs.Determinism.
From Coq Require Import Permutation PeanoNat.

Module D := Gengo.Model.Dispatch.
Module DP := Gengo.Proofs.Dispatch.
Module TP := Gengo.Proofs.Determinism.

(* ---------- the oracle ---------- *)
Lemma only_gfs_shuffles : forall o, Det.shuffles o -> Det.shuffles (only_gfs o).
Proof. intros o Hs A site l. unfold only_gfs. destruct (is_gfs_site site); [apply Hs | apply Permutation_refl]. Qed.

(* ---------- tags ---------- *)
Lemma aset_dt : forall m k v, Det.aset k (concat v) (dt m) = dt (D.map_set k v m).
Proof.
  induction m as [|[k' v'] r IH]; intros k v; cbn; [reflexivity|].
  rewrite (TP.bytes_eqb_sym k k'). destruct (bytes_eqb k' k); cbn; [reflexivity|]. rewrite IH. reflexivity.
Qed.

Lemma fold_aset_dt : forall t m,
  fold_left (fun m kv => Det.aset (fst kv) (snd kv) m) (dt t) (dt m) = dt (D.merge_into m t).
Proof.
  unfold D.merge_into. induction t as [|[k v] r IH]; intros m; cbn; [reflexivity|].
  rewrite aset_dt. apply IH.
Qed.

Lemma merge_dt : forall o site G P T,
  Det.merge (only_gfs o) site (dt G) (dt P) (dt T) = dt (D.merge [G; P; T]).
Proof.
  intros o site G P T. unfold Det.merge, Det.set_all, D.merge. cbn [fold_left].
  change (only_gfs o (bytes * bytes)%type (bs "merge1" :: site) (dt G)) with (dt G).
  change (only_gfs o (bytes * bytes)%type (bs "merge2" :: site) (dt P)) with (dt P).
  change (only_gfs o (bytes * bytes)%type (bs "merge3" :: site) (dt T)) with (dt T).
  change (@nil (bytes * bytes)%type) with (dt []) at 1. rewrite !fold_aset_dt. reflexivity.
Qed.

Lemma enabled_loop_dt : forall prefix t en, Det.enabled_loop prefix (dt t) en = D.enabled_loop prefix t en.
Proof.
  intros prefix. induction t as [|[k v] r IH]; intros en; cbn; [reflexivity|].
  destruct (bytes_eqb k prefix); [reflexivity|].
  fold (dt r). replace (Det.has_prefix (prefix ++ [":"%char]) k) with (D.has_prefix (prefix ++ [":"%char]) k) by reflexivity.
  destruct (D.has_prefix (prefix ++ [":"%char]) k); apply IH.
Qed.

Lemma enabled_dt : forall o site g t, Det.enabled (only_gfs o) site g (dt t) = D.is_generator_enabled g t.
Proof.
  intros o site g t. unfold Det.enabled, D.is_generator_enabled, D.gengo_prefix.
  change (only_gfs o (bytes * bytes)%type (bs "enabled" :: site) (dt t)) with (dt t). apply enabled_loop_dt.
Qed.

Lemma merge_into_fresh : forall t m, NoDup (D.keys m ++ D.keys t) -> D.merge_into m t = m ++ t.
Proof.
  unfold D.merge_into. induction t as [|[k v] r IH]; intros m Hnd; cbn; [rewrite app_nil_r; reflexivity|].
  cbn in Hnd. rewrite DP.map_set_notin.
  - rewrite IH; [rewrite <- app_assoc; reflexivity|].
    unfold D.keys in *. rewrite map_app. cbn. rewrite <- app_assoc. cbn.
    eapply Permutation_NoDup; [|exact Hnd]. apply Permutation_refl.
  - apply NoDup_remove_2 in Hnd. intros Hin. apply Hnd. apply in_or_app. left. exact Hin.
Qed.

Lemma pkg_tags_dt : forall o p, NoDup (D.keys (pk_tags p)) -> Det.pkg_tags (only_gfs o) (det_pkg p) = dt (pk_tags p).
Proof.
  intros o p Hnd. unfold Det.pkg_tags, Det.set_all. cbn [det_pkg Det.pk_filetags fold_left fst snd Det.pk_path].
  change (only_gfs o (bytes * bytes)%type [bs "ftags"; pk_path p; doc_file] (dt (pk_tags p))) with (dt (pk_tags p)).
  change (@nil (bytes * bytes)%type) with (dt []) at 1. rewrite fold_aset_dt.
  rewrite merge_into_fresh; [reflexivity | exact Hnd].
Qed.

Lemma keys_dt : forall t, Det.keys (dt t) = D.keys t.
Proof. intros t. unfold Det.keys, D.keys, dt. rewrite map_map. reflexivity. Qed.

(* ---------- sorting ---------- *)
Lemma sort_names {A} (key : A -> bytes) : forall l,
  Det.sort_strings (map key l) = map key (Pipeline.sort_by key l).
Proof.
  unfold Det.sort_strings, Det.sort_by, Pipeline.sort_by. induction l as [|x r IH]; cbn; [reflexivity|].
  rewrite IH. generalize (fold_right (Pipeline.insert_by key) [] r). intros m.
  induction m as [|y m IHm]; cbn; [reflexivity|].
  change (Det.bytes_leb (key x) (key y)) with (Pipeline.bytes_leb (key x) (key y)).
  destruct (Pipeline.bytes_leb (key x) (key y)); cbn; [reflexivity|]. rewrite IHm. reflexivity.
Qed.

(* ---------- well-formedness of the pipeline's input (what Go maps and go/types guarantee) ---------- *)
Record pkg_wf (p : pkginfo) : Prop := {
  pw_names : NoDup (map ty_name (pk_types p));
  pw_tags : NoDup (D.keys (pk_tags p));
  pw_tytags : forall t, In t (pk_types p) -> NoDup (D.keys (ty_tags t))
}.
Definition world_wf (w : world) : Prop :=
  NoDup (map pk_path (w_pkgs w)) /\ forall p, In p (w_pkgs w) -> pkg_wf p.

Lemma det_pkg_wf : forall p, pkg_wf p -> TP.wf_pkg (det_pkg p).
Proof.
  intros p [Hn Ht Htt]. constructor; cbn [det_pkg Det.pk_defs Det.pk_filetags Det.pk_meths].
  - assert (Hf : filter Det.td_pkgscope (map det_tdef (pk_types p)) = map det_tdef (pk_types p)).
    { clear. induction (pk_types p) as [|t r IH]; cbn; [reflexivity|]. f_equal. exact IH. }
    rewrite Hf, map_map. exact Hn.
  - constructor; [|constructor]. cbn [snd]. fold (Det.keys (dt (pk_tags p))). rewrite keys_dt. exact Ht.
  - apply Forall_forall. intros d Hd. apply in_map_iff in Hd. destruct Hd as [t [<- Hin]].
    cbn [det_tdef Det.td_tags]. fold (Det.keys (dt (ty_tags t))). rewrite keys_dt. apply Htt. exact Hin.
  - constructor.
Qed.

Lemma det_world_wf : forall w, world_wf w -> TP.wf_world (det_world w).
Proof.
  intros w [Hnd Hp]. constructor; cbn [det_world Det.w_pkgs].
  - rewrite map_map. exact Hnd.
  - apply Forall_forall. intros dp Hdp. apply in_map_iff in Hdp. destruct Hdp as [p [<- Hin]].
    apply det_pkg_wf. apply Hp. exact Hin.
Qed.

(* ---------- dispatch ---------- *)
Definition call_of (t : tyinfo) : Det.call :=
  Det.mk_call (match ty_kind t with KAlias => Det.CAlias | _ => Det.CType end) (ty_name t) 0.

Section Agree.
  Variable fmt : bytes -> option bytes.
  Variable G : tags.
  Variable o : Det.oracle.
  Variable rk : pkginfo -> bytes -> nat.
  Variable a : args.
  Variable w : world.
  Hypothesis Hw : world_wf w.
  Hypothesis Hs : Det.shuffles o.
  Hypothesis Hnat : natural o.

  Let E := whole_env fmt (order_of o) rk G.
  Notation o' := (only_gfs o).
  Notation a' := (det_args G a).

  Lemma table_same : forall p, pkg_wf p ->
    Det.type_table true o' (det_pkg p) = map (fun t => (ty_name t, det_tdef t)) (pk_types p).
  Proof.
    intros p Hp. rewrite (TP.type_table_eq o' (det_pkg p) (only_gfs_shuffles o Hs) (det_pkg_wf p Hp)).
    cbn [det_pkg Det.pk_defs Det.pk_path].
    change (only_gfs o Det.tdef [bs "defs"; pk_path p] (map det_tdef (pk_types p))) with (map det_tdef (pk_types p)).
    induction (pk_types p) as [|t r IH]; cbn; [reflexivity|]. rewrite IH. reflexivity.
  Qed.

  Lemma lookup_table : forall tys t, NoDup (map ty_name tys) -> In t tys ->
    Det.lookup (ty_name t) (map (fun t => (ty_name t, det_tdef t)) tys) = Some (det_tdef t).
  Proof.
    induction tys as [|x r IH]; intros t Hnd Hin; [contradiction|]. cbn [map Det.lookup].
    inversion Hnd as [|? ? Hnotin Hnd']; subst. destruct Hin as [Hin|Hin].
    - subst x. rewrite bytes_eqb_refl. reflexivity.
    - destruct (bytes_eqb (ty_name t) (ty_name x)) eqn:Heq; [|apply IH; assumption].
      apply bytes_eqb_spec in Heq. exfalso. apply Hnotin. rewrite <- Heq. apply in_map. exact Hin.
  Qed.

  (* Doc + IsGeneratorEnabled + the kind switch: the same decision *)
  Lemma dispatch_one_same : forall p g t, pkg_wf p ->
    Det.dispatch_one o' a' (det_pkg p) (dt (pk_tags p)) (det_gen w g) (det_tdef t)
    = if should_call E g p t then [call_of t] else [].
  Proof.
    intros p g t Hp. unfold Det.dispatch_one, should_call, call_of.
    cbn [det_tdef Det.td_kind Det.td_name Det.td_uid Det.td_tags det_args Det.a_globals det_gen Det.g_name Det.g_alias].
    rewrite merge_dt, enabled_dt.
    change (e_enabled E (g_name g) p t) with (D.is_generator_enabled (g_name g) (D.merge [G; pk_tags p; ty_tags t])).
    destruct (ty_kind t); cbn [dkind]; destruct (D.is_generator_enabled (g_name g) (D.merge [G; pk_tags p; ty_tags t]));
      cbn [andb]; try reflexivity; destruct (g_alias g); reflexivity.
  Qed.

  Lemma dispatch_same : forall p g, pkg_wf p ->
    Det.dispatch true o' a' (det_pkg p) (dt (pk_tags p)) (det_gen w g)
    = map call_of (filter (should_call E g p) (sort_by ty_name (pk_types p))).
  Proof.
    intros p g Hp. unfold Det.dispatch. rewrite (table_same p Hp).
    change (only_gfs o (bytes * Det.tdef)%type [bs "names"; Det.pk_path (det_pkg p); Det.g_name (det_gen w g)]
              (map (fun t => (ty_name t, det_tdef t)) (pk_types p)))
      with (map (fun t => (ty_name t, det_tdef t)) (pk_types p)).
    unfold Det.keys. rewrite map_map. cbn [fst]. rewrite (sort_names ty_name).
    assert (Hsub : forall t, In t (sort_by ty_name (pk_types p)) -> In t (pk_types p))
      by (intros t Ht; apply (sort_by_In ty_name); exact Ht).
    induction (sort_by ty_name (pk_types p)) as [|t r IH]; cbn [map flat_map filter]; [reflexivity|].
    rewrite (lookup_table (pk_types p) t (pw_names p Hp) (Hsub t (or_introl eq_refl))).
    rewrite (dispatch_one_same p g t Hp), IH by (intros x Hx; apply Hsub; right; exact Hx).
    destruct (should_call E g p t); reflexivity.
  Qed.

  (* ---------- one generator on one package ---------- *)
  Lemma find_ty_in : forall tys t, NoDup (map ty_name tys) -> In t tys -> find_ty (ty_name t) tys = Some t.
  Proof.
    induction tys as [|x r IH]; intros t Hnd Hin; [contradiction|]. cbn [map find_ty].
    inversion Hnd as [|? ? Hnotin Hnd']; subst. destruct Hin as [Hin|Hin].
    - subst x. rewrite bytes_eqb_refl. reflexivity.
    - destruct (bytes_eqb (ty_name x) (ty_name t)) eqn:Heq; [|apply IH; assumption].
      apply bytes_eqb_spec in Heq. exfalso. apply Hnotin. rewrite Heq. apply in_map. exact Hin.
  Qed.

  Lemma tys_of_calls_same : forall p tys', pkg_wf p -> (forall t, In t tys' -> In t (pk_types p)) ->
    tys_of_calls p (map call_of tys') = tys'.
  Proof.
    intros p tys' Hp. unfold tys_of_calls. induction tys' as [|t r IH]; intros Hsub; cbn [map flat_map]; [reflexivity|].
    cbn [call_of Det.c_name]. rewrite (find_ty_in (pk_types p) t (pw_names p Hp) (Hsub t (or_introl eq_refl))).
    cbn [app]. rewrite IH by (intros x Hx; apply Hsub; right; exact Hx). reflexivity.
  Qed.

  Lemma call_loop_filter : forall (E0 : env) g p tys st, e_fixed E0 = true ->
    call_loop E0 g p st tys = call_loop env_all g p st (filter (should_call E0 g p) tys).
  Proof.
    intros E0 g p tys st Hfix. revert st. induction tys as [|t r IH]; intros st; cbn [filter call_loop]; [reflexivity|].
    destruct (should_call E0 g p t) eqn:Hsc; [|apply IH].
    assert (Hall : should_call env_all g p t = true).
    { unfold should_call in *. cbn [e_enabled env_all]. destruct (ty_kind t); [reflexivity| |discriminate Hsc].
      apply andb_true_iff in Hsc. destruct Hsc as [_ Ha]. rewrite Ha. reflexivity. }
    cbn [call_loop]. rewrite Hall. destruct (g_type g st p t) as [st' out].
    unfold sets_ignore. rewrite Hfix. cbn [e_fixed env_all]. rewrite !IH. reflexivity.
  Qed.

  Lemma gen_run_session : forall g p,
    gen_run E g p = session env_all g p (filter (should_call E g p) (sort_by ty_name (pk_types p))).
  Proof. intros g p. unfold gen_run, session. rewrite (call_loop_filter E g p _ _ eq_refl). reflexivity. Qed.

  Lemma g_run_same : forall p g mv, In p (w_pkgs w) ->
    Det.g_run (det_gen w g) (det_pkg p) mv (Det.dispatch true o' a' (det_pkg p) (dt (pk_tags p)) (det_gen w g))
    = Det.mk_genout (negb (is_done (go_out (gen_run E g p)))) (go_ignore (gen_run E g p)) (go_body (gen_run E g p)) [].
  Proof.
    intros p g mv Hin. destruct Hw as [Hnd Hpw]. pose proof (Hpw p Hin) as Hp.
    rewrite (dispatch_same p g Hp). cbn [Det.g_run det_gen det_pkg Det.pk_path].
    rewrite (find_pkg_in w p Hnd Hin).
    rewrite tys_of_calls_same; [| exact Hp |].
    - rewrite <- gen_run_session. reflexivity.
    - intros t Ht. apply filter_In in Ht. apply (sort_by_In ty_name). apply Ht.
  Qed.

  (* what the call log says about one session that came back with Done *)
  Lemma call_loop_flat : forall (E0 : env) g p tys st, ro_out (call_loop E0 g p st tys) = Done ->
    flat_trace (ro_trace (call_loop E0 g p st tys))
    = map (fun t => (pk_path p, g_name g, ty_name t)) (filter (should_call E0 g p) tys).
  Proof.
    intros E0 g p tys. induction tys as [|t r IH]; intros st Hd; cbn [call_loop filter] in *; [reflexivity|].
    destruct (should_call E0 g p t); [|apply IH; exact Hd].
    destruct (g_type g st p t) as [st' out]. destruct (so_res out); cbn [ro_out ro_trace] in *; try discriminate Hd;
      cbn [flat_trace flat_map map app]; f_equal; apply IH; exact Hd.
  Qed.

  Lemma defer_loop_flat : forall fuel g p ids st, flat_trace (ro_trace (defer_loop fuel g p st ids)) = [].
  Proof.
    intros fuel g p. induction fuel as [|f IH]; intros ids st; (destruct ids as [|i r]; cbn [defer_loop]; [reflexivity|]);
      [reflexivity|].
    destruct (g_defer g st p i) as [st' out]. destruct (so_res out); cbn [ro_trace flat_trace flat_map app]; try reflexivity.
    apply IH.
  Qed.

  Lemma gen_run_flat : forall g p, go_out (gen_run E g p) = Done ->
    flat_trace (go_trace (gen_run E g p))
    = map (fun t => (pk_path p, g_name g, ty_name t)) (filter (should_call E g p) (sort_by ty_name (pk_types p))).
  Proof.
    intros g p Hd. unfold gen_run in *.
    destruct (ro_out (call_loop E g p (g_new g p) (sort_by ty_name (pk_types p)))) eqn:Hc; cbn [go_out go_trace] in *;
      try discriminate Hd.
    unfold flat_trace. rewrite flat_map_app. fold (flat_trace (ro_trace (call_loop E g p (g_new g p) (sort_by ty_name (pk_types p))))).
    rewrite (call_loop_flat E g p _ _ Hc).
    match goal with |- _ ++ ?x = _ => change x with (flat_trace (ro_trace (defer_loop (g_fuel g) g p
        (ro_state (call_loop E g p (g_new g p) (sort_by ty_name (pk_types p))))
        (ro_defers (call_loop E g p (g_new g p) (sort_by ty_name (pk_types p))))))) end.
    rewrite defer_loop_flat, app_nil_r. reflexivity.
  Qed.

  (* ---------- all generators on one package: gens_loop (Determinism) and gen_phase (Pipeline) ---------- *)
  Definition proj (kv : bytes * Det.genout) : bytes * bytes := (fst kv, Det.go_body (snd kv)).
  Definition no_imports (kv : bytes * Det.genout) : Prop := Det.go_imports (snd kv) = [].

  Lemma flat_log_app : forall l1 l2, flat_log (l1 ++ l2) = flat_log l1 ++ flat_log l2.
  Proof. intros. unfold flat_log. apply flat_map_app. Qed.
  Lemma flat_trace_app : forall l1 l2, flat_trace (l1 ++ l2) = flat_trace l1 ++ flat_trace l2.
  Proof. intros. unfold flat_trace. apply flat_map_app. Qed.

  Lemma gens_agree : forall p, In p (w_pkgs w) -> forall gs gfsD log,
    NoDup (Det.keys gfsD ++ map g_name gs) ->
    match Det.gens_loop true true o' a' (det_pkg p) (dt (pk_tags p)) (map (det_gen w) gs) gfsD log with
    | None => snd (gen_phase E gs p) <> Done
    | Some (gfsD', log') =>
        snd (gen_phase E gs p) = Done
        /\ (exists added, gfsD' = gfsD ++ added /\ map proj added = fst (fst (gen_phase E gs p)) /\ Forall no_imports added)
        /\ flat_log log' = flat_log log ++ flat_trace (snd (fst (gen_phase E gs p)))
    end.
  Proof.
    intros p Hin. induction gs as [|g r IH]; intros gfsD log Hnd; cbn [map Det.gens_loop gen_phase].
    - cbn. split; [reflexivity|]. split; [exists []; rewrite app_nil_r; repeat split; constructor|].
      rewrite app_nil_r. reflexivity.
    - unfold Det.gen_one. rewrite (g_run_same p g _ Hin).
      cbn [Det.go_err Det.go_body Det.go_ignore].
      destruct (go_out (gen_run E g p)) eqn:Hgo; cbn [is_done negb]; [|cbn; discriminate|cbn; discriminate].
      change (is_nil (go_body (gen_run E g p)) && negb (go_ignore (gen_run E g p))) with (is_zero (gen_run E g p)).
      cbn [Det.g_name det_gen Det.pk_path det_pkg].
      assert (Hfresh : ~ In (g_name g) (Det.keys gfsD)).
      { cbn [map] in Hnd. apply NoDup_remove_2 in Hnd. intros Hx. apply Hnd. apply in_or_app. left. exact Hx. }
      assert (Hlog : forall l, flat_log (l ++ [(pk_path p, g_name g,
                        Det.dispatch true o' a' (det_pkg p) (dt (pk_tags p)) (det_gen w g))])
                      = flat_log l ++ flat_trace (go_trace (gen_run E g p))).
      { intros l. rewrite flat_log_app. f_equal. unfold flat_log. cbn [flat_map fst snd]. rewrite app_nil_r.
        destruct Hw as [_ Hpw]. rewrite (dispatch_same p g (Hpw p Hin)), map_map. cbn [call_of Det.c_name].
        symmetry. apply gen_run_flat. exact Hgo. }
      destruct (is_zero (gen_run E g p)) eqn:Hz.
      + specialize (IH gfsD (log ++ [(pk_path p, g_name g, Det.dispatch true o' a' (det_pkg p) (dt (pk_tags p)) (det_gen w g))])).
        destruct (Det.gens_loop true true o' a' (det_pkg p) (dt (pk_tags p)) (map (det_gen w) r) gfsD _) as [[gfsD' log']|].
        * destruct (gen_phase E r p) as [[gfs tr] out]. cbn [fst snd] in *.
          destruct IH as [Hd [Hadd Hl]]. { cbn [map] in Hnd. apply NoDup_remove_1 in Hnd. exact Hnd. }
          split; [exact Hd|]. split; [exact Hadd|]. rewrite Hl, Hlog, flat_trace_app, app_assoc. reflexivity.
        * destruct (gen_phase E r p) as [[gfs tr] out]. cbn [fst snd] in *. apply IH.
          cbn [map] in Hnd. apply NoDup_remove_1 in Hnd. exact Hnd.
      + rewrite (TP.aset_notin gfsD _ _ Hfresh).
        set (outD := Det.mk_genout false (go_ignore (gen_run E g p)) (go_body (gen_run E g p)) []).
        specialize (IH (gfsD ++ [(g_name g, outD)])
                       (log ++ [(pk_path p, g_name g, Det.dispatch true o' a' (det_pkg p) (dt (pk_tags p)) (det_gen w g))])).
        assert (Hnd' : NoDup (Det.keys (gfsD ++ [(g_name g, outD)]) ++ map g_name r)).
        { unfold Det.keys. rewrite map_app. cbn [map fst]. rewrite <- app_assoc. exact Hnd. }
        destruct (Det.gens_loop true true o' a' (det_pkg p) (dt (pk_tags p)) (map (det_gen w) r) (gfsD ++ [(g_name g, outD)]) _)
          as [[gfsD' log']|].
        * destruct (gen_phase E r p) as [[gfs tr] out]. cbn [fst snd] in *.
          destruct (IH Hnd') as [Hd [[added [Ha [Hm Hf]]] Hl]].
          split; [exact Hd|]. split.
          -- exists ((g_name g, outD) :: added). split; [rewrite Ha, <- app_assoc; reflexivity|].
             split; [cbn [map proj fst snd outD Det.go_body]; rewrite Hm; reflexivity|].
             constructor; [reflexivity | exact Hf].
          -- rewrite Hl, Hlog, flat_trace_app, app_assoc. reflexivity.
        * destruct (gen_phase E r p) as [[gfs tr] out]. cbn [fst snd] in *. apply IH. exact Hnd'.
  Qed.

  (* ---------- effects: the two file systems and the two effect vocabularies ---------- *)
  Definition frel (f : Det.fs) (s : fs) : Prop := forall q, f q = fs_lookup q s.
  Definition erel (esD : list Det.effect) (esP : list effect) : Prop :=
    forall f s, frel f s -> frel (Det.apply esD f) (apply_all esP s).

  Lemma erel_nil : erel [] [].
  Proof. intros f s H. exact H. Qed.

  Lemma erel_app : forall d1 p1 d2 p2, erel d1 p1 -> erel d2 p2 -> erel (d1 ++ d2) (p1 ++ p2).
  Proof. intros d1 p1 d2 p2 H1 H2 f s H. rewrite TP.apply_app, apply_all_app. apply H2, H1, H. Qed.

  Lemma path_eqb_same : forall q q', Det.path_eqb q q' = Pipeline.path_eqb q q'.
  Proof. reflexivity. Qed.

  Lemma erel_write : forall q b, erel [Det.EWrite q b] (write_effects q b).
  Proof.
    intros q b f s H q'. cbn [Det.apply fold_left Det.apply1]. rewrite apply_write_effects. unfold write_file_fs.
    destruct (Det.path_eqb q' q) eqn:Heq.
    - rewrite path_eqb_same in Heq. apply path_eqb_spec in Heq. subst q'. rewrite lookup_set_same. reflexivity.
    - rewrite path_eqb_same in Heq. apply path_eqb_neq in Heq. rewrite !lookup_set_other by exact Heq. apply H.
  Qed.

  Lemma apply_all_removes : forall ps s q,
    fs_lookup q (apply_all (map ERemove ps) s) = if existsb (Pipeline.path_eqb q) ps then None else fs_lookup q s.
  Proof.
    induction ps as [|x r IH]; intros s q; cbn [map apply_all fold_left existsb]; [reflexivity|].
    change (fold_left (fun s e => apply_effect e s) (map ERemove r) (apply_effect (ERemove x) s))
      with (apply_all (map ERemove r) (apply_effect (ERemove x) s)).
    rewrite IH. cbn [apply_effect]. destruct (Pipeline.path_eqb q x) eqn:Heq.
    - apply path_eqb_spec in Heq. subst x. cbn [orb]. rewrite lookup_del_same.
      destruct (existsb (Pipeline.path_eqb q) r); reflexivity.
    - cbn [orb]. apply path_eqb_neq in Heq. rewrite lookup_del_other by exact Heq. reflexivity.
  Qed.

  Lemma erel_removes : forall psD psP, (forall q, In q psD <-> In q psP) ->
    erel (map Det.ERemove psD) (map ERemove psP).
  Proof.
    intros psD psP Hiff f s H q. rewrite TP.apply_removes, apply_all_removes.
    rewrite (TP.existsb_ext_in (Det.path_eqb q) psD psP Hiff). rewrite H. reflexivity.
  Qed.

  (* ---------- WriteToFile for every retained genfile, and the removal set ---------- *)
  Definition stale_rel (p : pkginfo) (staleD : Det.alist Det.path) (rem : list bytes) : Prop :=
    (forall k, In k (Det.keys staleD) <-> In k rem) /\ (forall k v, In (k, v) staleD -> v = (pk_dir p, k)).

  Lemma stale_rel_del : forall p staleD rem n, stale_rel p staleD rem ->
    stale_rel p (Det.adel n staleD) (strike n rem).
  Proof.
    intros p staleD rem n [Hk Hv]. split.
    - intros k. unfold Det.keys in *. rewrite TP.keys_adel_in, strike_In, Hk. reflexivity.
    - intros k v Hin. apply TP.In_adel in Hin. apply Hv. apply Hin.
  Qed.

  Lemma write_agree : forall p lD staleD acc rem, Forall no_imports lD -> stale_rel p staleD rem ->
    match Det.write_loop (det_render fmt) o' a' (det_pkg p) lD staleD acc, write_loop E a p (map proj lD) rem with
    | None, (_, _, Some _) => True
    | Some (es, staleD'), (effs, rem', None) => (exists ws, es = acc ++ ws /\ erel ws effs) /\ stale_rel p staleD' rem'
    | _, _ => False
    end.
  Proof.
    intros p. induction lD as [|[n out] r IH]; intros staleD acc rem Hni Hst; cbn [map Det.write_loop write_loop proj fst snd].
    - split; [exists []; rewrite app_nil_r; split; [reflexivity | apply erel_nil] | exact Hst].
    - inversion Hni as [|? ? Hn Hni']; subst. unfold no_imports in Hn. cbn [snd] in Hn.
      change (Det.filename a' n) with (fname a n).
      destruct (is_nil (Det.go_body out)).
      + apply IH; [exact Hni' | apply stale_rel_del; exact Hst].
      + unfold Det.mk_file. rewrite Hn.
        change (Det.sorted_entries o' [bs "imports"; Det.pk_path (det_pkg p); n] []) with (@nil (bytes * bytes)%type).
        change (det_render fmt (Det.mk_gfile (Det.pk_name (det_pkg p)) n [] (Det.go_body out)))
          with (fmt (assemble (pk_name p) n (Det.go_body out))).
        cbn [det_pkg Det.pk_dir].
        change (e_fmt E (assemble (pk_name p) n (Det.go_body out))) with (fmt (assemble (pk_name p) n (Det.go_body out))).
        destruct (fmt (assemble (pk_name p) n (Det.go_body out))) as [b|]; [|exact I].
        specialize (IH (Det.adel (fname a n) staleD) (acc ++ [Det.EWrite (pk_dir p, fname a n) b]) (strike (fname a n) rem)
                       Hni' (stale_rel_del p staleD rem (fname a n) Hst)).
        destruct (Det.write_loop (det_render fmt) o' a' (det_pkg p) r (Det.adel (fname a n) staleD) _) as [[es staleD']|];
          destruct (write_loop E a p (map proj r) (strike (fname a n) rem)) as [[effs rem'] [e|]];
          cbv beta iota in IH |- *; try exact IH; try (exfalso; exact IH).
        destruct IH as [[ws [Hes Her]] Hst']. split; [|exact Hst'].
        exists (Det.EWrite (pk_dir p, fname a n) b :: ws). split; [rewrite Hes, <- app_assoc; reflexivity|].
        change (Det.EWrite (pk_dir p, fname a n) b :: ws) with ([Det.EWrite (pk_dir p, fname a n) b] ++ ws).
        apply erel_app; [apply erel_write | exact Her].
  Qed.

  Lemma prefix_same : forall x y, Det.has_prefix x y = prefixb x y.
  Proof. reflexivity. Qed.

  Lemma gen_files_keys : forall (base dir : bytes) l (m : Det.alist Det.path) k,
    In k (Det.keys (fold_left (fun m f => if Det.has_prefix (base ++ bs ".") f then Det.aset f (dir, f) m else m) l m)) ->
    (In k l /\ Det.has_prefix (base ++ bs ".") k = true) \/ In k (Det.keys m).
  Proof.
    intros base dir. induction l as [|x r IH]; intros m k Hin; cbn [fold_left] in Hin; [right; exact Hin|].
    apply IH in Hin. destruct Hin as [[Hin Hp]|Hin]; [left; split; [right; exact Hin | exact Hp]|].
    destruct (Det.has_prefix (base ++ bs ".") x) eqn:Hx; [|right; exact Hin].
    apply TP.keys_aset_in in Hin. destruct Hin as [->|Hin]; [left; split; [left; reflexivity | exact Hx] | right; exact Hin].
  Qed.

  Lemma generated_files_rel : forall p, stale_rel p (Det.generated_files a' (det_pkg p)) (generated_files a p).
  Proof.
    intros p. destruct (TP.generated_files_spec a' (det_pkg p)) as [Hv [_ Hin]]. split.
    - intros k. unfold generated_files. rewrite filter_In. split.
      + intros Hk. unfold Det.generated_files in Hk. apply gen_files_keys in Hk. destruct Hk as [[Hk Hp]|[]].
        split; [exact Hk | exact Hp].
      + intros [Hk Hp]. specialize (Hin k Hk Hp). apply (in_map fst) in Hin. exact Hin.
    - intros k v Hkv. apply (Hv k v Hkv).
  Qed.

  (* ---------- pkgExecute ---------- *)
  Variable gens : list generator.
  Hypothesis Hgn : NoDup (map g_name gens).

  Lemma pkg_agree : forall p, In p (w_pkgs w) ->
    match Det.pkg_execute true true (det_render fmt) o' a' (map (det_gen w) gens) (det_pkg p), pkg_effects E a gens p with
    | None, (_, _, out) => out <> Done
    | Some (es, log), (effs, tr, out) => out = Done /\ erel es effs /\ flat_log log = flat_trace tr
    end.
  Proof.
    intros p Hin. destruct Hw as [_ Hpw]. pose proof (Hpw p Hin) as Hp.
    unfold Det.pkg_execute, pkg_effects. rewrite (pkg_tags_dt o p (pw_tags p Hp)).
    pose proof (gens_agree p Hin gens [] [] Hgn) as Hg.
    destruct (Det.gens_loop true true o' a' (det_pkg p) (dt (pk_tags p)) (map (det_gen w) gens) [] []) as [[gfsD log]|].
    2:{ destruct (gen_phase E gens p) as [[gfs tr] out]. cbn [snd] in Hg. destruct out; [exfalso; apply Hg; reflexivity | discriminate | discriminate]. }
    destruct (gen_phase E gens p) as [[gfs tr] out]. cbn [fst snd] in Hg.
    destruct Hg as [-> [[added [-> [Hm Hni]]] Hlog]]. cbn [app] in *. subst gfs.
    change (only_gfs o (bytes * Det.genout)%type [bs "gfs"; Det.pk_path (det_pkg p)] added)
      with (o (bytes * Det.genout)%type [gfs_site; pk_path p] added).
    change (e_order E p (map proj added)) with (o (bytes * bytes)%type [gfs_site; pk_path p] (map proj added)).
    rewrite (Hnat _ _ proj).
    assert (Hni' : Forall no_imports (o (bytes * Det.genout)%type [gfs_site; pk_path p] added)).
    { rewrite Forall_forall in *. intros x Hx. apply Hni. eapply Permutation_in; [apply Permutation_sym, Hs | exact Hx]. }
    pose proof (write_agree p _ _ [] _ Hni' (generated_files_rel p)) as Hwr.
    destruct (Det.write_loop (det_render fmt) o' a' (det_pkg p) (o (bytes * Det.genout)%type [gfs_site; pk_path p] added)
                (Det.generated_files a' (det_pkg p)) []) as [[ws staleD]|];
      destruct (write_loop E a p (map proj (o (bytes * Det.genout)%type [gfs_site; pk_path p] added)) (generated_files a p))
        as [[effs rem] [e|]]; cbv beta iota in Hwr |- *; try (exfalso; exact Hwr); try discriminate.
    destruct Hwr as [[ws' [Hws Her]] [Hk Hv]]. cbn [app] in Hws. subst ws'.
    split; [reflexivity|]. split; [|exact Hlog].
    apply erel_app; [exact Her|].
    change (only_gfs o (bytes * Det.path)%type [bs "stale"; Det.pk_path (det_pkg p)] staleD) with staleD.
    rewrite <- (map_map snd Det.ERemove). rewrite <- (map_map (fun f => (pk_dir p, f)) ERemove).
    apply erel_removes. intros q. rewrite !in_map_iff. split.
    - intros [[k v] [<- Hkv]]. cbn [snd]. rewrite (Hv k v Hkv). exists k. split; [reflexivity|].
      apply (proj2 (rank_sort_In (e_rm_rank E p) rem k)). apply Hk. apply in_map_iff. exists (k, v). split; [reflexivity | exact Hkv].
    - intros [k [<- Hkr]]. apply (proj1 (rank_sort_In (e_rm_rank E p) rem k)) in Hkr. apply Hk in Hkr. apply in_map_iff in Hkr. destruct Hkr as [[k' v] [Hk' Hkv]]. cbn in Hk'. subst k'.
      exists (k, v). split; [cbn [snd]; apply (Hv k v Hkv) | exact Hkv].
  Qed.

  (* ---------- the package loop ---------- *)
  Lemma det_sum_get : forall k m, Det.sum_get k m = Pipeline.sum_get m k.
  Proof.
    intros k m. unfold Det.sum_get. induction m as [|[k' v] r IH]; cbn; [reflexivity|].
    rewrite (TP.bytes_eqb_sym k k'). destruct (bytes_eqb k' k); [reflexivity | exact IH].
  Qed.

  Lemma det_changed : forall prev p,
    Det.pkg_changed a' prev (current_sum w) (pk_path p) = pkg_changed a w prev p.
  Proof.
    intros prev p. unfold Det.pkg_changed, pkg_changed. cbn [det_args Det.a_force].
    destruct (a_force a); [reflexivity|]. destruct prev as [pv|]; [|reflexivity]. rewrite !det_sum_get. reflexivity.
  Qed.

  Lemma det_find_pkg : forall p, In p (w_pkgs w) -> Det.find_pkg (pk_path p) (det_world w) = Some (det_pkg p).
  Proof.
    intros p Hin. destruct Hw as [Hnd _]. unfold Det.find_pkg. cbn [det_world Det.w_pkgs].
    induction (w_pkgs w) as [|x r IH]; [contradiction|]. cbn [map find det_pkg Det.pk_path].
    cbn [map] in Hnd. inversion Hnd as [|? ? Hnotin Hnd']; subst. destruct Hin as [Hin|Hin].
    - subst x. rewrite bytes_eqb_refl. reflexivity.
    - destruct (bytes_eqb (pk_path p) (pk_path x)) eqn:Heq; [|apply IH; assumption].
      apply bytes_eqb_spec in Heq. exfalso. apply Hnotin. rewrite <- Heq. apply in_map. exact Hin.
  Qed.

  Lemma loop_agree_det : forall ps es log prev, incl ps (w_pkgs w) ->
    match Det.pkgs_loop true true (det_render fmt) o' a' (det_world w) (map (det_gen w) gens) prev (current_sum w)
                        (map (locf w) ps) es log,
          run_pkgs E a w gens prev ps with
    | None, (_, _, out) => out <> Done
    | Some (es', log'), (effs, tr, out) =>
        out = Done /\ (exists added, es' = es ++ added /\ erel added effs)
        /\ flat_log log' = flat_log log ++ flat_trace tr
    end.
  Proof.
    induction ps as [|p r IH]; intros es log prev Hincl; cbn [map Det.pkgs_loop run_pkgs locf].
    - split; [reflexivity|]. split; [exists []; rewrite app_nil_r; split; [reflexivity | apply erel_nil]|].
      rewrite app_nil_r. reflexivity.
    - assert (Hin : In p (w_pkgs w)) by (apply Hincl; left; reflexivity).
      assert (Hincl' : incl r (w_pkgs w)) by (intros x Hx; apply Hincl; right; exact Hx).
      cbn [det_args Det.a_all].
      replace (negb (a_all a) && negb (is_direct w p)) with (negb (selected a w p))
        by (unfold selected; destruct (a_all a), (is_direct w p); reflexivity).
      destruct (selected a w p); cbn [negb].
      2:{ apply IH. exact Hincl'. }
      rewrite (det_changed prev p). unfold pkg_execute.
      destruct (pkg_changed a w prev p); cbn [negb].
      2:{ specialize (IH es log prev Hincl').
          destruct (Det.pkgs_loop true true (det_render fmt) o' a' (det_world w) (map (det_gen w) gens) prev (current_sum w)
                      (map (locf w) r) es log) as [[es' log']|];
            destruct (run_pkgs E a w gens prev r) as [[e2 t2] o2]; cbn [app]; exact IH. }
      rewrite (det_find_pkg p Hin).
      pose proof (pkg_agree p Hin) as Hpk.
      destruct (Det.pkg_execute true true (det_render fmt) o' a' (map (det_gen w) gens) (det_pkg p)) as [[esp logp]|];
        destruct (pkg_effects E a gens p) as [[e1 t1] o1].
      2:{ destruct o1; [exfalso; apply Hpk; reflexivity | discriminate | discriminate]. }
      destruct Hpk as [-> [Her Hlog]].
      specialize (IH (es ++ esp) (log ++ logp) prev Hincl').
      destruct (Det.pkgs_loop true true (det_render fmt) o' a' (det_world w) (map (det_gen w) gens) prev (current_sum w)
                  (map (locf w) r) (es ++ esp) (log ++ logp)) as [[es' log']|];
        destruct (run_pkgs E a w gens prev r) as [[e2 t2] o2]; [|exact IH].
      destruct IH as [-> [[added [-> Hadd]] Hl]]. split; [reflexivity|]. split.
      + exists (esp ++ added). split; [rewrite app_assoc; reflexivity | apply erel_app; assumption].
      + rewrite Hl, flat_log_app, flat_trace_app, Hlog, app_assoc. reflexivity.
  Qed.

  (* ---------- Execute ---------- *)
  Lemma sort_keys_same : forall l, Det.sort_strings l = SumFile.sort_keys l.
  Proof.
    unfold Det.sort_strings, Det.sort_by, SumFile.sort_keys. induction l as [|x r IH]; cbn; [reflexivity|].
    rewrite IH. generalize (SumFile.sort_by (fun k : bytes => k) r). intros m.
    induction m as [|y m IHm]; cbn; [reflexivity|].
    change (Det.bytes_leb x y) with (SumFile.bytes_leb x y).
    destruct (SumFile.bytes_leb x y); [reflexivity|]. rewrite IHm. reflexivity.
  Qed.

  Lemma lookup_sum_sum : forall k m, match Det.lookup k m with Some v => v | None => [] end = SumFile.sum_sum m k.
  Proof.
    intros k m. unfold SumFile.sum_sum. induction m as [|[k' v] r IH]; cbn; [reflexivity|].
    rewrite (TP.bytes_eqb_sym k k'). destruct (bytes_eqb k' k); [reflexivity | exact IH].
  Qed.

  Lemma sum_bytes_same : forall m, Det.sum_bytes o' m = SumFile.sumfile_bytes m.
  Proof.
    intros m. unfold Det.sum_bytes, Det.sorted_entries, SumFile.sumfile_bytes.
    change (only_gfs o (bytes * bytes)%type [bs "sum"] m) with m.
    rewrite flat_map_concat_map, map_map. unfold Det.keys. rewrite sort_keys_same. f_equal.
    apply map_ext. intros k. cbn [fst snd]. rewrite lookup_sum_sum. reflexivity.
  Qed.

  Lemma existsb_locals : forall ps, Permutation ps (w_pkgs w) ->
    existsb snd (map (locf w) ps) = existsb (is_direct w) (w_pkgs w).
  Proof.
    intros ps Hp. rewrite <- (TP.existsb_ext_in (is_direct w) ps (w_pkgs w)).
    - induction ps as [|x r IH]; cbn; [reflexivity|]. f_equal. clear. induction r as [|y r IH]; cbn; [reflexivity|]. rewrite IH. reflexivity.
    - intros x. split; apply Permutation_in; [exact Hp | apply Permutation_sym; exact Hp].
  Qed.

  Variable s : fs.

  Theorem det_agree :
    match Det.run true true (det_render fmt) det_parse_sum o' a' (w_direct w) (det_world w) (map (det_gen w) gens) (det_fs s) with
    | None => exec_outcome E a w gens s <> Done
    | Some (f', log) =>
        exec_outcome E a w gens s = Done
        /\ (forall q, f' q = fs_lookup q (exec_fs E a w gens s))
        /\ flat_log log = flat_trace (exec_trace E a w gens s)
    end.
  Proof.
    unfold Det.run, Det.plan.
    assert (Hsl : Det.sorted_local o' (w_direct w) (det_world w) = map (locf w) (sorted_pkgs w)).
    { rewrite (TP.sorted_local_canon o' _ _ (only_gfs_shuffles o Hs) (det_world_wf w Hw)).
      cbn [det_world Det.w_pkgs]. rewrite map_map. cbn [det_pkg Det.pk_path].
      rewrite (sort_names pk_path), map_map. reflexivity. }
    assert (Hcur : Det.sum_data o' (det_world w) = current_sum w).
    { rewrite (TP.sum_data_eq o' _ (only_gfs_shuffles o Hs) (det_world_wf w Hw)).
      change (only_gfs o Det.pkg [bs "reg"] (Det.w_pkgs (det_world w))) with (map det_pkg (w_pkgs w)).
      rewrite map_map. reflexivity. }
    rewrite Hsl, Hcur. cbn [det_args Det.a_all det_world Det.w_moddir].
    rewrite (existsb_locals (sorted_pkgs w) (sort_by_perm pk_path (w_pkgs w))).
    assert (Hprev : (if a_all a && existsb (is_direct w) (w_pkgs w)
                     then match det_fs s (w_modroot w, Det.sum_name) with
                          | Some b => Some (det_parse_sum b) | None => None end
                     else None) = load_prev E a w s) by reflexivity.
    rewrite Hprev.
    pose proof (loop_agree_det (sorted_pkgs w) [] [] (load_prev E a w s)) as Hl.
    assert (Hincl : incl (sorted_pkgs w) (w_pkgs w)) by (intros x Hx; apply (sort_by_In pk_path); exact Hx).
    specialize (Hl Hincl).
    unfold exec_outcome, exec_trace, exec_fs. rewrite exec_eq. unfold effects, exec_trace, exec_outcome, run_all. cbn [fst snd].
    destruct (Det.pkgs_loop true true (det_render fmt) o' a' (det_world w) (map (det_gen w) gens) (load_prev E a w s)
                (current_sum w) (map (locf w) (sorted_pkgs w)) [] []) as [[es log]|];
      destruct (run_pkgs E a w gens (load_prev E a w s) (sorted_pkgs w)) as [[effs tr] out]; cbn [fst snd]; [|exact Hl].
    destruct Hl as [-> [[added [Hes Her]] Hlog]]. cbn [app] in Hes, Hlog. subst added.
    split; [reflexivity|]. split; [|exact Hlog].
    assert (Hf0 : frel (det_fs s) s) by (intros q; reflexivity).
    destruct (a_all a).
    - assert (Hsave : erel [Det.EWrite (w_modroot w, Det.sum_name) (Det.sum_bytes o' (current_sum w))] (save_effects E w)).
      { rewrite sum_bytes_same. apply erel_write. }
      exact (erel_app _ _ _ _ Her Hsave _ _ Hf0).
    - exact (Her _ _ Hf0).
  Qed.
End Agree.

(* ---------- corollary A: C04's order independence, OF Pipeline.exec ---------- *)
Theorem pipeline_order_independent : forall fmt G (o1 o2 : Det.oracle) rk1 rk2 a w gens s,
  world_wf w -> Det.shuffles o1 -> Det.shuffles o2 -> natural o1 -> natural o2 ->
  NoDup (D.keys G) -> NoDup (map g_name gens) ->
  let E1 := whole_env fmt (order_of o1) rk1 G in
  let E2 := whole_env fmt (order_of o2) rk2 G in
  (exec_outcome E1 a w gens s = Done <-> exec_outcome E2 a w gens s = Done)
  /\ (exec_outcome E1 a w gens s = Done ->
      (forall q, fs_lookup q (exec_fs E1 a w gens s) = fs_lookup q (exec_fs E2 a w gens s))
      /\ flat_trace (exec_trace E1 a w gens s) = flat_trace (exec_trace E2 a w gens s)).
Proof.
  intros fmt G o1 o2 rk1 rk2 a w gens s Hw Hs1 Hs2 Hn1 Hn2 HG Hgn E1 E2.
  pose proof (det_agree fmt G o1 rk1 a w Hw Hs1 Hn1 gens Hgn s) as H1.
  pose proof (det_agree fmt G o2 rk2 a w Hw Hs2 Hn2 gens Hgn s) as H2.
  fold E1 in H1. fold E2 in H2.
  assert (Hwa : TP.wf_args (det_args G a)).
  { unfold TP.wf_args. cbn [det_args Det.a_globals]. fold (Det.keys (dt G)). rewrite keys_dt. exact HG. }
  pose proof (TP.run_order_independent (det_render fmt) det_parse_sum (only_gfs o1) (only_gfs o2) (det_args G a)
                (w_direct w) (w_direct w) (det_world w) (map (det_gen w) gens) (det_fs s)
                (only_gfs_shuffles o1 Hs1) (only_gfs_shuffles o2 Hs2) Hwa (det_world_wf w Hw) (Permutation_refl _)) as Heq.
  destruct (Det.run true true (det_render fmt) det_parse_sum (only_gfs o1) (det_args G a) (w_direct w) (det_world w)
              (map (det_gen w) gens) (det_fs s)) as [[f1 l1]|];
    destruct (Det.run true true (det_render fmt) det_parse_sum (only_gfs o2) (det_args G a) (w_direct w) (det_world w)
                (map (det_gen w) gens) (det_fs s)) as [[f2 l2]|]; cbn [TP.out_equiv] in Heq; try contradiction.
  - destruct H1 as [Hd1 [Hf1 Hl1]]. destruct H2 as [Hd2 [Hf2 Hl2]]. destruct Heq as [Hfe Hle].
    split; [split; intros _; assumption|]. intros _. split.
    + intros q. rewrite <- Hf1, <- Hf2. apply Hfe.
    + rewrite <- Hl1, <- Hl2, Hle. reflexivity.
  - split; [split; intros Hx; contradiction|]. intros Hx. contradiction.
Qed.

(* ---------- corollary B: what C07 / C02 prove, OF Determinism.run (on inputs that come from the pipeline's) ---------- *)
Section Transfer.
  Variable fmt : bytes -> option bytes.
  Variable G : tags.
  Variable o : Det.oracle.
  Variable rk : pkginfo -> bytes -> nat.
  Variable a : args.
  Variable w : world.
  Hypothesis Hw : world_wf w.
  Hypothesis Hs : Det.shuffles o.
  Hypothesis Hnat : natural o.
  Variable gens : list generator.
  Hypothesis Hgn : NoDup (map g_name gens).
  Variable s : fs.
  Let E := whole_env fmt (order_of o) rk G.
  Let r := Det.run true true (det_render fmt) det_parse_sum (only_gfs o) (det_args G a) (w_direct w) (det_world w)
                   (map (det_gen w) gens) (det_fs s).

  (* a failing run of Determinism (None) is a run of the pipeline that did not come back with Done: C02's theorems
     say what such a run has and has not done *)
  Theorem det_fails_iff : r = None <-> exec_outcome E a w gens s <> Done.
  Proof.
    pose proof (det_agree fmt G o rk a w Hw Hs Hnat gens Hgn s) as H. fold E in H. fold r in H.
    destruct r as [[f' log]|]; split; intros Hx; try discriminate Hx; try reflexivity; try exact H.
    destruct H as [Hd _]. contradiction.
  Qed.

  (* C07's frame: a successful run leaves every path that is not gengo's own output as it was *)
  Theorem det_frame : forall f' log q, r = Some (f', log) -> ~ own_output E a w s q -> f' q = det_fs s q.
  Proof.
    intros f' log q Hr Hq. pose proof (det_agree fmt G o rk a w Hw Hs Hnat gens Hgn s) as H. fold E in H. fold r in H.
    rewrite Hr in H. destruct H as [_ [Hf _]]. rewrite Hf. unfold det_fs. apply frame. exact Hq.
  Qed.
End Transfer.
