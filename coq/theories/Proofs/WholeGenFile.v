(* Agreement of two models of the same Go code (pkg/gengo/genfile.go 60-144 and the write loop context.go 223-231):
     Model/GenFile.v   (C01: Render, writeImports, assemble, the formatter as fmt1 + settle fmt2, write_file / write_all)
     Model/Pipeline.v  (C07/C05/C02: assemble without import block, e_fmt, write_loop_fs on the module tree)
   The pipeline's write step is the [imports = []] instance of GenFile's: same assembled source, same decision
   (nothing / error / write), same file name, same bytes; the write loops leave the same directory. *)
Require Import Gengo.Base.Bytes Gengo.Model.Pipeline Gengo.Model.Whole.
Require Import Gengo.Proofs.Pipeline.
Require Gengo.Model.GenFile.

Lemma assemble_same : forall pkg gen body, assemble pkg gen body = GenFile.assemble pkg gen [] body.
Proof.
  intros pkg gen body. unfold assemble, GenFile.assemble, GenFile.header_comment, GenFile.package_clause, GenFile.import_block.
  cbn [map GenFile.sort_paths fold_right is_nil]. change GenFile.nl with (ascii_of_N 10).
  rewrite <- !app_assoc. cbn [app]. reflexivity.
Qed.

Lemma fname_same : forall a n, fname a n = GenFile.filename (a_base a) n.
Proof. reflexivity. Qed.

Lemma body_of_block : forall body, GenFile.body_of [GenFile.SBlock body] = body.
Proof.
  intros body. unfold GenFile.body_of, GenFile.render_all. cbn [flat_map GenFile.render GenFile.is_nil_snip GenFile.frag].
  destruct body; cbn; [reflexivity|]. rewrite app_nil_r. reflexivity.
Qed.

Section WriteAgree.
  Variable E : env.
  Variables fmt1 fmt2 : bytes -> option bytes.
  Hypothesis Hfmt : e_fmt E = genfile_fmt fmt1 fmt2.
  Variable a : args.
  Variable p : pkginfo.

  (* one WriteToFile *)
  Lemma write_file_same : forall gf,
    GenFile.write_file fmt1 fmt2 true (a_base a) (pk_name p) (genfile_of gf)
    = if is_nil (snd gf) then GenFile.WNothing
      else match e_fmt E (assemble (pk_name p) (fst gf) (snd gf)) with
           | None => GenFile.WErr
           | Some out => GenFile.WWrite (fname a (fst gf)) out
           end.
  Proof.
    intros [n body]. unfold GenFile.write_file, genfile_of. cbn [fst snd GenFile.gf_snips GenFile.gf_name GenFile.gf_imports].
    rewrite body_of_block. destruct (is_nil body); [reflexivity|].
    rewrite Hfmt, assemble_same. unfold genfile_fmt. reflexivity.
  Qed.

  Definition dir_rel (fsys : GenFile.fsys) (s : fs) : Prop :=
    forall name, GenFile.fs_get fsys name = fs_lookup (pk_dir p, name) s.

  Lemma dir_rel_write : forall fsys s n out, dir_rel fsys s ->
    dir_rel (GenFile.fs_set fsys (fname a n) out) (write_file_fs (gen_file a p n) out s).
  Proof.
    intros fsys s n out Hrel name. unfold GenFile.fs_set, write_file_fs, gen_file. cbn [GenFile.fs_get].
    destruct (bytes_eqb name (fname a n)) eqn:Heq.
    - apply bytes_eqb_spec in Heq. subst name. rewrite lookup_set_same. reflexivity.
    - rewrite !lookup_set_other.
      + apply Hrel.
      + intros Hx. inversion Hx. subst name. rewrite bytes_eqb_refl in Heq. discriminate.
      + intros Hx. inversion Hx. subst name. rewrite bytes_eqb_refl in Heq. discriminate.
  Qed.

  (* the write loop: same error behaviour, same directory afterwards (files written before an error stay) *)
  Theorem write_all_same : forall gfs rem fsys s,
    dir_rel fsys s ->
    match GenFile.write_all fmt1 fmt2 true (a_base a) (pk_name p) (map genfile_of gfs) fsys,
          write_loop_fs E a p gfs rem s with
    | None, (_, _, Some (EParse _)) => True
    | Some fsys', (s', _, None) => dir_rel fsys' s'
    | _, _ => False
    end.
  Proof.
    induction gfs as [|[n body] r IH]; intros rem fsys s Hrel; cbn [map GenFile.write_all write_loop_fs].
    - exact Hrel.
    - rewrite write_file_same. cbn [fst snd]. destruct (is_nil body); [apply IH; exact Hrel|].
      destruct (e_fmt E (assemble (pk_name p) n body)) as [out|]; [|exact I].
      apply IH. apply dir_rel_write. exact Hrel.
  Qed.
End WriteAgree.
