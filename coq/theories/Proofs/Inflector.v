(* Lemmas about Model/Inflector.v: totality of the repaired Rule.inflected, preservation of the
   prefix before a trailing irregular word, refutations for the code before the fix, and the
   side conditions of the extracted tables. *)
Require Import Gengo.Base.Bytes Gengo.Model.Inflector Gengo.Gen.InflectorTables Gengo.Model.InflectorApi.

(* ---- facts about single bytes (256 cases each) ---- *)

Ltac all_bytes c := destruct c as [[] [] [] [] [] [] [] []]; vm_compute; intros; try reflexivity; try discriminate.

Lemma lower_letter : forall c, is_letter c = true -> is_letter (to_lower c) = true.
Proof. intros c. all_bytes c. Qed.

Lemma lower_idem_eqb : forall c, byte_eqb (to_lower c) (to_lower (to_lower c)) = true.
Proof. intros c. all_bytes c. Qed.

Lemma lower_is_lower_letter : forall c, is_lower (to_lower c) = true -> is_letter c = true.
Proof. intros c. all_bytes c. Qed.

Lemma letter_not_e2 : forall c, is_letter c = true -> byte_eqb c (b_ 226) = false.
Proof. intros c. all_bytes c. Qed.

Lemma letter_not_nl : forall c, is_letter c = true -> byte_eqb c nl = false.
Proof. intros c. all_bytes c. Qed.

Lemma letter_is_word : forall c, is_letter c = true -> is_word_byte c = true.
Proof. intros c. all_bytes c. Qed.

Lemma nl_not_word : is_word_byte nl = false.
Proof. reflexivity. Qed.

Lemma byte_eqb_true : forall a b, byte_eqb a b = true -> a = b.
Proof. intros a b H. apply Ascii.eqb_eq. exact H. Qed.

(* ---- letters-only words ---- *)

Definition letters (w : bytes) : Prop := forallb is_letter w = true.

Lemma letters_cons : forall c w, letters (c :: w) -> is_letter c = true /\ letters w.
Proof. intros c w H. unfold letters in *. cbn in H. apply andb_true_iff in H. exact H. Qed.

Lemma lower_word_letters : forall w, forallb is_lower (map to_lower w) = true -> letters w.
Proof.
  induction w as [|c w IH]; intros H.
  - reflexivity.
  - cbn in H. apply andb_true_iff in H. destruct H as [H1 H2].
    unfold letters. cbn. rewrite (lower_is_lower_letter c H1). apply IH. exact H2.
Qed.

Lemma eat_fold_lower_self : forall c r, is_letter c = true -> eat_fold (to_lower c) (c :: r) = Some r.
Proof.
  intros c r H. unfold eat_fold. rewrite (lower_letter c H). rewrite (lower_idem_eqb c). reflexivity.
Qed.

Lemma fold_match_lower_self : forall w, letters w -> fold_match (map to_lower w) w = true.
Proof.
  induction w as [|c w IH]; intros H.
  - reflexivity.
  - apply letters_cons in H. destruct H as [Hc Hw].
    cbn [map fold_match]. rewrite (eat_fold_lower_self c w Hc). apply IH. exact Hw.
Qed.

Lemma go_to_lower_letters : forall w, letters w -> go_to_lower w = map to_lower w.
Proof.
  induction w as [|a w IH]; intros H.
  - reflexivity.
  - apply letters_cons in H. destruct H as [Ha Hw].
    cbn [go_to_lower map]. rewrite (letter_not_e2 a Ha). cbn [andb].
    rewrite (IH Hw). destruct w as [|b [|c r]]; reflexivity.
Qed.

Lemma go_to_lower_nil : forall w, go_to_lower w = [] -> w = [].
Proof.
  intros [|a r]; [reflexivity|]. intros H. exfalso. revert H. cbn [go_to_lower].
  destruct r as [|b [|c r']]; try discriminate.
  match goal with |- context [if ?c then _ else _] => destruct c end; discriminate.
Qed.

(* ---- irregularMap ---- *)

Lemma lookup_some_in : forall k tbl r, lookup k tbl = Some r -> In (k, r) tbl.
Proof.
  induction tbl as [|[w r0] tbl IH]; intros r H.
  - discriminate.
  - cbn in H. destruct (lookup k tbl) as [x|] eqn:E.
    + inversion H; subst. right. apply IH. reflexivity.
    + destruct (bytes_eqb k w) eqn:Ek; [|discriminate].
      inversion H; subst. apply bytes_eqb_spec in Ek. subst. left. reflexivity.
Qed.

Lemma lookup_in : forall k tbl, In k (map fst tbl) -> exists r, lookup k tbl = Some r.
Proof.
  induction tbl as [|[w r0] tbl IH]; intros H.
  - destruct H.
  - cbn. destruct (lookup k tbl) as [x|] eqn:E.
    + exists x. reflexivity.
    + destruct H as [H|H].
      * cbn in H. subst. rewrite bytes_eqb_refl. exists r0. reflexivity.
      * destruct (IH H) as [r Hr]. discriminate.
Qed.

Lemma table_wf_in : forall tbl w r, table_wf tbl = true -> In (w, r) tbl ->
  w <> [] /\ forallb is_lower w = true /\ r <> [].
Proof.
  intros tbl w r Hwf Hin. unfold table_wf in Hwf. rewrite forallb_forall in Hwf.
  specialize (Hwf (w, r) Hin). cbn in Hwf.
  apply andb_true_iff in Hwf. destruct Hwf as [Hwf H3]. apply andb_true_iff in Hwf. destruct Hwf as [H1 H2].
  repeat split.
  - intros ->. discriminate.
  - exact H2.
  - intros ->. discriminate.
Qed.

Lemma table_wf_word : forall tbl w, table_wf tbl = true -> In w (map fst tbl) ->
  w <> [] /\ forallb is_lower w = true.
Proof.
  intros tbl w Hwf Hin. apply in_map_iff in Hin. destruct Hin as [[w' r] [E Hin]]. cbn in E. subst.
  destruct (table_wf_in tbl w r Hwf Hin) as [A [B _]]. split; assumption.
Qed.

(* ---- totality of the repaired code ---- *)

Lemma inflected_total :
  forall tbl unf suffix, table_wf tbl = true ->
  forall s, exists r, inflected true tbl unf suffix s = Ok r.
Proof.
  intros tbl unf suffix Hwf s. unfold inflected.
  assert (Hrest : exists r, rest unf suffix s = Ok r).
  { unfold rest. destruct (uninflected_match unf s); eexists; reflexivity. }
  destruct (irregular_match (map fst tbl) s) as [[[skipped cap1] word]|]; [|exact Hrest].
  destruct (lookup (go_to_lower word) tbl) as [repl|] eqn:El; [|exact Hrest].
  apply lookup_some_in in El. destruct (table_wf_in _ _ _ Hwf El) as [Hk [_ Hr]].
  destruct word as [|c word]; [exfalso; apply Hk; reflexivity|].
  destruct repl as [|d repl]; [exfalso; apply Hr; reflexivity|].
  cbn. eexists. reflexivity.
Qed.

(* ---- the irregular expression on  p ++ w  ---- *)

Lemma last_opt_app : forall x y a, last_opt a (x ++ y) = last_opt (last_opt a x) y.
Proof. induction x as [|c x IH]; intros y a; cbn; [reflexivity|apply IH]. Qed.

Lemma last_line_no_nl : forall w, forallb (fun c => negb (byte_eqb c nl)) w = true -> last_line w = ([], w).
Proof.
  induction w as [|c w IH]; intros H.
  - reflexivity.
  - cbn in H. apply andb_true_iff in H. destruct H as [Hc Hw].
    cbn [last_line]. rewrite (IH Hw). cbv beta iota. apply negb_true_iff in Hc. rewrite Hc. reflexivity.
Qed.

Lemma last_line_app : forall p w, forallb (fun c => negb (byte_eqb c nl)) w = true ->
  last_line (p ++ w) = (fst (last_line p), snd (last_line p) ++ w).
Proof.
  induction p as [|c p IH]; intros w Hw.
  - cbn [app]. rewrite (last_line_no_nl w Hw). reflexivity.
  - cbn [app last_line]. rewrite (IH w Hw). destruct (last_line p) as [a l]. cbn [fst snd].
    destruct a as [|a0 a].
    + destruct (byte_eqb c nl); reflexivity.
    + reflexivity.
Qed.

Lemma last_line_concat : forall p, fst (last_line p) ++ snd (last_line p) = p.
Proof.
  induction p as [|c p IH].
  - reflexivity.
  - cbn [last_line]. destruct (last_line p) as [a l]. cbn [fst snd] in *.
    destruct a as [|a0 a].
    + cbn in IH. subst. destruct (byte_eqb c nl); reflexivity.
    + cbn. rewrite <- IH. reflexivity.
Qed.

(* the byte before the last line is a newline (or the start of the text) *)
Lemma last_line_prev : forall p,
  last_opt None (fst (last_line p)) = if is_nil (fst (last_line p)) then None else Some nl.
Proof.
  assert (G : forall p a, last_opt a (fst (last_line p)) = if is_nil (fst (last_line p)) then a else Some nl).
  { induction p as [|c p IH]; intros a.
    - reflexivity.
    - cbn [last_line]. specialize (IH (Some c)). destruct (last_line p) as [x l]. cbn [fst] in *.
      destruct x as [|x0 x].
      + destruct (byte_eqb c nl) eqn:E; cbn; [|reflexivity].
        apply byte_eqb_true in E. subst. reflexivity.
      + cbn [fst last_opt is_nil]. cbn [is_nil] in IH. exact IH. }
  intros p. apply G.
Qed.

Section Cut.
  Variable words : list bytes.
  Hypothesis words_nonempty : forall w, In w words -> w <> [].

  Lemma not_table_word_nil : is_table_word words [] = false.
  Proof.
    unfold is_table_word. apply not_true_is_false. intros H. apply existsb_exists in H.
    destruct H as [w [Hin Hm]]. destruct w as [|c w]; [exact (words_nonempty [] Hin eq_refl)|].
    cbn in Hm. discriminate.
  Qed.

  (* inside a run of letters there is no word boundary, and at its end no (non-empty) word is left *)
  Lemma last_cut_inside : forall w c, letters w -> is_letter c = true -> last_cut words (Some c) w = None.
  Proof.
    induction w as [|d w IH]; intros c Hw Hc.
    - cbn. unfold valid_cut. rewrite not_table_word_nil. rewrite andb_false_r. reflexivity.
    - apply letters_cons in Hw. destruct Hw as [Hd Hw].
      cbn [last_cut]. rewrite (IH d Hw Hd).
      unfold valid_cut, boundary. cbn [wordb hd_error].
      rewrite (letter_is_word c Hc), (letter_is_word d Hd). reflexivity.
  Qed.

  Lemma last_cut_app : forall l w prev,
    letters w -> valid_cut words (last_opt prev l) w = true ->
    last_cut words prev (l ++ w) = Some (l, w).
  Proof.
    induction l as [|x l IH]; intros w prev Hw Hv.
    - cbn [app]. cbn [last_opt] in Hv. destruct w as [|c w].
      + cbn. rewrite Hv. reflexivity.
      + pose proof (letters_cons _ _ Hw) as [Hc Hw'].
        cbn [last_cut]. rewrite (last_cut_inside w c Hw' Hc). rewrite Hv. reflexivity.
    - cbn [app last_cut]. cbn [last_opt] in Hv. rewrite (IH w (Some x) Hw Hv). reflexivity.
  Qed.

  Lemma irregular_match_app : forall p w,
    letters w -> w <> [] -> is_table_word words w = true -> at_boundary p = true ->
    irregular_match words (p ++ w) = Some (fst (last_line p), snd (last_line p), w).
  Proof.
    intros p w Hw Hne Ht Hb. unfold irregular_match.
    assert (Hnl : forallb (fun c => negb (byte_eqb c nl)) w = true).
    { clear - Hw. induction w as [|c w IH]; [reflexivity|].
      apply letters_cons in Hw. destruct Hw as [Hc Hw]. cbn. rewrite (letter_not_nl c Hc). cbn. apply IH. exact Hw. }
    rewrite (last_line_app p w Hnl).
    rewrite last_cut_app; [reflexivity|exact Hw|].
    rewrite <- last_line_prev. rewrite <- last_opt_app. rewrite last_line_concat.
    unfold valid_cut, boundary. rewrite Ht. rewrite andb_true_r.
    unfold at_boundary in Hb. apply negb_true_iff in Hb. rewrite Hb.
    destruct w as [|c w]; [exfalso; apply Hne; reflexivity|].
    apply letters_cons in Hw. destruct Hw as [Hc _]. cbn. rewrite (letter_is_word c Hc). reflexivity.
  Qed.
End Cut.

Lemma irregular_is_table_word : forall tbl w, letters w -> irregular tbl w ->
  is_table_word (map fst tbl) w = true.
Proof.
  intros tbl w Hw Hin. unfold is_table_word. apply existsb_exists.
  exists (map to_lower w). split; [exact Hin|apply fold_match_lower_self; exact Hw].
Qed.

Lemma irregular_letters : forall tbl w, table_wf tbl = true -> irregular tbl w -> letters w /\ w <> [].
Proof.
  intros tbl w Hwf Hin. destruct (table_wf_word tbl _ Hwf Hin) as [Hne Hlow]. split.
  - apply lower_word_letters. exact Hlow.
  - intros ->. apply Hne. reflexivity.
Qed.

(* what the repaired code returns on  p ++ w  when w is an irregular word after a boundary *)
Lemma inflected_irregular_shape :
  forall tbl unf suffix, table_wf tbl = true ->
  forall p w, irregular tbl w -> at_boundary p = true ->
  exists c w' d repl, w = c :: w' /\ lookup (map to_lower w) tbl = Some (d :: repl)
    /\ inflected true tbl unf suffix (p ++ w) = Ok (p ++ c :: repl).
Proof.
  intros tbl unf suffix Hwf p w Hirr Hb.
  destruct (irregular_letters tbl w Hwf Hirr) as [Hw Hne].
  destruct (lookup_in _ tbl Hirr) as [r Hr].
  pose proof (lookup_some_in _ _ _ Hr) as Hin. destruct (table_wf_in _ _ _ Hwf Hin) as [_ [_ Hrne]].
  destruct w as [|c w']; [exfalso; apply Hne; reflexivity|].
  destruct r as [|d repl]; [exfalso; apply Hrne; reflexivity|].
  exists c, w', d, repl. split; [reflexivity|]. split; [exact Hr|].
  unfold inflected.
  rewrite (irregular_match_app (map fst tbl)
             (fun x Hx => proj1 (table_wf_word tbl x Hwf Hx)) p (c :: w') Hw Hne
             (irregular_is_table_word tbl _ Hw Hirr) Hb).
  rewrite (go_to_lower_letters _ Hw). rewrite Hr. cbn [slice_0_1 slice_from_1 bind].
  rewrite app_assoc. rewrite last_line_concat. reflexivity.
Qed.

Lemma at_boundary_nil : at_boundary [] = true.
Proof. reflexivity. Qed.

Lemma inflected_prefix_preserved :
  forall tbl unf suffix, table_wf tbl = true ->
  forall p w, irregular tbl w -> at_boundary p = true ->
  exists r, inflected true tbl unf suffix w = Ok r
         /\ inflected true tbl unf suffix (p ++ w) = Ok (p ++ r).
Proof.
  intros tbl unf suffix Hwf p w Hirr Hb.
  destruct (inflected_irregular_shape tbl unf suffix Hwf p w Hirr Hb) as [c [w' [d [repl [Ew [Hl Hp]]]]]].
  destruct (inflected_irregular_shape tbl unf suffix Hwf [] w Hirr at_boundary_nil) as [c2 [w2 [d2 [repl2 [Ew2 [Hl2 H0]]]]]].
  subst w. inversion Ew2; subst c2 w2. rewrite Hl in Hl2. inversion Hl2; subst d2 repl2.
  exists (c :: repl). split; [exact H0|exact Hp].
Qed.

(* the irregular word alone: its own first byte, then the replacement without its first byte *)
Lemma inflected_irregular_alone :
  forall tbl unf suffix, table_wf tbl = true ->
  forall w, irregular tbl w ->
  exists c w' d repl, w = c :: w' /\ lookup (map to_lower w) tbl = Some (d :: repl)
    /\ inflected true tbl unf suffix w = Ok (c :: repl).
Proof.
  intros tbl unf suffix Hwf w Hirr.
  exact (inflected_irregular_shape tbl unf suffix Hwf [] w Hirr at_boundary_nil).
Qed.

Lemma irregularb_spec : forall tbl w, irregularb tbl w = true <-> irregular tbl w.
Proof.
  intros tbl w. unfold irregularb, irregular. rewrite existsb_exists. split.
  - intros [[k r] [Hin He]]. cbn in He. apply bytes_eqb_spec in He. rewrite He.
    apply in_map_iff. exists (k, r). split; [reflexivity|exact Hin].
  - intros H. apply in_map_iff in H. destruct H as [[k r] [E Hin]]. cbn in E. subst.
    exists (map to_lower w, r). split; [exact Hin|cbn; apply bytes_eqb_refl].
Qed.

(* ---- the extracted tables ---- *)

Lemma tables_ok : tables_wf = true.
Proof. vm_compute. reflexivity. Qed.

Lemma plural_wf : table_wf plural_irregular = true.
Proof.
  pose proof tables_ok as H. unfold tables_wf in H.
  repeat (apply andb_true_iff in H; destruct H as [H ?]). exact H.
Qed.

Lemma singular_wf : table_wf singular_irregular = true.
Proof.
  pose proof tables_ok as H. unfold tables_wf in H.
  apply andb_true_iff in H. destruct H as [H _]. apply andb_true_iff in H. destruct H as [H _].
  apply andb_true_iff in H. destruct H as [_ H]. exact H.
Qed.

Lemma api_table_wf : forall plural, table_wf (api_table plural) = true.
Proof. intros []; [exact plural_wf|exact singular_wf]. Qed.

Lemma api_total : forall plural suffix s, exists r, api true plural suffix s = Ok r.
Proof.
  intros [] suffix s; unfold api.
  - apply inflected_total. exact plural_wf.
  - apply inflected_total. exact singular_wf.
Qed.

Lemma api_prefix_preserved :
  forall plural suffix p w, irregular (api_table plural) w -> at_boundary p = true ->
  exists r, api true plural suffix w = Ok r /\ api true plural suffix (p ++ w) = Ok (p ++ r).
Proof.
  intros [] suffix p w Hirr Hb; unfold api; cbn [api_table] in Hirr.
  - apply inflected_prefix_preserved; [exact plural_wf|exact Hirr|exact Hb].
  - apply inflected_prefix_preserved; [exact singular_wf|exact Hirr|exact Hb].
Qed.

(* ---- which strings reach the suffix rules ---- *)

(* a string that does not reach the suffix rules: the result does not depend on them *)
Lemma inflected_suffix_independent : forall fixed tbl unf s,
  reaches_suffix fixed tbl unf s = false ->
  forall f g, inflected fixed tbl unf f s = inflected fixed tbl unf g s.
Proof.
  intros fixed tbl unf s H f g. unfold reaches_suffix in H. unfold inflected, rest.
  destruct (irregular_match (map fst tbl) s) as [[[skipped cap1] word]|].
  - destruct fixed; [|reflexivity].
    destruct (lookup (go_to_lower word) tbl); [reflexivity|].
    apply negb_false_iff in H. rewrite H. reflexivity.
  - apply negb_false_iff in H. rewrite H. reflexivity.
Qed.

(* a string that reaches them: the result is theirs *)
Lemma inflected_reaches_suffix : forall tbl unf s,
  reaches_suffix true tbl unf s = true ->
  forall f, inflected true tbl unf f s = Ok (f s).
Proof.
  intros tbl unf s H f. unfold reaches_suffix in H. unfold inflected, rest.
  destruct (irregular_match (map fst tbl) s) as [[[skipped cap1] word]|].
  - destruct (lookup (go_to_lower word) tbl); [discriminate|].
    apply negb_true_iff in H. rewrite H. reflexivity.
  - apply negb_true_iff in H. rewrite H. reflexivity.
Qed.

(* an irregular word after a word boundary never reaches the suffix rules ... *)
Lemma irregular_never_reaches_suffix : forall tbl unf, table_wf tbl = true ->
  forall p w, irregular tbl w -> at_boundary p = true -> reaches_suffix true tbl unf (p ++ w) = false.
Proof.
  intros tbl unf Hwf p w Hirr Hb.
  destruct (irregular_letters tbl w Hwf Hirr) as [Hw Hne].
  destruct (lookup_in _ tbl Hirr) as [r Hr].
  unfold reaches_suffix.
  rewrite (irregular_match_app (map fst tbl)
             (fun x Hx => proj1 (table_wf_word tbl x Hwf Hx)) p w Hw Hne
             (irregular_is_table_word tbl _ Hw Hirr) Hb).
  rewrite (go_to_lower_letters _ Hw). rewrite Hr. reflexivity.
Qed.

(* ... and neither does a string the uninflected expression matches *)
Lemma uninflected_never_reaches_suffix : forall fixed tbl unf s,
  uninflected_match unf s = true -> reaches_suffix fixed tbl unf s = false.
Proof.
  intros fixed tbl unf s H. unfold reaches_suffix. rewrite H.
  destruct (irregular_match (map fst tbl) s) as [[[skipped cap1] word]|]; [|reflexivity].
  destruct fixed; [|reflexivity]. destruct (lookup (go_to_lower word) tbl); reflexivity.
Qed.

(* ---- the code before the fix ---- *)

Definition id_suffix (s : bytes) : bytes := s.

(* Pluralize("atlaſ") panicked *)
Lemma old_total_refuted : exists s, api false true id_suffix s = Panic.
Proof. exists (hx "61746c61c5bf"). vm_compute. reflexivity. Qed.

(* Pluralize("my sex") = "my mexes" although Pluralize("sex") = "sexes" *)
Lemma old_prefix_refuted :
  exists p w, irregular plural_irregular w /\ at_boundary p = true
    /\ api false true id_suffix w = Ok (bs "sexes")
    /\ api false true id_suffix (p ++ w) = Ok (bs "my mexes").
Proof.
  exists (bs "my "), (bs "sex"). split; [|split; [|split]].
  - apply irregularb_spec. vm_compute. reflexivity.
  - reflexivity.
  - vm_compute. reflexivity.
  - vm_compute. reflexivity.
Qed.

(* Pluralize("a\nperson") = "aeople": the text before the last newline is dropped *)
Lemma old_newline_refuted :
  exists p w, irregular plural_irregular w /\ at_boundary p = true
    /\ api false true id_suffix (p ++ w) = Ok (bs "aeople").
Proof.
  exists (hx "610a"), (bs "person"). split; [|split].
  - apply irregularb_spec. vm_compute. reflexivity.
  - reflexivity.
  - vm_compute. reflexivity.
Qed.
