(* The shape of Pipeline.exec_trace: in a successful run, the calls one generator receives for one processed
   package ([go_trace (gen_run E g p)]) are a contiguous segment of the run's call log.  (Used to state, OF the
   pipeline trace, what C06 proves about one generator on one package.) *)
Require Import Gengo.Base.Bytes Gengo.Model.Pipeline.
Require Import Gengo.Proofs.Pipeline Gengo.Proofs.PipelinePkg.

Section Trace.
  Variable E : env.

  Lemma gen_phase_segment : forall gens p g,
    snd (gen_phase E gens p) = Done -> In g gens ->
    exists pre post, snd (fst (gen_phase E gens p)) = pre ++ go_trace (gen_run E g p) ++ post.
  Proof.
    induction gens as [|g0 r IH]; intros p g Hd Hin; [contradiction|].
    cbn [gen_phase] in *. destruct (go_out (gen_run E g0 p)) eqn:Hgo; cbn [snd] in Hd; try discriminate Hd.
    destruct (gen_phase E r p) as [[gfs tr] out] eqn:Hgp. cbn [fst snd] in *.
    destruct Hin as [Hin|Hin].
    - subst g0. exists [], tr. reflexivity.
    - destruct (IH p g) as [pre [post Hp]]; [rewrite Hgp; exact Hd | exact Hin|].
      rewrite Hgp in Hp. cbn [fst snd] in Hp. exists (go_trace (gen_run E g0 p) ++ pre), post.
      rewrite Hp, <- app_assoc. reflexivity.
  Qed.

  Lemma pkg_effects_segment : forall a gens p g,
    snd (pkg_effects E a gens p) = Done -> In g gens ->
    exists pre post, snd (fst (pkg_effects E a gens p)) = pre ++ go_trace (gen_run E g p) ++ post.
  Proof.
    intros a gens p g Hd Hin. unfold pkg_effects in *.
    pose proof (gen_phase_segment gens p g) as Hs.
    destruct (gen_phase E gens p) as [[gfs tr] out]. cbn [fst snd] in *.
    destruct out; cbn [snd] in Hd; try discriminate Hd.
    destruct (write_loop E a p (e_order E p gfs) (generated_files a p)) as [[effs rem] e].
    destruct e; cbn [fst snd] in *; [discriminate Hd|]. apply Hs; [reflexivity | exact Hin].
  Qed.

  Lemma run_pkgs_segment : forall a w gens prev ps p g,
    snd (run_pkgs E a w gens prev ps) = Done ->
    In p ps -> selected a w p = true -> pkg_changed a w prev p = true -> In g gens ->
    exists pre post, snd (fst (run_pkgs E a w gens prev ps)) = pre ++ go_trace (gen_run E g p) ++ post.
  Proof.
    intros a w gens prev. induction ps as [|p0 r IH]; intros p g Hd Hin Hsel Hch Hg; [contradiction|].
    cbn [run_pkgs] in *.
    destruct (selected a w p0) eqn:Hs0.
    - destruct (pkg_execute E a w gens prev p0) as [[e1 t1] o1] eqn:Hpe.
      destruct o1; cbn [snd] in Hd; try discriminate Hd.
      destruct (run_pkgs E a w gens prev r) as [[e2 t2] o2] eqn:Hr. cbn [fst snd] in *.
      destruct Hin as [Hin|Hin].
      + subst p0. unfold pkg_execute in Hpe. rewrite Hch in Hpe.
        destruct (pkg_effects_segment a gens p g) as [pre [post Hp]]; [rewrite Hpe; reflexivity | exact Hg|].
        rewrite Hpe in Hp. cbn [fst snd] in Hp. exists pre, (post ++ t2). rewrite Hp, <- !app_assoc. reflexivity.
      + destruct (IH p g Hd Hin Hsel Hch Hg) as [pre [post Hp]]. exists (t1 ++ pre), post.
        rewrite Hp, <- app_assoc. reflexivity.
    - destruct Hin as [Hin|Hin]; [subst p0; congruence|]. apply IH; assumption.
  Qed.

  Theorem exec_trace_segment : forall a w gens s p g,
    exec_outcome E a w gens s = Done ->
    In p (w_pkgs w) -> processed E a w s p = true -> In g gens ->
    exists pre post, exec_trace E a w gens s = pre ++ go_trace (gen_run E g p) ++ post.
  Proof.
    intros a w gens s p g Hd Hin Hpr Hg. unfold processed in Hpr. apply andb_true_iff in Hpr. destruct Hpr as [Hsel Hch].
    unfold exec_trace, exec_outcome, run_all in *. apply run_pkgs_segment; try assumption.
    apply (sort_by_In pk_path). exact Hin.
  Qed.
End Trace.
