(* C10 — non-vacuity witnesses for the round-trip theorem:
     A. a decimal-float instance of the external float components whose [fbig] is not constant
        (scientific notation exactly when |x| >= 1e21; clause 5 of the hypotheses is not vacuous),
     B. a quote function that really escapes, with its injectivity,
     C. concrete nested values (with and without floats): in the domain, well typed, and the main theorem
        instantiated on them; the literal text computed,
     D. the harness's float record [fl] with a finite table of real strconv data. *)
Require Import Gengo.Base.Bytes Gengo.Model.ValueLit Gengo.Model.ValueLitSpec Gengo.Model.ValueLitInst
               Gengo.Proofs.ValueLitBase Gengo.Proofs.ValueLit.
From Coq Require Import ZArith DecimalString DecimalZ Permutation.

(* ============================================================================================== *)
(* A. decimal floats                                                                              *)
(* ============================================================================================== *)

(* ---- a decimal integer never contains the byte 'e' ---- *)

Definition not_e (c : ascii) : Prop := c <> "e"%char.

Lemma uint_no_e : forall d, Forall not_e (of_string (NilEmpty.string_of_uint d)).
Proof. induction d; cbn; constructor; try assumption; intros H; discriminate H. Qed.

Lemma zuint_no_e : forall d, Forall not_e (of_string (NilZero.string_of_uint d)).
Proof.
  intros d. unfold NilZero.string_of_uint. destruct d; try apply uint_no_e.
  cbn. constructor; [intros H; discriminate H | constructor].
Qed.

Lemma int_no_e : forall i, Forall not_e (of_string (NilZero.string_of_int i)).
Proof.
  intros [d|d]; cbn [NilZero.string_of_int of_string].
  - apply zuint_no_e.
  - constructor; [intros H; discriminate H | apply zuint_no_e].
Qed.

Lemma dec_no_e : forall z, Forall not_e (dec z).
Proof. intros z. unfold dec. apply int_no_e. Qed.

Lemma parse_int_no_e : forall s z, parse_int s = Some z -> Forall not_e s.
Proof.
  unfold parse_int. intros s z H.
  destruct (NilZero.int_of_string (to_string s)) as [i|] eqn:E; [|discriminate].
  apply NilZero.sis in E. rewrite <- (of_to_string s), <- E. apply int_no_e.
Qed.

Lemma parse_int_e : forall a b, parse_int (a ++ "e"%char :: b) = None.
Proof.
  intros a b. destruct (parse_int (a ++ "e"%char :: b)) as [z|] eqn:E; [|reflexivity].
  apply parse_int_no_e in E. apply Forall_app in E. destruct E as [_ E].
  inversion E as [|? ? Hne _]. elim Hne. reflexivity.
Qed.

(* ---- the instance ---- *)

(* (m, e) stands for m * 10^e *)
Definition df : Type := (Z * nat)%type.
Definition d_val (x : df) : Z := (fst x * 10 ^ Z.of_nat (snd x))%Z.

Definition d_fzero (x : df) : bool := (d_val x =? 0)%Z.
Definition d_fbig (x : df) : bool := (10 ^ 21 <=? Z.abs (d_val x))%Z.
(* 'f' format of an integer-valued float: all the digits *)
Definition d_ffmt (_ : fkind) (x : df) : bytes := dec (d_val x).
(* 'g' format: scientific notation exactly from 1e21 on *)
Definition d_gfmt (_ : fkind) (x : df) : bytes :=
  if d_fbig x then dec (fst x) ++ bs "e+" ++ dec_nat (snd x) else dec (d_val x).

(* split at the first 'e' *)
Fixpoint split_e (s : bytes) : option (bytes * bytes) :=
  match s with
  | [] => None
  | c :: r => if Ascii.eqb c "e"%char then Some ([], r)
              else match split_e r with Some (a, b) => Some (c :: a, b) | None => None end
  end.

(* INT, or INT "e+" INT *)
Definition d_fparse (_ : fkind) (s : bytes) : option df :=
  match parse_int s with
  | Some z => Some (z, 0)
  | None =>
      match split_e s with
      | Some (a, c :: b) =>
          if Ascii.eqb c "+"%char then
            match parse_int a, parse_int b with
            | Some m, Some e => Some (m, Z.to_nat e)
            | _, _ => None
            end
          else None
      | _ => None
      end
  end.

Definition d_f0 : df := (0%Z, 0).

(* a finite value of the type: bounded mantissa, exponent and magnitude *)
Definition d_frepb (k : fkind) (x : df) : bool :=
  match k with
  | KF64 => (Z.abs (fst x) <? 2 ^ 53)%Z && Nat.leb (snd x) 308 && (Z.abs (d_val x) <? 2 ^ 1024)%Z
  | KF32 => (Z.abs (fst x) <? 2 ^ 24)%Z && Nat.leb (snd x) 38 && (Z.abs (d_val x) <? 2 ^ 128)%Z
  end.
Definition d_frep (k : fkind) (x : df) : Prop := d_frepb k x = true.
Definition d_feq (x y : df) : Prop := d_val x = d_val y.

Lemma split_e_app : forall a b, Forall not_e a -> split_e (a ++ "e"%char :: b) = Some (a, b).
Proof.
  induction a as [|c a IH]; intros b H; [reflexivity|].
  inversion H as [|? ? Hc Ha]; subst. cbn [app split_e].
  destruct (Ascii.eqb c "e"%char) eqn:E; [apply Ascii.eqb_eq in E; contradiction|].
  now rewrite (IH b Ha).
Qed.

Lemma d_fparse_int : forall k z, d_fparse k (dec z) = Some (z, 0).
Proof. intros k z. unfold d_fparse. now rewrite parse_int_dec. Qed.

Lemma d_fparse_sci : forall k m e, d_fparse k (dec m ++ bs "e+" ++ dec_nat e) = Some (m, e).
Proof.
  intros k m e. unfold d_fparse. change (bs "e+" ++ dec_nat e) with ("e"%char :: "+"%char :: dec_nat e).
  rewrite parse_int_e, (split_e_app _ _ (dec_no_e m)). cbn [Ascii.eqb Bool.eqb].
  unfold dec_nat. rewrite !parse_int_dec. now rewrite Nat2Z.id.
Qed.

Lemma d_feq_int : forall x, d_feq x (d_val x, 0).
Proof. intros x. unfold d_feq, d_val. cbn [fst snd Z.of_nat]. now rewrite Z.pow_0_r, Z.mul_1_r. Qed.

Lemma d_instance :
  (forall x, d_fzero x = true -> d_feq x d_f0) /\
  (forall k x, d_frep k x -> exists y, d_fparse k (d_ffmt k x) = Some y /\ d_feq x y) /\
  (forall k x, d_frep k x -> exists y, d_fparse k (d_gfmt k x) = Some y /\ d_feq x y) /\
  (forall k x z, d_frep k x -> d_fbig x = false -> parse_int (d_ffmt k x) = Some z -> int_const_ok z = true) /\
  (forall k x, d_frep k x -> d_fbig x = true -> parse_int (d_gfmt k x) = None).
Proof.
  repeat match goal with |- _ /\ _ => split end.
  - intros x H. unfold d_fzero in H. apply Z.eqb_eq in H. unfold d_feq. rewrite H. reflexivity.
  - intros k x _. exists (d_val x, 0). split; [apply d_fparse_int | apply d_feq_int].
  - intros k [m e] _. unfold d_gfmt. destruct (d_fbig (m, e)).
    + exists (m, e). split; [apply d_fparse_sci | reflexivity].
    + exists (d_val (m, e), 0). split; [apply d_fparse_int | apply d_feq_int].
  - intros k x z _ Hb H. unfold d_ffmt in H. rewrite parse_int_dec in H. injection H as <-.
    unfold int_const_ok. apply Z.ltb_lt. unfold d_fbig in Hb. apply Z.leb_gt in Hb.
    eapply Z.lt_trans; [exact Hb | vm_compute; reflexivity].
  - intros k [m e] _ Hb. unfold d_gfmt. rewrite Hb.
    change (bs "e+" ++ dec_nat e) with ("e"%char :: "+"%char :: dec_nat e). apply parse_int_e.
Qed.

(* a value that is big, one that is not, zero with a non-zero exponent; the finite-value predicate
   excludes something *)
Lemma d_facts :
  (d_frep KF64 (15%Z, 20) /\ d_fbig (15%Z, 20) = true /\ d_gfmt KF64 (15%Z, 20) = bs "15e+20" /\
   d_ffmt KF64 (15%Z, 20) = bs "1500000000000000000000" /\
   parse_int (bs "15e+20") = None /\ d_fparse KF64 (bs "15e+20") = Some (15%Z, 20)) /\
  (d_frep KF64 (42%Z, 1) /\ d_fbig (42%Z, 1) = false /\ d_gfmt KF64 (42%Z, 1) = bs "420" /\
   d_ffmt KF64 (42%Z, 1) = bs "420" /\ d_fparse KF64 (bs "420") = Some (420%Z, 0)) /\
  (d_frep KF32 ((-1)%Z, 30) /\ d_fbig ((-1)%Z, 30) = true /\ d_gfmt KF32 ((-1)%Z, 30) = bs "-1e+30") /\
  (d_frep KF64 (0%Z, 5) /\ d_fzero (0%Z, 5) = true /\ d_fzero (42%Z, 1) = false) /\
  (d_frepb KF32 (1%Z, 39) = false /\ d_frepb KF64 ((2 ^ 53)%Z, 0) = false /\ d_frepb KF64 (2%Z, 308) = false).
Proof. vm_compute. repeat split; reflexivity. Qed.

(* ============================================================================================== *)
(* B. a quote function that escapes                                                               *)
(* ============================================================================================== *)

Definition bsl : ascii := ascii_of_N 92.   (* backslash *)
Definition dq : ascii := ascii_of_N 34.    (* double quote *)

Definition esc (c : ascii) : bytes :=
  if Ascii.eqb c bsl then [bsl; bsl]
  else if Ascii.eqb c dq then [bsl; dq]
  else if Ascii.eqb c nl then [bsl; "n"%char]
  else [c].

Definition esc_quote (s : bytes) : bytes := dq :: concat (map esc s) ++ [dq].

Fixpoint unesc (s : bytes) : bytes :=
  match s with
  | [] => []
  | c :: r =>
      if Ascii.eqb c bsl then
        match r with
        | d :: r' => (if Ascii.eqb d "n"%char then nl else d) :: unesc r'
        | [] => []
        end
      else c :: unesc r
  end.

Lemma unesc_esc : forall s, unesc (concat (map esc s)) = s.
Proof.
  induction s as [|c s IH]; [reflexivity|].
  cbn [map concat]. unfold esc at 1.
  destruct (Ascii.eqb c bsl) eqn:E1.
  { apply Ascii.eqb_eq in E1. subst c. cbn. now rewrite IH. }
  destruct (Ascii.eqb c dq) eqn:E2.
  { apply Ascii.eqb_eq in E2. subst c. cbn. now rewrite IH. }
  destruct (Ascii.eqb c nl) eqn:E3.
  { apply Ascii.eqb_eq in E3. subst c. cbn. now rewrite IH. }
  cbn [app unesc]. rewrite E1. now rewrite IH.
Qed.

Lemma esc_quote_inj : forall a b, esc_quote a = esc_quote b -> a = b.
Proof.
  intros a b H. unfold esc_quote in H. injection H as H. apply app_inj_tail in H. destruct H as [H _].
  rewrite <- (unesc_esc a), <- (unesc_esc b). now rewrite H.
Qed.

Lemma esc_quote_example :
  esc_quote ["a"%char; dq; bsl; nl] = ["""" ; "a"; "\"; """"; "\"; "\"; "\"; "n"; """"]%char.
Proof. vm_compute. reflexivity. Qed.

(* ============================================================================================== *)
(* C. witness values                                                                              *)
(* ============================================================================================== *)

(* the main theorem at the instance A + B *)
Lemma d_roundtrip : forall local t (v : goval df), dom t -> typed d_frep t v ->
  exists l v', value_lit d_fzero d_ffmt d_gfmt d_fbig esc_quote local true false t v = Ok l /\
               denote d_fparse d_f0 t l = Some v' /\ deep_eq d_feq v v'.
Proof.
  destruct d_instance as (H1 & H2 & H3 & H4 & H5). intros local.
  exact (roundtrip_top d_fzero d_ffmt d_gfmt d_fbig d_fparse d_f0 esc_quote local d_frep d_feq
                       H1 H2 H3 H4 H5 esc_quote_inj).
Qed.

Ltac nodup_tac :=
  cbn [map fst]; repeat (constructor; [cbn [In]; intuition discriminate|]); constructor.

Ltac dom_tac :=
  repeat match goal with
         | |- _ => progress cbn [fst snd]
         | |- dom (TNamed _ _ _) => apply DNamed; [discriminate | exact I |]
         | |- dom (TPtr _) => apply DPtr; [exact I|]
         | |- dom (TMap _ _) => apply DMap; [exact I | |]
         | |- dom (TStruct _) => apply DStruct
         | |- dom _ => constructor
         | |- Forall _ _ => constructor
         | |- _ /\ _ => split
         | |- is_exported _ = true => reflexivity
         | |- NoDup _ => nodup_tac
         end.

Ltac typed_tac :=
  repeat match goal with
         | |- _ => progress cbn [fst snd]
         | |- typed _ _ (VBool _) => eapply TyBool; reflexivity
         | |- typed _ _ (VInt _) => eapply TyInt; [reflexivity | reflexivity]
         | |- typed _ _ (VFloat _) => eapply TyFloat; [reflexivity | reflexivity]
         | |- typed _ _ (VStr _) => eapply TyStr; reflexivity
         | |- typed _ _ VNilPtr => eapply TyNil; reflexivity
         | |- typed _ _ (VPtr _) => eapply TyPtr; [reflexivity|]
         | |- typed _ _ (VSlice _ _) => eapply TySlice; [reflexivity | | intros; try discriminate; reflexivity]
         | |- typed _ _ (VArray _) => eapply TyArray; [reflexivity | | reflexivity]
         | |- typed _ _ (VMap _ _) => eapply TyMap; [reflexivity | | | intros; try discriminate; reflexivity]
         | |- typed _ _ (VStruct _) => eapply TyStruct; [reflexivity|]
         | |- Forall _ _ => constructor
         | |- Forall2 _ _ _ => constructor
         | |- _ /\ _ => split
         | |- NoDup _ => nodup_tac
         end.

(* ---- (1) the example of Props/C10.v (no floats), for every float carrier ---- *)

Definition wit_S : gotype :=
  TNamed (bs "m") (bs "S")
    (TStruct [(bs "Z", TPtr T_In); (bs "M", TMap TString T_In); (bs "P", TPtr TString);
              (bs "C", TPtr T_Color); (bs "L", TSlice (TInt KInt32))]).
Definition wit_v (F : Type) : goval F :=
  VStruct [VPtr (VStruct [VInt 0]);
           VMap false [(VStr (bs "b"), VStruct [VInt 0]); (VStr (bs "a"), VStruct [VInt 7])];
           VPtr (VStr (bs "x")); VPtr (VInt 3); VSlice false [VInt 97; VInt 39]].

Lemma wit_S_dom : dom wit_S.
Proof. unfold wit_S, T_In, T_Color. dom_tac. Qed.

Lemma wit_v_typed : forall (F : Type) (frep : fkind -> F -> Prop), typed frep wit_S (wit_v F).
Proof. intros F frep. unfold wit_S, wit_v. typed_tac. Qed.

Lemma wit_v_roundtrip : forall local,
  exists l v', value_lit d_fzero d_ffmt d_gfmt d_fbig esc_quote local true false wit_S (wit_v df) = Ok l /\
               denote d_fparse d_f0 wit_S l = Some v' /\ deep_eq d_feq (wit_v df) v'.
Proof. intros local. exact (d_roundtrip local wit_S (wit_v df) wit_S_dom (wit_v_typed df d_frep)). Qed.

(* ---- (2) a nested value with floats ---- *)

Definition wit_T : gotype :=
  TNamed (bs "m") (bs "Rec")
    (TStruct [(bs "Rows", TSlice (TMap TString (TFloat KF64)));
              (bs "C", TPtr T_Color);
              (bs "K", T_Color);
              (bs "X", TFloat KF32);
              (bs "P", TPtr TString);
              (bs "Q", TPtr TString);
              (bs "Z0", TFloat KF64);
              (bs "In", T_In);
              (bs "A", TArray 2 (TFloat KF64))]).

(* say <quote>hi<quote><backslash><newline> *)
Definition wit_str : bytes := bs "say " ++ [dq] ++ bs "hi" ++ [dq; bsl; nl].
(* k<quote><backslash> *)
Definition wit_key : bytes := ["k"%char; dq; bsl].

Definition wit_fv : goval df :=
  VStruct [VSlice false [VMap false [(VStr (bs "big"), VFloat (15%Z, 20));          (* 1.5e21 *)
                                     (VStr wit_key, VFloat (42%Z, 1));               (* 420 *)
                                     (VStr (bs "zero"), VFloat (0%Z, 5))];           (* 0 *)
                         VMap false [];                                             (* empty map *)
                         VMap true []];                                             (* nil map *)
           VPtr (VInt 3);                                                           (* non-nil *Color *)
           VInt (-7);
           VFloat ((-1)%Z, 30);                                                     (* float32(-1e30) *)
           VPtr (VStr wit_str);
           VNilPtr;
           VFloat (0%Z, 3);                                                         (* zero: omitted *)
           VStruct [VInt 0];                                                        (* zero struct: omitted *)
           VArray [VFloat (1%Z, 21); VFloat ((-25)%Z, 19)]].                        (* 1e21 (big), -2.5e20 (not) *)

Lemma wit_T_dom : dom wit_T.
Proof. unfold wit_T, T_In, T_Color. dom_tac. Qed.

Lemma wit_fv_typed : typed d_frep wit_T wit_fv.
Proof. unfold wit_T, wit_fv. typed_tac. Qed.

Lemma wit_fv_roundtrip : forall local,
  exists l v', value_lit d_fzero d_ffmt d_gfmt d_fbig esc_quote local true false wit_T wit_fv = Ok l /\
               denote d_fparse d_f0 wit_T l = Some v' /\ deep_eq d_feq wit_fv v'.
Proof. intros local. exact (d_roundtrip local wit_T wit_fv wit_T_dom wit_fv_typed). Qed.

Definition wit_local (p : bytes) : bytes := if bytes_eqb p (bs "m") then [] else p.

(* the text the repaired renderer writes for it: the big floats in scientific form, the others with all
   their digits, the zero float and the zero struct omitted, the strings escaped *)
Definition wit_text : bytes :=
  concat (map (fun s => bs s ++ [nl])
    ["Rec{";
     "Rows:[]map[string]float64{";
     "map[string]float64{";
     """big"":15e+20,";
     """k\""\\"":420,";
     """zero"":0,";
     "},";
     "map[string]float64{},";
     "map[string]float64{},";
     "},";
     "C:func(v Color) *Color { return &v }(3),";
     "K:-7,";
     "X:-1e+30,";
     "P:func(v string) *string { return &v }(""say \""hi\""\\\n""),";
     "A:[2]float64{";
     "1e+21,";
     "-250000000000000000000,";
     "},"]%string) ++ bs "}".

Definition wit_lit : option lit :=
  match value_lit d_fzero d_ffmt d_gfmt d_fbig esc_quote wit_local true false wit_T wit_fv with
  | Ok l => Some l
  | _ => None
  end.

Lemma wit_fv_text : option_map (print_lit esc_quote wit_local) wit_lit = Some wit_text.
Proof. vm_compute. reflexivity. Qed.

(* what the literal denotes: 420 comes back as (420, 0), 1.5e21 as (15, 20), the nil map as an empty one,
   the omitted fields as zero values *)
Definition wit_fv' : goval df :=
  VStruct [VSlice false [VMap false [(VStr (bs "big"), VFloat (15%Z, 20));
                                     (VStr wit_key, VFloat (420%Z, 0));
                                     (VStr (bs "zero"), VFloat (0%Z, 0))];
                         VMap false [];
                         VMap false []];
           VPtr (VInt 3);
           VInt (-7);
           VFloat ((-1)%Z, 30);
           VPtr (VStr wit_str);
           VNilPtr;
           VFloat (0%Z, 0);
           VStruct [VInt 0];
           VArray [VFloat (1%Z, 21); VFloat ((-250000000000000000000)%Z, 0)]].

Lemma wit_fv_denote :
  match wit_lit with Some l => denote d_fparse d_f0 wit_T l | None => None end = Some wit_fv'.
Proof. vm_compute. reflexivity. Qed.

Ltac deq_tac :=
  repeat match goal with
         | |- _ => progress cbn [fst snd]
         | |- deep_eq _ (VMap _ _) (VMap _ _) => eapply EMap; [apply Permutation_refl|]
         | |- deep_eq _ (VFloat _) (VFloat _) => apply EFloat; reflexivity
         | |- deep_eq _ _ _ => constructor
         | |- Forall2 _ _ _ => constructor
         | |- _ /\ _ => split
         end.

Lemma wit_fv_deep_eq : deep_eq d_feq wit_fv wit_fv' /\ wit_fv <> wit_fv'.
Proof. split; [unfold wit_fv, wit_fv'; deq_tac | intros H; discriminate H]. Qed.

(* ============================================================================================== *)
(* D. the harness's float record with real strconv data                                           *)
(* ============================================================================================== *)

Definition fl_mk (c f g : string) (big : bool) : fl := mk_fl (bs c) (bs f) (bs g) big.

(* FormatFloat(x,'g',-1,64), FormatFloat(x,'f',-1,64), 'g' again, |x| >= 1e21 *)
Definition fl_tab64 : list fl :=
  [fl_mk "1.5" "1.5" "1.5" false;
   fl_mk "1e+21" "1000000000000000000000" "1e+21" true;
   fl_mk "-3.5e+22" "-35000000000000000000000" "-3.5e+22" true;
   fl_mk "0" "0" "0" false;
   fl_mk "-0" "-0" "-0" false;
   fl_mk "100" "100" "100" false;
   fl_mk "2.5e-07" "0.00000025" "2.5e-07" false;
   fl_mk "1.23456789e+08" "123456789" "1.23456789e+08" false;
   fl_mk "9.99999999999999e+20" "999999999999999000000" "9.99999999999999e+20" false;
   mk_fl (bs "1.7976931348623157e+308") max_float64_f (bs "1.7976931348623157e+308") true].

(* the same with bit size 32 *)
Definition fl_tab32 : list fl :=
  [fl_mk "1.5" "1.5" "1.5" false;
   fl_mk "1e+21" "1000000000000000000000" "1e+21" true;
   fl_mk "0" "0" "0" false;
   fl_mk "-0" "-0" "-0" false;
   fl_mk "100" "100" "100" false;
   fl_mk "0.1" "0.1" "0.1" false;
   fl_mk "3.4028235e+38" "340282350000000000000000000000000000000" "3.4028235e+38" true].

Definition fl_frep (k : fkind) (x : fl) : Prop :=
  In x match k with KF64 => fl_tab64 | KF32 => fl_tab32 end.
Definition fl_feq (x y : fl) : Prop := i_feqb x y = true.

(* ParseFloat of every text above, per bit size: the canonical text of the value it denotes *)
Definition fl_ptab : list (bytes * bytes) :=
  flat_map (fun x => [(ftag KF64 ++ fl_f x, fl_canon x); (ftag KF64 ++ fl_g x, fl_canon x)]) fl_tab64 ++
  flat_map (fun x => [(ftag KF32 ++ fl_f x, fl_canon x); (ftag KF32 ++ fl_g x, fl_canon x)]) fl_tab32.

Ltac fl_cases H :=
  cbn [fl_frep] in H; unfold fl_tab64, fl_tab32 in H; cbn [In] in H;
  repeat (destruct H as [H|H]; [subst|]); [..|contradiction].

Lemma fl_instance :
  (forall x, i_fzero x = true -> fl_feq x i_f0) /\
  (forall k x, fl_frep k x -> exists y, i_fparse fl_ptab k (i_ffmt k x) = Some y /\ fl_feq x y) /\
  (forall k x, fl_frep k x -> exists y, i_fparse fl_ptab k (i_gfmt k x) = Some y /\ fl_feq x y) /\
  (forall k x z, fl_frep k x -> i_fbig x = false -> parse_int (i_ffmt k x) = Some z -> int_const_ok z = true) /\
  (forall k x, fl_frep k x -> i_fbig x = true -> parse_int (i_gfmt k x) = None).
Proof.
  repeat match goal with |- _ /\ _ => split end.
  - intros x H. unfold i_fzero in H. unfold fl_feq, i_feqb. rewrite H. apply orb_true_r.
  - intros k x H. destruct k; fl_cases H; (eexists; split; [reflexivity | vm_compute; reflexivity]).
  - intros k x H. destruct k; fl_cases H; (eexists; split; [reflexivity | vm_compute; reflexivity]).
  - intros k x z H Hb Hp. destruct k; fl_cases H; vm_compute in Hb; try discriminate Hb;
      vm_compute in Hp; try discriminate Hp; injection Hp as <-; vm_compute; reflexivity.
  - intros k x H Hb. destruct k; fl_cases H; vm_compute in Hb; try discriminate Hb; vm_compute; reflexivity.
Qed.

(* every row of the 64-bit table as a slice of float64, in the domain and well typed *)
Definition fl_slice : goval fl := VSlice false (map VFloat fl_tab64).

Lemma fl_slice_typed : typed fl_frep (TSlice (TFloat KF64)) fl_slice.
Proof.
  eapply TySlice; [reflexivity | | intros H; discriminate H].
  apply Forall_forall. intros v Hin. apply in_map_iff in Hin. destruct Hin as (x & <- & Hx).
  eapply TyFloat; [reflexivity | exact Hx].
Qed.

Lemma fl_slice_roundtrip : forall local,
  exists l v', value_lit i_fzero i_ffmt i_gfmt i_fbig esc_quote local true false (TSlice (TFloat KF64)) fl_slice = Ok l /\
               denote (i_fparse fl_ptab) i_f0 (TSlice (TFloat KF64)) l = Some v' /\ deep_eq fl_feq fl_slice v'.
Proof.
  destruct fl_instance as (H1 & H2 & H3 & H4 & H5). intros local.
  exact (roundtrip_top i_fzero i_ffmt i_gfmt i_fbig (i_fparse fl_ptab) i_f0 esc_quote local fl_frep fl_feq
                       H1 H2 H3 H4 H5 esc_quote_inj (TSlice (TFloat KF64)) fl_slice
                       (DSlice _ (DFloat KF64)) fl_slice_typed).
Qed.

Lemma fl_slice_text :
  option_map (print_lit esc_quote wit_local)
    (match value_lit i_fzero i_ffmt i_gfmt i_fbig esc_quote wit_local true false (TSlice (TFloat KF64)) fl_slice with
     | Ok l => Some l | _ => None end)
  = Some (concat (map (fun s => bs s ++ [nl])
            ["[]float64{"; "1.5,"; "1e+21,"; "-3.5e+22,"; "0,"; "-0,"; "100,"; "0.00000025,"; "123456789,";
             "999999999999999000000,"; "1.7976931348623157e+308,"]%string) ++ bs "}").
Proof. vm_compute. reflexivity. Qed.

Lemma fl_facts :
  fl_frep KF64 (fl_mk "1e+21" "1000000000000000000000" "1e+21" true) /\
  fl_frep KF32 (fl_mk "3.4028235e+38" "340282350000000000000000000000000000000" "3.4028235e+38" true) /\
  parse_int (bs "1000000000000000000000") = Some (10 ^ 21)%Z /\ parse_int (bs "1e+21") = None /\
  fl_feq (fl_mk "-0" "-0" "-0" false) i_f0 /\
  i_fparse fl_ptab KF64 (bs "0.00000025") = Some (mk_fl (bs "2.5e-07") [] [] false) /\
  i_fparse fl_ptab KF32 max_float64_f = None.
Proof.
  split; [cbn; tauto|]. split; [cbn; tauto|]. vm_compute. repeat split; reflexivity.
Qed.
