(* The complete model of inflector.Pluralize / Singularize ([api_full]: irregular table, uninflected
   list and the ordered regexp suffix rules, all extracted from the source on this run): the
   theorems about the parametric model instantiated with the concrete suffix engine, and what the
   suffix engine itself does to a string. *)
Require Import Gengo.Base.Bytes Gengo.Model.Inflector Gengo.Model.InflectorRegexp Gengo.Gen.InflectorTables
  Gengo.Model.InflectorApi Gengo.Model.OnceCache
  Gengo.Proofs.Inflector Gengo.Proofs.InflectorRegexp Gengo.Proofs.OnceCache.

Lemma api_full_total : forall plural s, exists r, api_full true plural s = Ok r.
Proof. intros plural s. unfold api_full. apply api_total. Qed.

Lemma api_full_prefix_preserved :
  forall plural p w, irregular (api_table plural) w -> at_boundary p = true ->
  exists r, api_full true plural w = Ok r /\ api_full true plural (p ++ w) = Ok (p ++ r).
Proof. intros plural p w Hi Hb. unfold api_full. apply api_prefix_preserved; assumption. Qed.

Lemma api_full_irregular_alone :
  forall plural w, irregular (api_table plural) w ->
  exists c w' d repl, w = c :: w' /\ lookup (map to_lower w) (api_table plural) = Some (d :: repl)
    /\ api_full true plural w = Ok (c :: repl).
Proof.
  intros [] w Hi; unfold api_full, api; cbn [api_table] in *.
  - apply inflected_irregular_alone; [exact plural_wf|exact Hi].
  - apply inflected_irregular_alone; [exact singular_wf|exact Hi].
Qed.

Lemma concurrent_api_full : forall plural (keys : nat -> bytes) sched t v,
  phases _ _ (run bytes (res bytes) bytes_eqb (api_full true plural) keys sched (init _ _)) t = Done v ->
  exists r, v = Ok r /\ api_full true plural (keys t) = Ok r.
Proof. intros plural keys sched t v H. unfold api_full in *. eapply concurrent_api. exact H. Qed.

(* the suffix rules of this run never exhaust the fuel of the matcher or of the replace loop *)
Lemma api_rules_fuel : forall plural s, suffix_res (api_rules plural) s = Ok (suffix_fn (api_rules plural) s).
Proof. intros. apply suffix_fuel_suffices. Qed.

(* an irregular word after a boundary, or a string the uninflected expression matches, is answered
   without consulting the suffix rules: with ANY other engine in their place the result is the same *)
Lemma api_irregular_skips_suffix_rules :
  forall plural p w, irregular (api_table plural) w -> at_boundary p = true ->
  api_reaches_suffix plural (p ++ w) = false.
Proof.
  intros [] p w Hi Hb; unfold api_reaches_suffix; cbn [api_table api_unf] in *.
  - apply irregular_never_reaches_suffix; [exact plural_wf|exact Hi|exact Hb].
  - apply irregular_never_reaches_suffix; [exact singular_wf|exact Hi|exact Hb].
Qed.

Lemma api_uninflected_skips_suffix_rules :
  forall plural s, uninflected_match (api_unf plural) s = true -> api_reaches_suffix plural s = false.
Proof. intros plural s H. unfold api_reaches_suffix. apply uninflected_never_reaches_suffix. exact H. Qed.

Lemma api_not_reaching_is_independent :
  forall plural s, api_reaches_suffix plural s = false ->
  forall engine, api_full true plural s = api true plural engine s.
Proof.
  intros [] s H engine; unfold api_full, api, api_reaches_suffix in *; cbn [api_table api_unf] in H;
    apply inflected_suffix_independent; exact H.
Qed.

(* every other string is answered by the suffix rules alone; the first rule whose pattern matches
   rewrites it and keeps everything before that pattern's leftmost match; if none matches the string
   is returned as it is *)
Lemma api_full_suffix_shape :
  forall plural s, api_reaches_suffix plural s = true ->
  match first_matching (api_rules plural) s with
  | None => api_full true plural s = Ok s
  | Some (c, a0) => In c (api_rules plural) /\ a0 <= length s
                    /\ exists more, api_full true plural s = Ok (firstn a0 s ++ more)
  end.
Proof.
  intros plural s H.
  assert (E : api_full true plural s = Ok (suffix_fn (api_rules plural) s)).
  { destruct plural; unfold api_full, api, api_reaches_suffix in *; cbn [api_table api_unf] in H;
      apply inflected_reaches_suffix; exact H. }
  pose proof (suffix_fn_shape (api_rules plural) s) as S.
  destruct (first_matching (api_rules plural) s) as [[c a0]|].
  - destruct S as [S1 [S2 [more S3]]]. split; [exact S1|]. split; [exact S2|].
    exists more. rewrite E, S3. reflexivity.
  - rewrite E, S. reflexivity.
Qed.
