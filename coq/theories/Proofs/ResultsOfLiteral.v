(* Part D: for a function whose return statements list only plain expressions (literals, operators on them,
   nil / true / false), the alternatives at each position are exactly those values, in source order.
   Holds for the code before and after the repairs. *)
Require Import Gengo.Base.Bytes Gengo.Model.ResultsOf Gengo.Proofs.ResultsOf Gengo.Proofs.ResultsOfSound.
Require Import Coq.Arith.PeanoNat.

Lemma last_lhs_nomatch : forall target ls i acc,
    (forall l, In l ls -> lhs_matches target l = false) -> last_lhs target ls i acc = acc.
Proof.
  intros target. induction ls as [|l r IH]; intros i acc H; cbn; [reflexivity|].
  rewrite (H l (or_introl eq_refl)). apply IH. intros l' Hin. apply H. right. exact Hin.
Qed.

Lemma last_match_unassigned : forall o until evs acc,
    ~ In o (lhs_objs evs) -> last_match (Some o) until evs acc = acc.
Proof.
  intros o until. induction evs as [|ev r IH]; intros acc Hn; cbn; [reflexivity|].
  assert (Hr : ~ In o (lhs_objs r)).
  { intros Hin. apply Hn. unfold lhs_objs. cbn [flat_map]. apply in_or_app. right. exact Hin. }
  destruct ev as [a|endp es]; [|apply IH; exact Hr].
  rewrite IH by exact Hr.
  destruct until as [u|]; [|reflexivity]. destruct (N.ltb (as_pos a) u); [|reflexivity].
  rewrite last_lhs_nomatch; [reflexivity|].
  intros l Hl. destruct l as [[o'|]|[o'|]|]; cbn; try reflexivity.
  - destruct (N.eqb o' o) eqn:E; [|reflexivity]. apply N.eqb_eq in E. subst o'. exfalso. apply Hn.
    unfold lhs_objs. cbn [flat_map]. apply in_or_app. left. apply in_flat_map. exists (LIdent (Some o)). split; [exact Hl|left; reflexivity].
  - destruct (N.eqb o' o) eqn:E; [|reflexivity]. apply N.eqb_eq in E. subst o'. exfalso. apply Hn.
    unfold lhs_objs. cbn [flat_map]. apply in_or_app. left. apply in_flat_map. exists (LSel (Some o)). split; [exact Hl|left; reflexivity].
Qed.

Lemma opt_all_length : forall {A} (l : list (option A)) r, opt_all l = Some r -> length r = length l.
Proof.
  intros A. induction l as [|o l IH]; intros r H; cbn in H; [inversion H; reflexivity|].
  destruct o; [|discriminate]. destruct (opt_all l) eqn:E; [|discriminate]. inversion H; subst. cbn. f_equal. apply IH. reflexivity.
Qed.

Lemma existsb_false_notin : forall o l, existsb (N.eqb o) l = false -> ~ In o l.
Proof.
  intros o l H Hin. assert (existsb (N.eqb o) l = true) by (apply existsb_exists; exists o; split; [exact Hin|apply N.eqb_refl]).
  congruence.
Qed.

Lemma nth_error_Some_exists : forall {A} (l : list A) i, i < length l -> exists x, nth_error l i = Some x.
Proof.
  intros A l i H. destruct (nth_error l i) eqn:E; [eauto|]. apply nth_error_None in E. lia.
Qed.

Section Literal.
  Variable fx : fixes.
  Variable p : prog.
  Variable rec : nat -> nat -> nat -> cont -> state -> res state.
  Variable fd : fdef.
  Variable evs : list event.

  Definition row_of (ev : event) : list (option (list alt)) :=
    match ev with
    | EvReturn _ (Some es) =>
        if Nat.eqb (length es) (nres fd) then [opt_all (map (plain_expr (lhs_objs evs)) es)] else [None]
    | EvReturn _ None => [None]
    | EvAssign _ => []
    end.

  (* the consumer of resultsFromAstAt on a plain value: it is collected, nothing else happens *)
  Lemma post_plain : forall a s,
      plain_alt (lhs_objs evs) a = true ->
      post fx p rec (nres fd) (f_pkg fd) evs collect a s = Ok (mk_state (st_vs s) (a :: st_out s)).
  Proof.
    intros a s H. unfold post, plain_alt in *. destruct (a_x a) as [|resolved o|o]; [reflexivity| |discriminate].
    destruct resolved; [discriminate|]. apply negb_true_iff in H. apply existsb_false_notin in H.
    cbn [collect bind]. unfold assigned_until.
    destruct (Nat.eqb (a_pkg a) (f_pkg fd)).
    - rewrite last_match_unassigned by exact H. reflexivity.
    - rewrite last_match_until_none. reflexivity.
  Qed.

  Lemma returns_loop_plain : forall at_ evs' rows s,
      at_ < nres fd ->
      opt_all (flat_map row_of evs') = Some rows ->
      returns_loop fx p rec (nres fd) fd evs evs' at_ collect s
      = Ok (mk_state (st_vs s) (rev (column rows at_) ++ st_out s)).
  Proof.
    intros at_ evs'. induction evs' as [|ev r IH]; intros rows s Hlt H; cbn [returns_loop].
    - cbn in H. inversion H; subst. destruct s; reflexivity.
    - destruct ev as [a|endp [es|]]; cbn [flat_map row_of] in H.
      + apply IH; assumption.
      + destruct (Nat.eqb (length es) (nres fd)) eqn:El; [|cbn in H; discriminate].
        apply Nat.eqb_eq in El. cbn [app opt_all] in H.
        destruct (opt_all (map (plain_expr (lhs_objs evs)) es)) as [row|] eqn:Er; [|discriminate].
        destruct (opt_all (flat_map row_of r)) as [rows'|] eqn:Er'; [|discriminate]. inversion H; subst rows.
        assert (He : exists e, nth_error es at_ = Some e) by (apply nth_error_Some_exists; lia).
        destruct He as [e He].
        destruct (opt_all_nth _ _ at_ (plain_expr (lhs_objs evs) e) Er) as [a [Ha Hra]].
        { rewrite nth_error_map, He. reflexivity. }
        unfold raroa. replace (Nat.ltb (length es) (nres fd)) with false by (symmetry; apply Nat.ltb_ge; lia).
        cbn [andb]. rewrite He.
        destruct e as [a0|c args|f a0]; cbn in Ha; try discriminate.
        destruct (plain_alt (lhs_objs evs) a0) eqn:Ep; [|discriminate]. inversion Ha; subst a0.
        cbn [value_or_call]. rewrite post_plain by exact Ep. cbn [bind].
        rewrite (IH rows' _ Hlt eq_refl). cbn [st_vs st_out]. f_equal. f_equal.
        unfold column. cbn [flat_map]. rewrite Hra. cbn [app rev]. rewrite <- app_assoc. reflexivity.
      + cbn in H. discriminate.
  Qed.
End Literal.

Lemma set_nth_other : forall l i j, i <> j -> nth_error (set_nth l i) j = nth_error l j.
Proof.
  induction l as [|b r IH]; intros [|i] [|j] H; cbn; try reflexivity; try congruence.
  apply IH. congruence.
Qed.

Lemma nth_error_repeat_false : forall n j, j < n -> nth_error (repeat false n) j = Some false.
Proof. induction n as [|n IH]; intros [|j] H; cbn; try lia; [reflexivity|apply IH; lia]. Qed.

(* the visits seen by index at_ of the outermost loop: only smaller indices of f may be marked *)
Definition fresh_from (f n at_ : nat) (vs : visits) : Prop :=
  vs = [] \/ exists bits, vs = [(f, bits)] /\ length bits = n /\ forall j, at_ <= j -> j < n -> nth_error bits j = Some false.

Lemma visited_fresh : forall fxv f n at_ vs,
    at_ < n -> fresh_from f n at_ vs ->
    exists vs', visited fxv vs f n at_ = Ok (false, vs') /\ fresh_from f n (S at_) vs'.
Proof.
  intros fxv f n at_ vs Hlt [->|[bits [-> [Hlen Hfalse]]]]; unfold visited; cbn [vs_get].
  - replace (Nat.eqb n 0) with false by (symmetry; apply Nat.eqb_neq; lia).
    replace (Nat.ltb at_ n) with true by (symmetry; apply Nat.ltb_lt; exact Hlt).
    eexists. split; [reflexivity|]. right. cbn [vs_set]. eexists. split; [reflexivity|]. split.
    + rewrite set_nth_length, repeat_length. reflexivity.
    + intros j Hj Hjn. rewrite set_nth_other by lia. apply nth_error_repeat_false. exact Hjn.
  - rewrite Nat.eqb_refl. rewrite (Hfalse at_ (le_n _) Hlt).
    destruct fxv.
    + eexists. split; [reflexivity|]. right. cbn [vs_set]. rewrite Nat.eqb_refl. eexists. split; [reflexivity|]. split.
      * rewrite set_nth_length. exact Hlen.
      * intros j Hj Hjn. rewrite set_nth_other by lia. apply Hfalse; lia.
    + eexists. split; [reflexivity|]. right. eexists. split; [reflexivity|]. split; [exact Hlen|].
      intros j Hj Hjn. apply Hfalse; lia.
Qed.

Theorem literal_exact : forall fx p fuel f fd rows,
    nth_error p f = Some fd -> plain_returns fd = Some rows -> 0 < fuel ->
    results_of fx p fuel (EnBody f) (f_res fd)
    = Ok (map (column rows) (seq 0 (nres fd)), nres fd).
Proof.
  intros fx p fuel f fd rows Hfd Hplain Hfuel.
  destruct fuel as [|fuel]; [lia|].
  unfold plain_returns in Hplain. destruct (f_body fd) as [body|] eqn:Eb; [|discriminate].
  set (evs := flatten_all body) in *.
  assert (Hrows : opt_all (flat_map (row_of fd evs) evs) = Some rows /\ exists r0 rs, rows = r0 :: rs).
  { unfold row_of. destruct (opt_all (flat_map _ evs)) as [[|r0 rs]|] eqn:E; try discriminate.
    inversion Hplain; subst. split; [reflexivity|eauto]. }
  destruct Hrows as [Hrows [r0 [rs Hr0]]].
  (* every column below nres is non-empty *)
  assert (Hcol : forall at_, at_ < nres fd -> column rows at_ <> []).
  { intros at_ Hlt. subst rows. unfold column. cbn [flat_map].
    assert (Hlen : length r0 = nres fd).
    { clear -Hrows. revert Hrows. generalize evs at 2. intros l.
      induction l as [|ev r IH]; intros Hrows; cbn [flat_map] in Hrows; [discriminate|].
      destruct ev as [a|endp [es|]]; cbn [row_of app] in Hrows.
      - apply IH. exact Hrows.
      - destruct (Nat.eqb (length es) (nres fd)) eqn:El; cbn [app opt_all] in Hrows; [|discriminate].
        destruct (opt_all (map (plain_expr (lhs_objs evs)) es)) as [row|] eqn:Er; [|discriminate].
        destruct (opt_all (flat_map (row_of fd evs) r)); [|discriminate].
        inversion Hrows; subst. apply opt_all_length in Er. rewrite map_length in Er. apply Nat.eqb_eq in El. lia.
      - cbn in Hrows. discriminate. }
    destruct (nth_error r0 at_) eqn:En; [discriminate|]. apply nth_error_None in En. lia. }
  (* the outermost loop *)
  assert (Hloop : forall sigres at_ vs,
             at_ + length sigres = nres fd -> fresh_from f (nres fd) at_ vs ->
             exists vs', results_from_ast_loop fx p (S fuel) f sigres (nres fd) at_ vs
                         = Ok (map (column rows) (seq at_ (length sigres)), vs')).
  { induction sigres as [|r rest IH]; intros at_ vs Hlen Hfresh; cbn [results_from_ast_loop length seq map].
    - eexists. reflexivity.
    - cbn [length] in Hlen. assert (Hlt : at_ < nres fd) by lia.
      destruct (visited_fresh (fx_visits fx) f (nres fd) at_ vs Hlt Hfresh) as [vs1 [Hv Hfresh1]].
      cbn [scan]. unfold scan_body. rewrite Hfd, Eb. cbn [st_vs]. rewrite Hv. cbn [bind].
      fold evs. rewrite (returns_loop_plain fx p (scan fx p fuel) fd evs at_ evs rows _ Hlt Hrows).
      cbn [bind st_out st_vs]. rewrite app_nil_r, rev_involutive.
      destruct (column rows at_) eqn:Ec; [exfalso; apply (Hcol at_ Hlt); exact Ec|]. cbn [is_nil].
      destruct (IH (S at_) vs1 ltac:(lia) Hfresh1) as [vs' E]. rewrite E. cbn [bind].
      eexists. reflexivity. }
  unfold results_of. destruct (Nat.eqb (length (f_res fd)) 0) eqn:E0.
  - apply Nat.eqb_eq in E0. unfold nres. rewrite E0. reflexivity.
  - unfold results_from_ast. rewrite Hfd.
    destruct (Hloop (f_res fd) 0 [] eq_refl (or_introl eq_refl)) as [vs' E].
    fold (nres fd). rewrite E. reflexivity.
Qed.
