(* Lemmas for C12: the tag-extraction loop against its declarative specification, and the
   two comment indexes ("first writer wins") against the line-based attribution spec. *)
Require Import Gengo.Base.Bytes.
From Coq Require Import ZArith Permutation.
Require Import Gengo.Model.Comments Gengo.Spec.Comments.

(* ------------------------------------------------------------------ *)
(* byte-string equality helpers                                        *)
(* ------------------------------------------------------------------ *)

Lemma bytes_eqb_sym a c : bytes_eqb a c = bytes_eqb c a.
Proof.
  destruct (bytes_eqb a c) eqn:E1, (bytes_eqb c a) eqn:E2; try reflexivity.
  - apply bytes_eqb_spec in E1. subst. rewrite bytes_eqb_refl in E2. discriminate.
  - apply bytes_eqb_spec in E2. subst. rewrite bytes_eqb_refl in E1. discriminate.
Qed.

(* ------------------------------------------------------------------ *)
(* model helpers = spec helpers                                        *)
(* ------------------------------------------------------------------ *)

Lemma trim_left_sp_eq s : trim_left_sp s = drop_spaces s.
Proof. induction s as [|c r IH]; cbn; [reflexivity|]. unfold is_sp, c_sp, space. rewrite IH. reflexivity. Qed.

Lemma trim_sp_strip s : trim_sp s = strip s.
Proof. unfold trim_sp, trim_right_sp, strip. rewrite !trim_left_sp_eq. reflexivity. Qed.

Lemma one_of_existsb ms c : one_of ms c = existsb (Ascii.eqb c) ms.
Proof. induction ms as [|m r IH]; cbn; [reflexivity|]. destruct (Ascii.eqb c m); cbn; auto. Qed.

Lemma is_sep_sep c : is_sep c = sep c.
Proof. reflexivity. Qed.

Lemma markers_default ms : (if is_nil ms then default_markers else ms) = markers_or_default ms.
Proof. destruct ms; reflexivity. Qed.

(* ------------------------------------------------------------------ *)
(* splitKV                                                             *)
(* ------------------------------------------------------------------ *)

Lemma split_kv_cut_spec s : split_kv_cut s = (upto_sep s, after_sep s).
Proof.
  unfold split_kv_cut. induction s as [|c r IH]; cbn; [reflexivity|].
  rewrite is_sep_sep. destruct (sep c); cbn; [reflexivity|].
  destruct (index_sep r) as [i|]; cbn in *.
  - injection IH as H1 H2. rewrite H1, H2. reflexivity.
  - injection IH as H1 H2. rewrite <- H1 at 1. rewrite <- H2. reflexivity.
Qed.

Lemma split_kv_spec s : split_kv true s = (upto_sep s, after_sep s).
Proof. exact (split_kv_cut_spec s). Qed.

(* the cut position is inside the line: line[:i] and line[i+1:] cannot fail *)
Lemma index_sep_lt s i : index_sep s = Some i -> i < length s.
Proof.
  revert i. induction s as [|c r IH]; cbn; intros i H; [discriminate|].
  destruct (is_sep c); [injection H as <-; lia|].
  destruct (index_sep r) as [j|]; cbn in H; [|discriminate].
  injection H as <-. specialize (IH j eq_refl). lia.
Qed.

(* the key contains no separator, and key ++ separator ++ value is the payload *)
Lemma upto_sep_no_sep s : forallb (fun c => negb (sep c)) (upto_sep s) = true.
Proof. induction s as [|c r IH]; cbn; [reflexivity|]. destruct (sep c) eqn:E; cbn; [reflexivity|]. rewrite E. exact IH. Qed.

Lemma upto_after_sep s :
  (forallb (fun c => negb (sep c)) s = true /\ upto_sep s = s /\ after_sep s = []) \/
  (exists c, sep c = true /\ s = upto_sep s ++ c :: after_sep s).
Proof.
  induction s as [|c r IH]; cbn.
  - left. auto.
  - destruct (sep c) eqn:E; cbn.
    + right. exists c. auto.
    + destruct IH as [[H1 [H2 H3]]|[c' [H1 H2]]].
      * left. rewrite H1, H2, H3. auto.
      * right. exists c'. split; [exact H1|]. rewrite <- H2. reflexivity.
Qed.

(* ------------------------------------------------------------------ *)
(* the tag map                                                         *)
(* ------------------------------------------------------------------ *)

Definition tag_values (k : bytes) (m : tagmap) : list bytes :=
  match tag_lookup k m with Some vs => vs | None => [] end.
Definition total (m : tagmap) : nat := length (concat (map snd m)).

Lemma tag_lookup_append k k' v m :
  tag_lookup k (tag_append k' v m) =
    if bytes_eqb k k' then Some (tag_values k m ++ [v]) else tag_lookup k m.
Proof.
  unfold tag_values. induction m as [|[k2 vs] r IH]; cbn.
  - destruct (bytes_eqb k k'); reflexivity.
  - destruct (bytes_eqb k' k2) eqn:E2; cbn.
    + apply bytes_eqb_spec in E2. subst k2.
      destruct (bytes_eqb k k'); reflexivity.
    + destruct (bytes_eqb k k2) eqn:E3.
      * apply bytes_eqb_spec in E3. subst k2. rewrite bytes_eqb_sym, E2. reflexivity.
      * exact IH.
Qed.

Lemma tag_values_append k k' v m :
  tag_values k (tag_append k' v m) = if bytes_eqb k k' then tag_values k m ++ [v] else tag_values k m.
Proof.
  unfold tag_values at 1. rewrite tag_lookup_append. destruct (bytes_eqb k k'); reflexivity.
Qed.

Lemma tag_append_keys k v m :
  (In k (map fst m) -> map fst (tag_append k v m) = map fst m) /\
  (~ In k (map fst m) -> map fst (tag_append k v m) = map fst m ++ [k]).
Proof.
  induction m as [|[k2 vs] r [IH1 IH2]]; cbn.
  - split; [intros []|reflexivity].
  - destruct (bytes_eqb k k2) eqn:E; cbn.
    + apply bytes_eqb_spec in E. subst k2. split; [reflexivity|]. intros H. exfalso. apply H. left. reflexivity.
    + split.
      * intros [H|H]; [subst k2; rewrite bytes_eqb_refl in E; discriminate|]. rewrite IH1; auto.
      * intros H. rewrite IH2; auto.
Qed.

Lemma tag_append_nodup k v m : NoDup (map fst m) -> NoDup (map fst (tag_append k v m)).
Proof.
  intros H. destruct (tag_append_keys k v m) as [H1 H2].
  destruct (in_dec (list_eq_dec ascii_dec) k (map fst m)) as [Hin|Hnin].
  - rewrite H1; assumption.
  - rewrite H2 by assumption.
    apply (Permutation_NoDup (l := k :: map fst m)).
    + apply Permutation_cons_append.
    + constructor; assumption.
Qed.

Lemma total_append k v m : total (tag_append k v m) = S (total m).
Proof.
  unfold total. induction m as [|[k2 vs] r IH]; cbn; [reflexivity|].
  destruct (bytes_eqb k k2); cbn.
  - rewrite ?app_length. cbn. rewrite ?app_length. cbn. lia.
  - rewrite ?app_length. rewrite IH. lia.
Qed.

(* ------------------------------------------------------------------ *)
(* ExtractCommentTags                                                  *)
(* ------------------------------------------------------------------ *)

Lemma extract_loop_cons ms line0 ls tags others :
  extract_loop true ms (line0 :: ls) tags others =
    if is_tag ms (strip line0)
    then extract_loop true ms ls (tag_append (tag_key (strip line0)) (tag_value (strip line0)) tags) others
    else extract_loop true ms ls tags (others ++ [strip line0]).
Proof.
  cbn [extract_loop]. rewrite trim_sp_strip. destruct (strip line0) as [|c payload]; cbn [is_tag].
  - reflexivity.
  - rewrite one_of_existsb. destruct (existsb (Ascii.eqb c) ms); [|reflexivity].
    rewrite split_kv_spec. reflexivity.
Qed.

Lemma spec_others_cons ms line0 ls :
  spec_others ms (line0 :: ls) =
    if is_tag ms (strip line0) then spec_others ms ls else strip line0 :: spec_others ms ls.
Proof. unfold spec_others. cbn. destruct (is_tag ms (strip line0)); reflexivity. Qed.

Lemma spec_values_cons ms line0 ls k :
  spec_values ms (line0 :: ls) k =
    if is_tag ms (strip line0) && bytes_eqb (tag_key (strip line0)) k
    then tag_value (strip line0) :: spec_values ms ls k else spec_values ms ls k.
Proof.
  unfold spec_values. cbn.
  destruct (is_tag ms (strip line0) && bytes_eqb (tag_key (strip line0)) k); reflexivity.
Qed.

Lemma extract_loop_others ms ls : forall tags others,
  snd (extract_loop true ms ls tags others) = others ++ spec_others ms ls.
Proof.
  induction ls as [|line0 ls IH]; intros tags others.
  - cbn. rewrite app_nil_r. reflexivity.
  - rewrite extract_loop_cons, spec_others_cons. destruct (is_tag ms (strip line0)).
    + apply IH.
    + rewrite IH, <- app_assoc. reflexivity.
Qed.

Lemma extract_loop_values ms ls : forall tags others k,
  tag_values k (fst (extract_loop true ms ls tags others)) = tag_values k tags ++ spec_values ms ls k.
Proof.
  induction ls as [|line0 ls IH]; intros tags others k.
  - cbn. rewrite app_nil_r. reflexivity.
  - rewrite extract_loop_cons, spec_values_cons. destruct (is_tag ms (strip line0)); cbn [andb].
    + rewrite IH, tag_values_append, (bytes_eqb_sym k).
      destruct (bytes_eqb (tag_key (strip line0)) k); [rewrite <- app_assoc|]; reflexivity.
    + apply IH.
Qed.

Lemma extract_loop_nodup ms ls : forall tags others,
  NoDup (map fst tags) -> NoDup (map fst (fst (extract_loop true ms ls tags others))).
Proof.
  induction ls as [|line0 ls IH]; intros tags others H; [exact H|].
  rewrite extract_loop_cons. destruct (is_tag ms (strip line0)); apply IH; [apply tag_append_nodup|]; exact H.
Qed.

Definition nonempty_entries (m : tagmap) : Prop := forall k vs, tag_lookup k m = Some vs -> vs <> [].

Lemma extract_loop_nonempty ms ls : forall tags others,
  nonempty_entries tags -> nonempty_entries (fst (extract_loop true ms ls tags others)).
Proof.
  induction ls as [|line0 ls IH]; intros tags others H; [exact H|].
  rewrite extract_loop_cons. destruct (is_tag ms (strip line0)); apply IH; [|exact H].
  intros k vs. rewrite tag_lookup_append. destruct (bytes_eqb k _).
  - intros E. injection E as <-. destruct (tag_values k tags); discriminate.
  - apply H.
Qed.

Lemma extract_loop_count ms ls : forall tags others,
  length (snd (extract_loop true ms ls tags others)) + total (fst (extract_loop true ms ls tags others))
  = length others + total tags + length ls.
Proof.
  induction ls as [|line0 ls IH]; intros tags others; [cbn [extract_loop fst snd length]; lia|].
  rewrite extract_loop_cons. destruct (is_tag ms (strip line0)); rewrite IH.
  - rewrite total_append. cbn [length]. lia.
  - rewrite app_length. cbn [length]. lia.
Qed.

(* the statement of C12's last sentence, for every marker set and every list of lines *)
Lemma extract_tags_spec markers lines :
  let ms := markers_or_default markers in
  let tags := fst (extract_tags true markers lines) in
  let others := snd (extract_tags true markers lines) in
  others = spec_others ms lines
  /\ (forall k, tag_values k tags = spec_values ms lines k)
  /\ (forall k, tag_lookup k tags = None <-> spec_values ms lines k = [])
  /\ NoDup (map fst tags)
  /\ length others + total tags = length lines.
Proof.
  unfold extract_tags. rewrite markers_default. cbn zeta.
  set (ms := markers_or_default markers).
  assert (Hv : forall k, tag_values k (fst (extract_loop true ms lines [] [])) = spec_values ms lines k).
  { intros k. rewrite extract_loop_values. reflexivity. }
  assert (Hne : nonempty_entries (fst (extract_loop true ms lines [] []))).
  { apply extract_loop_nonempty. intros k vs. cbn. discriminate. }
  repeat split.
  - rewrite extract_loop_others. reflexivity.
  - exact Hv.
  - intros H. rewrite <- Hv. unfold tag_values. rewrite H. reflexivity.
  - intros H. rewrite <- Hv in H. unfold tag_values in H.
    destruct (tag_lookup k _) as [vs|] eqn:E; [|reflexivity]. subst vs. exfalso. exact (Hne k [] E eq_refl).
  - apply extract_loop_nodup. constructor.
  - rewrite extract_loop_count. cbn [length]. unfold total. cbn. lia.
Qed.

(* ------------------------------------------------------------------ *)
(* commentLinesFrom = the lines of a group                             *)
(* ------------------------------------------------------------------ *)

Lemma split_nl_acc_cut s : forall cur, split_nl_acc s cur = cut_lines s cur.
Proof. induction s as [|c r IH]; intros cur; cbn; [reflexivity|]. rewrite !IH. reflexivity. Qed.

Lemma has_prefix_go l : has_prefix go_colon l = starts_with_go l.
Proof.
  destruct l as [|a [|c [|d r]]]; unfold go_colon, b; cbn [has_prefix starts_with_go];
    rewrite ?andb_false_r; try reflexivity.
  rewrite (Ascii.eqb_sym (ascii_of_N 103) a), (Ascii.eqb_sym (ascii_of_N 111) c),
    (Ascii.eqb_sym (ascii_of_N 58) d), andb_true_r, andb_assoc. reflexivity.
Qed.

Lemma group_lines_spec text : group_lines true text = spec_lines text.
Proof.
  unfold group_lines, spec_lines, split_nl. cbn [andb]. destruct (trim_space text) as [|c r] eqn:E; cbn [is_nil].
  - reflexivity.
  - rewrite split_nl_acc_cut. apply filter_ext. intros l. rewrite has_prefix_go. reflexivity.
Qed.

(* ------------------------------------------------------------------ *)
(* equality tests                                                      *)
(* ------------------------------------------------------------------ *)

Lemma key_eqb_spec (a c : key) : key_eqb a c = true <-> a = c.
Proof.
  destruct a as [f1 l1], c as [f2 l2]. unfold key_eqb. cbn.
  rewrite andb_true_iff, N.eqb_eq, Z.eqb_eq. split.
  - intros [-> ->]. reflexivity.
  - intros H. injection H. auto.
Qed.
Lemma key_eqb_refl a : key_eqb a a = true.
Proof. apply key_eqb_spec. reflexivity. Qed.

Lemma pos_eqb_spec a c : pos_eqb a c = true <-> a = c.
Proof.
  destruct a as [f1 l1 c1], c as [f2 l2 c2]. unfold pos_eqb. cbn.
  rewrite !andb_true_iff, !N.eqb_eq, Z.eqb_eq. split.
  - intros [[-> ->] ->]. reflexivity.
  - intros H. injection H. auto.
Qed.
Lemma pos_eqb_refl a : pos_eqb a a = true.
Proof. apply pos_eqb_spec. reflexivity. Qed.

Lemma group_eqb_spec a c : group_eqb a c = true <-> a = c.
Proof.
  destruct a as [p1 e1 t1], c as [p2 e2 t2]. unfold group_eqb. cbn.
  rewrite !andb_true_iff, pos_eqb_spec, Z.eqb_eq, bytes_eqb_spec. split.
  - intros [[-> ->] ->]. reflexivity.
  - intros H. injection H. auto.
Qed.

Lemma gmem_spec g l : gmem g l = true <-> In g l.
Proof.
  induction l as [|x r IH]; cbn.
  - split; [discriminate|intros []].
  - rewrite orb_true_iff, group_eqb_spec, IH. split; intros [H|H]; auto.
Qed.

(* ------------------------------------------------------------------ *)
(* the map: first writer wins                                          *)
(* ------------------------------------------------------------------ *)

Lemma glookup_gset k k' v m :
  glookup k (gset k' v m) = if key_eqb k k' then Some v else glookup k m.
Proof.
  induction m as [|[k2 v2] r IH]; cbn.
  - reflexivity.
  - destruct (key_eqb k' k2) eqn:E2; cbn.
    + apply key_eqb_spec in E2. subst k2. destruct (key_eqb k k'); reflexivity.
    + destruct (key_eqb k k2) eqn:E3.
      * apply key_eqb_spec in E3. subst k2.
        destruct (key_eqb k k') eqn:E4; [|reflexivity].
        apply key_eqb_spec in E4. subst k'. rewrite key_eqb_refl in E2. discriminate.
      * exact IH.
Qed.

Lemma gget_gset k k' v m : gget k (gset k' v m) = if key_eqb k k' then v else gget k m.
Proof. unfold gget. rewrite glookup_gset. destruct (key_eqb k k'); reflexivity. Qed.

Lemma gget_some_lookup k m g : gget k m = Some g -> glookup k m = Some (Some g).
Proof. unfold gget. destruct (glookup k m) as [[x|]|]; intros H; try discriminate. congruence. Qed.

(* if cc := m[fl]; cc == nil { m[fl] = c } *)
Definition put (m : gmap) (w : key * option group) : gmap :=
  match gget (fst w) m with
  | None => gset (fst w) (snd w) m
  | Some _ => m
  end.

Fixpoint first_some (k : key) (ws : list (key * option group)) : option group :=
  match ws with
  | [] => None
  | (k', v) :: r =>
      if key_eqb k k' then match v with Some g => Some g | None => first_some k r end
      else first_some k r
  end.

Lemma fold_put_gget ws : forall m k,
  gget k (fold_left put ws m) = match gget k m with Some g => Some g | None => first_some k ws end.
Proof.
  induction ws as [|[k' v] ws IH]; intros m k; cbn [fold_left first_some].
  - destruct (gget k m); reflexivity.
  - rewrite IH. unfold put. cbn [fst snd].
    destruct (gget k' m) as [g0|] eqn:E0.
    + destruct (gget k m) as [g1|] eqn:E1; [reflexivity|].
      destruct (key_eqb k k') eqn:E; [|reflexivity].
      apply key_eqb_spec in E. subst k'. congruence.
    + rewrite gget_gset. destruct (key_eqb k k') eqn:E.
      * apply key_eqb_spec in E. subst k'. rewrite E0. destruct v; reflexivity.
      * destruct (gget k m); reflexivity.
Qed.

Lemma put_present k m w : glookup k m <> None -> glookup k (put m w) <> None.
Proof.
  intros H. unfold put. destruct (gget (fst w) m); [exact H|].
  rewrite glookup_gset. destruct (key_eqb k (fst w)); [discriminate|exact H].
Qed.

Lemma put_present_self m w : glookup (fst w) (put m w) <> None.
Proof.
  unfold put. destruct (gget (fst w) m) as [g|] eqn:E.
  - apply gget_some_lookup in E. rewrite E. discriminate.
  - rewrite glookup_gset, key_eqb_refl. discriminate.
Qed.

Lemma fold_put_present ws : forall m k,
  (glookup k m <> None \/ exists v, In (k, v) ws) -> glookup k (fold_left put ws m) <> None.
Proof.
  induction ws as [|w ws IH]; intros m k H; cbn [fold_left].
  - destruct H as [H|[v []]]. exact H.
  - apply IH. destruct H as [H|[v [H|H]]].
    + left. apply put_present. exact H.
    + left. subst w. apply (put_present_self m (k, v)).
    + right. exists v. exact H.
Qed.

Lemma first_some_in k ws g : first_some k ws = Some g -> In (k, Some g) ws.
Proof.
  induction ws as [|[k' v] r IH]; cbn; [discriminate|].
  destruct (key_eqb k k') eqn:E.
  - apply key_eqb_spec in E. subst k'. destruct v as [g'|].
    + intros H. injection H as ->. left. reflexivity.
    + intros H. right. auto.
  - intros H. right. auto.
Qed.

Lemma first_some_exists k ws g : In (k, Some g) ws -> first_some k ws <> None.
Proof.
  induction ws as [|[k' v] r IH]; cbn; [intros []|].
  intros [H|H].
  - injection H as -> ->. rewrite key_eqb_refl. discriminate.
  - destruct (key_eqb k k'); [destruct v; [discriminate|]|]; auto.
Qed.

(* ------------------------------------------------------------------ *)
(* the walk as two lists of writes                                     *)
(* ------------------------------------------------------------------ *)

Fixpoint lead_writes (fx : bool) (seen : list group) (evs : list event) : list (key * option group) :=
  match evs with
  | [] => []
  | EGroup g :: r =>
      if fx && gmem g seen then lead_writes fx seen r
      else (key_for (Some g) false (g_pos g), Some g) :: lead_writes fx seen r
  | EDecl d :: r =>
      (key_for (d_doc d) false (d_pos d), d_doc d) ::
      lead_writes fx (match d_cmt d with Some c => if fx then c :: seen else seen | None => seen end) r
  end.

Fixpoint trail_writes (evs : list event) : list (key * option group) :=
  match evs with
  | [] => []
  | EGroup _ :: r => trail_writes r
  | EDecl d :: r => (key_for (d_cmt d) true (d_pos d), d_cmt d) :: trail_writes r
  end.

Lemma collect_lead fx ix c stmt :
  ix_lead (collect fx ix c false stmt) = put (ix_lead ix) (key_for c false stmt, c)
  /\ ix_trail (collect fx ix c false stmt) = ix_trail ix
  /\ ix_seen (collect fx ix c false stmt) = ix_seen ix.
Proof.
  unfold collect, put. cbn [fst snd]. rewrite andb_false_r.
  destruct (gget (key_for c false stmt) (ix_lead ix)); cbn; destruct c; auto.
Qed.

Lemma collect_trail fx ix c stmt :
  ix_lead (collect fx ix c true stmt) = ix_lead ix
  /\ ix_trail (collect fx ix c true stmt) = put (ix_trail ix) (key_for c true stmt, c)
  /\ ix_seen (collect fx ix c true stmt) =
       match c with Some g => if fx then g :: ix_seen ix else ix_seen ix | None => ix_seen ix end.
Proof.
  unfold collect, put. cbn [fst snd]. rewrite andb_true_r.
  destruct (gget (key_for c true stmt) (ix_trail ix)); cbn; destruct c; auto.
Qed.

Lemma build_from fx evs : forall ix,
  ix_lead (fold_left (step fx) evs ix) = fold_left put (lead_writes fx (ix_seen ix) evs) (ix_lead ix)
  /\ ix_trail (fold_left (step fx) evs ix) = fold_left put (trail_writes evs) (ix_trail ix).
Proof.
  induction evs as [|e evs IH]; intros ix; cbn [fold_left lead_writes trail_writes].
  - auto.
  - destruct e as [g|d]; cbn [step].
    + destruct (fx && gmem g (ix_seen ix)); [apply IH|].
      destruct (collect_lead fx ix (Some g) (g_pos g)) as [H1 [H2 H3]].
      destruct (IH (collect fx ix (Some g) false (g_pos g))) as [I1 I2].
      rewrite I1, I2, H1, H2, H3. auto.
    + set (ix1 := collect fx ix (d_doc d) false (d_pos d)).
      destruct (collect_lead fx ix (d_doc d) (d_pos d)) as [H1 [H2 H3]]. fold ix1 in H1, H2, H3.
      destruct (collect_trail fx ix1 (d_cmt d) (d_pos d)) as [T1 [T2 T3]].
      destruct (IH (collect fx ix1 (d_cmt d) true (d_pos d))) as [I1 I2].
      rewrite I1, I2, T1, T2, T3, H1, H2, H3. auto.
Qed.

Lemma build_lead fx evs k :
  gget k (ix_lead (build fx evs)) = first_some k (lead_writes fx [] evs).
Proof. unfold build. destruct (build_from fx evs empty_index) as [H _]. rewrite H, fold_put_gget. reflexivity. Qed.

Lemma build_trail fx evs k :
  gget k (ix_trail (build fx evs)) = first_some k (trail_writes evs).
Proof. unfold build. destruct (build_from fx evs empty_index) as [_ H]. rewrite H, fold_put_gget. reflexivity. Qed.

Lemma build_trail_present fx evs k v :
  In (k, v) (trail_writes evs) -> glookup k (ix_trail (build fx evs)) <> None.
Proof.
  intros H. unfold build. destruct (build_from fx evs empty_index) as [_ H2]. rewrite H2.
  apply fold_put_present. right. exists v. exact H.
Qed.

(* ------------------------------------------------------------------ *)
(* attribution over well-formed layouts                                *)
(* ------------------------------------------------------------------ *)

Lemma decls_of_app a c : decls_of (a ++ c) = decls_of a ++ decls_of c.
Proof. unfold decls_of. apply flat_map_app. Qed.

Lemma in_decls_of d evs : In d (decls_of evs) <-> In (EDecl d) evs.
Proof.
  unfold decls_of. rewrite in_flat_map. split.
  - intros [[g|d'] [H1 H2]]; cbn in H2; [destruct H2|]. destruct H2 as [<-|[]]. exact H1.
  - intros H. exists (EDecl d). split; [exact H|left; reflexivity].
Qed.

Lemma key_for_group g : key_for (Some g) false (g_pos g) = (p_file (g_pos g), g_end g).
Proof. unfold key_for. rewrite pos_eqb_refl. reflexivity. Qed.

Lemma trail_writes_in evs k v : In (k, v) (trail_writes evs) ->
  exists d, In d (decls_of evs) /\ k = key_for (d_cmt d) true (d_pos d) /\ v = d_cmt d.
Proof.
  unfold decls_of. induction evs as [|e r IH]; cbn; [intros []|].
  destruct e as [g|d]; cbn.
  - intros H. destruct (IH H) as [d [H1 H2]]. exists d. auto.
  - intros [H|H].
    + injection H as <- <-. exists d. auto.
    + destruct (IH H) as [d' [H1 H2]]. exists d'. auto.
Qed.

Lemma trail_writes_decl evs d : In d (decls_of evs) ->
  In (key_for (d_cmt d) true (d_pos d), d_cmt d) (trail_writes evs).
Proof.
  rewrite in_decls_of. induction evs as [|e r IH]; cbn; [intros []|].
  destruct e as [g|d0]; cbn; intros [H|H]; try discriminate; auto.
  injection H as ->. left. reflexivity.
Qed.

Section Layout.
  Variable evs : list event.
  Variable leads : list group.
  Hypothesis WF : wf evs leads.

  Lemma key_for_doc d g : In d (decls_of evs) -> d_doc d = Some g ->
    key_for (Some g) false (d_pos d) = (p_file (g_pos g), g_end g) /\ In g leads.
  Proof.
    intros Hd Hg. destruct (wf_doc _ _ WF d g Hd Hg) as [H1 [H2 [H3 H4]]].
    unfold key_for. rewrite H4. cbn. rewrite H2, H3. auto.
  Qed.

  Lemma key_for_cmt d : In d (decls_of evs) ->
    key_for (d_cmt d) true (d_pos d) = (p_file (d_pos d), p_line (d_pos d)).
  Proof.
    intros Hd. unfold key_for. destruct (d_cmt d) as [c|] eqn:E; [|reflexivity].
    destruct (wf_cmt _ _ WF d c Hd E) as [_ H]. rewrite H. reflexivity.
  Qed.

  (* every non-nil write to the leading index is a stand-alone group under its own end line *)
  Lemma lead_writes_sound_gen : forall post pre seen,
    evs = pre ++ post ->
    (forall d c, In d (decls_of pre) -> d_cmt d = Some c -> In c seen) ->
    forall k g, In (k, Some g) (lead_writes true seen post) ->
      In g leads /\ k = (p_file (g_pos g), g_end g).
  Proof.
    induction post as [|e post IH]; intros pre seen Hev Hseen k g Hin; cbn [lead_writes] in Hin.
    - destruct Hin.
    - assert (Hev' : evs = (pre ++ [e]) ++ post) by (rewrite <- app_assoc; exact Hev).
      destruct e as [g0|d].
      + cbn [andb] in Hin. destruct (gmem g0 seen) eqn:Em.
        * apply (IH (pre ++ [EGroup g0]) seen Hev'); [|exact Hin].
          intros d c Hd. rewrite decls_of_app in Hd. cbn in Hd. rewrite app_nil_r in Hd. apply Hseen. exact Hd.
        * destruct Hin as [Hin|Hin].
          -- injection Hin as Hk Hg. subst g0.
             destruct (wf_group _ _ WF pre g post Hev) as [Hl|[d [Hd Hc]]].
             ++ split; [exact Hl|]. rewrite <- Hk. apply key_for_group.
             ++ exfalso. apply (Hseen d g Hd) in Hc. apply gmem_spec in Hc. congruence.
          -- apply (IH (pre ++ [EGroup g0]) seen Hev'); [|exact Hin].
             intros d c Hd. rewrite decls_of_app in Hd. cbn in Hd. rewrite app_nil_r in Hd. apply Hseen. exact Hd.
      + assert (Hd : In d (decls_of evs)).
        { rewrite Hev, decls_of_app. apply in_or_app. right. left. reflexivity. }
        destruct Hin as [Hin|Hin].
        * injection Hin as Hk Hg. destruct (key_for_doc d g Hd Hg) as [H1 H2].
          split; [exact H2|]. rewrite <- Hk, Hg. exact H1.
        * refine (IH (pre ++ [EDecl d]) _ Hev' _ k g Hin).
          intros d' c Hd'. rewrite decls_of_app in Hd'. cbn in Hd'. apply in_app_or in Hd'.
          destruct Hd' as [Hd'|[<-|[]]]; intros Hc.
          -- specialize (Hseen d' c Hd' Hc). destruct (d_cmt d); [right|]; exact Hseen.
          -- rewrite Hc. left. reflexivity.
  Qed.

  Lemma lead_writes_sound k g : In (k, Some g) (lead_writes true [] evs) ->
    In g leads /\ k = (p_file (g_pos g), g_end g).
  Proof. apply (lead_writes_sound_gen evs [] []); [reflexivity|]. intros d c []. Qed.

  (* a stand-alone group reached by the walk is written (it is never mistaken for a trailing one) *)
  Lemma lead_writes_group_gen g : In g leads -> forall post seen,
    (forall c, In c seen -> ~ In c leads) ->
    (forall d c, In d (decls_of post) -> d_cmt d = Some c -> ~ In c leads) ->
    In (EGroup g) post ->
    In ((p_file (g_pos g), g_end g), Some g) (lead_writes true seen post).
  Proof.
    intros Hg. induction post as [|e post IH]; intros seen Hseen Hpost Hin; [destruct Hin|].
    cbn [lead_writes]. destruct e as [g0|d].
    - cbn [andb]. assert (Hpost' : forall d c, In d (decls_of post) -> d_cmt d = Some c -> ~ In c leads).
      { intros d c Hd. apply Hpost. exact Hd. }
      destruct Hin as [Hin|Hin].
      + injection Hin as ->. destruct (gmem g seen) eqn:Em.
        * apply gmem_spec in Em. exfalso. exact (Hseen g Em Hg).
        * left. rewrite key_for_group. reflexivity.
      + destruct (gmem g0 seen); [|right]; apply IH; assumption.
    - destruct Hin as [Hin|Hin]; [discriminate|]. right. apply IH; [| |exact Hin].
      + intros c Hc. destruct (d_cmt d) as [c0|] eqn:E; [|apply Hseen; exact Hc].
        destruct Hc as [<-|Hc]; [|apply Hseen; exact Hc].
        apply (Hpost d c0); [left; reflexivity|exact E].
      + intros d' c Hd'. apply Hpost. right. exact Hd'.
  Qed.

  Lemma lead_writes_group g : In g leads -> In (EGroup g) evs ->
    In ((p_file (g_pos g), g_end g), Some g) (lead_writes true [] evs).
  Proof.
    intros Hg Hin. apply lead_writes_group_gen; [exact Hg|intros c []| |exact Hin].
    intros d c Hd Hc. exact (proj1 (wf_cmt _ _ WF d c Hd Hc)).
  Qed.

  Lemma lead_writes_doc_gen d g : d_doc d = Some g -> forall post seen, In (EDecl d) post ->
    In (key_for (Some g) false (d_pos d), Some g) (lead_writes true seen post).
  Proof.
    intros Hg. induction post as [|e post IH]; intros seen Hin; [destruct Hin|].
    cbn [lead_writes]. destruct e as [g0|d0].
    - destruct Hin as [Hin|Hin]; [discriminate|]. destruct (true && gmem g0 seen); [|right]; apply IH; exact Hin.
    - destruct Hin as [Hin|Hin].
      + injection Hin as ->. left. rewrite Hg. reflexivity.
      + right. apply IH. exact Hin.
  Qed.

  (* the group Doc reads, at any position: always a stand-alone group that ends on the line above *)
  Lemma doc_group_sound f l g :
    prior (build true evs) f l (-1) = Some g ->
    In g leads /\ p_file (g_pos g) = f /\ g_end g = (l - 1)%Z.
  Proof.
    unfold prior. cbn [Z.eqb]. rewrite build_lead. intros H.
    apply first_some_in, lead_writes_sound in H. destruct H as [H1 H2].
    injection H2 as H2 H3. split; [exact H1|]. split; [auto|]. lia.
  Qed.

  (* ... hence never the trailing comment of any declaration *)
  Lemma doc_group_no_steal f l g :
    prior (build true evs) f l (-1) = Some g ->
    forall d, In d (decls_of evs) -> d_cmt d <> Some g.
  Proof.
    intros H d Hd Hc. apply doc_group_sound in H. destruct H as [H _].
    exact (proj1 (wf_cmt _ _ WF d g Hd Hc) H).
  Qed.

  (* at the line of a declaration: exactly the stand-alone group that ends on the line above *)
  Lemma doc_group_own d : In d (decls_of evs) ->
    prior (build true evs) (p_file (d_pos d)) (p_line (d_pos d)) (-1)
    = lead_ending leads (p_file (d_pos d)) (p_line (d_pos d) - 1).
  Proof.
    intros Hd. unfold lead_ending.
    destruct (find _ leads) as [g|] eqn:Ef.
    - apply find_some in Ef. destruct Ef as [Hg Hk]. apply andb_true_iff in Hk.
      destruct Hk as [Hk1 Hk2]. apply N.eqb_eq in Hk1. apply Z.eqb_eq in Hk2.
      assert (Hw : In ((p_file (g_pos g), g_end g), Some g) (lead_writes true [] evs)).
      { destruct (wf_attached _ _ WF d g Hd Hg Hk1 Hk2) as [Hv|[d' [Hd' Hdoc]]].
        - apply lead_writes_group; assumption.
        - destruct (key_for_doc d' g Hd' Hdoc) as [H1 _]. rewrite <- H1.
          apply lead_writes_doc_gen; [exact Hdoc|]. apply in_decls_of. exact Hd'. }
      destruct (prior (build true evs) (p_file (d_pos d)) (p_line (d_pos d)) (-1)) as [g'|] eqn:Ep.
      + destruct (doc_group_sound _ _ _ Ep) as [H1 [H2 H3]]. f_equal.
        apply (wf_lead_unique _ _ WF g' g H1 Hg); congruence.
      + exfalso. unfold prior in Ep. cbn [Z.eqb] in Ep. rewrite build_lead in Ep.
        replace (p_line (d_pos d) + -1)%Z with (g_end g) in Ep by lia. rewrite <- Hk1 in Ep.
        exact (first_some_exists _ _ _ Hw Ep).
    - destruct (prior (build true evs) (p_file (d_pos d)) (p_line (d_pos d)) (-1)) as [g'|] eqn:Ep; [|reflexivity].
      exfalso. destruct (doc_group_sound _ _ _ Ep) as [H1 [H2 H3]].
      apply (find_none _ _ Ef) in H1. rewrite H2, H3, N.eqb_refl, Z.eqb_refl in H1. discriminate.
  Qed.

  (* Comment at the line of a declaration reads the trailing index, never the leading one *)
  Lemma comment_group_trail d : In d (decls_of evs) ->
    prior (build true evs) (p_file (d_pos d)) (p_line (d_pos d)) 0
    = first_some (p_file (d_pos d), p_line (d_pos d)) (trail_writes evs).
  Proof.
    intros Hd. unfold prior. cbn [Z.eqb]. rewrite Z.add_0_r.
    pose proof (trail_writes_decl evs d Hd) as Hw. rewrite (key_for_cmt d Hd) in Hw.
    pose proof (build_trail_present true evs _ _ Hw) as Hp.
    rewrite <- (build_trail true). unfold gget.
    destruct (glookup _ (ix_trail (build true evs))); [reflexivity|congruence].
  Qed.

  Lemma comment_group_own d c : In d (decls_of evs) -> d_cmt d = Some c ->
    prior (build true evs) (p_file (d_pos d)) (p_line (d_pos d)) 0 = Some c.
  Proof.
    intros Hd Hc. rewrite (comment_group_trail d Hd).
    pose proof (trail_writes_decl evs d Hd) as Hw. rewrite (key_for_cmt d Hd), Hc in Hw.
    destruct (first_some _ (trail_writes evs)) as [c'|] eqn:E.
    - apply first_some_in, trail_writes_in in E. destruct E as [d' [Hd' [Hk Hv]]].
      rewrite (key_for_cmt d' Hd') in Hk. injection Hk as Hk1 Hk2. f_equal.
      apply (wf_cmt_line _ _ WF d' d c' c Hd' Hd); [split; congruence|congruence|exact Hc].
    - exfalso. exact (first_some_exists _ _ _ Hw E).
  Qed.

  Lemma comment_group_none d : In d (decls_of evs) ->
    (forall d', In d' (decls_of evs) -> same_line (d_pos d') (d_pos d) -> d_cmt d' = None) ->
    prior (build true evs) (p_file (d_pos d)) (p_line (d_pos d)) 0 = None.
  Proof.
    intros Hd Hnone. rewrite (comment_group_trail d Hd).
    destruct (first_some _ (trail_writes evs)) as [c'|] eqn:E; [|reflexivity].
    exfalso. apply first_some_in, trail_writes_in in E. destruct E as [d' [Hd' [Hk Hv]]].
    rewrite (key_for_cmt d' Hd') in Hk. injection Hk as Hk1 Hk2.
    rewrite (Hnone d' Hd') in Hv; [discriminate|]. split; congruence.
  Qed.
End Layout.

(* ------------------------------------------------------------------ *)
(* Doc / Comment in terms of the specification                         *)
(* ------------------------------------------------------------------ *)

Lemma lines_of_spec g : lines_of true g = match g with Some g => spec_lines (g_text g) | None => [] end.
Proof. destruct g; cbn; [apply group_lines_spec|reflexivity]. Qed.

Lemma doc_own evs leads : wf evs leads -> forall d, In d (decls_of evs) ->
  doc_of true true (build true evs) (p_file (d_pos d)) (p_line (d_pos d))
  = extract_tags true [] (doc_lines_above leads (p_file (d_pos d)) (p_line (d_pos d))).
Proof.
  intros WF d Hd. unfold doc_of, doc_lines_above.
  rewrite (doc_group_own evs leads WF d Hd), lines_of_spec. reflexivity.
Qed.

Lemma comment_own evs leads : wf evs leads -> forall d c, In d (decls_of evs) -> d_cmt d = Some c ->
  comment_of true (build true evs) (p_file (d_pos d)) (p_line (d_pos d)) = spec_lines (g_text c).
Proof.
  intros WF d c Hd Hc. unfold comment_of.
  rewrite (comment_group_own evs leads WF d c Hd Hc), lines_of_spec. reflexivity.
Qed.

Lemma comment_none evs leads : wf evs leads -> forall d, In d (decls_of evs) ->
  (forall d', In d' (decls_of evs) -> same_line (d_pos d') (d_pos d) -> d_cmt d' = None) ->
  comment_of true (build true evs) (p_file (d_pos d)) (p_line (d_pos d)) = [].
Proof.
  intros WF d Hd Hn. unfold comment_of.
  rewrite (comment_group_none evs leads WF d Hd Hn). reflexivity.
Qed.

(* ------------------------------------------------------------------ *)
(* wf_b decides (a sufficient condition for) wf                        *)
(* ------------------------------------------------------------------ *)

Lemma wf_group_b_sound leads : forall post seen,
  wf_group_b leads seen post = true ->
  forall pre g post', post = pre ++ EGroup g :: post' ->
    In g leads \/ In g seen \/ exists d, In d (decls_of pre) /\ d_cmt d = Some g.
Proof.
  induction post as [|e post IH]; intros seen Hb pre g post' Heq.
  - destruct pre; discriminate.
  - destruct pre as [|e' pre]; cbn in Heq; injection Heq as He Hr.
    + subst e. cbn in Hb. apply andb_true_iff in Hb. destruct Hb as [Hb _].
      apply orb_true_iff in Hb. destruct Hb as [Hb|Hb]; apply gmem_spec in Hb; auto.
    + subst e'. destruct e as [g0|d]; cbn in Hb.
      * apply andb_true_iff in Hb. destruct Hb as [_ Hb].
        destruct (IH seen Hb pre g post' Hr) as [H|[H|[d [H1 H2]]]]; auto.
        right. right. exists d. split; [exact H1|exact H2].
      * destruct (IH _ Hb pre g post' Hr) as [H|[H|[d' [H1 H2]]]]; auto.
        -- destruct (d_cmt d) as [c|] eqn:E; auto.
           destruct H as [<-|H]; auto.
           right. right. exists d. split; [left; reflexivity|exact E].
        -- right. right. exists d'. split; [right; exact H1|exact H2].
Qed.

Lemma visited_b_sound evs g : visited_b evs g = true ->
  In (EGroup g) evs \/ exists d', In d' (decls_of evs) /\ d_doc d' = Some g.
Proof.
  unfold visited_b. rewrite existsb_exists. intros [e [He Hb]]. destruct e as [g'|d].
  - apply group_eqb_spec in Hb. subst g'. left. exact He.
  - destruct (d_doc d) as [g'|] eqn:E; [|discriminate]. apply group_eqb_spec in Hb. subst g'.
    right. exists d. split; [apply in_decls_of; exact He|exact E].
Qed.

Lemma wf_b_sound evs leads : wf_b evs leads = true -> wf evs leads.
Proof.
  unfold wf_b. intros H. repeat (apply andb_true_iff in H; destruct H as [H ?]).
  rename H into Hg, H0 into Hatt, H1 into Huniq, H2 into Hline, H3 into Hcmt, H4 into Hdoc.
  rewrite forallb_forall in Hdoc, Hcmt.
  constructor.
  - intros pre g post Heq.
    destruct (wf_group_b_sound leads evs [] Hg pre g post Heq) as [Hl|[[]|Hd]]; auto.
  - intros d g Hd Hdg. specialize (Hdoc d Hd). unfold wf_doc_b in Hdoc. rewrite Hdg in Hdoc.
    repeat (apply andb_true_iff in Hdoc; destruct Hdoc as [Hdoc ?]).
    apply gmem_spec in Hdoc. apply N.eqb_eq in H1. apply Z.eqb_eq in H0. apply negb_true_iff in H. auto.
  - intros d c Hd Hdc. specialize (Hcmt d Hd). unfold wf_cmt_b in Hcmt. rewrite Hdc in Hcmt.
    apply andb_true_iff in Hcmt. destruct Hcmt as [H1 H2]. apply negb_true_iff in H1, H2.
    split; [|exact H2]. intros Hin. apply gmem_spec in Hin. congruence.
  - intros d1 d2 c1 c2 H1 H2 [Hf Hl] Hc1 Hc2. unfold wf_cmt_line_b in Hline.
    rewrite forallb_forall in Hline. specialize (Hline d1 H1). rewrite forallb_forall in Hline.
    specialize (Hline d2 H2). rewrite Hc1, Hc2 in Hline. unfold same_line_b in Hline.
    rewrite Hf, Hl, N.eqb_refl, Z.eqb_refl in Hline. apply group_eqb_spec. exact Hline.
  - intros g1 g2 H1 H2 Hf He. unfold wf_lead_unique_b in Huniq.
    rewrite forallb_forall in Huniq. specialize (Huniq g1 H1). rewrite forallb_forall in Huniq.
    specialize (Huniq g2 H2). rewrite Hf, He, N.eqb_refl, Z.eqb_refl in Huniq. apply group_eqb_spec. exact Huniq.
  - intros d g Hd Hgl Hf He. unfold wf_attached_b in Hatt.
    rewrite forallb_forall in Hatt. specialize (Hatt d Hd). rewrite forallb_forall in Hatt.
    specialize (Hatt g Hgl). rewrite Hf, He, N.eqb_refl, Z.eqb_refl in Hatt. apply visited_b_sound. exact Hatt.
Qed.

(* ------------------------------------------------------------------ *)
(* the code as it was before the three repairs                         *)
(* ------------------------------------------------------------------ *)

(* `A int // trailing A` on line 4, `B int` on line 5 of file 0 *)
Definition w_trail : group := mk_group (mk_pos 0 4 8) 4 (bs "trailing A" ++ [c_nl]).
Definition w_a : decl := mk_decl (mk_pos 0 4 2) [4%Z] None (Some w_trail).
Definition w_b : decl := mk_decl (mk_pos 0 5 2) [5%Z] None None.
Definition w_events : list event := [EDecl w_a; EGroup w_trail; EDecl w_b].

Lemma w_wf : wf w_events [].
Proof. apply wf_b_sound. vm_compute. reflexivity. Qed.

Lemma doc_own_old_refuted :
  exists evs leads d, wf evs leads /\ In d (decls_of evs) /\
    doc_of true true (build false evs) (p_file (d_pos d)) (p_line (d_pos d))
    <> extract_tags true [] (doc_lines_above leads (p_file (d_pos d)) (p_line (d_pos d))).
Proof.
  exists w_events, [], w_b. split; [exact w_wf|]. split; [right; left; reflexivity|].
  vm_compute. discriminate.
Qed.

Lemma no_steal_old_refuted :
  exists evs leads f l g d, wf evs leads /\ prior (build false evs) f l (-1) = Some g /\
    In d (decls_of evs) /\ d_cmt d = Some g.
Proof.
  exists w_events, [], 0%N, 5%Z, w_trail, w_a. split; [exact w_wf|].
  split; [vm_compute; reflexivity|]. split; [left; reflexivity|reflexivity].
Qed.

(* the repaired code on the same layout *)
Lemma doc_own_witness_fixed :
  doc_of true true (build true w_events) 0 5 = ([], [])
  /\ comment_of true (build true w_events) 0 4 = [bs "trailing A"].
Proof. vm_compute. split; reflexivity. Qed.

(* a group whose Text() is empty (only a //go: directive): one empty line before the repair *)
Lemma empty_text_old_refuted : exists text, group_lines false text <> spec_lines text.
Proof. exists []. vm_compute. discriminate. Qed.

(* "+k=\xff": the value came back as U+FFFD before the repair *)
Lemma split_kv_old_refuted : exists s, split_kv false s <> (upto_sep s, after_sep s).
Proof. exists [ascii_of_N 107; ascii_of_N 61; ascii_of_N 255]. vm_compute. discriminate. Qed.

(* ------------------------------------------------------------------ *)
(* every name of a declaration (guard: no name on a continuation line) *)
(* ------------------------------------------------------------------ *)

Lemma names_on_first_line evs : name_on_continuation_line evs = false ->
  forall d l, In d (decls_of evs) -> In l (d_names d) -> l = p_line (d_pos d).
Proof.
  unfold name_on_continuation_line. intros H d l Hd Hl.
  destruct (Z.eqb l (p_line (d_pos d))) eqn:E; [apply Z.eqb_eq; exact E|].
  exfalso. assert (Hx : existsb (fun d => existsb (fun l => negb (Z.eqb l (p_line (d_pos d)))) (d_names d)) (decls_of evs) = true).
  { apply existsb_exists. exists d. split; [exact Hd|]. apply existsb_exists. exists l. split; [exact Hl|]. rewrite E. reflexivity. }
  congruence.
Qed.

Lemma names_partial evs leads : wf evs leads -> name_on_continuation_line evs = false ->
  forall d l, In d (decls_of evs) -> In l (d_names d) ->
    doc_of true true (build true evs) (p_file (d_pos d)) l
    = extract_tags true [] (doc_lines_above leads (p_file (d_pos d)) (p_line (d_pos d)))
    /\ (forall c, d_cmt d = Some c ->
          comment_of true (build true evs) (p_file (d_pos d)) l = spec_lines (g_text c)).
Proof.
  intros WF Hn d l Hd Hl. rewrite (names_on_first_line evs Hn d l Hd Hl). split.
  - apply doc_own; assumption.
  - intros c Hc. apply (comment_own evs leads WF d c Hd Hc).
Qed.

(* `// doc` / `F,` / `G int // trailing FG`: G is on line 5, the declaration starts on line 4 *)
Definition n_doc : group := mk_group (mk_pos 0 3 2) 3 (bs "doc" ++ [c_nl]).
Definition n_trail : group := mk_group (mk_pos 0 5 8) 5 (bs "trailing FG" ++ [c_nl]).
Definition n_fg : decl := mk_decl (mk_pos 0 4 2) [4%Z; 5%Z] (Some n_doc) (Some n_trail).
Definition n_events : list event := [EDecl n_fg; EGroup n_doc; EGroup n_trail].

Lemma names_refuted :
  exists evs leads d l c, wf evs leads /\ In d (decls_of evs) /\ In l (d_names d) /\ d_cmt d = Some c /\
    comment_of true (build true evs) (p_file (d_pos d)) l <> spec_lines (g_text c) /\
    doc_of true true (build true evs) (p_file (d_pos d)) l
    <> extract_tags true [] (doc_lines_above leads (p_file (d_pos d)) (p_line (d_pos d))).
Proof.
  exists n_events, [n_doc], n_fg, 5%Z, n_trail.
  split; [apply wf_b_sound; vm_compute; reflexivity|].
  split; [left; reflexivity|]. split; [right; left; reflexivity|]. split; [reflexivity|].
  split; vm_compute; discriminate.
Qed.
