(* Lemmas for C12: the tag-extraction loop against its declarative specification, and the
   two comment indexes ("first writer wins") against the line-based attribution spec. *)
Require Import Gengo.Base.Bytes.
From Coq Require Import ZArith Permutation.
Require Import Gengo.Model.Comments Gengo.Spec.Comments.

(* ------------------------------------------------------------------ *)
(* byte-string equality helpers                                        *)
(* ------------------------------------------------------------------ *)

Lemma bytes_eqb_sym a c : bytes_eqb a c = bytes_eqb c a.
Proof.
  destruct (bytes_eqb a c) eqn:E1, (bytes_eqb c a) eqn:E2; try reflexivity.
  - apply bytes_eqb_spec in E1. subst. rewrite bytes_eqb_refl in E2. discriminate.
  - apply bytes_eqb_spec in E2. subst. rewrite bytes_eqb_refl in E1. discriminate.
Qed.

(* ------------------------------------------------------------------ *)
(* model helpers = spec helpers                                        *)
(* ------------------------------------------------------------------ *)

Lemma trim_left_sp_eq s : trim_left_sp s = drop_spaces s.
Proof. induction s as [|c r IH]; cbn; [reflexivity|]. unfold is_sp, c_sp, space. rewrite IH. reflexivity. Qed.

Lemma trim_sp_strip s : trim_sp s = strip s.
Proof. unfold trim_sp, trim_right_sp, strip. rewrite !trim_left_sp_eq. reflexivity. Qed.

Lemma one_of_existsb ms c : one_of ms c = existsb (Ascii.eqb c) ms.
Proof. induction ms as [|m r IH]; cbn; [reflexivity|]. destruct (Ascii.eqb c m); cbn; auto. Qed.

Lemma is_sep_sep c : is_sep c = sep c.
Proof. reflexivity. Qed.

Lemma markers_default ms : (if is_nil ms then default_markers else ms) = markers_or_default ms.
Proof. destruct ms; reflexivity. Qed.

(* ------------------------------------------------------------------ *)
(* splitKV                                                             *)
(* ------------------------------------------------------------------ *)

Lemma split_kv_loop_true : forall s k v, split_kv_loop s k v true = (k, v ++ s).
Proof.
  induction s as [|c r IH]; intros k v; cbn.
  - rewrite app_nil_r. reflexivity.
  - rewrite IH, <- app_assoc. reflexivity.
Qed.

Lemma split_kv_loop_false : forall s k v,
  split_kv_loop s k v false = (k ++ upto_sep s, v ++ after_sep s).
Proof.
  induction s as [|c r IH]; intros k v; cbn.
  - rewrite !app_nil_r. reflexivity.
  - rewrite is_sep_sep. destruct (sep c); cbn.
    + rewrite split_kv_loop_true, app_nil_r. reflexivity.
    + rewrite IH, <- app_assoc. reflexivity.
Qed.

Lemma split_kv_spec s : split_kv s = (upto_sep s, after_sep s).
Proof. unfold split_kv. rewrite split_kv_loop_false. reflexivity. Qed.

(* the key contains no separator, and key ++ separator ++ value is the payload *)
Lemma upto_sep_no_sep s : forallb (fun c => negb (sep c)) (upto_sep s) = true.
Proof. induction s as [|c r IH]; cbn; [reflexivity|]. destruct (sep c) eqn:E; cbn; [reflexivity|]. rewrite E. exact IH. Qed.

Lemma upto_after_sep s :
  (forallb (fun c => negb (sep c)) s = true /\ upto_sep s = s /\ after_sep s = []) \/
  (exists c, sep c = true /\ s = upto_sep s ++ c :: after_sep s).
Proof.
  induction s as [|c r IH]; cbn.
  - left. auto.
  - destruct (sep c) eqn:E; cbn.
    + right. exists c. auto.
    + destruct IH as [[H1 [H2 H3]]|[c' [H1 H2]]].
      * left. rewrite H1, H2, H3. auto.
      * right. exists c'. split; [exact H1|]. rewrite <- H2. reflexivity.
Qed.

(* ------------------------------------------------------------------ *)
(* the tag map                                                         *)
(* ------------------------------------------------------------------ *)

Definition tag_values (k : bytes) (m : tagmap) : list bytes :=
  match tag_lookup k m with Some vs => vs | None => [] end.
Definition total (m : tagmap) : nat := length (concat (map snd m)).

Lemma tag_lookup_append k k' v m :
  tag_lookup k (tag_append k' v m) =
    if bytes_eqb k k' then Some (tag_values k m ++ [v]) else tag_lookup k m.
Proof.
  unfold tag_values. induction m as [|[k2 vs] r IH]; cbn.
  - destruct (bytes_eqb k k'); reflexivity.
  - destruct (bytes_eqb k' k2) eqn:E2; cbn.
    + apply bytes_eqb_spec in E2. subst k2.
      destruct (bytes_eqb k k'); reflexivity.
    + destruct (bytes_eqb k k2) eqn:E3.
      * apply bytes_eqb_spec in E3. subst k2. rewrite bytes_eqb_sym, E2. reflexivity.
      * exact IH.
Qed.

Lemma tag_values_append k k' v m :
  tag_values k (tag_append k' v m) = if bytes_eqb k k' then tag_values k m ++ [v] else tag_values k m.
Proof.
  unfold tag_values at 1. rewrite tag_lookup_append. destruct (bytes_eqb k k'); reflexivity.
Qed.

Lemma tag_append_keys k v m :
  (In k (map fst m) -> map fst (tag_append k v m) = map fst m) /\
  (~ In k (map fst m) -> map fst (tag_append k v m) = map fst m ++ [k]).
Proof.
  induction m as [|[k2 vs] r [IH1 IH2]]; cbn.
  - split; [intros []|reflexivity].
  - destruct (bytes_eqb k k2) eqn:E; cbn.
    + apply bytes_eqb_spec in E. subst k2. split; [reflexivity|]. intros H. exfalso. apply H. left. reflexivity.
    + split.
      * intros [H|H]; [subst k2; rewrite bytes_eqb_refl in E; discriminate|]. rewrite IH1; auto.
      * intros H. rewrite IH2; auto.
Qed.

Lemma tag_append_nodup k v m : NoDup (map fst m) -> NoDup (map fst (tag_append k v m)).
Proof.
  intros H. destruct (tag_append_keys k v m) as [H1 H2].
  destruct (in_dec (list_eq_dec ascii_dec) k (map fst m)) as [Hin|Hnin].
  - rewrite H1; assumption.
  - rewrite H2 by assumption.
    apply (Permutation_NoDup (l := k :: map fst m)).
    + apply Permutation_cons_append.
    + constructor; assumption.
Qed.

Lemma total_append k v m : total (tag_append k v m) = S (total m).
Proof.
  unfold total. induction m as [|[k2 vs] r IH]; cbn; [reflexivity|].
  destruct (bytes_eqb k k2); cbn.
  - rewrite ?app_length. cbn. rewrite ?app_length. cbn. lia.
  - rewrite ?app_length. rewrite IH. lia.
Qed.

(* ------------------------------------------------------------------ *)
(* ExtractCommentTags                                                  *)
(* ------------------------------------------------------------------ *)

Lemma extract_loop_cons ms line0 ls tags others :
  extract_loop ms (line0 :: ls) tags others =
    if is_tag ms (strip line0)
    then extract_loop ms ls (tag_append (tag_key (strip line0)) (tag_value (strip line0)) tags) others
    else extract_loop ms ls tags (others ++ [strip line0]).
Proof.
  cbn [extract_loop]. rewrite trim_sp_strip. destruct (strip line0) as [|c payload]; cbn [is_tag].
  - reflexivity.
  - rewrite one_of_existsb. destruct (existsb (Ascii.eqb c) ms); [|reflexivity].
    rewrite split_kv_spec. reflexivity.
Qed.

Lemma spec_others_cons ms line0 ls :
  spec_others ms (line0 :: ls) =
    if is_tag ms (strip line0) then spec_others ms ls else strip line0 :: spec_others ms ls.
Proof. unfold spec_others. cbn. destruct (is_tag ms (strip line0)); reflexivity. Qed.

Lemma spec_values_cons ms line0 ls k :
  spec_values ms (line0 :: ls) k =
    if is_tag ms (strip line0) && bytes_eqb (tag_key (strip line0)) k
    then tag_value (strip line0) :: spec_values ms ls k else spec_values ms ls k.
Proof.
  unfold spec_values. cbn.
  destruct (is_tag ms (strip line0) && bytes_eqb (tag_key (strip line0)) k); reflexivity.
Qed.

Lemma extract_loop_others ms ls : forall tags others,
  snd (extract_loop ms ls tags others) = others ++ spec_others ms ls.
Proof.
  induction ls as [|line0 ls IH]; intros tags others.
  - cbn. rewrite app_nil_r. reflexivity.
  - rewrite extract_loop_cons, spec_others_cons. destruct (is_tag ms (strip line0)).
    + apply IH.
    + rewrite IH, <- app_assoc. reflexivity.
Qed.

Lemma extract_loop_values ms ls : forall tags others k,
  tag_values k (fst (extract_loop ms ls tags others)) = tag_values k tags ++ spec_values ms ls k.
Proof.
  induction ls as [|line0 ls IH]; intros tags others k.
  - cbn. rewrite app_nil_r. reflexivity.
  - rewrite extract_loop_cons, spec_values_cons. destruct (is_tag ms (strip line0)); cbn [andb].
    + rewrite IH, tag_values_append, (bytes_eqb_sym k).
      destruct (bytes_eqb (tag_key (strip line0)) k); [rewrite <- app_assoc|]; reflexivity.
    + apply IH.
Qed.

Lemma extract_loop_nodup ms ls : forall tags others,
  NoDup (map fst tags) -> NoDup (map fst (fst (extract_loop ms ls tags others))).
Proof.
  induction ls as [|line0 ls IH]; intros tags others H; [exact H|].
  rewrite extract_loop_cons. destruct (is_tag ms (strip line0)); apply IH; [apply tag_append_nodup|]; exact H.
Qed.

Definition nonempty_entries (m : tagmap) : Prop := forall k vs, tag_lookup k m = Some vs -> vs <> [].

Lemma extract_loop_nonempty ms ls : forall tags others,
  nonempty_entries tags -> nonempty_entries (fst (extract_loop ms ls tags others)).
Proof.
  induction ls as [|line0 ls IH]; intros tags others H; [exact H|].
  rewrite extract_loop_cons. destruct (is_tag ms (strip line0)); apply IH; [|exact H].
  intros k vs. rewrite tag_lookup_append. destruct (bytes_eqb k _).
  - intros E. injection E as <-. destruct (tag_values k tags); discriminate.
  - apply H.
Qed.

Lemma extract_loop_count ms ls : forall tags others,
  length (snd (extract_loop ms ls tags others)) + total (fst (extract_loop ms ls tags others))
  = length others + total tags + length ls.
Proof.
  induction ls as [|line0 ls IH]; intros tags others; [cbn [extract_loop fst snd length]; lia|].
  rewrite extract_loop_cons. destruct (is_tag ms (strip line0)); rewrite IH.
  - rewrite total_append. cbn [length]. lia.
  - rewrite app_length. cbn [length]. lia.
Qed.

(* the statement of C12's last sentence, for every marker set and every list of lines *)
Lemma extract_tags_spec markers lines :
  let ms := markers_or_default markers in
  let tags := fst (extract_tags markers lines) in
  let others := snd (extract_tags markers lines) in
  others = spec_others ms lines
  /\ (forall k, tag_values k tags = spec_values ms lines k)
  /\ (forall k, tag_lookup k tags = None <-> spec_values ms lines k = [])
  /\ NoDup (map fst tags)
  /\ length others + total tags = length lines.
Proof.
  unfold extract_tags. rewrite markers_default. cbn zeta.
  set (ms := markers_or_default markers).
  assert (Hv : forall k, tag_values k (fst (extract_loop ms lines [] [])) = spec_values ms lines k).
  { intros k. rewrite extract_loop_values. reflexivity. }
  assert (Hne : nonempty_entries (fst (extract_loop ms lines [] []))).
  { apply extract_loop_nonempty. intros k vs. cbn. discriminate. }
  repeat split.
  - rewrite extract_loop_others. reflexivity.
  - exact Hv.
  - intros H. rewrite <- Hv. unfold tag_values. rewrite H. reflexivity.
  - intros H. rewrite <- Hv in H. unfold tag_values in H.
    destruct (tag_lookup k _) as [vs|] eqn:E; [|reflexivity]. subst vs. exfalso. exact (Hne k [] E eq_refl).
  - apply extract_loop_nodup. constructor.
  - rewrite extract_loop_count. cbn [length]. unfold total. cbn. lia.
Qed.
