(* Heap semantics of the generated DeepCopy/DeepCopyInto methods: the copy is deeply equal to the original and
   every container reachable from it is freshly allocated. *)
Require Import Gengo.Base.Bytes Gengo.Model.DeepCopy Gengo.Proofs.DeepCopy.

(* ---- values: induction principle and the list-level companions of the nested fixpoints ---- *)

Section ValueInd.
  Variable P : value -> Prop.
  Hypothesis Hscalar : forall n, P (VScalar n).
  Hypothesis Hslice : forall l, P (VSlice l).
  Hypothesis Hmap : forall l, P (VMap l).
  Hypothesis Hiface : forall i, P (VIface i).
  Hypothesis Hstruct : forall fs, Forall (fun p => P (snd p)) fs -> P (VStruct fs).

  Fixpoint value_ind' (v : value) : P v :=
    match v with
    | VScalar n => Hscalar n
    | VSlice l => Hslice l
    | VMap l => Hmap l
    | VIface i => Hiface i
    | VStruct fs =>
        Hstruct fs ((fix go (l : list (bytes * value)) : Forall (fun p => P (snd p)) l :=
                       match l with
                       | [] => Forall_nil _
                       | p :: r => Forall_cons p (value_ind' (snd p)) (go r)
                       end) fs)
    end.
End ValueInd.

Fixpoint snap_fields (h : heap) (fs : list (bytes * value)) : list (bytes * snap) :=
  match fs with [] => [] | (f, x) :: r => (f, snapshot h x) :: snap_fields h r end.

Fixpoint locs_fields (fs : list (bytes * value)) : list loc :=
  match fs with [] => [] | (_, x) :: r => locs x ++ locs_fields r end.

Fixpoint zero_fields (fs : list (bytes * value)) : list (bytes * value) :=
  match fs with [] => [] | (f, x) :: r => (f, zero_like x) :: zero_fields r end.

Lemma snapshot_struct : forall h fs, snapshot h (VStruct fs) = PStruct (snap_fields h fs).
Proof. intros h fs. cbn [snapshot]. f_equal. induction fs as [|[f x] r IH]; cbn; [reflexivity|]. rewrite IH. reflexivity. Qed.

Lemma locs_struct : forall fs, locs (VStruct fs) = locs_fields fs.
Proof. reflexivity. Qed.

Lemma zero_struct : forall fs, zero_like (VStruct fs) = VStruct (zero_fields fs).
Proof. reflexivity. Qed.

(* nesting depth of struct values *)
Fixpoint vdepth (v : value) : nat :=
  match v with
  | VStruct fs => S ((fix go (l : list (bytes * value)) : nat :=
                        match l with [] => 0 | (_, x) :: r => Nat.max (vdepth x) (go r) end) fs)
  | _ => 0
  end.

Fixpoint depth_fields (fs : list (bytes * value)) : nat :=
  match fs with [] => 0 | (_, x) :: r => Nat.max (vdepth x) (depth_fields r) end.

Lemma vdepth_struct : forall fs, vdepth (VStruct fs) = S (depth_fields fs).
Proof. reflexivity. Qed.

(* ---- typing of values against the type graph ---- *)

Definition kind_of (G : pkg) (n : bytes) : option dkind :=
  match lookup G n with Some d => Some (d_kind d) | None => None end.

Definition cell_is_slice (h : heap) (l : option loc) : Prop :=
  match l with None => True | Some a => exists es, nth_error h a = Some (CSlice es) end.
Definition cell_is_map (h : heap) (l : option loc) : Prop :=
  match l with None => True | Some a => exists es, nth_error h a = Some (CMap es) end.

Fixpoint wt (G : pkg) (h : heap) (t : fty) (v : value) {struct v} : Prop :=
  match v with
  | VScalar _ =>
      match t with
      | FBasic _ | FTParam _ | FForeign _ => True
      | FNamed n _ => kind_of G n = Some DScalar
      | _ => False
      end
  | VSlice l => match t with FSlice _ => cell_is_slice h l | _ => False end
  | VMap l =>
      match t with
      | FMap _ _ => cell_is_map h l
      | FNamed n _ => (exists k e, kind_of G n = Some (DMap k e)) /\ cell_is_map h l
      | _ => False
      end
  | VIface _ =>
      match t with
      | FError | FIface => True
      | FNamed n _ => kind_of G n = Some DIface
      | _ => False
      end
  | VStruct fs =>
      match t with
      | FNamed n _ =>
          match kind_of G n with
          | Some (DStruct _ fields) =>
              (fix go (fields : list (bytes * fty)) (l : list (bytes * value)) {struct l} : Prop :=
                 match fields, l with
                 | [], [] => True
                 | (f, ft) :: r, (g, x) :: s => f = g /\ wt G h ft x /\ go r s
                 | _, _ => False
                 end) fields fs
          | _ => False
          end
      | _ => False
      end
  end.

Fixpoint wt_fields (G : pkg) (h : heap) (fields : list (bytes * fty)) (l : list (bytes * value)) : Prop :=
  match fields, l with
  | [], [] => True
  | (f, ft) :: r, (g, x) :: s => f = g /\ wt G h ft x /\ wt_fields G h r s
  | _, _ => False
  end.

Lemma wt_struct : forall G h n args fs,
  wt G h (FNamed n args) (VStruct fs) <->
  exists tp fields, kind_of G n = Some (DStruct tp fields) /\ wt_fields G h fields fs.
Proof.
  intros G h n args fs. cbn [wt]. destruct (kind_of G n) as [[tp fields|k e| |]|].
  - assert (forall l, (fix go (fields : list (bytes * fty)) (l : list (bytes * value)) {struct l} : Prop :=
                 match fields, l with
                 | [], [] => True
                 | (f, ft) :: r, (g, x) :: s => f = g /\ wt G h ft x /\ go r s
                 | _, _ => False
                 end) fields l <-> wt_fields G h fields l) as Heq.
    { induction fields as [|[f ft] r IH]; intros [|[g x] s]; cbn; try tauto. rewrite IH. tauto. }
    rewrite Heq. split; [eauto|]. intros [tp' [fields' [E H]]]. inversion E; subst. exact H.
  - split; [tauto|]. intros [tp' [fields' [E H]]]. discriminate.
  - split; [tauto|]. intros [tp' [fields' [E H]]]. discriminate.
  - split; [tauto|]. intros [tp' [fields' [E H]]]. discriminate.
  - split; [tauto|]. intros [tp' [fields' [E H]]]. discriminate.
Qed.

(* ---- heap extension ---- *)

Lemma nth_error_ext : forall (h t : heap) a c, nth_error h a = Some c -> nth_error (h ++ t) a = Some c.
Proof. intros h t a c H. rewrite nth_error_app1; [exact H|]. apply nth_error_Some. congruence. Qed.

Definition valid (h : heap) (v : value) : Prop := forall a, In a (locs v) -> a < List.length h.

Lemma snapshot_ext : forall h t v, valid h v -> snapshot (h ++ t) v = snapshot h v.
Proof.
  intros h t v. induction v as [n|l|l|i|fs IH] using value_ind'; intros Hv; try reflexivity.
  - destruct l as [a|]; [|reflexivity]. cbn [snapshot].
    rewrite nth_error_app1; [reflexivity|]. apply Hv. cbn. auto.
  - destruct l as [a|]; [|reflexivity]. cbn [snapshot].
    rewrite nth_error_app1; [reflexivity|]. apply Hv. cbn. auto.
  - rewrite !snapshot_struct. f_equal. unfold valid in Hv. rewrite locs_struct in Hv.
    induction fs as [|[f x] r IHr]; [reflexivity|]. cbn [snap_fields]. inversion IH; subst.
    cbn [locs_fields] in Hv. f_equal.
    + f_equal. apply H1. intros a Ha. apply Hv. apply in_or_app. auto.
    + apply IHr; [assumption|]. intros a Ha. apply Hv. apply in_or_app. auto.
Qed.

Lemma wt_valid : forall G h v t, wt G h t v -> valid h v.
Proof.
  intros G h v. induction v as [n|l|l|i|fs IH] using value_ind'; intros t Hw a Ha; try (cbn in Ha; contradiction).
  - destruct l as [b|]; [|destruct Ha]. cbn in Ha. destruct Ha as [<-|[]].
    destruct t; cbn in Hw; try contradiction. destruct Hw as [es He]. apply nth_error_Some. congruence.
  - destruct l as [b|]; [|destruct Ha]. cbn in Ha. destruct Ha as [<-|[]].
    destruct t; cbn [wt] in Hw; try contradiction.
    + destruct Hw as [es He]. apply nth_error_Some. congruence.
    + destruct Hw as [_ [es He]]. apply nth_error_Some. congruence.
  - destruct t; try (cbn in Hw; contradiction). apply wt_struct in Hw. destruct Hw as [tp [fields [_ Hw]]].
    rewrite locs_struct in Ha. revert fields Hw a Ha.
    induction fs as [|[f x] r IHr]; intros fields Hw a Ha; [destruct Ha|].
    destruct fields as [|[g ft] fr]; [destruct Hw|]. destruct Hw as [_ [Hx Hr]].
    inversion IH; subst. cbn [locs_fields] in Ha. apply in_app_or in Ha. destruct Ha as [Ha|Ha].
    + eapply H1; eassumption.
    + eapply IHr; eassumption.
Qed.

Lemma wt_ext : forall G h t0 v t, wt G h t v -> wt G (h ++ t0) t v.
Proof.
  intros G h t0 v. induction v as [n|l|l|i|fs IH] using value_ind'; intros t Hw; try exact Hw.
  - destruct t; cbn in *; try contradiction. destruct l as [a|]; [|exact I].
    destruct Hw as [es He]. exists es. apply nth_error_ext. exact He.
  - destruct t; cbn [wt] in *; try contradiction.
    + destruct l as [a|]; [|exact I]. destruct Hw as [es He]. exists es. apply nth_error_ext. exact He.
    + destruct Hw as [Hk Hc]. split; [exact Hk|]. destruct l as [a|]; [|exact I].
      destruct Hc as [es He]. exists es. apply nth_error_ext. exact He.
  - destruct t; try (cbn in Hw; contradiction). apply wt_struct in Hw. apply wt_struct.
    destruct Hw as [tp [fields [Hk Hw]]]. exists tp, fields. split; [exact Hk|].
    clear Hk. revert fields Hw. induction fs as [|[f x] r IHr]; intros fields Hw; destruct fields as [|[g ft] fr]; try exact Hw.
    destruct Hw as [Hn [Hx Hr]]. inversion IH; subst. split; [reflexivity|]. split; [apply H1; exact Hx|apply IHr; assumption].
Qed.

(* ---- field lists ---- *)

Lemma get_field_head : forall f v l, get_field f ((f, v) :: l) = Some v.
Proof. intros. cbn. rewrite bytes_eqb_refl. reflexivity. Qed.

Lemma bytes_eqb_neq : forall a b, a <> b -> bytes_eqb a b = false.
Proof. intros a b H. destruct (bytes_eqb a b) eqn:E; [|reflexivity]. apply bytes_eqb_spec in E. contradiction. Qed.

Lemma get_field_app_notin : forall f (pre l : list (bytes * value)),
  ~ In f (map fst pre) -> get_field f (pre ++ l) = get_field f l.
Proof.
  intros f pre l. induction pre as [|[g v] pre IH]; intros H; [reflexivity|]. cbn in *.
  rewrite bytes_eqb_neq by (intros E; apply H; left; exact E). apply IH. intros Hin. apply H. right. exact Hin.
Qed.

Lemma set_field_app_notin : forall f v (pre l : list (bytes * value)),
  ~ In f (map fst pre) -> set_field f v (pre ++ l) = pre ++ set_field f v l.
Proof.
  intros f v pre l. induction pre as [|[g w] pre IH]; intros H; [reflexivity|]. cbn in *.
  rewrite bytes_eqb_neq by (intros E; apply H; left; exact E). f_equal. apply IH. intros Hin. apply H. right. exact Hin.
Qed.

Lemma set_field_head : forall f v w l, set_field f v ((f, w) :: l) = (f, v) :: l.
Proof. intros. cbn. rewrite bytes_eqb_refl. reflexivity. Qed.

Fixpoint assoc_fty (f : bytes) (fs : list (bytes * fty)) : option fty :=
  match fs with [] => None | (g, t) :: r => if bytes_eqb g f then Some t else assoc_fty f r end.

Lemma field_type_assoc : forall G n d tp fs f,
  lookup G n = Some d -> d_kind d = DStruct tp fs -> field_type G n f = assoc_fty f fs.
Proof.
  intros G n d tp fs f Hl Hk. unfold field_type. rewrite Hl. clear Hl. destruct d as [dn dk dt di dh]. cbn in Hk. subst dk.
  induction fs as [|[g t] r IH]; [reflexivity|]. cbn. destruct (bytes_eqb g f); [reflexivity|exact IH].
Qed.

Lemma assoc_fty_in : forall f ft fs, NoDup (map fst fs) -> In (f, ft) fs -> assoc_fty f fs = Some ft.
Proof.
  intros f ft. induction fs as [|[g t] r IH]; intros Hn Hin; [destruct Hin|]. cbn in *. inversion Hn; subst.
  destruct Hin as [E|Hin].
  - inversion E; subst. rewrite bytes_eqb_refl. reflexivity.
  - rewrite bytes_eqb_neq; [apply IH; assumption|]. intros E. subst g. apply H1.
    apply in_map_iff. exists (f, ft). auto.
Qed.

(* ---- the domain of type graphs, and what the semantic theorem needs of the generated file ---- *)

Definition dom (G : pkg) : Prop :=
  (forall n d, lookup G n = Some d -> snd (scan (d_hand d)) = true) /\
  (forall n d tp fs, lookup G n = Some d -> d_kind d = DStruct tp fs ->
     NoDup (map fst fs) /\
     (forall f c args, In (f, FNamed c args) fs -> lookup G c <> None) /\
     (forall f ms, In (f, FForeign ms) fs -> field_stmt all_fixed G [] f (FForeign ms) = Ok (SAssign f, None))).

Definition callees_ok (G : pkg) (ms : list method) : Prop :=
  forall n body, find_into ms n = Some body ->
    exists d, lookup G n = Some d /\
      ((d_kind d = DScalar /\ body = [SStar]) \/
       (exists tp fs deps, d_kind d = DStruct tp fs /\ fields_copy all_fixed G [] fs = Ok (body, deps) /\
          forall f c args, In (f, FNamed c args) fs ->
            (is_map (lookup G c) = true -> has_map_methods ms c = true) /\
            (forall dc, lookup G c = Some dc ->
               (d_kind dc = DScalar \/ exists tp' fs', d_kind dc = DStruct tp' fs') -> find_into ms c <> None))).

Lemma field_stmt_not_star : forall G vis f t s dep, field_stmt all_fixed G vis f t = Ok (s, dep) -> s <> SStar.
Proof.
  intros G vis f t s dep H. destruct t as [n|e|k e|n args| | |n|ms];
    try rewrite field_stmt_fixed_error in H;
    cbn [field_stmt all_fixed fx_iface fx_nilpkg fx_mapptr andb] in H; try (inversion H; subst; discriminate).
  - destruct (is_iface (lookup G n)); [inversion H; subst; discriminate|].
    destruct (scan (hand_of (lookup G n) ++ sigs_of vis n)) as [[a b] c].
    destruct (if is_map (lookup G n) then false else c); inversion H; subst; discriminate.
  - destruct (scan ms) as [[a b] c]. unfold choose in H.
    destruct (c && b); [inversion H; subst; discriminate|].
    destruct (negb c && a); [inversion H; subst; discriminate|].
    destruct (c && a); inversion H; subst; discriminate.
Qed.

Lemma fields_copy_not_star : forall G vis fs body deps,
  fields_copy all_fixed G vis fs = Ok (body, deps) -> body <> [SStar].
Proof.
  intros G vis fs body deps H E. subst body. destruct fs as [|[f t] r]; cbn [fields_copy] in H; [discriminate|].
  apply bind_ok in H. destruct H as [[s dep] [Hs H]]. apply bind_ok in H. destruct H as [[ss deps'] [_ H]].
  inversion H; subst. eapply field_stmt_not_star; eauto.
Qed.

Lemma exec_into_struct : forall fuel G ms n body fin fout h,
  find_into ms n = Some body -> body <> [SStar] ->
  exec_into (S fuel) G ms n (VStruct fin) (VStruct fout) h =
  (let! (fout', h') := exec_body (exec_into fuel G ms) G ms n fin body fout h in Ok (VStruct fout', h')).
Proof.
  intros fuel G ms n body fin fout h Hf Hb. cbn [exec_into]. rewrite Hf.
  destruct body as [|s [|s2 r]]; try reflexivity; destruct s; try reflexivity. exfalso. apply Hb. reflexivity.
Qed.

(* ---- one field ---- *)

Definition rec_spec (G : pkg) (ms : list method) (rec : bytes -> value -> value -> heap -> res (value * heap)) (bound : nat) : Prop :=
  forall c args x h,
    wt G h (FNamed c args) x ->
    (exists dc, lookup G c = Some dc /\ (d_kind dc = DScalar \/ exists tp fs, d_kind dc = DStruct tp fs)) ->
    vdepth x < bound -> find_into ms c <> None ->
    exists x' t, rec c x (zero_like x) h = Ok (x', h ++ t) /\
                 snapshot (h ++ t) x' = snapshot h x /\
                 (forall a, In a (locs x') -> List.length h <= a < List.length (h ++ t)).

Lemma set_field_same : forall f v l, get_field f l = Some v -> set_field f v l = l.
Proof.
  intros f v. induction l as [|[g w] l IH]; intros H; [reflexivity|]. cbn in *.
  destruct (bytes_eqb g f) eqn:E; [inversion H; subst; reflexivity|]. f_equal. apply IH. exact H.
Qed.

Lemma kind_of_lookup : forall G n k, kind_of G n = Some k <-> exists d, lookup G n = Some d /\ d_kind d = k.
Proof.
  intros G n k. unfold kind_of. destruct (lookup G n) as [d|]; split.
  - intros H. inversion H. eauto.
  - intros [d' [E H]]. inversion E; subst. reflexivity.
  - discriminate.
  - intros [d' [E _]]. discriminate.
Qed.

Lemma is_map_kind : forall G n d, lookup G n = Some d -> (is_map (lookup G n) = true <-> exists k e, d_kind d = DMap k e).
Proof.
  intros G n d Hl. rewrite Hl. destruct d as [dn dk dt di dh]. cbn. destruct dk; split; intros H; try discriminate; eauto;
    try (destruct H as [k' [e' H]]; discriminate).
Qed.

Lemma is_iface_kind : forall G n d, lookup G n = Some d -> (is_iface (lookup G n) = true <-> d_kind d = DIface).
Proof.
  intros G n d Hl. rewrite Hl. destruct d as [dn dk dt di dh]. cbn. destruct dk; split; intros H; try discriminate; reflexivity.
Qed.

Lemma wt_named_shape : forall G h c args x dc,
  wt G h (FNamed c args) x -> lookup G c = Some dc ->
  match d_kind dc with
  | DScalar => exists n, x = VScalar n
  | DMap _ _ => exists l, x = VMap l /\ cell_is_map h l
  | DIface => exists i, x = VIface i
  | DStruct tp fields => exists fs, x = VStruct fs /\ wt_fields G h fields fs
  end.
Proof.
  intros G h c args x dc Hw Hl. destruct x as [n|l|l|i|fs].
  - cbn [wt] in Hw. unfold kind_of in Hw. rewrite Hl in Hw. inversion Hw as [Hk]. rewrite Hk. eauto.
  - cbn [wt] in Hw. contradiction.
  - cbn [wt] in Hw. unfold kind_of in Hw. rewrite Hl in Hw. destruct Hw as [[k [e Hk]] Hc].
    inversion Hk as [Hk']. rewrite Hk'. eauto.
  - cbn [wt] in Hw. unfold kind_of in Hw. rewrite Hl in Hw. inversion Hw as [Hk]. rewrite Hk. eauto.
  - apply wt_struct in Hw. destruct Hw as [tp [fields [Hk Hw]]]. unfold kind_of in Hk. rewrite Hl in Hk.
    inversion Hk as [Hk']. rewrite Hk'. eauto.
Qed.

Section Field.
  Variables (G : pkg) (ms : list method) (rec : bytes -> value -> value -> heap -> res (value * heap)) (bound : nat).
  Hypothesis Hdom : dom G.
  Hypothesis Hrec : rec_spec G ms rec bound.

  Lemma alloc_spec : forall (h : heap) c,
    nth_error (h ++ [c]) (List.length h) = Some c /\ List.length (h ++ [c]) = S (List.length h).
  Proof.
    intros h c. split.
    - rewrite nth_error_app2 by lia. replace (List.length h - List.length h) with 0 by lia. reflexivity.
    - rewrite app_length. cbn. lia.
  Qed.

  Lemma field_step : forall n h0 t0 f ft x s dep fin fout,
    wt G h0 ft x ->
    field_stmt all_fixed G [] f ft = Ok (s, dep) ->
    get_field f fin = Some x -> get_field f fout = Some (zero_like x) ->
    field_type G n f = Some ft ->
    (forall ms', ft = FForeign ms' -> s = SAssign f) ->
    (forall c args, ft = FNamed c args ->
       lookup G c <> None /\
       (is_map (lookup G c) = true -> has_map_methods ms c = true) /\
       (forall dc, lookup G c = Some dc ->
          (d_kind dc = DScalar \/ exists tp' fs', d_kind dc = DStruct tp' fs') -> find_into ms c <> None)) ->
    vdepth x < bound ->
    exists x' t1,
      exec_stmt rec G ms n fin s fout (h0 ++ t0) = Ok (set_field f x' fout, (h0 ++ t0) ++ t1) /\
      snapshot ((h0 ++ t0) ++ t1) x' = snapshot h0 x /\
      (forall a, In a (locs x') -> List.length (h0 ++ t0) <= a < List.length ((h0 ++ t0) ++ t1)).
  Proof.
    intros n h0 t0 f ft x s dep fin fout Hw Hs Hgi Hgo Hft Hfor Hnamed Hd.
    pose proof (wt_valid _ _ _ _ Hw) as Hval.
    (* the three recurring shapes *)
    assert (locs x = [] -> s = SAssign f -> exists x' t1,
              exec_stmt rec G ms n fin s fout (h0 ++ t0) = Ok (set_field f x' fout, (h0 ++ t0) ++ t1) /\
              snapshot ((h0 ++ t0) ++ t1) x' = snapshot h0 x /\
              (forall a, In a (locs x') -> List.length (h0 ++ t0) <= a < List.length ((h0 ++ t0) ++ t1))) as Hassign.
    { intros Hl ->. exists x, []. rewrite app_nil_r. cbn [exec_stmt]. rewrite Hgi.
      split; [reflexivity|]. split; [apply snapshot_ext; exact Hval|]. rewrite Hl. intros a []. }
    assert (forall l es, x = VSlice (Some l) -> nth_error h0 l = Some (CSlice es) ->
              exists x' t1,
              (let! (v, h') := copy_slice_cell (h0 ++ t0) (Some l) in Ok (set_field f v fout, h')) =
                 Ok (set_field f x' fout, (h0 ++ t0) ++ t1) /\
              snapshot ((h0 ++ t0) ++ t1) x' = snapshot h0 x /\
              (forall a, In a (locs x') -> List.length (h0 ++ t0) <= a < List.length ((h0 ++ t0) ++ t1))) as Hslice.
    { intros l es -> Hc. exists (VSlice (Some (List.length (h0 ++ t0)))), [CSlice es].
      cbn [copy_slice_cell]. rewrite (nth_error_ext _ t0 _ _ Hc). cbn [alloc bind].
      destruct (alloc_spec (h0 ++ t0) (CSlice es)) as [Hn Hlen].
      split; [reflexivity|]. split.
      - cbn [snapshot]. rewrite Hn, Hc. reflexivity.
      - cbn [locs]. intros a [<-|[]]. rewrite Hlen. lia. }
    assert (forall l es, x = VMap (Some l) -> nth_error h0 l = Some (CMap es) ->
              exists x' t1,
              (let! (v, h') := copy_map_cell (h0 ++ t0) (Some l) in Ok (set_field f v fout, h')) =
                 Ok (set_field f x' fout, (h0 ++ t0) ++ t1) /\
              snapshot ((h0 ++ t0) ++ t1) x' = snapshot h0 x /\
              (forall a, In a (locs x') -> List.length (h0 ++ t0) <= a < List.length ((h0 ++ t0) ++ t1))) as Hmap.
    { intros l es -> Hc. exists (VMap (Some (List.length (h0 ++ t0)))), [CMap es].
      cbn [copy_map_cell]. rewrite (nth_error_ext _ t0 _ _ Hc). cbn [alloc bind].
      destruct (alloc_spec (h0 ++ t0) (CMap es)) as [Hn Hlen].
      split; [reflexivity|]. split.
      - cbn [snapshot]. rewrite Hn, Hc. reflexivity.
      - cbn [locs]. intros a [<-|[]]. rewrite Hlen. lia. }
    assert (x = VSlice None \/ x = VMap None -> exists x' t1,
              Ok (fout, h0 ++ t0) = Ok (set_field f x' fout, (h0 ++ t0) ++ t1) /\
              snapshot ((h0 ++ t0) ++ t1) x' = snapshot h0 x /\
              (forall a, In a (locs x') -> List.length (h0 ++ t0) <= a < List.length ((h0 ++ t0) ++ t1))) as Hnil.
    { intros Hx. exists x, []. rewrite app_nil_r.
      assert (zero_like x = x /\ locs x = []) as [Hz Hl] by (destruct Hx as [-> | ->]; split; reflexivity).
      rewrite Hz in Hgo. rewrite (set_field_same _ _ _ Hgo).
      split; [reflexivity|]. split; [apply snapshot_ext; exact Hval|]. rewrite Hl. intros a []. }
    destruct ft as [bn|e|k e|c args| | |tn|fms].
    - (* basic *) inversion Hs; subst. apply Hassign; [|reflexivity]. destruct x; cbn in Hw; try contradiction; reflexivity.
    - (* slice *) inversion Hs; subst. destruct x as [?|l|?|?|?]; cbn in Hw; try contradiction.
      cbn [exec_stmt]. rewrite Hgi. destruct l as [a|]; [|apply Hnil; auto].
      destruct Hw as [es He]. eapply Hslice; [reflexivity|exact He].
    - (* map *) inversion Hs; subst. destruct x as [?|?|l|?|?]; cbn in Hw; try contradiction.
      cbn [exec_stmt]. rewrite Hgi. destruct l as [a|]; [|apply Hnil; auto].
      destruct Hw as [es He]. eapply Hmap; [reflexivity|exact He].
    - (* same-package named type *)
      destruct (Hnamed c args eq_refl) as [Hres [Hmm Hfi]].
      destruct (lookup G c) as [dc|] eqn:Hlc; [|contradiction]. clear Hres.
      cbn [field_stmt all_fixed fx_iface fx_mapptr andb] in Hs. rewrite Hlc in Hs.
      destruct (is_iface (Some dc)) eqn:Hif.
      + inversion Hs; subst. apply Hassign; [|reflexivity].
        pose proof (proj1 (is_iface_kind G c dc Hlc)) as Hk. rewrite Hlc in Hk. specialize (Hk Hif).
        pose proof (wt_named_shape _ _ _ _ _ _ Hw Hlc) as Hsh. rewrite Hk in Hsh. destruct Hsh as [i ->]. reflexivity.
      + cbn [hand_of] in Hs. unfold sigs_of in Hs. cbn [flat_map] in Hs. rewrite app_nil_r in Hs.
        destruct Hdom as [Hhand _]. pose proof (Hhand c dc Hlc) as Hp.
        destruct (scan (d_hand dc)) as [[a b] ptr]. cbn [snd] in Hp. subst ptr.
        destruct (is_map (Some dc)) eqn:Him.
        * (* map type: out.F = in.F.DeepCopy() *)
          inversion Hs; subst. cbn [choose andb negb].
          pose proof (proj1 (is_map_kind G c dc Hlc)) as Hk. rewrite Hlc in Hk. destruct (Hk Him) as [kk [ee Hkd]].
          pose proof (wt_named_shape _ _ _ _ _ _ Hw Hlc) as Hsh. rewrite Hkd in Hsh. destruct Hsh as [l [-> Hc]].
          cbn [exec_stmt]. rewrite Hft, Hgi. rewrite (Hmm eq_refl).
          destruct l as [a0|].
          -- destruct Hc as [es He]. eapply Hmap; [reflexivity|exact He].
          -- cbn [copy_map_cell bind]. exists (VMap None), []. rewrite app_nil_r.
             split; [reflexivity|]. split; [reflexivity|]. intros a0 [].
        * (* struct or scalar type: in.F.DeepCopyInto(&out.F) *)
          inversion Hs; subst. cbn [choose andb negb].
          cbn [exec_stmt]. rewrite Hft, Hgi, Hgo.
          assert (d_kind dc = DScalar \/ exists tp' fs', d_kind dc = DStruct tp' fs') as Hkd.
          { destruct dc as [dn dk dt di dh]. cbn in *. destruct dk; try discriminate; eauto. }
          destruct (Hrec c args x (h0 ++ t0)) as [x' [t1 [Hex [Hsn Hlo]]]].
          -- apply wt_ext. exact Hw.
          -- exists dc. auto.
          -- exact Hd.
          -- apply (Hfi dc eq_refl Hkd).
          -- exists x', t1. rewrite Hex. cbn [bind]. split; [reflexivity|]. split; [|exact Hlo].
             rewrite Hsn. apply snapshot_ext. exact Hval.
    - (* error *) rewrite field_stmt_fixed_error in Hs. inversion Hs; subst. apply Hassign; [|reflexivity]. destruct x; cbn in Hw; try contradiction; reflexivity.
    - (* any / interface literal *) inversion Hs; subst. apply Hassign; [|reflexivity]. destruct x; cbn in Hw; try contradiction; reflexivity.
    - (* type parameter *) inversion Hs; subst. apply Hassign; [|reflexivity]. destruct x; cbn in Hw; try contradiction; reflexivity.
    - (* named type of another package *)
      apply Hassign; [|eapply Hfor; reflexivity]. destruct x; cbn in Hw; try contradiction; reflexivity.
  Qed.
End Field.

(* ---- the statements of one body, field by field ---- *)

Lemma map_fst_zero_fields : forall fs, map fst (zero_fields fs) = map fst fs.
Proof. induction fs as [|[f x] r IH]; cbn; [reflexivity|]. rewrite IH. reflexivity. Qed.

Section Body.
  Variables (G : pkg) (ms : list method) (rec : bytes -> value -> value -> heap -> res (value * heap)) (bound : nat).
  Hypothesis Hdom : dom G.
  Hypothesis Hrec : rec_spec G ms rec bound.

  Lemma exec_body_spec : forall n h0 suf pre_names fin_pre out_pre fin_suf body deps t0,
    fields_copy all_fixed G [] suf = Ok (body, deps) ->
    wt_fields G h0 suf fin_suf ->
    NoDup (pre_names ++ map fst suf) ->
    map fst fin_pre = pre_names -> map fst out_pre = pre_names ->
    (forall f ft, In (f, ft) suf -> field_type G n f = Some ft) ->
    (forall f fms, In (f, FForeign fms) suf -> field_stmt all_fixed G [] f (FForeign fms) = Ok (SAssign f, None)) ->
    (forall f c args, In (f, FNamed c args) suf ->
       lookup G c <> None /\
       (is_map (lookup G c) = true -> has_map_methods ms c = true) /\
       (forall dc, lookup G c = Some dc ->
          (d_kind dc = DScalar \/ exists tp' fs', d_kind dc = DStruct tp' fs') -> find_into ms c <> None)) ->
    depth_fields fin_suf < bound ->
    exists out_suf t1,
      exec_body rec G ms n (fin_pre ++ fin_suf) body (out_pre ++ zero_fields fin_suf) (h0 ++ t0)
        = Ok (out_pre ++ out_suf, (h0 ++ t0) ++ t1) /\
      map fst out_suf = map fst suf /\
      snap_fields ((h0 ++ t0) ++ t1) out_suf = snap_fields h0 fin_suf /\
      (forall a, In a (locs_fields out_suf) -> List.length (h0 ++ t0) <= a < List.length ((h0 ++ t0) ++ t1)).
  Proof.
    intros n h0. induction suf as [|[f ft] suf IH];
      intros pre_names fin_pre out_pre fin_suf body deps t0 Hfc Hwt Hnd Hfp Hop Hty Hfor Hnamed Hdep.
    - destruct fin_suf; [|destruct Hwt]. cbn [fields_copy] in Hfc. inversion Hfc; subst.
      exists [], []. cbn [exec_body zero_fields]. rewrite !app_nil_r. split; [reflexivity|]. split; [reflexivity|]. split; [reflexivity|]. intros a [].
    - destruct fin_suf as [|[g x] fin_suf]; [destruct Hwt|]. destruct Hwt as [<- [Hwx Hwr]].
      cbn [fields_copy] in Hfc. apply bind_ok in Hfc. destruct Hfc as [[s dep] [Hs Hfc]].
      apply bind_ok in Hfc. destruct Hfc as [[ss deps'] [Hss Hfc]]. inversion Hfc; subst body deps. clear Hfc.
      cbn [map] in Hnd.
      assert (~ In f pre_names) as Hnotin.
      { intros Hin. apply NoDup_remove_2 in Hnd. apply Hnd. apply in_or_app. left. exact Hin. }
      cbn [depth_fields] in Hdep.
      destruct (field_step G ms rec bound Hdom Hrec n h0 t0 f ft x s dep
                  (fin_pre ++ (f, x) :: fin_suf) (out_pre ++ zero_fields ((f, x) :: fin_suf))) as [x' [t1 [Hex [Hsn Hlo]]]].
      + exact Hwx.
      + exact Hs.
      + rewrite get_field_app_notin by (rewrite Hfp; exact Hnotin). apply get_field_head.
      + rewrite get_field_app_notin by (rewrite Hop; exact Hnotin). cbn [zero_fields]. apply get_field_head.
      + apply Hty. left. reflexivity.
      + intros fms ->. pose proof (Hfor f fms (or_introl eq_refl)) as Hf. rewrite Hf in Hs. inversion Hs. reflexivity.
      + intros c args ->. eapply Hnamed. left. reflexivity.
      + lia.
      + cbn [exec_body]. rewrite Hex. cbn [bind].
        cbn [zero_fields]. rewrite set_field_app_notin by (rewrite Hop; exact Hnotin). rewrite set_field_head.
        replace (out_pre ++ (f, x') :: zero_fields fin_suf) with ((out_pre ++ [(f, x')]) ++ zero_fields fin_suf)
          by (rewrite <- app_assoc; reflexivity).
        replace (fin_pre ++ (f, x) :: fin_suf) with ((fin_pre ++ [(f, x)]) ++ fin_suf)
          by (rewrite <- app_assoc; reflexivity).
        rewrite <- (app_assoc h0 t0 t1).
        destruct (IH (pre_names ++ [f]) (fin_pre ++ [(f, x)]) (out_pre ++ [(f, x')]) fin_suf ss deps' (t0 ++ t1))
          as [out_suf [t2 [Hex2 [Hnm [Hsn2 Hlo2]]]]].
        * exact Hss.
        * exact Hwr.
        * rewrite <- app_assoc. cbn [app]. exact Hnd.
        * rewrite map_app. cbn. rewrite Hfp. reflexivity.
        * rewrite map_app. cbn. rewrite Hop. reflexivity.
        * intros f0 ft0 Hin. apply Hty. right. exact Hin.
        * intros f0 fms Hin. apply Hfor. right. exact Hin.
        * intros f0 c args Hin. eapply Hnamed. right. exact Hin.
        * lia.
        * exists ((f, x') :: out_suf), (t1 ++ t2). rewrite Hex2.
          rewrite <- !app_assoc. cbn [app]. split; [rewrite !app_assoc; reflexivity|].
          split; [cbn [map fst]; rewrite Hnm; reflexivity|]. split.
          -- cbn [snap_fields]. f_equal.
             ++ f_equal. rewrite (app_assoc h0 t0 (t1 ++ t2)). rewrite (app_assoc (h0 ++ t0) t1 t2).
                rewrite snapshot_ext; [exact Hsn|]. intros a Ha. apply Hlo in Ha. lia.
             ++ rewrite <- Hsn2. rewrite <- !app_assoc. reflexivity.
          -- cbn [locs_fields]. intros a Ha. apply in_app_or in Ha.
             rewrite (app_assoc h0 t0 (t1 ++ t2)). rewrite (app_assoc (h0 ++ t0) t1 t2).
             rewrite !app_length in *. destruct Ha as [Ha|Ha].
             ++ apply Hlo in Ha. lia.
             ++ apply Hlo2 in Ha. lia.
  Qed.
End Body.

(* ---- DeepCopyInto of a whole value ---- *)

Lemma depth_fields_lt : forall fs, depth_fields fs < vdepth (VStruct fs).
Proof. intros fs. rewrite vdepth_struct. lia. Qed.

Lemma exec_into_spec : forall G ms, dom G -> callees_ok G ms ->
  forall fuel, rec_spec G ms (exec_into fuel G ms) fuel.
Proof.
  intros G ms Hdom Hcal. induction fuel as [|fuel IH]; intros c args x h Hw [dc [Hlc Hkd]] Hd Hfi; [lia|].
  destruct (find_into ms c) as [body|] eqn:Hfind; [|contradiction]. clear Hfi.
  destruct (Hcal c body Hfind) as [d [Hl Hcase]]. rewrite Hlc in Hl. inversion Hl; subst d. clear Hl.
  pose proof (wt_named_shape _ _ _ _ _ _ Hw Hlc) as Hsh.
  destruct Hcase as [[Hk ->]|[tp [fs [deps [Hk [Hfc Hcallee]]]]]].
  - (* defined scalar type: *out = *in *)
    rewrite Hk in Hsh. destruct Hsh as [n ->]. exists (VScalar n), []. rewrite app_nil_r.
    cbn [exec_into]. rewrite Hfind. split; [reflexivity|]. split; [reflexivity|]. intros a [].
  - rewrite Hk in Hsh. destruct Hsh as [fin [-> Hwf]]. rewrite zero_struct.
    rewrite (exec_into_struct fuel G ms c body fin (zero_fields fin) h Hfind (fields_copy_not_star _ _ _ _ _ Hfc)).
    destruct Hdom as [Hhand Hstruct]. destruct (Hstruct c dc tp fs Hlc Hk) as [Hnd [Hres Hforeign]].
    destruct (exec_body_spec G ms (exec_into fuel G ms) fuel (conj Hhand Hstruct) IH c h fs [] [] [] fin body deps [])
      as [out [t1 [Hex [Hnm [Hsn Hlo]]]]].
    + exact Hfc.
    + exact Hwf.
    + cbn [app]. exact Hnd.
    + reflexivity.
    + reflexivity.
    + intros f ft Hin. rewrite (field_type_assoc G c dc tp fs f Hlc Hk). apply assoc_fty_in; assumption.
    + exact Hforeign.
    + intros f c0 args0 Hin. split; [eapply Hres; exact Hin|]. eapply Hcallee. exact Hin.
    + pose proof (depth_fields_lt fin). lia.
    + cbn [app] in Hex. rewrite app_nil_r in Hex, Hsn, Hlo. rewrite Hex. cbn [bind].
      exists (VStruct out), t1. split; [reflexivity|]. split.
      * rewrite !snapshot_struct. rewrite Hsn. reflexivity.
      * rewrite locs_struct. exact Hlo.
Qed.

(* ---- DeepCopy ---- *)

(* [deep_copy] / [deep_copy_map] (Model/DeepCopy.v) execute the statements of the declared DeepCopy method, the receiver
   possibly nil.  On a non-nil receiver they are [exec_copy] / [exec_copy_map]; on nil the guard statement returns nil. *)
Lemma find_ptr_copy_has : forall ms n,
  find_ptr_copy ms n = if has_ptr_copy ms n then Some [CNilGuard; CNew; CCallInto; CReturnOut] else None.
Proof.
  induction ms as [|m ms IH]; intros n; [reflexivity|].
  destruct m; cbn [find_ptr_copy has_ptr_copy]; try apply IH.
  destruct (bytes_eqb t n); [reflexivity|]. cbn [orb]. apply IH.
Qed.

Lemma find_map_copy_has : forall ms n,
  find_map_copy ms n =
  if existsb (fun m => match m with MMapCopy t => bytes_eqb t n | _ => false end) ms
  then Some [CNilGuard; CMake; CCallInto; CReturnOut] else None.
Proof.
  induction ms as [|m ms IH]; intros n; [reflexivity|].
  destruct m; cbn [find_map_copy existsb orb]; try apply IH.
  destruct (bytes_eqb t n); [reflexivity|]. cbn [orb]. apply IH.
Qed.

Lemma deep_copy_some : forall fuel G ms n v h,
  deep_copy fuel G ms n (Some v) h = let! (v', h') := exec_copy fuel G ms n v h in Ok (Some v', h').
Proof.
  intros fuel G ms n v h. unfold deep_copy, exec_copy. rewrite find_ptr_copy_has.
  destruct (has_ptr_copy ms n); [|reflexivity]. cbn [run_ptr_copy].
  destruct (exec_into fuel G ms n v (zero_like v) h) as [[v' h']| |]; reflexivity.
Qed.

Lemma deep_copy_nil : forall fuel G ms n h,
  has_ptr_copy ms n = true -> deep_copy fuel G ms n None h = Ok (None, h).
Proof. intros fuel G ms n h H. unfold deep_copy. rewrite find_ptr_copy_has, H. reflexivity. Qed.

(* the guard is what makes it so: the same body without its first statement does not return nil on a nil receiver
   (whatever DeepCopyInto does), and a type without a declared DeepCopy method has no result at all *)
Lemma nil_guard_needed : forall into h r,
  run_ptr_copy into None [CNew; CCallInto; CReturnOut] OUndeclared h <> Ok r /\
  run_ptr_copy into None [CNew; CReturnOut] OUndeclared h <> Ok (None, h).
Proof. intros into h r. split; cbn; discriminate. Qed.

Lemma deep_copy_undeclared : forall fuel G ms n p h, has_ptr_copy ms n = false -> deep_copy fuel G ms n p h = Panic.
Proof. intros fuel G ms n p h H. unfold deep_copy. rewrite find_ptr_copy_has, H. reflexivity. Qed.

Lemma write_last : forall (h : heap) c c', write (h ++ [c]) (List.length h) c' = h ++ [c'].
Proof. induction h as [|x h IH]; intros c c'; [reflexivity|]. cbn. rewrite IH. reflexivity. Qed.

Lemma deep_copy_map_is_exec_copy_map : forall ms n l h,
  has_map_methods ms n = true -> cell_is_map h l ->
  deep_copy_map ms n (VMap l) h = exec_copy_map ms n (VMap l) h.
Proof.
  intros ms n l h Hm Hc. unfold deep_copy_map, exec_copy_map. rewrite Hm.
  unfold has_map_methods in Hm. apply Bool.andb_true_iff in Hm. destruct Hm as [H1 H2].
  rewrite find_map_copy_has, H1. unfold has_map_into. rewrite H2.
  destruct l as [a|]; [|reflexivity]. destruct Hc as [es He].
  cbn [run_map_copy alloc copy_map_cell]. rewrite (nth_error_ext h [CMap []] a _ He), He.
  rewrite write_last. reflexivity.
Qed.

Lemma deep_copy_map_nil_guard : forall ms n h,
  has_map_methods ms n = true -> deep_copy_map ms n (VMap None) h = Ok (VMap None, h).
Proof.
  intros ms n h Hm. unfold deep_copy_map.
  unfold has_map_methods in Hm. apply Bool.andb_true_iff in Hm. destruct Hm as [H1 H2].
  rewrite find_map_copy_has, H1. reflexivity.
Qed.

(* without the guard: make + an empty range returns a non-nil empty map *)
Lemma map_nil_guard_needed : forall h,
  run_map_copy true None [CMake; CCallInto; CReturnOut] None h = Ok (VMap (Some (List.length h)), h ++ [CMap []]).
Proof. reflexivity. Qed.

Lemma deep_copy_map_nil : forall ms n h,
  has_map_methods ms n = true -> exec_copy_map ms n (VMap None) h = Ok (VMap None, h).
Proof. intros ms n h H. cbn. rewrite H. reflexivity. Qed.

Lemma exec_copy_spec : forall G ms, dom G -> callees_ok G ms ->
  forall n args v h dc,
    wt G h (FNamed n args) v ->
    lookup G n = Some dc -> (d_kind dc = DScalar \/ exists tp fs, d_kind dc = DStruct tp fs) ->
    has_ptr_copy ms n = true -> find_into ms n <> None ->
    forall fuel, vdepth v < fuel ->
    exists v' t, exec_copy fuel G ms n v h = Ok (v', h ++ t) /\
                 snapshot (h ++ t) v' = snapshot h v /\
                 (forall a, In a (locs v') -> List.length h <= a < List.length (h ++ t)).
Proof.
  intros G ms Hdom Hcal n args v h dc Hw Hl Hk Hpc Hfi fuel Hd. unfold exec_copy. rewrite Hpc.
  eapply (exec_into_spec G ms Hdom Hcal fuel); eauto.
Qed.

Lemma exec_copy_map_spec : forall G ms n args v h k e dc,
  wt G h (FNamed n args) v -> lookup G n = Some dc -> d_kind dc = DMap k e ->
  has_map_methods ms n = true ->
  exists v' t, exec_copy_map ms n v h = Ok (v', h ++ t) /\
               snapshot (h ++ t) v' = snapshot h v /\
               (forall a, In a (locs v') -> List.length h <= a < List.length (h ++ t)).
Proof.
  intros G ms n args v h k e dc Hw Hl Hk Hm.
  pose proof (wt_named_shape _ _ _ _ _ _ Hw Hl) as Hsh. rewrite Hk in Hsh. destruct Hsh as [l [-> Hc]].
  unfold exec_copy_map. rewrite Hm. destruct l as [a|].
  - destruct Hc as [es He]. cbn [copy_map_cell]. rewrite He. cbn [alloc].
    exists (VMap (Some (List.length h))), [CMap es]. split; [reflexivity|].
    destruct (alloc_spec h (CMap es)) as [Hn Hlen]. split.
    + cbn [snapshot]. rewrite Hn, He. reflexivity.
    + cbn [locs]. intros a0 [<-|[]]. rewrite Hlen. lia.
  - exists (VMap None), []. rewrite app_nil_r. split; [reflexivity|]. split; [reflexivity|]. intros a [].
Qed.

(* ---- no sharing: a write through any container of the copy leaves the original as it was ---- *)

Lemma nth_error_write_other : forall h a c b, a <> b -> nth_error (write h a c) b = nth_error h b.
Proof.
  induction h as [|x h IH]; intros a c b Hne; [destruct a; reflexivity|].
  destruct a as [|a]; destruct b as [|b]; cbn; try reflexivity; try congruence.
  apply IH. congruence.
Qed.

Lemma snapshot_write_other : forall h a c v, ~ In a (locs v) -> snapshot (write h a c) v = snapshot h v.
Proof.
  intros h a c v. induction v as [n|l|l|i|fs IH] using value_ind'; intros Hn; try reflexivity.
  - destruct l as [b|]; [|reflexivity]. cbn [snapshot]. rewrite nth_error_write_other; [reflexivity|].
    intros E. apply Hn. cbn. auto.
  - destruct l as [b|]; [|reflexivity]. cbn [snapshot]. rewrite nth_error_write_other; [reflexivity|].
    intros E. apply Hn. cbn. auto.
  - rewrite !snapshot_struct. f_equal. rewrite locs_struct in Hn.
    induction fs as [|[f x] r IHr]; [reflexivity|]. cbn [snap_fields]. inversion IH; subst.
    cbn [locs_fields] in Hn. f_equal.
    + f_equal. apply H1. intros Ha. apply Hn. apply in_or_app. auto.
    + apply IHr; [assumption|]. intros Ha. apply Hn. apply in_or_app. auto.
Qed.

Lemma no_sharing : forall h t v v' a c,
  valid h v ->
  (forall b, In b (locs v') -> List.length h <= b < List.length (h ++ t)) ->
  In a (locs v') ->
  snapshot (write (h ++ t) a c) v = snapshot h v.
Proof.
  intros h t v v' a c Hval Hfresh Ha. rewrite snapshot_write_other.
  - apply snapshot_ext. exact Hval.
  - intros Hin. apply Hval in Hin. apply Hfresh in Ha. lia.
Qed.

(* ------------------------------------------------------------------------------------------ *)
(* the file written by the repaired generator is well-formed: every call resolves             *)
(* ------------------------------------------------------------------------------------------ *)

Definition obj_of (d : decl) (tp : list bytes) (ptr : bool) : list method :=
  match d_ifaces d with Some i => [MObject (d_name d) tp i ptr] | None => [] end.

Lemma emit_cases : forall G n d, lookup G n = Some d ->
  match d_kind d with
  | DStruct tp fs => exists body deps, fields_copy all_fixed G [] fs = Ok (body, deps) /\
                       emit G n = obj_of d tp true ++ [MPtrCopy n tp; MPtrInto n tp body] /\
                       deps_of G n = map (fun k : key => (fst k, [])) deps
  | DScalar => emit G n = obj_of d [] true ++ [MPtrCopy n []; MPtrInto n [] [SStar]] /\ deps_of G n = []
  | DMap _ _ => emit G n = obj_of d [] false ++ [MMapCopy n; MMapInto n] /\ deps_of G n = []
  | DIface => emit G n = [] /\ deps_of G n = []
  end.
Proof.
  intros G n d Hl. pose proof (lookup_name _ _ _ Hl) as Hn. unfold emit, deps_of. rewrite Hl. unfold render, obj_of. rewrite Hn.
  destruct (d_kind d) as [tp fs|k e| |]; cbn [fx_objrecv all_fixed negb fx_origin]; auto.
  destruct (fields_copy_fixed_ok G [] fs) as [body [deps Hf]]. rewrite Hf. cbn [bind]. eauto.
Qed.

Lemma find_into_app : forall a b n,
  find_into (a ++ b) n = match find_into a n with Some x => Some x | None => find_into b n end.
Proof.
  induction a as [|m a IH]; intros b n; [reflexivity|]. cbn [app find_into].
  destruct m; try apply IH. destruct (bytes_eqb t n); [reflexivity|apply IH].
Qed.

Lemma find_into_obj : forall d tp p n, find_into (obj_of d tp p) n = None.
Proof. intros. unfold obj_of. destruct (d_ifaces d); reflexivity. Qed.

Lemma find_into_emit : forall G m n b, find_into (emit G m) n = Some b ->
  m = n /\ exists d, lookup G n = Some d /\
    ((d_kind d = DScalar /\ b = [SStar]) \/
     (exists tp fs deps, d_kind d = DStruct tp fs /\ fields_copy all_fixed G [] fs = Ok (b, deps) /\
        deps_of G n = map (fun k : key => (fst k, [])) deps)).
Proof.
  intros G m n b H. destruct (lookup G m) as [d|] eqn:Hl.
  2:{ unfold emit in H. rewrite Hl in H. discriminate. }
  pose proof (emit_cases G m d Hl) as Hc. destruct (d_kind d) as [tp fs|k e| |] eqn:Hk.
  - destruct Hc as [body [deps [Hf [He Hd]]]]. rewrite He in H. rewrite find_into_app, find_into_obj in H.
    cbn [find_into] in H. destruct (bytes_eqb m n) eqn:E; [|discriminate]. apply bytes_eqb_spec in E. subst m.
    inversion H; subst. split; [reflexivity|]. exists d. split; [exact Hl|]. right. exists tp, fs, deps. auto.
  - destruct Hc as [He _]. rewrite He in H. rewrite find_into_app, find_into_obj in H. discriminate.
  - destruct Hc as [He _]. rewrite He in H. rewrite find_into_app, find_into_obj in H.
    cbn [find_into] in H. destruct (bytes_eqb m n) eqn:E; [|discriminate]. apply bytes_eqb_spec in E. subst m.
    inversion H; subst. split; [reflexivity|]. exists d. split; [exact Hl|]. left. auto.
  - destruct Hc as [He _]. rewrite He in H. discriminate.
Qed.

Lemma find_into_flat_map : forall G E n b,
  find_into (flat_map (emit G) E) n = Some b -> In n E /\ find_into (emit G n) n = Some b.
Proof.
  intros G. induction E as [|m E IH]; intros n b H; [discriminate|]. cbn [flat_map] in H.
  rewrite find_into_app in H. destruct (find_into (emit G m) n) as [x|] eqn:Hm.
  - inversion H; subst. destruct (find_into_emit _ _ _ _ Hm) as [-> _]. split; [left; reflexivity|exact Hm].
  - destruct (IH _ _ H) as [Hin Hf]. split; [right; exact Hin|exact Hf].
Qed.

Lemma find_into_flat_map_in : forall G E n b,
  In n E -> find_into (emit G n) n = Some b -> find_into (flat_map (emit G) E) n = Some b.
Proof.
  intros G. induction E as [|m E IH]; intros n b Hin Hf; [destruct Hin|]. cbn [flat_map]. rewrite find_into_app.
  destruct (find_into (emit G m) n) as [x|] eqn:Hm.
  - destruct (find_into_emit _ _ _ _ Hm) as [-> _]. rewrite Hm in Hf. exact Hf.
  - destruct Hin as [->|Hin]; [congruence|]. apply IH; assumption.
Qed.

Lemma has_ptr_copy_app : forall a b n, has_ptr_copy (a ++ b) n = has_ptr_copy a n || has_ptr_copy b n.
Proof.
  induction a as [|m a IH]; intros b n; [reflexivity|]. cbn [app has_ptr_copy].
  destruct m; try apply IH. rewrite IH. rewrite orb_assoc. reflexivity.
Qed.

Lemma has_ptr_copy_flat_map_in : forall G E n,
  In n E -> has_ptr_copy (emit G n) n = true -> has_ptr_copy (flat_map (emit G) E) n = true.
Proof.
  intros G. induction E as [|m E IH]; intros n Hin Hf; [destruct Hin|]. cbn [flat_map]. rewrite has_ptr_copy_app.
  destruct Hin as [->|Hin]; [rewrite Hf; reflexivity|]. rewrite (IH _ Hin Hf). apply orb_true_r.
Qed.

Lemma has_map_methods_flat_map_in : forall G E n,
  In n E -> has_map_methods (emit G n) n = true -> has_map_methods (flat_map (emit G) E) n = true.
Proof.
  intros G E n Hin H. unfold has_map_methods in *. apply andb_true_iff in H. destruct H as [H1 H2].
  apply andb_true_iff. split; apply existsb_exists.
  - apply existsb_exists in H1. destruct H1 as [m [Hm Hp]]. exists m. split; [|exact Hp].
    apply in_flat_map. exists n. auto.
  - apply existsb_exists in H2. destruct H2 as [m [Hm Hp]]. exists m. split; [|exact Hp].
    apply in_flat_map. exists n. auto.
Qed.

Lemma has_ptr_copy_obj : forall d tp p n, has_ptr_copy (obj_of d tp p) n = false.
Proof. intros. unfold obj_of. destruct (d_ifaces d); reflexivity. Qed.

Lemma emitted_in : forall G P n,
  (forall k, In k P -> snd k = []) ->
  (In n (emitted G P) <-> In (n, []) P /\ emits G (n, []) = true).
Proof.
  intros G P n Hs. unfold emitted. rewrite <- in_rev. rewrite in_map_iff. split.
  - intros [k [Hf Hin]]. apply filter_In in Hin. destruct Hin as [Hin He].
    pose proof (Hs _ Hin) as Hk. destruct k as [k1 k2]. cbn in *. subst. auto.
  - intros [Hin He]. exists (n, []). split; [reflexivity|]. apply filter_In. auto.
Qed.

Lemma fields_copy_deps_complete : forall G vis fs body deps,
  fields_copy all_fixed G vis fs = Ok (body, deps) ->
  forall f c args, In (f, FNamed c args) fs -> is_iface (lookup G c) = false -> In (c, args) deps.
Proof.
  intros G vis. induction fs as [|[g t] fs IH]; intros body deps H f c args Hin Hi; [destruct Hin|].
  cbn [fields_copy] in H. apply bind_ok in H. destruct H as [[s dep] [Hs H]].
  apply bind_ok in H. destruct H as [[ss deps'] [Hr H]]. inversion H; subst. clear H.
  destruct Hin as [E|Hin].
  - inversion E; subst. cbn [field_stmt all_fixed fx_iface fx_mapptr andb] in Hs. rewrite Hi in Hs.
    destruct (scan (hand_of (lookup G c) ++ sigs_of vis c)) as [[a b] p]. inversion Hs; subst. left. reflexivity.
  - specialize (IH _ _ Hr f c args Hin Hi). destruct dep; [right|]; exact IH.
Qed.

(* the generated file as a whole *)
Record well_formed (G : pkg) (order : list bytes) (ms : list method) : Prop := {
  wf_callees : callees_ok G ms;
  wf_roots : forall n d, In n order -> lookup G n = Some d -> enabled G d = true ->
      match d_kind d with
      | DStruct _ _ | DScalar => has_ptr_copy ms n = true /\ find_into ms n <> None
      | DMap _ _ => has_map_methods ms n = true
      | DIface => True
      end;
  wf_once : exists E, NoDup E /\ ms = flat_map (emit G) E;    (* every type contributes its methods once *)
  wf_nodup : NoDup (map method_id ms);                         (* no method is declared twice *)
  wf_object : forall t tp i p, In (MObject t tp i p) ms -> p = negb (is_map (lookup G t))
}.

Lemma map_flat_map : forall {A B C} (f : B -> C) (g : A -> list B) l,
  map f (flat_map g l) = flat_map (fun x => map f (g x)) l.
Proof. intros A B C f g. induction l as [|x l IH]; cbn; [reflexivity|]. rewrite map_app, IH. reflexivity. Qed.

Lemma NoDup_app_intro : forall {A} (l1 l2 : list A),
  NoDup l1 -> NoDup l2 -> (forall x, In x l1 -> ~ In x l2) -> NoDup (l1 ++ l2).
Proof.
  intros A. induction l1 as [|x l1 IH]; intros l2 H1 H2 Hd; [exact H2|]. cbn. inversion H1; subst. constructor.
  - intros Hin. apply in_app_or in Hin. destruct Hin as [Hin|Hin]; [contradiction|]. apply (Hd x); [left; reflexivity|exact Hin].
  - apply IH; [assumption|assumption|]. intros y Hy. apply Hd. right. exact Hy.
Qed.

Lemma NoDup_flat_map : forall {A B} (g : A -> list B) l,
  (forall x, NoDup (g x)) -> (forall x y b, In b (g x) -> In b (g y) -> x = y) -> NoDup l -> NoDup (flat_map g l).
Proof.
  intros A B g. induction l as [|x l IH]; intros Hg Hinj Hl; [constructor|]. cbn. inversion Hl; subst.
  apply NoDup_app_intro; [apply Hg|apply IH; assumption|].
  intros b Hb Hin. apply in_flat_map in Hin. destruct Hin as [y [Hy Hby]].
  assert (x = y) by (eapply Hinj; eassumption). subst y. contradiction.
Qed.

Lemma emit_ids : forall G n, NoDup (map method_id (emit G n)) /\
  (forall b, In b (map method_id (emit G n)) -> exists k, b = Some (n, k)).
Proof.
  intros G n. destruct (lookup G n) as [d|] eqn:Hl.
  2:{ unfold emit. rewrite Hl. split; [constructor|intros b []]. }
  pose proof (emit_cases G n d Hl) as Hc. pose proof (lookup_name _ _ _ Hl) as Hn.
  assert (forall tp p rest, NoDup (map method_id rest) ->
            (forall b, In b (map method_id rest) -> exists k, b = Some (n, S k)) ->
            NoDup (map method_id (obj_of d tp p ++ rest)) /\
            (forall b, In b (map method_id (obj_of d tp p ++ rest)) -> exists k, b = Some (n, k))) as Hobj.
  { intros tp p rest Hnd Hr. unfold obj_of. rewrite Hn. destruct (d_ifaces d) as [ifc|]; cbn [app map method_id].
    - split.
      + constructor; [|exact Hnd]. intros Hin. destruct (Hr _ Hin) as [k Hk]. inversion Hk.
      + intros b [<-|Hin]; [eauto|]. destruct (Hr _ Hin) as [k Hk]. eauto.
    - split; [exact Hnd|]. intros b Hin. destruct (Hr _ Hin) as [k Hk]. eauto. }
  assert (forall m1 m2, method_id m1 = Some (n, 1) -> method_id m2 = Some (n, 2) ->
            NoDup (map method_id [m1; m2]) /\ (forall b, In b (map method_id [m1; m2]) -> exists k, b = Some (n, S k))) as Htwo.
  { intros m1 m2 H1 H2. cbn [map]. rewrite H1, H2. split.
    - constructor; [intros [E|[]]; inversion E|]. constructor; [intros []|constructor].
    - intros b [<-|[<-|[]]]; eauto. }
  destruct (d_kind d) as [tp fs|k e| |].
  - destruct Hc as [body [deps [_ [He _]]]]. rewrite He.
    destruct (Htwo (MPtrCopy n tp) (MPtrInto n tp body) eq_refl eq_refl) as [A B]. apply Hobj; assumption.
  - destruct Hc as [He _]. rewrite He.
    destruct (Htwo (MMapCopy n) (MMapInto n) eq_refl eq_refl) as [A B]. apply Hobj; assumption.
  - destruct Hc as [He _]. rewrite He.
    destruct (Htwo (MPtrCopy n []) (MPtrInto n [] [SStar]) eq_refl eq_refl) as [A B]. apply Hobj; assumption.
  - destruct Hc as [He _]. rewrite He. split; [constructor|intros b []].
Qed.

Lemma emit_object : forall G n t tp i p, In (MObject t tp i p) (emit G n) -> t = n /\ p = negb (is_map (lookup G n)).
Proof.
  intros G n t tp i p Hin. destruct (lookup G n) as [d|] eqn:Hl.
  2:{ unfold emit in Hin. rewrite Hl in Hin. destruct Hin. }
  pose proof (emit_cases G n d Hl) as Hc. pose proof (lookup_name _ _ _ Hl) as Hn.
  assert (forall tp' p' rest, (forall t' tp'' i' p'', ~ In (MObject t' tp'' i' p'') rest) ->
          In (MObject t tp i p) (obj_of d tp' p' ++ rest) -> t = n /\ p = p') as Hobj.
  { intros tp' p' rest Hr H. apply in_app_or in H. destruct H as [H|H]; [|exfalso; eapply Hr; exact H].
    unfold obj_of in H. destruct (d_ifaces d); [|destruct H]. destruct H as [E|[]]. inversion E; subst. auto. }
  destruct d as [dn dk dt di dh]. cbn [d_kind d_name] in *. subst dn.
  destruct dk as [tp' fs|k e| |]; cbn [is_map negb].
  - destruct Hc as [body [deps [_ [He _]]]]. rewrite He in Hin. eapply Hobj; [|exact Hin].
    intros t' tp'' i' p'' [E|[E|[]]]; discriminate.
  - destruct Hc as [He _]. rewrite He in Hin. eapply Hobj; [|exact Hin].
    intros t' tp'' i' p'' [E|[E|[]]]; discriminate.
  - destruct Hc as [He _]. rewrite He in Hin. eapply Hobj; [|exact Hin].
    intros t' tp'' i' p'' [E|[E|[]]]; discriminate.
  - destruct Hc as [He _]. rewrite He in Hin. destruct Hin.
Qed.

Lemma NoDup_map_filter : forall {A B} (f : A -> B) (p : A -> bool) l, NoDup (map f l) -> NoDup (map f (filter p l)).
Proof.
  intros A B f p. induction l as [|x l IH]; intros H; [constructor|]. cbn in *. inversion H; subst.
  destruct (p x); [|apply IH; assumption]. cbn. constructor; [|apply IH; assumption].
  intros Hin. apply H2. apply in_map_iff in Hin. destruct Hin as [y [Hy Hin]]. apply filter_In in Hin.
  apply in_map_iff. exists y. tauto.
Qed.

Lemma gen_well_formed_first : forall G fuel order ms,
  dom G -> gen_deepcopy fuel all_fixed G order [] = Ok ms -> well_formed G order ms.
Proof.
  intros G fuel order ms Hdom H. unfold gen_deepcopy in H. apply bind_ok in H. destruct H as [st [H Hms]].
  inversion Hms; subst ms. clear Hms.
  destruct (gen_all_post G fuel order (mk_gstate [] []) st) as [[Hout [Hsnd Hnd]] [Hclosed [_ Hroots]]].
  { split; [reflexivity|]. split; [intros k []|constructor]. }
  { intros j []. }
  { exact H. }
  set (P := gs_processed st) in *.
  assert (forall n, In n (emitted G P) -> exists d, lookup G n = Some d /\ d_kind d <> DIface /\ In (n, []) P) as HE.
  { intros n Hn. apply (emitted_in G P n Hsnd) in Hn. destruct Hn as [Hin He]. unfold emits in He. cbn [fst] in He.
    destruct (lookup G n) as [d|]; [|discriminate]. exists d. split; [reflexivity|]. split; [|exact Hin].
    intros E. rewrite E in He. discriminate. }
  assert (forall n d, In (n, []) P -> lookup G n = Some d -> d_kind d <> DIface -> In n (emitted G P)) as HE'.
  { intros n d Hin Hl Hk. apply (emitted_in G P n Hsnd). split; [exact Hin|]. unfold emits. cbn [fst]. rewrite Hl.
    destruct (d_kind d); congruence. }
  assert (forall n d, In n (emitted G P) -> lookup G n = Some d ->
          match d_kind d with
          | DStruct _ _ | DScalar => has_ptr_copy (gs_out st) n = true /\ find_into (gs_out st) n <> None
          | DMap _ _ => has_map_methods (gs_out st) n = true
          | DIface => True
          end) as Hmeth.
  { intros n d Hn Hl. rewrite Hout. pose proof (emit_cases G n d Hl) as Hc.
    destruct (d_kind d) as [tp fs|k e| |].
    - destruct Hc as [body [deps [_ [He _]]]]. split.
      + apply has_ptr_copy_flat_map_in; [exact Hn|]. rewrite He, has_ptr_copy_app, has_ptr_copy_obj. cbn.
        rewrite bytes_eqb_refl. reflexivity.
      + rewrite (find_into_flat_map_in G _ n body Hn); [discriminate|]. rewrite He, find_into_app, find_into_obj.
        cbn. rewrite bytes_eqb_refl. reflexivity.
    - destruct Hc as [He _]. apply has_map_methods_flat_map_in; [exact Hn|]. rewrite He. unfold has_map_methods.
      rewrite !existsb_app. cbn. rewrite bytes_eqb_refl. rewrite !orb_true_r. reflexivity.
    - destruct Hc as [He _]. split.
      + apply has_ptr_copy_flat_map_in; [exact Hn|]. rewrite He, has_ptr_copy_app, has_ptr_copy_obj. cbn.
        rewrite bytes_eqb_refl. reflexivity.
      + rewrite (find_into_flat_map_in G _ n [SStar] Hn); [discriminate|]. rewrite He, find_into_app, find_into_obj.
        cbn. rewrite bytes_eqb_refl. reflexivity.
    - exact I. }
  constructor.
  - (* callees *)
    intros n body Hf. rewrite Hout in Hf. apply find_into_flat_map in Hf. destruct Hf as [Hn Hf].
    destruct (find_into_emit _ _ _ _ Hf) as [_ [d [Hl Hcase]]]. exists d. split; [exact Hl|].
    destruct Hcase as [Hs|[tp [fs [deps [Hk [Hfc Hdeps]]]]]]; [left; exact Hs|]. right. exists tp, fs, deps.
    split; [exact Hk|]. split; [exact Hfc|]. intros f c args Hin.
    destruct (HE n Hn) as [_ [_ [_ HinP]]].
    assert (forall dc, lookup G c = Some dc -> d_kind dc <> DIface -> In c (emitted G P)) as Hc.
    { intros dc Hlc Hkc. apply (HE' c dc); [|exact Hlc|exact Hkc].
      apply (Hclosed (n, []) HinP). cbn [fst]. rewrite Hdeps. apply in_map_iff. exists (c, args). split; [reflexivity|].
      eapply fields_copy_deps_complete; [exact Hfc|exact Hin|].
      rewrite Hlc. destruct dc as [dn dk dt di dh]. cbn in *. destruct dk; try reflexivity. congruence. }
    split.
    + intros Hm. destruct (lookup G c) as [dc|] eqn:Hlc; [|discriminate].
      destruct (proj1 (is_map_kind G c dc Hlc)) as [k [e Hkc]]; [rewrite Hlc; exact Hm|].
      assert (In c (emitted G P)) as HcE by (apply (Hc dc eq_refl); congruence).
      pose proof (Hmeth c dc HcE Hlc) as Hmc. rewrite Hkc in Hmc. exact Hmc.
    + intros dc Hlc Hkc.
      assert (In c (emitted G P)) as HcE.
      { apply (Hc dc Hlc). destruct Hkc as [E|[tp' [fs' E]]]; rewrite E; discriminate. }
      pose proof (Hmeth c dc HcE Hlc) as Hmc.
      destruct Hkc as [E|[tp' [fs' E]]]; rewrite E in Hmc; apply Hmc.
  - (* roots *)
    intros n d Hin Hl He. pose proof (Hroots n d Hin Hl He) as HinP.
    destruct (d_kind d) eqn:Hk; try exact I;
      (assert (In n (emitted G P)) as HnE by (apply (HE' n d HinP Hl); congruence));
      pose proof (Hmeth n d HnE Hl) as Hm; rewrite Hk in Hm; exact Hm.
  - (* once *)
    exists (emitted G P). split; [|exact Hout]. unfold emitted. apply NoDup_rev. apply NoDup_map_filter. exact Hnd.
  - (* no method declared twice *)
    rewrite Hout. rewrite map_flat_map. apply NoDup_flat_map.
    + intros x. apply emit_ids.
    + intros x y b Hx Hy. destruct (proj2 (emit_ids G x) b Hx) as [k1 E1]. destruct (proj2 (emit_ids G y) b Hy) as [k2 E2].
      congruence.
    + unfold emitted. apply NoDup_rev. apply NoDup_map_filter. exact Hnd.
  - (* receivers of DeepCopyObject *)
    intros t tp i p Hin. rewrite Hout in Hin. apply in_flat_map in Hin. destruct Hin as [n [_ Hin]].
    destruct (emit_object _ _ _ _ _ _ Hin) as [-> ->]. reflexivity.
Qed.

Lemma gen_well_formed : forall G fuel order vis ms,
  dom G -> vis_ok G vis -> gen_deepcopy fuel all_fixed G order vis = Ok ms -> well_formed G order ms.
Proof.
  intros G fuel order vis ms Hdom Hv H. rewrite gen_deepcopy_vis in H by assumption.
  eapply gen_well_formed_first; eassumption.
Qed.
